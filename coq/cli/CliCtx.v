(* CliCtx: the invariant relating watcher states, slot contexts, the pending set and the
   stop state of the client model (a blocked watcher has a live context; a registered,
   unanswered request is pending; stop and the end of the caller's context cancel every
   pending slot; a value written by a watcher is the context's / stop's own error). *)
From Coq Require Import List NArith ZArith Bool Arith Lia.
From RecordUpdate Require Import RecordUpdate.
From JV Require Import Bytes Msg CliModel CliLemmas CliInv CliRet.
Import ListNotations.

(* why the context of a slot is done with cause w: the caller's context ended with w, or the
   client stopped (stopLocked cancels every pending request) *)
Definition cause (s : state) (sl : slot) (w : why) : Prop :=
  (exists o, op_at s (sl_op sl) = Some o /\ o_ctx o = Some w) \/ (w = WCancel /\ err s <> None).

(* the value a watcher writes: the context's own error, or an internal error carrying the
   stop cause when the client had already stopped for an interesting reason *)
Definition wval (s : state) (sl : slot) (w : why) (v : val) : Prop :=
  exists e0, v = mkVal (id_text (sl_id sl)) (Some (watch_werr e0 (Some w))) [] SWatch /\ (e0 = None \/ e0 = err s).

Definition watch_ok (sl : slot) : Prop :=
  match sl_watch sl with WNone => False | WBlocked => sl_pctx sl = None | WParked | WDone => sl_pctx sl <> None end.

Record invC (s : state) : Prop := {
  c_unreg : forall i sl, slot_at s i = Some sl -> sl_reg sl = false -> sl_pctx sl = None /\ sl_watch sl = WNone;
  c_watch : forall i sl, slot_at s i = Some sl -> sl_reg sl = true -> watch_ok sl;
  c_inpend : forall i sl, slot_at s i = Some sl -> sl_reg sl = true -> sl_buf sl = None ->
               In (id_text (sl_id sl), i) (pending s) /\ sl_watch sl <> WDone;
  c_cause : forall i sl w, slot_at s i = Some sl -> sl_buf sl = None -> sl_pctx sl = Some w -> cause s sl w;
  c_wsrc : forall i sl v, slot_at s i = Some sl -> sl_buf sl = Some v -> v_src v = SWatch ->
             exists w, sl_pctx sl = Some w /\ cause s sl w /\ wval s sl w v;
  c_stop : forall i sl, slot_at s i = Some sl -> sl_reg sl = true -> sl_buf sl = None -> err s <> None -> sl_pctx sl <> None;
  c_ctx : forall i sl o, slot_at s i = Some sl -> sl_reg sl = true -> op_at s (sl_op sl) = Some o -> o_ctx o <> None ->
            sl_pctx sl <> None
}.

(** * cancel_slot *)
Lemma cancel_slot_fields w sl :
  sl_op (cancel_slot w sl) = sl_op sl /\ sl_id (cancel_slot w sl) = sl_id sl /\ sl_reg (cancel_slot w sl) = sl_reg sl
  /\ sl_buf (cancel_slot w sl) = sl_buf sl /\ sl_settled (cancel_slot w sl) = sl_settled sl.
Proof. unfold cancel_slot. destruct (sl_pctx sl); cbn; auto. Qed.

Lemma cancel_slot_pctx w sl :
  sl_pctx (cancel_slot w sl) = match sl_pctx sl with Some x => Some x | None => Some w end.
Proof. unfold cancel_slot. destruct (sl_pctx sl) eqn:E; cbn; auto. Qed.

Lemma cancel_slot_pctx_some w sl : sl_pctx (cancel_slot w sl) <> None.
Proof. rewrite cancel_slot_pctx. destruct (sl_pctx sl); discriminate. Qed.

Lemma cancel_slot_id w sl x : sl_pctx sl = Some x -> cancel_slot w sl = sl.
Proof. unfold cancel_slot. intros ->. reflexivity. Qed.

Lemma cancel_slot_idem w w' sl : cancel_slot w' (cancel_slot w sl) = cancel_slot w sl.
Proof.
  destruct (sl_pctx (cancel_slot w sl)) as [x|] eqn:E.
  - eapply cancel_slot_id; eauto.
  - exfalso. eapply cancel_slot_pctx_some; eauto.
Qed.

Lemma watch_ok_cancel w sl : watch_ok sl -> watch_ok (cancel_slot w sl).
Proof.
  unfold watch_ok, cancel_slot. destruct (sl_pctx sl) eqn:E; [rewrite E; auto|].
  cbn. destruct (sl_watch sl); auto; discriminate.
Qed.

Lemma cancel_slot_unreg_watch w sl : sl_watch sl = WNone -> sl_watch (cancel_slot w sl) = WNone.
Proof. unfold cancel_slot. destruct (sl_pctx sl); cbn; auto. intros ->. reflexivity. Qed.

Lemma cancel_slot_not_done w sl : sl_watch sl <> WDone -> sl_watch (cancel_slot w sl) <> WDone.
Proof. unfold cancel_slot. destruct (sl_pctx sl); cbn; auto. destruct (sl_watch sl); auto; discriminate. Qed.

(** * frames *)
Definition ctx_frame (s s' : state) : Prop :=
  forall n, (exists o o', op_at s n = Some o /\ op_at s' n = Some o' /\ o_ctx o' = o_ctx o)
         \/ (op_at s n = None /\ forall o', op_at s' n = Some o' -> o_ctx o' = None).

Lemma cause_frame s s' sl w : ctx_frame s s' -> err s' = err s -> cause s sl w -> cause s' sl w.
Proof.
  intros F E [(o & H1 & H2)|[H1 H2]]; [left|right; rewrite E; auto].
  destruct (F (sl_op sl)) as [(o1 & o' & A & B & C)|[A _]]; [|congruence].
  exists o'. split; auto. congruence.
Qed.

Lemma wval_frame s s' sl w v : err s' = err s -> wval s sl w v -> wval s' sl w v.
Proof. intros E (e0 & H1 & H2). exists e0. rewrite E. auto. Qed.

Lemma invC_frame s s' :
  slots s' = slots s -> pending s' = pending s -> err s' = err s -> ctx_frame s s' -> invC s -> invC s'.
Proof.
  intros Es Ep Ee F C. constructor; unfold slot_at; rewrite ?Es, ?Ep, ?Ee; fold (slot_at s).
  - apply C.
  - apply C.
  - apply C.
  - intros i sl w H1 H2 H3. eapply cause_frame; eauto. eapply (c_cause _ C); eauto.
  - intros i sl v H1 H2 H3. destruct (c_wsrc _ C _ _ _ H1 H2 H3) as (w & A & B & D).
    exists w. split; auto. split; [eapply cause_frame; eauto|eapply wval_frame; eauto].
  - apply C.
  - intros i sl o' H1 H2 H3 H4. destruct (F (sl_op sl)) as [(o & o2 & A & B & D)|[A B]].
    + eapply (c_ctx _ C); eauto. congruence.
    + exfalso. apply H4. auto.
Qed.

Lemma ctx_frame_refl s s' : ops s' = ops s -> ctx_frame s s'.
Proof.
  intros E n. unfold op_at. rewrite E. destruct (nth_error (ops s) n) as [o|]; [left; eauto|right; split; auto; discriminate].
Qed.

Lemma ctx_frame_set_op s s' n g : ops s' = ops (set_op n g s) -> (forall o, o_ctx (g o) = o_ctx o) -> ctx_frame s s'.
Proof.
  intros E Hg m. unfold op_at at 2 4. rewrite E. fold (op_at (set_op n g s) m). rewrite op_at_set_op.
  destruct (op_at s m) as [o|] eqn:Eo.
  - left. destruct (n =? m); cbn; eauto.
  - right. split; auto. destruct (n =? m); cbn; discriminate.
Qed.

Lemma ctx_frame_new s s' o0 n g :
  ops s' = upd_nth n g (ops s ++ [o0]) -> o_ctx o0 = None -> (forall o, o_ctx (g o) = o_ctx o) -> ctx_frame s s'.
Proof.
  intros E H0 Hg m. unfold op_at at 2 4. rewrite E, nth_error_upd_nth.
  destruct (op_at s m) as [o|] eqn:Eo.
  - left. unfold op_at in Eo. rewrite (nth_error_app_old _ [o0] _ _ Eo).
    destruct (n =? m); cbn; eauto.
  - right. split; auto. intros o' H. unfold op_at in Eo.
    assert (L : length (ops s) <= m) by (apply nth_error_None; auto).
    rewrite nth_error_app2 in H by auto.
    destruct (m - length (ops s)) as [|x]; cbn in H.
    + destruct (n =? m); cbn in H; injection H as <-; rewrite ?Hg; auto.
    + destruct x; destruct (n =? m); discriminate.
Qed.

Lemma ctx_frame_trans s1 s2 s3 : ctx_frame s1 s2 -> ctx_frame s2 s3 -> ctx_frame s1 s3.
Proof.
  intros F G n. destruct (F n) as [(o & o' & A & B & C)|[A B]].
  - destruct (G n) as [(o2 & o3 & A2 & B2 & C2)|[A2 _]]; [|congruence].
    left. exists o, o3. split; auto. split; auto. congruence.
  - right. split; auto. intros o3 H. destruct (G n) as [(o2 & o3' & A2 & B2 & C2)|[A2 B2]]; auto.
    rewrite H in B2. injection B2 as <-. rewrite C2. auto.
Qed.

(** * explicit forms of the helper functions in reachable states *)
Lemma in_assoc_del_other {A} k (m : list (bytes * A)) p : In p m -> fst p <> k -> In p (assoc_del k m).
Proof.
  induction m as [|[k2 v2] m IH]; cbn; auto. intros [<-|H] N.
  - cbn in N. destruct (beq_spec k k2); [congruence|left; auto].
  - destruct (beq_spec k k2); [auto|right; auto].
Qed.

Lemma in_assoc_some {A} k (m : list (bytes * A)) v : In (k, v) m -> assoc k m <> None.
Proof. intros H E. apply assoc_none in E. apply E. apply in_map_iff. exists (k, v); auto. Qed.

Lemma slot_key s i sl : inv1 s -> slot_at s i = Some sl -> id_text (sl_id sl) = id_text (S i).
Proof. intros I H. rewrite (i_ids _ (proj1 I) _ _ H). reflexivity. Qed.

Lemma slot_key_inj s i j sl sl' : inv1 s -> slot_at s i = Some sl -> slot_at s j = Some sl' ->
  id_text (sl_id sl) = id_text (sl_id sl') -> i = j.
Proof.
  intros I H H' E. apply id_text_inj in E. rewrite (i_ids _ (proj1 I) _ _ H), (i_ids _ (proj1 I) _ _ H') in E. congruence.
Qed.

Lemma pending_slot s key i : inv1 s -> In (key, i) (pending s) ->
  exists sl, slot_at s i = Some sl /\ key = id_text (sl_id sl) /\ sl_reg sl = true /\ sl_buf sl = None.
Proof. intros I H. apply (i_pend _ (proj1 I) _ _ H). Qed.

Lemma pending_of_slot s i sl i' : inv1 s -> slot_at s i = Some sl -> In (id_text (sl_id sl), i') (pending s) -> i' = i.
Proof.
  intros I H Hin. destruct (pending_slot _ _ _ I Hin) as (sl' & H1 & H2 & _). symmetry. eapply slot_key_inj; eauto.
Qed.

Lemma write_pending_eq s key i v : inv1 s -> In (key, i) (pending s) ->
  write_slot i v (s <| pending ::= assoc_del key |>)
  = set_slot i (fun sl => sl <| sl_buf := Some v |>) (s <| pending ::= assoc_del key |>).
Proof.
  intros I Hin. destruct (pending_slot _ _ _ I Hin) as (sl & Hs & _ & _ & Hb).
  unfold write_slot. replace (slot_at (s <| pending ::= assoc_del key |>) i) with (slot_at s i) by reflexivity.
  rewrite Hs, Hb. reflexivity.
Qed.

Lemma settle_slot_eq s i : inv1 s ->
  settle_slot i s = s
  \/ exists sl v, slot_at s i = Some sl /\ sl_buf sl = Some v /\ sl_settled sl = false
       /\ settle_slot i s = set_slot i (fun sl => cancel_slot WCancel (sl <| sl_settled := true |>)) s.
Proof.
  intros I. unfold settle_slot. destruct (slot_at s i) as [sl|] eqn:E; auto.
  destruct (sl_buf sl) as [v|] eqn:Eb; auto. destruct (sl_settled sl) eqn:Et; auto.
  right. exists sl, v. rewrite (i_val _ (proj1 I) _ _ _ E Eb), beq_refl. auto.
Qed.

Lemma register_eq ctx i s sl : inv1w s -> slot_at s i = Some sl -> sl_reg sl = false ->
  register ctx i s
  = set_slot i (fun sl0 => sl0 <| sl_reg := true |> <| sl_pctx := ctx |>
                               <| sl_watch := match ctx with Some _ => WParked | None => WBlocked end |>)
             (s <| pending ::= fun p => (id_text (sl_id sl), i) :: p |>).
Proof.
  intros W Hs Hr.
  assert (Hn : assoc (id_text (sl_id sl)) (pending s) = None).
  { destruct (assoc (id_text (sl_id sl)) (pending s)) as [i'|] eqn:E; auto. apply assoc_in in E.
    destruct (i_pend _ W _ _ E) as (sl' & H1 & H2 & H3 & H4). apply id_text_inj in H2.
    rewrite (i_ids _ W _ _ Hs), (i_ids _ W _ _ H1) in H2. injection H2 as ->. congruence. }
  unfold register. rewrite Hs, Hn. cbn [is_some]. f_equal. apply upd_pending_ext.
  rewrite (assoc_del_none _ _ Hn). reflexivity.
Qed.

(** * a value is written to a pending slot *)
Lemma invC_write s key i v : inv1 s -> invC s -> In (key, i) (pending s) ->
  (v_src v = SWatch -> forall sl, slot_at s i = Some sl -> exists w, sl_pctx sl = Some w /\ wval s sl w v) ->
  invC (set_slot i (fun sl => sl <| sl_buf := Some v |>) (s <| pending ::= assoc_del key |>)).
Proof.
  intros I C Hin Hv. destruct (pending_slot _ _ _ I Hin) as (sl & Hs & Hk & Hr & Hb).
  set (f := fun sl0 : slot => sl0 <| sl_buf := Some v |>).
  set (s' := set_slot i f _).
  assert (Hsl : forall j, slot_at s' j = if i =? j then option_map f (slot_at s j) else slot_at s j)
    by (intros; unfold s'; rewrite slot_at_set_slot; reflexivity).
  assert (Hop : forall n, op_at s' n = op_at s n) by reflexivity.
  assert (Hpe : pending s' = assoc_del key (pending s)) by reflexivity.
  assert (Her : err s' = err s) by reflexivity.
  assert (Hca : forall sl0 w, cause s sl0 w -> cause s' sl0 w).
  { intros sl0 w [(o & A & B)|[A B]]; [left; exists o; rewrite Hop; auto|right; rewrite Her; auto]. }
  clearbody s'.
  assert (Hat : forall j sl', slot_at s' j = Some sl' ->
            (j = i /\ sl' = f sl) \/ (j <> i /\ slot_at s j = Some sl')).
  { intros j sl' H. rewrite Hsl in H. destruct (Nat.eqb_spec i j) as [<-|N]; [|auto].
    rewrite Hs in H. injection H as <-. auto. }
  constructor.
  - intros j sl' H R. destruct (Hat _ _ H) as [[-> ->]|[N H1]]; [cbn in R; congruence|eapply (c_unreg _ C); eauto].
  - intros j sl' H R. destruct (Hat _ _ H) as [[-> ->]|[N H1]]; [|eapply (c_watch _ C); eauto].
    apply (c_watch _ C _ _ Hs Hr).
  - intros j sl' H R B. destruct (Hat _ _ H) as [[-> ->]|[N H1]]; [discriminate|].
    destruct (c_inpend _ C _ _ H1 R B) as [A1 A2]. split; auto. rewrite Hpe.
    apply in_assoc_del_other; auto. cbn. intros E. apply N.
    rewrite <- E in Hin. symmetry. eapply (pending_of_slot s j sl' i); eauto.
  - intros j sl' w H B P. destruct (Hat _ _ H) as [[-> ->]|[N H1]]; [discriminate|].
    apply Hca. eapply (c_cause _ C); eauto.
  - intros j sl' v' H B S. destruct (Hat _ _ H) as [[-> ->]|[N H1]].
    + cbn in B. injection B as <-. destruct (Hv S _ Hs) as (w & A1 & A2).
      exists w. split; auto. split.
      * apply Hca. apply (c_cause _ C _ _ _ Hs Hb A1).
      * destruct A2 as (e0 & A3 & A4). exists e0. rewrite Her. auto.
    + destruct (c_wsrc _ C _ _ _ H1 B S) as (w & A1 & A2 & A3). exists w. split; auto. split; auto.
      destruct A3 as (e0 & A3 & A4). exists e0. rewrite Her. auto.
  - intros j sl' H R B. destruct (Hat _ _ H) as [[-> ->]|[N H1]]; [discriminate|].
    rewrite Her. eapply (c_stop _ C); eauto.
  - intros j sl' o H R Ho. rewrite Hop in Ho. destruct (Hat _ _ H) as [[-> ->]|[N H1]].
    + apply (c_ctx _ C _ _ _ Hs Hr Ho).
    + eapply (c_ctx _ C); eauto.
Qed.

(** * the first wait() settles a written slot *)
Lemma invC_settle s i : inv1 s -> invC s -> invC (settle_slot i s).
Proof.
  intros I C. destruct (settle_slot_eq s i I) as [->|(sl & v & Hs & Hb & Ht & ->)]; auto.
  set (f := fun sl0 : slot => cancel_slot WCancel (sl0 <| sl_settled := true |>)).
  set (s' := set_slot i f s).
  assert (Hr : sl_reg sl = true).
  { destruct (sl_reg sl) eqn:R; auto. rewrite (i_unreg _ (proj1 I) _ _ Hs R) in Hb. discriminate. }
  assert (Hsl : forall j, slot_at s' j = if i =? j then option_map f (slot_at s j) else slot_at s j)
    by (intros; unfold s'; rewrite slot_at_set_slot; reflexivity).
  assert (Hop : forall n, op_at s' n = op_at s n) by reflexivity.
  assert (Hpe : pending s' = pending s) by reflexivity.
  assert (Her : err s' = err s) by reflexivity.
  clearbody s'.
  assert (Hat : forall j sl', slot_at s' j = Some sl' -> (j = i /\ sl' = f sl) \/ (j <> i /\ slot_at s j = Some sl')).
  { intros j sl' H. rewrite Hsl in H. destruct (Nat.eqb_spec i j) as [<-|N]; [|auto].
    rewrite Hs in H. injection H as <-. auto. }
  assert (Hf : sl_op (f sl) = sl_op sl /\ sl_id (f sl) = sl_id sl /\ sl_reg (f sl) = sl_reg sl /\ sl_buf (f sl) = sl_buf sl).
  { unfold f. destruct (cancel_slot_fields WCancel (sl <| sl_settled := true |>)) as (A & B & D & E & _). auto. }
  destruct Hf as (F1 & F2 & F3 & F4).
  constructor.
  - intros j sl' H R. destruct (Hat _ _ H) as [[-> ->]|[N H1]]; [congruence|eapply (c_unreg _ C); eauto].
  - intros j sl' H R. destruct (Hat _ _ H) as [[-> ->]|[N H1]]; [|eapply (c_watch _ C); eauto].
    unfold f. apply watch_ok_cancel. apply (c_watch _ C _ _ Hs Hr).
  - intros j sl' H R B. destruct (Hat _ _ H) as [[-> ->]|[N H1]]; [congruence|].
    rewrite Hpe. eapply (c_inpend _ C); eauto.
  - intros j sl' w H B P. destruct (Hat _ _ H) as [[-> ->]|[N H1]]; [congruence|].
    destruct (c_cause _ C _ _ _ H1 B P) as [(o & A1 & A2)|A]; [left; exists o; rewrite Hop; auto|right; rewrite Her; auto].
  - intros j sl' v' H B S. destruct (Hat _ _ H) as [[-> ->]|[N H1]].
    + rewrite F4 in B. destruct (c_wsrc _ C _ _ _ Hs B S) as (w & A1 & A2 & A3).
      assert (E : f sl = sl <| sl_settled := true |>) by (unfold f; eapply cancel_slot_id; cbn; eauto).
      rewrite E. exists w. split; auto. split.
      * destruct A2 as [(o & A4 & A5)|A]; [left; exists o; rewrite Hop; auto|right; rewrite Her; auto].
      * destruct A3 as (e0 & A3 & A4). exists e0. rewrite Her. auto.
    + destruct (c_wsrc _ C _ _ _ H1 B S) as (w & A1 & A2 & A3). exists w. split; auto. split.
      * destruct A2 as [(o & A4 & A5)|A]; [left; exists o; rewrite Hop; auto|right; rewrite Her; auto].
      * destruct A3 as (e0 & A3 & A4). exists e0. rewrite Her. auto.
  - intros j sl' H R B. destruct (Hat _ _ H) as [[-> ->]|[N H1]]; [congruence|].
    rewrite Her. eapply (c_stop _ C); eauto.
  - intros j sl' o H R Ho. rewrite Hop in Ho. destruct (Hat _ _ H) as [[-> ->]|[N H1]].
    + intros _. unfold f. apply cancel_slot_pctx_some.
    + eapply (c_ctx _ C); eauto.
Qed.

(** * cancelling a set of registered slots (end of the caller's context, stopLocked) *)
Lemma cause_cancel s w sl w0 : cause s (cancel_slot w sl) w0 <-> cause s sl w0.
Proof. unfold cause. destruct (cancel_slot_fields w sl) as (-> & _). tauto. Qed.

Lemma wval_cancel s w sl w0 v : wval s (cancel_slot w sl) w0 v <-> wval s sl w0 v.
Proof. unfold wval. destruct (cancel_slot_fields w sl) as (_ & -> & _). tauto. Qed.

Lemma invC_cancel s s' w :
  pending s' = pending s ->
  (forall i sl', slot_at s' i = Some sl' -> exists sl, slot_at s i = Some sl /\
       (sl' = sl \/ (sl' = cancel_slot w sl /\ sl_reg sl = true /\ cause s' sl w))) ->
  (forall sl w0, cause s sl w0 -> cause s' sl w0) ->
  (forall sl w0 v, wval s sl w0 v -> wval s' sl w0 v) ->
  (forall i sl', slot_at s' i = Some sl' -> sl_reg sl' = true -> sl_buf sl' = None -> err s' <> None -> sl_pctx sl' <> None) ->
  (forall i sl' o', slot_at s' i = Some sl' -> sl_reg sl' = true -> op_at s' (sl_op sl') = Some o' -> o_ctx o' <> None ->
                    sl_pctx sl' <> None) ->
  invC s -> invC s'.
Proof.
  intros Ep Hat Hca Hwv Hst Hcx C. constructor; auto.
  - intros j sl' H R. destruct (Hat _ _ H) as (sl & H1 & [->|(-> & R1 & _)]); [eapply (c_unreg _ C); eauto|].
    destruct (cancel_slot_fields w sl) as (_ & _ & E & _). congruence.
  - intros j sl' H R. destruct (Hat _ _ H) as (sl & H1 & [->|(-> & R1 & _)]); [eapply (c_watch _ C); eauto|].
    apply watch_ok_cancel. eapply (c_watch _ C); eauto.
  - intros j sl' H R B. rewrite Ep. destruct (Hat _ _ H) as (sl & H1 & [->|(-> & R1 & _)]); [eapply (c_inpend _ C); eauto|].
    destruct (cancel_slot_fields w sl) as (_ & Ei & _ & Eb & _). rewrite Eb in B. rewrite Ei.
    destruct (c_inpend _ C _ _ H1 R1 B) as [A1 A2]. split; auto. apply cancel_slot_not_done; auto.
  - intros j sl' w0 H B P. destruct (Hat _ _ H) as (sl & H1 & [->|(-> & R1 & Hc)]).
    + apply Hca. eapply (c_cause _ C); eauto.
    + apply cause_cancel. destruct (cancel_slot_fields w sl) as (_ & _ & _ & Eb & _). rewrite Eb in B.
      rewrite cancel_slot_pctx in P. destruct (sl_pctx sl) as [x|] eqn:Ex.
      * injection P as ->. apply Hca. eapply (c_cause _ C); eauto.
      * injection P as <-. auto.
  - intros j sl' v H B S. destruct (Hat _ _ H) as (sl & H1 & [->|(-> & R1 & Hc)]).
    + destruct (c_wsrc _ C _ _ _ H1 B S) as (w1 & A1 & A2 & A3). exists w1. split; auto.
    + destruct (cancel_slot_fields w sl) as (_ & _ & _ & Eb & _). rewrite Eb in B.
      destruct (c_wsrc _ C _ _ _ H1 B S) as (w1 & A1 & A2 & A3).
      rewrite (cancel_slot_id w sl w1 A1). exists w1. split; auto.
Qed.

Lemma fold_cancel_slots l : forall sls j sl',
  nth_error (fold_left (fun sls (p : bytes * nat) => upd_nth (snd p) (cancel_slot WCancel) sls) l sls) j = Some sl' ->
  exists sl, nth_error sls j = Some sl /\ (In j (map snd l) -> sl' = cancel_slot WCancel sl) /\ (~ In j (map snd l) -> sl' = sl).
Proof.
  induction l as [|p r IH]; intros sls j sl' H; cbn in *.
  - exists sl'. split; auto. split; tauto.
  - destruct (IH _ _ _ H) as (sl1 & H1 & H2 & H3). rewrite nth_error_upd_nth in H1.
    destruct (Nat.eqb_spec (snd p) j) as [E|N].
    + destruct (nth_error sls j) as [sl|] eqn:Es; [|discriminate]. cbn in H1. injection H1 as <-.
      exists sl. split; auto. split; [|tauto]. intros _.
      destruct (in_dec Nat.eq_dec j (map snd r)) as [Hin|Hn].
      * rewrite (H2 Hin). apply cancel_slot_idem.
      * apply H3; auto.
    + exists sl1. split; auto. split; [intros [?|?]; [congruence|auto]|]. intros Hn. apply H3. tauto.
Qed.

Lemma stop_locked_eq c s s1 b : err s = None -> stop_locked c s = (s1, b) ->
  b = true /\ ops s1 = ops s /\ pending s1 = pending s /\ err s1 = Some c /\ delivs s1 = delivs s
  /\ slots s1 = fold_left (fun sls (p : bytes * nat) => upd_nth (snd p) (cancel_slot WCancel) sls) (pending s) (slots s)
  /\ hist s1 = hist s ++ [OClose] /\ c_oncancel s1 = c_oncancel s.
Proof.
  intros E H. unfold stop_locked in H. rewrite E in H. rewrite fold_cancel_eq in H. injection H as <- <-.
  destruct (c_unblock _); cbn; splits; auto.
Qed.

Lemma invC_stop c s s1 b : inv1 s -> invC s -> stop_locked c s = (s1, b) -> invC s1.
Proof.
  intros I C H. destruct (err s) as [c0|] eqn:Ee.
  - unfold stop_locked in H. rewrite Ee in H. injection H as <- <-. auto.
  - destruct (stop_locked_eq _ _ _ _ Ee H) as (_ & Eo & Ep & Ee1 & _ & Es & _).
    assert (Hat : forall j sl', slot_at s1 j = Some sl' -> exists sl, slot_at s j = Some sl
               /\ (In j (map snd (pending s)) -> sl' = cancel_slot WCancel sl) /\ (~ In j (map snd (pending s)) -> sl' = sl)).
    { intros j sl' Hj. unfold slot_at in Hj. rewrite Es in Hj. apply fold_cancel_slots in Hj. exact Hj. }
    assert (Hop : forall n, op_at s1 n = op_at s n) by (intros; unfold op_at; rewrite Eo; auto).
    apply (invC_cancel s s1 WCancel); auto.
    + intros j sl' Hj. destruct (Hat _ _ Hj) as (sl & H1 & H2 & H3). exists sl. split; auto.
      destruct (in_dec Nat.eq_dec j (map snd (pending s))) as [Hin|Hn]; [right|left; auto].
      split; auto. apply in_map_iff in Hin. destruct Hin as ([key j'] & E1 & Hin). cbn in E1. subst j'.
      destruct (pending_slot _ _ _ I Hin) as (sl0 & A1 & _ & A3 & _). rewrite H1 in A1. injection A1 as <-.
      split; auto. right. split; auto. rewrite Ee1. discriminate.
    + intros sl w0 [(o & A1 & A2)|[A1 A2]]; [left; exists o; rewrite Hop; auto|congruence].
    + intros sl w0 v (e0 & A1 & A2). exists e0. split; auto. rewrite Ee in A2. tauto.
    + intros j sl' Hj R B _. destruct (Hat _ _ Hj) as (sl & H1 & H2 & H3).
      destruct (in_dec Nat.eq_dec j (map snd (pending s))) as [Hin|Hn].
      * rewrite (H2 Hin). apply cancel_slot_pctx_some.
      * rewrite (H3 Hn) in *. exfalso. apply Hn. destruct (c_inpend _ C _ _ H1 R B) as [A _].
        apply in_map_iff. eexists; split; [|exact A]. reflexivity.
    + intros j sl' o' Hj R Ho Hc. rewrite Hop in Ho. destruct (Hat _ _ Hj) as (sl & H1 & H2 & H3).
      destruct (in_dec Nat.eq_dec j (map snd (pending s))) as [Hin|Hn].
      * rewrite (H2 Hin). apply cancel_slot_pctx_some.
      * rewrite (H3 Hn) in *. eapply (c_ctx _ C); eauto.
Qed.

(** * registration of one request *)
Lemma invC_register ctx i s sl o : inv1w s -> invC s -> slot_at s i = Some sl -> sl_reg sl = false ->
  op_at s (sl_op sl) = Some o -> ctx = o_ctx o -> err s = None -> invC (register ctx i s).
Proof.
  intros W C Hs Hr Ho Hc Ee. rewrite (register_eq ctx i s sl W Hs Hr).
  set (f := fun sl0 : slot => sl0 <| sl_reg := true |> <| sl_pctx := ctx |>
                               <| sl_watch := match ctx with Some _ => WParked | None => WBlocked end |>).
  set (s' := set_slot i f _).
  assert (Hsl : forall j, slot_at s' j = if i =? j then option_map f (slot_at s j) else slot_at s j)
    by (intros; unfold s'; rewrite slot_at_set_slot; reflexivity).
  assert (Hop : forall n, op_at s' n = op_at s n) by reflexivity.
  assert (Hpe : pending s' = (id_text (sl_id sl), i) :: pending s) by reflexivity.
  assert (Her : err s' = err s) by reflexivity.
  clearbody s'.
  assert (Hat : forall j sl', slot_at s' j = Some sl' -> (j = i /\ sl' = f sl) \/ (j <> i /\ slot_at s j = Some sl')).
  { intros j sl' H. rewrite Hsl in H. destruct (Nat.eqb_spec i j) as [<-|N]; [|auto].
    rewrite Hs in H. injection H as <-. auto. }
  assert (Hb : sl_buf sl = None) by (eapply (i_unreg _ W); eauto).
  assert (Hca : forall sl0 w, cause s sl0 w -> cause s' sl0 w).
  { intros sl0 w [(o0 & A & B)|[A B]]; [left; exists o0; rewrite Hop; auto|right; rewrite Her; auto]. }
  constructor.
  - intros j sl' H R. destruct (Hat _ _ H) as [[-> ->]|[N H1]]; [discriminate|eapply (c_unreg _ C); eauto].
  - intros j sl' H R. destruct (Hat _ _ H) as [[-> ->]|[N H1]]; [|eapply (c_watch _ C); eauto].
    unfold watch_ok, f. cbn. destruct ctx; [discriminate|reflexivity].
  - intros j sl' H R B. rewrite Hpe. destruct (Hat _ _ H) as [[-> ->]|[N H1]].
    + split; [left; reflexivity|]. unfold f; cbn. destruct ctx; discriminate.
    + destruct (c_inpend _ C _ _ H1 R B). split; [right|]; auto.
  - intros j sl' w H B P. destruct (Hat _ _ H) as [[-> ->]|[N H1]].
    + left. exists o. rewrite Hop. split; auto. cbn in P. congruence.
    + apply Hca. eapply (c_cause _ C); eauto.
  - intros j sl' v H B S. destruct (Hat _ _ H) as [[-> ->]|[N H1]]; [cbn in B; congruence|].
    destruct (c_wsrc _ C _ _ _ H1 B S) as (w & A1 & A2 & A3). exists w. split; auto. split; auto.
    destruct A3 as (e0 & A3 & A4). exists e0. rewrite Her. auto.
  - intros j sl' H R B. rewrite Her. destruct (Hat _ _ H) as [[-> ->]|[N H1]]; [congruence|eapply (c_stop _ C); eauto].
  - intros j sl' o' H R Ho'. rewrite Hop in Ho'. destruct (Hat _ _ H) as [[-> ->]|[N H1]].
    + unfold f in Ho' |- *. cbn in Ho' |- *. unfold op_at in Ho. rewrite Ho in Ho'. injection Ho' as <-. rewrite Hc. auto.
    + eapply (c_ctx _ C); eauto.
Qed.

(** * a fresh, unregistered slot *)
Lemma invC_app s s' sl0 :
  slots s' = slots s ++ [sl0] -> sl_reg sl0 = false -> sl_pctx sl0 = None -> sl_watch sl0 = WNone -> sl_buf sl0 = None ->
  pending s' = pending s -> err s' = err s -> ctx_frame s s' -> invC s -> invC s'.
Proof.
  intros Es R0 P0 W0 B0 Ep Ee F C.
  assert (Hat : forall j sl', slot_at s' j = Some sl' -> slot_at s j = Some sl' \/ sl' = sl0).
  { intros j sl' H. unfold slot_at in H. rewrite Es in H. destruct (nth_error_snoc _ _ _ _ H) as [[_ ?]|[_ ?]]; auto. }
  constructor.
  - intros j sl' H R. destruct (Hat _ _ H) as [H1| ->]; [eapply (c_unreg _ C); eauto|auto].
  - intros j sl' H R. destruct (Hat _ _ H) as [H1| ->]; [eapply (c_watch _ C); eauto|congruence].
  - intros j sl' H R B. rewrite Ep. destruct (Hat _ _ H) as [H1| ->]; [eapply (c_inpend _ C); eauto|congruence].
  - intros j sl' w H B P. destruct (Hat _ _ H) as [H1| ->]; [|congruence].
    eapply cause_frame; eauto. eapply (c_cause _ C); eauto.
  - intros j sl' v H B S. destruct (Hat _ _ H) as [H1| ->]; [|congruence].
    destruct (c_wsrc _ C _ _ _ H1 B S) as (w & A1 & A2 & A3). exists w. split; auto.
    split; [eapply cause_frame; eauto|eapply wval_frame; eauto].
  - intros j sl' H R B. rewrite Ee. destruct (Hat _ _ H) as [H1| ->]; [eapply (c_stop _ C); eauto|congruence].
  - intros j sl' o' H R Ho Hc. destruct (Hat _ _ H) as [H1| ->]; [|congruence].
    destruct (F (sl_op sl')) as [(o & o2 & A & B & D)|[A B]].
    + eapply (c_ctx _ C); eauto. congruence.
    + exfalso. apply Hc. auto.
Qed.

Lemma register_err ctx i s : err (register ctx i s) = err s.
Proof. unfold register. destruct (slot_at s i); auto. destruct (is_some _); reflexivity. Qed.

Lemma invC_register_fold ctx n o L : forall s, inv1w s -> invC s -> NoDup L -> err s = None ->
  op_at s n = Some o -> ctx = o_ctx o ->
  (forall i, In i L -> exists sl, slot_at s i = Some sl /\ sl_reg sl = false /\ sl_op sl = n) ->
  invC (fold_left (fun st i => register ctx i st) L s).
Proof.
  induction L as [|i r IH]; intros s W C ND Ee Ho Hc H; cbn; auto.
  inversion ND as [|? ? Hni ND']; subst.
  destruct (H i (or_introl eq_refl)) as (sl & Hs & Hr & Hn).
  destruct (register_ok (o_ctx o) i s sl W Hs Hr) as (W1 & E1 & _ & _ & Hother & _).
  apply IH; auto.
  - eapply invC_register; eauto. rewrite Hn. auto.
  - rewrite register_err. auto.
  - unfold op_at. rewrite E1. exact Ho.
  - intros j Hj. destruct (H j (or_intror Hj)) as (sl' & H1 & H2 & H3). exists sl'. split; auto.
    rewrite Hother; auto. intros ->. contradiction.
Qed.

Lemma upd_nth_ext {A} n (f g : A -> A) l : (forall x, f x = g x) -> upd_nth n f l = upd_nth n g l.
Proof. intros H. revert n; induction l as [|x l IH]; intros [|n]; cbn; auto; f_equal; auto. Qed.

Lemma watch_write_comm s i key v :
  set_slot i (fun sl => sl <| sl_buf := Some v |>) ((set_slot i (fun sl => sl <| sl_watch := WDone |>) s) <| pending ::= assoc_del key |>)
  = set_slot i (fun sl => sl <| sl_watch := WDone |>) (set_slot i (fun sl => sl <| sl_buf := Some v |>) (s <| pending ::= assoc_del key |>)).
Proof.
  unfold set_slot. destruct s. unfold set. cbn. f_equal. rewrite !upd_nth_comp. apply upd_nth_ext. intros []; reflexivity.
Qed.

Lemma invC_watch_done s i sl : invC s -> slot_at s i = Some sl -> sl_buf sl <> None -> sl_watch sl = WParked ->
  invC (set_slot i (fun sl => sl <| sl_watch := WDone |>) s).
Proof.
  intros C Hs Hb Hw.
  set (f := fun sl0 : slot => sl0 <| sl_watch := WDone |>).
  set (s' := set_slot i f s).
  assert (Hsl : forall j, slot_at s' j = if i =? j then option_map f (slot_at s j) else slot_at s j)
    by (intros; unfold s'; rewrite slot_at_set_slot; reflexivity).
  assert (Hop : forall n, op_at s' n = op_at s n) by reflexivity.
  assert (Hpe : pending s' = pending s) by reflexivity.
  assert (Her : err s' = err s) by reflexivity.
  clearbody s'.
  assert (Hat : forall j sl', slot_at s' j = Some sl' -> (j = i /\ sl' = f sl) \/ (j <> i /\ slot_at s j = Some sl')).
  { intros j sl' H. rewrite Hsl in H. destruct (Nat.eqb_spec i j) as [<-|N]; [|auto].
    rewrite Hs in H. injection H as <-. auto. }
  assert (Hca : forall sl0 w, cause s sl0 w -> cause s' sl0 w).
  { intros sl0 w [(o0 & A & B)|[A B]]; [left; exists o0; rewrite Hop; auto|right; rewrite Her; auto]. }
  assert (Hwv : forall sl0 w v, wval s sl0 w v -> wval s' sl0 w v).
  { intros sl0 w v (e0 & A & B). exists e0. rewrite Her. auto. }
  assert (Hr : sl_reg sl = true).
  { destruct (sl_reg sl) eqn:R; auto. destruct (c_unreg _ C _ _ Hs R) as [_ A]. congruence. }
  constructor.
  - intros j sl' H R. destruct (Hat _ _ H) as [[-> ->]|[N H1]]; [cbn in R; congruence|eapply (c_unreg _ C); eauto].
  - intros j sl' H R. destruct (Hat _ _ H) as [[-> ->]|[N H1]]; [|eapply (c_watch _ C); eauto].
    assert (A := c_watch _ C _ _ Hs Hr). unfold watch_ok in *. rewrite Hw in A. exact A.
  - intros j sl' H R B. destruct (Hat _ _ H) as [[-> ->]|[N H1]]; [cbn in B; contradiction|].
    rewrite Hpe. eapply (c_inpend _ C); eauto.
  - intros j sl' w H B P. destruct (Hat _ _ H) as [[-> ->]|[N H1]]; [cbn in B; contradiction|].
    apply Hca. eapply (c_cause _ C); eauto.
  - intros j sl' v H B S. destruct (Hat _ _ H) as [[-> ->]|[N H1]].
    + destruct (c_wsrc _ C _ _ _ Hs B S) as (w & A1 & A2 & A3). exists w. splits; auto.
    + destruct (c_wsrc _ C _ _ _ H1 B S) as (w & A1 & A2 & A3). exists w. splits; auto.
  - intros j sl' H R B. destruct (Hat _ _ H) as [[-> ->]|[N H1]]; [cbn in B; contradiction|].
    rewrite Her. eapply (c_stop _ C); eauto.
  - intros j sl' o' H R Ho'. rewrite Hop in Ho'. destruct (Hat _ _ H) as [[-> ->]|[N H1]].
    + apply (c_ctx _ C _ _ _ Hs Hr Ho').
    + eapply (c_ctx _ C); eauto.
Qed.

(** * deliverLocked *)
Lemma invC_deliver_member j k m s : inv1 s -> invC s -> invC (deliver_member j k m s).
Proof.
  intros I C. unfold deliver_member.
  assert (Fr : forall s', slots s' = slots s -> pending s' = pending s -> err s' = err s -> ops s' = ops s -> invC s').
  { intros s' E1 E2 E3 E4. apply (invC_frame s); auto. apply ctx_frame_refl; auto. }
  destruct (is_req_or_notif m).
  - destruct (is_notification m).
    + destruct (c_onnotify s); auto.
    + destruct (c_oncallback s); cbn; auto. destruct (err s) eqn:Ee; cbn; auto.
  - destruct (assoc (fix_id (j_id m)) (pending s)) as [i|] eqn:E; auto.
    apply assoc_in in E. rewrite (write_pending_eq _ _ _ _ I E). apply invC_write; auto.
    unfold val_of_member. destruct (j_err m); cbn; discriminate.
Qed.

Lemma invC_deliver_all j ms : forall k s, inv1 s -> invC s -> invC (deliver_all j k ms s).
Proof.
  induction ms as [|m r IH]; intros k s I C; cbn; auto.
  rewrite (i_crash _ (proj1 I)). apply IH; [apply deliver_member_inv1; auto|apply invC_deliver_member; auto].
Qed.

(** * the invariant holds in every reachable state *)
Lemma invC_init c : invC (init_of c).
Proof. constructor; unfold slot_at; cbn; intros [|i]; intros; discriminate. Qed.

Lemma invC_same s s' : slots s' = slots s -> pending s' = pending s -> err s' = err s -> ops s' = ops s -> invC s -> invC s'.
Proof. intros E1 E2 E3 E4. apply invC_frame; auto. apply ctx_frame_refl; auto. Qed.

Lemma invC_step_raw s l s' : inv1 s -> invC s -> step_raw s l = Some s' -> invC s'.
Proof.
  intros I C E. destruct l; cbn in E.
  - (* LOp *)
    destruct (negb (n =? length (ops s)) || negb (specs_ok k specs)) eqn:G; [discriminate|].
    assert (Fr : forall s' g, ops s' = upd_nth n g (ops s ++ [mkOp k specs [] PDone None None]) ->
                              (forall o, o_ctx (g o) = o_ctx o) ->
                              slots s' = slots s -> pending s' = pending s -> err s' = err s -> invC s').
    { intros s0 g E1 Hg E2 E3 E4. apply (invC_frame s); auto. eapply ctx_frame_new; eauto. }
    destruct k.
    1-3: destruct (is_nil specs); [injection E as <-; eapply Fr; reflexivity|];
         destruct (scan specs 0); injection E as <-; eapply Fr; reflexivity.
    injection E as <-. eapply Fr; reflexivity.
  - (* LFeed *) injection E as <-. apply (invC_same s); auto.
  - (* LSendFault *) injection E as <-. apply (invC_same s); auto.
  - (* LCtxEnd *)
    destruct (op_at s n) as [o|] eqn:Eo; [|discriminate]. destruct (o_ctx o) eqn:Ec; injection E as <-; auto.
    set (F := fun sl : slot => if (sl_op sl =? n) && sl_reg sl then cancel_slot w sl else sl).
    set (s' := _ <| slots ::= map F |>).
    assert (Hsl : forall j, slot_at s' j = option_map F (slot_at s j)).
    { intros j. unfold slot_at, s'. cbn. rewrite nth_error_map. reflexivity. }
    assert (Hop : forall m, op_at s' m = if n =? m then option_map (fun o => o <| o_ctx := Some w |>) (op_at s m) else op_at s m).
    { intros m. unfold s'. apply (op_at_set_op n (fun o => o <| o_ctx := Some w |>) s m). }
    assert (Her : err s' = err s) by reflexivity.
    assert (Hpe : pending s' = pending s) by reflexivity.
    clearbody s'.
    assert (Hca : forall sl w0, cause s sl w0 -> cause s' sl w0).
    { intros sl w0 [(o0 & A & B)|[A B]]; [left|right; rewrite Her; auto].
      rewrite Hop. destruct (Nat.eqb_spec n (sl_op sl)) as [En|N]; [|eauto]. rewrite A. cbn.
      rewrite <- En, Eo in A. injection A as <-. congruence. }
    assert (HF : forall sl, sl_op (F sl) = sl_op sl /\ sl_reg (F sl) = sl_reg sl /\ sl_buf (F sl) = sl_buf sl).
    { intros sl. unfold F. destruct ((sl_op sl =? n) && sl_reg sl); auto.
      destruct (cancel_slot_fields w sl) as (A1 & A2 & A3 & A4 & A5). auto. }
    apply (invC_cancel s s' w); auto.
    + intros j sl' H. rewrite Hsl in H. destruct (slot_at s j) as [sl|] eqn:Es; [|discriminate]. injection H as <-.
      exists sl. split; auto. unfold F. destruct (Nat.eqb_spec (sl_op sl) n) as [En|N]; cbn; auto.
      destruct (sl_reg sl) eqn:R; auto. right. split; auto. split; auto.
      left. rewrite Hop, En, Nat.eqb_refl, Eo. cbn. eauto.
    + intros sl w0 v (e0 & A & B). exists e0. rewrite Her. auto.
    + intros j sl' H R B. rewrite Her. rewrite Hsl in H. destruct (slot_at s j) as [sl|] eqn:Es; [|discriminate]. injection H as <-.
      destruct (HF sl) as (F1 & F2 & F3). rewrite F2 in R. rewrite F3 in B. intros Hs.
      assert (A := c_stop _ C _ _ Es R B Hs). unfold F. destruct ((sl_op sl =? n) && sl_reg sl); auto.
      apply cancel_slot_pctx_some.
    + intros j sl' o' H R Ho Hc. rewrite Hsl in H. destruct (slot_at s j) as [sl|] eqn:Es; [|discriminate]. injection H as <-.
      destruct (HF sl) as (F1 & F2 & F3). rewrite F2 in R. rewrite F1, Hop in Ho. unfold F. rewrite R, andb_true_r.
      destruct (Nat.eqb_spec (sl_op sl) n) as [En|N]; [apply cancel_slot_pctx_some|].
      destruct (Nat.eqb_spec n (sl_op sl)); [congruence|]. eapply (c_ctx _ C); eauto.
  - (* LCbGate *)
    destruct (find_idx _ 0 (cbs s)); [|discriminate]. injection E as <-. apply (invC_same s); auto.
  - (* LRelReq *)
    destruct (op_at s n) as [o|] eqn:Eo; [|discriminate]. destruct (o_pc o) eqn:Epc; try discriminate.
    set (sl0 := mkSlot n (next_id s) false None false None WNone) in *.
    set (s1 := s <| slots ::= fun l => l ++ [sl0] |> <| next_id ::= S |>) in *.
    set (g1 := fun o0 : oprec => o0 <| o_slots ::= fun l => l ++ [length (slots s)] |>) in *.
    set (s2 := set_op n g1 s1) in *.
    assert (F2 : ctx_frame s s2) by (eapply ctx_frame_set_op; [reflexivity|]; reflexivity).
    match type of E with (match ?x with Some _ => _ | None => _ end) = _ => destruct x end; injection E as <-.
    + apply (invC_app s _ sl0); auto. eapply ctx_frame_trans; [exact F2|]. eapply ctx_frame_set_op; reflexivity.
    + apply (invC_app s _ sl0); auto. eapply ctx_frame_trans; [exact F2|]. eapply ctx_frame_set_op; reflexivity.
  - (* LRelSend *)
    destruct (op_at s n) as [o|] eqn:Eo; [|discriminate]. destruct (o_pc o) eqn:Epc; try discriminate.
    destruct (err s) eqn:Ee.
    { injection E as <-. apply (invC_frame s); auto. eapply ctx_frame_set_op; reflexivity. }
    set (s1 := emit _ s) in *.
    assert (C1 : invC s1) by (apply (invC_same s); auto).
    destruct (negb (send_fail s)); injection E as <-.
    2: { apply (invC_frame s1); auto. eapply ctx_frame_set_op; reflexivity. }
    assert (I1 : inv1 s1). { apply (inv1_frame s); try reflexivity; auto; try apply I. apply ops_frame_refl; reflexivity. }
    assert (Hp0 : presend o = true) by (unfold presend; rewrite Epc; auto).
    destruct I1 as [W1 P1].
    assert (C2 : invC (fold_left (fun st i => register (o_ctx o) i st) (o_slots o) s1)).
    { apply (invC_register_fold (o_ctx o) n o); auto.
      - apply (i_nd _ W1 n o Eo).
      - intros i Hi. destruct (P1 n o i Eo Hp0 Hi) as (sl & H1 & H2). destruct (i_own _ W1 _ _ _ Eo Hi) as (sl' & H3 & H4).
        exists sl. splits; auto. congruence. }
    eapply invC_frame; [| | | |exact C2]; try reflexivity. eapply ctx_frame_set_op; reflexivity.
  - (* LRelDeliver *)
    destruct (nth_error (delivs s) j) as [d|] eqn:Ed; [|discriminate]. destruct (d_st d); [|discriminate].
    destruct (deliver_all_inv1 j (d_msgs d) 0 s I) as (I1 & E1 & E2).
    rewrite (i_crash _ (proj1 I1)) in E. injection E as <-.
    apply (invC_same (deliver_all j 0 (d_msgs d) s)); auto. apply invC_deliver_all; auto.
  - (* LRelWatch *)
    destruct (slot_at s i) as [sl|] eqn:Es; [|discriminate]. destruct (sl_watch sl) eqn:Ew; try discriminate.
    set (s1 := set_slot i (fun sl0 => sl0 <| sl_watch := WDone |>) s) in *.
    assert (Hr : sl_reg sl = true).
    { destruct (sl_reg sl) eqn:R; auto. destruct (c_unreg _ C _ _ Es R) as [_ A]. congruence. }
    assert (I1 : inv1 s1).
    { apply (inv1_frame s); try reflexivity; auto; try apply I.
      cbn. apply map_core_upd. reflexivity. apply ops_frame_refl; reflexivity. }
    destruct (assoc (id_text (sl_id sl)) (pending s)) as [i'|] eqn:Ea.
    2: { injection E as <-. eapply invC_watch_done; eauto. intros B.
         destruct (c_inpend _ C _ _ Es Hr B) as [A _]. apply in_assoc_some in A. contradiction. }
    apply assoc_in in Ea. assert (i' = i) by (apply (pending_of_slot s i sl i' I Es Ea)). subst i'.
    set (v := mkVal (id_text (sl_id sl)) (Some (watch_werr (err s) (sl_pctx sl))) [] SWatch) in *.
    destruct (write_pending_ok s1 (id_text (sl_id sl)) i v I1 Ea (fix_id_text _)) as (I2 & _).
    assert (E2 : write_slot i v (s1 <| pending ::= assoc_del (id_text (sl_id sl)) |>)
                 = set_slot i (fun sl => sl <| sl_watch := WDone |>)
                            (set_slot i (fun sl => sl <| sl_buf := Some v |>) (s <| pending ::= assoc_del (id_text (sl_id sl)) |>))).
    { rewrite (write_pending_eq s1 _ _ _ I1 Ea). apply watch_write_comm. }
    set (s2 := write_slot i v _) in *.
    assert (C2 : invC s2).
    { rewrite E2. eapply (invC_watch_done _ i (sl <| sl_buf := Some v |>)).
      - apply invC_write; auto. intros _ sl0 Hs0. rewrite Es in Hs0. injection Hs0 as <-.
        assert (A := c_watch _ C _ _ Es Hr). unfold watch_ok in A. rewrite Ew in A.
        destruct (sl_pctx sl) as [w|] eqn:Ep; [|contradiction]. exists w. split; auto.
        exists (err s). split; auto.
      - rewrite slot_at_set_slot, Nat.eqb_refl. replace (slot_at (s <| pending ::= assoc_del (id_text (sl_id sl)) |>) i) with (slot_at s i) by reflexivity.
        rewrite Es. reflexivity.
      - discriminate.
      - exact Ew. }
    rewrite (i_crash _ (proj1 I2)) in E.
    destruct (c_oncancel s2); [|injection E as <-; auto].
    destruct (settle_slot_inv1 i s2 I2) as (I3 & _).
    rewrite (i_crash _ (proj1 I3)) in E. injection E as <-.
    apply (invC_same (settle_slot i s2)); auto. apply invC_settle; auto.
  - (* LRelRecvErr *)
    destruct (rd s); try discriminate. destruct (stop_locked c s) as [s1 first] eqn:Est.
    assert (C1 := invC_stop _ _ _ _ I C Est). injection E as <-.
    apply (invC_same s1); auto; destruct first; reflexivity.
  - (* LRelClose *)
    destruct (op_at s n) as [o|] eqn:Eo; [|discriminate]. destruct (o_pc o) eqn:Epc; try discriminate.
    destruct (stop_locked SCClosed s) as [s1 first] eqn:Est.
    assert (C1 := invC_stop _ _ _ _ I C Est). injection E as <-.
    apply (invC_frame s1); auto. eapply ctx_frame_set_op; reflexivity.
  - (* LRelCbReply *)
    destruct (nth_error (cbs s) c) as [cb|]; [|discriminate]. destruct (cb_st cb); try discriminate.
    injection E as <-. destruct (err s) eqn:Ee; apply (invC_same s); auto.
Qed.

Lemma invC_settle1 s s' : inv1 s -> invC s -> settle1 s = Some s' -> invC s'.
Proof.
  intros I C E. unfold settle1 in E. rewrite (i_crash _ (proj1 I)) in E.
  assert (Hops : match find_idx (op_ready s) 0 (ops s) with
                 | Some n => match op_at s n with Some o => Some (op_advance n o s) | None => None end
                 | None => None end = Some s' -> invC s').
  { clear E. intros E. destruct (find_idx (op_ready s) 0 (ops s)) as [n|]; [|discriminate].
    destruct (op_at s n) as [o|] eqn:Eo; [|discriminate]. injection E as <-.
    unfold op_advance. destruct (o_pc o) eqn:Epc; auto.
    - destruct (nth_error (o_slots o) k) as [i|].
      + apply (invC_frame (settle_slot i s)); auto; [eapply ctx_frame_set_op; reflexivity|apply invC_settle; auto].
      + apply (invC_frame s); auto. eapply ctx_frame_set_op; reflexivity.
    - destruct stopper; [destruct (err s) eqn:Ee|]; (apply (invC_frame s); auto; eapply ctx_frame_set_op; reflexivity). }
  destruct (rd s); auto. destruct (ch_in s) as [|f q]; auto.
  destruct f as [[|b ms]|c]; injection E as <-; apply (invC_same s); auto.
Qed.

Theorem invC_reach c s : reach c s -> inv1 s /\ invC s.
Proof.
  apply (reach_inv (fun s => inv1 s /\ invC s)).
  - split; [apply inv1_init|apply invC_init].
  - intros s0 l s' [I C] Cr E. split; [eapply inv1_step_raw; eauto|eapply invC_step_raw; eauto].
  - intros s0 s' [I C] E. split; [eapply inv1_settle1; eauto|eapply invC_settle1; eauto].
Qed.
