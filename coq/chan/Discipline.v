(* Discipline: the lock / Send / Recv / Close interval automaton of property C10.

   Events are what an instrumented Channel wrapper and the owner's mutex see: goroutine
   [g] takes / releases the owner's mutex, enters / leaves Send, Close, Recv.  The
   *discipline* is what the library promises (every Send and Close happens inside a
   critical section of the owner's mutex; one reader goroutine, receiving sequentially);
   the theorem is that under mutex semantics the discipline implies the contract of
   channel.Channel: no two Sends in progress at once, no Send overlapping Close, no two
   Recvs at once.  That the Go code follows the discipline is checked dynamically by the
   correspondence harness; this file is pure trace theory, for event lists of any length. *)
From Coq Require Import List Arith Lia Bool.
Import ListNotations.

Inductive ev :=
| Lock (g : nat) | Unlock (g : nat)
| SendB (g : nat) | SendE (g : nat)
| CloseB (g : nat) | CloseE (g : nat)
| RecvB (g : nat) | RecvE (g : nat).

Inductive call := CSend | CClose | CRecv.

Definition ev_g (e : ev) : nat :=
  match e with Lock g | Unlock g | SendB g | SendE g | CloseB g | CloseE g | RecvB g | RecvE g => g end.

(* who holds the mutex after the events [p] *)
Definition hstep (h : option nat) (e : ev) : option nat :=
  match e with Lock g => Some g | Unlock _ => None | _ => h end.
Definition holder (p : list ev) : option nat := fold_left hstep p None.

(* which channel method goroutine [g] is executing after the events [p] *)
Definition istep (g : nat) (c : option call) (e : ev) : option call :=
  match e with
  | SendB g' => if g' =? g then Some CSend else c
  | CloseB g' => if g' =? g then Some CClose else c
  | RecvB g' => if g' =? g then Some CRecv else c
  | SendE g' | CloseE g' | RecvE g' => if g' =? g then None else c
  | Lock _ | Unlock _ => c
  end.
Definition inside (g : nat) (p : list ev) : option call := fold_left (istep g) p None.

(* mutex semantics: Lock only when free, Unlock only by the holder *)
Definition lock_ok (p : list ev) (e : ev) : Prop :=
  match e with
  | Lock _ => holder p = None
  | Unlock g => holder p = Some g
  | _ => True
  end.
Definition well_locked (es : list ev) : Prop := forall p e r, es = p ++ e :: r -> lock_ok p e.

(* the discipline: a Send / Close begins while its goroutine holds the lock (and is not
   inside another channel method); that goroutine does not unlock before the matching end;
   an end event matches the begin of the same goroutine; every Recv is by the one reader
   goroutine [rdr], and its Recvs alternate begin / end *)
Definition disc_ok (rdr : nat) (p : list ev) (e : ev) : Prop :=
  match e with
  | SendB g | CloseB g => holder p = Some g /\ inside g p = None
  | SendE g => inside g p = Some CSend
  | CloseE g => inside g p = Some CClose
  | Unlock g => inside g p <> Some CSend /\ inside g p <> Some CClose
  | RecvB g => g = rdr /\ inside g p = None
  | RecvE g => g = rdr /\ inside g p = Some CRecv
  | Lock _ => True
  end.
Definition disciplined (rdr : nat) (es : list ev) : Prop := forall p e r, es = p ++ e :: r -> disc_ok rdr p e.

(* intervals: the begin event at position [i] of [p] is still open at the end of [p] *)
Definition end_of (b : ev) : ev :=
  match b with SendB g => SendE g | CloseB g => CloseE g | RecvB g => RecvE g | e => e end.
Definition is_wrB (b : ev) : Prop := match b with SendB _ | CloseB _ => True | _ => False end.
Definition is_rdB (b : ev) : Prop := match b with RecvB _ => True | _ => False end.
Definition open (p : list ev) (i : nat) (b : ev) : Prop :=
  nth_error p i = Some b /\ forall j, i < j -> nth_error p j <> Some (end_of b).

Definition kind (b : ev) : option call :=
  match b with SendB _ => Some CSend | CloseB _ => Some CClose | RecvB _ => Some CRecv | _ => None end.

(** * Prefix steps *)
Lemma holder_snoc p e : holder (p ++ [e]) = hstep (holder p) e.
Proof. unfold holder. rewrite fold_left_app. reflexivity. Qed.
Lemma inside_snoc g p e : inside g (p ++ [e]) = istep g (inside g p) e.
Proof. unfold inside. rewrite fold_left_app. reflexivity. Qed.

Lemma nth_error_snoc_inv {A} (l : list A) x n y :
  nth_error (l ++ [x]) n = Some y -> (n < length l /\ nth_error l n = Some y) \/ (n = length l /\ y = x).
Proof.
  intros H. destruct (Nat.lt_ge_cases n (length l)) as [L|L].
  - rewrite nth_error_app1 in H; auto.
  - rewrite nth_error_app2 in H; auto. right.
    destruct (n - length l) as [|d] eqn:D; cbn in H; [injection H as <-; split; auto; lia|].
    destruct d; discriminate.
Qed.

Lemma open_snoc p e i b :
  open (p ++ [e]) i b -> (open p i b /\ e <> end_of b) \/ (i = length p /\ b = e).
Proof.
  intros [N F]. apply nth_error_snoc_inv in N as [[L N]|[-> ->]]; auto.
  left. split; [split; auto|].
  - intros j Lj Nj. apply (F j Lj). rewrite nth_error_app1; auto.
    apply nth_error_Some. congruence.
  - intros ->. apply (F (length p) L). rewrite nth_error_app2, Nat.sub_diag; auto.
Qed.

(** * The invariant: an open Send/Close interval belongs to the lock holder *)
Definition inv_wr (p : list ev) : Prop :=
  (forall i b, open p i b -> is_wrB b -> holder p = Some (ev_g b) /\ inside (ev_g b) p = kind b) /\
  (forall i b i' b', open p i b -> is_wrB b -> open p i' b' -> is_wrB b' -> i = i').

Definition inv_rd (rdr : nat) (p : list ev) : Prop :=
  (forall i b, open p i b -> is_rdB b -> ev_g b = rdr /\ inside rdr p = Some CRecv) /\
  (forall i b i' b', open p i b -> is_rdB b -> open p i' b' -> is_rdB b' -> i = i').

Lemma inv_wr_nil : inv_wr [].
Proof. split; [intros i b [N _]|intros i b i' b' [N _]]; destruct i; discriminate. Qed.
Lemma inv_rd_nil rdr : inv_rd rdr [].
Proof. split; [intros i b [N _]|intros i b i' b' [N _]]; destruct i; discriminate. Qed.

Ltac eqb_case :=
  match goal with
  | |- context [?a =? ?b] => destruct (Nat.eqb_spec a b); subst
  | H : context [?a =? ?b] |- _ => destruct (Nat.eqb_spec a b); subst
  end.

(* an old open Send/Close interval stays with the holder, unless [e] closes it *)
Lemma wr_old rdr p e i b :
  inv_wr p -> lock_ok p e -> disc_ok rdr p e -> open p i b -> is_wrB b -> e <> end_of b ->
  holder (p ++ [e]) = Some (ev_g b) /\ inside (ev_g b) (p ++ [e]) = kind b /\ ~ is_wrB e.
Proof.
  intros [W1 _] L D O B NE. destruct (W1 _ _ O B) as [Hh Hi].
  rewrite holder_snoc, inside_snoc.
  destruct b as [| |g|g|g|g| |]; try contradiction; cbn [ev_g kind end_of] in *;
    destruct e as [g0|g0|g0|g0|g0|g0|g0|g0]; cbn [lock_ok disc_ok hstep istep is_wrB] in *.
  all: try (match type of D with _ /\ _ => destruct D as [D1 D2] end).
  all: try congruence.
  all: try (assert (g0 = g) by congruence; subst g0; congruence).
  all: try (destruct (Nat.eqb_spec g0 g) as [->|Ne]; [congruence|tauto]).
Qed.

Lemma inv_wr_step rdr p e : inv_wr p -> lock_ok p e -> disc_ok rdr p e -> inv_wr (p ++ [e]).
Proof.
  intros W L D. split.
  - intros i b O B. apply open_snoc in O as [[O NE]|[-> ->]].
    + destruct (wr_old rdr _ _ _ _ W L D O B NE) as (A1 & A2 & _). auto.
    + rewrite holder_snoc, inside_snoc.
      destruct e; try contradiction; cbn [lock_ok disc_ok hstep istep ev_g kind] in *;
        destruct D as [D1 D2]; rewrite Nat.eqb_refl; auto.
  - intros i b i' b' O B O' B'.
    apply open_snoc in O as [[O NE]|[-> ->]]; apply open_snoc in O' as [[O' NE']|[-> ->]]; auto.
    + destruct W as [_ W2]. eapply W2; eauto.
    + destruct (wr_old rdr _ _ _ _ W L D O B NE) as (_ & _ & A3). contradiction.
    + destruct (wr_old rdr _ _ _ _ W L D O' B' NE') as (_ & _ & A3). contradiction.
Qed.

Lemma rd_old rdr p e i b :
  inv_rd rdr p -> disc_ok rdr p e -> open p i b -> is_rdB b -> e <> end_of b ->
  inside rdr (p ++ [e]) = Some CRecv /\ ~ is_rdB e.
Proof.
  intros [R1 _] D O B NE. destruct (R1 _ _ O B) as [Hg Hi].
  rewrite inside_snoc.
  destruct b as [| | | | | |g|]; try contradiction; cbn [ev_g end_of] in *; subst g.
  destruct e as [g0|g0|g0|g0|g0|g0|g0|g0]; cbn [disc_ok istep is_rdB] in *.
  all: try (match type of D with _ /\ _ => destruct D as [D1 D2] end).
  all: try (split; [assumption|tauto]).
  all: try (destruct (Nat.eqb_spec g0 rdr) as [->|Ne]; [congruence|tauto]).
  all: try (subst g0; congruence).
Qed.

Lemma inv_rd_step rdr p e : inv_rd rdr p -> disc_ok rdr p e -> inv_rd rdr (p ++ [e]).
Proof.
  intros R D. split.
  - intros i b O B. apply open_snoc in O as [[O NE]|[-> ->]].
    + destruct (rd_old _ _ _ _ _ R D O B NE) as (A1 & _). destruct R as [R1 _].
      destruct (R1 _ _ O B). auto.
    + rewrite inside_snoc.
      destruct e; try contradiction; cbn [disc_ok istep ev_g] in *.
      destruct D as [-> D2]. rewrite Nat.eqb_refl; auto.
  - intros i b i' b' O B O' B'.
    apply open_snoc in O as [[O NE]|[-> ->]]; apply open_snoc in O' as [[O' NE']|[-> ->]]; auto.
    + destruct R as [_ R2]. eapply R2; eauto.
    + destruct (rd_old _ _ _ _ _ R D O B NE) as (_ & A). contradiction.
    + destruct (rd_old _ _ _ _ _ R D O' B' NE') as (_ & A). contradiction.
Qed.

Lemma inv_prefix rdr es : well_locked es -> disciplined rdr es ->
  forall p r, es = p ++ r -> inv_wr p /\ inv_rd rdr p.
Proof.
  intros WL DI p. induction p as [|e p IH] using rev_ind; intros r E.
  - split; [apply inv_wr_nil|apply inv_rd_nil].
  - rewrite <- app_assoc in E. cbn in E.
    destruct (IH _ E) as [W R].
    pose proof (WL _ _ _ E) as L. pose proof (DI _ _ _ E) as D.
    split; [eapply inv_wr_step; eauto|eapply inv_rd_step; eauto].
Qed.

(** * C10.A  no overlap *)
(* At every prefix of a well-locked, disciplined event list at most one Send/Close interval
   is open (so no two Sends overlap and no Send overlaps a Close), it belongs to the current
   lock holder, and at most one Recv interval is open. *)
Theorem no_overlap rdr es :
  well_locked es -> disciplined rdr es ->
  forall p r, es = p ++ r ->
    (forall i b i' b', open p i b -> is_wrB b -> open p i' b' -> is_wrB b' -> i = i' /\ b = b') /\
    (forall i b, open p i b -> is_wrB b -> holder p = Some (ev_g b)) /\
    (forall i b i' b', open p i b -> is_rdB b -> open p i' b' -> is_rdB b' -> i = i' /\ b = b').
Proof.
  intros WL DI p r E. destruct (inv_prefix rdr es WL DI p r E) as [[W1 W2] [R1 R2]].
  repeat split.
  - eapply W2; eauto.
  - assert (i = i') by (eapply W2; eauto). subst i'. destruct H as [N _], H1 as [N' _]. congruence.
  - intros i b O B. apply (W1 _ _ O B).
  - eapply R2; eauto.
  - assert (i = i') by (eapply R2; eauto). subst i'. destruct H as [N _], H1 as [N' _]. congruence.
Qed.

(** * Non-vacuity: a run of a small server: goroutine 0 is the reader, 1 a deliverer that
    sends a response while the reader sits in Recv, 0 sends an error reply between two
    Recvs, 2 stops the server (Close) *)
Definition sample : list ev :=
  [RecvB 0; Lock 1; SendB 1; SendE 1; Unlock 1; RecvE 0; Lock 0; SendB 0; SendE 0; Unlock 0;
   RecvB 0; Lock 2; CloseB 2; CloseE 2; Unlock 2; RecvE 0].

Lemma by_position (P : list ev -> ev -> Prop) es :
  (forall n e, nth_error es n = Some e -> P (firstn n es) e) -> (forall p e r, es = p ++ e :: r -> P p e).
Proof.
  intros H p e r ->. specialize (H (length p) e).
  rewrite nth_error_app2, Nat.sub_diag in H by lia.
  rewrite firstn_app, Nat.sub_diag, firstn_all in H. cbn in H. rewrite app_nil_r in H. auto.
Qed.

Example sample_well_locked : well_locked sample.
Proof.
  refine (by_position lock_ok _ _). intros n e H.
  do 16 (destruct n as [|n]; [injection H as <-; vm_compute; auto|]). destruct n; discriminate.
Qed.

Example sample_disciplined : disciplined 0 sample.
Proof.
  refine (by_position (disc_ok 0) _ _). intros n e H.
  do 16 (destruct n as [|n]; [injection H as <-; vm_compute; repeat split; auto; discriminate|]).
  destruct n; discriminate.
Qed.

(* in the sample a Send interval and a Recv interval are open at the same time (allowed),
   after 3 events: Recv of goroutine 0 at position 0, Send of goroutine 1 at position 2 *)
Example no_overlap_nonvacuous :
  well_locked sample /\ disciplined 0 sample /\
  open (firstn 3 sample) 2 (SendB 1) /\ open (firstn 3 sample) 0 (RecvB 0).
Proof.
  split; [apply sample_well_locked|]. split; [apply sample_disciplined|].
  split; split; try reflexivity; intros j L; cbn;
    do 3 (destruct j as [|j]; [try lia; cbn; discriminate|]); destruct j; cbn; discriminate.
Qed.

(* the discipline is necessary: a Send outside the lock overlapping a locked Send is
   well-locked but has two open Send intervals, and is (of course) not disciplined *)
Definition undisciplined : list ev := [Lock 1; SendB 1; SendB 2; SendE 1; Unlock 1; SendE 2].

Example undisciplined_overlaps :
  well_locked undisciplined /\ ~ disciplined 0 undisciplined /\
  open (firstn 3 undisciplined) 1 (SendB 1) /\ open (firstn 3 undisciplined) 2 (SendB 2).
Proof.
  split.
  { refine (by_position lock_ok _ _). intros n e H.
    do 6 (destruct n as [|n]; [injection H as <-; vm_compute; auto|]). destruct n; discriminate. }
  split.
  { intros D. specialize (D [Lock 1; SendB 1] (SendB 2) [SendE 1; Unlock 1; SendE 2] eq_refl).
    destruct D as [D _]. vm_compute in D. discriminate. }
  split; split; try reflexivity; intros j L; cbn;
    do 3 (destruct j as [|j]; [try lia; cbn; discriminate|]); destruct j; cbn; discriminate.
Qed.
