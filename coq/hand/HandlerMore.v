(* HandlerMore: further lemmas about the handler adapter model (Handler.v) behind
   C15 and C16.  New definitions here (new, handle, the scratch-cell machine,
   null_contract, pos_args) are specification-level: they are built from the
   extracted definitions of Handler.v and are not extracted themselves. *)
From Coq Require Import List NArith Bool Arith Lia Sorting.Permutation.
From JV Require Import Bytes Handler HandlerProofs HandlerExtra PosElem.
Import ListNotations.

(* ------------------------------------------------------------------------- *)
(** * C15: what Check records, after the options                              *)

(* The FuncInfo of an accepted function after SetStrict(s) and AllowArray(a), in
   the vocabulary of wrap_spec (translate_if_array, stubbed, array_eff): the
   positional names are the struct field names of the argument type, the array
   form is in effect iff it is allowed and there is at least one such name, and
   the translation applied to the params is `translate` with those names. *)
Lemma check_info_options fn fi0 s a :
  check fn = Ok fi0 ->
  let fi := set_strict s (allow_array a fi0) in
  (exists args outs, fn = FFunc (TCtx :: args) false outs /\
     fi_arg fi = match args with [x] => Some x | _ => None end) /\
  fi_pos_names fi = match struct_field_names (fi_arg fi) with Some ns => ns | None => [] end /\
  fi_strict fi = s /\ fi_array fi = a /\ fi_unpack fi = false /\
  array_eff fi = a && negb (is_nil (fi_pos_names fi)) /\
  (forall p, translate_if_array fi p =
     match struct_field_names (fi_arg fi) with
     | Some (n :: ns) => if a then translate (n :: ns) p else Some p
     | _ => Some p
     end) /\
  (forall x, fi_arg fi = Some x -> stubbed fi = array_eff fi || (s && negb (has_strict_method x))).
Proof.
  intros Hc fi.
  assert (Hs : scheme fn) by (apply check_exact; eauto).
  destruct Hs as [args outs y Hargs Houts].
  destruct (check_info _ _ _ Hc) as (Harg & _ & _ & Hu & Hn & _).
  assert (Ea : fi_arg fi = fi_arg fi0) by reflexivity.
  assert (En : fi_pos_names fi = fi_pos_names fi0) by reflexivity.
  assert (Es : fi_strict fi = s) by reflexivity.
  assert (Er : fi_array fi = a) by reflexivity.
  assert (Eu : fi_unpack fi = fi_unpack fi0) by reflexivity.
  assert (Hn' : fi_pos_names fi = match struct_field_names (fi_arg fi) with Some ns => ns | None => [] end)
    by (rewrite En, Ea; exact Hn).
  assert (Hae : array_eff fi = a && negb (is_nil (fi_pos_names fi))).
  { unfold array_eff. rewrite Er. apply andb_comm. }
  split; [exists args, outs; split; [reflexivity|rewrite Ea; exact Harg]|].
  split; [exact Hn'|]. split; [exact Es|]. split; [exact Er|]. split; [rewrite Eu; exact Hu|].
  split; [exact Hae|]. split.
  - intros p. unfold translate_if_array. rewrite Hae, Hn'.
    destruct (struct_field_names (fi_arg fi)) as [[|n ns]|]; destruct a; reflexivity.
  - intros x Hx. unfold stubbed, array_eff, arg_wrapper. rewrite Hx, Es.
    destruct (negb (is_nil (fi_pos_names fi)) && fi_array fi), s, (has_strict_method x); reflexivity.
Qed.

Example check_info_options_nonvacuous :
  let fi0 := fi_of demo_fn in
  check demo_fn = Ok fi0 /\
  fi_pos_names fi0 = [bs [97]; bs [66]; bs [69]; bs [103]; bs [45]] /\
  array_eff (set_strict true (allow_array true fi0)) = true /\
  array_eff (set_strict true (allow_array false fi0)) = false /\
  stubbed (set_strict false (allow_array false fi0)) = false /\
  translate_if_array fi0 (PArray [bs [1]; bs [2]; bs [3]; bs [4]; bs [5]]) =
    Some (PObject [(bs [45], bs [5]); (bs [66], bs [2]); (bs [69], bs [3]); (bs [97], bs [1]); (bs [103], bs [4])]).
Proof. vm_compute. repeat split. Qed.

(* ------------------------------------------------------------------------- *)
(** * C15: handler.New = Check, then Wrap (panic when Check fails)            *)

Section New.
  Variable decode : ty -> bool -> pvalue -> option value.
  Variable zero : ty -> value.

  (* None: New panics with the error of Check.  Some h: the handler, as a function
     from the params of a request to what happens. *)
  Definition new (fn : fnval) : option (pvalue -> outcome) :=
    match check fn with
    | Ok fi => Some (wrap decode zero fi)
    | Err _ => None
    end.

  Lemma new_spec fn :
    (new fn = None <-> ~ scheme fn) /\
    (new fn = None <-> exists e, check fn = Err e) /\
    (forall h, new fn = Some h -> exists fi, check fn = Ok fi /\ h = wrap decode zero fi) /\
    (scheme fn -> exists fi, check fn = Ok fi /\ new fn = Some (wrap decode zero fi)).
  Proof.
    unfold new. repeat split.
    - intros H Hs. apply check_exact in Hs. destruct Hs as [fi Hfi]. rewrite Hfi in H. discriminate.
    - intros Hn. destruct (check_total fn Hn) as [e He]. rewrite He. reflexivity.
    - destruct (check fn) as [fi|e]; [discriminate|eauto].
    - intros [e He]. rewrite He. reflexivity.
    - intros h H. destruct (check fn) as [fi|e]; [|discriminate]. injection H as <-. eauto.
    - intros Hs. apply check_exact in Hs. destruct Hs as [fi Hfi]. rewrite Hfi. eauto.
  Qed.
End New.

Example new_nonvacuous :
  new demo_decode demo_zero FNil = None /\
  new demo_decode demo_zero (FFunc [TCtx; TScalar KInt] true [TError]) = None /\
  match new demo_decode demo_zero strict_fn with
  | Some h => h demo_params = OInvalidParams /\ h PAbsent = OCall [demo_zero TAny] /\
              h (PObject [(bs [97], bs [49])]) = OCall [Val (bs [118]) []]
  | None => False
  end.
Proof. vm_compute. repeat split. Qed.

(* ------------------------------------------------------------------------- *)
(** * C15/C16: one call of the handler - how often the function runs, with what,
      and what the handler returns                                            *)

(* what the user function is called with (after the context) *)
Inductive call_input :=
| InArgs (args : list value)     (* the decoded argument(s) *)
| InRequest (p : pvalue).        (* the *jrpc2.Request itself (its params are p) *)

(* what the handler returns: an InvalidParams error made by the adapter itself, or
   what decode_out makes of the function's result and error *)
Inductive hreturn (R E : Type) :=
| RInvalidParams                 (* (nil, InvalidParams "invalid parameters: ...") *)
| RNoParamsAccepted              (* (nil, InvalidParams "no parameters accepted") *)
| RReturn (r : hret R E).
Arguments RInvalidParams {R E}.
Arguments RNoParamsAccepted {R E}.
Arguments RReturn {R E} r.

Definition is_invalid_params {R E} (r : hreturn R E) : bool :=
  match r with RReturn _ => false | _ => true end.

Section Handle.
  Variable decode : ty -> bool -> pvalue -> option value.
  Variable zero : ty -> value.
  Context {R E : Type}.

  (* The handler made by Wrap, applied to a request with params p, the wrapped
     function being f (result, error or nil).  Returns the inputs of all calls of
     f, in order, and the handler's return value. *)
  Definition handle (fi : finfo) (p : pvalue) (f : call_input -> R * option E)
    : list call_input * hreturn R E :=
    match wrap decode zero fi p with
    | OCall args =>
        let x := InArgs args in ([x], RReturn (decode_out fi (fst (f x)) (snd (f x))))
    | OCallRequest =>
        let x := InRequest p in ([x], RReturn (decode_out fi (fst (f x)) (snd (f x))))
    | OInvalidParams => ([], RInvalidParams)
    | ONoParamsAccepted => ([], RNoParamsAccepted)
    end.

  Lemma handle_spec fi p f :
    let calls := fst (handle fi p f) in
    let ret := snd (handle fi p f) in
    length calls <= 1 /\
    (forall x, calls = [x] <->
       (exists args, wrap decode zero fi p = OCall args /\ x = InArgs args) \/
       (wrap decode zero fi p = OCallRequest /\ x = InRequest p)) /\
    (forall x, calls = [x] -> ret = RReturn (decode_out fi (fst (f x)) (snd (f x)))) /\
    (calls = [] <-> wrap decode zero fi p = OInvalidParams \/ wrap decode zero fi p = ONoParamsAccepted) /\
    (calls = [] <-> is_invalid_params ret = true) /\
    (ret = RInvalidParams <-> wrap decode zero fi p = OInvalidParams) /\
    (ret = RNoParamsAccepted <-> wrap decode zero fi p = ONoParamsAccepted).
  Proof.
    unfold handle. destruct (wrap decode zero fi p) as [args| | |]; cbn.
    - split; [lia|]. split.
      + intros x. split.
        * intros [= <-]. left. eauto.
        * intros [(args' & [= <-] & ->)|[H _]]; [reflexivity|discriminate].
      + split; [intros x [= <-]; reflexivity|].
        repeat split; try discriminate; intros [H|H]; discriminate.
    - split; [lia|]. split.
      + intros x. split.
        * intros [= <-]. right. auto.
        * intros [(args' & H & _)|[_ ->]]; [discriminate|reflexivity].
      + split; [intros x [= <-]; reflexivity|].
        repeat split; try discriminate; intros [H|H]; discriminate.
    - split; [lia|]. split.
      + intros x. split; [discriminate|]. intros [(args' & H & _)|[H _]]; discriminate.
      + split; [discriminate|]. repeat split; auto; discriminate.
    - split; [lia|]. split.
      + intros x. split; [discriminate|]. intros [(args' & H & _)|[H _]]; discriminate.
      + split; [discriminate|]. repeat split; auto; discriminate.
  Qed.
End Handle.

Example handle_nonvacuous :
  let f (x : call_input) : nat * option nat :=
    match x with InArgs [Val e _] => (length e, Some 7) | _ => (0, None) end in
  (* func(ctx, *T) error: called once, the error handed on *)
  handle demo_decode demo_zero (fi_of strict_fn) (PObject [(bs [97], bs [49])]) f =
    ([InArgs [Val (bs [118]) []]], RReturn (HError 7)) /\
  (* unknown field: not called *)
  handle demo_decode demo_zero (fi_of strict_fn) demo_params f = ([], RInvalidParams) /\
  (* func(ctx) error with params: not called *)
  handle demo_decode demo_zero (fi_of (FFunc [TCtx] false [TError])) PNull f = ([], RNoParamsAccepted) /\
  (* func(ctx, *jrpc2.Request) (int, error): called once with the request *)
  handle demo_decode demo_zero (fi_of (FFunc [TCtx; TPtr TRequest] false [TScalar KInt; TError])) PNull f =
    ([InRequest PNull], RReturn (HResult 0)).
Proof. vm_compute. repeat split. Qed.

(* ---- the same for the handler made by Positional ---- *)

(* the arguments a Positional handler of func(ctx, xs...) with the given names calls
   its function with, None when the params are rejected *)
Definition pos_args (decode_elt : ty -> elt -> option value) (zero : ty -> value)
    (names : list bytes) (xs : list ty) (p : pvalue) : option (list value) :=
  match p with
  | PAbsent | PNull => Some (map zero xs)
  | PArray es => decode_each decode_elt xs es
  | PObject kvs => fill decode_elt names xs kvs (map zero xs)
  | PScalar _ | PMalformed _ => None
  end.

Section PositionalHandle.
  Variable decode : ty -> bool -> pvalue -> option value.
  Variable zero : ty -> value.
  Variable decode_elt : ty -> elt -> option value.
  Context {R E : Type}.

  Lemma positional_wrap_pos_args xs outs names fi p :
    struct_contract decode zero decode_elt -> zero_contract zero ->
    xs <> [] -> usable_names names = true ->
    positional (FFunc (TCtx :: xs) false outs) names = Ok fi ->
    plain_params names p = true ->
    wrap decode zero fi p =
    match pos_args decode_elt zero names xs p with Some args => OCall args | None => OInvalidParams end.
  Proof.
    intros HC HZ Hx Hu Hp Hpl.
    rewrite (positional_elementwise decode zero decode_elt xs outs names fi p HC HZ Hx Hu Hp Hpl).
    destruct p; reflexivity.
  Qed.

  (* with no assumption on the oracle: the function is never given the request, and
     "no parameters accepted" is never the answer *)
  Lemma positional_handle_shape xs outs names fi p (f : call_input -> R * option E) :
    xs <> [] -> positional (FFunc (TCtx :: xs) false outs) names = Ok fi ->
    (exists args, handle decode zero fi p f =
       ([InArgs args], RReturn (decode_out fi (fst (f (InArgs args))) (snd (f (InArgs args))))) /\
       wrap decode zero fi p = OCall args) \/
    (handle decode zero fi p f = ([], RInvalidParams) /\ wrap decode zero fi p = OInvalidParams).
  Proof.
    intros Hx Hp.
    destruct (positional_accepts_exactly decode zero xs outs names fi p [] Hx Hp) as [_ [H|[args H]]];
      unfold handle; rewrite H; eauto.
  Qed.

  (* under the documented contract of encoding/json: called exactly once with the
     positional / keyed values, result and error handed on; or not called *)
  Lemma positional_handle xs outs names fi p (f : call_input -> R * option E) :
    struct_contract decode zero decode_elt -> zero_contract zero ->
    xs <> [] -> usable_names names = true ->
    positional (FFunc (TCtx :: xs) false outs) names = Ok fi ->
    plain_params names p = true ->
    handle decode zero fi p f =
    match pos_args decode_elt zero names xs p with
    | Some args => ([InArgs args], RReturn (decode_out fi (fst (f (InArgs args))) (snd (f (InArgs args)))))
    | None => ([], RInvalidParams)
    end.
  Proof.
    intros HC HZ Hx Hu Hp Hpl. unfold handle.
    rewrite (positional_wrap_pos_args xs outs names fi p HC HZ Hx Hu Hp Hpl).
    destruct (pos_args decode_elt zero names xs p); reflexivity.
  Qed.
End PositionalHandle.

Example positional_handle_nonvacuous :
  let f (x : call_input) : bytes * option nat :=
    match x with InArgs [Val a _; Val b _] => (a ++ b, None) | _ => ([], Some 1) end in
  handle ex_decode ex_zero ex_fi (PArray [[55]; [34; 97; 34]]%N) f =
    ([InArgs [Val [55]%N []; Val [34; 97; 34]%N []]], RReturn (HResult [55; 34; 97; 34]%N)) /\
  handle ex_decode ex_zero ex_fi (PArray [[55]]%N) f = ([], RInvalidParams) /\
  handle ex_decode ex_zero ex_fi (PObject [([120], [49]); ([122], [50])]%N) f = ([], RInvalidParams).
Proof. vm_compute. repeat split. Qed.
