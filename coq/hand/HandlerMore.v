(* HandlerMore: further lemmas about the handler adapter model (Handler.v) behind
   C15 and C16.  New definitions here (new, handle, the scratch-cell machine,
   null_contract, pos_args) are specification-level: they are built from the
   extracted definitions of Handler.v and are not extracted themselves. *)
From Coq Require Import List NArith Bool Arith Lia Sorting.Permutation.
From JV Require Import Bytes Handler HandlerProofs HandlerExtra PosElem.
Import ListNotations.

(* ------------------------------------------------------------------------- *)
(** * C15: what Check records, after the options                              *)

(* The FuncInfo of an accepted function after SetStrict(s) and AllowArray(a), in
   the vocabulary of wrap_spec (translate_if_array, stubbed, array_eff): the
   positional names are the struct field names of the argument type, the array
   form is in effect iff it is allowed and there is at least one such name, and
   the translation applied to the params is `translate` with those names. *)
Lemma check_info_options fn fi0 s a :
  check fn = Ok fi0 ->
  let fi := set_strict s (allow_array a fi0) in
  (exists args outs, fn = FFunc (TCtx :: args) false outs /\
     fi_arg fi = match args with [x] => Some x | _ => None end) /\
  fi_pos_names fi = match struct_field_names (fi_arg fi) with Some ns => ns | None => [] end /\
  fi_strict fi = s /\ fi_array fi = a /\ fi_unpack fi = false /\
  array_eff fi = a && negb (is_nil (fi_pos_names fi)) /\
  (forall p, translate_if_array fi p =
     match struct_field_names (fi_arg fi) with
     | Some (n :: ns) => if a then translate (n :: ns) p else Some p
     | _ => Some p
     end) /\
  (forall x, fi_arg fi = Some x -> stubbed fi = array_eff fi || (s && negb (has_strict_method x))).
Proof.
  intros Hc fi.
  assert (Hs : scheme fn) by (apply check_exact; eauto).
  destruct Hs as [args outs y Hargs Houts].
  destruct (check_info _ _ _ Hc) as (Harg & _ & _ & Hu & Hn & _).
  assert (Ea : fi_arg fi = fi_arg fi0) by reflexivity.
  assert (En : fi_pos_names fi = fi_pos_names fi0) by reflexivity.
  assert (Es : fi_strict fi = s) by reflexivity.
  assert (Er : fi_array fi = a) by reflexivity.
  assert (Eu : fi_unpack fi = fi_unpack fi0) by reflexivity.
  assert (Hn' : fi_pos_names fi = match struct_field_names (fi_arg fi) with Some ns => ns | None => [] end)
    by (rewrite En, Ea; exact Hn).
  assert (Hae : array_eff fi = a && negb (is_nil (fi_pos_names fi))).
  { unfold array_eff. rewrite Er. apply andb_comm. }
  split; [exists args, outs; split; [reflexivity|rewrite Ea; exact Harg]|].
  split; [exact Hn'|]. split; [exact Es|]. split; [exact Er|]. split; [rewrite Eu; exact Hu|].
  split; [exact Hae|]. split.
  - intros p. unfold translate_if_array. rewrite Hae, Hn'.
    destruct (struct_field_names (fi_arg fi)) as [[|n ns]|]; destruct a; reflexivity.
  - intros x Hx. unfold stubbed, array_eff, arg_wrapper. rewrite Hx, Es.
    destruct (negb (is_nil (fi_pos_names fi)) && fi_array fi), s, (has_strict_method x); reflexivity.
Qed.

Example check_info_options_nonvacuous :
  let fi0 := fi_of demo_fn in
  check demo_fn = Ok fi0 /\
  fi_pos_names fi0 = [bs [97]; bs [66]; bs [69]; bs [103]; bs [45]] /\
  array_eff (set_strict true (allow_array true fi0)) = true /\
  array_eff (set_strict true (allow_array false fi0)) = false /\
  stubbed (set_strict false (allow_array false fi0)) = false /\
  translate_if_array fi0 (PArray [bs [1]; bs [2]; bs [3]; bs [4]; bs [5]]) =
    Some (PObject [(bs [45], bs [5]); (bs [66], bs [2]); (bs [69], bs [3]); (bs [97], bs [1]); (bs [103], bs [4])]).
Proof. vm_compute. repeat split. Qed.

(* ------------------------------------------------------------------------- *)
(** * C15: handler.New = Check, then Wrap (panic when Check fails)            *)

Section New.
  Variable decode : ty -> bool -> pvalue -> option value.
  Variable zero : ty -> value.

  (* None: New panics with the error of Check.  Some h: the handler, as a function
     from the params of a request to what happens. *)
  Definition new (fn : fnval) : option (pvalue -> outcome) :=
    match check fn with
    | Ok fi => Some (wrap decode zero fi)
    | Err _ => None
    end.

  Lemma new_spec fn :
    (new fn = None <-> ~ scheme fn) /\
    (new fn = None <-> exists e, check fn = Err e) /\
    (forall h, new fn = Some h -> exists fi, check fn = Ok fi /\ h = wrap decode zero fi) /\
    (scheme fn -> exists fi, check fn = Ok fi /\ new fn = Some (wrap decode zero fi)).
  Proof.
    unfold new. repeat split.
    - intros H Hs. apply check_exact in Hs. destruct Hs as [fi Hfi]. rewrite Hfi in H. discriminate.
    - intros Hn. destruct (check_total fn Hn) as [e He]. rewrite He. reflexivity.
    - destruct (check fn) as [fi|e]; [discriminate|eauto].
    - intros [e He]. rewrite He. reflexivity.
    - intros h H. destruct (check fn) as [fi|e]; [|discriminate]. injection H as <-. eauto.
    - intros Hs. apply check_exact in Hs. destruct Hs as [fi Hfi]. rewrite Hfi. eauto.
  Qed.
End New.

Example new_nonvacuous :
  new demo_decode demo_zero FNil = None /\
  new demo_decode demo_zero (FFunc [TCtx; TScalar KInt] true [TError]) = None /\
  match new demo_decode demo_zero strict_fn with
  | Some h => h demo_params = OInvalidParams /\ h PAbsent = OCall [demo_zero TAny] /\
              h (PObject [(bs [97], bs [49])]) = OCall [Val (bs [118]) []]
  | None => False
  end.
Proof. vm_compute. repeat split. Qed.

(* ------------------------------------------------------------------------- *)
(** * C15/C16: one call of the handler - how often the function runs, with what,
      and what the handler returns                                            *)

(* what the user function is called with (after the context) *)
Inductive call_input :=
| InArgs (args : list value)     (* the decoded argument(s) *)
| InRequest (p : pvalue).        (* the *jrpc2.Request itself (its params are p) *)

(* what the handler returns: an InvalidParams error made by the adapter itself, or
   what decode_out makes of the function's result and error *)
Inductive hreturn (R E : Type) :=
| RInvalidParams                 (* (nil, InvalidParams "invalid parameters: ...") *)
| RNoParamsAccepted              (* (nil, InvalidParams "no parameters accepted") *)
| RReturn (r : hret R E).
Arguments RInvalidParams {R E}.
Arguments RNoParamsAccepted {R E}.
Arguments RReturn {R E} r.

Definition is_invalid_params {R E} (r : hreturn R E) : bool :=
  match r with RReturn _ => false | _ => true end.

Section Handle.
  Variable decode : ty -> bool -> pvalue -> option value.
  Variable zero : ty -> value.
  Context {R E : Type}.

  (* The handler made by Wrap, applied to a request with params p, the wrapped
     function being f (result, error or nil).  Returns the inputs of all calls of
     f, in order, and the handler's return value. *)
  Definition handle (fi : finfo) (p : pvalue) (f : call_input -> R * option E)
    : list call_input * hreturn R E :=
    match wrap decode zero fi p with
    | OCall args =>
        let x := InArgs args in ([x], RReturn (decode_out fi (fst (f x)) (snd (f x))))
    | OCallRequest =>
        let x := InRequest p in ([x], RReturn (decode_out fi (fst (f x)) (snd (f x))))
    | OInvalidParams => ([], RInvalidParams)
    | ONoParamsAccepted => ([], RNoParamsAccepted)
    end.

  Lemma handle_spec fi p f :
    let calls := fst (handle fi p f) in
    let ret := snd (handle fi p f) in
    length calls <= 1 /\
    (forall x, calls = [x] <->
       (exists args, wrap decode zero fi p = OCall args /\ x = InArgs args) \/
       (wrap decode zero fi p = OCallRequest /\ x = InRequest p)) /\
    (forall x, calls = [x] -> ret = RReturn (decode_out fi (fst (f x)) (snd (f x)))) /\
    (calls = [] <-> wrap decode zero fi p = OInvalidParams \/ wrap decode zero fi p = ONoParamsAccepted) /\
    (calls = [] <-> is_invalid_params ret = true) /\
    (ret = RInvalidParams <-> wrap decode zero fi p = OInvalidParams) /\
    (ret = RNoParamsAccepted <-> wrap decode zero fi p = ONoParamsAccepted).
  Proof.
    unfold handle. destruct (wrap decode zero fi p) as [args| | |]; cbn.
    - split; [lia|]. split.
      + intros x. split.
        * intros [= <-]. left. eauto.
        * intros [(args' & [= <-] & ->)|[H _]]; [reflexivity|discriminate].
      + split; [intros x [= <-]; reflexivity|].
        repeat split; try discriminate; intros [H|H]; discriminate.
    - split; [lia|]. split.
      + intros x. split.
        * intros [= <-]. right. auto.
        * intros [(args' & H & _)|[_ ->]]; [discriminate|reflexivity].
      + split; [intros x [= <-]; reflexivity|].
        repeat split; try discriminate; intros [H|H]; discriminate.
    - split; [lia|]. split.
      + intros x. split; [discriminate|]. intros [(args' & H & _)|[H _]]; discriminate.
      + split; [discriminate|]. repeat split; auto; discriminate.
    - split; [lia|]. split.
      + intros x. split; [discriminate|]. intros [(args' & H & _)|[H _]]; discriminate.
      + split; [discriminate|]. repeat split; auto; discriminate.
  Qed.
End Handle.

Example handle_nonvacuous :
  let f (x : call_input) : nat * option nat :=
    match x with InArgs [Val e _] => (length e, Some 7) | _ => (0, None) end in
  (* func(ctx, *T) error: called once, the error handed on *)
  handle demo_decode demo_zero (fi_of strict_fn) (PObject [(bs [97], bs [49])]) f =
    ([InArgs [Val (bs [118]) []]], RReturn (HError 7)) /\
  (* unknown field: not called *)
  handle demo_decode demo_zero (fi_of strict_fn) demo_params f = ([], RInvalidParams) /\
  (* func(ctx) error with params: not called *)
  handle demo_decode demo_zero (fi_of (FFunc [TCtx] false [TError])) PNull f = ([], RNoParamsAccepted) /\
  (* func(ctx, *jrpc2.Request) (int, error): called once with the request *)
  handle demo_decode demo_zero (fi_of (FFunc [TCtx; TPtr TRequest] false [TScalar KInt; TError])) PNull f =
    ([InRequest PNull], RReturn (HResult 0)).
Proof. vm_compute. repeat split. Qed.

(* ---- the same for the handler made by Positional ---- *)

(* the arguments a Positional handler of func(ctx, xs...) with the given names calls
   its function with, None when the params are rejected *)
Definition pos_args (decode_elt : ty -> elt -> option value) (zero : ty -> value)
    (names : list bytes) (xs : list ty) (p : pvalue) : option (list value) :=
  match p with
  | PAbsent | PNull => Some (map zero xs)
  | PArray es => decode_each decode_elt xs es
  | PObject kvs => fill decode_elt names xs kvs (map zero xs)
  | PScalar _ | PMalformed _ => None
  end.

Section PositionalHandle.
  Variable decode : ty -> bool -> pvalue -> option value.
  Variable zero : ty -> value.
  Variable decode_elt : ty -> elt -> option value.
  Context {R E : Type}.

  Lemma positional_wrap_pos_args xs outs names fi p :
    struct_contract decode zero decode_elt -> zero_contract zero ->
    xs <> [] -> usable_names names = true ->
    positional (FFunc (TCtx :: xs) false outs) names = Ok fi ->
    plain_params names p = true ->
    wrap decode zero fi p =
    match pos_args decode_elt zero names xs p with Some args => OCall args | None => OInvalidParams end.
  Proof.
    intros HC HZ Hx Hu Hp Hpl.
    rewrite (positional_elementwise decode zero decode_elt xs outs names fi p HC HZ Hx Hu Hp Hpl).
    destruct p; reflexivity.
  Qed.

  (* with no assumption on the oracle: the function is never given the request, and
     "no parameters accepted" is never the answer *)
  Lemma positional_handle_shape xs outs names fi p (f : call_input -> R * option E) :
    xs <> [] -> positional (FFunc (TCtx :: xs) false outs) names = Ok fi ->
    (exists args, handle decode zero fi p f =
       ([InArgs args], RReturn (decode_out fi (fst (f (InArgs args))) (snd (f (InArgs args))))) /\
       wrap decode zero fi p = OCall args) \/
    (handle decode zero fi p f = ([], RInvalidParams) /\ wrap decode zero fi p = OInvalidParams).
  Proof.
    intros Hx Hp.
    destruct (positional_accepts_exactly decode zero xs outs names fi p [] Hx Hp) as [_ [H|[args H]]];
      unfold handle; rewrite H; eauto.
  Qed.

  (* under the documented contract of encoding/json: called exactly once with the
     positional / keyed values, result and error handed on; or not called *)
  Lemma positional_handle xs outs names fi p (f : call_input -> R * option E) :
    struct_contract decode zero decode_elt -> zero_contract zero ->
    xs <> [] -> usable_names names = true ->
    positional (FFunc (TCtx :: xs) false outs) names = Ok fi ->
    plain_params names p = true ->
    handle decode zero fi p f =
    match pos_args decode_elt zero names xs p with
    | Some args => ([InArgs args], RReturn (decode_out fi (fst (f (InArgs args))) (snd (f (InArgs args)))))
    | None => ([], RInvalidParams)
    end.
  Proof.
    intros HC HZ Hx Hu Hp Hpl. unfold handle.
    rewrite (positional_wrap_pos_args xs outs names fi p HC HZ Hx Hu Hp Hpl).
    destruct (pos_args decode_elt zero names xs p); reflexivity.
  Qed.
End PositionalHandle.

Example positional_handle_nonvacuous :
  let f (x : call_input) : bytes * option nat :=
    match x with InArgs [Val a _; Val b _] => (a ++ b, None) | _ => ([], Some 1) end in
  handle ex_decode ex_zero ex_fi (PArray [[55]; [34; 97; 34]]%N) f =
    ([InArgs [Val [55]%N []; Val [34; 97; 34]%N []]], RReturn (HResult [55; 34; 97; 34]%N)) /\
  handle ex_decode ex_zero ex_fi (PArray [[55]]%N) f = ([], RInvalidParams) /\
  handle ex_decode ex_zero ex_fi (PObject [([120], [49]); ([122], [50])]%N) f = ([], RInvalidParams).
Proof. vm_compute. repeat split. Qed.

(* ------------------------------------------------------------------------- *)
(** * C15/C16: calls of one handler value do not interfere                     *)

(* `serve` (Handler.v) is `map (wrap fi)`: that its n-th answer is the answer to its
   n-th request (serve_stateless, serve_permutation, serve_positional) holds of `map f`
   for ANY f and says nothing about the code.  What the code does that makes calls
   independent is this: the handler closure made by Wrap allocates, on EVERY call, a
   fresh variable (`in := reflect.New(arg)`) and a fresh stub around it (wrapArg(in)),
   decodes the params into it, and passes what it holds to the function; nothing a
   call writes is reachable from another call.  The machine below makes the scratch
   variable explicit and runs the calls' steps in an arbitrary interleaving.

   One call = up to three steps: allocate the scratch cell; decode the params into it
   (absent params: no decode at all); read the cell and call the function.  The cell
   of call i lives at address `addr shared i` of a common store: i itself (per-call
   allocation, the code as it is) or, for shared = true, the same address for every
   call (what hoisting the allocation out of the closure - into the "pre-compiled"
   part of Wrap - would do). *)
Inductive pc := PcNew | PcAllocated | PcDecoded | PcDone (o : outcome).

Section Scratch.
  Variable decode : ty -> bool -> pvalue -> option value.
  Variable zero : ty -> value.
  Variable fi : finfo.

  (* the argument type when the params are decoded into a scratch variable *)
  Definition scratch_type : option ty :=
    if fi_handler fi then None
    else match fi_arg fi with
         | Some a => if is_req a then None else Some a
         | None => None
         end.

  (* one step of one call, on its program counter and the contents of its cell *)
  Definition local_step (p : pvalue) (s : pc * option value) : pc * option value :=
    let '(c, cell) := s in
    match c with
    | PcDone _ => s
    | _ =>
        match scratch_type with
        | None => (PcDone (wrap decode zero fi p), cell)
        | Some a =>
            match c with
            | PcNew => (PcAllocated, Some (zero (pointee a)))
            | PcAllocated =>
                match p with
                | PAbsent => (PcDecoded, cell)
                | _ =>
                    match stub_decode decode (arg_wrapper true fi) (fi_pos_names fi)
                                      (direct_strict a) (pointee a) p with
                    | Some v => (PcDecoded, Some v)
                    | None => (PcDone OInvalidParams, cell)
                    end
                end
            | PcDecoded =>
                match cell with
                | Some v => (PcDone (OCall (call_args fi v)), cell)
                | None => s
                end
            | PcDone _ => s
            end
        end
    end.

  Record mstate := { m_cells : list (option value); m_pcs : list pc }.

  Definition addr (shared : bool) (i : nat) : nat := if shared then 0 else i.

  (* call i takes its next step *)
  Definition mstep (shared : bool) (ps : list pvalue) (st : mstate) (i : nat) : mstate :=
    match nth_error ps i, nth_error (m_pcs st) i with
    | Some p, Some c =>
        let k := addr shared i in
        let s' := local_step p (c, nth k (m_cells st) None) in
        {| m_cells := set_nth k (snd s') (m_cells st); m_pcs := set_nth i (fst s') (m_pcs st) |}
    | _, _ => st
    end.

  Definition minit (n : nat) : mstate := {| m_cells := repeat None n; m_pcs := repeat PcNew n |}.
  (* the calls for the requests ps, their steps taken in the order sch *)
  Definition mrun (shared : bool) (ps : list pvalue) (sch : list nat) : mstate :=
    fold_left (mstep shared ps) sch (minit (length ps)).
  Definition outcome_of (c : pc) : option outcome := match c with PcDone o => Some o | _ => None end.

  (* ---- one call alone ---- *)
  Definition local (p : pvalue) (k : nat) : pc * option value := Nat.iter k (local_step p) (PcNew, None).

  Lemma local_S p k : local p (S k) = local_step p (local p k).
  Proof. reflexivity. Qed.

  Lemma wrap_scratch a p :
    scratch_type = Some a ->
    wrap decode zero fi p =
    match unmarshal_params decode zero (arg_wrapper true fi) (fi_pos_names fi) (direct_strict a) (pointee a) p with
    | None => OInvalidParams
    | Some v => OCall (call_args fi v)
    end.
  Proof.
    unfold scratch_type, wrap, wrap_gen, call_args.
    destruct (fi_handler fi); [discriminate|].
    destruct (fi_arg fi) as [a'|]; [|discriminate].
    destruct (is_req a') eqn:Er; [discriminate|]. intros [= ->]. reflexivity.
  Qed.

  Lemma local_3 p : fst (local p 3) = PcDone (wrap decode zero fi p).
  Proof.
    change (local p 3) with (local_step p (local_step p (local_step p (PcNew, None)))).
    destruct scratch_type as [a|] eqn:Es.
    - rewrite (wrap_scratch a p Es). unfold unmarshal_params, local_step. rewrite Es.
      cbv beta iota zeta.
      destruct p; cbv beta iota zeta; try reflexivity;
        (destruct (stub_decode decode _ _ _ _ _) as [v|]; cbv beta iota zeta; reflexivity).
    - unfold local_step. rewrite Es. reflexivity.
  Qed.

  Lemma local_done_stable p k o : fst (local p k) = PcDone o -> local p (S k) = local p k.
  Proof.
    intros H. rewrite local_S. destruct (local p k) as [c cell]. cbn in H. subst c. reflexivity.
  Qed.

  Lemma local_ge_3 p k : 3 <= k -> fst (local p k) = PcDone (wrap decode zero fi p).
  Proof.
    intros H. replace k with ((k - 3) + 3) by lia. induction (k - 3) as [|n IH]; [apply local_3|].
    cbn [Nat.add]. rewrite (local_done_stable p (n + 3) _ IH). exact IH.
  Qed.

  (* whenever a call has finished, it finished with the answer of wrap *)
  Lemma local_done_stable_add p k o m : fst (local p k) = PcDone o -> local p (m + k) = local p k.
  Proof.
    intros H. induction m as [|m IH]; [reflexivity|].
    cbn [Nat.add]. rewrite (local_done_stable p (m + k) o); [exact IH|]. rewrite IH. exact H.
  Qed.

  Lemma local_done p k o : fst (local p k) = PcDone o -> o = wrap decode zero fi p.
  Proof.
    intros H. pose proof (local_ge_3 p (3 + k) ltac:(lia)) as H3.
    rewrite (local_done_stable_add p k o 3 H), H in H3. congruence.
  Qed.

  (* ---- all calls, interleaved, each with its own cell ---- *)
  Lemma nth_error_repeat_lt {A} (x : A) n i : i < n -> nth_error (repeat x n) i = Some x.
  Proof. revert i; induction n as [|n IH]; intros [|i] H; cbn; try lia; auto. apply IH; lia. Qed.

  Lemma nth_error_nth_default {A} (l : list A) i x d : nth_error l i = Some x -> nth i l d = x.
  Proof. revert i; induction l as [|y l IH]; intros [|i] H; cbn in *; try discriminate; [congruence|auto]. Qed.

  Definition inv (ps : list pvalue) (cnt : nat -> nat) (st : mstate) : Prop :=
    length (m_pcs st) = length ps /\ length (m_cells st) = length ps /\
    forall i p, nth_error ps i = Some p ->
      nth_error (m_pcs st) i = Some (fst (local p (cnt i))) /\
      nth_error (m_cells st) i = Some (snd (local p (cnt i))).

  Lemma inv_ext ps cnt cnt' st : (forall j, cnt j = cnt' j) -> inv ps cnt st -> inv ps cnt' st.
  Proof.
    intros He (H1 & H2 & H3). split; [exact H1|]. split; [exact H2|].
    intros i p Hp. rewrite <- He. apply H3; exact Hp.
  Qed.

  Lemma inv_init ps : inv ps (fun _ => 0) (minit (length ps)).
  Proof.
    unfold minit. split; [apply repeat_length|]. split; [apply repeat_length|].
    intros i p Hp. assert (Hi : i < length ps) by (apply nth_error_Some; congruence).
    cbn. split; apply nth_error_repeat_lt; exact Hi.
  Qed.

  Lemma inv_step ps cnt st i :
    inv ps cnt st -> inv ps (fun j => if Nat.eqb j i then S (cnt j) else cnt j) (mstep false ps st i).
  Proof.
    intros (H1 & H2 & H3). unfold inv, mstep.
    destruct (nth_error ps i) as [p|] eqn:Ep.
    - destruct (H3 i p Ep) as [Hc Hcell]. rewrite Hc. cbn [addr].
      rewrite (nth_error_nth_default _ _ _ None Hcell).
      assert (Hi : i < length ps) by (apply nth_error_Some; congruence).
      assert (Es : local_step p (fst (local p (cnt i)), snd (local p (cnt i))) = local p (S (cnt i))).
      { rewrite local_S. destruct (local p (cnt i)); reflexivity. }
      rewrite Es. cbn [m_cells m_pcs].
      split; [rewrite set_nth_length; exact H1|]. split; [rewrite set_nth_length; exact H2|].
      intros j q Hq. destruct (Nat.eqb_spec j i) as [->|Hne].
      + assert (q = p) by congruence. subst q.
        split; apply nth_error_set_nth_same; lia.
      + rewrite !nth_error_set_nth_other by congruence. apply H3; exact Hq.
    - split; [exact H1|]. split; [exact H2|].
      intros j q Hq. destruct (Nat.eqb_spec j i) as [->|Hne]; [congruence|]. apply H3; exact Hq.
  Qed.

  Lemma inv_fold ps sch : forall st cnt,
    inv ps cnt st -> inv ps (fun j => cnt j + count_occ Nat.eq_dec sch j) (fold_left (mstep false ps) sch st).
  Proof.
    induction sch as [|i sch IH]; intros st cnt H; cbn [fold_left].
    - apply (inv_ext ps cnt); [intros j; cbn; lia|exact H].
    - apply (inv_ext ps (fun j => (if Nat.eqb j i then S (cnt j) else cnt j) + count_occ Nat.eq_dec sch j)).
      + intros j. cbn [count_occ]. destruct (Nat.eq_dec i j) as [->|Hne].
        * rewrite Nat.eqb_refl. lia.
        * destruct (Nat.eqb_spec j i); [congruence|reflexivity].
      + apply IH, inv_step, H.
  Qed.

  (* Every call, whatever the other calls do and in whatever order all their steps are
     taken, behaves as if it were alone: its program counter and its cell are those of
     `local` after as many steps as the schedule gave it; if it has finished, it
     finished with wrap's answer to ITS params; after three steps it has finished. *)
  Lemma scratch_no_interference ps sch :
    let st := mrun false ps sch in
    length (m_pcs st) = length ps /\
    forall i p, nth_error ps i = Some p ->
      nth_error (m_pcs st) i = Some (fst (local p (count_occ Nat.eq_dec sch i))) /\
      nth_error (m_cells st) i = Some (snd (local p (count_occ Nat.eq_dec sch i))) /\
      (forall o, nth_error (m_pcs st) i = Some (PcDone o) -> o = wrap decode zero fi p) /\
      (3 <= count_occ Nat.eq_dec sch i -> nth_error (m_pcs st) i = Some (PcDone (wrap decode zero fi p))).
  Proof.
    intros st. destruct (inv_fold ps sch _ _ (inv_init ps)) as (H1 & _ & H3). fold (mrun false ps sch) in H1, H3.
    split; [exact H1|]. intros i p Hp. destruct (H3 i p Hp) as [Hc Hcell]. cbn [Nat.add] in Hc, Hcell.
    split; [exact Hc|]. split; [exact Hcell|]. split.
    - intros o Ho. fold st in Hc. rewrite Hc in Ho. injection Ho as Ho. apply (local_done p _ o Ho).
    - intros Hk. fold st in Hc. rewrite Hc. f_equal. apply local_ge_3; exact Hk.
  Qed.

  (* a schedule that lets every call finish yields exactly `serve` *)
  Lemma scratch_complete ps sch :
    (forall i, i < length ps -> 3 <= count_occ Nat.eq_dec sch i) ->
    map outcome_of (m_pcs (mrun false ps sch)) = map Some (serve decode zero fi ps).
  Proof.
    intros Hall. destruct (scratch_no_interference ps sch) as [Hl H].
    apply nth_error_ext. intros i. rewrite !nth_error_map. unfold serve. rewrite nth_error_map.
    destruct (nth_error ps i) as [p|] eqn:Ep.
    - assert (Hi : i < length ps) by (apply nth_error_Some; congruence).
      destruct (H i p Ep) as (_ & _ & _ & Hd). rewrite (Hd (Hall i Hi)). reflexivity.
    - assert (Hi : length ps <= i) by (apply nth_error_None; exact Ep).
      assert (En : nth_error (m_pcs (mrun false ps sch)) i = None) by (apply nth_error_None; lia).
      rewrite En. reflexivity.
  Qed.
End Scratch.

(* non-vacuity, and the refutation for a scratch variable shared between calls: two
   requests {"a":1} and {"a":2}; the schedule lets call 0 allocate and decode, then call 1
   allocate and decode, then both call their function *)
Definition first_decode (_ : ty) (_ : bool) (p : pvalue) : option value :=
  match p with PObject ((_, e) :: _) => Some (Val e []) | _ => None end.
Definition scratch_reqs : list pvalue := [PObject [(bs [97], bs [49])]; PObject [(bs [97], bs [50])]].
Definition scratch_sched : list nat := [0; 0; 1; 1; 0; 1].

Example scratch_nonvacuous :
  scratch_type (fi_of strict_fn) = Some (TPtr strict_struct) /\
  (forall i, i < length scratch_reqs -> 3 <= count_occ Nat.eq_dec scratch_sched i) /\
  map outcome_of (m_pcs (mrun first_decode demo_zero (fi_of strict_fn) false scratch_reqs scratch_sched)) =
    [Some (OCall [Val (bs [49]) []]); Some (OCall [Val (bs [50]) []])] /\
  (* a call that has taken two of its three steps, the other none *)
  map outcome_of (m_pcs (mrun first_decode demo_zero (fi_of strict_fn) false scratch_reqs [1; 1])) = [None; None] /\
  (* a rejected request between two accepted ones *)
  map outcome_of (m_pcs (mrun first_decode demo_zero (fi_of strict_fn) false
                           [PObject [(bs [97], bs [49])]; PArray []; PAbsent] [2; 0; 1; 1; 0; 2; 2; 0; 1])) =
    [Some (OCall [Val (bs [49]) []]); Some OInvalidParams; Some (OCall [demo_zero TAny])].
Proof.
  split; [vm_compute; reflexivity|]. split.
  - intros [|[|i]] H; cbn in H; try lia; vm_compute; lia.
  - vm_compute. repeat split.
Qed.

Lemma scratch_refuted_with_shared_cell :
  map outcome_of (m_pcs (mrun first_decode demo_zero (fi_of strict_fn) true scratch_reqs scratch_sched)) =
    [Some (OCall [Val (bs [50]) []]); Some (OCall [Val (bs [50]) []])] /\
  map outcome_of (m_pcs (mrun first_decode demo_zero (fi_of strict_fn) true scratch_reqs scratch_sched)) <>
    map Some (serve first_decode demo_zero (fi_of strict_fn) scratch_reqs).
Proof. split; [vm_compute; reflexivity|vm_compute; congruence]. Qed.

(* the handler made by Positional decodes into a scratch variable of the synthetic
   struct type - one per call - and the interleaving statement applies to it *)
Lemma positional_no_interference decode zero xs outs names fi ps sch :
  xs <> [] -> positional (FFunc (TCtx :: xs) false outs) names = Ok fi ->
  scratch_type fi = Some (pos_struct names xs) /\
  forall i p, nth_error ps i = Some p ->
    (forall o, nth_error (m_pcs (mrun decode zero fi false ps sch)) i = Some (PcDone o) ->
       o = wrap decode zero fi p) /\
    (3 <= count_occ Nat.eq_dec sch i ->
       nth_error (m_pcs (mrun decode zero fi false ps sch)) i = Some (PcDone (wrap decode zero fi p))).
Proof.
  intros Hx Hp. destruct (positional_info _ _ _ _ Hx Hp) as (_ & Ha & _ & _ & _ & _ & Hh & _).
  split.
  - unfold scratch_type. rewrite Hh, Ha. reflexivity.
  - intros i p Hi. destruct (scratch_no_interference decode zero fi ps sch) as [_ H].
    destruct (H i p Hi) as (_ & _ & H1 & H2). split; assumption.
Qed.

Example positional_no_interference_nonvacuous :
  map outcome_of (m_pcs (mrun ex_decode ex_zero ex_fi false
      [PArray [[55]; [34; 97; 34]]; PArray [[55]]; PObject [([89], [34; 98; 34])]]%N [2; 0; 1; 1; 0; 2; 2; 0; 1])) =
  [Some (OCall [Val [55]%N []; Val [34; 97; 34]%N []]); Some OInvalidParams;
   Some (OCall [Val [48]%N []; Val [34; 98; 34]%N []])].
Proof. vm_compute. reflexivity. Qed.
