(* HandlerMore: further lemmas about the handler adapter model (Handler.v) behind
   C15 and C16.  New definitions here (new, handle, the scratch-cell machine,
   null_contract, pos_args) are specification-level: they are built from the
   extracted definitions of Handler.v and are not extracted themselves. *)
From Coq Require Import List NArith Bool Arith Lia Sorting.Permutation.
From JV Require Import Bytes Handler HandlerProofs HandlerExtra PosElem.
Import ListNotations.

(* ------------------------------------------------------------------------- *)
(** * C15: what Check records, after the options                              *)

(* The FuncInfo of an accepted function after SetStrict(s) and AllowArray(a), in
   the vocabulary of wrap_spec (translate_if_array, stubbed, array_eff): the
   positional names are the struct field names of the argument type, the array
   form is in effect iff it is allowed and there is at least one such name, and
   the translation applied to the params is `translate` with those names. *)
Lemma check_info_options fn fi0 s a :
  check fn = Ok fi0 ->
  let fi := set_strict s (allow_array a fi0) in
  (exists args outs, fn = FFunc (TCtx :: args) false outs /\
     fi_arg fi = match args with [x] => Some x | _ => None end) /\
  fi_pos_names fi = match struct_field_names (fi_arg fi) with Some ns => ns | None => [] end /\
  fi_strict fi = s /\ fi_array fi = a /\ fi_unpack fi = false /\
  array_eff fi = a && negb (is_nil (fi_pos_names fi)) /\
  (forall p, translate_if_array fi p =
     match struct_field_names (fi_arg fi) with
     | Some (n :: ns) => if a then translate (n :: ns) p else Some p
     | _ => Some p
     end) /\
  (forall x, fi_arg fi = Some x -> stubbed fi = array_eff fi || (s && negb (has_strict_method x))).
Proof.
  intros Hc fi.
  assert (Hs : scheme fn) by (apply check_exact; eauto).
  destruct Hs as [args outs y Hargs Houts].
  destruct (check_info _ _ _ Hc) as (Harg & _ & _ & Hu & Hn & _).
  assert (Ea : fi_arg fi = fi_arg fi0) by reflexivity.
  assert (En : fi_pos_names fi = fi_pos_names fi0) by reflexivity.
  assert (Es : fi_strict fi = s) by reflexivity.
  assert (Er : fi_array fi = a) by reflexivity.
  assert (Eu : fi_unpack fi = fi_unpack fi0) by reflexivity.
  assert (Hn' : fi_pos_names fi = match struct_field_names (fi_arg fi) with Some ns => ns | None => [] end)
    by (rewrite En, Ea; exact Hn).
  assert (Hae : array_eff fi = a && negb (is_nil (fi_pos_names fi))).
  { unfold array_eff. rewrite Er. apply andb_comm. }
  split; [exists args, outs; split; [reflexivity|rewrite Ea; exact Harg]|].
  split; [exact Hn'|]. split; [exact Es|]. split; [exact Er|]. split; [rewrite Eu; exact Hu|].
  split; [exact Hae|]. split.
  - intros p. unfold translate_if_array. rewrite Hae, Hn'.
    destruct (struct_field_names (fi_arg fi)) as [[|n ns]|]; destruct a; reflexivity.
  - intros x Hx. unfold stubbed, array_eff, arg_wrapper. rewrite Hx, Es.
    destruct (negb (is_nil (fi_pos_names fi)) && fi_array fi), s, (has_strict_method x); reflexivity.
Qed.

Example check_info_options_nonvacuous :
  let fi0 := fi_of demo_fn in
  check demo_fn = Ok fi0 /\
  fi_pos_names fi0 = [bs [97]; bs [66]; bs [69]; bs [103]; bs [45]] /\
  array_eff (set_strict true (allow_array true fi0)) = true /\
  array_eff (set_strict true (allow_array false fi0)) = false /\
  stubbed (set_strict false (allow_array false fi0)) = false /\
  translate_if_array fi0 (PArray [bs [1]; bs [2]; bs [3]; bs [4]; bs [5]]) =
    Some (PObject [(bs [45], bs [5]); (bs [66], bs [2]); (bs [69], bs [3]); (bs [97], bs [1]); (bs [103], bs [4])]).
Proof. vm_compute. repeat split. Qed.

(* ------------------------------------------------------------------------- *)
(** * C15: handler.New = Check, then Wrap (panic when Check fails)            *)

Section New.
  Variable decode : ty -> bool -> pvalue -> option value.
  Variable zero : ty -> value.

  (* None: New panics with the error of Check.  Some h: the handler, as a function
     from the params of a request to what happens. *)
  Definition new (fn : fnval) : option (pvalue -> outcome) :=
    match check fn with
    | Ok fi => Some (wrap decode zero fi)
    | Err _ => None
    end.

  Lemma new_spec fn :
    (new fn = None <-> ~ scheme fn) /\
    (new fn = None <-> exists e, check fn = Err e) /\
    (forall h, new fn = Some h -> exists fi, check fn = Ok fi /\ h = wrap decode zero fi) /\
    (scheme fn -> exists fi, check fn = Ok fi /\ new fn = Some (wrap decode zero fi)).
  Proof.
    unfold new. repeat split.
    - intros H Hs. apply check_exact in Hs. destruct Hs as [fi Hfi]. rewrite Hfi in H. discriminate.
    - intros Hn. destruct (check_total fn Hn) as [e He]. rewrite He. reflexivity.
    - destruct (check fn) as [fi|e]; [discriminate|eauto].
    - intros [e He]. rewrite He. reflexivity.
    - intros h H. destruct (check fn) as [fi|e]; [|discriminate]. injection H as <-. eauto.
    - intros Hs. apply check_exact in Hs. destruct Hs as [fi Hfi]. rewrite Hfi. eauto.
  Qed.
End New.

Example new_nonvacuous :
  new demo_decode demo_zero FNil = None /\
  new demo_decode demo_zero (FFunc [TCtx; TScalar KInt] true [TError]) = None /\
  match new demo_decode demo_zero strict_fn with
  | Some h => h demo_params = OInvalidParams /\ h PAbsent = OCall [demo_zero TAny] /\
              h (PObject [(bs [97], bs [49])]) = OCall [Val (bs [118]) []]
  | None => False
  end.
Proof. vm_compute. repeat split. Qed.

(* ------------------------------------------------------------------------- *)
(** * C15/C16: one call of the handler - how often the function runs, with what,
      and what the handler returns                                            *)

(* what the user function is called with (after the context) *)
Inductive call_input :=
| InArgs (args : list value)     (* the decoded argument(s) *)
| InRequest (p : pvalue).        (* the *jrpc2.Request itself (its params are p) *)

(* what the handler returns: an InvalidParams error made by the adapter itself, or
   what decode_out makes of the function's result and error *)
Inductive hreturn (R E : Type) :=
| RInvalidParams                 (* (nil, InvalidParams "invalid parameters: ...") *)
| RNoParamsAccepted              (* (nil, InvalidParams "no parameters accepted") *)
| RReturn (r : hret R E).
Arguments RInvalidParams {R E}.
Arguments RNoParamsAccepted {R E}.
Arguments RReturn {R E} r.

Definition is_invalid_params {R E} (r : hreturn R E) : bool :=
  match r with RReturn _ => false | _ => true end.

Section Handle.
  Variable decode : ty -> bool -> pvalue -> option value.
  Variable zero : ty -> value.
  Context {R E : Type}.

  (* The handler made by Wrap, applied to a request with params p, the wrapped
     function being f (result, error or nil).  Returns the inputs of all calls of
     f, in order, and the handler's return value. *)
  Definition handle (fi : finfo) (p : pvalue) (f : call_input -> R * option E)
    : list call_input * hreturn R E :=
    match wrap decode zero fi p with
    | OCall args =>
        let x := InArgs args in ([x], RReturn (decode_out fi (fst (f x)) (snd (f x))))
    | OCallRequest =>
        let x := InRequest p in ([x], RReturn (decode_out fi (fst (f x)) (snd (f x))))
    | OInvalidParams => ([], RInvalidParams)
    | ONoParamsAccepted => ([], RNoParamsAccepted)
    end.

  Lemma handle_spec fi p f :
    let calls := fst (handle fi p f) in
    let ret := snd (handle fi p f) in
    length calls <= 1 /\
    (forall x, calls = [x] <->
       (exists args, wrap decode zero fi p = OCall args /\ x = InArgs args) \/
       (wrap decode zero fi p = OCallRequest /\ x = InRequest p)) /\
    (forall x, calls = [x] -> ret = RReturn (decode_out fi (fst (f x)) (snd (f x)))) /\
    (calls = [] <-> wrap decode zero fi p = OInvalidParams \/ wrap decode zero fi p = ONoParamsAccepted) /\
    (calls = [] <-> is_invalid_params ret = true) /\
    (ret = RInvalidParams <-> wrap decode zero fi p = OInvalidParams) /\
    (ret = RNoParamsAccepted <-> wrap decode zero fi p = ONoParamsAccepted).
  Proof.
    unfold handle. destruct (wrap decode zero fi p) as [args| | |]; cbn.
    - split; [lia|]. split.
      + intros x. split.
        * intros [= <-]. left. eauto.
        * intros [(args' & [= <-] & ->)|[H _]]; [reflexivity|discriminate].
      + split; [intros x [= <-]; reflexivity|].
        repeat split; try discriminate; intros [H|H]; discriminate.
    - split; [lia|]. split.
      + intros x. split.
        * intros [= <-]. right. auto.
        * intros [(args' & H & _)|[_ ->]]; [discriminate|reflexivity].
      + split; [intros x [= <-]; reflexivity|].
        repeat split; try discriminate; intros [H|H]; discriminate.
    - split; [lia|]. split.
      + intros x. split; [discriminate|]. intros [(args' & H & _)|[H _]]; discriminate.
      + split; [discriminate|]. repeat split; auto; discriminate.
    - split; [lia|]. split.
      + intros x. split; [discriminate|]. intros [(args' & H & _)|[H _]]; discriminate.
      + split; [discriminate|]. repeat split; auto; discriminate.
  Qed.
End Handle.

Example handle_nonvacuous :
  let f (x : call_input) : nat * option nat :=
    match x with InArgs [Val e _] => (length e, Some 7) | _ => (0, None) end in
  (* func(ctx, *T) error: called once, the error handed on *)
  handle demo_decode demo_zero (fi_of strict_fn) (PObject [(bs [97], bs [49])]) f =
    ([InArgs [Val (bs [118]) []]], RReturn (HError 7)) /\
  (* unknown field: not called *)
  handle demo_decode demo_zero (fi_of strict_fn) demo_params f = ([], RInvalidParams) /\
  (* func(ctx) error with params: not called *)
  handle demo_decode demo_zero (fi_of (FFunc [TCtx] false [TError])) PNull f = ([], RNoParamsAccepted) /\
  (* func(ctx, *jrpc2.Request) (int, error): called once with the request *)
  handle demo_decode demo_zero (fi_of (FFunc [TCtx; TPtr TRequest] false [TScalar KInt; TError])) PNull f =
    ([InRequest PNull], RReturn (HResult 0)).
Proof. vm_compute. repeat split. Qed.

(* ---- the same for the handler made by Positional ---- *)

(* the arguments a Positional handler of func(ctx, xs...) with the given names calls
   its function with, None when the params are rejected *)
Definition pos_args (decode_elt : ty -> elt -> option value) (zero : ty -> value)
    (names : list bytes) (xs : list ty) (p : pvalue) : option (list value) :=
  match p with
  | PAbsent | PNull => Some (map zero xs)
  | PArray es => decode_each decode_elt xs es
  | PObject kvs => fill decode_elt names xs kvs (map zero xs)
  | PScalar _ | PMalformed _ => None
  end.

Section PositionalHandle.
  Variable decode : ty -> bool -> pvalue -> option value.
  Variable zero : ty -> value.
  Variable decode_elt : ty -> elt -> option value.
  Context {R E : Type}.

  Lemma positional_wrap_pos_args xs outs names fi p :
    struct_contract decode zero decode_elt -> zero_contract zero ->
    xs <> [] -> usable_names names = true ->
    positional (FFunc (TCtx :: xs) false outs) names = Ok fi ->
    plain_params names p = true ->
    wrap decode zero fi p =
    match pos_args decode_elt zero names xs p with Some args => OCall args | None => OInvalidParams end.
  Proof.
    intros HC HZ Hx Hu Hp Hpl.
    rewrite (positional_elementwise decode zero decode_elt xs outs names fi p HC HZ Hx Hu Hp Hpl).
    destruct p; reflexivity.
  Qed.

  (* with no assumption on the oracle: the function is never given the request, and
     "no parameters accepted" is never the answer *)
  Lemma positional_handle_shape xs outs names fi p (f : call_input -> R * option E) :
    xs <> [] -> positional (FFunc (TCtx :: xs) false outs) names = Ok fi ->
    (exists args, handle decode zero fi p f =
       ([InArgs args], RReturn (decode_out fi (fst (f (InArgs args))) (snd (f (InArgs args))))) /\
       wrap decode zero fi p = OCall args) \/
    (handle decode zero fi p f = ([], RInvalidParams) /\ wrap decode zero fi p = OInvalidParams).
  Proof.
    intros Hx Hp.
    destruct (positional_accepts_exactly decode zero xs outs names fi p [] Hx Hp) as [_ [H|[args H]]];
      unfold handle; rewrite H; eauto.
  Qed.

  (* under the documented contract of encoding/json: called exactly once with the
     positional / keyed values, result and error handed on; or not called *)
  Lemma positional_handle xs outs names fi p (f : call_input -> R * option E) :
    struct_contract decode zero decode_elt -> zero_contract zero ->
    xs <> [] -> usable_names names = true ->
    positional (FFunc (TCtx :: xs) false outs) names = Ok fi ->
    plain_params names p = true ->
    handle decode zero fi p f =
    match pos_args decode_elt zero names xs p with
    | Some args => ([InArgs args], RReturn (decode_out fi (fst (f (InArgs args))) (snd (f (InArgs args)))))
    | None => ([], RInvalidParams)
    end.
  Proof.
    intros HC HZ Hx Hu Hp Hpl. unfold handle.
    rewrite (positional_wrap_pos_args xs outs names fi p HC HZ Hx Hu Hp Hpl).
    destruct (pos_args decode_elt zero names xs p); reflexivity.
  Qed.
End PositionalHandle.

Example positional_handle_nonvacuous :
  let f (x : call_input) : bytes * option nat :=
    match x with InArgs [Val a _; Val b _] => (a ++ b, None) | _ => ([], Some 1) end in
  handle ex_decode ex_zero ex_fi (PArray [[55]; [34; 97; 34]]%N) f =
    ([InArgs [Val [55]%N []; Val [34; 97; 34]%N []]], RReturn (HResult [55; 34; 97; 34]%N)) /\
  handle ex_decode ex_zero ex_fi (PArray [[55]]%N) f = ([], RInvalidParams) /\
  handle ex_decode ex_zero ex_fi (PObject [([120], [49]); ([122], [50])]%N) f = ([], RInvalidParams).
Proof. vm_compute. repeat split. Qed.

(* ------------------------------------------------------------------------- *)
(** * C15/C16: calls of one handler value do not interfere                     *)

(* `serve` (Handler.v) is `map (wrap fi)`: that its n-th answer is the answer to its
   n-th request (serve_stateless, serve_permutation, serve_positional) holds of `map f`
   for ANY f and says nothing about the code.  What the code does that makes calls
   independent is this: the handler closure made by Wrap allocates, on EVERY call, a
   fresh variable (`in := reflect.New(arg)`) and a fresh stub around it (wrapArg(in)),
   decodes the params into it, and passes what it holds to the function; nothing a
   call writes is reachable from another call.  The machine below makes the scratch
   variable explicit and runs the calls' steps in an arbitrary interleaving.

   One call = up to three steps: allocate the scratch cell; decode the params into it
   (absent params: no decode at all); read the cell and call the function.  The cell
   of call i lives at address `addr shared i` of a common store: i itself (per-call
   allocation, the code as it is) or, for shared = true, the same address for every
   call (what hoisting the allocation out of the closure - into the "pre-compiled"
   part of Wrap - would do). *)
Inductive pc := PcNew | PcAllocated | PcDecoded | PcDone (o : outcome).

Section Scratch.
  Variable decode : ty -> bool -> pvalue -> option value.
  Variable zero : ty -> value.
  Variable fi : finfo.

  (* the argument type when the params are decoded into a scratch variable *)
  Definition scratch_type : option ty :=
    if fi_handler fi then None
    else match fi_arg fi with
         | Some a => if is_req a then None else Some a
         | None => None
         end.

  (* one step of one call, on its program counter and the contents of its cell *)
  Definition local_step (p : pvalue) (s : pc * option value) : pc * option value :=
    let '(c, cell) := s in
    match c with
    | PcDone _ => s
    | _ =>
        match scratch_type with
        | None => (PcDone (wrap decode zero fi p), cell)
        | Some a =>
            match c with
            | PcNew => (PcAllocated, Some (zero (pointee a)))
            | PcAllocated =>
                match p with
                | PAbsent => (PcDecoded, cell)
                | _ =>
                    match stub_decode decode (arg_wrapper true fi) (fi_pos_names fi)
                                      (direct_strict a) (pointee a) p with
                    | Some v => (PcDecoded, Some v)
                    | None => (PcDone OInvalidParams, cell)
                    end
                end
            | PcDecoded =>
                match cell with
                | Some v => (PcDone (OCall (call_args fi v)), cell)
                | None => s
                end
            | PcDone _ => s
            end
        end
    end.

  Record mstate := { m_cells : list (option value); m_pcs : list pc }.

  Definition addr (shared : bool) (i : nat) : nat := if shared then 0 else i.

  (* call i takes its next step *)
  Definition mstep (shared : bool) (ps : list pvalue) (st : mstate) (i : nat) : mstate :=
    match nth_error ps i, nth_error (m_pcs st) i with
    | Some p, Some c =>
        let k := addr shared i in
        let s' := local_step p (c, nth k (m_cells st) None) in
        {| m_cells := set_nth k (snd s') (m_cells st); m_pcs := set_nth i (fst s') (m_pcs st) |}
    | _, _ => st
    end.

  Definition minit (n : nat) : mstate := {| m_cells := repeat None n; m_pcs := repeat PcNew n |}.
  (* the calls for the requests ps, their steps taken in the order sch *)
  Definition mrun (shared : bool) (ps : list pvalue) (sch : list nat) : mstate :=
    fold_left (mstep shared ps) sch (minit (length ps)).
  Definition outcome_of (c : pc) : option outcome := match c with PcDone o => Some o | _ => None end.

  (* ---- one call alone ---- *)
  Definition local (p : pvalue) (k : nat) : pc * option value := Nat.iter k (local_step p) (PcNew, None).

  Lemma local_S p k : local p (S k) = local_step p (local p k).
  Proof. reflexivity. Qed.

  Lemma wrap_scratch a p :
    scratch_type = Some a ->
    wrap decode zero fi p =
    match unmarshal_params decode zero (arg_wrapper true fi) (fi_pos_names fi) (direct_strict a) (pointee a) p with
    | None => OInvalidParams
    | Some v => OCall (call_args fi v)
    end.
  Proof.
    unfold scratch_type, wrap, wrap_gen, call_args.
    destruct (fi_handler fi); [discriminate|].
    destruct (fi_arg fi) as [a'|]; [|discriminate].
    destruct (is_req a') eqn:Er; [discriminate|]. intros [= ->]. reflexivity.
  Qed.

  Lemma local_3 p : fst (local p 3) = PcDone (wrap decode zero fi p).
  Proof.
    change (local p 3) with (local_step p (local_step p (local_step p (PcNew, None)))).
    destruct scratch_type as [a|] eqn:Es.
    - rewrite (wrap_scratch a p Es). unfold unmarshal_params, local_step. rewrite Es.
      cbv beta iota zeta.
      destruct p; cbv beta iota zeta; try reflexivity;
        (destruct (stub_decode decode _ _ _ _ _) as [v|]; cbv beta iota zeta; reflexivity).
    - unfold local_step. rewrite Es. reflexivity.
  Qed.

  Lemma local_done_stable p k o : fst (local p k) = PcDone o -> local p (S k) = local p k.
  Proof.
    intros H. rewrite local_S. destruct (local p k) as [c cell]. cbn in H. subst c. reflexivity.
  Qed.

  Lemma local_ge_3 p k : 3 <= k -> fst (local p k) = PcDone (wrap decode zero fi p).
  Proof.
    intros H. replace k with ((k - 3) + 3) by lia. induction (k - 3) as [|n IH]; [apply local_3|].
    cbn [Nat.add]. rewrite (local_done_stable p (n + 3) _ IH). exact IH.
  Qed.

  (* whenever a call has finished, it finished with the answer of wrap *)
  Lemma local_done_stable_add p k o m : fst (local p k) = PcDone o -> local p (m + k) = local p k.
  Proof.
    intros H. induction m as [|m IH]; [reflexivity|].
    cbn [Nat.add]. rewrite (local_done_stable p (m + k) o); [exact IH|]. rewrite IH. exact H.
  Qed.

  Lemma local_done p k o : fst (local p k) = PcDone o -> o = wrap decode zero fi p.
  Proof.
    intros H. pose proof (local_ge_3 p (3 + k) ltac:(lia)) as H3.
    rewrite (local_done_stable_add p k o 3 H), H in H3. congruence.
  Qed.

  (* ---- all calls, interleaved, each with its own cell ---- *)
  Lemma nth_error_repeat_lt {A} (x : A) n i : i < n -> nth_error (repeat x n) i = Some x.
  Proof. revert i; induction n as [|n IH]; intros [|i] H; cbn; try lia; auto. apply IH; lia. Qed.

  Lemma nth_error_nth_default {A} (l : list A) i x d : nth_error l i = Some x -> nth i l d = x.
  Proof. revert i; induction l as [|y l IH]; intros [|i] H; cbn in *; try discriminate; [congruence|auto]. Qed.

  Definition inv (ps : list pvalue) (cnt : nat -> nat) (st : mstate) : Prop :=
    length (m_pcs st) = length ps /\ length (m_cells st) = length ps /\
    forall i p, nth_error ps i = Some p ->
      nth_error (m_pcs st) i = Some (fst (local p (cnt i))) /\
      nth_error (m_cells st) i = Some (snd (local p (cnt i))).

  Lemma inv_ext ps cnt cnt' st : (forall j, cnt j = cnt' j) -> inv ps cnt st -> inv ps cnt' st.
  Proof.
    intros He (H1 & H2 & H3). split; [exact H1|]. split; [exact H2|].
    intros i p Hp. rewrite <- He. apply H3; exact Hp.
  Qed.

  Lemma inv_init ps : inv ps (fun _ => 0) (minit (length ps)).
  Proof.
    unfold minit. split; [apply repeat_length|]. split; [apply repeat_length|].
    intros i p Hp. assert (Hi : i < length ps) by (apply nth_error_Some; congruence).
    cbn. split; apply nth_error_repeat_lt; exact Hi.
  Qed.

  Lemma inv_step ps cnt st i :
    inv ps cnt st -> inv ps (fun j => if Nat.eqb j i then S (cnt j) else cnt j) (mstep false ps st i).
  Proof.
    intros (H1 & H2 & H3). unfold inv, mstep.
    destruct (nth_error ps i) as [p|] eqn:Ep.
    - destruct (H3 i p Ep) as [Hc Hcell]. rewrite Hc. cbn [addr].
      rewrite (nth_error_nth_default _ _ _ None Hcell).
      assert (Hi : i < length ps) by (apply nth_error_Some; congruence).
      assert (Es : local_step p (fst (local p (cnt i)), snd (local p (cnt i))) = local p (S (cnt i))).
      { rewrite local_S. destruct (local p (cnt i)); reflexivity. }
      rewrite Es. cbn [m_cells m_pcs].
      split; [rewrite set_nth_length; exact H1|]. split; [rewrite set_nth_length; exact H2|].
      intros j q Hq. destruct (Nat.eqb_spec j i) as [->|Hne].
      + assert (q = p) by congruence. subst q.
        split; apply nth_error_set_nth_same; lia.
      + rewrite !nth_error_set_nth_other by congruence. apply H3; exact Hq.
    - split; [exact H1|]. split; [exact H2|].
      intros j q Hq. destruct (Nat.eqb_spec j i) as [->|Hne]; [congruence|]. apply H3; exact Hq.
  Qed.

  Lemma inv_fold ps sch : forall st cnt,
    inv ps cnt st -> inv ps (fun j => cnt j + count_occ Nat.eq_dec sch j) (fold_left (mstep false ps) sch st).
  Proof.
    induction sch as [|i sch IH]; intros st cnt H; cbn [fold_left].
    - apply (inv_ext ps cnt); [intros j; cbn; lia|exact H].
    - apply (inv_ext ps (fun j => (if Nat.eqb j i then S (cnt j) else cnt j) + count_occ Nat.eq_dec sch j)).
      + intros j. cbn [count_occ]. destruct (Nat.eq_dec i j) as [->|Hne].
        * rewrite Nat.eqb_refl. lia.
        * destruct (Nat.eqb_spec j i); [congruence|reflexivity].
      + apply IH, inv_step, H.
  Qed.

  (* Every call, whatever the other calls do and in whatever order all their steps are
     taken, behaves as if it were alone: its program counter and its cell are those of
     `local` after as many steps as the schedule gave it; if it has finished, it
     finished with wrap's answer to ITS params; after three steps it has finished. *)
  Lemma scratch_no_interference ps sch :
    let st := mrun false ps sch in
    length (m_pcs st) = length ps /\
    forall i p, nth_error ps i = Some p ->
      nth_error (m_pcs st) i = Some (fst (local p (count_occ Nat.eq_dec sch i))) /\
      nth_error (m_cells st) i = Some (snd (local p (count_occ Nat.eq_dec sch i))) /\
      (forall o, nth_error (m_pcs st) i = Some (PcDone o) -> o = wrap decode zero fi p) /\
      (3 <= count_occ Nat.eq_dec sch i -> nth_error (m_pcs st) i = Some (PcDone (wrap decode zero fi p))).
  Proof.
    intros st. destruct (inv_fold ps sch _ _ (inv_init ps)) as (H1 & _ & H3). fold (mrun false ps sch) in H1, H3.
    split; [exact H1|]. intros i p Hp. destruct (H3 i p Hp) as [Hc Hcell]. cbn [Nat.add] in Hc, Hcell.
    split; [exact Hc|]. split; [exact Hcell|]. split.
    - intros o Ho. fold st in Hc. rewrite Hc in Ho. injection Ho as Ho. apply (local_done p _ o Ho).
    - intros Hk. fold st in Hc. rewrite Hc. f_equal. apply local_ge_3; exact Hk.
  Qed.

  (* a schedule that lets every call finish yields exactly `serve` *)
  Lemma scratch_complete ps sch :
    (forall i, i < length ps -> 3 <= count_occ Nat.eq_dec sch i) ->
    map outcome_of (m_pcs (mrun false ps sch)) = map Some (serve decode zero fi ps).
  Proof.
    intros Hall. destruct (scratch_no_interference ps sch) as [Hl H].
    apply nth_error_ext. intros i. rewrite !nth_error_map. unfold serve. rewrite nth_error_map.
    destruct (nth_error ps i) as [p|] eqn:Ep.
    - assert (Hi : i < length ps) by (apply nth_error_Some; congruence).
      destruct (H i p Ep) as (_ & _ & _ & Hd). rewrite (Hd (Hall i Hi)). reflexivity.
    - assert (Hi : length ps <= i) by (apply nth_error_None; exact Ep).
      assert (En : nth_error (m_pcs (mrun false ps sch)) i = None) by (apply nth_error_None; lia).
      rewrite En. reflexivity.
  Qed.
End Scratch.

(* non-vacuity, and the refutation for a scratch variable shared between calls: two
   requests {"a":1} and {"a":2}; the schedule lets call 0 allocate and decode, then call 1
   allocate and decode, then both call their function *)
Definition first_decode (_ : ty) (_ : bool) (p : pvalue) : option value :=
  match p with PObject ((_, e) :: _) => Some (Val e []) | _ => None end.
Definition scratch_reqs : list pvalue := [PObject [(bs [97], bs [49])]; PObject [(bs [97], bs [50])]].
Definition scratch_sched : list nat := [0; 0; 1; 1; 0; 1].

Example scratch_nonvacuous :
  scratch_type (fi_of strict_fn) = Some (TPtr strict_struct) /\
  (forall i, i < length scratch_reqs -> 3 <= count_occ Nat.eq_dec scratch_sched i) /\
  map outcome_of (m_pcs (mrun first_decode demo_zero (fi_of strict_fn) false scratch_reqs scratch_sched)) =
    [Some (OCall [Val (bs [49]) []]); Some (OCall [Val (bs [50]) []])] /\
  (* a call that has taken two of its three steps, the other none *)
  map outcome_of (m_pcs (mrun first_decode demo_zero (fi_of strict_fn) false scratch_reqs [1; 1])) = [None; None] /\
  (* a rejected request between two accepted ones *)
  map outcome_of (m_pcs (mrun first_decode demo_zero (fi_of strict_fn) false
                           [PObject [(bs [97], bs [49])]; PArray []; PAbsent] [2; 0; 1; 1; 0; 2; 2; 0; 1])) =
    [Some (OCall [Val (bs [49]) []]); Some OInvalidParams; Some (OCall [demo_zero TAny])].
Proof.
  split; [vm_compute; reflexivity|]. split.
  - intros [|[|i]] H; cbn in H; try lia; vm_compute; lia.
  - vm_compute. repeat split.
Qed.

Lemma scratch_refuted_with_shared_cell :
  map outcome_of (m_pcs (mrun first_decode demo_zero (fi_of strict_fn) true scratch_reqs scratch_sched)) =
    [Some (OCall [Val (bs [50]) []]); Some (OCall [Val (bs [50]) []])] /\
  map outcome_of (m_pcs (mrun first_decode demo_zero (fi_of strict_fn) true scratch_reqs scratch_sched)) <>
    map Some (serve first_decode demo_zero (fi_of strict_fn) scratch_reqs).
Proof. split; [vm_compute; reflexivity|vm_compute; congruence]. Qed.

(* the handler made by Positional decodes into a scratch variable of the synthetic
   struct type - one per call - and the interleaving statement applies to it *)
Lemma positional_no_interference decode zero xs outs names fi ps sch :
  xs <> [] -> positional (FFunc (TCtx :: xs) false outs) names = Ok fi ->
  scratch_type fi = Some (pos_struct names xs) /\
  forall i p, nth_error ps i = Some p ->
    (forall o, nth_error (m_pcs (mrun decode zero fi false ps sch)) i = Some (PcDone o) ->
       o = wrap decode zero fi p) /\
    (3 <= count_occ Nat.eq_dec sch i ->
       nth_error (m_pcs (mrun decode zero fi false ps sch)) i = Some (PcDone (wrap decode zero fi p))).
Proof.
  intros Hx Hp. destruct (positional_info _ _ _ _ Hx Hp) as (_ & Ha & _ & _ & _ & _ & Hh & _).
  split.
  - unfold scratch_type. rewrite Hh, Ha. reflexivity.
  - intros i p Hi. destruct (scratch_no_interference decode zero fi ps sch) as [_ H].
    destruct (H i p Hi) as (_ & _ & H1 & H2). split; assumption.
Qed.

Example positional_no_interference_nonvacuous :
  map outcome_of (m_pcs (mrun ex_decode ex_zero ex_fi false
      [PArray [[55]; [34; 97; 34]]; PArray [[55]]; PObject [([89], [34; 98; 34])]]%N [2; 0; 1; 1; 0; 2; 2; 0; 1])) =
  [Some (OCall [Val [55]%N []; Val [34; 97; 34]%N []]); Some OInvalidParams;
   Some (OCall [Val [48]%N []; Val [34; 98; 34]%N []])].
Proof. vm_compute. reflexivity. Qed.

(* ------------------------------------------------------------------------- *)
(** * C16: null elements                                                      *)

(* encoding/json: "the JSON null value unmarshals into an interface, map, pointer, or
   slice by setting that Go value to nil ... otherwise the JSON null value has no
   effect" - either way a FRESH variable is left holding its zero value, and no error
   is reported.  (A hypothesis on the element oracle, like struct_contract; it fails
   for a type whose own UnmarshalJSON rejects null.) *)
Definition null_contract (decode_elt : ty -> elt -> option value) (zero : ty -> value) : Prop :=
  forall X, decode_elt X null_elt = Some (zero X).

Lemma set_nth_nth_error_ge {A} i (v : A) l : length l <= i -> set_nth i v l = l.
Proof. revert i; induction l as [|x l IH]; intros [|i] H; cbn in *; try lia; auto. f_equal. apply IH; lia. Qed.

Section Null.
  Variable decode : ty -> bool -> pvalue -> option value.
  Variable zero : ty -> value.
  Variable decode_elt : ty -> elt -> option value.
  Hypothesis HN : null_contract decode_elt zero.

  (* an array of nulls is accepted and gives the zero values *)
  Lemma decode_each_all_null xs :
    decode_each decode_elt xs (repeat null_elt (length xs)) = Some (map zero xs).
  Proof.
    induction xs as [|X xs IH]; [reflexivity|]. cbn [length repeat decode_each map].
    rewrite HN, IH. reflexivity.
  Qed.

  (* putting null in place of an element of an accepted array keeps it accepted; the
     argument at that position becomes the zero value, the others stay *)
  Lemma decode_each_set_null xs es vs i :
    decode_each decode_elt xs es = Some vs ->
    decode_each decode_elt xs (set_nth i null_elt es) = Some (set_nth i (zero (nth i xs TAny)) vs).
  Proof.
    revert es vs i; induction xs as [|X xs IH]; intros [|e es] vs i H; cbn in H; try discriminate.
    - injection H as <-. destruct i; reflexivity.
    - destruct (decode_elt X e) as [v|] eqn:Ed; [|discriminate].
      destruct (decode_each decode_elt xs es) as [vs0|] eqn:Er; [|discriminate].
      injection H as <-. destruct i as [|i]; cbn [set_nth decode_each nth].
      + rewrite HN, Er. reflexivity.
      + rewrite Ed, (IH es vs0 i Er). reflexivity.
  Qed.

  (* a null element of an accepted array leaves the zero value in its argument *)
  Lemma decode_each_null_at xs es vs i :
    decode_each decode_elt xs es = Some vs -> nth_error es i = Some null_elt ->
    nth_error vs i = Some (zero (nth i xs TAny)).
  Proof.
    intros H Hn. destruct (decode_each_nth decode_elt xs es vs i null_elt H Hn) as (v & Hd & Hv).
    rewrite HN in Hd. congruence.
  Qed.

  (* a null value under a name leaves the zero value in that argument *)
  Lemma fill_null_at names xs kvs out k i :
    fields_once names kvs [] = true ->
    fill decode_elt names xs kvs (map zero xs) = Some out ->
    In (k, null_elt) kvs -> match_field names k = Some i -> i < length xs ->
    nth_error out i = Some (zero (nth i xs TAny)).
  Proof.
    intros Ho Hf Hin Hm Hi.
    destruct (fill_present decode_elt names xs kvs (map zero xs) out k null_elt i Ho Hf Hin Hm) as (v & Hd & Hv).
    { rewrite map_length. exact Hi. }
    rewrite HN in Hd. congruence.
  Qed.

  (* at the level of the handler *)
  Lemma positional_null xs outs names fi :
    struct_contract decode zero decode_elt -> zero_contract zero ->
    xs <> [] -> usable_names names = true ->
    positional (FFunc (TCtx :: xs) false outs) names = Ok fi ->
    wrap decode zero fi (PArray (repeat null_elt (length xs))) = OCall (map zero xs) /\
    (forall es args i,
       wrap decode zero fi (PArray es) = OCall args ->
       wrap decode zero fi (PArray (set_nth i null_elt es)) = OCall (set_nth i (zero (nth i xs TAny)) args)) /\
    (forall es args i,
       wrap decode zero fi (PArray es) = OCall args -> nth_error es i = Some null_elt ->
       nth_error args i = Some (zero (nth i xs TAny))) /\
    (forall kvs args k i,
       plain_params names (PObject kvs) = true ->
       wrap decode zero fi (PObject kvs) = OCall args ->
       In (k, null_elt) kvs -> match_field names k = Some i -> i < length xs ->
       nth_error args i = Some (zero (nth i xs TAny))).
  Proof.
    intros HC HZ Hx Hu Hp.
    assert (W : forall p, plain_params names p = true -> wrap decode zero fi p = _)
      by (intros p; apply (positional_elementwise decode zero decode_elt xs outs names fi p HC HZ Hx Hu Hp)).
    split; [|split; [|split]].
    - rewrite (W (PArray _) eq_refl), decode_each_all_null. reflexivity.
    - intros es args i H. rewrite (W (PArray es) eq_refl) in H. rewrite (W (PArray _) eq_refl).
      destruct (decode_each decode_elt xs es) as [vs|] eqn:E; [|discriminate]. injection H as <-.
      rewrite (decode_each_set_null xs es vs i E). reflexivity.
    - intros es args i H Hn. rewrite (W (PArray es) eq_refl) in H.
      destruct (decode_each decode_elt xs es) as [vs|] eqn:E; [|discriminate]. injection H as <-.
      apply (decode_each_null_at xs es vs i E Hn).
    - intros kvs args k i Hpl H Hin Hm Hi. rewrite (W (PObject kvs) Hpl) in H.
      destruct (fill decode_elt names xs kvs (map zero xs)) as [out|] eqn:E; [|discriminate]. injection H as <-.
      cbn [plain_params] in Hpl. apply andb_true_iff in Hpl. destruct Hpl as [_ Ho].
      apply (fill_null_at names xs kvs out k i Ho E Hin Hm Hi).
  Qed.
End Null.

(* the demonstration oracle of PosElem.v rejects null; one that accepts it: *)
Definition nl_decode_elt (T : ty) (e : elt) : option value :=
  if beq e null_elt then Some (ex_zero T) else ex_decode_elt T e.
Definition nl_decode (T : ty) (strict : bool) (p : pvalue) : option value :=
  match T with
  | TStruct fs => option_map (Val []) (json_struct_spec nl_decode_elt ex_zero (names_of fs) (tys_of fs) p)
  | _ => None
  end.

Lemma nl_struct_contract : struct_contract nl_decode ex_zero nl_decode_elt.
Proof.
  intros names xs p Hu Hl _ _. unfold usable_names in Hu. apply andb_true_iff in Hu. destruct Hu as [Hu _].
  unfold pos_struct, nl_decode.
  destruct (pos_fields_read_back 0 names xs Hu Hl) as [-> ->].
  destruct (json_struct_spec nl_decode_elt ex_zero names xs p); reflexivity.
Qed.

Lemma nl_null_contract : null_contract nl_decode_elt ex_zero.
Proof. intros X. reflexivity. Qed.

Example positional_null_nonvacuous :
  struct_contract nl_decode ex_zero nl_decode_elt /\ zero_contract ex_zero /\
  null_contract nl_decode_elt ex_zero /\
  (* [null,"a"], [7,null], [null,null], {"y":null,"x":7} *)
  wrap nl_decode ex_zero ex_fi (PArray [null_elt; [34; 97; 34]]%N) = OCall [Val [48]%N []; Val [34; 97; 34]%N []] /\
  wrap nl_decode ex_zero ex_fi (PArray [[55]%N; null_elt]) = OCall [Val [55]%N []; Val [34; 34]%N []] /\
  wrap nl_decode ex_zero ex_fi (PArray [null_elt; null_elt]) = OCall [Val [48]%N []; Val [34; 34]%N []] /\
  wrap nl_decode ex_zero ex_fi (PObject [([121]%N, null_elt); ([120], [55])]%N) = OCall [Val [55]%N []; Val [34; 34]%N []] /\
  (* [null]: still the wrong length *)
  wrap nl_decode ex_zero ex_fi (PArray [null_elt]) = OInvalidParams.
Proof.
  split; [exact nl_struct_contract|]. split; [exact ex_zero_contract|]. split; [exact nl_null_contract|].
  vm_compute. repeat split.
Qed.

(* ------------------------------------------------------------------------- *)
(** * C16: "accepts exactly", as an equivalence with declarative conditions    *)

Lemma index_by_lt eqb k names i : index_by eqb k names = Some i -> i < length names.
Proof.
  revert i; induction names as [|n names IH]; intros i H; cbn in H; [discriminate|].
  destruct (eqb k n).
  - injection H as <-. cbn. lia.
  - destruct (index_by eqb k names) as [j|]; [|discriminate]. injection H as <-.
    cbn. specialize (IH j eq_refl). lia.
Qed.

Lemma match_field_lt names k i : match_field names k = Some i -> i < length names.
Proof.
  unfold match_field. destruct (index_by beq k names) as [j|] eqn:E.
  - intros [= <-]. apply (index_by_lt _ _ _ _ E).
  - apply index_by_lt.
Qed.

Section AcceptsIff.
  Variable decode : ty -> bool -> pvalue -> option value.
  Variable zero : ty -> value.
  Variable decode_elt : ty -> elt -> option value.

  (* an array is accepted with the arguments vs iff it has exactly one element per
     argument and element i decodes, into Xi, to vs_i *)
  Lemma decode_each_iff xs es vs :
    decode_each decode_elt xs es = Some vs <->
    length es = length xs /\ length vs = length xs /\
    forall i e, nth_error es i = Some e ->
      exists v, decode_elt (nth i xs TAny) e = Some v /\ nth_error vs i = Some v.
  Proof.
    split.
    - intros H. destruct (decode_each_length decode_elt xs es vs H) as [H1 H2].
      split; [exact H1|]. split; [exact H2|]. intros i e. apply (decode_each_nth decode_elt xs es vs i e H).
    - revert es vs; induction xs as [|X xs IH]; intros es vs (H1 & H2 & H3).
      + destruct es; [|discriminate]. destruct vs; [|discriminate]. reflexivity.
      + destruct es as [|e es]; [discriminate|]. destruct vs as [|v vs]; [discriminate|].
        cbn in H1, H2. cbn [decode_each].
        destruct (H3 0 e eq_refl) as (v0 & Hd & Hv). cbn in Hd, Hv. injection Hv as <-. rewrite Hd.
        rewrite (IH es vs); [reflexivity|].
        split; [lia|]. split; [lia|]. intros i e' Hn. apply (H3 (S i) e' Hn).
  Qed.

  (* is the argument i addressed by some key of the object? *)
  Definition addressed (names : list bytes) (kvs : list (bytes * elt)) (i : nat) : bool :=
    existsb (fun kv => match match_field names (fst kv) with Some j => Nat.eqb j i | None => false end) kvs.

  Lemma addressed_true names kvs i :
    addressed names kvs i = true <-> exists k e, In (k, e) kvs /\ match_field names k = Some i.
  Proof.
    unfold addressed. rewrite existsb_exists. split.
    - intros ([k e] & Hin & H). cbn [fst] in H. destruct (match_field names k) as [j|] eqn:Em; [|discriminate].
      apply Nat.eqb_eq in H. subst j. eauto.
    - intros (k & e & Hin & Hm). exists (k, e). split; [exact Hin|]. cbn [fst]. rewrite Hm. apply Nat.eqb_refl.
  Qed.

  Lemma addressed_false names kvs i :
    addressed names kvs i = false -> forall k e, In (k, e) kvs -> match_field names k <> Some i.
  Proof.
    intros H k e Hin Hm.
    assert (Ht : addressed names kvs i = true) by (apply addressed_true; eauto). congruence.
  Qed.

  (* an object addressing no argument twice is accepted with the arguments out iff
     every key matches a name and its value decodes into the argument of that name,
     out holding these values and, for arguments no key addresses, what was there *)
  Lemma fill_iff names xs kvs slots out :
    fields_once names kvs [] = true -> length slots = length names ->
    (fill decode_elt names xs kvs slots = Some out <->
     length out = length slots /\
     (forall k e, In (k, e) kvs ->
        exists i v, match_field names k = Some i /\ decode_elt (nth i xs TAny) e = Some v /\
                    nth_error out i = Some v) /\
     (forall i, (forall k e, In (k, e) kvs -> match_field names k <> Some i) ->
        nth_error out i = nth_error slots i)).
  Proof.
    intros Ho Hl.
    assert (Fwd : forall out', fill decode_elt names xs kvs slots = Some out' ->
              length out' = length slots /\
              (forall k e, In (k, e) kvs ->
                 exists i v, match_field names k = Some i /\ decode_elt (nth i xs TAny) e = Some v /\
                             nth_error out' i = Some v) /\
              (forall i, (forall k e, In (k, e) kvs -> match_field names k <> Some i) ->
                 nth_error out' i = nth_error slots i)).
    { intros out' H. split; [apply (fill_length decode_elt names xs kvs slots out' H)|]. split.
      - intros k e Hin. destruct (match_field names k) as [i|] eqn:Em.
        + destruct (fill_present decode_elt names xs kvs slots out' k e i Ho H Hin Em) as (v & Hd & Hv).
          { rewrite Hl. apply (match_field_lt names k i Em). }
          exists i, v. auto.
        + rewrite (fill_unknown_key decode_elt names xs kvs slots k e Hin Em) in H. discriminate.
      - intros i Hno. apply (fill_missing decode_elt names xs kvs slots out' i H Hno). }
    split; [apply Fwd|].
    intros (H1 & H2 & H3).
    destruct (fill_complete decode_elt names xs kvs slots) as [out' Hout'].
    { intros k e Hin. destruct (H2 k e Hin) as (i & v & Hm & Hd & _). eauto. }
    rewrite Hout'. f_equal. destruct (Fwd out' Hout') as (F1 & F2 & F3).
    apply nth_error_ext. intros j.
    destruct (addressed names kvs j) eqn:Ea.
    - apply addressed_true in Ea. destruct Ea as (k & e & Hin & Hm).
      destruct (H2 k e Hin) as (i & v & Hm1 & Hd1 & Hv1).
      destruct (F2 k e Hin) as (i' & v' & Hm2 & Hd2 & Hv2).
      assert (i = j) by congruence. assert (i' = j) by congruence. subst i i'. congruence.
    - pose proof (addressed_false names kvs j Ea) as Hno. rewrite (F3 j Hno), (H3 j Hno). reflexivity.
  Qed.

  Lemma nth_error_map_zero xs i : i < length xs -> nth_error (map zero xs) i = Some (zero (nth i xs TAny)).
  Proof.
    revert i; induction xs as [|X xs IH]; intros [|i] H; cbn in *; try lia; auto. apply IH; lia.
  Qed.

  (* MAIN: the call happens, with the arguments args, iff the params are absent or null
     and args are the zero values; or an array of exactly n elements, element i
     decoding into Xi to args_i; or an object using only the given names (matched as
     encoding/json matches them), each value decoding into the argument of its name,
     the arguments no key names being zero; in every other case the answer is
     InvalidParams (and never anything else). *)
  Lemma positional_accepts_iff xs outs names fi p :
    struct_contract decode zero decode_elt -> zero_contract zero ->
    xs <> [] -> usable_names names = true ->
    positional (FFunc (TCtx :: xs) false outs) names = Ok fi ->
    plain_params names p = true ->
    (forall args,
       wrap decode zero fi p = OCall args <->
       ((p = PAbsent \/ p = PNull) /\ args = map zero xs) \/
       (exists es, p = PArray es /\ length es = length xs /\ length args = length xs /\
          forall i e, nth_error es i = Some e ->
            exists v, decode_elt (nth i xs TAny) e = Some v /\ nth_error args i = Some v) \/
       (exists kvs, p = PObject kvs /\ length args = length xs /\
          (forall k e, In (k, e) kvs ->
             exists i v, match_field names k = Some i /\ decode_elt (nth i xs TAny) e = Some v /\
                         nth_error args i = Some v) /\
          (forall i, i < length xs -> (forall k e, In (k, e) kvs -> match_field names k <> Some i) ->
             nth_error args i = Some (zero (nth i xs TAny))))) /\
    ((forall args, wrap decode zero fi p <> OCall args) <-> wrap decode zero fi p = OInvalidParams).
  Proof.
    intros HC HZ Hx Hu Hp Hpl.
    destruct (positional_info _ _ _ _ Hx Hp) as (Hl & _).
    rewrite (positional_elementwise decode zero decode_elt xs outs names fi p HC HZ Hx Hu Hp Hpl).
    split.
    - intros args. destruct p as [| |es|kvs|t|t].
      + split.
        * intros [= <-]. left. auto.
        * intros [[_ ->]|[(es & H & _)|(kvs & H & _)]]; [reflexivity|discriminate|discriminate].
      + split.
        * intros [= <-]. left. auto.
        * intros [[_ ->]|[(es & H & _)|(kvs & H & _)]]; [reflexivity|discriminate|discriminate].
      + split.
        * intros H. right; left. exists es. split; [reflexivity|].
          destruct (decode_each decode_elt xs es) as [vs|] eqn:E; [|discriminate]. injection H as <-.
          apply decode_each_iff in E. exact E.
        * intros [[[H|H] _]|[(es' & [= <-] & H)|(kvs & H & _)]]; try discriminate.
          apply decode_each_iff in H. rewrite H. reflexivity.
      + cbn [plain_params] in Hpl. apply andb_true_iff in Hpl. destruct Hpl as [_ Ho].
        assert (Hls : length (map zero xs) = length names) by (rewrite map_length; congruence).
        split.
        * intros H. right; right. exists kvs. split; [reflexivity|].
          destruct (fill decode_elt names xs kvs (map zero xs)) as [out|] eqn:E; [|discriminate]. injection H as <-.
          apply (fill_iff names xs kvs (map zero xs) out Ho Hls) in E. destruct E as (E1 & E2 & E3).
          rewrite map_length in E1. split; [exact E1|]. split; [exact E2|].
          intros i Hi Hno. rewrite (E3 i Hno). apply nth_error_map_zero; exact Hi.
        * intros [[[H|H] _]|[(es & H & _)|(kvs' & [= <-] & H1 & H2 & H3)]]; try discriminate.
          assert (E : fill decode_elt names xs kvs (map zero xs) = Some args).
          { apply (fill_iff names xs kvs (map zero xs) args Ho Hls). rewrite map_length.
            split; [exact H1|]. split; [exact H2|]. intros i Hno.
            destruct (Nat.lt_ge_cases i (length xs)) as [Hi|Hi].
            - rewrite (H3 i Hi Hno). symmetry. apply nth_error_map_zero; exact Hi.
            - assert (N1 : nth_error args i = None) by (apply nth_error_None; lia).
              assert (N2 : nth_error (map zero xs) i = None) by (apply nth_error_None; rewrite map_length; lia).
              congruence. }
          rewrite E. reflexivity.
      + split; [discriminate|]. intros [[[H|H] _]|[(es & H & _)|(kvs & H & _)]]; discriminate.
      + split; [discriminate|]. intros [[[H|H] _]|[(es & H & _)|(kvs & H & _)]]; discriminate.
    - destruct p as [| |es|kvs|t|t]; try (split; [intros H; exfalso; eapply H; reflexivity|discriminate]);
        try (split; [reflexivity|discriminate]).
      + destruct (decode_each decode_elt xs es); split; try reflexivity; try discriminate.
        intros H; exfalso; eapply H; reflexivity.
      + destruct (fill decode_elt names xs kvs (map zero xs)); split; try reflexivity; try discriminate.
        intros H; exfalso; eapply H; reflexivity.
  Qed.
End AcceptsIff.

(* the premises of positional_accepts_iff are satisfiable (concrete oracle of PosElem.v),
   and both sides of its equivalence occur *)
Example positional_accepts_iff_applies p :
  plain_params ex_names p = true ->
  (forall args, wrap ex_decode ex_zero ex_fi p = OCall args <-> _) /\ _ :=
  positional_accepts_iff ex_decode ex_zero ex_decode_elt ex_xs [TScalar KString] ex_names ex_fi p
    ex_struct_contract ex_zero_contract ltac:(discriminate) eq_refl eq_refl.

Example positional_accepts_iff_nonvacuous :
  wrap ex_decode ex_zero ex_fi (PObject [([89], [34; 98; 34])]%N) = OCall [Val [48]%N []; Val [34; 98; 34]%N []] /\
  match_field ex_names [89]%N = Some 1 /\ match_field ex_names [122]%N = None /\
  wrap ex_decode ex_zero ex_fi (PScalar [55]%N) = OInvalidParams.
Proof. vm_compute. repeat split. Qed.

(* ------------------------------------------------------------------------- *)
(** * C16: Args.MarshalJSON, element by element                               *)

Section ArgsMarshal.
  Variable encode : ty -> value -> option elt.

  (* the encoding of one target: `null` for a nil slot *)
  Definition encode_slot (s : slot) : option elt :=
    match s with None => Some null_elt | Some (T, v) => encode T v end.

  Lemma encode_all_cons s a :
    encode_all encode (s :: a) =
    match encode_slot s, encode_all encode a with Some e, Some es => Some (e :: es) | _, _ => None end.
  Proof. destruct s as [[T v]|]; reflexivity. Qed.

  Lemma encode_all_some a es :
    encode_all encode a = Some es <->
    length es = length a /\ forall i s, nth_error a i = Some s -> encode_slot s = nth_error es i.
  Proof.
    revert es; induction a as [|s a IH]; intros es.
    - cbn [encode_all]. split.
      + intros [= <-]. split; [reflexivity|]. intros [|i] s H; discriminate.
      + intros [Hl _]. destruct es; [reflexivity|discriminate].
    - rewrite encode_all_cons. split.
      + destruct (encode_slot s) as [e|] eqn:Ee; [|discriminate].
        destruct (encode_all encode a) as [es0|] eqn:Ea; [|discriminate]. intros [= <-].
        destruct (proj1 (IH es0) eq_refl) as [Hl Hn]. split; [cbn; lia|].
        intros [|i] s' H; cbn in H |- *; [congruence|apply Hn; exact H].
      + intros [Hl Hn]. destruct es as [|e es]; [discriminate|]. cbn in Hl.
        pose proof (Hn 0 s eq_refl) as H0. cbn in H0. rewrite H0.
        rewrite (proj2 (IH es)); [reflexivity|]. split; [lia|]. intros i s' H. apply (Hn (S i) s' H).
  Qed.

  Lemma encode_all_none a :
    encode_all encode a = None <-> exists i T v, nth_error a i = Some (Some (T, v)) /\ encode T v = None.
  Proof.
    induction a as [|s a IH].
    - cbn. split; [discriminate|]. intros ([|i] & T & v & H & _); discriminate.
    - rewrite encode_all_cons. split.
      + destruct (encode_slot s) as [e|] eqn:Ee.
        * destruct (encode_all encode a) as [es|]; [discriminate|]. intros _.
          destruct (proj1 IH eq_refl) as (i & T & v & Hn & He). exists (S i), T, v. auto.
        * intros _. destruct s as [[T v]|]; [|discriminate]. exists 0, T, v. auto.
      + intros ([|i] & T & v & Hn & He).
        * cbn in Hn. injection Hn as ->. cbn [encode_slot]. rewrite He. reflexivity.
        * cbn in Hn. assert (Ea : encode_all encode a = None) by (apply IH; eauto).
          rewrite Ea. destruct (encode_slot s); reflexivity.
  Qed.

  (* Args.MarshalJSON: an array with one element per target, element i being the
     encoding of target i (`null` for a nil slot); it fails iff some target fails *)
  Lemma args_marshal_elementwise a :
    (forall p, args_marshal encode a = Some p <->
       exists es, p = PArray es /\ length es = length a /\
         forall i s, nth_error a i = Some s ->
           nth_error es i = match s with None => Some null_elt | Some (T, v) => encode T v end) /\
    (args_marshal encode a = None <->
       exists i T v, nth_error a i = Some (Some (T, v)) /\ encode T v = None).
  Proof.
    unfold args_marshal. split.
    - intros p. split.
      + destruct (encode_all encode a) as [es|] eqn:E; [|discriminate]. intros [= <-].
        apply encode_all_some in E. destruct E as [Hl Hn]. exists es. split; [reflexivity|]. split; [exact Hl|].
        intros i s H. rewrite <- (Hn i s H). destruct s as [[T v]|]; reflexivity.
      + intros (es & -> & Hl & Hn).
        assert (E : encode_all encode a = Some es).
        { apply encode_all_some. split; [exact Hl|]. intros i s H. rewrite (Hn i s H).
          destruct s as [[T v]|]; reflexivity. }
        rewrite E. reflexivity.
    - rewrite <- encode_all_none. destruct (encode_all encode a); cbn; split; congruence.
  Qed.
End ArgsMarshal.

Example args_marshal_elementwise_nonvacuous :
  args_marshal demo_encode demo_args = Some (PArray [bs [55]; null_elt; bs [113]]) /\
  args_marshal (fun T v => if beq (enc_of v) (bs [113]) then None else Some (enc_of v)) demo_args = None /\
  nth_error demo_args 2 = Some (Some (TScalar KString, Val (bs [113]) [])).
Proof. vm_compute. repeat split. Qed.

(* ------------------------------------------------------------------------- *)
(** * C16: Obj.UnmarshalJSON when it fails                                    *)

Section ObjFailure.
  Variable decode_into : ty -> value -> elt -> bool * value.

  (* a target whose key is absent from the JSON object is untouched - also when the
     call fails (and every target is, when the params are not an object at all) *)
  Lemma obj_loop_untouched base ord o ok o' k :
    obj_loop decode_into base ord o = (ok, o') -> last_value k base = None ->
    cell_get k o' = cell_get k o.
  Proof.
    revert o; induction ord as [|k0 ord IH]; intros o H Hl; cbn in H.
    - injection H as _ <-. reflexivity.
    - destruct (obj_step decode_into base k0 o) as [ok1 o1] eqn:Es.
      destruct (obj_step_spec decode_into _ _ _ _ _ Es) as (_ & _ & Hget).
      assert (E1 : cell_get k o1 = cell_get k o).
      { rewrite Hget. destruct (beq_spec k k0) as [->|N]; [|reflexivity].
        destruct (cell_get k0 o) as [s|]; [|reflexivity]. cbn. unfold visited. rewrite Hl.
        destruct s as [[? ?]|]; reflexivity. }
      destruct ok1.
      + rewrite (IH o1 H Hl). exact E1.
      + injection H as _ <-. exact E1.
  Qed.

  Lemma obj_unmarshal_untouched ord o p ok o' :
    obj_unmarshal decode_into ord o p = (ok, o') ->
    (as_object p = None -> ok = false /\ o' = o) /\
    (forall base k, as_object p = Some base -> last_value k base = None -> cell_get k o' = cell_get k o).
  Proof.
    unfold obj_unmarshal. destruct (as_object p) as [base|].
    - intros H. split; [discriminate|]. intros base' k [= <-] Hl.
      apply (obj_loop_untouched base ord o ok o' k H Hl).
    - intros [= <- <-]. split; [auto|discriminate].
  Qed.
End ObjFailure.

Section ObjAdmissible.
  Variable decode_into : ty -> value -> elt -> bool * value.

  Lemma obj_loop_fail_split base ord : forall o o',
    obj_loop decode_into base ord o = (false, o') ->
    exists pre kf post o1, ord = pre ++ kf :: post /\
      obj_loop decode_into base pre o = (true, o1) /\ obj_step decode_into base kf o1 = (false, o').
  Proof.
    induction ord as [|k ord IH]; intros o o' H; cbn in H; [discriminate|].
    destruct (obj_step decode_into base k o) as [ok o1] eqn:Es. destruct ok.
    - destruct (IH o1 o' H) as (pre & kf & post & o2 & -> & Hl & Hs).
      exists (k :: pre), kf, post, o2. split; [reflexivity|]. split; [|exact Hs].
      cbn. rewrite Es. exact Hl.
    - injection H as <-. exists [], k, ord, o. auto.
  Qed.

  (* how one visit relates a target before and after, case by case *)
  Lemma caf_same base kf k s : k <> kf -> cell_after_failure decode_into base kf (k, s) (k, s) = true.
  Proof.
    intros Hne. unfold cell_after_failure. cbn [fst snd]. rewrite beq_refl. cbn [andb].
    destruct (beq_spec k kf) as [E|_]; [congruence|].
    destruct s as [[T cur]|]; [|destruct (last_value k base); reflexivity].
    rewrite beq_refl. destruct (last_value k base) as [e|]; [|reflexivity].
    destruct (decode_into T cur e) as [ok v]. destruct ok; reflexivity.
  Qed.

  Lemma caf_visited base kf k s :
    k <> kf ->
    match s, last_value k base with
    | None, Some _ => False
    | Some (T, cur), Some e => fst (decode_into T cur e) = true
    | _, _ => True
    end ->
    cell_after_failure decode_into base kf (k, s) (k, visited decode_into base k s) = true.
  Proof.
    intros Hne Hv. unfold cell_after_failure, visited. cbn [fst snd]. rewrite beq_refl. cbn [andb].
    destruct (beq_spec k kf) as [E|_]; [congruence|].
    destruct s as [[T cur]|]; destruct (last_value k base) as [e|]; try contradiction; try reflexivity.
    - destruct (decode_into T cur e) as [ok v]. cbn [fst snd] in Hv |- *. subst ok.
      rewrite beq_refl. apply orb_true_r.
    - apply beq_refl.
  Qed.

  Lemma caf_failed base kf s :
    match s, last_value kf base with
    | None, Some _ => True
    | Some (T, cur), Some e => fst (decode_into T cur e) = false
    | _, _ => False
    end ->
    cell_after_failure decode_into base kf (kf, s) (kf, visited decode_into base kf s) = true.
  Proof.
    intros Hv. unfold cell_after_failure, visited. cbn [fst snd]. rewrite !beq_refl. cbn [andb].
    destruct s as [[T cur]|]; destruct (last_value kf base) as [e|]; try contradiction; try reflexivity.
    destruct (decode_into T cur e) as [ok v]. cbn [fst snd] in Hv |- *. subst ok.
    rewrite beq_refl. reflexivity.
  Qed.

  Lemma cells_after_failure_intro base kf : forall o o',
    NoDup (map fst o) -> map fst o' = map fst o ->
    (forall k s s', cell_get k o = Some s -> cell_get k o' = Some s' ->
       cell_after_failure decode_into base kf (k, s) (k, s') = true) ->
    cells_after_failure decode_into base kf o o' = true.
  Proof.
    induction o as [|[k s] o IH]; intros [|[k' s'] o'] Hnd Hk H; try discriminate; [reflexivity|].
    cbn in Hk. injection Hk as -> Hk. inversion Hnd as [|? ? Hnotin Hnd']; subst.
    cbn [cells_after_failure]. apply andb_true_iff. split.
    - apply H; cbn; rewrite beq_refl; reflexivity.
    - apply IH; [exact Hnd'|exact Hk|]. intros k2 s2 s2' H1 H2.
      assert (Hin : In k2 (map fst o)) by (apply cell_get_in; congruence).
      assert (Hne : k2 <> k) by (intros ->; contradiction).
      apply H; cbn; destruct (beq_spec k2 k); congruence.
  Qed.

  Lemma cells_after_failure_refl_nil o : cells_after_failure decode_into [] [] o o = true.
  Proof.
    induction o as [|[k s] o IH]; [reflexivity|]. cbn [cells_after_failure]. rewrite IH, andb_true_r.
    unfold cell_after_failure. cbn [fst snd last_value]. rewrite beq_refl. cbn [andb].
    destruct s as [[T v]|]; [apply beq_refl|reflexivity].
  Qed.

  Lemma not_mem_not_in k l : ~ In k l -> mem k l = false.
  Proof.
    intros H. destruct (mem k l) eqn:E; [|reflexivity]. exfalso. apply H. apply mem_In. exact E.
  Qed.

  (* Whatever the iteration order: the state of the targets after a FAILED
     Obj.UnmarshalJSON is one of those obj_failure_admissible describes (the predicate
     the correspondence check holds the real code to): the failing key's target holds
     what its failed decode left, every other target holds either its old value or the
     result of its own successful decode, and targets whose key is absent are untouched. *)
  Lemma obj_failure_is_admissible ord o p o' :
    NoDup (map fst o) -> NoDup ord -> (forall k, In k ord -> In k (map fst o)) ->
    obj_unmarshal decode_into ord o p = (false, o') ->
    obj_failure_admissible decode_into o p o' = true.
  Proof.
    intros Hnd Hno Hsub. unfold obj_unmarshal, obj_failure_admissible.
    destruct (as_object p) as [base|]; [|intros [= <-]; apply cells_after_failure_refl_nil].
    intros H. destruct (obj_loop_fail_split base ord o o' H) as (pre & kf & post & o1 & -> & Hpre & Hstep).
    assert (Hnpre : NoDup pre).
    { clear -Hno. induction pre as [|x pre IH]; [constructor|].
      cbn in Hno. inversion Hno as [|? ? Hx Hr]; subst. constructor; [|apply IH; exact Hr].
      intros Hin. apply Hx. apply in_or_app. left; exact Hin. }
    assert (Hkf : ~ In kf pre).
    { apply NoDup_remove_2 in Hno. intros Hin. apply Hno. apply in_or_app. left; exact Hin. }
    destruct (obj_loop_ok decode_into base pre o o1 Hnpre Hpre) as (Hk1 & Hall & Hget1).
    destruct (obj_step_spec decode_into _ _ _ _ _ Hstep) as (Hk2 & Hok & Hget2).
    assert (Hnv : ~ visit_ok decode_into base o1 kf) by (intros Hv; apply Hok in Hv; discriminate).
    assert (E1 : cell_get kf o1 = cell_get kf o).
    { rewrite Hget1, (not_mem_not_in kf pre Hkf). reflexivity. }
    unfold visit_ok in Hnv. rewrite E1 in Hnv.
    apply existsb_exists. exists kf. split; [apply Hsub, in_or_app; right; left; reflexivity|].
    apply andb_true_iff. split.
    - unfold fails_at. destruct (cell_get kf o) as [[[T cur]|]|]; destruct (last_value kf base) as [e|];
        try (exfalso; apply Hnv; exact I); try reflexivity.
      destruct (fst (decode_into T cur e)); [exfalso; apply Hnv; reflexivity|reflexivity].
    - apply cells_after_failure_intro; [exact Hnd|congruence|].
      intros k s s' Hs Hs'. rewrite Hget2 in Hs'. destruct (beq_spec k kf) as [->|Hne].
      + rewrite E1, Hs in Hs'. cbn in Hs'. injection Hs' as <-. rewrite Hs in Hnv.
        apply caf_failed. destruct s as [[T cur]|]; destruct (last_value kf base) as [e|];
          try (exfalso; apply Hnv; exact I); try exact I.
        destruct (fst (decode_into T cur e)); [exfalso; apply Hnv; reflexivity|reflexivity].
      + rewrite Hget1 in Hs'. destruct (mem k pre) eqn:Em.
        * rewrite Hs in Hs'. cbn in Hs'. injection Hs' as <-.
          apply caf_visited; [exact Hne|].
          assert (Hv : visit_ok decode_into base o k) by (apply Hall, mem_In; exact Em).
          unfold visit_ok in Hv. rewrite Hs in Hv.
          destruct s as [[T cur]|]; destruct (last_value k base); auto.
        * assert (s' = s) by congruence. subst s'. apply caf_same; exact Hne.
  Qed.
End ObjAdmissible.

Example obj_failure_is_admissible_nonvacuous :
  NoDup (map fst demo_obj) /\ NoDup [bs [98]; bs [97]] /\
  obj_unmarshal demo_into [bs [98]; bs [97]] demo_obj (PObject [(bs [97], bs [88]); (bs [98], bs [50])]) =
    (false, [(bs [97], Some (TScalar KInt, Val (bs [55]) [])); (bs [98], Some (TScalar KString, Val (bs [50]) []))]) /\
  obj_unmarshal demo_into [bs [97]; bs [98]] demo_obj (PScalar (bs [49])) = (false, demo_obj) /\
  (* the key "c" is absent: untouched although the call fails at "a" *)
  snd (obj_unmarshal demo_into [bs [98]; bs [99]; bs [97]]
         (demo_obj ++ [(bs [99], Some (TScalar KInt, Val (bs [57]) []))])
         (PObject [(bs [97], bs [88]); (bs [98], bs [50])])) =
    [(bs [97], Some (TScalar KInt, Val (bs [55]) [])); (bs [98], Some (TScalar KString, Val (bs [50]) []));
     (bs [99], Some (TScalar KInt, Val (bs [57]) []))].
Proof.
  split; [|split].
  - repeat constructor; cbn; intuition discriminate.
  - repeat constructor; cbn; intuition discriminate.
  - vm_compute. repeat split.
Qed.
