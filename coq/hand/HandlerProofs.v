(* Proofs about the handler adapter model (Handler.v): lemmas behind C15 and C16
   and the non-vacuity Examples of their statements. *)
From Coq Require Import List NArith Bool Arith Lia Sorting.Permutation.
From JV Require Import Bytes Handler.
Import ListNotations.

(* ------------------------------------------------------------------------- *)
(** * C15: Check accepts exactly the documented schemes                       *)

(* func(context.Context[, X]) (Y | error | (Y, error)), not variadic; X and Y are
   arbitrary types (X may be *jrpc2.Request, Y may be error or any). *)
Inductive scheme : fnval -> Prop :=
| scheme_intro : forall args outs y,
    (args = [] \/ exists x, args = [x]) ->
    (outs = [y] \/ outs = [y; TError]) ->
    scheme (FFunc (TCtx :: args) false outs).

Lemma is_ctx_true t : is_ctx t = true <-> t = TCtx.
Proof. destruct t; cbn; split; congruence. Qed.
Lemma is_err_true t : is_err t = true <-> t = TError.
Proof. destruct t; cbn; split; congruence. Qed.

Lemma check_exact fn : (exists fi, check fn = Ok fi) <-> scheme fn.
Proof.
  split.
  - intros [fi H]. destruct fn as [|t|ins v outs]; cbn in H; try discriminate.
    destruct ins as [|c [|x [|x2 ins]]]; try discriminate.
    + destruct (is_ctx c) eqn:Ec; cbn in H; [|discriminate]. apply is_ctx_true in Ec; subst c.
      destruct v; [discriminate|].
      destruct outs as [|o0 [|o1 [|o2 outs]]]; try discriminate.
      * apply scheme_intro with (y := o0); auto.
      * destruct (is_err o1) eqn:E1; cbn in H; [|discriminate]. apply is_err_true in E1; subst o1.
        apply scheme_intro with (y := o0); auto.
    + destruct (is_ctx c) eqn:Ec; cbn in H; [|discriminate]. apply is_ctx_true in Ec; subst c.
      destruct v; [discriminate|].
      destruct outs as [|o0 [|o1 [|o2 outs]]]; try discriminate.
      * apply scheme_intro with (y := o0); eauto.
      * destruct (is_err o1) eqn:E1; cbn in H; [|discriminate]. apply is_err_true in E1; subst o1.
        apply scheme_intro with (y := o0); eauto.
  - intros H. destruct H as [args outs y Ha Ho].
    destruct Ha as [->|[x ->]]; destruct Ho as [->| ->]; cbn; destruct (is_err y); eauto.
Qed.

Lemma check_total fn : ~ scheme fn -> exists e, check fn = Err e.
Proof.
  intros H. destruct (check fn) as [fi|e] eqn:E; [|eauto].
  exfalso; apply H, check_exact; eauto.
Qed.

(* which error, in the order the code tests *)
Lemma check_errors :
  check FNil = Err ENilFunction /\
  (forall t, check (FNotFunc t) = Err ENotFunction) /\
  (forall ins v outs, length ins = 0 \/ 2 < length ins -> check (FFunc ins v outs) = Err EWrongNumParams) /\
  (forall c rest v outs, length rest <= 1 -> c <> TCtx -> check (FFunc (c :: rest) v outs) = Err EFirstNotContext) /\
  (forall rest outs, length rest <= 1 -> check (FFunc (TCtx :: rest) true outs) = Err EVariadic) /\
  (forall rest outs, length rest <= 1 -> length outs = 0 \/ 2 < length outs ->
     check (FFunc (TCtx :: rest) false outs) = Err EWrongNumResults) /\
  (forall rest o0 o1, length rest <= 1 -> o1 <> TError ->
     check (FFunc (TCtx :: rest) false [o0; o1]) = Err EResultNotError).
Proof.
  repeat split; try reflexivity.
  - intros ins v outs [H|H]; destruct ins as [|c [|x [|x2 ins]]]; cbn in *; try reflexivity; lia.
  - intros c rest v outs Hl Hc. destruct rest as [|x [|x2 rest]]; cbn in *; try lia;
      destruct (is_ctx c) eqn:E; try reflexivity; apply is_ctx_true in E; congruence.
  - intros rest outs Hl. destruct rest as [|x [|x2 rest]]; cbn in *; try lia; reflexivity.
  - intros rest outs Hl [H|H]; destruct rest as [|x [|x2 rest]]; cbn in Hl; try lia;
      destruct outs as [|o0 [|o1 [|o2 outs]]]; cbn in *; try reflexivity; lia.
  - intros rest o0 o1 Hl Ho. destruct rest as [|x [|x2 rest]]; cbn in *; try lia;
      destruct (is_err o1) eqn:E; try reflexivity; apply is_err_true in E; congruence.
Qed.

(* what an accepted function is recorded as *)
Lemma check_info args outs fi :
  check (FFunc (TCtx :: args) false outs) = Ok fi ->
  fi_arg fi = match args with [x] => Some x | _ => None end /\
  fi_strict fi = false /\ fi_array fi = true /\ fi_unpack fi = false /\
  fi_pos_names fi = match struct_field_names (fi_arg fi) with Some ns => ns | None => [] end /\
  fi_handler fi = is_handler_type (TCtx :: args) false outs /\
  match outs with
  | [y] => if is_err y then fi_result fi = None /\ fi_reports_error fi = true
           else fi_result fi = Some y /\ fi_reports_error fi = false
  | [y; _] => fi_result fi = Some y /\ fi_reports_error fi = true
  | _ => False
  end.
Proof.
  intros H. cbn in H.
  destruct args as [|x [|x2 args]]; try discriminate;
    destruct outs as [|o0 [|o1 [|o2 outs]]]; try discriminate.
  - destruct (is_err o0) eqn:E; injection H as <-; cbn; rewrite ?E; auto 10.
  - destruct (is_err o1) eqn:E; cbn in H; [|discriminate]. injection H as <-; cbn; rewrite ?E; auto 10.
  - destruct (is_err o0) eqn:E; injection H as <-; cbn; rewrite ?E; auto 10.
  - destruct (is_err o1) eqn:E; cbn in H; [|discriminate]. injection H as <-; cbn; rewrite ?E; auto 10.
Qed.

Example check_exact_nonvacuous :
  scheme (FFunc [TCtx; TPtr (TStruct [])] false [TScalar KInt; TError]) /\
  ~ scheme (FFunc [TCtx; TScalar KInt] true [TError]) /\
  check (FFunc [TCtx; TScalar KInt; TScalar KInt] false [TError]) = Err EWrongNumParams /\
  check (FFunc [TCtx] false [TError; TError]) <> Err EResultNotError.
Proof.
  repeat split.
  - apply scheme_intro with (y := TScalar KInt); eauto.
  - intros H; inversion H.
  - cbn; congruence.
Qed.

(* ------------------------------------------------------------------------- *)
(** * C15: struct field names                                                 *)

Lemma is_nil_true {A} (l : list A) : is_nil l = true <-> l = [].
Proof. destruct l; cbn; split; congruence. Qed.
Lemma is_nil_false {A} (l : list A) : is_nil l = false <-> l <> [].
Proof. destruct l; cbn; split; congruence. Qed.

(* tag_name is strings.SplitN(tag, ",", 2)[0] *)
Lemma tag_name_spec tag :
  ~ In comma (tag_name tag) /\
  (tag = tag_name tag \/ exists rest, tag = tag_name tag ++ comma :: rest).
Proof.
  induction tag as [|c r [IH1 IH2]]; cbn; [tauto|].
  destruct (N.eqb_spec c comma) as [->|N]; cbn.
  - split; [tauto|]. right; eauto.
  - split; [intros [H|H]; [congruence|auto]|].
    destruct IH2 as [IH2|[rest IH2]]; [left|right; exists rest]; congruence.
Qed.

(* The documented rule, as a relation: a field is listed under the name n. *)
Inductive eligible : fmeta -> bytes -> Prop :=
| el_tagged f tag :
    f_exported f = true -> f_tag f = Some tag -> tag <> dash -> tag_name tag <> [] ->
    eligible f (tag_name tag)
| el_plain f :
    f_exported f = true -> f_embedded f = false ->
    (f_tag f = None \/ exists tag, f_tag f = Some tag /\ tag <> dash /\ tag_name tag = []) ->
    eligible f (f_name f).

Lemma field_name_eligible f n : field_name f = Some n <-> eligible f n.
Proof.
  unfold field_name. split.
  - destruct (f_exported f) eqn:Ex; cbn; [|discriminate].
    destruct (f_tag f) as [tag|] eqn:Et.
    + destruct (beq_spec tag dash) as [->|Nd]; [discriminate|].
      destruct (is_nil (tag_name tag)) eqn:En.
      * apply is_nil_true in En. destruct (f_embedded f) eqn:Ee; [discriminate|].
        intros [= <-]. apply el_plain; eauto.
      * apply is_nil_false in En. intros [= <-]. eapply el_tagged; eauto.
    + destruct (f_embedded f) eqn:Ee; [discriminate|]. intros [= <-]. apply el_plain; auto.
  - intros H. destruct H as [f tag Ex Et Nd Nn|f Ex Ee Ht]; rewrite Ex; cbn.
    + rewrite Et. destruct (beq_spec tag dash); [congruence|].
      apply is_nil_false in Nn. rewrite Nn. reflexivity.
    + rewrite Ee. destruct Ht as [->|[tag [-> [Nd Nn]]]]; [reflexivity|].
      destruct (beq_spec tag dash); [congruence|]. rewrite Nn. reflexivity.
Qed.

(* ... and the cases in which a field is skipped *)
Lemma field_name_skipped f :
  field_name f = None <->
  f_exported f = false \/ f_tag f = Some dash \/
  (f_embedded f = true /\ (f_tag f = None \/ exists tag, f_tag f = Some tag /\ tag_name tag = [])).
Proof.
  unfold field_name. destruct (f_exported f); cbn; [|tauto].
  destruct (f_tag f) as [tag|].
  - destruct (beq_spec tag dash) as [->|Nd]; [tauto|].
    destruct (is_nil (tag_name tag)) eqn:En.
    + apply is_nil_true in En. destruct (f_embedded f).
      * split; auto. intros _. right; right; split; auto. right; eauto.
      * split; [discriminate|]. intros [H|[H|[H _]]]; congruence.
    + apply is_nil_false in En. split; [discriminate|].
      intros [H|[H|[_ [H|[t [H1 H2]]]]]]; congruence.
  - destruct (f_embedded f); split; auto; try discriminate.
    intros [H|[H|[H _]]]; congruence.
Qed.

(* the listed names, in declaration order *)
Inductive names_rel : list (fmeta * ty) -> list bytes -> Prop :=
| nr_nil : names_rel [] []
| nr_take f t fs n ns : eligible f n -> names_rel fs ns -> names_rel ((f, t) :: fs) (n :: ns)
| nr_skip f t fs ns : (forall n, ~ eligible f n) -> names_rel fs ns -> names_rel ((f, t) :: fs) ns.

Lemma eligible_fun f n n' : eligible f n -> eligible f n' -> n = n'.
Proof. intros H H'. apply field_name_eligible in H, H'. congruence. Qed.

Lemma field_names_rel fs ns : field_names fs = ns <-> names_rel fs ns.
Proof.
  split.
  - intros <-. induction fs as [|[f t] fs IH]; cbn; [constructor|].
    destruct (field_name f) as [n|] eqn:E.
    + apply nr_take; auto. apply field_name_eligible; auto.
    + apply nr_skip; auto. intros n H. apply field_name_eligible in H. congruence.
  - induction 1 as [|f t fs n ns He _ IH|f t fs ns Hn _ IH]; cbn; auto.
    + apply field_name_eligible in He. rewrite He, IH. reflexivity.
    + destruct (field_name f) as [n|] eqn:E; auto.
      apply field_name_eligible in E. exfalso; eapply Hn; eauto.
Qed.

Lemma struct_field_names_spec a ns :
  struct_field_names (Some a) = Some ns <->
  exists fs, underlying (pointee a) = TStruct fs /\ names_rel fs ns.
Proof.
  cbn. split.
  - destruct (underlying (pointee a)) eqn:E; try discriminate.
    intros [= <-]. eexists; split; eauto. apply field_names_rel; auto.
  - intros [fs [-> H]]. apply field_names_rel in H. congruence.
Qed.

Lemma struct_field_names_none a :
  struct_field_names (Some a) = None <-> forall fs, underlying (pointee a) <> TStruct fs.
Proof.
  cbn. destruct (underlying (pointee a)); split; try congruence; try discriminate.
  intros H. exfalso; eapply H; eauto.
Qed.

(* a struct with a tagged, an untagged, an unexported, a json:"-", a `json:",omitempty"`,
   an untagged embedded and a tagged embedded field *)
Definition bs (s : list nat) : bytes := map N.of_nat s.
Definition fld n tag ex em : fmeta * ty :=
  ({| f_name := n; f_tag := tag; f_exported := ex; f_embedded := em |}, TScalar KInt).
Definition demo_struct : ty := TStruct
  [ fld (bs [65]) (Some (bs [97])) true false;                 (* A `json:"a"`           *)
    fld (bs [66]) None true false;                              (* B                      *)
    fld (bs [99]) None false false;                             (* c  (unexported)        *)
    fld (bs [68]) (Some (bs [45])) true false;                  (* D `json:"-"`           *)
    fld (bs [69]) (Some (bs [44; 111])) true false;             (* E `json:",o"`          *)
    fld (bs [70]) None true true;                               (* F  embedded, untagged  *)
    fld (bs [71]) (Some (bs [103; 44; 111])) true true;         (* G  embedded `json:"g,o"` *)
    fld (bs [72]) (Some (bs [45; 44])) true false ].            (* H `json:"-,"`          *)

Example field_names_nonvacuous :
  struct_field_names (Some (TPtr demo_struct)) = Some [bs [97]; bs [66]; bs [69]; bs [103]; bs [45]] /\
  struct_field_names (Some (TNamed RPointer demo_struct)) = struct_field_names (Some demo_struct) /\
  struct_field_names (Some (TPtr (TPtr demo_struct))) = None.
Proof. vm_compute. auto. Qed.

(* ------------------------------------------------------------------------- *)
(** * C15: translate                                                          *)

Fixpoint obj_get (k : bytes) (o : list (bytes * elt)) : option elt :=
  match o with [] => None | (k', e) :: r => if beq k k' then Some e else obj_get k r end.

(* keys strictly increasing in Go's string order *)
Definition blt (a b : bytes) : Prop := ble a b = true /\ a <> b.
Inductive sorted_keys : list (bytes * elt) -> Prop :=
| sk_nil : sorted_keys []
| sk_cons k e o : (forall k', In k' (map fst o) -> blt k k') -> sorted_keys o -> sorted_keys ((k, e) :: o).

Lemma blt_trans a b c : blt a b -> blt b c -> blt a c.
Proof.
  intros [H1 N1] [H2 N2]. split; [eapply ble_trans; eauto|].
  intros ->. apply N1. apply ble_antisym; auto.
Qed.

Lemma obj_set_keys k v o k' :
  In k' (map fst (obj_set k v o)) <-> k' = k \/ In k' (map fst o).
Proof.
  induction o as [|[k0 v0] o IH]; cbn; [intuition|].
  destruct (beq_spec k k0) as [->|N]; cbn; [intuition|].
  destruct (ble k k0); cbn; [intuition|]. rewrite IH. intuition.
Qed.

Lemma obj_set_sorted k v o : sorted_keys o -> sorted_keys (obj_set k v o).
Proof.
  induction 1 as [|k0 e0 o Hlt Hs IH]; cbn; [constructor; [intros ? []|constructor]|].
  destruct (beq_spec k k0) as [->|N].
  - constructor; auto.
  - destruct (ble k k0) eqn:E.
    + constructor; [|constructor; auto].
      intros k' [<-|H]; [split; auto|]. eapply blt_trans; [split; eauto|auto].
    + constructor; auto. intros k' H. apply obj_set_keys in H. destruct H as [->|H]; auto.
      split; [|congruence]. destruct (ble_total k k0); congruence.
Qed.

Lemma obj_get_set_same k v o : obj_get k (obj_set k v o) = Some v.
Proof.
  induction o as [|[k0 v0] o IH]; cbn; [rewrite beq_refl; auto|].
  destruct (beq_spec k k0) as [->|N]; cbn; [rewrite beq_refl; auto|].
  destruct (ble k k0); cbn; [rewrite beq_refl; auto|].
  destruct (beq_spec k k0); [congruence|auto].
Qed.

Lemma obj_get_set_other k v o k' : k' <> k -> obj_get k' (obj_set k v o) = obj_get k' o.
Proof.
  intros N. induction o as [|[k0 v0] o IH]; cbn.
  - destruct (beq_spec k' k); [congruence|auto].
  - destruct (beq_spec k k0) as [->|N0]; cbn.
    + destruct (beq_spec k' k0); [congruence|auto].
    + destruct (ble k k0); cbn.
      * destruct (beq_spec k' k); [congruence|auto].
      * destruct (beq_spec k' k0); auto.
Qed.

Lemma obj_of_sorted acc names es : sorted_keys acc -> sorted_keys (obj_of acc names es).
Proof.
  revert acc es; induction names as [|n names IH]; intros acc es H; cbn; auto.
  destruct es as [|e es]; auto. apply IH, obj_set_sorted; auto.
Qed.

Lemma obj_of_keys acc names es k : length es = length names ->
  In k (map fst (obj_of acc names es)) <-> In k names \/ In k (map fst acc).
Proof.
  revert acc es; induction names as [|n names IH]; intros acc es Hl; cbn.
  - destruct es; tauto.
  - destruct es as [|e es]; [discriminate|]. cbn in Hl. rewrite IH by lia.
    rewrite obj_set_keys. intuition.
Qed.

Lemma obj_of_get_other acc names es k : ~ In k names -> obj_get k (obj_of acc names es) = obj_get k acc.
Proof.
  revert acc es; induction names as [|n names IH]; intros acc es H; cbn; auto.
  destruct es as [|e es]; auto. rewrite IH by (intros Hin; apply H; right; auto).
  apply obj_get_set_other. intros ->. apply H; left; auto.
Qed.

Lemma obj_of_get acc names es i k e : NoDup names ->
  nth_error names i = Some k -> nth_error es i = Some e -> obj_get k (obj_of acc names es) = Some e.
Proof.
  revert acc es i; induction names as [|n names IH]; intros acc es i Hnd Hn He.
  - destruct i; discriminate.
  - inversion Hnd as [|? ? Hnotin Hnd']; subst. destruct es as [|e0 es]; [destruct i; discriminate|].
    destruct i as [|i]; cbn in *.
    + injection Hn as ->. injection He as ->. rewrite obj_of_get_other by auto. apply obj_get_set_same.
    + eapply IH; eauto.
Qed.

Lemma sorted_keys_nodup o : sorted_keys o -> NoDup (map fst o).
Proof.
  induction 1 as [|k e o Hlt _ IH]; cbn; constructor; auto.
  intros H. destruct (Hlt k H) as [_ N]. congruence.
Qed.

Lemma translate_array names es : NoDup names -> length es = length names ->
  exists o, translate names (PArray es) = Some (PObject o) /\
    (forall i k e, nth_error names i = Some k -> nth_error es i = Some e -> obj_get k o = Some e) /\
    (forall k, In k (map fst o) <-> In k names) /\
    sorted_keys o.
Proof.
  intros Hnd Hl. exists (obj_of [] names es). cbn. rewrite Hl, Nat.eqb_refl. repeat split.
  - intros i k e. apply obj_of_get; auto.
  - intros H. apply obj_of_keys in H; auto. cbn in H. tauto.
  - intros H. apply obj_of_keys; auto.
  - apply obj_of_sorted. constructor.
Qed.

Lemma translate_wrong_length names es : length es <> length names -> translate names (PArray es) = None.
Proof. intros H. cbn. apply Nat.eqb_neq in H. rewrite H. reflexivity. Qed.

Lemma translate_non_array names p : (forall es, p <> PArray es) -> translate names p = Some p.
Proof. intros H. destruct p; cbn; auto. exfalso; eapply H; eauto. Qed.

Example translate_nonvacuous :
  translate [bs [98]; bs [97]] (PArray [bs [49]; bs [50]]) = Some (PObject [(bs [97], bs [50]); (bs [98], bs [49])]) /\
  translate [bs [98]; bs [97]] (PArray [bs [49]]) = None /\
  translate [bs [98]; bs [97]] (PArray [bs [49]; bs [50]; bs [51]]) = None /\
  translate [bs [98]; bs [97]] (PObject [(bs [122], bs [49])]) = Some (PObject [(bs [122], bs [49])]) /\
  NoDup [bs [98]; bs [97]].
Proof.
  repeat split; try (vm_compute; reflexivity).
  repeat constructor; cbn; intuition discriminate.
Qed.

(* ------------------------------------------------------------------------- *)
(** * C15: which decode is applied, and when the function is called           *)

Lemma direct_strict_self x : named_ptr x = false -> direct_strict x = has_strict_method x.
Proof.
  unfold direct_strict, has_strict_method, kind_ptr, pointee, ptr_implements.
  destruct x; cbn; auto. destruct x; cbn; auto; discriminate.
Qed.

(* strictness in effect = SetStrict or the type's own method, for EVERY option
   combination (fi is any FuncInfo whose argument is x and whose strict flag is s) *)
Lemma strict_eff_spec fi x :
  fi_arg fi = Some x -> named_ptr x = false ->
  strict_eff fi x = fi_strict fi || has_strict_method x.
Proof.
  intros Ha Hn. unfold strict_eff, strict_eff_gen, arg_wrapper. rewrite Ha.
  rewrite (direct_strict_self x Hn).
  destruct (negb (is_nil (fi_pos_names fi)) && fi_array fi), (fi_strict fi), (has_strict_method x); reflexivity.
Qed.

Lemma strict_eff_options fn fi0 s a x :
  check fn = Ok fi0 -> fi_arg fi0 = Some x -> named_ptr x = false ->
  strict_eff (set_strict s (allow_array a fi0)) x = s || has_strict_method x.
Proof. intros _ Ha Hn. rewrite strict_eff_spec; auto. Qed.

(* a struct { A int `json:"a"` } with a pointer-receiver DisallowUnknownFields method *)
Definition strict_struct : ty := TNamed RPointer (TStruct [fld (bs [65]) (Some (bs [97])) true false]).
Definition fi_of (fn : fnval) : finfo :=
  match check fn with Ok fi => fi | Err _ => set_strict false
    {| fi_arg := None; fi_result := None; fi_reports_error := true; fi_strict := false; fi_array := false;
       fi_pos_names := []; fi_handler := false; fi_unpack := false |} end.
Definition strict_fn : fnval := FFunc [TCtx; TPtr strict_struct] false [TError].

Example strict_eff_nonvacuous :
  (exists fi0, check strict_fn = Ok fi0 /\ fi_arg fi0 = Some (TPtr strict_struct)) /\
  named_ptr (TPtr strict_struct) = false /\ has_strict_method (TPtr strict_struct) = true /\
  has_strict_method strict_struct = true /\ has_strict_method (TPtr (TPtr strict_struct)) = false /\
  forall s a, strict_eff (set_strict s (allow_array a (fi_of strict_fn))) (TPtr strict_struct) = true.
Proof.
  repeat split; try (vm_compute; eauto; fail).
  intros [|] [|]; vm_compute; reflexivity.
Qed.

(* Without the fix for F12 the statement fails: default options (array form
   allowed), self-strict struct argument - the array stub hides the method. *)
Lemma strict_eff_refuted_without_F12 :
  exists fn fi0 x,
    check fn = Ok fi0 /\ fi_arg fi0 = Some x /\ named_ptr x = false /\
    strict_eff_gen false fi0 x <> fi_strict fi0 || has_strict_method x /\
    strict_eff_gen true fi0 x = fi_strict fi0 || has_strict_method x.
Proof.
  exists strict_fn, (fi_of strict_fn), (TPtr strict_struct).
  vm_compute. repeat split; congruence.
Qed.

(* the same at the level of the outcome, for an oracle that rejects unknown
   fields exactly when asked to be strict *)
Definition demo_params : pvalue := PObject [(bs [97], bs [49]); (bs [122], bs [50])].   (* {"a":1,"z":2} *)
Definition demo_decode (_ : ty) (strict : bool) (p : pvalue) : option value :=
  match p with
  | PObject kvs => if strict && existsb (fun kv => negb (beq (fst kv) (bs [97]))) kvs then None
                   else Some (Val (bs [118]) [])
  | _ => None
  end.
Definition demo_zero (_ : ty) : value := Val (bs [48]) [].

Lemma wrap_refuted_without_F12 :
  wrap_gen demo_decode demo_zero false (fi_of strict_fn) demo_params = OCall [Val (bs [118]) []] /\
  wrap demo_decode demo_zero (fi_of strict_fn) demo_params = OInvalidParams /\
  wrap_gen demo_decode demo_zero false (allow_array false (fi_of strict_fn)) demo_params = OInvalidParams.
Proof. vm_compute. auto. Qed.

(* What remains outside strict_eff_spec: a DECLARED pointer type (type P *S).
   argWrapper asks P for the method (P has none) while UnmarshalParams is given a
   *S; with the array form allowed the array stub hides S's method. *)
Lemma strict_eff_named_pointer_exception :
  let x := TNamed RNone (TPtr strict_struct) in
  let fi := fi_of (FFunc [TCtx; x] false [TError]) in
  named_ptr x = true /\ direct_strict x = true /\ has_strict_method x = false /\
  strict_eff fi x = false /\ strict_eff (allow_array false fi) x = true.
Proof. vm_compute. auto. Qed.

(* has a stub been interposed between UnmarshalParams and the argument? *)
Definition stubbed (fi : finfo) : bool :=
  match arg_wrapper true fi with SNone => false | _ => true end.
(* the params value that is decoded: array-capable arguments get the positional
   translation; None = array of the wrong length *)
Definition translate_if_array (fi : finfo) (p : pvalue) : option pvalue :=
  if array_eff fi then translate (fi_pos_names fi) p else Some p.

(* the arguments the function receives for the decoded value v: v itself, or - for
   Positional's caller - the fields of v *)
Definition call_args (fi : finfo) (v : value) : list value := if fi_unpack fi then fields_of v else [v].

Section WrapSpec.
  Variable decode : ty -> bool -> pvalue -> option value.
  Variable zero : ty -> value.

  Lemma stub_decode_spec fi x p :
    fi_arg fi = Some x ->
    stub_decode decode (arg_wrapper true fi) (fi_pos_names fi) (direct_strict x) (pointee x) p =
    if malformed p && stubbed fi then None
    else match translate_if_array fi p with
         | None => None
         | Some p' => decode (pointee x) (strict_eff fi x) p'
         end.
  Proof.
    intros Ha. unfold stubbed, translate_if_array, strict_eff, strict_eff_gen, array_eff, arg_wrapper.
    rewrite Ha.
    destruct (negb (is_nil (fi_pos_names fi)) && fi_array fi);
      destruct (fi_strict fi && negb (has_strict_method x) || _ && has_strict_method x);
      cbn; destruct (malformed p); cbn; auto;
      destruct (translate (fi_pos_names fi) p); auto.
  Qed.

  (* the function takes an argument that is decoded from the params *)
  Lemma wrap_decoding_gen fi x p :
    fi_handler fi = false -> fi_arg fi = Some x -> is_req x = false ->
    wrap decode zero fi p =
    match p with
    | PAbsent => OCall (call_args fi (zero (pointee x)))
    | _ =>
        if malformed p && stubbed fi then OInvalidParams
        else match translate_if_array fi p with
             | None => OInvalidParams
             | Some p' => match decode (pointee x) (strict_eff fi x) p' with
                          | Some v => OCall (call_args fi v)
                          | None => OInvalidParams
                          end
             end
    end.
  Proof.
    intros Hh Ha Hr. unfold wrap, wrap_gen, call_args. rewrite Hh, Ha, Hr.
    unfold unmarshal_params. destruct p; auto; rewrite stub_decode_spec by auto;
      match goal with |- context [if ?c then _ else _] => destruct c end; auto;
      destruct (translate_if_array fi _); auto; destruct (decode _ _ _); auto.
  Qed.

  Lemma wrap_decoding fi x p :
    fi_handler fi = false -> fi_arg fi = Some x -> is_req x = false -> fi_unpack fi = false ->
    wrap decode zero fi p =
    match p with
    | PAbsent => OCall [zero (pointee x)]
    | _ =>
        if malformed p && stubbed fi then OInvalidParams
        else match translate_if_array fi p with
             | None => OInvalidParams
             | Some p' => match decode (pointee x) (strict_eff fi x) p' with
                          | Some v => OCall [v]
                          | None => OInvalidParams
                          end
             end
    end.
  Proof.
    intros Hh Ha Hr Hu. rewrite (wrap_decoding_gen fi x p Hh Ha Hr). unfold call_args. rewrite Hu. reflexivity.
  Qed.

  Lemma wrap_no_argument fi p :
    fi_handler fi = false -> fi_arg fi = None ->
    wrap decode zero fi p = if has_params p then ONoParamsAccepted else OCall [].
  Proof. intros Hh Ha. unfold wrap, wrap_gen. rewrite Hh, Ha. reflexivity. Qed.

  Lemma wrap_request fi x p :
    fi_arg fi = Some x -> is_req x = true -> wrap decode zero fi p = OCallRequest.
  Proof. intros Ha Hr. unfold wrap, wrap_gen. rewrite Ha, Hr. destruct (fi_handler fi); reflexivity. Qed.

  Lemma wrap_handler fi p : fi_handler fi = true -> wrap decode zero fi p = OCallRequest.
  Proof. intros Hh. unfold wrap, wrap_gen. rewrite Hh. reflexivity. Qed.

  (* the complete statement for functions accepted by Check, under every option setting *)
  Lemma wrap_spec fn fi0 s a p :
    check fn = Ok fi0 ->
    let fi := set_strict s (allow_array a fi0) in
    match fi_arg fi with
    | None => wrap decode zero fi p = if has_params p then ONoParamsAccepted else OCall []
    | Some x =>
        if is_req x then wrap decode zero fi p = OCallRequest
        else
          wrap decode zero fi p =
          match p with
          | PAbsent => OCall [zero (pointee x)]
          | _ =>
              if malformed p && stubbed fi then OInvalidParams
              else match translate_if_array fi p with
                   | None => OInvalidParams
                   | Some p' => match decode (pointee x) (strict_eff fi x) p' with
                                | Some v => OCall [v]
                                | None => OInvalidParams
                                end
                   end
          end
    end.
  Proof.
    intros Hc fi.
    assert (Hs : scheme fn) by (apply check_exact; eauto).
    destruct Hs as [args outs y Hargs Houts].
    destruct (check_info _ _ _ Hc) as (Harg & _ & _ & Hu & _ & Hh & _).
    assert (Hu' : fi_unpack fi = false) by exact Hu.
    assert (Hh' : fi_handler fi = is_handler_type (TCtx :: args) false outs) by exact Hh.
    assert (Ha' : fi_arg fi = fi_arg fi0) by reflexivity.
    destruct (fi_arg fi) as [x|] eqn:Ea.
    - destruct (is_req x) eqn:Er; [apply wrap_request with x; auto|].
      apply wrap_decoding; auto. rewrite Hh'.
      rewrite <- Ha', Harg in *. destruct args as [|x' [|]]; try discriminate.
      injection Harg as ->. destruct outs as [|? [|? [|]]]; cbn; auto. rewrite Er. reflexivity.
    - apply wrap_no_argument; auto. rewrite Hh'.
      rewrite <- Ha' in Harg. destruct args as [|x' [|]]; try discriminate; reflexivity.
  Qed.
End WrapSpec.

(* the result and the error of the function are handed on unchanged *)
Lemma decode_out_spec {R E} (fi : finfo) (y : R) (e : option E) :
  fi_handler fi = false ->
  decode_out fi y e =
  match fi_result fi, fi_reports_error fi, e with
  | None, _, None => HNil                     (* func(...) error returning nil *)
  | None, _, Some e' => HError e'
  | Some _, false, _ => HResult y             (* func(...) Y *)
  | Some _, true, None => HResult y           (* func(...) (Y, error) *)
  | Some _, true, Some e' => HError e'
  end.
Proof.
  intros Hh. unfold decode_out. rewrite Hh.
  destruct (fi_result fi), (fi_reports_error fi), e; reflexivity.
Qed.

Lemma decode_out_handler {R E} (fi : finfo) (y : R) (e : option E) :
  fi_handler fi = true ->
  decode_out fi y e = match e with None => HResult y | Some e' => HBoth y e' end.
Proof. intros Hh. unfold decode_out. rewrite Hh. reflexivity. Qed.

(* non-vacuity: a struct argument with default options, each branch of wrap_spec *)
Definition demo_fn : fnval := FFunc [TCtx; demo_struct] false [TScalar KInt; TError].
Example wrap_spec_nonvacuous :
  (exists fi0, check demo_fn = Ok fi0) /\
  let fi := fi_of demo_fn in
  let D (T : ty) (s : bool) (p : pvalue) :=
    match p with PObject [(k1, e1); (k2, _); (k3, _); (k4, _); (k5, _)] => Some (Val (k1 ++ e1) []) | _ => None end in
  array_eff fi = true /\ stubbed fi = true /\
  wrap D demo_zero fi (PArray [bs [1]; bs [2]; bs [3]; bs [4]; bs [5]]) = OCall [Val (bs [45; 5]) []] /\
  wrap D demo_zero fi (PArray [bs [1]; bs [2]; bs [3]; bs [4]]) = OInvalidParams /\
  wrap D demo_zero fi (PScalar (bs [49])) = OInvalidParams /\
  wrap D demo_zero fi PAbsent = OCall [demo_zero TAny] /\
  wrap D demo_zero (fi_of (FFunc [TCtx] false [TError])) PNull = ONoParamsAccepted /\
  wrap D demo_zero (fi_of (FFunc [TCtx] false [TError])) PAbsent = OCall [] /\
  wrap D demo_zero (fi_of (FFunc [TCtx; TPtr TRequest] false [TError])) PNull = OCallRequest.
Proof. split; [vm_compute; eauto|]. vm_compute. repeat split. Qed.

(* ------------------------------------------------------------------------- *)
(** * C16: Positional                                                         *)

Lemma positional_context_only v outs names :
  positional (FFunc [TCtx] v outs) names = check (FFunc [TCtx] v outs).
Proof. reflexivity. Qed.

Lemma positional_arity xs outs names :
  xs <> [] -> length names <> length xs ->
  positional (FFunc (TCtx :: xs) false outs) names = Err (ENameCount (length names) (length xs)).
Proof.
  intros Hx Hl. cbn. destruct xs as [|x xs]; [congruence|]. cbn [is_nil].
  apply Nat.eqb_neq in Hl. rewrite Hl. reflexivity.
Qed.

Lemma positional_errors :
  (forall names, positional FNil names = Err ENilFunction) /\
  (forall t names, positional (FNotFunc t) names = Err ENotFunction) /\
  (forall v outs names, positional (FFunc [] v outs) names = Err EWrongNumParams) /\
  (forall c xs v outs names, c <> TCtx -> positional (FFunc (c :: xs) v outs) names = Err EFirstNotContext) /\
  (forall xs outs names, xs <> [] -> positional (FFunc (TCtx :: xs) true outs) names = Err EVariadic).
Proof.
  repeat split; try reflexivity.
  - intros c xs v outs names Hc. cbn. destruct (is_ctx c) eqn:E; [apply is_ctx_true in E; congruence|reflexivity].
  - intros xs outs names Hx. destruct xs; [congruence|reflexivity].
Qed.

Lemma positional_info xs outs names fi :
  xs <> [] -> positional (FFunc (TCtx :: xs) false outs) names = Ok fi ->
  length names = length xs /\
  fi_arg fi = Some (pos_struct names xs) /\ fi_strict fi = true /\ fi_array fi = true /\
  fi_pos_names fi = names /\ fi_unpack fi = true /\ fi_handler fi = false /\
  exists fi0, check (FFunc [TCtx; pos_struct names xs] false outs) = Ok fi0 /\
              fi_result fi = fi_result fi0 /\ fi_reports_error fi = fi_reports_error fi0.
Proof.
  intros Hx H. destruct xs as [|x xs]; [congruence|].
  unfold positional in H. cbn [is_ctx negb is_nil] in H.
  destruct (Nat.eqb (length names) (length (x :: xs))) eqn:El; cbn [negb] in H; [|discriminate].
  apply Nat.eqb_eq in El.
  destruct (check (FFunc [TCtx; pos_struct names (x :: xs)] false outs)) as [fi0|e] eqn:Ec; [|discriminate].
  injection H as <-. cbn.
  destruct (check_info _ _ _ Ec) as (Ha & _ & Harr & _ & _ & Hh & _).
  repeat split; auto.
  - rewrite Hh. destruct outs as [|? [|? [|]]]; reflexivity.
  - eauto.
Qed.

(* accepted iff a context-first, non-variadic function with a documented result
   scheme and as many names as non-context arguments (no names needed for none) *)
Lemma positional_ok_iff fn names :
  (exists fi, positional fn names = Ok fi) <->
  exists xs outs y, fn = FFunc (TCtx :: xs) false outs /\
    (outs = [y] \/ outs = [y; TError]) /\ (xs = [] \/ length names = length xs).
Proof.
  split.
  - intros [fi H]. destruct fn as [|t|ins v outs]; try discriminate.
    destruct ins as [|c xs]; [discriminate|].
    destruct (is_ctx c) eqn:Ec; [|cbn in H; rewrite Ec in H; discriminate].
    apply is_ctx_true in Ec; subst c.
    destruct xs as [|x xs].
    + rewrite positional_context_only in H.
      assert (Hs : scheme (FFunc [TCtx] v outs)) by (apply check_exact; eauto).
      inversion Hs; subst. eauto 10.
    + destruct v; [discriminate|].
      destruct (positional_info (x :: xs) outs names fi ltac:(discriminate) H) as (Hl & _ & _ & _ & _ & _ & _ & fi0 & Hc & _).
      assert (Hs : scheme (FFunc [TCtx; pos_struct names (x :: xs)] false outs)) by (apply check_exact; eauto).
      inversion Hs; subst. eauto 10.
  - intros (xs & outs & y & -> & Ho & Hl).
    destruct xs as [|x xs].
    + rewrite positional_context_only. apply check_exact. apply scheme_intro with (y := y); auto.
    + destruct Hl as [Hl|Hl]; [discriminate|]. cbn [positional is_ctx negb is_nil].
      apply Nat.eqb_eq in Hl. rewrite Hl. cbn [negb].
      destruct Ho as [-> | ->]; cbn; destruct (is_err y); eauto.
Qed.

Lemma pos_struct_not_strict names xs :
  named_ptr (pos_struct names xs) = false /\ has_strict_method (pos_struct names xs) = false /\
  is_req (pos_struct names xs) = false /\ pointee (pos_struct names xs) = pos_struct names xs.
Proof. repeat split. Qed.

Section PositionalSpec.
  Variable decode : ty -> bool -> pvalue -> option value.
  Variable zero : ty -> value.

  (* The handler of Positional(fn, names...) (options as Positional leaves them;
     a = false is AllowArray(false) applied afterwards) *)
  Lemma positional_wrap xs outs names fi a p :
    xs <> [] -> positional (FFunc (TCtx :: xs) false outs) names = Ok fi ->
    let S := pos_struct names xs in
    let answer (q : pvalue) := match decode S true q with
                               | Some v => OCall (fields_of v)
                               | None => OInvalidParams
                               end in
    wrap decode zero (allow_array a fi) p =
    match p with
    | PAbsent => OCall (fields_of (zero S))
    | PMalformed _ => OInvalidParams
    | PArray es =>
        if a then
          if Nat.eqb (length es) (length names) then answer (PObject (obj_of [] names es)) else OInvalidParams
        else answer p
    | _ => answer p
    end.
  Proof.
    intros Hx Hp S answer.
    destruct (positional_info _ _ _ _ Hx Hp) as (Hl & Ha & Hs & Harr & Hn & Hu & Hh & _).
    assert (Hne : is_nil names = false).
    { destruct names; [destruct xs; [congruence|discriminate]|reflexivity]. }
    rewrite (wrap_decoding_gen decode zero (allow_array a fi) (pos_struct names xs) p); auto.
    assert (Hst : strict_eff (allow_array a fi) (pos_struct names xs) = true).
    { rewrite strict_eff_spec; auto. cbn. rewrite Hs. reflexivity. }
    rewrite Hst. unfold call_args, stubbed, translate_if_array, array_eff, arg_wrapper. cbn.
    rewrite Ha, Hs, Hn, Hu, Hne. cbn.
    destruct a; destruct p; cbn; auto.
    destruct (Nat.eqb (length es) (length names)); auto.
  Qed.

  (* ... as an "accepts exactly" statement *)
  Lemma positional_accepts_exactly xs outs names fi p args :
    xs <> [] -> positional (FFunc (TCtx :: xs) false outs) names = Ok fi ->
    let S := pos_struct names xs in
    (wrap decode zero fi p = OCall args <->
       (p = PAbsent /\ args = fields_of (zero S)) \/
       (exists es v, p = PArray es /\ length es = length xs /\
                     decode S true (PObject (obj_of [] names es)) = Some v /\ args = fields_of v) \/
       (exists v, (p = PNull \/ (exists kvs, p = PObject kvs) \/ (exists t, p = PScalar t)) /\
                  decode S true p = Some v /\ args = fields_of v)) /\
    (wrap decode zero fi p = OInvalidParams \/ exists args', wrap decode zero fi p = OCall args').
  Proof.
    intros Hx Hp S.
    destruct (positional_info _ _ _ _ Hx Hp) as (Hl & _ & _ & Harr & _).
    assert (Hfi : allow_array true fi = fi).
    { unfold allow_array. rewrite <- Harr. destruct fi; reflexivity. }
    pose proof (positional_wrap xs outs names fi true p Hx Hp) as W. rewrite Hfi in W. cbn zeta in W.
    fold S in W. rewrite W. clear W. split.
    - split.
      + intros H. destruct p as [| |es|kvs|t|t]; try discriminate.
        * left. injection H as <-. auto.
        * right; right. destruct (decode S true PNull) eqn:E; [|discriminate]. injection H as <-. eauto 10.
        * right; left. destruct (Nat.eqb (length es) (length names)) eqn:El; [|discriminate].
          apply Nat.eqb_eq in El. destruct (decode S true _) eqn:E; [|discriminate]. injection H as <-.
          exists es, v. repeat split; auto; congruence.
        * right; right. destruct (decode S true (PObject kvs)) eqn:E; [|discriminate]. injection H as <-. eauto 10.
        * right; right. destruct (decode S true (PScalar t)) eqn:E; [|discriminate]. injection H as <-. eauto 10.
      + intros [[-> ->]|[(es & v & -> & Hlen & Hd & ->)|(v & Hshape & Hd & ->)]]; auto.
        * assert (El : Nat.eqb (length es) (length names) = true) by (apply Nat.eqb_eq; congruence).
          rewrite El, Hd. reflexivity.
        * destruct Hshape as [->|[[kvs ->]|[t ->]]]; rewrite Hd; reflexivity.
    - destruct p as [| |es|kvs|t|t]; eauto;
        try (destruct (decode S true _); eauto; fail).
      destruct (Nat.eqb (length es) (length names)); eauto. destruct (decode S true _); eauto.
  Qed.
End PositionalSpec.

(* non-vacuity: func(ctx, int, string) with names "x", "y" *)
Definition pos_fn : fnval := FFunc [TCtx; TScalar KInt; TScalar KString] false [TScalar KString].
Definition pos_names : list bytes := [bs [120]; bs [121]].
Definition pos_fi : finfo := match positional pos_fn pos_names with Ok fi => fi | Err _ => fi_of FNil end.
Example positional_nonvacuous :
  positional pos_fn pos_names = Ok pos_fi /\
  positional pos_fn [bs [120]] = Err (ENameCount 1 2) /\
  positional pos_fn [bs [120]; bs [121]; bs [122]] = Err (ENameCount 3 2) /\
  fi_arg pos_fi = Some (TStruct
    [({| f_name := bs [80; 95; 49]; f_tag := Some (bs [120; 44; 111; 109; 105; 116; 101; 109; 112; 116; 121]);
         f_exported := true; f_embedded := false |}, TScalar KInt);
     ({| f_name := bs [80; 95; 50]; f_tag := Some (bs [121; 44; 111; 109; 105; 116; 101; 109; 112; 116; 121]);
         f_exported := true; f_embedded := false |}, TScalar KString)]) /\
  let D (T : ty) (s : bool) (p : pvalue) :=
    match p with PObject [(k1, e1); (k2, e2)] => if s then Some (Val [] [Val e1 []; Val e2 []]) else None | _ => None end in
  wrap D demo_zero pos_fi (PArray [bs [49]; bs [50]]) = OCall [Val (bs [49]) []; Val (bs [50]) []] /\
  wrap D demo_zero pos_fi (PArray [bs [49]]) = OInvalidParams /\
  wrap D demo_zero pos_fi (PArray [bs [49]; bs [50]; bs [51]]) = OInvalidParams /\
  wrap D demo_zero pos_fi (PObject [(bs [121], bs [50]); (bs [120], bs [49])]) = OCall [Val (bs [50]) []; Val (bs [49]) []] /\
  wrap D demo_zero pos_fi (PObject [(bs [121], bs [50])]) = OInvalidParams.
Proof. vm_compute. repeat split. Qed.

(* ------------------------------------------------------------------------- *)
(** * C16: Args                                                               *)

Section ArgsSpec.
  Variable decode_into : ty -> value -> elt -> bool * value.
  Variable encode : ty -> value -> option elt.

  (* a' is a with every non-nil target overwritten by the decode of its element *)
  Inductive args_rel : list slot -> list elt -> list slot -> Prop :=
  | ar_nil : args_rel [] [] []
  | ar_skip a es a' e : args_rel a es a' -> args_rel (None :: a) (e :: es) (None :: a')
  | ar_dec T cur e v a es a' :
      decode_into T cur e = (true, v) -> args_rel a es a' ->
      args_rel (Some (T, cur) :: a) (e :: es) (Some (T, v) :: a').

  Lemma args_fill_ok a es a' :
    length es = length a -> (args_fill decode_into a es = (true, a') <-> args_rel a es a').
  Proof.
    revert es a'; induction a as [|s a IH]; intros es a' Hl.
    - destruct es; [|discriminate]. cbn. split.
      + intros [= <-]. constructor.
      + intros H; inversion H; auto.
    - destruct es as [|e es]; [discriminate|]. cbn in Hl. assert (Hl' : length es = length a) by lia.
      cbn. destruct s as [[T cur]|].
      + destruct (decode_into T cur e) as [ok1 v] eqn:Ed. destruct ok1.
        * destruct (args_fill decode_into a es) as [ok r] eqn:Ef. split.
          -- intros [= -> <-]. constructor; auto. apply IH; auto.
          -- intros H; inversion H; subst. rewrite Ed in *.
             match goal with Hd : (true, _) = (true, _) |- _ => injection Hd as <- end.
             match goal with Hr : args_rel a es _ |- _ => apply IH in Hr; auto; rewrite Ef in Hr; injection Hr as -> -> end.
             reflexivity.
        * split; [discriminate|]. intros H; inversion H; subst. congruence.
      + destruct (args_fill decode_into a es) as [ok r] eqn:Ef. split.
        * intros [= -> <-]. constructor. apply IH; auto.
        * intros H; inversion H; subst.
          match goal with Hr : args_rel a es _ |- _ => apply IH in Hr; auto; rewrite Ef in Hr; injection Hr as -> -> end.
          reflexivity.
  Qed.

  (* success iff: an array (or null for no targets) of exactly len(a) elements
     every one of which decodes into its non-nil target; the targets afterwards *)
  Lemma args_unmarshal_ok a p a' :
    args_unmarshal decode_into a p = (true, a') <->
    exists es, as_array p = Some es /\ length es = length a /\ args_rel a es a'.
  Proof.
    unfold args_unmarshal. destruct (as_array p) as [es|].
    - destruct (Nat.eqb (length es) (length a)) eqn:El.
      + apply Nat.eqb_eq in El. rewrite args_fill_ok by auto. split; [eauto|].
        intros (es' & [= <-] & _ & H); auto.
      + apply Nat.eqb_neq in El. split; [discriminate|]. intros (es' & [= <-] & H & _); congruence.
    - split; [discriminate|]. intros (es' & H & _); discriminate.
  Qed.

  (* frame: nil targets stay nil, the number and the types of targets never change,
     and a target is only ever changed to what decode_into left in it *)
  Lemma args_rel_frame a es a' : args_rel a es a' ->
    length a' = length a /\
    forall i, match nth_error a i, nth_error a' i with
              | Some None, Some None => True
              | Some (Some (T, cur)), Some (Some (T', v)) =>
                  T = T' /\ exists e, nth_error es i = Some e /\ decode_into T cur e = (true, v)
              | None, None => True
              | _, _ => False
              end.
  Proof.
    induction 1 as [|a es a' e _ [IH1 IH2]|T cur e v a es a' Hd _ [IH1 IH2]]; cbn.
    - split; auto. intros [|i]; cbn; auto.
    - split; [lia|]. intros [|i]; cbn; auto. apply IH2.
    - split; [lia|]. intros [|i]; cbn; [eauto|]. apply IH2.
  Qed.

  (* what a failed Args.UnmarshalJSON leaves behind *)
  Lemma args_fill_failure a es a' :
    length es = length a -> args_fill decode_into a es = (false, a') ->
    exists a1 es1 a1' T cur e v a2 es2,
      a = a1 ++ Some (T, cur) :: a2 /\ es = es1 ++ e :: es2 /\ args_rel a1 es1 a1' /\
      decode_into T cur e = (false, v) /\ a' = a1' ++ Some (T, v) :: a2.
  Proof.
    revert es a'; induction a as [|s a IH]; intros es a' Hl H.
    - destruct es; discriminate.
    - destruct es as [|e es]; [discriminate|]. cbn in Hl. assert (Hl' : length es = length a) by lia.
      cbn in H. destruct s as [[T cur]|].
      + destruct (decode_into T cur e) as [ok1 v] eqn:Ed. destruct ok1.
        * destruct (args_fill decode_into a es) as [ok r] eqn:Ef. injection H as -> <-.
          destruct (IH es r Hl' Ef) as (a1 & es1 & a1' & T' & cur' & e' & v' & a2 & es2 & -> & -> & Hr & Hd & ->).
          exists (Some (T, cur) :: a1), (e :: es1), (Some (T, v) :: a1'), T', cur', e', v', a2, es2.
          repeat split; auto. constructor; auto.
        * injection H as <-. exists [], [], [], T, cur, e, v, a, es. repeat split; auto. constructor.
      + destruct (args_fill decode_into a es) as [ok r] eqn:Ef. injection H as -> <-.
        destruct (IH es r Hl' Ef) as (a1 & es1 & a1' & T' & cur' & e' & v' & a2 & es2 & -> & -> & Hr & Hd & ->).
        exists (None :: a1), (e :: es1), (None :: a1'), T', cur', e', v', a2, es2.
        repeat split; auto. constructor; auto.
  Qed.

  Lemma args_unmarshal_failure a p a' :
    args_unmarshal decode_into a p = (false, a') ->
    (a' = a /\ forall es, as_array p = Some es -> length es <> length a) \/
    exists es a1 es1 a1' T cur e v a2 es2,
      as_array p = Some es /\ length es = length a /\
      a = a1 ++ Some (T, cur) :: a2 /\ es = es1 ++ e :: es2 /\ args_rel a1 es1 a1' /\
      decode_into T cur e = (false, v) /\ a' = a1' ++ Some (T, v) :: a2.
  Proof.
    unfold args_unmarshal. destruct (as_array p) as [es|].
    - destruct (Nat.eqb (length es) (length a)) eqn:El.
      + apply Nat.eqb_eq in El. intros H. right.
        destruct (args_fill_failure a es a' El H) as (a1 & es1 & a1' & T & cur & e & v & a2 & es2 & H1).
        exists es, a1, es1, a1', T, cur, e, v, a2, es2. tauto.
      + apply Nat.eqb_neq in El. intros [= <-]. left. split; auto. intros es' [= <-]; auto.
    - intros [= <-]. left. split; auto. discriminate.
  Qed.

  (* marshal: an array with one element per target, `[]` for none *)
  Lemma encode_all_length a es : encode_all encode a = Some es -> length es = length a.
  Proof.
    revert es; induction a as [|s a IH]; intros es; cbn; [intros [= <-]; auto|].
    destruct (match s with Some (T, v) => encode T v | None => Some null_elt end); [|discriminate].
    destruct (encode_all encode a); [|discriminate]. intros [= <-]. cbn. f_equal. auto.
  Qed.

  Lemma args_marshal_spec a p :
    args_marshal encode a = Some p -> exists es, p = PArray es /\ length es = length a.
  Proof.
    unfold args_marshal. destruct (encode_all encode a) as [es|] eqn:E; [|discriminate].
    intros [= <-]. eauto using encode_all_length.
  Qed.
  Lemma args_marshal_empty : args_marshal encode [] = Some (PArray []).
  Proof. reflexivity. Qed.

  (* round trip: unmarshalling the marshalled form into targets b of the same
     shape restores a, provided json round-trips each single value *)
  Definition roundtrips (sa sb : slot) : Prop :=
    match sa, sb with
    | None, None => True
    | Some (T, v), Some (T', cur) => T = T' /\ forall e, encode T v = Some e -> decode_into T cur e = (true, v)
    | _, _ => False
    end.

  Lemma args_roundtrip a b p :
    Forall2 roundtrips a b -> args_marshal encode a = Some p ->
    args_unmarshal decode_into b p = (true, a).
  Proof.
    intros HF Hm. unfold args_marshal in Hm.
    destruct (encode_all encode a) as [es|] eqn:E; [|discriminate]. injection Hm as <-.
    apply args_unmarshal_ok. exists es. split; auto.
    assert (Hl : length b = length a) by (clear E; induction HF; cbn; auto).
    split; [rewrite (encode_all_length _ _ E); auto|].
    clear Hl. revert es E. induction HF as [|sa sb a b Hr HF IH]; intros es E; cbn in E.
    - injection E as <-. constructor.
    - destruct sa as [[T v]|], sb as [[T' cur]|]; cbn in Hr; try contradiction.
      + destruct Hr as [<- Hr]. destruct (encode T v) as [e|] eqn:Ee; [|discriminate].
        destruct (encode_all encode a) as [es'|] eqn:E'; [|discriminate]. injection E as <-.
        constructor; auto.
      + destruct (encode_all encode a) as [es'|] eqn:E'; [|discriminate]. injection E as <-.
        constructor; auto.
  Qed.
End ArgsSpec.

(* non-vacuity: targets (&x int = 7, nil, &s string = "q"); an oracle that accepts
   every element except the token "X" *)
Definition demo_into (_ : ty) (cur : value) (e : elt) : bool * value :=
  if beq e (bs [88]) then (false, cur) else (true, Val e []).
Definition demo_encode (_ : ty) (v : value) : option elt := Some (enc_of v).
Definition demo_args : list slot :=
  [Some (TScalar KInt, Val (bs [55]) []); None; Some (TScalar KString, Val (bs [113]) [])].
Example args_nonvacuous :
  args_unmarshal demo_into demo_args (PArray [bs [49]; bs [50]; bs [51]]) =
    (true, [Some (TScalar KInt, Val (bs [49]) []); None; Some (TScalar KString, Val (bs [51]) [])]) /\
  args_unmarshal demo_into demo_args (PArray [bs [49]; bs [50]]) = (false, demo_args) /\
  args_unmarshal demo_into demo_args (PArray [bs [49]; bs [50]; bs [51]; bs [52]]) = (false, demo_args) /\
  args_unmarshal demo_into demo_args (PObject []) = (false, demo_args) /\
  (* partial write: the first target is already overwritten when the third fails *)
  args_unmarshal demo_into demo_args (PArray [bs [49]; bs [50]; bs [88]]) =
    (false, [Some (TScalar KInt, Val (bs [49]) []); None; Some (TScalar KString, Val (bs [113]) [])]) /\
  args_unmarshal demo_into [] PNull = (true, []) /\
  args_marshal demo_encode demo_args = Some (PArray [bs [55]; null_elt; bs [113]]) /\
  Forall2 (roundtrips demo_into demo_encode)
    [Some (TScalar KInt, Val (bs [55]) []); None] [Some (TScalar KInt, Val (bs [48]) []); None].
Proof.
  repeat split; try (vm_compute; reflexivity).
  repeat constructor. cbn. intros e [= <-]. reflexivity.
Qed.

(* ------------------------------------------------------------------------- *)
(** * C16: Obj                                                                *)

Section ObjSpec.
  Variable decode_into : ty -> value -> elt -> bool * value.

  Lemma cell_set_keys k s o : map fst (cell_set k s o) = map fst o.
  Proof.
    induction o as [|[k' s'] o IH]; cbn; auto. destruct (beq k k'); cbn; congruence.
  Qed.

  Lemma cell_get_set k s o k' :
    cell_get k' (cell_set k s o) =
    if beq k' k then match cell_get k o with Some _ => Some s | None => None end else cell_get k' o.
  Proof.
    induction o as [|[k0 s0] o IH]; cbn; [destruct (beq k' k); auto|].
    destruct (beq_spec k k0) as [->|N]; cbn.
    - destruct (beq_spec k' k0); auto.
    - destruct (beq_spec k' k0) as [->|N'].
      + destruct (beq_spec k0 k); [congruence|auto].
      + rewrite IH. auto.
  Qed.

  (* what one visit of the range loop does to the targets *)
  Definition visited (base : list (bytes * elt)) (k : bytes) (s : slot) : slot :=
    match s, last_value k base with
    | Some (T, cur), Some e => Some (T, snd (decode_into T cur e))
    | _, _ => s
    end.
  (* the visit of k succeeds *)
  Definition visit_ok (base : list (bytes * elt)) (o : list (bytes * slot)) (k : bytes) : Prop :=
    match cell_get k o, last_value k base with
    | Some None, Some _ => False
    | Some (Some (T, cur)), Some e => fst (decode_into T cur e) = true
    | _, _ => True
    end.

  Lemma obj_step_spec base k o ok o' :
    obj_step decode_into base k o = (ok, o') ->
    map fst o' = map fst o /\
    (ok = true <-> visit_ok base o k) /\
    (forall k', cell_get k' o' =
       if beq k' k then option_map (visited base k) (cell_get k o) else cell_get k' o).
  Proof.
    unfold obj_step, visit_ok, visited. destruct (cell_get k o) as [s|] eqn:Eg.
    - destruct (last_value k base) as [e|] eqn:El.
      + destruct s as [[T cur]|].
        * destruct (decode_into T cur e) as [ok1 v] eqn:Ed. intros [= <- <-]. cbn.
          split; [apply cell_set_keys|]. split; [tauto|].
          intros k'. rewrite cell_get_set, Eg. destruct (beq_spec k' k) as [->|N]; auto.
          rewrite Ed. reflexivity.
        * intros [= <- <-]. split; auto. split; [split; [discriminate|intros []]|].
          intros k'. destruct (beq_spec k' k) as [->|N]; auto.
      + intros [= <- <-]. split; auto. split; [destruct s as [[? ?]|]; tauto|].
        intros k'. destruct (beq_spec k' k) as [->|N]; auto. rewrite Eg. destruct s as [[? ?]|]; auto.
    - intros [= <- <-]. split; auto. split; [tauto|].
      intros k'. destruct (beq_spec k' k) as [->|N]; auto; try (rewrite Eg; reflexivity).
  Qed.

  (* A successful run: every visited key's visit succeeded, and every target is
     what its (single) visit left - independent of the visiting order. *)
  Lemma obj_loop_ok base ord o o' :
    NoDup ord -> obj_loop decode_into base ord o = (true, o') ->
    map fst o' = map fst o /\
    (forall k, In k ord -> visit_ok base o k) /\
    (forall k, cell_get k o' = if mem k ord then option_map (visited base k) (cell_get k o) else cell_get k o).
  Proof.
    revert o; induction ord as [|k ord IH]; intros o Hnd H; cbn in H.
    - injection H as <-. repeat split; auto. intros k [].
    - inversion Hnd as [|? ? Hnotin Hnd']; subst.
      destruct (obj_step decode_into base k o) as [ok o1] eqn:Es. destruct ok; [|discriminate].
      destruct (obj_step_spec _ _ _ _ _ Es) as (Hk & Hok & Hget).
      destruct (IH o1 Hnd' H) as (Hk' & Hall & Hget').
      split; [congruence|]. split.
      + intros k' [<-|Hin]; [apply Hok; auto|].
        pose proof (Hall k' Hin) as Hv. unfold visit_ok in *. rewrite Hget in Hv.
        destruct (beq_spec k' k) as [E|N]; [subst k'; contradiction|auto].
      + intros k'. rewrite Hget'. cbn [mem]. rewrite Hget.
        destruct (beq_spec k' k) as [->|N]; cbn.
        * assert (Hm : mem k ord = false).
          { clear -Hnotin. induction ord as [|x r IHr]; cbn; auto.
            destruct (beq_spec k x) as [->|N]; [exfalso; apply Hnotin; left; auto|].
            apply IHr. intros Hin; apply Hnotin; right; auto. }
          rewrite Hm. reflexivity.
        * reflexivity.
  Qed.

  Lemma mem_in k l : mem k l = true <-> In k l.
  Proof.
    induction l as [|x r IH]; cbn; [split; [discriminate|tauto]|].
    rewrite orb_true_iff, IH. destruct (beq_spec k x); split; intuition congruence.
  Qed.

  Lemma cell_get_in k o : cell_get k o <> None <-> In k (map fst o).
  Proof.
    induction o as [|[k' s] o IH]; cbn; [tauto|].
    destruct (beq_spec k k') as [->|N]; [split; [auto|discriminate]|].
    rewrite IH. split; [auto|intros [H|H]; [congruence|auto]].
  Qed.

  (* Obj.UnmarshalJSON succeeded, the map o having been visited in the order ord
     (any enumeration of its keys).  Frame condition: the set of targets is
     unchanged; a target whose key is absent from the JSON object is untouched;
     a target whose key is present holds the decode of the (last) value of that
     key; keys of the JSON object that are not in the map are ignored. *)
  Lemma obj_unmarshal_ok ord o p o' :
    NoDup ord -> (forall k, In k ord <-> In k (map fst o)) ->
    obj_unmarshal decode_into ord o p = (true, o') ->
    exists base, as_object p = Some base /\
      map fst o' = map fst o /\
      (forall k, visit_ok base o k) /\
      (forall k, cell_get k o' = option_map (visited base k) (cell_get k o)) /\
      (forall k s, cell_get k o = Some s -> last_value k base = None -> cell_get k o' = Some s).
  Proof.
    intros Hnd Hord. unfold obj_unmarshal. destruct (as_object p) as [base|]; [|discriminate].
    intros H. exists base. destruct (obj_loop_ok base ord o o' Hnd H) as (Hk & Hall & Hget).
    assert (Hget2 : forall k, cell_get k o' = option_map (visited base k) (cell_get k o)).
    { intros k. rewrite Hget. destruct (mem k ord) eqn:Em; auto.
      destruct (cell_get k o) eqn:Eg; auto. exfalso.
      assert (Hin : In k (map fst o)) by (apply cell_get_in; congruence).
      apply Hord, mem_in in Hin. congruence. }
    repeat split; auto.
    - intros k. destruct (mem k ord) eqn:Em; [apply Hall, mem_in; auto|].
      unfold visit_ok. destruct (cell_get k o) eqn:Eg; auto. exfalso.
      assert (Hin : In k (map fst o)) by (apply cell_get_in; congruence).
      apply Hord, mem_in in Hin. congruence.
    - intros k s Hs Hl. rewrite Hget2, Hs. cbn. unfold visited. rewrite Hl. destruct s as [[? ?]|]; auto.
  Qed.

  (* the state after success does not depend on the order of the visit *)
  Lemma cells_ext (o1 o2 : list (bytes * slot)) :
    NoDup (map fst o1) -> map fst o1 = map fst o2 -> (forall k, cell_get k o1 = cell_get k o2) -> o1 = o2.
  Proof.
    revert o2; induction o1 as [|[k s] o1 IH]; intros [|[k2 s2] o2] Hnd Hk Hg; try discriminate; auto.
    cbn in Hk. injection Hk as <- Hk. inversion Hnd as [|? ? Hnotin Hnd']; subst.
    pose proof (Hg k) as Hgk. cbn in Hgk. rewrite beq_refl in Hgk. injection Hgk as <-.
    f_equal. apply IH; auto. intros k'. pose proof (Hg k') as Hg'. cbn in Hg'.
    destruct (beq_spec k' k) as [E|N]; auto. subst k'.
    assert (H1 : cell_get k o1 = None).
    { destruct (cell_get k o1) eqn:E; auto. exfalso. apply Hnotin, cell_get_in. congruence. }
    assert (H2 : cell_get k o2 = None).
    { destruct (cell_get k o2) eqn:E; auto. exfalso. apply Hnotin. rewrite Hk. apply cell_get_in. congruence. }
    congruence.
  Qed.

  Lemma obj_unmarshal_order_independent ord1 ord2 o p o1 o2 :
    NoDup (map fst o) ->
    NoDup ord1 -> (forall k, In k ord1 <-> In k (map fst o)) ->
    NoDup ord2 -> (forall k, In k ord2 <-> In k (map fst o)) ->
    obj_unmarshal decode_into ord1 o p = (true, o1) ->
    obj_unmarshal decode_into ord2 o p = (true, o2) -> o1 = o2.
  Proof.
    intros Hnd Hn1 Ho1 Hn2 Ho2 H1 H2.
    destruct (obj_unmarshal_ok _ _ _ _ Hn1 Ho1 H1) as (b1 & Hb1 & Hk1 & _ & Hg1 & _).
    destruct (obj_unmarshal_ok _ _ _ _ Hn2 Ho2 H2) as (b2 & Hb2 & Hk2 & _ & Hg2 & _).
    assert (b1 = b2) by congruence. subst b2.
    apply cells_ext; [congruence|congruence|]. intros k. rewrite Hg1, Hg2. reflexivity.
  Qed.

  (* success iff the params are an object (or null) and every visit succeeds *)
  Lemma obj_loop_complete base ord o :
    NoDup ord -> (forall k, In k ord -> visit_ok base o k) ->
    exists o', obj_loop decode_into base ord o = (true, o').
  Proof.
    revert o; induction ord as [|k ord IH]; intros o Hnd Hall; cbn; [eauto|].
    inversion Hnd as [|? ? Hnotin Hnd']; subst.
    destruct (obj_step decode_into base k o) as [ok o1] eqn:Es.
    destruct (obj_step_spec _ _ _ _ _ Es) as (Hk & Hok & Hget).
    assert (ok = true) by (apply Hok, Hall; left; auto). subst ok.
    apply IH; auto. intros k' Hin. specialize (Hall k' (or_intror Hin)).
    unfold visit_ok in *. rewrite Hget. destruct (beq_spec k' k) as [->|N]; [contradiction|auto].
  Qed.

  Lemma obj_unmarshal_ok_iff ord o p :
    NoDup ord -> (forall k, In k ord <-> In k (map fst o)) ->
    ((exists o', obj_unmarshal decode_into ord o p = (true, o')) <->
     exists base, as_object p = Some base /\ forall k, visit_ok base o k).
  Proof.
    intros Hnd Hord. split.
    - intros [o' H]. destruct (obj_unmarshal_ok _ _ _ _ Hnd Hord H) as (base & Hb & _ & Hv & _). eauto.
    - intros (base & Hb & Hv). unfold obj_unmarshal. rewrite Hb. apply obj_loop_complete; auto.
  Qed.

  (* a failed run never adds, removes or renames a target either *)
  Lemma obj_loop_keys base ord o ok o' :
    obj_loop decode_into base ord o = (ok, o') -> map fst o' = map fst o.
  Proof.
    revert o; induction ord as [|k ord IH]; intros o H; cbn in H; [injection H as <- <-; auto|].
    destruct (obj_step decode_into base k o) as [ok1 o1] eqn:Es.
    destruct (obj_step_spec _ _ _ _ _ Es) as (Hk & _).
    destruct ok1; [rewrite (IH _ H); auto|injection H as <- <-; auto].
  Qed.
  Lemma obj_unmarshal_keys ord o p ok o' :
    obj_unmarshal decode_into ord o p = (ok, o') -> map fst o' = map fst o.
  Proof.
    unfold obj_unmarshal. destruct (as_object p); [apply obj_loop_keys|intros [= <- <-]; auto].
  Qed.
End ObjSpec.

Definition demo_obj : list (bytes * slot) :=
  [(bs [97], Some (TScalar KInt, Val (bs [55]) [])); (bs [98], Some (TScalar KString, Val (bs [113]) []))].
Example obj_nonvacuous :
  (* key "a" present (twice: the last value wins), "b" absent, "z" not in the map *)
  obj_unmarshal demo_into [bs [98]; bs [97]] demo_obj
      (PObject [(bs [97], bs [49]); (bs [122], bs [50]); (bs [97], bs [51])]) =
    (true, [(bs [97], Some (TScalar KInt, Val (bs [51]) [])); (bs [98], Some (TScalar KString, Val (bs [113]) []))]) /\
  obj_unmarshal demo_into [bs [97]; bs [98]] demo_obj (PArray []) = (false, demo_obj) /\
  obj_unmarshal demo_into [bs [97]; bs [98]] demo_obj PNull = (true, demo_obj) /\
  (* failure at "a": whether "b" is already written depends on the order *)
  obj_unmarshal demo_into [bs [97]; bs [98]] demo_obj (PObject [(bs [97], bs [88]); (bs [98], bs [50])]) = (false, demo_obj) /\
  obj_unmarshal demo_into [bs [98]; bs [97]] demo_obj (PObject [(bs [97], bs [88]); (bs [98], bs [50])]) =
    (false, [(bs [97], Some (TScalar KInt, Val (bs [55]) [])); (bs [98], Some (TScalar KString, Val (bs [50]) []))]) /\
  obj_failure_admissible demo_into demo_obj (PObject [(bs [97], bs [88]); (bs [98], bs [50])]) demo_obj = true /\
  obj_failure_admissible demo_into demo_obj (PObject [(bs [97], bs [88]); (bs [98], bs [50])])
    [(bs [97], Some (TScalar KInt, Val (bs [55]) [])); (bs [98], Some (TScalar KString, Val (bs [50]) []))] = true /\
  obj_failure_admissible demo_into demo_obj (PObject [(bs [97], bs [88]); (bs [98], bs [50])])
    [(bs [97], Some (TScalar KInt, Val (bs [55]) [])); (bs [98], Some (TScalar KString, Val (bs [51]) []))] = false /\
  NoDup (map fst demo_obj).
Proof.
  repeat split; try (vm_compute; reflexivity).
  repeat constructor; cbn; intuition discriminate.
Qed.
