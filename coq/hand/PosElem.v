(* PosElem: what the handler made by handler.Positional does with its params,
   element by element, given the documented behaviour of encoding/json on the
   synthetic argument struct (struct_contract / zero_contract: assumptions on the
   struct-level oracle, checked against the real library by the correspondence
   run).  Proofs only; the model is Handler.v. *)
From Coq Require Import List NArith Bool Arith Lia Sorting.Permutation.
From JV Require Import Bytes Handler HandlerProofs.
Import ListNotations.

(* ------------------------------------------------------------------------- *)
(** * Generic list helpers                                                    *)

Lemma nth_error_ext {A} (l1 l2 : list A) :
  (forall i, nth_error l1 i = nth_error l2 i) -> l1 = l2.
Proof.
  revert l2; induction l1 as [|x l1 IH]; intros [|y l2] H; auto.
  - specialize (H 0); discriminate.
  - specialize (H 0); discriminate.
  - f_equal.
    + specialize (H 0). cbn in H. congruence.
    + apply IH. intros i. apply (H (S i)).
Qed.

Lemma set_nth_length {A} i (v : A) l : length (set_nth i v l) = length l.
Proof. revert i; induction l as [|x l IH]; intros [|i]; cbn; auto. Qed.

Lemma nth_error_set_nth_same {A} i (v : A) l :
  i < length l -> nth_error (set_nth i v l) i = Some v.
Proof.
  revert i; induction l as [|x l IH]; intros [|i] H; cbn in *; try lia; auto.
  apply IH; lia.
Qed.

Lemma nth_error_set_nth_other {A} i j (v : A) l :
  i <> j -> nth_error (set_nth i v l) j = nth_error l j.
Proof.
  revert i j; induction l as [|x l IH]; intros [|i] [|j] H; cbn; auto; try congruence.
Qed.

Lemma existsb_eqb_in i l : existsb (Nat.eqb i) l = true <-> In i l.
Proof.
  rewrite existsb_exists. split.
  - intros (x & Hin & He). apply Nat.eqb_eq in He. subst; auto.
  - intros H. exists i. split; auto. apply Nat.eqb_refl.
Qed.

Lemma mem_In k l : mem k l = true <-> In k l.
Proof.
  induction l as [|y l IH]; cbn; [split; [discriminate|tauto]|].
  rewrite orb_true_iff, IH, beq_eq. split; intros [H|H]; auto.
Qed.

Lemma nodup_b_NoDup l : nodup_b l = true -> NoDup l.
Proof.
  induction l as [|x l IH]; cbn; intros H; [constructor|].
  apply andb_true_iff in H. destruct H as [Hm Hn]. constructor; auto.
  intros Hin. apply mem_In in Hin. rewrite Hin in Hm. discriminate.
Qed.

(* ------------------------------------------------------------------------- *)
(** * Names                                                                   *)

Lemma usable_names_nodup names : usable_names names = true -> NoDup names.
Proof.
  intros H. unfold usable_names in H. apply andb_true_iff in H. destruct H as [_ H].
  apply nodup_b_NoDup in H. eapply NoDup_map_inv; eauto.
Qed.

Lemma index_by_beq_nth names i k :
  NoDup names -> nth_error names i = Some k -> index_by beq k names = Some i.
Proof.
  revert i; induction names as [|n names IH]; intros i Hnd Hn.
  - destruct i; discriminate.
  - inversion Hnd as [|? ? Hnotin Hnd']; subst. destruct i as [|i]; cbn in Hn |- *.
    + injection Hn as ->. rewrite beq_refl. reflexivity.
    + destruct (beq_spec k n) as [->|Hne].
      * exfalso. apply Hnotin. eapply nth_error_In; eauto.
      * rewrite (IH i Hnd' Hn). reflexivity.
Qed.

(* the exact match is tried first, so NoDup names is enough *)
Lemma match_field_nth names i k :
  NoDup names -> nth_error names i = Some k -> match_field names k = Some i.
Proof.
  intros Hnd Hn. unfold match_field. rewrite (index_by_beq_nth names i k Hnd Hn). reflexivity.
Qed.

Lemma valid_tag_byte_ascii c : valid_tag_byte c = true -> (c <? 128)%N = true.
Proof.
  intros H. apply N.ltb_lt.
  unfold valid_tag_byte, is_upper, is_lower, is_digit, tag_punct in H. cbn [existsb] in H.
  repeat rewrite orb_true_iff in H. repeat rewrite andb_true_iff in H.
  repeat rewrite N.leb_le in H. repeat rewrite N.eqb_eq in H.
  repeat match goal with
         | Hd : _ \/ _ |- _ => destruct Hd as [Hd|Hd]
         end; try discriminate; lia.
Qed.

Lemma usable_name_ascii n : usable_name n = true -> ascii n = true.
Proof.
  intros H. unfold usable_name in H. apply andb_true_iff in H. destruct H as [_ Hv].
  unfold ascii. apply forallb_forall. intros c Hc.
  apply valid_tag_byte_ascii. eapply forallb_forall in Hv; eauto.
Qed.

Lemma usable_names_ascii names k : usable_names names = true -> In k names -> ascii k = true.
Proof.
  intros H Hin. unfold usable_names in H. apply andb_true_iff in H. destruct H as [H _].
  apply usable_name_ascii. eapply forallb_forall in H; eauto.
Qed.

(* ------------------------------------------------------------------------- *)
(** * fields_once                                                             *)

Lemma fields_once_seen names kvs seen i k (e : elt) :
  fields_once names kvs seen = true -> In i seen -> In (k, e) kvs -> match_field names k <> Some i.
Proof.
  revert seen; induction kvs as [|[k0 e0] r IH]; intros seen H Hs Hin; [destruct Hin|].
  cbn in H. destruct (match_field names k0) as [j|] eqn:Em.
  - apply andb_true_iff in H. destruct H as [H1 H2]. destruct Hin as [Heq|Hin].
    + injection Heq as -> ->. rewrite Em. intros Hj. injection Hj as ->.
      apply existsb_eqb_in in Hs. rewrite Hs in H1. discriminate.
    + apply (IH (j :: seen)); auto. right; auto.
  - destruct Hin as [Heq|Hin].
    + injection Heq as -> ->. rewrite Em. discriminate.
    + apply (IH seen); auto.
Qed.

Lemma fields_once_nodup names (kvs : list (bytes * elt)) seen :
  NoDup names -> NoDup (map fst kvs) -> (forall k, In k (map fst kvs) -> In k names) ->
  (forall k i, In k (map fst kvs) -> match_field names k = Some i -> ~ In i seen) ->
  fields_once names kvs seen = true.
Proof.
  intros Hnd. revert seen; induction kvs as [|[k e] r IH]; intros seen Hndk Hsub Hseen; [reflexivity|].
  cbn in Hndk. inversion Hndk as [|? ? Hnotin Hndk']; subst.
  assert (Hk : In k (map fst ((k, e) :: r))) by (left; reflexivity).
  destruct (In_nth_error names k (Hsub k Hk)) as [i Hi].
  pose proof (match_field_nth names i k Hnd Hi) as Hm.
  cbn [fields_once]. rewrite Hm.
  apply andb_true_iff; split.
  - apply negb_true_iff. destruct (existsb (Nat.eqb i) seen) eqn:E; [|reflexivity].
    exfalso. apply existsb_eqb_in in E. exact (Hseen k i Hk Hm E).
  - apply IH; auto.
    + intros k' Hin. apply Hsub. right; auto.
    + intros k' i' Hin Hm' [Heq|Hin'].
      * subst i'.
        destruct (In_nth_error names k' (Hsub k' (or_intror Hin))) as [j Hj].
        rewrite (match_field_nth names j k' Hnd Hj) in Hm'. injection Hm' as ->.
        rewrite Hi in Hj. injection Hj as ->. contradiction.
      * exact (Hseen k' i' (or_intror Hin) Hm' Hin').
Qed.

(* ------------------------------------------------------------------------- *)
(** * Objects made by translate                                               *)

Lemma obj_get_in k e o : obj_get k o = Some e -> In (k, e) o.
Proof.
  induction o as [|[k0 e0] o IH]; cbn; [discriminate|].
  destruct (beq_spec k k0) as [->|N]; intros H.
  - injection H as ->. auto.
  - auto.
Qed.

Lemma in_obj_get k e o : NoDup (map fst o) -> In (k, e) o -> obj_get k o = Some e.
Proof.
  induction o as [|[k0 e0] o IH]; cbn; intros Hnd Hin; [destruct Hin|].
  inversion Hnd as [|? ? Hnotin Hnd']; subst.
  destruct Hin as [Heq|Hin].
  - injection Heq as -> ->. rewrite beq_refl. reflexivity.
  - destruct (beq_spec k k0) as [->|N].
    + exfalso. apply Hnotin. apply in_map_iff. exists (k0, e); auto.
    + auto.
Qed.

Section PosElem.
  Variable decode : ty -> bool -> pvalue -> option value.   (* struct-level json oracle *)
  Variable zero : ty -> value.
  Variable decode_elt : ty -> elt -> option value.          (* element-level json oracle *)

  (* element i decoded into X_i; None if the lengths differ or an element does not decode *)
  Fixpoint decode_each (xs : list ty) (es : list elt) : option (list value) :=
    match xs, es with
    | [], [] => Some []
    | X :: xs', e :: es' =>
        match decode_elt X e, decode_each xs' es' with
        | Some v, Some vs => Some (v :: vs)
        | _, _ => None
        end
    | _, _ => None
    end.

  (* the documented behaviour of encoding/json on Positional's synthetic struct, as an
     assumption on the struct-level oracle (checked against the real library by the
     correspondence run) *)
  Definition struct_contract : Prop :=
    forall names xs p, usable_names names = true -> length names = length xs ->
      plain_params names p = true -> malformed p = false ->
      option_map fields_of (decode (pos_struct names xs) true p) = json_struct_spec decode_elt zero names xs p.
  (* malformed p = false: a Decoder reads the first value of its input only, so on
     bytes that are not ONE JSON value (`{"x":1} x`) it may succeed; such params never
     reach the struct decoder (json.Unmarshal validates before it calls the stub). *)
  (* NOTE: the premise length names = length xs is necessary: pos_struct [] [] and
     pos_struct [] [X] are the same type, so without it the contract is unsatisfiable. *)
  Definition zero_contract : Prop :=
    forall names xs, length names = length xs -> fields_of (zero (pos_struct names xs)) = map zero xs.

  (* ---- decode_each, pointwise ---- *)
  Lemma decode_each_length xs es vs :
    decode_each xs es = Some vs -> length es = length xs /\ length vs = length xs.
  Proof.
    revert es vs; induction xs as [|X xs IH]; intros [|e0 es] vs H; cbn in H; try discriminate.
    - injection H as <-. auto.
    - destruct (decode_elt X e0) as [v0|]; [|discriminate].
      destruct (decode_each xs es) as [vs0|] eqn:Er; [|discriminate].
      injection H as <-. destruct (IH es vs0 Er) as [H1 H2]. cbn. lia.
  Qed.

  Lemma decode_each_wrong_length xs es : length es <> length xs -> decode_each xs es = None.
  Proof.
    intros H. destruct (decode_each xs es) as [vs|] eqn:E; [|reflexivity].
    apply decode_each_length in E. tauto.
  Qed.

  Lemma decode_each_nth xs es vs i e :
    decode_each xs es = Some vs -> nth_error es i = Some e ->
    exists v, decode_elt (nth i xs TAny) e = Some v /\ nth_error vs i = Some v.
  Proof.
    revert es vs i; induction xs as [|X xs IH]; intros [|e0 es] vs i H Hn; cbn in H; try discriminate.
    - destruct i; discriminate.
    - destruct (decode_elt X e0) as [v0|] eqn:Ed; [|discriminate].
      destruct (decode_each xs es) as [vs0|] eqn:Er; [|discriminate].
      injection H as <-. destruct i as [|i]; cbn in Hn |- *.
      + injection Hn as <-. eauto.
      + eapply IH; eauto.
  Qed.

  Lemma decode_each_none xs es :
    length es = length xs -> decode_each xs es = None ->
    exists i e, nth_error es i = Some e /\ decode_elt (nth i xs TAny) e = None.
  Proof.
    revert es; induction xs as [|X xs IH]; intros [|e0 es] Hl H; cbn in Hl, H; try discriminate.
    destruct (decode_elt X e0) as [v0|] eqn:Ed.
    - destruct (decode_each xs es) eqn:Er; [discriminate|].
      destruct (IH es) as (i & e & Hn & Hd); [lia|auto|]. exists (S i), e. auto.
    - exists 0, e0. auto.
  Qed.

  (* ---- what `fill` means, declaratively ---- *)
  Lemma fill_unknown_key names xs kvs slots k e :
    In (k, e) kvs -> match_field names k = None -> fill decode_elt names xs kvs slots = None.
  Proof.
    revert slots; induction kvs as [|[k0 e0] r IH]; intros slots Hin Hm; [destruct Hin|].
    cbn. destruct Hin as [Heq|Hin].
    - injection Heq as -> ->. rewrite Hm. reflexivity.
    - destruct (match_field names k0) as [i|]; [|reflexivity].
      destruct (decode_elt (nth i xs TAny) e0); [|reflexivity]. apply IH; auto.
  Qed.

  Lemma fill_bad_element names xs kvs slots k e i :
    In (k, e) kvs -> match_field names k = Some i -> decode_elt (nth i xs TAny) e = None ->
    fill decode_elt names xs kvs slots = None.
  Proof.
    revert slots; induction kvs as [|[k0 e0] r IH]; intros slots Hin Hm Hd; [destruct Hin|].
    cbn. destruct Hin as [Heq|Hin].
    - injection Heq as -> ->. rewrite Hm, Hd. reflexivity.
    - destruct (match_field names k0) as [j|]; [|reflexivity].
      destruct (decode_elt (nth j xs TAny) e0); [|reflexivity]. apply IH; auto.
  Qed.

  Lemma fill_complete names xs kvs slots :
    (forall k e, In (k, e) kvs ->
       exists i v, match_field names k = Some i /\ decode_elt (nth i xs TAny) e = Some v) ->
    exists out, fill decode_elt names xs kvs slots = Some out.
  Proof.
    revert slots; induction kvs as [|[k0 e0] r IH]; intros slots H; cbn; [eauto|].
    destruct (H k0 e0 (or_introl eq_refl)) as (i & v & Hm & Hd). rewrite Hm, Hd.
    apply IH. intros k e Hin. apply H. right; auto.
  Qed.

  Lemma fill_length names xs kvs slots out :
    fill decode_elt names xs kvs slots = Some out -> length out = length slots.
  Proof.
    revert slots; induction kvs as [|[k e] r IH]; intros slots H; cbn in H.
    - injection H as <-. reflexivity.
    - destruct (match_field names k) as [i|]; [|discriminate].
      destruct (decode_elt (nth i xs TAny) e) as [v|]; [|discriminate].
      apply IH in H. rewrite H. apply set_nth_length.
  Qed.

  Lemma fill_missing names xs kvs slots out i :
    fill decode_elt names xs kvs slots = Some out ->
    (forall k e, In (k, e) kvs -> match_field names k <> Some i) ->
    nth_error out i = nth_error slots i.
  Proof.
    revert slots; induction kvs as [|[k e] r IH]; intros slots H Hno; cbn in H.
    - injection H as <-. reflexivity.
    - destruct (match_field names k) as [j|] eqn:Em; [|discriminate].
      destruct (decode_elt (nth j xs TAny) e) as [v|] eqn:Ed; [|discriminate].
      rewrite (IH _ H).
      + apply nth_error_set_nth_other. intros ->. exact (Hno k e (or_introl eq_refl) Em).
      + intros k' e' Hin. apply (Hno k' e'). right; auto.
  Qed.

  Lemma fill_present_gen names xs kvs slots out k e i seen :
    fields_once names kvs seen = true ->
    fill decode_elt names xs kvs slots = Some out ->
    In (k, e) kvs -> match_field names k = Some i -> i < length slots ->
    exists v, decode_elt (nth i xs TAny) e = Some v /\ nth_error out i = Some v.
  Proof.
    revert slots seen; induction kvs as [|[k0 e0] r IH]; intros slots seen Ho H Hin Hm Hlt; [destruct Hin|].
    cbn in Ho, H.
    destruct (match_field names k0) as [j|] eqn:Em; [|discriminate].
    destruct (decode_elt (nth j xs TAny) e0) as [v0|] eqn:Ed; [|discriminate].
    apply andb_true_iff in Ho. destruct Ho as [_ Ho].
    destruct Hin as [Heq|Hin].
    - injection Heq as -> ->. rewrite Hm in Em. injection Em as <-.
      exists v0. split; auto.
      rewrite (fill_missing _ _ _ _ _ i H).
      + apply nth_error_set_nth_same; auto.
      + intros k' e' Hin'.
        exact (fields_once_seen names r (i :: seen) i k' e' Ho (or_introl eq_refl) Hin').
    - apply (IH (set_nth j v0 slots) (j :: seen)); auto. rewrite set_nth_length; auto.
  Qed.

  Lemma fill_present names xs kvs slots out k e i :
    fields_once names kvs [] = true ->
    fill decode_elt names xs kvs slots = Some out ->
    In (k, e) kvs -> match_field names k = Some i -> i < length slots ->
    exists v, decode_elt (nth i xs TAny) e = Some v /\ nth_error out i = Some v.
  Proof. apply fill_present_gen. Qed.

  (* ---- the array form: the translated object is plain, and filling from it is
          decoding element by element ---- *)
  Lemma array_form names xs es :
    usable_names names = true -> length names = length xs -> length es = length names ->
    plain_params names (PObject (obj_of [] names es)) = true /\
    fill decode_elt names xs (obj_of [] names es) (map zero xs) = decode_each xs es.
  Proof.
    intros Hu Hl Hel.
    pose proof (usable_names_nodup _ Hu) as Hnd.
    set (o := obj_of [] names es).
    assert (Hget : forall i k e, nth_error names i = Some k -> nth_error es i = Some e -> obj_get k o = Some e).
    { intros i k e H1 H2. eapply obj_of_get; eauto. }
    assert (Hkeys : forall k, In k (map fst o) -> In k names).
    { intros k H. apply obj_of_keys in H; auto. cbn in H. tauto. }
    assert (Hsort : sorted_keys o) by (apply obj_of_sorted; constructor).
    pose proof (sorted_keys_nodup _ Hsort) as Hndk.
    assert (Honce : fields_once names o [] = true).
    { apply fields_once_nodup; auto. }
    (* every member of the object is (names_i, es_i) for some i *)
    assert (Hmem : forall k e, In (k, e) o ->
              exists i, nth_error names i = Some k /\ nth_error es i = Some e /\ match_field names k = Some i).
    { intros k e Hin.
      assert (Hk : In k names) by (apply Hkeys, in_map_iff; exists (k, e); auto).
      destruct (In_nth_error names k Hk) as [i Hi]. exists i.
      assert (Hlt : i < length es).
      { rewrite Hel. apply nth_error_Some. congruence. }
      destruct (nth_error es i) as [e'|] eqn:He; [|apply nth_error_None in He; lia].
      pose proof (Hget i k e' Hi He) as G. rewrite (in_obj_get k e o Hndk Hin) in G.
      injection G as ->. repeat split; auto. apply match_field_nth; auto. }
    split.
    - cbn [plain_params]. fold o. apply andb_true_iff; split; auto.
      apply forallb_forall. intros [k e] Hin. cbn [fst].
      apply (usable_names_ascii names); auto. apply Hkeys, in_map_iff. exists (k, e); auto.
    - destruct (decode_each xs es) as [vs|] eqn:Ede.
      + destruct (decode_each_length _ _ _ Ede) as [_ Hlv].
        destruct (fill_complete names xs o (map zero xs)) as [out Hout].
        { intros k e Hin. destruct (Hmem k e Hin) as (i & Hi & He & Hm).
          destruct (decode_each_nth _ _ _ _ _ Ede He) as (v & Hd & _). eauto. }
        rewrite Hout. f_equal. apply nth_error_ext. intros j.
        pose proof (fill_length _ _ _ _ _ Hout) as Hlo. rewrite map_length in Hlo.
        destruct (Nat.lt_ge_cases j (length xs)) as [Hj|Hj].
        * destruct (nth_error names j) as [k|] eqn:Hk; [|apply nth_error_None in Hk; lia].
          destruct (nth_error es j) as [e|] eqn:He; [|apply nth_error_None in He; lia].
          pose proof (obj_get_in _ _ _ (Hget j k e Hk He)) as Hin.
          pose proof (match_field_nth names j k Hnd Hk) as Hm.
          destruct (fill_present names xs o (map zero xs) out k e j Honce Hout Hin Hm) as (v & Hd & Hv).
          { rewrite map_length; auto. }
          destruct (decode_each_nth _ _ _ _ _ Ede He) as (v' & Hd' & Hv').
          rewrite Hv, Hv'. congruence.
        * assert (E1 : nth_error out j = None) by (apply nth_error_None; lia).
          assert (E2 : nth_error vs j = None) by (apply nth_error_None; lia).
          congruence.
      + destruct (decode_each_none xs es) as (i & e & He & Hd); [lia|auto|].
        destruct (nth_error names i) as [k|] eqn:Hk.
        2:{ apply nth_error_None in Hk. assert (i < length es) by (apply nth_error_Some; congruence). lia. }
        eapply fill_bad_element.
        * eapply obj_get_in, Hget; eauto.
        * apply match_field_nth; eauto.
        * exact Hd.
  Qed.

  (* ---- MAIN ---- *)
  Lemma positional_elementwise xs outs names fi p :
    struct_contract -> zero_contract ->
    xs <> [] -> usable_names names = true ->
    positional (FFunc (TCtx :: xs) false outs) names = Ok fi ->
    plain_params names p = true ->
    wrap decode zero fi p =
    match p with
    | PAbsent | PNull => OCall (map zero xs)
    | PArray es => match decode_each xs es with Some args => OCall args | None => OInvalidParams end
    | PObject kvs => match fill decode_elt names xs kvs (map zero xs) with
                     | Some args => OCall args | None => OInvalidParams end
    | PScalar _ | PMalformed _ => OInvalidParams
    end.
  Proof.
    intros HC HZ Hx Hu Hp Hpl.
    destruct (positional_info _ _ _ _ Hx Hp) as (Hl & _ & _ & Harr & _).
    assert (Hfi : allow_array true fi = fi).
    { unfold allow_array. rewrite <- Harr. destruct fi; reflexivity. }
    pose proof (positional_wrap decode zero xs outs names fi true p Hx Hp) as W.
    rewrite Hfi in W. cbn zeta in W. rewrite W. clear W.
    destruct p as [| |es|kvs|t|t].
    - rewrite (HZ names xs Hl). reflexivity.
    - pose proof (HC names xs PNull Hu Hl eq_refl eq_refl) as E. cbn [json_struct_spec] in E.
      destruct (decode (pos_struct names xs) true PNull) as [v|]; cbn in E; [|discriminate].
      injection E as ->. reflexivity.
    - destruct (Nat.eqb (length es) (length names)) eqn:El.
      + apply Nat.eqb_eq in El.
        destruct (array_form names xs es Hu Hl El) as [Hpl' Hf].
        pose proof (HC names xs _ Hu Hl Hpl' eq_refl) as E. cbn [json_struct_spec] in E. rewrite Hf in E.
        destruct (decode (pos_struct names xs) true (PObject (obj_of [] names es))) as [v|];
          destruct (decode_each xs es) as [vs|]; cbn in E; try discriminate; auto.
        injection E as ->. reflexivity.
      + apply Nat.eqb_neq in El. rewrite decode_each_wrong_length by lia. reflexivity.
    - pose proof (HC names xs _ Hu Hl Hpl eq_refl) as E. cbn [json_struct_spec] in E.
      destruct (decode (pos_struct names xs) true (PObject kvs)) as [v|];
        destruct (fill decode_elt names xs kvs (map zero xs)) as [vs|]; cbn in E; try discriminate; auto.
      injection E as ->. reflexivity.
    - pose proof (HC names xs (PScalar t) Hu Hl eq_refl eq_refl) as E. cbn [json_struct_spec] in E.
      destruct (decode (pos_struct names xs) true (PScalar t)) as [v|]; cbn in E; [discriminate|reflexivity].
    - reflexivity.
  Qed.
End PosElem.

(* ------------------------------------------------------------------------- *)
(** * Non-vacuity: a concrete oracle satisfying both contracts                *)

(* int: a token starting with a digit; string: a token starting with a quote *)
Definition ex_decode_elt (T : ty) (e : elt) : option value :=
  match T, e with
  | TScalar KInt, c :: _ => if is_digit c then Some (Val e []) else None
  | TScalar KString, c :: _ => if N.eqb c 34 then Some (Val e []) else None
  | _, _ => None
  end.

Fixpoint ex_zero (T : ty) : value :=
  match T with
  | TStruct fs => Val [] (map (fun f => ex_zero (snd f)) fs)
  | TScalar KInt => Val [48%N] []
  | TScalar KString => Val [34%N; 34%N] []
  | _ => Val [110; 117; 108; 108]%N []
  end.

(* the json names and the field types of a struct type, read back from its tags *)
Definition names_of (fs : list (fmeta * ty)) : list bytes :=
  map (fun f => match f_tag (fst f) with Some t => tag_name t | None => [] end) fs.
Definition tys_of (fs : list (fmeta * ty)) : list ty := map snd fs.

(* the struct-level oracle IS the documented behaviour *)
Definition ex_decode (T : ty) (strict : bool) (p : pvalue) : option value :=
  match T with
  | TStruct fs => option_map (Val []) (json_struct_spec ex_decode_elt ex_zero (names_of fs) (tys_of fs) p)
  | _ => None
  end.

Lemma valid_not_comma c : valid_tag_byte c = true -> N.eqb c comma = false.
Proof.
  intros H. destruct (N.eqb_spec c comma) as [->|N]; [vm_compute in H; discriminate|reflexivity].
Qed.

Lemma tag_name_pos_tag n : usable_name n = true -> tag_name (pos_tag n) = n.
Proof.
  intros H. unfold usable_name in H.
  apply andb_true_iff in H. destruct H as [H Hv]. apply andb_true_iff in H. destruct H as [Hnil Hdash].
  apply negb_true_iff in Hnil. apply negb_true_iff in Hdash.
  unfold pos_tag. rewrite Hnil, Hdash. cbn [orb]. clear Hnil Hdash.
  induction n as [|c n IH]; [reflexivity|].
  cbn [forallb] in Hv. apply andb_true_iff in Hv. destruct Hv as [Hc Hv].
  cbn [app tag_name]. rewrite (valid_not_comma c Hc), (IH Hv). reflexivity.
Qed.

Lemma pos_fields_read_back i names xs :
  forallb usable_name names = true -> length names = length xs ->
  names_of (pos_fields i names xs) = names /\ tys_of (pos_fields i names xs) = xs.
Proof.
  revert i xs; induction names as [|n names IH]; intros i [|x xs] Hu Hl; cbn in Hl; try discriminate.
  - split; reflexivity.
  - cbn [forallb] in Hu. apply andb_true_iff in Hu. destruct Hu as [Hn Hu].
    destruct (IH (S i) xs Hu) as [H1 H2]; [lia|].
    cbn [pos_fields names_of tys_of map fst snd f_tag].
    fold (names_of (pos_fields (S i) names xs)). fold (tys_of (pos_fields (S i) names xs)).
    rewrite H1, H2, (tag_name_pos_tag n Hn). split; reflexivity.
Qed.

Lemma ex_struct_contract : struct_contract ex_decode ex_zero ex_decode_elt.
Proof.
  intros names xs p Hu Hl _ _. unfold usable_names in Hu. apply andb_true_iff in Hu. destruct Hu as [Hu _].
  unfold pos_struct, ex_decode.
  destruct (pos_fields_read_back 0 names xs Hu Hl) as [-> ->].
  destruct (json_struct_spec ex_decode_elt ex_zero names xs p); reflexivity.
Qed.

Lemma ex_zero_contract : zero_contract ex_zero.
Proof.
  intros names xs Hl. unfold pos_struct. cbn [ex_zero fields_of].
  assert (H : forall i names xs, length names = length xs -> tys_of (pos_fields i names xs) = xs).
  { clear. intros i names; revert i; induction names as [|n names IH]; intros i [|x xs] Hl; cbn in Hl; try discriminate; auto.
    cbn. f_equal. apply IH. lia. }
  rewrite <- (H 0 names xs Hl) at 2. unfold tys_of. rewrite map_map. reflexivity.
Qed.

Definition ex_names : list bytes := [[120]; [121]]%N.                      (* "x", "y" *)
Definition ex_xs : list ty := [TScalar KInt; TScalar KString].
Definition ex_fn : fnval := FFunc (TCtx :: ex_xs) false [TScalar KString].
Definition ex_fi : finfo := match positional ex_fn ex_names with Ok fi => fi | Err _ => fi_of FNil end.

Example positional_elementwise_nonvacuous :
  struct_contract ex_decode ex_zero ex_decode_elt /\ zero_contract ex_zero /\
  usable_names ex_names = true /\
  positional ex_fn ex_names = Ok ex_fi /\
  (* [7,"a"] *)
  wrap ex_decode ex_zero ex_fi (PArray [[55]; [34; 97; 34]]%N)
    = OCall [Val [55]%N []; Val [34; 97; 34]%N []] /\
  (* {"Y":"b"}: case-variant key, x missing *)
  plain_params ex_names (PObject [([89], [34; 98; 34])]%N) = true /\
  wrap ex_decode ex_zero ex_fi (PObject [([89], [34; 98; 34])]%N)
    = OCall [Val [48]%N []; Val [34; 98; 34]%N []] /\
  (* {"x":1,"z":2}: unknown key *)
  plain_params ex_names (PObject [([120], [49]); ([122], [50])]%N) = true /\
  wrap ex_decode ex_zero ex_fi (PObject [([120], [49]); ([122], [50])]%N) = OInvalidParams /\
  (* [7]: short array *)
  wrap ex_decode ex_zero ex_fi (PArray [[55]]%N) = OInvalidParams /\
  (* ["a",7]: elements of the wrong type *)
  wrap ex_decode ex_zero ex_fi (PArray [[34; 97; 34]; [55]]%N) = OInvalidParams /\
  (* absent and null *)
  wrap ex_decode ex_zero ex_fi PAbsent = OCall [Val [48]%N []; Val [34; 34]%N []] /\
  wrap ex_decode ex_zero ex_fi PNull = OCall [Val [48]%N []; Val [34; 34]%N []] /\
  (* {"x":1,"X":2}: not plain (field addressed twice) *)
  plain_params ex_names (PObject [([120], [49]); ([88], [50])]%N) = false.
Proof.
  split; [exact ex_struct_contract|]. split; [exact ex_zero_contract|].
  vm_compute. repeat split.
Qed.

(* the main lemma instantiated at the concrete oracle: its premises are satisfiable *)
Example positional_elementwise_applies es :
  wrap ex_decode ex_zero ex_fi (PArray es) =
  match decode_each ex_decode_elt ex_xs es with Some args => OCall args | None => OInvalidParams end.
Proof.
  apply (positional_elementwise ex_decode ex_zero ex_decode_elt ex_xs [TScalar KString] ex_names ex_fi (PArray es)
           ex_struct_contract ex_zero_contract); try reflexivity. discriminate.
Qed.

Print Assumptions usable_names_nodup.
Print Assumptions match_field_nth.
Print Assumptions array_form.
Print Assumptions positional_elementwise.
Print Assumptions fill_unknown_key.
Print Assumptions fill_length.
Print Assumptions fill_missing.
Print Assumptions fill_present.
Print Assumptions positional_elementwise_nonvacuous.
Print Assumptions positional_elementwise_applies.
