(* Additions to HandlerProofs.v: the strictness in effect for DECLARED pointer
   types (the one family strict_eff_spec excludes) and the combined statements
   that props/C15.v and props/C16.v restate. *)
From Coq Require Import List NArith Bool Arith Lia Sorting.Permutation.
From JV Require Import Bytes Handler HandlerProofs.
Import ListNotations.

(* A declared pointer type (type P *S) has an empty method set, so it never
   "has a DisallowUnknownFields method"; what is in effect for it is SetStrict,
   or - when no stub is interposed - the method set of *S, which is what
   UnmarshalParams gets to see. *)
Lemma strict_eff_declared_pointer fi x :
  fi_arg fi = Some x -> named_ptr x = true ->
  has_strict_method x = false /\
  strict_eff fi x = fi_strict fi || (negb (array_eff fi) && direct_strict x).
Proof.
  intros Ha Hn.
  assert (Hs : has_strict_method x = false).
  { destruct x; try discriminate.
    match goal with u : ty |- _ => destruct u; try discriminate end.
    match goal with m : recv |- _ => destruct m; reflexivity end. }
  split; [exact Hs|].
  unfold strict_eff, strict_eff_gen, arg_wrapper, array_eff. rewrite Ha, Hs.
  destruct (negb (is_nil (fi_pos_names fi)) && fi_array fi), (fi_strict fi), (direct_strict x); reflexivity.
Qed.

Lemma strict_eff_declared_pointer_options fn fi0 s a x :
  check fn = Ok fi0 -> fi_arg fi0 = Some x -> named_ptr x = true ->
  let fi := set_strict s (allow_array a fi0) in
  has_strict_method x = false /\
  strict_eff fi x = s || (negb (array_eff fi) && direct_strict x).
Proof. intros _ Ha Hn fi. apply (strict_eff_declared_pointer fi x); auto. Qed.

Lemma check_exact_total fn :
  ((exists fi, check fn = Ok fi) <-> scheme fn) /\ (~ scheme fn -> exists e, check fn = Err e).
Proof. split; [apply check_exact|apply check_total]. Qed.

Lemma translate_spec names p :
  (forall es, p = PArray es -> NoDup names -> length es = length names ->
     exists o, translate names p = Some (PObject o) /\
       (forall i k e, nth_error names i = Some k -> nth_error es i = Some e -> obj_get k o = Some e) /\
       (forall k, In k (map fst o) <-> In k names) /\
       sorted_keys o) /\
  (forall es, p = PArray es -> length es <> length names -> translate names p = None) /\
  ((forall es, p <> PArray es) -> translate names p = Some p).
Proof.
  repeat split.
  - intros es -> Hnd Hl. apply translate_array; auto.
  - intros es -> Hl. apply translate_wrong_length; auto.
  - apply translate_non_array.
Qed.

Lemma field_names_spec arg :
  struct_field_names None = None /\
  match struct_field_names (Some arg) with
  | Some ns => exists fs, underlying (pointee arg) = TStruct fs /\ names_rel fs ns
  | None => forall fs, underlying (pointee arg) <> TStruct fs
  end.
Proof.
  split; [reflexivity|].
  destruct (struct_field_names (Some arg)) as [ns|] eqn:E.
  - apply struct_field_names_spec; auto.
  - apply struct_field_names_none; auto.
Qed.

(* which field is listed under which name: the documented rule, both directions *)
Lemma eligible_spec f :
  (forall n, field_name f = Some n <-> eligible f n) /\
  (field_name f = None <->
     f_exported f = false \/ f_tag f = Some dash \/
     (f_embedded f = true /\ (f_tag f = None \/ exists tag, f_tag f = Some tag /\ tag_name tag = []))).
Proof. split; [intros n; apply field_name_eligible|apply field_name_skipped]. Qed.

Lemma positional_arity_spec :
  (forall xs outs names, xs <> [] -> length names <> length xs ->
     positional (FFunc (TCtx :: xs) false outs) names = Err (ENameCount (length names) (length xs))) /\
  (forall v outs names, positional (FFunc [TCtx] v outs) names = check (FFunc [TCtx] v outs)) /\
  (forall fn names,
     (exists fi, positional fn names = Ok fi) <->
     exists xs outs y, fn = FFunc (TCtx :: xs) false outs /\
       (outs = [y] \/ outs = [y; TError]) /\ (xs = [] \/ length names = length xs)).
Proof.
  split; [apply positional_arity|]. split; [apply positional_context_only|apply positional_ok_iff].
Qed.

(* ------------------------------------------------------------------------- *)
(** * One handler value, many requests: every call is answered by itself      *)

(* This is the SPECIFICATION of statelessness (the model of a handler has no state
   by construction); that the implementation keeps none - no scratch value, stub or
   buffer shared between calls - is what the sequence and the concurrent families of
   the correspondence check test. *)
Section Serve.
  Variable decode : ty -> bool -> pvalue -> option value.
  Variable zero : ty -> value.

  Lemma serve_stateless fi ps1 p ps2 :
    nth_error (serve decode zero fi (ps1 ++ p :: ps2)) (length ps1) = Some (wrap decode zero fi p) /\
    length (serve decode zero fi (ps1 ++ p :: ps2)) = length (ps1 ++ p :: ps2).
  Proof.
    unfold serve. split; [|apply map_length].
    rewrite map_app. rewrite nth_error_app2 by (rewrite map_length; lia).
    rewrite map_length, Nat.sub_diag. reflexivity.
  Qed.

  Lemma serve_app fi ps1 ps2 :
    serve decode zero fi (ps1 ++ ps2) = serve decode zero fi ps1 ++ serve decode zero fi ps2.
  Proof. apply map_app. Qed.

  (* requests taken up in another order get the same answers, request by request *)
  Lemma serve_permutation fi ps ps' :
    Permutation ps ps' -> Permutation (serve decode zero fi ps) (serve decode zero fi ps').
  Proof. apply Permutation_map. Qed.

  Lemma serve_positional xs outs names fi ps1 p ps2 :
    positional (FFunc (TCtx :: xs) false outs) names = Ok fi ->
    nth_error (serve decode zero fi (ps1 ++ p :: ps2)) (length ps1) = Some (wrap decode zero fi p).
  Proof. intros _. apply serve_stateless. Qed.
End Serve.

Example serve_nonvacuous :
  serve demo_decode demo_zero (fi_of strict_fn) [demo_params; PAbsent; demo_params; PObject [(bs [97], bs [49])]] =
  [OInvalidParams; OCall [demo_zero TAny]; OInvalidParams; OCall [Val (bs [118]) []]].
Proof. vm_compute. reflexivity. Qed.
