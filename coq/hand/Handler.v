(* Handler: model of the DECISION LOGIC of the reflection adapters of package
   handler (handler.go: Check, FuncInfo.Wrap, argWrapper, arrayStub.translate,
   strictStub; positional.go: structFieldNames, Positional, makeArgType,
   makeCaller; helpers.go: Args, Obj) and of Request.UnmarshalParams / HasParams
   (base.go).

   NOT modelled: package reflect and package encoding/json.  What encoding/json
   does with given bytes and a given Go type is a Section variable (an oracle);
   the model decides WHICH decode is applied to WHICH (possibly translated)
   params value and WHEN the user function is called.  Also left out: the
   *json.RawMessage special case of UnmarshalParams (argument types
   json.RawMessage / *json.RawMessage: the raw params are copied without a
   decode); on params that are valid JSON it coincides with the plain decode.

   Definitions only; executable; extracted and run against the real code by the
   C15 / C16 correspondence checks.  Proofs are in HandlerProofs.v. *)
From Coq Require Import List NArith Bool Arith.
From JV Require Import Bytes.
Import ListNotations.

(* ------------------------------------------------------------------------- *)
(** * Go types (only as much structure as the adapters look at)                *)

(* Which receiver the DisallowUnknownFields method of a type has (declared on
   the named type or promoted from an embedded field).  The pointer type *T has
   the method in both cases; T itself only for a value receiver. *)
Inductive recv := RNone | RValue | RPointer.

Inductive scalar := KBool | KInt | KFloat | KString.

Record fmeta := {
  f_name : bytes;            (* Go field name *)
  f_tag : option bytes;      (* value of the `json` key of the struct tag (Tag.Lookup), None when absent *)
  f_exported : bool;         (* IsExported *)
  f_embedded : bool          (* Anonymous *)
}.

Inductive ty :=
| TScalar (k : scalar)
| TAny                        (* interface{} *)
| TError                      (* the interface type error *)
| TCtx                        (* the interface type context.Context *)
| TRequest                    (* the struct type jrpc2.Request; reqType is TPtr TRequest *)
| TOpaque (id : nat)          (* any other type without structure of interest (chan, func, ...) *)
| TSlice (e : ty)
| TArray (n : nat) (e : ty)
| TMap (e : ty)               (* map[string]e *)
| TPtr (e : ty)
| TStruct (fs : list (fmeta * ty))
| TNamed (m : recv) (u : ty). (* a type with underlying type u and method set described by m *)

(* reflect's Kind() looks through the name. *)
Definition underlying (t : ty) : ty := match t with TNamed _ u => u | _ => t end.
Definition is_ctx (t : ty) : bool := match t with TCtx => true | _ => false end.
Definition is_err (t : ty) : bool := match t with TError => true | _ => false end.
Definition is_any (t : ty) : bool := match t with TAny => true | _ => false end.
Definition is_req (t : ty) : bool := match t with TPtr TRequest => true | _ => false end.
Definition kind_ptr (t : ty) : bool := match underlying t with TPtr _ => true | _ => false end.
(* a declared pointer type, `type P *S` (it has Kind Ptr but is not reflect.PointerTo(S)) *)
Definition named_ptr (t : ty) : bool := match t with TNamed _ (TPtr _) => true | _ => false end.
(* Elem() of a pointer kind, the type itself otherwise: the type the params are decoded into *)
Definition pointee (t : ty) : ty := match underlying t with TPtr e => e | _ => t end.

(* method set of the type itself contains DisallowUnknownFields: Type.Implements(strictType) *)
Definition type_implements (t : ty) : bool :=
  match t with
  | TNamed RValue (TPtr _) => false           (* methods cannot be declared on pointer types *)
  | TNamed RValue _ => true
  | TPtr (TNamed RValue _) | TPtr (TNamed RPointer _) => true
  | _ => false
  end.
(* method set of reflect.PointerTo(t) *)
Definition ptr_implements (t : ty) : bool := type_implements (TPtr t).

(* `has_strict_method`: what argWrapper computes as selfStrict:
     ptr := Argument; if ptr.Kind() != Ptr { ptr = PointerTo(ptr) }; ptr.Implements(strictType) *)
Definition has_strict_method (arg : ty) : bool :=
  if kind_ptr arg then type_implements arg else ptr_implements arg.

(* What UnmarshalParams sees when no stub is interposed: v = reflect.New(pointee).Interface(),
   tested with v.(strictFielder). *)
Definition direct_strict (arg : ty) : bool := ptr_implements (pointee arg).

(* ------------------------------------------------------------------------- *)
(** * Function values and Check                                               *)

Inductive fnval :=
| FNil                                                   (* fn == nil *)
| FNotFunc (t : ty)                                      (* a value that is not a function *)
| FFunc (ins : list ty) (variadic : bool) (outs : list ty).

Inductive check_err :=
| ENilFunction | ENotFunction | EWrongNumParams | EFirstNotContext | EVariadic
| EWrongNumResults | EResultNotError
| ENameCount (got want : nat).                           (* Positional: "got %d names for %d inputs" *)

Inductive res (A : Type) := Ok (a : A) | Err (e : check_err).
Arguments Ok {A} a.
Arguments Err {A} e.

(* handler.FuncInfo.  fi_handler: the function value has exactly the type jrpc2.Handler
   (Wrap returns it unchanged).  fi_unpack: the function is Positional's makeCaller
   closure, which passes the fields of its struct argument as separate arguments. *)
Record finfo := {
  fi_arg : option ty;          (* Argument *)
  fi_result : option ty;       (* Result *)
  fi_reports_error : bool;     (* ReportsError *)
  fi_strict : bool;            (* strictFields *)
  fi_array : bool;             (* allowArray *)
  fi_pos_names : list bytes;   (* posNames *)
  fi_handler : bool;
  fi_unpack : bool
}.

Definition set_strict (b : bool) (fi : finfo) : finfo :=
  {| fi_arg := fi_arg fi; fi_result := fi_result fi; fi_reports_error := fi_reports_error fi;
     fi_strict := b; fi_array := fi_array fi; fi_pos_names := fi_pos_names fi;
     fi_handler := fi_handler fi; fi_unpack := fi_unpack fi |}.
Definition allow_array (b : bool) (fi : finfo) : finfo :=
  {| fi_arg := fi_arg fi; fi_result := fi_result fi; fi_reports_error := fi_reports_error fi;
     fi_strict := fi_strict fi; fi_array := b; fi_pos_names := fi_pos_names fi;
     fi_handler := fi_handler fi; fi_unpack := fi_unpack fi |}.

(* ---- structFieldNames ---- *)
Definition comma : N := 44%N.
Definition dash : bytes := [45%N].

(* strings.SplitN(tag, ",", 2)[0] *)
Fixpoint tag_name (tag : bytes) : bytes :=
  match tag with
  | [] => []
  | c :: r => if N.eqb c comma then [] else c :: tag_name r
  end.

Definition is_nil {A} (l : list A) : bool := match l with [] => true | _ => false end.

(* the name under which one field is eligible, if it is *)
Definition field_name (f : fmeta) : option bytes :=
  if negb (f_exported f) then None
  else
    let untagged := if f_embedded f then None else Some (f_name f) in
    match f_tag f with
    | Some tag =>
        if beq tag dash then None
        else if is_nil (tag_name tag) then untagged else Some (tag_name tag)
    | None => untagged
    end.

Fixpoint field_names (fs : list (fmeta * ty)) : list bytes :=
  match fs with
  | [] => []
  | (f, _) :: r => match field_name f with Some n => n :: field_names r | None => field_names r end
  end.

(* None: "false, nil" (no argument, or not a struct / pointer to struct) *)
Definition struct_field_names (arg : option ty) : option (list bytes) :=
  match arg with
  | None => None
  | Some a => match underlying (pointee a) with TStruct fs => Some (field_names fs) | _ => None end
  end.

(* ---- Check ---- *)
Definition is_handler_type (ins : list ty) (variadic : bool) (outs : list ty) : bool :=
  match ins, outs with
  | [c; r], [a; e] => is_ctx c && is_req r && is_any a && is_err e && negb variadic
  | _, _ => false
  end.

Definition check (fn : fnval) : res finfo :=
  match fn with
  | FNil => Err ENilFunction
  | FNotFunc _ => Err ENotFunction
  | FFunc ins variadic outs =>
      match ins with
      | [] => Err EWrongNumParams
      | _ :: _ :: _ :: _ => Err EWrongNumParams
      | c :: rest =>
          if negb (is_ctx c) then Err EFirstNotContext
          else if variadic then Err EVariadic
          else
            let arg := match rest with [a] => Some a | _ => None end in
            let names := match struct_field_names arg with Some ns => ns | None => [] end in
            let mk r rep := Ok {| fi_arg := arg; fi_result := r; fi_reports_error := rep;
                                  fi_strict := false; fi_array := true; fi_pos_names := names;
                                  fi_handler := is_handler_type ins variadic outs; fi_unpack := false |} in
            match outs with
            | [] => Err EWrongNumResults
            | _ :: _ :: _ :: _ => Err EWrongNumResults
            | [o] => if is_err o then mk None true else mk (Some o) false
            | o0 :: o1 :: _ => if negb (is_err o1) then Err EResultNotError else mk (Some o0) true
            end
      end
  end.

(* ------------------------------------------------------------------------- *)
(** * Params values                                                           *)

(* An element is an opaque token (the raw JSON text of a sub-value); the model
   only moves elements around. *)
Definition elt := bytes.

Inductive pvalue :=
| PAbsent                                 (* len(params) == 0 *)
| PNull                                   (* the literal null *)
| PArray (es : list elt)
| PObject (kvs : list (bytes * elt))      (* decoded keys, document order, duplicates possible *)
| PScalar (tok : elt)                     (* number, string, true, false *)
| PMalformed (tok : elt).                 (* bytes that are not a JSON value *)

Definition has_params (p : pvalue) : bool := match p with PAbsent => false | _ => true end.
Definition malformed (p : pvalue) : bool := match p with PMalformed _ => true | _ => false end.

(* obj[name] = elt followed by json.Marshal(obj): a Go map keeps one value per
   key (the last one assigned) and is marshalled with its keys sorted bytewise. *)
Fixpoint obj_set (k : bytes) (v : elt) (o : list (bytes * elt)) : list (bytes * elt) :=
  match o with
  | [] => [(k, v)]
  | (k', v') :: o' =>
      if beq k k' then (k, v) :: o'
      else if ble k k' then (k, v) :: o
      else (k', v') :: obj_set k v o'
  end.

Fixpoint obj_of (acc : list (bytes * elt)) (names : list bytes) (es : list elt) : list (bytes * elt) :=
  match names, es with
  | n :: names', e :: es' => obj_of (obj_set n e acc) names' es'
  | _, _ => acc
  end.

(* arrayStub.translate on data that is valid JSON.  None: the InvalidParams
   error "got %d parameters, want %d". *)
Definition translate (names : list bytes) (p : pvalue) : option pvalue :=
  match p with
  | PArray es => if Nat.eqb (length es) (length names) then Some (PObject (obj_of [] names es)) else None
  | _ => Some p
  end.

(* ------------------------------------------------------------------------- *)
(** * argWrapper                                                              *)

Inductive stubs := SNone | SStrict | SArray | SArrayStrict.

(* fix_F12 = true is the code as it is; false is the code before commit 96453fc:
     strict := fi.strictFields && fi.Argument != nil && !fi.Argument.Implements(strictType) *)
Definition arg_wrapper (fix_F12 : bool) (fi : finfo) : stubs :=
  let array := negb (is_nil (fi_pos_names fi)) && fi_array fi in
  let strict :=
    match fi_arg fi with
    | None => false
    | Some a =>
        if fix_F12 then
          let self := has_strict_method a in
          (fi_strict fi && negb self) || (array && self)
        else fi_strict fi && negb (type_implements a)
    end in
  match strict, array with
  | true, true => SArrayStrict
  | true, false => SStrict
  | false, true => SArray
  | false, false => SNone
  end.

(* ------------------------------------------------------------------------- *)
(** * Values and the encoding/json oracle                                     *)

(* A decoded Go value as far as it can be observed: its JSON re-encoding and,
   for a struct, the values of its fields in declaration order. *)
Inductive value := Val (enc : bytes) (fs : list value).
Definition fields_of (v : value) : list value := match v with Val _ fs => fs end.
Definition enc_of (v : value) : bytes := match v with Val e _ => e end.

Inductive outcome :=
| OCall (args : list value)   (* the function is called exactly once, with these arguments after the context *)
| OCallRequest                (* the function is called exactly once, with the *jrpc2.Request itself *)
| OInvalidParams              (* not called; error with code InvalidParams (decoding failed) *)
| ONoParamsAccepted.          (* not called; the InvalidParams error "no parameters accepted" *)

(* What the handler returns after calling a function that returned result y and error e. *)
Inductive hret (R E : Type) := HNil | HResult (y : R) | HError (e : E) | HBoth (y : R) (e : E).
Arguments HNil {R E}.
Arguments HResult {R E} y.
Arguments HError {R E} e.
Arguments HBoth {R E} y e.

Definition decode_out {R E : Type} (fi : finfo) (y : R) (e : option E) : hret R E :=
  if fi_handler fi then
    match e with None => HResult y | Some e' => HBoth y e' end
  else
    match fi_result fi with
    | None => match e with None => HNil | Some e' => HError e' end
    | Some _ =>
        if fi_reports_error fi
        then match e with None => HResult y | Some e' => HError e' end
        else HResult y
    end.

Section Oracle.
  (* decode T strict p: the Go value encoding/json produces from the params value p
     in a fresh variable of type T - json.Unmarshal when strict = false, a Decoder
     with DisallowUnknownFields when strict = true - or None when it reports an error. *)
  Variable decode : ty -> bool -> pvalue -> option value.
  (* the zero value of a type (what reflect.New allocates) *)
  Variable zero : ty -> value.

  (* req.UnmarshalParams(wrapArg(in)) for non-empty params; T is the type of *in.
     json.Unmarshal checks that its input is valid JSON before it calls the
     UnmarshalJSON method of a stub, so malformed params never reach a stub. *)
  Definition stub_decode (st : stubs) (names : list bytes) (direct : bool) (T : ty) (p : pvalue)
    : option value :=
    match st with
    | SNone => decode T direct p
    | SStrict => if malformed p then None else decode T true p
    | SArray =>
        if malformed p then None
        else match translate names p with Some p' => decode T false p' | None => None end
    | SArrayStrict =>
        if malformed p then None
        else match translate names p with Some p' => decode T true p' | None => None end
    end.

  (* Request.UnmarshalParams: empty params are not decoded at all. *)
  Definition unmarshal_params (st : stubs) (names : list bytes) (direct : bool) (T : ty) (p : pvalue)
    : option value :=
    match p with
    | PAbsent => Some (zero T)
    | _ => stub_decode st names direct T p
    end.

  (* FuncInfo.Wrap(): the handler applied to a request with params p. *)
  Definition wrap_gen (fix_F12 : bool) (fi : finfo) (p : pvalue) : outcome :=
    if fi_handler fi then OCallRequest
    else
      match fi_arg fi with
      | None => if has_params p then ONoParamsAccepted else OCall []
      | Some a =>
          if is_req a then OCallRequest
          else
            match unmarshal_params (arg_wrapper fix_F12 fi) (fi_pos_names fi) (direct_strict a) (pointee a) p with
            | None => OInvalidParams
            | Some v => OCall (if fi_unpack fi then fields_of v else [v])
            end
      end.

  Definition wrap := wrap_gen true.

  (* A wrapped handler keeps NO state between calls: one handler value used for a
     list of requests (one after the other, or at the same time - then the list is
     any order in which they are taken up) answers every request by itself. *)
  Definition serve (fi : finfo) (ps : list pvalue) : list outcome := map (wrap fi) ps.

  (* The quantities the C15 statement speaks about. *)
  Definition array_eff (fi : finfo) : bool := negb (is_nil (fi_pos_names fi)) && fi_array fi.
  Definition strict_eff_gen (fix_F12 : bool) (fi : finfo) (a : ty) : bool :=
    match arg_wrapper fix_F12 fi with
    | SNone => direct_strict a
    | SStrict | SArrayStrict => true
    | SArray => false
    end.
  Definition strict_eff := strict_eff_gen true.
End Oracle.

(* ------------------------------------------------------------------------- *)
(** * Positional                                                              *)

Fixpoint digits_fuel (fuel n : nat) (acc : bytes) : bytes :=
  match fuel with
  | O => acc
  | S f =>
      let d := N.of_nat (Nat.modulo n 10) in
      let acc' := (48 + d)%N :: acc in
      if Nat.ltb n 10 then acc' else digits_fuel f (Nat.div n 10) acc'
  end.
Definition decimal (n : nat) : bytes := digits_fuel (S n) n [].

Definition omitempty : bytes := [44; 111; 109; 105; 116; 101; 109; 112; 116; 121]%N.  (* ",omitempty" *)
Definition p_underscore : bytes := [80; 95]%N.                                          (* "P_" *)

Definition pos_tag (name : bytes) : bytes :=
  if is_nil name || beq name dash then dash else name ++ omitempty.

(* makeArgType: field i is  P_<i+1> X_i `json:"<name_i>,omitempty"`  (or `json:"-"`) *)
Fixpoint pos_fields (i : nat) (names : list bytes) (xs : list ty) : list (fmeta * ty) :=
  match names, xs with
  | n :: names', x :: xs' =>
      ({| f_name := p_underscore ++ decimal (S i); f_tag := Some (pos_tag n);
          f_exported := true; f_embedded := false |}, x) :: pos_fields (S i) names' xs'
  | _, _ => []
  end.
Definition pos_struct (names : list bytes) (xs : list ty) : ty := TStruct (pos_fields 0 names xs).

Definition positional (fn : fnval) (names : list bytes) : res finfo :=
  match fn with
  | FNil => Err ENilFunction
  | FNotFunc _ => Err ENotFunction
  | FFunc ins variadic outs =>
      match ins with
      | [] => Err EWrongNumParams
      | c :: xs =>
          if negb (is_ctx c) then Err EFirstNotContext
          else if is_nil xs then check fn
          else if variadic then Err EVariadic
          else if negb (Nat.eqb (length names) (length xs)) then Err (ENameCount (length names) (length xs))
          else
            match check (FFunc [TCtx; pos_struct names xs] false outs) with
            | Ok fi => Ok {| fi_arg := fi_arg fi; fi_result := fi_result fi;
                             fi_reports_error := fi_reports_error fi;
                             fi_strict := true; fi_array := fi_array fi; fi_pos_names := names;
                             fi_handler := fi_handler fi; fi_unpack := true |}
            | Err e => Err e
            end
      end
  end.

(* Name lists for which the array form and the object form both address every
   argument: non-empty, not "-", made of characters encoding/json accepts in a
   tag name (ASCII subset: the model carries no Unicode tables), and pairwise
   different even when ASCII case is ignored. *)
Definition is_upper (c : N) : bool := (65 <=? c)%N && (c <=? 90)%N.
Definition is_lower (c : N) : bool := (97 <=? c)%N && (c <=? 122)%N.
Definition is_digit (c : N) : bool := (48 <=? c)%N && (c <=? 57)%N.
Definition tag_punct : bytes :=   (* "!#$%&()*+-./:;<=>?@[]^_{|}~ " *)
  [33; 35; 36; 37; 38; 40; 41; 42; 43; 45; 46; 47; 58; 59; 60; 61; 62; 63; 64; 91; 93; 94; 95; 123; 124; 125; 126; 32]%N.
Definition valid_tag_byte (c : N) : bool :=
  is_upper c || is_lower c || is_digit c || existsb (N.eqb c) tag_punct.
Definition lower (c : N) : N := if is_upper c then (c + 32)%N else c.
Definition fold (s : bytes) : bytes := map lower s.
Definition fold_eq (a b : bytes) : bool := beq (fold a) (fold b).

Fixpoint mem (x : bytes) (l : list bytes) : bool :=
  match l with [] => false | y :: r => beq x y || mem x r end.
Fixpoint nodup_b (l : list bytes) : bool :=
  match l with [] => true | x :: r => negb (mem x r) && nodup_b r end.

Definition usable_name (n : bytes) : bool :=
  negb (is_nil n) && negb (beq n dash) && forallb valid_tag_byte n.
Definition usable_names (names : list bytes) : bool :=
  forallb usable_name names && nodup_b (map fold names).

(* ---- the documented contract of encoding/json for the synthetic struct ----
   (used only as a HYPOTHESIS on the oracle in c16_positional_accepts_exactly (PosElem.v) and
   checked against the real library by the correspondence run)

   Decoding an object into struct{P_1 X_1 `json:"n_1,omitempty"`; ...}: each key
   is matched to the field whose name equals it, else to the first field whose
   name equals it ignoring ASCII case; with DisallowUnknownFields a key that
   matches no field is an error; the value is decoded into the field's type and
   a failure there fails the whole decode; unmentioned fields keep their zero
   value; null leaves everything zero; any other JSON value is an error. *)
Fixpoint index_by (eqb : bytes -> bytes -> bool) (k : bytes) (names : list bytes) : option nat :=
  match names with
  | [] => None
  | n :: r => if eqb k n then Some O else option_map S (index_by eqb k r)
  end.
Definition match_field (names : list bytes) (k : bytes) : option nat :=
  match index_by beq k names with
  | Some i => Some i
  | None => index_by fold_eq k names
  end.

Fixpoint set_nth {A} (i : nat) (v : A) (l : list A) : list A :=
  match l, i with
  | [], _ => []
  | _ :: r, O => v :: r
  | x :: r, S j => x :: set_nth j v r
  end.

Section Contract.
  (* decode_elt T e: the value encoding/json produces from the element e in a
     fresh variable of type T, or None - with DisallowUnknownFields, because the
     strictness of a Decoder applies at every depth (an element that is itself
     an object with an unknown field fails the whole decode) *)
  Variable decode_elt : ty -> elt -> option value.
  Variable zero : ty -> value.

  Fixpoint fill (names : list bytes) (xs : list ty) (kvs : list (bytes * elt)) (slots : list value)
    : option (list value) :=
    match kvs with
    | [] => Some slots
    | (k, e) :: r =>
        match match_field names k with
        | None => None
        | Some i =>
            match decode_elt (nth i xs TAny) e with
            | None => None
            | Some v => fill names xs r (set_nth i v slots)
            end
        end
    end.

  Definition json_struct_spec (names : list bytes) (xs : list ty) (p : pvalue) : option (list value) :=
    match p with
    | PNull => Some (map zero xs)
    | PObject kvs => fill names xs kvs (map zero xs)
    | _ => None
    end.

  (* objects on which the contract is claimed: ASCII keys (Go's case folding maps
     two non-ASCII runes, U+212A and U+017F, onto ASCII letters) and no field
     addressed twice (a second value is decoded INTO the first one, which the
     element oracle for fresh variables does not describe) *)
  Definition ascii (s : bytes) : bool := forallb (fun c => (c <? 128)%N) s.
  Fixpoint fields_once (names : list bytes) (kvs : list (bytes * elt)) (seen : list nat) : bool :=
    match kvs with
    | [] => true
    | (k, _) :: r =>
        match match_field names k with
        | None => fields_once names r seen
        | Some i => negb (existsb (Nat.eqb i) seen) && fields_once names r (i :: seen)
        end
    end.
  Definition plain_params (names : list bytes) (p : pvalue) : bool :=
    match p with
    | PObject kvs => forallb (fun kv => ascii (fst kv)) kvs && fields_once names kvs []
    | _ => true
    end.
End Contract.

(* ------------------------------------------------------------------------- *)
(** * Args and Obj                                                            *)

(* A target is nil or a pointer to a variable of some type holding some value. *)
Definition slot := option (ty * value).

Section Targets.
  (* decode_into T cur e = (ok, new): json.Unmarshal(e, &x) for x of type T currently
     holding cur; new is what x holds afterwards (on failure x may be partly written). *)
  Variable decode_into : ty -> value -> elt -> bool * value.
  (* json.Marshal of the variable a target points to; None: not marshalable *)
  Variable encode : ty -> value -> option elt.

  (* json.Unmarshal(data, &elts) for elts []json.RawMessage; null gives the nil slice *)
  Definition as_array (p : pvalue) : option (list elt) :=
    match p with PArray es => Some es | PNull => Some [] | _ => None end.
  (* json.Unmarshal(data, &base) for base map[string]json.RawMessage: the last
     duplicate of a key wins; null gives the nil map *)
  Definition as_object (p : pvalue) : option (list (bytes * elt)) :=
    match p with PObject kvs => Some kvs | PNull => Some [] | _ => None end.

  (* the loop of Args.UnmarshalJSON; it stops at the first failure, earlier
     targets stay written *)
  Fixpoint args_fill (a : list slot) (es : list elt) : bool * list slot :=
    match a, es with
    | s :: a', e :: es' =>
        match s with
        | None => let '(ok, r) := args_fill a' es' in (ok, None :: r)
        | Some (T, cur) =>
            let '(ok1, v) := decode_into T cur e in
            if ok1 then let '(ok, r) := args_fill a' es' in (ok, Some (T, v) :: r)
            else (false, Some (T, v) :: a')
        end
    | _, _ => (true, a)
    end.

  (* Args.UnmarshalJSON on valid JSON: (success, targets afterwards) *)
  Definition args_unmarshal (a : list slot) (p : pvalue) : bool * list slot :=
    match as_array p with
    | None => (false, a)
    | Some es => if Nat.eqb (length es) (length a) then args_fill a es else (false, a)
    end.

  (* req.UnmarshalParams(&handler.Args{...}) *)
  Definition args_unmarshal_params (a : list slot) (p : pvalue) : bool * list slot :=
    match p with
    | PAbsent => (true, a)
    | PMalformed _ => (false, a)
    | _ => args_unmarshal a p
    end.

  Definition null_elt : elt := [110; 117; 108; 108]%N.
  Fixpoint encode_all (a : list slot) : option (list elt) :=
    match a with
    | [] => Some []
    | s :: r =>
        match (match s with None => Some null_elt | Some (T, v) => encode T v end), encode_all r with
        | Some e, Some es => Some (e :: es)
        | _, _ => None
        end
    end.
  (* Args.MarshalJSON: `[]` for the empty (or nil) slice *)
  Definition args_marshal (a : list slot) : option pvalue := option_map PArray (encode_all a).

  (* Obj: a Go map from keys to targets (an association list without duplicate
     keys); range visits the keys in an unspecified order, `ord` *)
  Fixpoint last_value (k : bytes) (kvs : list (bytes * elt)) : option elt :=
    match kvs with
    | [] => None
    | (k', e) :: r => match last_value k r with Some e' => Some e' | None => if beq k k' then Some e else None end
    end.

  Fixpoint cell_get (k : bytes) (o : list (bytes * slot)) : option slot :=
    match o with [] => None | (k', s) :: r => if beq k k' then Some s else cell_get k r end.
  Fixpoint cell_set (k : bytes) (s : slot) (o : list (bytes * slot)) : list (bytes * slot) :=
    match o with
    | [] => []
    | (k', s') :: r => if beq k k' then (k', s) :: r else (k', s') :: cell_set k s r
    end.

  (* one iteration of the range loop: None = `continue` or success, Some false = return err *)
  Definition obj_step (base : list (bytes * elt)) (k : bytes) (o : list (bytes * slot)) : bool * list (bytes * slot) :=
    match cell_get k o, last_value k base with
    | Some s, Some e =>
        match s with
        | None => (false, o)                       (* json.Unmarshal(val, nil): InvalidUnmarshalError *)
        | Some (T, cur) => let '(ok, v) := decode_into T cur e in (ok, cell_set k (Some (T, v)) o)
        end
    | _, _ => (true, o)
    end.

  Fixpoint obj_loop (base : list (bytes * elt)) (ord : list bytes) (o : list (bytes * slot)) : bool * list (bytes * slot) :=
    match ord with
    | [] => (true, o)
    | k :: r => let '(ok, o') := obj_step base k o in if ok then obj_loop base r o' else (false, o')
    end.

  (* Obj.UnmarshalJSON on valid JSON, the map being visited in the order ord *)
  Definition obj_unmarshal (ord : list bytes) (o : list (bytes * slot)) (p : pvalue) : bool * list (bytes * slot) :=
    match as_object p with
    | None => (false, o)
    | Some base => obj_loop base ord o
    end.

  (* What one target may hold after a FAILED Obj.UnmarshalJSON, whatever the
     iteration order was: kf is the key at which the loop stopped. *)
  Definition cell_after_failure (base : list (bytes * elt)) (kf : bytes) (c c' : bytes * slot) : bool :=
    let same := match snd c, snd c' with
                | None, None => true
                | Some (_, v), Some (_, v') => beq (enc_of v) (enc_of v')
                | _, _ => false
                end in
    beq (fst c) (fst c') &&
    match snd c, last_value (fst c) base with
    | Some (T, cur), Some e =>
        let '(ok, v) := decode_into T cur e in
        let written := match snd c' with Some (_, v') => beq (enc_of v) (enc_of v') | None => false end in
        if beq (fst c) kf then negb ok && written
        else if ok then same || written else same
    | None, Some _ => same
    | _, None => same
    end.
  Fixpoint cells_after_failure (base : list (bytes * elt)) (kf : bytes) (o o' : list (bytes * slot)) : bool :=
    match o, o' with
    | [], [] => true
    | c :: r, c' :: r' => cell_after_failure base kf c c' && cells_after_failure base kf r r'
    | _, _ => false
    end.
  Definition fails_at (base : list (bytes * elt)) (o : list (bytes * slot)) (kf : bytes) : bool :=
    match cell_get kf o, last_value kf base with
    | Some None, Some _ => true
    | Some (Some (T, cur)), Some e => negb (fst (decode_into T cur e))
    | _, _ => false
    end.
  (* o' is a possible state of the targets after Obj.UnmarshalJSON reported an error *)
  Definition obj_failure_admissible (o : list (bytes * slot)) (p : pvalue) (o' : list (bytes * slot)) : bool :=
    match as_object p with
    | None => cells_after_failure [] [] o o'        (* not an object: nothing is decoded, every target as before *)
    | Some base => existsb (fun kf => fails_at base o kf && cells_after_failure base kf o o') (map fst o)
    end.
End Targets.
