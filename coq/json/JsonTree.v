(* JsonTree: the trees the parser of Json.v produces, and print-then-parse for ALL of them.
   Part 1: cutting the continuation off a lexeme: [pstr] and [pnum] read a string body / a number
           back when it is followed by nothing.
   Part 2: prefix extension with a continuation that starts with a delimiter OR white space
           (JsonPrint.PV_ext is for delimiters only).
   Part 3: [cwf d c]: the well-formed trees at depth d; the parser produces only those.
   Part 4: [ctext_PV]: the exact text of a well-formed tree is read back as that tree.
   Part 5: tree transformers ([cmap strf wsf]): a printer [cprint strf wsf] is the exact text of
           the transformed tree; compaction keeps the abstract value:
             compact p = Some q -> parse q = parse p        (JSON-equality of json.Compact / Marshal(RawMessage))
           and the compacted text is one tight value.
   Part 6: nesting depth: a value that is valid and nested at most n deep is valid d levels down
           when n + d <= 10000. *)
From Coq Require Import List NArith Bool Arith Lia.
From JV Require Import Bytes Json JsonProofs JsonPrint.
Import ListNotations.
Local Open Scope N_scope.

(* ------------------------------------------------------------------------- *)
(* Part 1: cuts *)

Lemma pstr_cut_len m : forall s b r, (length s <= m)%nat -> pstr s = Some (b, r) ->
  forall r', pstr (b ++ 34 :: r') = Some (b, r').
Proof.
  induction m as [|m IH]; intros s b r Hl H r'.
  - destruct s; [discriminate | cbn in Hl; lia].
  - destruct s as [|c s']; [discriminate|]. cbn [length] in Hl. cbn [pstr] in H.
    destruct (sclass_of c) eqn:Ec.
    + injection H as <- <-. reflexivity.
    + destruct s' as [|e r1]; [discriminate|]. cbn [length] in Hl.
      destruct (eclass_of e) eqn:Ee.
      * destruct (pstr r1) as [[b' r0]|] eqn:Ep; [|discriminate]. injection H as <- <-.
        cbn [app pstr]. rewrite Ec, Ee. rewrite (IH r1 b' r0 ltac:(lia) Ep r'). reflexivity.
      * destruct r1 as [|h1 [|h2 [|h3 [|h4 r2]]]]; try discriminate. cbn [length] in Hl.
        destruct (is_hex h1 && is_hex h2 && is_hex h3 && is_hex h4) eqn:Eh; [|discriminate].
        destruct (pstr r2) as [[b' r0]|] eqn:Ep; [|discriminate]. injection H as <- <-.
        cbn [app pstr]. rewrite Ec, Ee, Eh. rewrite (IH r2 b' r0 ltac:(lia) Ep r'). reflexivity.
      * discriminate.
    + discriminate.
    + destruct (pstr s') as [[b' r0]|] eqn:Ep; [|discriminate]. injection H as <- <-.
      cbn [app pstr]. rewrite Ec. rewrite (IH s' b' r0 ltac:(lia) Ep r'). reflexivity.
Qed.

(* the body a string lexeme has is read back whatever follows the closing quote *)
Lemma pstr_cut s b r : pstr s = Some (b, r) -> forall r', pstr (b ++ 34 :: r') = Some (b, r').
Proof. apply (pstr_cut_len (length s)). apply le_n. Qed.

Definition nondig (X : bytes) : Prop := match X with [] => True | x :: _ => is_digit x = false end.

Lemma digits_inv s : forall d r, digits s = (d, r) -> s = d ++ r /\ forallb is_digit d = true /\ nondig r.
Proof.
  induction s as [|c s IH]; intros d r H; cbn [digits] in H.
  - injection H as <- <-. repeat split.
  - destruct (is_digit c) eqn:Ed.
    + destruct (digits s) as [d' r'] eqn:E. injection H as <- <-. destruct (IH _ _ eq_refl) as (-> & A & B).
      repeat split; [cbn [forallb]; rewrite Ed, A; reflexivity | exact B].
    + injection H as <- <-. repeat split. exact Ed.
Qed.

Lemma digits_app d X : forallb is_digit d = true -> nondig X -> digits (d ++ X) = (d, X).
Proof.
  induction d as [|c d IH]; intros Hd HX.
  - cbn [app]. destruct X as [|x X']; [reflexivity|]. cbn [digits]. cbn [nondig] in HX. rewrite HX. reflexivity.
  - cbn [forallb] in Hd. apply andb_true_iff in Hd as [Hc Hd]. cbn [app digits]. rewrite Hc, (IH Hd HX). reflexivity.
Qed.

Definition is_e (c : N) : bool := (c =? 101) || (c =? 69).
Definition ehead (X : bytes) : Prop := match X with [] => True | c :: _ => is_e c = true end.
Definition fhead (X : bytes) : Prop := match X with [] => True | c :: _ => c = 46 \/ is_e c = true end.

Lemma is_e_facts c : is_e c = true -> is_digit c = false /\ (c =? 46) = false /\ (c =? 45) = false /\ (c =? 48) = false.
Proof.
  unfold is_e. intros H. apply orb_true_iff in H as [H|H]; apply N.eqb_eq in H; subst c; repeat split; reflexivity.
Qed.

Lemma ehead_nondig X : ehead X -> nondig X.
Proof. destruct X as [|c X]; [auto|]. cbn. intros H. apply (is_e_facts c H). Qed.

Lemma fhead_nondig X : fhead X -> nondig X.
Proof. destruct X as [|c X]; [auto|]. cbn. intros [->|H]; [reflexivity | apply (is_e_facts c H)]. Qed.

Lemma ehead_fhead X : ehead X -> fhead X.
Proof. destruct X as [|c X]; [auto|]. cbn. auto. Qed.

Lemma p_exp_cut s ep r : p_exp s = Some (ep, r) -> p_exp ep = Some (ep, []) /\ ehead ep.
Proof.
  unfold p_exp at 1. destruct s as [|c s']; [intros H; injection H as <- <-; split; [reflexivity | exact I]|].
  fold (is_e c). destruct (is_e c) eqn:Ec.
  - destruct (p_esign s') as [sg r1] eqn:Es. destruct (digits r1) as [d r'] eqn:Ed.
    destruct d as [|d0 d']; [discriminate|]. intros H; injection H as <- <-.
    destruct (digits_inv _ _ _ Ed) as (Hr1 & Hd & _). split; [|exact Ec].
    unfold p_exp. fold (is_e c). rewrite Ec.
    assert (Hs : p_esign (sg ++ d0 :: d') = (sg, d0 :: d')).
    { unfold p_esign in Es |- *. destruct s' as [|x s'']; [injection Es as <- <-; discriminate Hr1|].
      destruct ((x =? 43) || (x =? 45)) eqn:Ex; injection Es as <- <-.
      - cbn [app]. rewrite Ex. reflexivity.
      - cbn [app] in Hr1 |- *. injection Hr1 as -> _. rewrite Ex. reflexivity. }
    rewrite Hs. pose proof (digits_app (d0 :: d') [] Hd I) as Hg. rewrite app_nil_r in Hg. rewrite Hg. reflexivity.
  - intros H; injection H as <- <-. split; [reflexivity | exact I].
Qed.

Lemma p_frac_cut s fp r : p_frac s = Some (fp, r) -> forall X, ehead X -> p_frac (fp ++ X) = Some (fp, X) /\ fhead (fp ++ X).
Proof.
  intros H X HX.
  assert (Hnil : p_frac X = Some ([], X) /\ fhead X).
  { split; [|apply ehead_fhead; exact HX]. unfold p_frac. destruct X as [|c X']; [reflexivity|]. cbn in HX.
    rewrite (proj1 (proj2 (is_e_facts c HX))). reflexivity. }
  unfold p_frac in H. destruct s as [|c s']; [injection H as <- <-; exact Hnil|].
  destruct (c =? 46) eqn:Ec.
  - destruct (digits s') as [d r'] eqn:Ed. destruct d as [|d0 d']; [discriminate|]. injection H as <- <-.
    apply N.eqb_eq in Ec. subst c. destruct (digits_inv _ _ _ Ed) as (_ & Hd & _). split; [|left; reflexivity].
    cbn [app p_frac]. change (46 =? 46) with true. cbv iota.
    change (d0 :: d' ++ X) with ((d0 :: d') ++ X). rewrite (digits_app _ X Hd (ehead_nondig _ HX)). reflexivity.
  - injection H as <- <-. exact Hnil.
Qed.

Lemma p_int_cut s ip r : p_int s = Some (ip, r) -> forall X, fhead X ->
  p_int (ip ++ X) = Some (ip, X) /\ exists c t s', ip = c :: t /\ s = c :: s'.
Proof.
  intros H X HX. unfold p_int in H. destruct s as [|c s']; [discriminate|].
  destruct (c =? 48) eqn:E0.
  - injection H as <- <-. split; [|exists c, [], s'; split; reflexivity]. cbn [app p_int]. rewrite E0. reflexivity.
  - destruct (is_digit c) eqn:Ed; [|discriminate]. destruct (digits s') as [d r'] eqn:Eg. injection H as <- <-.
    destruct (digits_inv _ _ _ Eg) as (_ & Hd & _). split; [|exists c, d, s'; split; reflexivity].
    cbn [app p_int]. rewrite E0, Ed, (digits_app _ X Hd (fhead_nondig _ HX)). reflexivity.
Qed.

(* a number lexeme is a number literal *)
Lemma pnum_cut s n r : pnum s = Some (n, r) -> pnum n = Some (n, []).
Proof.
  unfold pnum at 1. destruct (p_sign s) as [sg s1] eqn:E1.
  destruct (p_int s1) as [[ip s2]|] eqn:E2; [|discriminate].
  destruct (p_frac s2) as [[fp s3]|] eqn:E3; [|discriminate].
  destruct (p_exp s3) as [[ep s4]|] eqn:E4; [|discriminate].
  intros H; injection H as <- <-.
  destruct (p_exp_cut _ _ _ E4) as [C4 H4].
  destruct (p_frac_cut _ _ _ E3 ep H4) as [C3 H3].
  destruct (p_int_cut _ _ _ E2 (fp ++ ep) H3) as [C2 (c & t & s1' & Hip & Hs1)].
  assert (C1 : p_sign (sg ++ ip ++ fp ++ ep) = (sg, ip ++ fp ++ ep)).
  { unfold p_sign in E1 |- *. destruct s as [|x s']; [injection E1 as <- <-; discriminate Hs1|].
    destruct (x =? 45) eqn:Ex; injection E1 as <- <-.
    - cbn [app]. rewrite Ex. reflexivity.
    - injection Hs1 as -> _. rewrite Hip. cbn [app]. rewrite Ex. reflexivity. }
  unfold pnum. rewrite C1, C2, C3, C4. reflexivity.
Qed.

Lemma pnum_num_lit s n r : pnum s = Some (n, r) -> is_num_lit n = true.
Proof. intros H. unfold is_num_lit. rewrite (pnum_cut _ _ _ H). reflexivity. Qed.

(* ------------------------------------------------------------------------- *)
(* Part 2: prefix extension, the continuation starting with a delimiter or with white space *)

Definition term (r : bytes) : Prop := match r with [] => True | x :: _ => delim x \/ is_ws x = true end.

Lemma nice_term r : nice r -> term r.
Proof. destruct r; [auto|]. cbn. auto. Qed.

Lemma term_facts x : delim x \/ is_ws x = true ->
  is_digit x = false /\ (x =? 45) = false /\ (x =? 46) = false /\
  ((x =? 43) || (x =? 45)) = false /\ ((x =? 101) || (x =? 69)) = false.
Proof.
  intros [H|H]; [destruct (delim_facts x H) as (_ & A & B & C & D & E); auto|].
  unfold is_ws in H. repeat (apply orb_true_iff in H as [H|H]); apply N.eqb_eq in H; subst x; repeat split; reflexivity.
Qed.

Lemma tk_ne s t r0 : tk s = (t, r0) -> t <> TEnd -> s <> [].
Proof. destruct s; cbn [tk]; intros H Hn; [injection H as <- _; contradiction | discriminate]. Qed.

Section ExtT.
  Variable r : bytes.
  Hypothesis Hr : term r.

  Lemma split_ws_ext_ne s : forall w r0, split_ws s = (w, r0) -> r0 <> [] -> split_ws (s ++ r) = (w, r0 ++ r).
  Proof.
    induction s as [|c s IH]; intros w r0 H Hne; cbn [split_ws] in H.
    - injection H as <- <-. contradiction.
    - cbn [app split_ws]. destruct (is_ws c).
      + destruct (split_ws s) as [w' r'] eqn:E. injection H as <- <-. rewrite (IH _ _ eq_refl Hne). reflexivity.
      + injection H as <- <-. reflexivity.
  Qed.

  Lemma digits_ext_t s : forall d r0, digits s = (d, r0) -> digits (s ++ r) = (d, r0 ++ r).
  Proof.
    induction s as [|c s IH]; intros d r0 H; cbn [digits] in H.
    - injection H as <- <-. cbn [app]. destruct r as [|x r']; [reflexivity|].
      cbn [digits]. destruct (term_facts x Hr) as (F2 & F3 & F4 & F5 & F6). rewrite F2. reflexivity.
    - cbn [app digits]. destruct (is_digit c).
      + destruct (digits s) as [d' r'] eqn:E. injection H as <- <-. rewrite (IH _ _ eq_refl). reflexivity.
      + injection H as <- <-. reflexivity.
  Qed.

  Lemma p_sign_ext_t s sg s1 : p_sign s = (sg, s1) -> p_sign (s ++ r) = (sg, s1 ++ r).
  Proof.
    unfold p_sign. destruct s as [|c s']; cbn [app].
    - intros H; injection H as <- <-. destruct r as [|x r']; [reflexivity|].
      destruct (term_facts x Hr) as (F2 & F3 & F4 & F5 & F6). rewrite F3. reflexivity.
    - destruct (c =? 45); intros H; injection H as <- <-; reflexivity.
  Qed.

  Lemma p_int_ext_t s ip s2 : p_int s = Some (ip, s2) -> p_int (s ++ r) = Some (ip, s2 ++ r).
  Proof.
    unfold p_int. destruct s as [|c s']; [discriminate|]. cbn [app].
    destruct (c =? 48); [intros H; injection H as <- <-; reflexivity|].
    destruct (is_digit c); [|discriminate].
    destruct (digits s') as [d r'] eqn:E. rewrite (digits_ext_t _ _ _ E). intros H; injection H as <- <-. reflexivity.
  Qed.

  Lemma p_frac_ext_t s fp s3 : p_frac s = Some (fp, s3) -> p_frac (s ++ r) = Some (fp, s3 ++ r).
  Proof.
    unfold p_frac. destruct s as [|c s']; cbn [app].
    - intros H; injection H as <- <-. destruct r as [|x r']; [reflexivity|].
      destruct (term_facts x Hr) as (F2 & F3 & F4 & F5 & F6). rewrite F4. reflexivity.
    - destruct (c =? 46).
      + destruct (digits s') as [d r'] eqn:E. rewrite (digits_ext_t _ _ _ E).
        destruct d; [discriminate|]. intros H; injection H as <- <-. reflexivity.
      + intros H; injection H as <- <-. reflexivity.
  Qed.

  Lemma p_esign_ext_t s sg s1 : p_esign s = (sg, s1) -> p_esign (s ++ r) = (sg, s1 ++ r).
  Proof.
    unfold p_esign. destruct s as [|c s']; cbn [app].
    - intros H; injection H as <- <-. destruct r as [|x r']; [reflexivity|].
      destruct (term_facts x Hr) as (F2 & F3 & F4 & F5 & F6). rewrite F5. reflexivity.
    - destruct ((c =? 43) || (c =? 45)); intros H; injection H as <- <-; reflexivity.
  Qed.

  Lemma p_exp_ext_t s ep s4 : p_exp s = Some (ep, s4) -> p_exp (s ++ r) = Some (ep, s4 ++ r).
  Proof.
    unfold p_exp. destruct s as [|c s']; cbn [app].
    - intros H; injection H as <- <-. destruct r as [|x r']; [reflexivity|].
      destruct (term_facts x Hr) as (F2 & F3 & F4 & F5 & F6). rewrite F6. reflexivity.
    - destruct ((c =? 101) || (c =? 69)).
      + destruct (p_esign s') as [sg r1] eqn:Es. rewrite (p_esign_ext_t _ _ _ Es).
        destruct (digits r1) as [d r'] eqn:E. rewrite (digits_ext_t _ _ _ E).
        destruct d; [discriminate|]. intros H; injection H as <- <-. reflexivity.
      + intros H; injection H as <- <-. reflexivity.
  Qed.

  Lemma pnum_ext_t s n r0 : pnum s = Some (n, r0) -> pnum (s ++ r) = Some (n, r0 ++ r).
  Proof.
    unfold pnum. destruct (p_sign s) as [sg s1] eqn:E1. rewrite (p_sign_ext_t _ _ _ E1).
    destruct (p_int s1) as [[ip s2]|] eqn:E2; [|discriminate]. rewrite (p_int_ext_t _ _ _ E2).
    destruct (p_frac s2) as [[fp s3]|] eqn:E3; [|discriminate]. rewrite (p_frac_ext_t _ _ _ E3).
    destruct (p_exp s3) as [[ep s4]|] eqn:E4; [|discriminate]. rewrite (p_exp_ext_t _ _ _ E4).
    intros H; injection H as <- <-. reflexivity.
  Qed.

  Lemma pscalar_ext_t s c r0 : pscalar s = Some (c, r0) -> pscalar (s ++ r) = Some (c, r0 ++ r).
  Proof.
    unfold pscalar. intros H.
    destruct (strip_prefix lit_true s) as [r1|] eqn:E1.
    { injection H as <- <-. rewrite (strip_prefix_ext _ _ _ r E1). reflexivity. }
    destruct (strip_prefix lit_false s) as [r2|] eqn:E2.
    { injection H as <- <-. rewrite (strip_prefix_ext _ _ _ r E2).
      apply strip_prefix_sound in E2. subst s. reflexivity. }
    destruct (strip_prefix lit_null s) as [r3|] eqn:E3.
    { injection H as <- <-. rewrite (strip_prefix_ext _ _ _ r E3).
      apply strip_prefix_sound in E3. subst s. reflexivity. }
    destruct (pnum s) as [[n r4]|] eqn:E4; [|discriminate]. injection H as <- <-.
    rewrite (pnum_ext_t _ _ _ E4).
    destruct s as [|x s']; [discriminate E4|]. pose proof (pnum_head _ _ _ _ E4) as Hx.
    cbn [app strip_prefix lit_true lit_false lit_null].
    replace (116 =? x) with false by (symmetry; apply N.eqb_neq; lia).
    replace (102 =? x) with false by (symmetry; apply N.eqb_neq; lia).
    replace (110 =? x) with false by (symmetry; apply N.eqb_neq; lia).
    reflexivity.
  Qed.

  Lemma parser_ext_t f :
    (forall d s c r0, pval f d s = Some (c, r0) -> pval f d (s ++ r) = Some (c, r0 ++ r)) /\
    (forall d w s es r0, pelems f d w s = Some (es, r0) -> pelems f d w (s ++ r) = Some (es, r0 ++ r)) /\
    (forall d w s ms r0, pmems f d w s = Some (ms, r0) -> pmems f d w (s ++ r) = Some (ms, r0 ++ r)).
  Proof.
    induction f as [|f (IHv & IHe & IHm)]; [repeat split; intros; discriminate|].
    split; [|split].
    - intros d s c r0 H. cbn [pval] in H |- *.
      destruct (tk s) as [t s0] eqn:Et. destruct t; try discriminate; rewrite (tk_ext r _ _ _ Et) by discriminate.
      + destruct (pstr s0) as [[b r']|] eqn:Ep; [|discriminate]. injection H as <- <-.
        rewrite (pstr_ext _ _ _ r Ep). reflexivity.
      + destruct (max_depth <=? d); [discriminate|].
        destruct (split_ws s0) as [w s1] eqn:Ew.
        destruct (tk s1) as [t1 s2] eqn:Et1.
        assert (Hend : t1 <> TEnd).
        { intros ->. apply tk_inv in Et1 as [-> ->]. rewrite pelems_nil in H. discriminate. }
        rewrite (split_ws_ext_ne _ _ _ Ew (tk_ne _ _ _ Et1 Hend)), (tk_ext r _ _ _ Et1 Hend).
        destruct t1; try (exfalso; apply Hend; reflexivity);
          try (destruct (pelems f (N.succ d) w s1) as [[es r3]|] eqn:Ee; [|discriminate]; injection H as <- <-;
               rewrite (IHe _ _ _ _ _ Ee); reflexivity).
        injection H as <- <-. reflexivity.
      + destruct (max_depth <=? d); [discriminate|].
        destruct (split_ws s0) as [w s1] eqn:Ew.
        destruct (tk s1) as [t1 s2] eqn:Et1.
        assert (Hend : t1 <> TEnd).
        { intros ->. apply tk_inv in Et1 as [-> ->]. rewrite pmems_nil in H. discriminate. }
        rewrite (split_ws_ext_ne _ _ _ Ew (tk_ne _ _ _ Et1 Hend)), (tk_ext r _ _ _ Et1 Hend).
        destruct t1; try (exfalso; apply Hend; reflexivity);
          try (destruct (pmems f (N.succ d) w s1) as [[ms r3]|] eqn:Ee; [|discriminate]; injection H as <- <-;
               rewrite (IHm _ _ _ _ _ Ee); reflexivity).
        injection H as <- <-. reflexivity.
      + exact (pscalar_ext_t _ _ _ H).
    - intros d w s es r0 H. cbn [pelems] in H |- *.
      destruct (pval f d s) as [[c r1]|] eqn:Ev; [|discriminate]. rewrite (IHv _ _ _ _ Ev).
      destruct (split_ws r1) as [wa r2] eqn:Ew.
      destruct (tk r2) as [t r3] eqn:Et.
      destruct t; try discriminate;
        rewrite (split_ws_ext_ne _ _ _ Ew (tk_ne _ _ _ Et ltac:(discriminate))), (tk_ext r _ _ _ Et) by discriminate.
      + injection H as <- <-. reflexivity.
      + destruct (split_ws r3) as [wb r4] eqn:Ew2.
        destruct (pelems f d wb r4) as [[es' r5]|] eqn:Ee; [|discriminate]. injection H as <- <-.
        assert (Hne : r4 <> []) by (intros ->; rewrite pelems_nil in Ee; discriminate).
        rewrite (split_ws_ext_ne _ _ _ Ew2 Hne), (IHe _ _ _ _ _ Ee). reflexivity.
    - intros d w s ms r0 H. cbn [pmems] in H |- *.
      destruct (tk s) as [t s0] eqn:Et0. destruct t; try discriminate. rewrite (tk_ext r _ _ _ Et0) by discriminate.
      destruct (pstr s0) as [[k r1]|] eqn:Ep; [|discriminate]. rewrite (pstr_ext _ _ _ r Ep).
      destruct (split_ws r1) as [wc r2] eqn:Ew1.
      destruct (tk r2) as [t r3] eqn:Et2. destruct t; try discriminate.
      rewrite (split_ws_ext_ne _ _ _ Ew1 (tk_ne _ _ _ Et2 ltac:(discriminate))), (tk_ext r _ _ _ Et2) by discriminate.
      destruct (split_ws r3) as [wv r4] eqn:Ew3.
      destruct (pval f d r4) as [[c r5]|] eqn:Ev; [|discriminate].
      assert (Hne4 : r4 <> []) by (intros ->; destruct f; discriminate Ev).
      rewrite (split_ws_ext_ne _ _ _ Ew3 Hne4), (IHv _ _ _ _ Ev).
      destruct (split_ws r5) as [wa r6] eqn:Ew5.
      destruct (tk r6) as [t r7] eqn:Et6.
      destruct t; try discriminate;
        rewrite (split_ws_ext_ne _ _ _ Ew5 (tk_ne _ _ _ Et6 ltac:(discriminate))), (tk_ext r _ _ _ Et6) by discriminate.
      + injection H as <- <-. reflexivity.
      + destruct (split_ws r7) as [wb r8] eqn:Ew7.
        destruct (pmems f d wb r8) as [[ms' r9]|] eqn:Em; [|discriminate]. injection H as <- <-.
        assert (Hne : r8 <> []) by (intros ->; rewrite pmems_nil in Em; discriminate).
        rewrite (split_ws_ext_ne _ _ _ Ew7 Hne), (IHm _ _ _ _ _ Em). reflexivity.
  Qed.

  (* prefix extension *)
  Lemma PV_ext_t d s c r0 : PV d s c r0 -> PV d (s ++ r) c (r0 ++ r).
  Proof.
    intros H. apply (pval_PV (2 * length s)). apply (proj1 (parser_ext_t _)). apply H; [lia | lia].
  Qed.
End ExtT.

(* ------------------------------------------------------------------------- *)
(* Part 3: well-formed trees *)

Definition all_ws (w : bytes) : bool := forallb is_ws w.
Definition nows (X : bytes) : Prop := match X with [] => True | x :: _ => is_ws x = false end.

Lemma split_ws_inv s : forall w r, split_ws s = (w, r) -> s = w ++ r /\ all_ws w = true /\ nows r.
Proof.
  induction s as [|c s IH]; intros w r H; cbn [split_ws] in H.
  - injection H as <- <-. repeat split.
  - destruct (is_ws c) eqn:Ec.
    + destruct (split_ws s) as [w' r'] eqn:E. injection H as <- <-. destruct (IH _ _ eq_refl) as (-> & A & B).
      repeat split; [cbn [all_ws forallb]; rewrite Ec; exact A | exact B].
    + injection H as <- <-. repeat split. exact Ec.
Qed.

Lemma split_ws_app w X : all_ws w = true -> nows X -> split_ws (w ++ X) = (w, X).
Proof.
  induction w as [|c w IH]; intros Hw HX.
  - cbn [app]. destruct X as [|x X']; [reflexivity|]. apply split_ws_nows. exact HX.
  - cbn [all_ws forallb] in Hw. apply andb_true_iff in Hw as [Hc Hw]. cbn [app split_ws]. rewrite Hc, (IH Hw HX). reflexivity.
Qed.

(* a string body: the lexer reads exactly it up to a closing quote *)
Definition body_okb (b : bytes) : bool :=
  match pstr (b ++ [34]) with Some (b', []) => beq b' b | _ => false end.

Lemma body_okb_spec b : body_okb b = true <-> pstr (b ++ [34]) = Some (b, []).
Proof.
  unfold body_okb. split.
  - destruct (pstr (b ++ [34])) as [[b' [|? ?]]|]; try discriminate. intros H. apply beq_eq in H. subst b'. reflexivity.
  - intros ->. apply beq_refl.
Qed.

Lemma body_okb_pstr b r : body_okb b = true -> pstr (b ++ 34 :: r) = Some (b, r).
Proof. intros H. apply body_okb_spec in H. exact (pstr_cut _ _ _ H r). Qed.

Lemma pstr_body_ok s b r : pstr s = Some (b, r) -> body_okb b = true.
Proof. intros H. apply body_okb_spec. exact (pstr_cut _ _ _ H []). Qed.

(* the trees the parser produces for a value that sits d containers deep *)
Fixpoint cwf (d : N) (c : cst) {struct c} : bool :=
  match c with
  | CNull | CTrue | CFalse => true
  | CNum n => is_num_lit n
  | CStr b => body_okb b
  | CArr w es =>
    (d <? max_depth) && all_ws w && (match es with [] => true | _ => beq w [] end) &&
    forallb (fun e => all_ws (fst (fst e)) && cwf (N.succ d) (snd (fst e)) && all_ws (snd e)) es
  | CObj w ms =>
    (d <? max_depth) && all_ws w && (match ms with [] => true | _ => beq w [] end) &&
    forallb (fun m => all_ws (fst (fst (fst m))) && body_okb (snd (fst (fst m))) && all_ws (snd (fst m)) &&
                      all_ws (fst (fst (snd m))) && cwf (N.succ d) (snd (fst (snd m))) && all_ws (snd (snd m))) ms
  end.

Definition elem_wf (d : N) (e : bytes * cst * bytes) : bool :=
  all_ws (fst (fst e)) && cwf d (snd (fst e)) && all_ws (snd e).
Definition mem_wf (d : N) (m : (bytes * bytes * bytes) * (bytes * cst * bytes)) : bool :=
  all_ws (fst (fst (fst m))) && body_okb (snd (fst (fst m))) && all_ws (snd (fst m)) &&
  all_ws (fst (fst (snd m))) && cwf d (snd (fst (snd m))) && all_ws (snd (snd m)).

Lemma cwf_arr d w es : cwf d (CArr w es) =
  (d <? max_depth) && all_ws w && (match es with [] => true | _ => beq w [] end) && forallb (elem_wf (N.succ d)) es.
Proof. reflexivity. Qed.
Lemma cwf_obj d w ms : cwf d (CObj w ms) =
  (d <? max_depth) && all_ws w && (match ms with [] => true | _ => beq w [] end) && forallb (mem_wf (N.succ d)) ms.
Proof. reflexivity. Qed.

Lemma pscalar_wf s c r d : pscalar s = Some (c, r) -> cwf d c = true.
Proof.
  unfold pscalar. intros H.
  destruct (strip_prefix lit_true s); [injection H as <- <-; reflexivity|].
  destruct (strip_prefix lit_false s); [injection H as <- <-; reflexivity|].
  destruct (strip_prefix lit_null s); [injection H as <- <-; reflexivity|].
  destruct (pnum s) as [[n r4]|] eqn:E4; [|discriminate]. injection H as <- <-.
  cbn [cwf]. exact (pnum_num_lit _ _ _ E4).
Qed.

Lemma parser_wf f :
  (forall d s c r, pval f d s = Some (c, r) -> cwf d c = true) /\
  (forall d w s es r, pelems f d w s = Some (es, r) -> all_ws w = true -> forallb (elem_wf d) es = true) /\
  (forall d w s ms r, pmems f d w s = Some (ms, r) -> all_ws w = true -> forallb (mem_wf d) ms = true).
Proof.
  induction f as [|f (IHv & IHe & IHm)]; [repeat split; intros; discriminate|].
  split; [|split].
  - intros d s c r H. cbn [pval] in H.
    destruct (tk s) as [t r0] eqn:Et. destruct t; try discriminate.
    + destruct (pstr r0) as [[b r']|] eqn:Ep; [|discriminate]. injection H as <- <-.
      cbn [cwf]. exact (pstr_body_ok _ _ _ Ep).
    + destruct (max_depth <=? d) eqn:Ed; [discriminate|]. apply N.leb_gt in Ed.
      assert (Hd : (d <? max_depth) = true) by (apply N.ltb_lt; exact Ed).
      destruct (split_ws r0) as [w r1] eqn:Ew. destruct (split_ws_inv _ _ _ Ew) as (_ & Hw & _).
      destruct (tk r1) as [t1 r2] eqn:Et1.
      destruct t1; try (destruct (pelems f (N.succ d) w r1) as [[es r3]|] eqn:Ee; [|discriminate];
                        injection H as <- <-; rewrite cwf_arr, Hd, (IHe _ _ _ _ _ Ee Hw); destruct es; reflexivity).
      injection H as <- <-. rewrite cwf_arr, Hd, Hw. reflexivity.
    + destruct (max_depth <=? d) eqn:Ed; [discriminate|]. apply N.leb_gt in Ed.
      assert (Hd : (d <? max_depth) = true) by (apply N.ltb_lt; exact Ed).
      destruct (split_ws r0) as [w r1] eqn:Ew. destruct (split_ws_inv _ _ _ Ew) as (_ & Hw & _).
      destruct (tk r1) as [t1 r2] eqn:Et1.
      destruct t1; try (destruct (pmems f (N.succ d) w r1) as [[ms r3]|] eqn:Ee; [|discriminate];
                        injection H as <- <-; rewrite cwf_obj, Hd, (IHm _ _ _ _ _ Ee Hw); destruct ms; reflexivity).
      injection H as <- <-. rewrite cwf_obj, Hd, Hw. reflexivity.
    + exact (pscalar_wf _ _ _ d H).
  - intros d w s es r H Hw. cbn [pelems] in H.
    destruct (pval f d s) as [[c r1]|] eqn:Ev; [|discriminate].
    destruct (split_ws r1) as [wa r2] eqn:Ewa. destruct (split_ws_inv _ _ _ Ewa) as (_ & Hwa & _).
    destruct (tk r2) as [t r3]. destruct t; try discriminate.
    + injection H as <- <-. cbn [forallb]. unfold elem_wf. cbn [fst snd]. rewrite Hw, Hwa, (IHv _ _ _ _ Ev). reflexivity.
    + destruct (split_ws r3) as [wb r4] eqn:Ewb. destruct (split_ws_inv _ _ _ Ewb) as (_ & Hwb & _).
      destruct (pelems f d wb r4) as [[es' r5]|] eqn:Ee; [|discriminate].
      injection H as <- <-. cbn [forallb]. unfold elem_wf at 1. cbn [fst snd].
      rewrite Hw, Hwa, (IHv _ _ _ _ Ev), (IHe _ _ _ _ _ Ee Hwb). reflexivity.
  - intros d w s ms r H Hw. cbn [pmems] in H.
    destruct (tk s) as [t r0]. destruct t; try discriminate.
    destruct (pstr r0) as [[k r1]|] eqn:Ep; [|discriminate].
    destruct (split_ws r1) as [wc r2] eqn:Ewc. destruct (split_ws_inv _ _ _ Ewc) as (_ & Hwc & _).
    destruct (tk r2) as [t r3]. destruct t; try discriminate.
    destruct (split_ws r3) as [wv r4] eqn:Ewv. destruct (split_ws_inv _ _ _ Ewv) as (_ & Hwv & _).
    destruct (pval f d r4) as [[c r5]|] eqn:Ev; [|discriminate].
    destruct (split_ws r5) as [wa r6] eqn:Ewa. destruct (split_ws_inv _ _ _ Ewa) as (_ & Hwa & _).
    destruct (tk r6) as [t r7]. destruct t; try discriminate.
    + injection H as <- <-. cbn [forallb]. unfold mem_wf. cbn [fst snd].
      rewrite Hw, Hwc, Hwv, Hwa, (pstr_body_ok _ _ _ Ep), (IHv _ _ _ _ Ev). reflexivity.
    + destruct (split_ws r7) as [wb r8] eqn:Ewb. destruct (split_ws_inv _ _ _ Ewb) as (_ & Hwb & _).
      destruct (pmems f d wb r8) as [[ms' r9]|] eqn:Em; [|discriminate].
      injection H as <- <-. cbn [forallb]. unfold mem_wf at 1. cbn [fst snd].
      rewrite Hw, Hwc, Hwv, Hwa, (pstr_body_ok _ _ _ Ep), (IHv _ _ _ _ Ev), (IHm _ _ _ _ _ Em Hwb). reflexivity.
Qed.

Lemma pval_wf f d s c r : pval f d s = Some (c, r) -> cwf d c = true.
Proof. exact (proj1 (parser_wf f) d s c r). Qed.

Lemma parse_doc_wf s w c w1 : parse_doc s = Some (w, c, w1) -> cwf 0 c = true.
Proof.
  unfold parse_doc, parse_prefix, value_at. destruct (split_ws s) as [w0 s1].
  destruct (pval (fuel_of s1) 0 s1) as [[c0 r0]|] eqn:E; [|discriminate].
  destruct (split_ws r0) as [w2 r1]. destruct r1; [|discriminate].
  intros H. injection H as _ <- _. exact (pval_wf _ _ _ _ _ E).
Qed.

(* ------------------------------------------------------------------------- *)
(* Part 4: the exact text of a well-formed tree is read back as that tree *)

Local Notation cp := (cprint (fun b : bytes => b) (fun w : bytes => w)).
Local Notation et := (elems_text (fun w : bytes => w) cp).
Local Notation mt := (mems_text (fun b : bytes => b) (fun w : bytes => w) cp).

Lemma PV_len d s c r : PV d s c r -> (length r < length s)%nat.
Proof. intros H. exact (proj1 (proj1 (parser_fuel _) _ _ _ _ (PV_value_at _ _ _ _ H))). Qed.

Lemma PV_head d s c r : PV d s c r -> exists x s', s = x :: s' /\ is_ws x = false /\ x <> 93.
Proof.
  intros H. pose proof (PV_value_at _ _ _ _ H) as Hv. unfold value_at in Hv.
  destruct (pval_not_ws _ _ _ _ _ Hv) as (x & s' & -> & Hx). exists x, s'. split; [reflexivity|]. split; [exact Hx|].
  intros ->. destruct (fuel_of (93 :: s')); discriminate Hv.
Qed.

Lemma PV_nows d s c r : PV d s c r -> nows s.
Proof. intros H. destruct (PV_head _ _ _ _ H) as (x & s' & -> & Hx & _). exact Hx. Qed.

Definition ek (es : list (bytes * cst * bytes)) (acc : bytes) : bytes :=
  match es with [] => 93 :: acc | _ => 44 :: et es acc end.
Definition mk (ms : list ((bytes * bytes * bytes) * (bytes * cst * bytes))) (acc : bytes) : bytes :=
  match ms with [] => 125 :: acc | _ => 44 :: mt ms acc end.

Lemma et_cons w c wa es acc : et ((w, c, wa) :: es) acc = w ++ cp c (wa ++ ek es acc).
Proof. destruct es; reflexivity. Qed.
Lemma mt_cons wk k wc wv c wa ms acc :
  mt (((wk, k, wc), (wv, c, wa)) :: ms) acc = wk ++ 34 :: k ++ 34 :: wc ++ 58 :: wv ++ cp c (wa ++ mk ms acc).
Proof. destruct ms; reflexivity. Qed.

Lemma term_ws_app wa K : all_ws wa = true -> term K -> term (wa ++ K).
Proof. destruct wa as [|x wa]; [auto|]. cbn [all_ws forallb app term]. intros H _. apply andb_true_iff in H as [H _]. right. exact H. Qed.

Lemma term_ek es acc : term (ek es acc).
Proof. destruct es; cbn; left; unfold delim; auto. Qed.
Lemma term_mk ms acc : term (mk ms acc).
Proof. destruct ms; cbn; left; unfold delim; auto. Qed.
Lemma nows_ek es acc : nows (ek es acc).
Proof. destruct es; reflexivity. Qed.
Lemma nows_mk ms acc : nows (mk ms acc).
Proof. destruct ms; reflexivity. Qed.

Definition reads (c : cst) : Prop := forall d r, cwf d c = true -> term r -> PV d (cp c r) c r.

Lemma pelems_reads d : forall es w c wa, reads c -> Forall (fun e => reads (snd (fst e))) es ->
  cwf d c = true -> all_ws wa = true -> forallb (elem_wf d) es = true ->
  forall acc g d', (2 * length (cp c (wa ++ ek es acc)) + 1 <= g)%nat -> d' <= d ->
  pelems g d' w (cp c (wa ++ ek es acc)) = Some ((w, c, wa) :: es, acc).
Proof.
  induction es as [|[[w2 c2] wa2] es IH]; intros w c wa Hc HF Hwf Hwa Hes acc g d' Hg Hd.
  - destruct g as [|g]; [lia|]. cbn [pelems].
    pose proof (Hc d (wa ++ ek [] acc) Hwf (term_ws_app _ _ Hwa (term_ek [] acc))) as Hpv.
    rewrite (Hpv g d') by lia. rewrite (split_ws_app wa _ Hwa (nows_ek [] acc)). reflexivity.
  - inversion HF as [|? ? Hc2 HF']; subst. cbn [fst snd] in Hc2.
    cbn [forallb] in Hes. apply andb_true_iff in Hes as [He2 Hes]. unfold elem_wf in He2. cbn [fst snd] in He2.
    apply andb_true_iff in He2 as [He2 Hwa2]. apply andb_true_iff in He2 as [Hw2 Hwf2].
    destruct g as [|g]; [lia|]. cbn [pelems].
    pose proof (Hc d (wa ++ ek ((w2, c2, wa2) :: es) acc) Hwf (term_ws_app _ _ Hwa (term_ek _ acc))) as Hpv.
    pose proof (PV_len _ _ _ _ Hpv) as Hlen.
    rewrite (Hpv g d') by lia. rewrite (split_ws_app wa _ Hwa (nows_ek _ acc)).
    unfold ek at 1. cbn [tk]. change (tok_of 44) with TComma. cbv iota. rewrite et_cons.
    pose proof (Hc2 d (wa2 ++ ek es acc) Hwf2 (term_ws_app _ _ Hwa2 (term_ek es acc))) as Hpv2.
    rewrite (split_ws_app w2 _ Hw2 (PV_nows _ _ _ _ Hpv2)).
    rewrite (IH w2 c2 wa2 Hc2 HF' Hwf2 Hwa2 Hes acc g d'); [reflexivity | | exact Hd].
    unfold ek at 1 in Hlen. rewrite et_cons in Hlen. rewrite !app_length in Hlen. cbn [length] in Hlen. rewrite !app_length in Hlen. lia.
Qed.

Ltac lens H := repeat (progress (cbn [length] in H; rewrite ?app_length in H)).

Lemma pmems_reads d : forall ms wk k wc wv c wa, reads c -> Forall (fun m => reads (snd (fst (snd m)))) ms ->
  all_ws wk = true -> body_okb k = true -> all_ws wc = true -> all_ws wv = true ->
  cwf d c = true -> all_ws wa = true -> forallb (mem_wf d) ms = true ->
  forall acc g d', (2 * length ((34 :: k ++ 34 :: wc ++ 58 :: wv ++ cp c (wa ++ mk ms acc))%N) + 1 <= g)%nat -> d' <= d ->
  pmems g d' wk (34 :: k ++ 34 :: wc ++ 58 :: wv ++ cp c (wa ++ mk ms acc)) = Some (((wk, k, wc), (wv, c, wa)) :: ms, acc).
Proof.
  induction ms as [|[[[wk2 k2] wc2] [[wv2 c2] wa2]] ms IH]; intros wk k wc wv c wa Hc HF Hwk Hk Hwc Hwv Hwf Hwa Hms acc g d' Hg Hd.
  - destruct g as [|g]; [lia|]. cbn [pmems tk]. change (tok_of 34) with TQuote. cbv iota.
    rewrite (body_okb_pstr k _ Hk). rewrite (split_ws_app wc (58 :: _) Hwc eq_refl).
    cbn [tk]. change (tok_of 58) with TColon. cbv iota.
    pose proof (Hc d (wa ++ mk [] acc) Hwf (term_ws_app _ _ Hwa (term_mk [] acc))) as Hpv.
    rewrite (split_ws_app wv _ Hwv (PV_nows _ _ _ _ Hpv)).
    rewrite (Hpv g d'); [|lens Hg; lia | exact Hd].
    rewrite (split_ws_app wa _ Hwa (nows_mk [] acc)). reflexivity.
  - inversion HF as [|? ? Hc2 HF']; subst. cbn [fst snd] in Hc2.
    cbn [forallb] in Hms. apply andb_true_iff in Hms as [Hm2 Hms]. unfold mem_wf in Hm2. cbn [fst snd] in Hm2.
    apply andb_true_iff in Hm2 as [Hm2 Hwa2]. apply andb_true_iff in Hm2 as [Hm2 Hwf2]. apply andb_true_iff in Hm2 as [Hm2 Hwv2].
    apply andb_true_iff in Hm2 as [Hm2 Hwc2]. apply andb_true_iff in Hm2 as [Hwk2 Hk2].
    destruct g as [|g]; [lia|]. cbn [pmems tk]. change (tok_of 34) with TQuote. cbv iota.
    rewrite (body_okb_pstr k _ Hk). rewrite (split_ws_app wc (58 :: _) Hwc eq_refl).
    cbn [tk]. change (tok_of 58) with TColon. cbv iota.
    pose proof (Hc d (wa ++ mk (((wk2, k2, wc2), (wv2, c2, wa2)) :: ms) acc) Hwf (term_ws_app _ _ Hwa (term_mk _ acc))) as Hpv.
    pose proof (PV_len _ _ _ _ Hpv) as Hlen.
    rewrite (split_ws_app wv _ Hwv (PV_nows _ _ _ _ Hpv)).
    rewrite (Hpv g d'); [|lens Hg; lia | exact Hd].
    rewrite (split_ws_app wa _ Hwa (nows_mk _ acc)).
    unfold mk at 1. cbn [tk]. change (tok_of 44) with TComma. cbv iota. rewrite mt_cons.
    rewrite (split_ws_app wk2 (34 :: _) Hwk2 eq_refl).
    rewrite (IH wk2 k2 wc2 wv2 c2 wa2 Hc2 HF' Hwk2 Hk2 Hwc2 Hwv2 Hwf2 Hwa2 Hms acc g d'); [reflexivity | | exact Hd].
    unfold mk at 1 in Hlen. rewrite mt_cons in Hlen.
    lens Hg. lens Hlen. repeat (progress (cbn [length]; rewrite ?app_length)). lia.
Qed.

Lemma lit_reads (lit : bytes) (c : cst) : lit <> [] -> (forall s, pscalar (lit ++ s) = Some (c, s)) ->
  (match lit with x :: _ => tok_of x = TOther | [] => True end) -> forall d r, PV d (lit ++ r) c r.
Proof.
  intros Hne Hs Ht d r g d' Hg _. destruct lit as [|x lit]; [contradiction|].
  destruct g as [|g]; [cbn [app length] in Hg; lia|]. cbn [app pval tk]. rewrite Ht. exact (Hs r).
Qed.

(* a number literal is the number tree of its own text, at every depth *)
Lemma num_lit_PV d i : is_num_lit i = true -> PV d i (CNum i) [].
Proof.
  unfold is_num_lit. destruct (pnum i) as [[n [|? ?]]|] eqn:E; try discriminate. intros _.
  destruct i as [|x s]; [discriminate E|]. pose proof (pnum_head _ _ _ _ E) as Hx.
  pose proof (proj1 (pnum_props _ _ _ E)) as Hn. rewrite app_nil_r in Hn.
  apply (pval_PV 1). cbn [pval tk].
  assert (Ht : tok_of x = TOther).
  { unfold tok_of. repeat match goal with |- context [?a =? ?b] => replace (a =? b) with false by (symmetry; apply N.eqb_neq; lia) end. reflexivity. }
  rewrite Ht. cbv iota. unfold pscalar. cbn [strip_prefix lit_true lit_false lit_null].
  replace (116 =? x) with false by (symmetry; apply N.eqb_neq; lia).
  replace (102 =? x) with false by (symmetry; apply N.eqb_neq; lia).
  replace (110 =? x) with false by (symmetry; apply N.eqb_neq; lia).
  rewrite E, <- Hn. reflexivity.
Qed.

Theorem ctext_reads : forall c, reads c.
Proof.
  induction c using cst_ind'; intros d r Hwf Hr.
  - apply (lit_reads lit_null CNull); [discriminate | reflexivity | reflexivity].
  - apply (lit_reads lit_true CTrue); [discriminate | reflexivity | reflexivity].
  - apply (lit_reads lit_false CFalse); [discriminate | reflexivity | reflexivity].
  - cbn [cwf] in Hwf. cbn [cprint].
    exact (PV_ext_t r Hr _ _ _ _ (num_lit_PV d n Hwf)).
  - cbn [cwf] in Hwf. cbn [cprint]. intros g d' Hg _. destruct g as [|g]; [cbn [length] in Hg; lia|].
    cbn [pval tk]. change (tok_of 34) with TQuote. cbv iota. rewrite (body_okb_pstr b r Hwf). reflexivity.
  - rewrite cwf_arr in Hwf. apply andb_true_iff in Hwf as [Hwf Hes]. apply andb_true_iff in Hwf as [Hwf Hw0].
    apply andb_true_iff in Hwf as [Hd Hw]. apply N.ltb_lt in Hd.
    intros g d' Hg Hd'. destruct g as [|g]; [cbn [cprint length] in Hg; lia|].
    cbn [cprint pval tk]. change (tok_of 91) with TLBrack. cbv iota.
    replace (max_depth <=? d') with false by (symmetry; apply N.leb_gt; lia).
    destruct es as [|[[w1 c1] wa1] es'].
    + rewrite (split_ws_app w (93 :: r) Hw eq_refl). reflexivity.
    + apply beq_eq in Hw0. subst w. rewrite et_cons.
      inversion H as [|? ? Hc1 HF']; subst. cbn [fst snd] in Hc1.
      cbn [forallb] in Hes. apply andb_true_iff in Hes as [He1 Hes]. unfold elem_wf in He1. cbn [fst snd] in He1.
      apply andb_true_iff in He1 as [He1 Hwa1]. apply andb_true_iff in He1 as [Hw1 Hwf1].
      pose proof (Hc1 (N.succ d) (wa1 ++ ek es' r) Hwf1 (term_ws_app _ _ Hwa1 (term_ek es' r))) as Hpv1.
      rewrite (split_ws_app w1 _ Hw1 (PV_nows _ _ _ _ Hpv1)).
      rewrite (pelems_reads (N.succ d) es' w1 c1 wa1 Hc1 HF' Hwf1 Hwa1 Hes r g (N.succ d')).
      * destruct (PV_head _ _ _ _ Hpv1) as (x & s' & Hx & _ & Hx93). rewrite Hx. cbn [tk].
        destruct (tok_of x) eqn:Et; try reflexivity. exfalso. apply Hx93.
        unfold tok_of in Et. destruct (x =? 34); [discriminate|]. destruct (x =? 91); [discriminate|].
        destruct (x =? 93) eqn:E; [apply N.eqb_eq in E; exact E|].
        destruct (x =? 123); [discriminate|]. destruct (x =? 125); [discriminate|]. destruct (x =? 44); [discriminate|].
        destruct (x =? 58); discriminate.
      * cbn [cprint length] in Hg. rewrite et_cons, app_length in Hg. lia.
      * lia.
  - rewrite cwf_obj in Hwf. apply andb_true_iff in Hwf as [Hwf Hms]. apply andb_true_iff in Hwf as [Hwf Hw0].
    apply andb_true_iff in Hwf as [Hd Hw]. apply N.ltb_lt in Hd.
    intros g d' Hg Hd'. destruct g as [|g]; [cbn [cprint length] in Hg; lia|].
    cbn [cprint pval tk]. change (tok_of 123) with TLBrace. cbv iota.
    replace (max_depth <=? d') with false by (symmetry; apply N.leb_gt; lia).
    destruct ms as [|[[[wk k] wc] [[wv c1] wa1]] ms'].
    + rewrite (split_ws_app w (125 :: r) Hw eq_refl). reflexivity.
    + apply beq_eq in Hw0. subst w. rewrite mt_cons.
      inversion H as [|? ? Hc1 HF']; subst. cbn [fst snd] in Hc1.
      cbn [forallb] in Hms. apply andb_true_iff in Hms as [Hm1 Hms]. unfold mem_wf in Hm1. cbn [fst snd] in Hm1.
      apply andb_true_iff in Hm1 as [Hm1 Hwa1]. apply andb_true_iff in Hm1 as [Hm1 Hwf1]. apply andb_true_iff in Hm1 as [Hm1 Hwv].
      apply andb_true_iff in Hm1 as [Hm1 Hwc]. apply andb_true_iff in Hm1 as [Hwk Hk].
      rewrite (split_ws_app wk (34 :: _) Hwk eq_refl). cbn [tk]. change (tok_of 34) with TQuote. cbv iota.
      rewrite (pmems_reads (N.succ d) ms' wk k wc wv c1 wa1 Hc1 HF' Hwk Hk Hwc Hwv Hwf1 Hwa1 Hms r g (N.succ d')); [reflexivity | | lia].
      cbn [cprint length] in Hg. rewrite mt_cons, app_length in Hg. lia.
Qed.

(* the exact text of a well-formed tree, followed by nothing, a delimiter or white space, is read
   back as that tree *)
Theorem ctext_PV d c r : cwf d c = true -> term r -> PV d (ctext c r) c r.
Proof. intros Hwf Hr. exact (ctext_reads c d r Hwf Hr). Qed.

(* truncation: a parsed value is a tight text on its own *)
Lemma pval_ctext_tight f d s c r : pval f d s = Some (c, r) -> tight_at d (ctext c []) = true.
Proof. intros H. exact (PV_tight _ _ _ (ctext_PV d c [] (pval_wf _ _ _ _ _ H) I)). Qed.

(* ------------------------------------------------------------------------- *)
(* Part 5: tree transformers; compaction *)

Section Map.
  Variables strf wsf : bytes -> bytes.

  Fixpoint cmap (c : cst) : cst :=
    match c with
    | CStr b => CStr (strf b)
    | CArr w es => CArr (wsf w) (map (fun e => (wsf (fst (fst e)), cmap (snd (fst e)), wsf (snd e))) es)
    | CObj w ms =>
      CObj (wsf w) (map (fun m => ((wsf (fst (fst (fst m))), strf (snd (fst (fst m))), wsf (snd (fst m))),
                                   (wsf (fst (fst (snd m))), cmap (snd (fst (snd m))), wsf (snd (snd m))))) ms)
    | _ => c
    end.

  Definition emap (e : bytes * cst * bytes) : bytes * cst * bytes := (wsf (fst (fst e)), cmap (snd (fst e)), wsf (snd e)).
  Definition mmap (m : (bytes * bytes * bytes) * (bytes * cst * bytes)) : (bytes * bytes * bytes) * (bytes * cst * bytes) :=
    ((wsf (fst (fst (fst m))), strf (snd (fst (fst m))), wsf (snd (fst m))),
     (wsf (fst (fst (snd m))), cmap (snd (fst (snd m))), wsf (snd (snd m)))).

  Lemma cmap_arr w es : cmap (CArr w es) = CArr (wsf w) (map emap es).
  Proof. reflexivity. Qed.
  Lemma cmap_obj w ms : cmap (CObj w ms) = CObj (wsf w) (map mmap ms).
  Proof. reflexivity. Qed.

  Lemma et_map : forall l acc,
    Forall (fun e : bytes * cst * bytes => forall acc, cprint strf wsf (snd (fst e)) acc = cp (cmap (snd (fst e))) acc) l ->
    elems_text wsf (cprint strf wsf) l acc = et (map emap l) acc.
  Proof.
    intros l acc H. induction H as [|[[w1 c1] wa1] l Hc _ IHl]; [reflexivity|].
    cbn [map elems_text emap fst snd] in *. rewrite Hc. f_equal. f_equal. f_equal.
    destruct l as [|e1 l1]; [reflexivity|]. cbn [map]. f_equal. exact IHl.
  Qed.

  Lemma mt_map : forall l acc,
    Forall (fun m : (bytes * bytes * bytes) * (bytes * cst * bytes) =>
              forall acc, cprint strf wsf (snd (fst (snd m))) acc = cp (cmap (snd (fst (snd m)))) acc) l ->
    mems_text strf wsf (cprint strf wsf) l acc = mt (map mmap l) acc.
  Proof.
    intros l acc H. induction H as [|[[[wk k] wc] [[wv c1] wa1]] l Hc _ IHl]; [reflexivity|].
    cbn [map mems_text mmap fst snd] in *. rewrite Hc. do 9 f_equal.
    destruct l as [|e1 l1]; [reflexivity|]. cbn [map]. f_equal. exact IHl.
  Qed.

  (* a printer is the exact text of the transformed tree *)
  Lemma cprint_cmap : forall c acc, cprint strf wsf c acc = ctext (cmap c) acc.
  Proof.
    unfold ctext. induction c using cst_ind'; intros acc; try reflexivity.
    - rewrite cmap_arr. cbn [cprint]. f_equal. destruct es as [|e0 es0]; [reflexivity|].
      rewrite (et_map (e0 :: es0) acc H). reflexivity.
    - rewrite cmap_obj. cbn [cprint]. f_equal. destruct ms as [|m0 ms0]; [reflexivity|].
      rewrite (mt_map (m0 :: ms0) acc H). reflexivity.
  Qed.
End Map.

Section MapWf.
  Variables strf wsf : bytes -> bytes.
  Hypothesis Hs : forall b, body_okb b = true -> body_okb (strf b) = true.
  Hypothesis Hw : forall w, all_ws w = true -> all_ws (wsf w) = true.
  Hypothesis Hnil : wsf [] = [].

  Lemma cwf_cmap : forall c d, cwf d c = true -> cwf d (cmap strf wsf c) = true.
  Proof.
    induction c using cst_ind'; intros d Hwf; try exact Hwf.
    - cbn [cmap cwf] in *. apply Hs. exact Hwf.
    - rewrite cmap_arr, cwf_arr. rewrite cwf_arr in Hwf.
      apply andb_true_iff in Hwf as [Hwf Hes]. apply andb_true_iff in Hwf as [Hwf Hw0]. apply andb_true_iff in Hwf as [Hd Hww].
      rewrite Hd, (Hw _ Hww). cbn [andb].
      assert (HF : forallb (elem_wf (N.succ d)) (map (emap strf wsf) es) = true).
      { clear Hw0. induction H as [|e l He _ IHl]; [reflexivity|]. cbn [forallb map] in *. apply andb_true_iff in Hes as [He1 Hes].
        rewrite (IHl Hes), andb_true_r. unfold elem_wf, emap in *. cbn [fst snd].
        apply andb_true_iff in He1 as [He1 Hc]. apply andb_true_iff in He1 as [Ha Hb]. rewrite (Hw _ Ha), (He _ Hb), (Hw _ Hc). reflexivity. }
      rewrite HF, andb_true_r. destruct es; [reflexivity|]. cbn [map]. apply beq_eq in Hw0. subst w. rewrite Hnil. reflexivity.
    - rewrite cmap_obj, cwf_obj. rewrite cwf_obj in Hwf.
      apply andb_true_iff in Hwf as [Hwf Hms]. apply andb_true_iff in Hwf as [Hwf Hw0]. apply andb_true_iff in Hwf as [Hd Hww].
      rewrite Hd, (Hw _ Hww). cbn [andb].
      assert (HF : forallb (mem_wf (N.succ d)) (map (mmap strf wsf) ms) = true).
      { clear Hw0. induction H as [|e l He _ IHl]; [reflexivity|]. cbn [forallb map] in *. apply andb_true_iff in Hms as [He1 Hms].
        rewrite (IHl Hms), andb_true_r. unfold mem_wf, mmap in *. cbn [fst snd].
        apply andb_true_iff in He1 as [He1 H6]. apply andb_true_iff in He1 as [He1 H5]. apply andb_true_iff in He1 as [He1 H4].
        apply andb_true_iff in He1 as [He1 H3]. apply andb_true_iff in He1 as [H1 H2].
        rewrite (Hw _ H1), (Hs _ H2), (Hw _ H3), (Hw _ H4), (He _ H5), (Hw _ H6). reflexivity. }
      rewrite HF, andb_true_r. destruct ms; [reflexivity|]. cbn [map]. apply beq_eq in Hw0. subst w. rewrite Hnil. reflexivity.
  Qed.

  Hypothesis Hu : forall b, body_okb b = true -> unquote (strf b) = unquote b.

  (* the transformed tree denotes the same value *)
  Lemma cst_json_cmap : forall c d, cwf d c = true -> cst_json (cmap strf wsf c) = cst_json c.
  Proof.
    induction c using cst_ind'; intros d Hwf; try reflexivity.
    - cbn [cmap cst_json cwf] in *. rewrite (Hu _ Hwf). reflexivity.
    - rewrite cmap_arr. rewrite cwf_arr in Hwf. apply andb_true_iff in Hwf as [_ Hes]. cbn [cst_json]. f_equal.
      induction H as [|e l He _ IHl]; [reflexivity|]. cbn [forallb map] in *. apply andb_true_iff in Hes as [He1 Hes].
      rewrite (IHl Hes). f_equal. unfold elem_wf in He1. apply andb_true_iff in He1 as [He1 _]. apply andb_true_iff in He1 as [_ Hb].
      unfold emap. cbn [fst snd]. exact (He _ Hb).
    - rewrite cmap_obj. rewrite cwf_obj in Hwf. apply andb_true_iff in Hwf as [_ Hms]. cbn [cst_json]. f_equal.
      induction H as [|e l He _ IHl]; [reflexivity|]. cbn [forallb map] in *. apply andb_true_iff in Hms as [He1 Hms].
      rewrite (IHl Hms). f_equal. unfold mem_wf in He1.
      apply andb_true_iff in He1 as [He1 _]. apply andb_true_iff in He1 as [He1 H5]. apply andb_true_iff in He1 as [He1 _].
      apply andb_true_iff in He1 as [He1 _]. apply andb_true_iff in He1 as [_ H2].
      unfold mmap. cbn [fst snd]. rewrite (Hu _ H2), (He _ H5). reflexivity.
  Qed.
End MapWf.

(* ---- html_esc keeps a string body a string body ---- *)

Definition special (c : N) : bool := (c =? 60) || (c =? 62) || (c =? 38).

Lemma html_esc_cons c r : html_esc (c :: r) =
  if special c then u00 c ++ html_esc r
  else if c =? 226 then
    match r with
    | c2 :: c3 :: r3 => if (c2 =? 128) && ((c3 =? 168) || (c3 =? 169)) then esc_202x c3 ++ html_esc r3 else c :: html_esc r
    | _ => c :: html_esc r
    end
  else c :: html_esc r.
Proof. reflexivity. Qed.

Lemma html_esc_plain c r : special c = false -> (c =? 226) = false -> html_esc (c :: r) = c :: html_esc r.
Proof. intros H1 H2. rewrite html_esc_cons, H1, H2. reflexivity. Qed.

Lemma is_hex_plain h : is_hex h = true -> special h = false /\ (h =? 226) = false.
Proof.
  intros H. assert (Hh : h <> 60 /\ h <> 62 /\ h <> 38 /\ h <> 226).
  { unfold is_hex, is_digit in H. apply orb_true_iff in H as [H|H]; [apply orb_true_iff in H as [H|H]|];
      apply andb_true_iff in H as [A B]; apply N.leb_le in A, B; repeat split; lia. }
  destruct Hh as (A & B & C & D). unfold special.
  apply N.eqb_neq in A, B, C, D. rewrite A, B, C, D. split; reflexivity.
Qed.

Lemma simple_plain e : eclass_of e = ESimple -> special e = false /\ (e =? 226) = false.
Proof.
  unfold eclass_of. destruct ((e =? 98) || (e =? 102) || (e =? 110) || (e =? 114) || (e =? 116) || (e =? 92) || (e =? 47) || (e =? 34)) eqn:E;
    [|destruct (e =? 117); discriminate].
  intros _. repeat (apply orb_true_iff in E as [E|E]); apply N.eqb_eq in E; subst e; split; reflexivity.
Qed.

Lemma sback_92 c : sclass_of c = SBack -> c = 92.
Proof.
  unfold sclass_of. destruct (c =? 34); [discriminate|]. destruct (c =? 92) eqn:E; [intros _; apply N.eqb_eq; exact E|].
  destruct (c <? 32); discriminate.
Qed.

Lemma special_lt c : special c = true -> c < 128.
Proof. unfold special. intros H. repeat (apply orb_true_iff in H as [H|H]); apply N.eqb_eq in H; lia. Qed.

Lemma html_esc_body_len m : forall s b r, (length s <= m)%nat -> pstr s = Some (b, r) ->
  forall r', pstr (html_esc b ++ 34 :: r') = Some (html_esc b, r').
Proof.
  induction m as [|m IH]; intros s b r Hl H r'.
  - destruct s; [discriminate | cbn in Hl; lia].
  - destruct s as [|c s']; [discriminate|]. cbn [length] in Hl. cbn [pstr] in H.
    destruct (sclass_of c) eqn:Ec.
    + injection H as <- <-. reflexivity.
    + apply sback_92 in Ec. subst c. destruct s' as [|e r1]; [discriminate|]. cbn [length] in Hl.
      destruct (eclass_of e) eqn:Ee.
      * destruct (pstr r1) as [[b' r0]|] eqn:Ep; [|discriminate]. injection H as <- <-.
        destruct (simple_plain e Ee) as [A B].
        rewrite (html_esc_plain 92) by reflexivity. rewrite (html_esc_plain e _ A B). cbn [app].
        rewrite (pstr_simple e _ Ee). rewrite (IH r1 b' r0 ltac:(lia) Ep r'). reflexivity.
      * destruct r1 as [|h1 [|h2 [|h3 [|h4 r2]]]]; try discriminate. cbn [length] in Hl.
        destruct (is_hex h1 && is_hex h2 && is_hex h3 && is_hex h4) eqn:Eh; [|discriminate].
        destruct (pstr r2) as [[b' r0]|] eqn:Ep; [|discriminate]. injection H as <- <-.
        assert (e = 117) as -> by (unfold eclass_of in Ee; destruct (_ || _); [discriminate|]; destruct (e =? 117) eqn:E; [apply N.eqb_eq; exact E | discriminate]).
        pose proof Eh as Eh'. apply andb_true_iff in Eh' as [Eh' H4]. apply andb_true_iff in Eh' as [Eh' H3]. apply andb_true_iff in Eh' as [H1 H2].
        destruct (is_hex_plain _ H1) as [A1 B1]. destruct (is_hex_plain _ H2) as [A2 B2].
        destruct (is_hex_plain _ H3) as [A3 B3]. destruct (is_hex_plain _ H4) as [A4 B4].
        rewrite (html_esc_plain 92) by reflexivity. rewrite (html_esc_plain 117) by reflexivity.
        rewrite (html_esc_plain h1 _ A1 B1), (html_esc_plain h2 _ A2 B2), (html_esc_plain h3 _ A3 B3), (html_esc_plain h4 _ A4 B4).
        cbn [app]. rewrite (pstr_u _ _ _ _ _ Eh). rewrite (IH r2 b' r0 ltac:(lia) Ep r'). reflexivity.
      * discriminate.
    + discriminate.
    + destruct (pstr s') as [[b' r0]|] eqn:Ep; [|discriminate]. injection H as <- <-.
      pose proof (IH s' b' r0 ltac:(lia) Ep r') as IHb.
      assert (Hgen : pstr ((c :: html_esc b') ++ 34 :: r') = Some (c :: html_esc b', r')).
      { cbn [app]. rewrite (pstr_plain c _ Ec), IHb. reflexivity. }
      rewrite html_esc_cons. destruct (special c) eqn:Es.
      * rewrite <- app_assoc. rewrite pstr_u00 by (apply special_lt in Es; lia). rewrite IHb. reflexivity.
      * destruct (c =? 226) eqn:E226; [|exact Hgen].
        destruct b' as [|c2 [|c3 r3]]; try exact Hgen.
        destruct ((c2 =? 128) && ((c3 =? 168) || (c3 =? 169))) eqn:Epat; [|exact Hgen].
        apply andb_true_iff in Epat as [E2 E3]. apply N.eqb_eq in E2. subst c2.
        assert (H3 : c3 = 168 \/ c3 = 169) by (apply orb_true_iff in E3 as [E3|E3]; apply N.eqb_eq in E3; auto).
        pose proof (proj1 (pstr_props _ _ _ Ep)) as Hs'. rewrite Hs' in Ep. cbn [app] in Ep.
        rewrite (pstr_plain 128) in Ep by reflexivity.
        rewrite (pstr_plain c3) in Ep by (destruct H3 as [-> | ->]; reflexivity).
        destruct (pstr (r3 ++ 34 :: r0)) as [[b3 r3']|] eqn:Ep3; [|discriminate]. injection Ep as <- <-.
        assert (Hl3 : (length (b3 ++ (34 :: r3')%N) <= m)%nat).
        { rewrite Hs' in Hl. cbn [app length] in Hl. lia. }
        rewrite <- app_assoc. unfold esc_202x. cbn [app]. rewrite pstr_u.
        -- rewrite (IH _ b3 r3' Hl3 Ep3 r'). reflexivity.
        -- assert (Hm : c3 mod 16 < 16) by (apply N.mod_lt; lia). rewrite (is_hex_hexdig _ Hm). reflexivity.
Qed.

Lemma html_esc_body_ok b : body_okb b = true -> body_okb (html_esc b) = true.
Proof.
  intros H. apply body_okb_spec in H. apply body_okb_spec.
  exact (html_esc_body_len (length (b ++ [34])) _ _ _ (le_n _) H []).
Qed.

Definition cpt (c : cst) : cst := cmap html_esc (fun _ => []) c.

Lemma cwf_cpt d c : cwf d c = true -> cwf d (cpt c) = true.
Proof. apply cwf_cmap; [exact html_esc_body_ok | reflexivity | reflexivity]. Qed.

(* json.Compact / json.Marshal(RawMessage): the compacted text is the exact text of the compacted
   tree, which the parser reads back; in particular it is one tight value *)
Lemma compact_inv p q : compact p = Some q ->
  exists w c w1, parse_doc p = Some (w, c, w1) /\ cwf 0 c = true /\ q = ctext (cpt c) [] /\
                 parse_doc q = Some ([], cpt c, []).
Proof.
  unfold compact. destruct (parse_doc p) as [[[w c] w1]|] eqn:E; [|discriminate]. intros H; injection H as <-.
  exists w, c, w1. pose proof (parse_doc_wf _ _ _ _ E) as Hwf. split; [reflexivity|]. split; [exact Hwf|].
  unfold ccompact_html. rewrite cprint_cmap. split; [reflexivity|].
  apply parse_doc_PV. apply ctext_PV; [apply cwf_cpt; exact Hwf | exact I].
Qed.

Theorem compact_tight p q : compact p = Some q -> tight_at 0 q = true.
Proof.
  intros H. destruct (compact_inv _ _ H) as (w & c & w1 & _ & Hwf & -> & _).
  exact (PV_tight _ _ _ (ctext_PV 0 _ [] (cwf_cpt _ _ Hwf) I)).
Qed.

Lemma tight_valid s : tight_at 0 s = true -> valid s = true.
Proof. intros H. destruct (tight_PV _ _ H) as [c Hc]. unfold valid. rewrite (parse_doc_PV _ _ Hc). reflexivity. Qed.

Theorem compact_valid p q : compact p = Some q -> valid q = true.
Proof. intros H. exact (tight_valid _ (compact_tight _ _ H)). Qed.

(* ------------------------------------------------------------------------- *)
(* Part 6: nesting depth *)

Fixpoint cdepth (c : cst) : N :=
  match c with
  | CArr _ es => N.succ (fold_right (fun e a => N.max (cdepth (snd (fst e))) a) 0 es)
  | CObj _ ms => N.succ (fold_right (fun m a => N.max (cdepth (snd (fst (snd m)))) a) 0 ms)
  | _ => 0
  end.

(* the number of nested containers of a JSON text (0 for a scalar, and for a text that is not JSON) *)
Definition nest (s : bytes) : N := match parse_doc s with Some (_, c, _) => cdepth c | None => 0 end.

Lemma cwf_shift : forall c d d', cwf d c = true -> cdepth c + d' <= max_depth -> cwf d' c = true.
Proof.
  induction c using cst_ind'; intros d d' Hwf Hd; try exact Hwf.
  - rewrite cwf_arr. rewrite cwf_arr in Hwf. cbn [cdepth] in Hd.
    apply andb_true_iff in Hwf as [Hwf Hes]. apply andb_true_iff in Hwf as [Hwf Hw0]. apply andb_true_iff in Hwf as [_ Hww].
    rewrite Hww, Hw0. replace (d' <? max_depth) with true by (symmetry; apply N.ltb_lt; lia). cbn [andb].
    clear Hw0. induction H as [|e l He _ IHl]; [reflexivity|]. cbn [forallb fold_right] in *.
    apply andb_true_iff in Hes as [He1 Hes]. rewrite IHl; [|exact Hes | lia]. rewrite andb_true_r.
    unfold elem_wf in *. apply andb_true_iff in He1 as [He1 Hc]. apply andb_true_iff in He1 as [Ha Hb].
    rewrite Ha, Hc, (He (N.succ d) (N.succ d') Hb); [reflexivity | lia].
  - rewrite cwf_obj. rewrite cwf_obj in Hwf. cbn [cdepth] in Hd.
    apply andb_true_iff in Hwf as [Hwf Hms]. apply andb_true_iff in Hwf as [Hwf Hw0]. apply andb_true_iff in Hwf as [_ Hww].
    rewrite Hww, Hw0. replace (d' <? max_depth) with true by (symmetry; apply N.ltb_lt; lia). cbn [andb].
    clear Hw0. induction H as [|e l He _ IHl]; [reflexivity|]. cbn [forallb fold_right] in *.
    apply andb_true_iff in Hms as [He1 Hms]. rewrite IHl; [|exact Hms | lia]. rewrite andb_true_r.
    unfold mem_wf in *.
    apply andb_true_iff in He1 as [He1 H6]. apply andb_true_iff in He1 as [He1 H5]. apply andb_true_iff in He1 as [He1 H4].
    apply andb_true_iff in He1 as [He1 H3]. apply andb_true_iff in He1 as [H1 H2].
    rewrite H1, H2, H3, H4, H6, (He (N.succ d) (N.succ d') H5); [reflexivity | lia].
Qed.

Lemma tight_tree s : tight_at 0 s = true -> exists c, parse_doc s = Some ([], c, []) /\ s = ctext c [] /\ cwf 0 c = true.
Proof.
  intros H. destruct (tight_PV _ _ H) as [c Hc]. exists c. split; [exact (parse_doc_PV _ _ Hc)|].
  split; [exact (PV_text _ _ _ _ Hc)|]. exact (pval_wf _ _ _ _ _ (PV_value_at _ _ _ _ Hc)).
Qed.

(* a tight value nested at most n deep is valid d containers down as long as n + d <= 10000 *)
Theorem tight_shift s d : tight_at 0 s = true -> nest s + d <= max_depth -> tight_at d s = true.
Proof.
  intros H Hn. destruct (tight_tree _ H) as (c & Hp & Hs & Hwf). unfold nest in Hn. rewrite Hp in Hn.
  rewrite Hs. exact (PV_tight _ _ _ (ctext_PV d c [] (cwf_shift c 0 d Hwf Hn) I)).
Qed.

Lemma cwf_depth_bound : forall c d, cwf d c = true -> cdepth c = 0 \/ cdepth c + d <= max_depth.
Proof.
  induction c using cst_ind'; intros d Hwf; cbn [cdepth]; try (left; reflexivity); right.
  - rewrite cwf_arr in Hwf. apply andb_true_iff in Hwf as [Hwf Hes]. apply andb_true_iff in Hwf as [Hwf _]. apply andb_true_iff in Hwf as [Hd _].
    apply N.ltb_lt in Hd.
    assert (fold_right (fun e a => N.max (cdepth (snd (fst e))) a) 0 es + N.succ d <= max_depth); [|lia].
    induction H as [|e l He _ IHl]; cbn [fold_right forallb] in *; [lia|]. apply andb_true_iff in Hes as [He1 Hes].
    unfold elem_wf in He1. apply andb_true_iff in He1 as [He1 _]. apply andb_true_iff in He1 as [_ Hb].
    specialize (He _ Hb). specialize (IHl Hes). lia.
  - rewrite cwf_obj in Hwf. apply andb_true_iff in Hwf as [Hwf Hms]. apply andb_true_iff in Hwf as [Hwf _]. apply andb_true_iff in Hwf as [Hd _].
    apply N.ltb_lt in Hd.
    assert (fold_right (fun m a => N.max (cdepth (snd (fst (snd m)))) a) 0 ms + N.succ d <= max_depth); [|lia].
    induction H as [|e l He _ IHl]; cbn [fold_right forallb] in *; [lia|]. apply andb_true_iff in Hms as [He1 Hms].
    unfold mem_wf in He1. apply andb_true_iff in He1 as [He1 _]. apply andb_true_iff in He1 as [_ H5].
    specialize (He _ H5). specialize (IHl Hms). lia.
Qed.

(* conversely, a container that is valid d containers down is nested at most 10000 - d deep *)
Theorem tight_nest s d : tight_at d s = true -> nest s = 0 \/ nest s + d <= max_depth.
Proof.
  intros H. destruct (tight_PV _ _ H) as [c Hc].
  pose proof (parse_doc_PV _ _ (PV_depth _ 0 _ _ _ Hc (N.le_0_l d))) as Hp. unfold nest. rewrite Hp.
  exact (cwf_depth_bound c d (pval_wf _ _ _ _ _ (PV_value_at _ _ _ _ Hc))).
Qed.

Example tight_shift_nonvacuous :
  tight_at 0 [91; 91; 93; 93] = true /\ nest [91; 91; 93; 93] = 2 /\ tight_at 9998 [91; 91; 93; 93] = true /\
  tight_at 9999 [91; 91; 93; 93] = false.
Proof. repeat split; vm_compute; reflexivity. Qed.

(* compaction of a value that is valid d containers down succeeds and stays valid there *)
Theorem compact_tight_at d p : tight_at d p = true -> exists q, compact p = Some q /\ tight_at d q = true.
Proof.
  intros H. destruct (tight_PV _ _ H) as [c Hc].
  pose proof (parse_doc_PV _ _ (PV_depth _ 0 _ _ _ Hc (N.le_0_l d))) as Hp.
  pose proof (pval_wf _ _ _ _ _ (PV_value_at _ _ _ _ Hc)) as Hwf.
  unfold compact. rewrite Hp. eexists. split; [reflexivity|].
  unfold ccompact_html. rewrite cprint_cmap. exact (PV_tight _ _ _ (ctext_PV d _ [] (cwf_cpt _ _ Hwf) I)).
Qed.
