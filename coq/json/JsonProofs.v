(* JsonProofs: lemmas about the JSON layer used by the wire theorems (C13, C02).
   Part 1: control bytes and UTF-8 validity of the string escaper.
   Part 2: the lexers (string bodies, numbers) produce no control bytes.
   Part 3: every tree the parser returns is "clean"; the compact printer of a clean tree has no control byte.
   Part 4: first byte of a parsed document. *)
From Coq Require Import List NArith Bool Arith Lia.
From JV Require Import Bytes Json.
Import ListNotations.
Local Open Scope N_scope.

(* ------------------------------------------------------------------------- *)
(* Part 1 *)

Definition no_ctl (s : bytes) : bool := forallb (fun c => negb (c <? 32)) s.

Lemma no_ctl_app a b : no_ctl (a ++ b) = no_ctl a && no_ctl b.
Proof. apply forallb_app. Qed.

Lemma no_ctl_cons c s : no_ctl (c :: s) = negb (c <? 32) && no_ctl s.
Proof. reflexivity. Qed.

Lemma no_ctl_app_true a b : no_ctl a = true -> no_ctl b = true -> no_ctl (a ++ b) = true.
Proof. intros Ha Hb; rewrite no_ctl_app, Ha, Hb; reflexivity. Qed.

Lemma no_ctl_firstn n s : no_ctl s = true -> no_ctl (firstn n s) = true.
Proof.
  revert s; induction n as [|n IH]; intros [|c s]; cbn [firstn]; auto.
  rewrite !no_ctl_cons. intros H; apply andb_true_iff in H as [H1 H2].
  rewrite H1, IH; auto.
Qed.

Lemma no_ctl_skipn n s : no_ctl s = true -> no_ctl (skipn n s) = true.
Proof.
  revert s; induction n as [|n IH]; intros [|c s]; cbn [skipn]; auto.
  rewrite no_ctl_cons. intros H; apply andb_true_iff in H as [H1 H2]; auto.
Qed.

(* all bytes are >= 128 *)
Definition all_high (s : bytes) : bool := forallb (fun c => 128 <=? c) s.

Lemma all_high_no_ctl s : all_high s = true -> no_ctl s = true.
Proof.
  unfold all_high, no_ctl. rewrite !forallb_forall. intros H x Hx. specialize (H x Hx).
  apply N.leb_le in H. apply negb_true_iff, N.ltb_ge. lia.
Qed.

(* the continuation bytes announced by utf8_seq_len are present and high *)
Lemma seq_len_cont c r n :
  utf8_seq_len c r = S n ->
  128 <= c /\ length (firstn n r) = n /\ all_high (firstn n r) = true /\ (1 <= n <= 3)%nat.
Proof.
  unfold utf8_seq_len, in_rng, is_cont, in_rng.
  destruct (194 <=? c) eqn:E1; cbn [andb].
  2:{ destruct (224 <=? c) eqn:E2; cbn [andb].
      - apply N.leb_le in E2. apply N.leb_gt in E1. lia.
      - destruct (240 <=? c) eqn:E3; cbn [andb]; [apply N.leb_le in E3; apply N.leb_gt in E1; lia | discriminate]. }
  apply N.leb_le in E1.
  destruct (c <=? 223) eqn:E1'.
  - destruct r as [|c2 r]; [discriminate|].
    destruct ((128 <=? c2) && (c2 <=? 191)) eqn:E; [|discriminate].
    intros H; injection H as <-. cbn [firstn length all_high forallb].
    apply andb_true_iff in E as [E _]. rewrite E. repeat split; auto; lia.
  - destruct ((224 <=? c) && (c <=? 239)) eqn:E2.
    + destruct r as [|c2 [|c3 r]]; try discriminate.
      match goal with |- (if ?b then _ else _) = _ -> _ => destruct b eqn:E end; [|discriminate].
      intros H; injection H as <-. cbn [firstn length all_high forallb].
      apply andb_true_iff in E as [Ea Eb]. apply andb_true_iff in Ea as [Ea _]. apply andb_true_iff in Eb as [Eb _].
      assert (128 <=? c2 = true) as ->.
      { apply N.leb_le. apply N.leb_le in Ea. destruct (c =? 224); lia. }
      rewrite Eb. repeat split; auto; lia.
    + destruct ((240 <=? c) && (c <=? 244)) eqn:E3; [|discriminate].
      destruct r as [|c2 [|c3 [|c4 r]]]; try discriminate.
      match goal with |- (if ?b then _ else _) = _ -> _ => destruct b eqn:E end; [|discriminate].
      intros H; injection H as <-. cbn [firstn length all_high forallb].
      apply andb_true_iff in E as [Ea Ec]. apply andb_true_iff in Ea as [Ea Eb].
      apply andb_true_iff in Ea as [Ea _]. apply andb_true_iff in Eb as [Eb _]. apply andb_true_iff in Ec as [Ec _].
      assert (128 <=? c2 = true) as ->.
      { apply N.leb_le. apply N.leb_le in Ea. destruct (c =? 240); lia. }
      rewrite Eb, Ec. repeat split; auto; lia.
Qed.

(* utf8_seq_len looks only at the continuation bytes it announces *)
Lemma seq_len_prefix c r n x :
  utf8_seq_len c r = S n -> utf8_seq_len c (firstn n r ++ x) = S n.
Proof.
  unfold utf8_seq_len.
  destruct (in_rng c 194 223).
  - destruct r as [|c2 r]; [discriminate|]. destruct (is_cont c2) eqn:E; [|discriminate].
    intros H; injection H as <-. cbn [firstn app]. rewrite E; reflexivity.
  - destruct (in_rng c 224 239).
    + destruct r as [|c2 [|c3 r]]; try discriminate.
      match goal with |- (if ?b then _ else _) = _ -> _ => destruct b eqn:E end; [|discriminate].
      intros H; injection H as <-. cbn [firstn app]. rewrite E; reflexivity.
    + destruct (in_rng c 240 244); [|discriminate].
      destruct r as [|c2 [|c3 [|c4 r]]]; try discriminate.
      match goal with |- (if ?b then _ else _) = _ -> _ => destruct b eqn:E end; [|discriminate].
      intros H; injection H as <-. cbn [firstn app]. rewrite E; reflexivity.
Qed.

Lemma esc_firstn n r : esc n r = firstn n r ++ esc O (skipn n r).
Proof.
  revert r; induction n as [|n IH]; intros r.
  - reflexivity.
  - destruct r as [|c r]; [reflexivity|]. cbn [esc firstn skipn app]. rewrite IH; reflexivity.
Qed.

Lemma valid_k_firstn n r : valid_utf8_k n r = (length (firstn n r) =? n)%nat && valid_utf8_k O (skipn n r).
Proof.
  revert r; induction n as [|n IH]; intros r.
  - reflexivity.
  - destruct r as [|c r]; [reflexivity|]. cbn [valid_utf8_k firstn skipn length]. rewrite IH. reflexivity.
Qed.

Lemma firstn_app_exact {A} n (a b : list A) : length a = n -> firstn n (a ++ b) = a /\ skipn n (a ++ b) = b.
Proof.
  intros <-. split.
  - rewrite firstn_app, Nat.sub_diag, firstn_all. cbn. apply app_nil_r.
  - rewrite skipn_app, Nat.sub_diag, skipn_all. reflexivity.
Qed.

(* a valid multi-byte sequence followed by x *)
Lemma valid_seq c r n x :
  utf8_seq_len c r = S n -> valid_utf8_k O (c :: firstn n r ++ x) = valid_utf8_k O x.
Proof.
  intros H. pose proof (seq_len_cont _ _ _ H) as (Hc & Hl & _ & _).
  cbn [valid_utf8_k]. replace (c <? 128) with false by (symmetry; apply N.ltb_ge; lia).
  rewrite (seq_len_prefix _ _ _ x H), valid_k_firstn.
  destruct (firstn_app_exact n (firstn n r) x Hl) as [-> ->].
  rewrite Hl, Nat.eqb_refl. reflexivity.
Qed.

Definition all_ascii (s : bytes) : bool := forallb (fun c => c <? 128) s.

Lemma valid_ascii_app a x : all_ascii a = true -> valid_utf8_k O (a ++ x) = valid_utf8_k O x.
Proof.
  induction a as [|c a IH]; intros H; [reflexivity|].
  cbn [all_ascii forallb] in H. apply andb_true_iff in H as [H1 H2].
  cbn [app valid_utf8_k]. rewrite H1. auto.
Qed.

Lemma valid_utf8_ascii a : all_ascii a = true -> valid_utf8 a = true.
Proof. intros H. unfold valid_utf8. rewrite <- (app_nil_r a), valid_ascii_app; auto. Qed.

Lemma hexdig_ascii n : n < 16 -> (hexdig n <? 128) = true /\ (hexdig n <? 32) = false.
Proof. intros H. unfold hexdig. destruct (n <? 10) eqn:E; split; try apply N.ltb_lt; try apply N.ltb_ge; lia. Qed.

Lemma esc_ascii_props c : c < 128 -> all_ascii (esc_ascii c) = true /\ no_ctl (esc_ascii c) = true.
Proof.
  intros Hc. unfold esc_ascii, u00.
  assert (Hd1 : c / 16 < 16) by (apply N.div_lt_upper_bound; lia).
  assert (Hd2 : c mod 16 < 16) by (apply N.mod_lt; lia).
  destruct (hexdig_ascii _ Hd1) as [A1 A2], (hexdig_ascii _ Hd2) as [B1 B2].
  repeat match goal with
  | |- context [if ?b then _ else _] => let E := fresh "E" in destruct b eqn:E
  end; cbn [all_ascii no_ctl forallb]; rewrite ?A1, ?A2, ?B1, ?B2; cbn;
  try (split; reflexivity).
  - apply orb_true_iff in E as [E|E]; apply N.eqb_eq in E; subst c; split; reflexivity.
  - (* plain byte *)
    assert (c <? 128 = true) as -> by (apply N.ltb_lt; lia).
    apply orb_false_iff in E5 as [E5 _]. apply orb_false_iff in E5 as [E5 _]. apply orb_false_iff in E5 as [E5 _].
    rewrite E5. split; reflexivity.
Qed.

Lemma esc_202x_props c3 : all_ascii (esc_202x c3) = true /\ no_ctl (esc_202x c3) = true.
Proof.
  unfold esc_202x. assert (H : c3 mod 16 < 16) by (apply N.mod_lt; lia).
  destruct (hexdig_ascii _ H) as [A1 A2]. cbn [all_ascii no_ctl forallb]. rewrite A1, A2. split; reflexivity.
Qed.

(* the escaper's output: valid UTF-8 and free of control bytes, for EVERY byte string *)
Lemma esc_props_len m : forall s, (length s <= m)%nat -> valid_utf8_k O (esc O s) = true /\ no_ctl (esc O s) = true.
Proof.
  induction m as [|m IH]; intros s Hl.
  - destruct s; [split; reflexivity | cbn in Hl; lia].
  - destruct s as [|c r]; [split; reflexivity|]. cbn [length] in Hl.
    cbn [esc]. destruct (c <? 128) eqn:Ec.
    + apply N.ltb_lt in Ec. destruct (esc_ascii_props c Ec) as [A B].
      destruct (IH r ltac:(lia)) as [V N0]. rewrite valid_ascii_app, no_ctl_app, B by assumption. auto.
    + destruct (utf8_seq_len c r) as [|n] eqn:El.
      * destruct (IH r ltac:(lia)) as [V N0]. rewrite valid_ascii_app, no_ctl_app by reflexivity. auto.
      * pose proof (seq_len_cont _ _ _ El) as (Hc & Hn & Hh & Hr).
        assert (Hgen : valid_utf8_k O (c :: esc n r) = true /\ no_ctl (c :: esc n r) = true).
        { rewrite esc_firstn. rewrite (valid_seq _ _ _ _ El).
          assert (length (skipn n r) <= m)%nat by (rewrite skipn_length; lia).
          destruct (IH _ H) as [V N0]. split; [exact V|].
          rewrite no_ctl_cons, no_ctl_app, N0, (all_high_no_ctl _ Hh).
          replace (c <? 32) with false by (symmetry; apply N.ltb_ge; lia). reflexivity. }
        destruct r as [|c2 [|c3 r3]]; try exact Hgen.
        destruct ((c =? 226) && (c2 =? 128) && ((c3 =? 168) || (c3 =? 169))); [|exact Hgen].
        destruct (esc_202x_props c3) as [A B].
        destruct (IH r3) as [V N0]; [cbn [length] in Hl; lia|].
        rewrite valid_ascii_app, no_ctl_app, B by assumption. auto.
Qed.

Lemma escape_body_valid s : valid_utf8 (escape_body s) = true.
Proof. apply (esc_props_len (length s) s (le_n _)). Qed.
Lemma escape_body_no_ctl s : no_ctl (escape_body s) = true.
Proof. apply (esc_props_len (length s) s (le_n _)). Qed.

(* validity of concatenations *)
Lemma valid_k_app_len m : forall k a b, (length a <= m)%nat ->
  valid_utf8_k k a = true -> valid_utf8_k k (a ++ b) = valid_utf8_k O b.
Proof.
  induction m as [|m IH]; intros k a b Hl Hv.
  - destruct a; [|cbn in Hl; lia]. destruct k; [reflexivity | discriminate].
  - destruct a as [|c a]; [destruct k; [reflexivity | discriminate]|].
    cbn [length] in Hl. cbn [app valid_utf8_k] in *. destruct k as [|k].
    + destruct (c <? 128); [apply IH; [lia | exact Hv]|].
      destruct (utf8_seq_len c a) as [|n] eqn:El; [discriminate|].
      pose proof (seq_len_cont _ _ _ El) as (_ & Hn & _ & _).
      rewrite valid_k_firstn in Hv. apply andb_true_iff in Hv as [_ Hv].
      assert (Ha : a ++ b = firstn n a ++ (skipn n a ++ b)) by (rewrite app_assoc, firstn_skipn; reflexivity).
      rewrite Ha. rewrite (seq_len_prefix _ _ _ _ El), valid_k_firstn.
      destruct (firstn_app_exact n (firstn n a) (skipn n a ++ b) Hn) as [-> ->].
      rewrite Hn, Nat.eqb_refl. cbn [andb]. apply IH; [rewrite skipn_length; lia | exact Hv].
    + apply IH; [lia | exact Hv].
Qed.

Lemma valid_utf8_app a b : valid_utf8 a = true -> valid_utf8 b = true -> valid_utf8 (a ++ b) = true.
Proof. unfold valid_utf8. intros Ha Hb. rewrite (valid_k_app_len (length a) O a b (le_n _) Ha). exact Hb. Qed.

Lemma valid_utf8_cons_ascii c s : c < 128 -> valid_utf8 s = true -> valid_utf8 (c :: s) = true.
Proof. intros Hc Hs. unfold valid_utf8. cbn [valid_utf8_k]. apply N.ltb_lt in Hc. rewrite Hc. exact Hs. Qed.

Lemma escape_string_valid s : valid_utf8 (escape_string s) = true.
Proof.
  unfold escape_string. apply valid_utf8_cons_ascii; [lia|].
  apply valid_utf8_app; [apply escape_body_valid | reflexivity].
Qed.

Lemma escape_string_no_ctl s : no_ctl (escape_string s) = true.
Proof.
  unfold escape_string. rewrite no_ctl_cons, no_ctl_app, escape_body_no_ctl. reflexivity.
Qed.

(* ------------------------------------------------------------------------- *)
(* Part 2: lexers *)

Ltac break H :=
  repeat (match type of H with
          | context [match ?x with _ => _ end] => destruct x eqn:?
          | context [if ?x then _ else _] => destruct x eqn:?
          end; try discriminate H).

Lemma is_digit_rng c : is_digit c = true -> 48 <= c <= 57.
Proof. unfold is_digit. intros H. apply andb_true_iff in H as [A B]. apply N.leb_le in A, B. lia. Qed.

Lemma is_hex_rng c : is_hex c = true -> 48 <= c <= 102.
Proof.
  unfold is_hex. intros H. apply orb_true_iff in H as [H|H]; [apply orb_true_iff in H as [H|H]|].
  - apply is_digit_rng in H. lia.
  - apply andb_true_iff in H as [A B]. apply N.leb_le in A, B. lia.
  - apply andb_true_iff in H as [A B]. apply N.leb_le in A, B. lia.
Qed.

Lemma ge32 c : 32 <= c -> negb (c <? 32) = true.
Proof. intros H. apply negb_true_iff, N.ltb_ge. exact H. Qed.

(* a string body: the text up to the closing quote, free of control bytes *)
Lemma pstr_props_len m : forall s b r, (length s <= m)%nat -> pstr s = Some (b, r) ->
  s = b ++ 34 :: r /\ no_ctl b = true.
Proof.
  induction m as [|m IH]; intros s b r Hl H.
  - destruct s; [discriminate | cbn in Hl; lia].
  - destruct s as [|c s']; [discriminate|]. cbn [length] in Hl. cbn [pstr] in H. unfold sclass_of in H.
    destruct (c =? 34) eqn:E34.
    { injection H as <- <-. apply N.eqb_eq in E34. subst. split; reflexivity. }
    destruct (c =? 92) eqn:E92.
    + apply N.eqb_eq in E92; subst c. destruct s' as [|e r1]; [discriminate|]. cbn [length] in Hl.
      unfold eclass_of in H.
      match type of H with context [if ?x then _ else _] => destruct x eqn:Es end.
      * destruct (pstr r1) as [[b' r']|] eqn:Ep; [|discriminate]. injection H as <- <-.
        destruct (IH r1 b' r' ltac:(lia) Ep) as [-> Hn]. split; [reflexivity|].
        rewrite !no_ctl_cons, Hn.
        assert (32 <= e) by (repeat (apply orb_true_iff in Es as [Es|Es]); apply N.eqb_eq in Es; lia).
        rewrite (ge32 e) by assumption. reflexivity.
      * destruct (e =? 117) eqn:Eu; [|discriminate]. apply N.eqb_eq in Eu; subst e.
        destruct r1 as [|h1 [|h2 [|h3 [|h4 r2]]]]; try discriminate. cbn [length] in Hl.
        destruct (is_hex h1 && is_hex h2 && is_hex h3 && is_hex h4) eqn:Eh; [|discriminate].
        destruct (pstr r2) as [[b' r']|] eqn:Ep; [|discriminate]. injection H as <- <-.
        destruct (IH r2 b' r' ltac:(lia) Ep) as [-> Hn]. split; [reflexivity|].
        apply andb_true_iff in Eh as [Eh H4]. apply andb_true_iff in Eh as [Eh H3]. apply andb_true_iff in Eh as [H1 H2].
        apply is_hex_rng in H1, H2, H3, H4.
        rewrite !no_ctl_cons, Hn, !ge32 by lia. reflexivity.
    + destruct (c <? 32) eqn:Ec; [discriminate|].
      destruct (pstr s') as [[b' r']|] eqn:Ep; [|discriminate]. injection H as <- <-.
      destruct (IH s' b' r' ltac:(lia) Ep) as [-> Hn]. split; [reflexivity|].
      rewrite no_ctl_cons, Hn, Ec. reflexivity.
Qed.

Lemma pstr_props s b r : pstr s = Some (b, r) -> s = b ++ 34 :: r /\ no_ctl b = true.
Proof. apply (pstr_props_len (length s) s b r (le_n _)). Qed.

(* characters of number literals *)
Definition num_char (c : N) : bool := is_digit c || (c =? 45) || (c =? 43) || (c =? 46) || (c =? 101) || (c =? 69).
Definition num_chars (s : bytes) : bool := forallb num_char s.

Lemma num_chars_app a b : num_chars (a ++ b) = num_chars a && num_chars b.
Proof. apply forallb_app. Qed.

Lemma num_char_rng c : num_char c = true -> 43 <= c <= 101.
Proof.
  unfold num_char. intros H. repeat (apply orb_true_iff in H as [H|H]); try (apply N.eqb_eq in H; lia).
  apply is_digit_rng in H. lia.
Qed.

Lemma num_chars_no_ctl s : num_chars s = true -> no_ctl s = true /\ all_ascii s = true.
Proof.
  unfold num_chars, no_ctl, all_ascii. rewrite !forallb_forall. intros H. split; intros x Hx; specialize (H x Hx);
  apply num_char_rng in H; [apply ge32 | apply N.ltb_lt]; lia.
Qed.

Lemma digits_props s d r : digits s = (d, r) -> s = d ++ r /\ num_chars d = true.
Proof.
  revert d r; induction s as [|c s IH]; intros d r H; cbn [digits] in H.
  - injection H as <- <-. split; reflexivity.
  - destruct (is_digit c) eqn:Ed.
    + destruct (digits s) as [d' r'] eqn:E. injection H as <- <-. destruct (IH d' r' eq_refl) as [-> Hn].
      split; [reflexivity|]. cbn [num_chars forallb]. unfold num_char at 1. rewrite Ed. exact Hn.
    + injection H as <- <-. split; reflexivity.
Qed.

Lemma digit_num_char c : is_digit c = true -> num_char c = true.
Proof. intros H. unfold num_char. rewrite H. reflexivity. Qed.

Lemma p_esign_props s sg r : p_esign s = (sg, r) -> s = sg ++ r /\ num_chars sg = true.
Proof.
  unfold p_esign. destruct s as [|x s']; [intros H; injection H as <- <-; split; reflexivity|].
  destruct ((x =? 43) || (x =? 45)) eqn:Ex; intros H; injection H as <- <-; [|split; reflexivity].
  split; [reflexivity|]. cbn [num_chars forallb]. unfold num_char.
  apply orb_true_iff in Ex as [Ex|Ex]; rewrite Ex; rewrite ?orb_true_r; reflexivity.
Qed.

Lemma pnum_props s n r : pnum s = Some (n, r) -> s = n ++ r /\ num_chars n = true.
Proof.
  unfold pnum. intros H.
  destruct (p_sign s) as [sg s1] eqn:E1.
  destruct (p_int s1) as [[ip s2]|] eqn:E2; [|discriminate].
  destruct (p_frac s2) as [[fp s3]|] eqn:E3; [|discriminate].
  destruct (p_exp s3) as [[ep s4]|] eqn:E4; [|discriminate].
  injection H as <- <-.
  assert (A1 : s = sg ++ s1 /\ num_chars sg = true).
  { unfold p_sign in E1. destruct s as [|c s']; [injection E1 as <- <-; split; reflexivity|].
    destruct (c =? 45) eqn:Ec; injection E1 as <- <-; [|split; reflexivity].
    apply N.eqb_eq in Ec; subst c. split; reflexivity. }
  assert (A2 : s1 = ip ++ s2 /\ num_chars ip = true).
  { unfold p_int in E2. destruct s1 as [|c s']; [discriminate|].
    destruct (c =? 48) eqn:Ec.
    - injection E2 as <- <-. apply N.eqb_eq in Ec; subst c. split; reflexivity.
    - destruct (is_digit c) eqn:Ed; [|discriminate]. destruct (digits s') as [d r'] eqn:Eg.
      injection E2 as <- <-. destruct (digits_props _ _ _ Eg) as [-> Hd]. split; [reflexivity|].
      cbn [num_chars forallb]. rewrite (digit_num_char _ Ed). exact Hd. }
  assert (A3 : s2 = fp ++ s3 /\ num_chars fp = true).
  { unfold p_frac in E3. destruct s2 as [|c s']; [injection E3 as <- <-; split; reflexivity|].
    destruct (c =? 46) eqn:Ec.
    - destruct (digits s') as [d r'] eqn:Eg. destruct d as [|d0 d']; [discriminate|].
      injection E3 as <- <-. destruct (digits_props _ _ _ Eg) as [-> Hd]. apply N.eqb_eq in Ec; subst c.
      split; [reflexivity|]. cbn [num_chars forallb] in *. exact Hd.
    - injection E3 as <- <-. split; reflexivity. }
  assert (A4 : s3 = ep ++ s4 /\ num_chars ep = true).
  { unfold p_exp in E4. destruct s3 as [|c s']; [injection E4 as <- <-; split; reflexivity|].
    destruct ((c =? 101) || (c =? 69)) eqn:Ec.
    - destruct (p_esign s') as [sg' r1] eqn:Es. destruct (digits r1) as [d r'] eqn:Eg.
      destruct d as [|d0 d']; [discriminate|]. injection E4 as <- <-.
      destruct (digits_props _ _ _ Eg) as [-> Hd].
      destruct (p_esign_props _ _ _ Es) as [-> Hs].
      split; [cbn [app]; f_equal; rewrite <- app_assoc; reflexivity|].
      change (c :: sg' ++ d0 :: d') with ([c] ++ sg' ++ d0 :: d'). rewrite !num_chars_app, Hs, Hd.
      cbn [num_chars forallb]. unfold num_char. apply orb_true_iff in Ec as [Ec|Ec]; rewrite Ec; rewrite ?orb_true_r; reflexivity.
    - injection E4 as <- <-. split; reflexivity. }
  destruct A1 as [-> B1], A2 as [-> B2], A3 as [-> B3], A4 as [-> B4].
  split; [rewrite <- !app_assoc; reflexivity|]. rewrite !num_chars_app, B1, B2, B3, B4. reflexivity.
Qed.

(* JSON string and number literals: the raw texts a request id can be *)
Definition is_str_lit (s : bytes) : bool :=
  match s with
  | c :: r => (c =? 34) && match pstr r with Some (_, []) => true | _ => false end
  | [] => false
  end.
Definition is_num_lit (s : bytes) : bool := match pnum s with Some (_, []) => true | _ => false end.

Lemma str_lit_no_ctl s : is_str_lit s = true -> no_ctl s = true.
Proof.
  destruct s as [|c r]; [discriminate|]. cbn [is_str_lit]. intros H. apply andb_true_iff in H as [Hc H].
  apply N.eqb_eq in Hc; subst c. destruct (pstr r) as [[b [|? ?]]|] eqn:E; try discriminate.
  destruct (pstr_props _ _ _ E) as [-> Hn]. rewrite no_ctl_cons, no_ctl_app, Hn. reflexivity.
Qed.

Lemma num_lit_props s : is_num_lit s = true -> num_chars s = true.
Proof.
  unfold is_num_lit. destruct (pnum s) as [[n [|? ?]]|] eqn:E; try discriminate. intros _.
  destruct (pnum_props _ _ _ E) as [-> Hn]. rewrite app_nil_r. exact Hn.
Qed.

(* ------------------------------------------------------------------------- *)
(* Part 3: trees *)

Fixpoint cst_ok (c : cst) : bool :=
  match c with
  | CNull | CTrue | CFalse => true
  | CNum n => no_ctl n && negb (beq n [])
  | CStr b => no_ctl b
  | CArr _ es => forallb (fun e => cst_ok (snd (fst e))) es
  | CObj _ ms => forallb (fun m => no_ctl (snd (fst (fst m))) && cst_ok (snd (fst (snd m)))) ms
  end.

Definition elems_ok (es : list (bytes * cst * bytes)) : bool := forallb (fun e => cst_ok (snd (fst e))) es.
Definition mems_ok (ms : list ((bytes * bytes * bytes) * (bytes * cst * bytes))) : bool :=
  forallb (fun m => no_ctl (snd (fst (fst m))) && cst_ok (snd (fst (snd m)))) ms.

Lemma strip_prefix_sound p : forall s r, strip_prefix p s = Some r -> s = p ++ r.
Proof.
  induction p as [|x p IH]; intros s r H; cbn [strip_prefix] in H.
  - injection H as <-. reflexivity.
  - destruct s as [|y s']; [discriminate|]. destruct (x =? y) eqn:E; [|discriminate].
    apply N.eqb_eq in E; subst y. rewrite (IH _ _ H). reflexivity.
Qed.

Lemma pnum_nonempty s n r : pnum s = Some (n, r) -> n <> [].
Proof.
  unfold pnum. destruct (p_sign s) as [sg s1].
  destruct (p_int s1) as [[ip s2]|] eqn:E2; [|discriminate].
  destruct (p_frac s2) as [[fp s3]|]; [|discriminate]. destruct (p_exp s3) as [[ep s4]|]; [|discriminate].
  intros H; injection H as <- <-.
  assert (ip <> []).
  { unfold p_int in E2. destruct s1 as [|c s']; [discriminate|]. destruct (c =? 48); [injection E2 as <- <-; discriminate|].
    destruct (is_digit c); [|discriminate]. destruct (digits s'). injection E2 as <- <-. discriminate. }
  destruct sg; [|discriminate]. destruct ip; [contradiction | discriminate].
Qed.

Lemma pscalar_ok s c r : pscalar s = Some (c, r) -> cst_ok c = true.
Proof.
  unfold pscalar. intros H. break H; try (injection H as <- <-; reflexivity).
  injection H as <- <-. cbn [cst_ok].
  match goal with E : pnum _ = Some _ |- _ => pose proof (pnum_nonempty _ _ _ E) as Hne; apply pnum_props in E as [_ E] end.
  apply andb_true_iff. split; [apply num_chars_no_ctl; assumption|].
  destruct (beq_spec b []); [contradiction | reflexivity].
Qed.

Lemma parser_ok f :
  (forall d s c r, pval f d s = Some (c, r) -> cst_ok c = true) /\
  (forall d w s es r, pelems f d w s = Some (es, r) -> elems_ok es = true) /\
  (forall d w s ms r, pmems f d w s = Some (ms, r) -> mems_ok ms = true).
Proof.
  induction f as [|f (IHv & IHe & IHm)]; [repeat split; intros; discriminate|].
  repeat split.
  - intros d s c r H. cbn [pval] in H.
    destruct (tk s) as [t r0] eqn:Et. destruct t; try discriminate.
    + destruct (pstr r0) as [[b r']|] eqn:Ep; [|discriminate]. injection H as <- <-.
      cbn [cst_ok]. apply (pstr_props _ _ _ Ep).
    + destruct (max_depth <=? d); [discriminate|]. destruct (split_ws r0) as [w r1].
      destruct (tk r1) as [t1 r2] eqn:Et1.
      destruct t1; try (destruct (pelems f (N.succ d) w r1) as [[es r3]|] eqn:Ee; [|discriminate];
                        injection H as <- <-; cbn [cst_ok]; exact (IHe _ _ _ _ _ Ee)).
      injection H as <- <-. reflexivity.
    + destruct (max_depth <=? d); [discriminate|]. destruct (split_ws r0) as [w r1].
      destruct (tk r1) as [t1 r2] eqn:Et1.
      destruct t1; try (destruct (pmems f (N.succ d) w r1) as [[ms r3]|] eqn:Ee; [|discriminate];
                        injection H as <- <-; cbn [cst_ok]; exact (IHm _ _ _ _ _ Ee)).
      injection H as <- <-. reflexivity.
    + exact (pscalar_ok _ _ _ H).
  - intros d w s es r H. cbn [pelems] in H.
    destruct (pval f d s) as [[c r1]|] eqn:Ev; [|discriminate].
    destruct (split_ws r1) as [wa r2]. destruct (tk r2) as [t r3]. destruct t; try discriminate.
    + injection H as <- <-. cbn [elems_ok forallb fst snd]. rewrite (IHv _ _ _ _ Ev). reflexivity.
    + destruct (split_ws r3) as [wb r4]. destruct (pelems f d wb r4) as [[es' r5]|] eqn:Ee; [|discriminate].
      injection H as <- <-. cbn [elems_ok forallb fst snd]. rewrite (IHv _ _ _ _ Ev). exact (IHe _ _ _ _ _ Ee).
  - intros d w s ms r H. cbn [pmems] in H.
    destruct (tk s) as [t r0]. destruct t; try discriminate.
    destruct (pstr r0) as [[k r1]|] eqn:Ep; [|discriminate].
    destruct (split_ws r1) as [wc r2]. destruct (tk r2) as [t r3]. destruct t; try discriminate.
    destruct (split_ws r3) as [wv r4]. destruct (pval f d r4) as [[c r5]|] eqn:Ev; [|discriminate].
    destruct (split_ws r5) as [wa r6]. destruct (tk r6) as [t r7]. destruct t; try discriminate.
    + injection H as <- <-. cbn [mems_ok forallb fst snd].
      rewrite (proj2 (pstr_props _ _ _ Ep)), (IHv _ _ _ _ Ev). reflexivity.
    + destruct (split_ws r7) as [wb r8]. destruct (pmems f d wb r8) as [[ms' r9]|] eqn:Em; [|discriminate].
      injection H as <- <-. cbn [mems_ok forallb fst snd].
      rewrite (proj2 (pstr_props _ _ _ Ep)), (IHv _ _ _ _ Ev). exact (IHm _ _ _ _ _ Em).
Qed.

Lemma parse_prefix_ok s w c r : parse_prefix s = Some (w, c, r) -> cst_ok c = true.
Proof.
  unfold parse_prefix, value_at. destruct (split_ws s) as [w0 s1].
  destruct (pval (fuel_of s1) 0 s1) as [[c0 r0]|] eqn:E; [|discriminate].
  intros H. injection H as _ <- _. exact (proj1 (parser_ok _) _ _ _ _ E).
Qed.

Lemma parse_doc_ok s w c w1 : parse_doc s = Some (w, c, w1) -> cst_ok c = true.
Proof.
  unfold parse_doc. destruct (parse_prefix s) as [[[w0 c0] r0]|] eqn:E; [|discriminate].
  destruct (split_ws r0) as [w2 r1]. destruct r1; [|discriminate].
  intros H. injection H as _ <- _. exact (parse_prefix_ok _ _ _ _ E).
Qed.

(* a nested induction principle for trees *)
Section CstInd.
  Variable P : cst -> Prop.
  Hypothesis Hnull : P CNull.
  Hypothesis Htrue : P CTrue.
  Hypothesis Hfalse : P CFalse.
  Hypothesis Hnum : forall n, P (CNum n).
  Hypothesis Hstr : forall b, P (CStr b).
  Hypothesis Harr : forall w es, Forall (fun e => P (snd (fst e))) es -> P (CArr w es).
  Hypothesis Hobj : forall w ms, Forall (fun m => P (snd (fst (snd m)))) ms -> P (CObj w ms).
  Fixpoint cst_ind' (c : cst) : P c :=
    match c with
    | CNull => Hnull | CTrue => Htrue | CFalse => Hfalse
    | CNum n => Hnum n | CStr b => Hstr b
    | CArr w es =>
      Harr w es ((fix go (l : list (bytes * cst * bytes)) : Forall (fun e => P (snd (fst e))) l :=
                    match l with
                    | [] => Forall_nil _
                    | e :: l' => Forall_cons e (cst_ind' (snd (fst e))) (go l')
                    end) es)
    | CObj w ms =>
      Hobj w ms ((fix go (l : list ((bytes * bytes * bytes) * (bytes * cst * bytes))) : Forall (fun m => P (snd (fst (snd m)))) l :=
                    match l with
                    | [] => Forall_nil _
                    | m :: l' => Forall_cons m (cst_ind' (snd (fst (snd m)))) (go l')
                    end) ms)
    end.
End CstInd.

Lemma hexdig_ge n : 32 <= hexdig n.
Proof. unfold hexdig. destruct (n <? 10); lia. Qed.

Lemma u00_no_ctl c : no_ctl (u00 c) = true.
Proof.
  unfold u00. cbn [no_ctl forallb].
  rewrite (ge32 (hexdig (c / 16)) (hexdig_ge _)), (ge32 (hexdig (c mod 16)) (hexdig_ge _)). reflexivity.
Qed.

Lemma html_esc_no_ctl_len m : forall s, (length s <= m)%nat -> no_ctl s = true -> no_ctl (html_esc s) = true.
Proof.
  induction m as [|m IH]; intros s Hl Hn.
  - destruct s; [reflexivity | cbn in Hl; lia].
  - destruct s as [|c r]; [reflexivity|]. cbn [length] in Hl. rewrite no_ctl_cons in Hn.
    apply andb_true_iff in Hn as [Hc Hr]. cbn [html_esc].
    pose proof (u00_no_ctl c) as Hu.
    assert (Hgen : no_ctl (c :: html_esc r) = true) by (rewrite no_ctl_cons, Hc, IH; auto; lia).
    destruct ((c =? 60) || (c =? 62) || (c =? 38)).
    + rewrite no_ctl_app, Hu, IH; auto; lia.
    + destruct (c =? 226); [|exact Hgen].
      destruct r as [|c2 [|c3 r3]]; try exact Hgen.
      destruct ((c2 =? 128) && ((c3 =? 168) || (c3 =? 169))); [|exact Hgen].
      rewrite no_ctl_app, (proj2 (esc_202x_props c3)). cbn [andb]. apply IH; [cbn [length] in Hl; lia|].
      rewrite !no_ctl_cons in Hr. apply andb_true_iff in Hr as [_ Hr]. apply andb_true_iff in Hr as [_ Hr]. exact Hr.
Qed.

Lemma html_esc_no_ctl s : no_ctl s = true -> no_ctl (html_esc s) = true.
Proof. apply (html_esc_no_ctl_len (length s) s (le_n _)). Qed.

Section CompactNoCtl.
  Variable strf : bytes -> bytes.
  Hypothesis strf_ok : forall b, no_ctl b = true -> no_ctl (strf b) = true.
  Let wsf : bytes -> bytes := fun _ => [].
  Variable ct : cst -> bytes -> bytes.
  Let good (c : cst) : Prop := cst_ok c = true -> forall acc, no_ctl acc = true -> no_ctl (ct c acc) = true.

  Lemma elems_text_no_ctl es : Forall (fun e => good (snd (fst e))) es -> elems_ok es = true ->
    forall acc, no_ctl acc = true -> no_ctl (elems_text wsf ct es acc) = true.
  Proof.
    induction 1 as [|[[w c] wa] es Hc _ IH]; intros Hok acc Hacc.
    - cbn [elems_text]. rewrite no_ctl_cons, Hacc. reflexivity.
    - cbn [elems_ok forallb fst snd] in Hok. apply andb_true_iff in Hok as [Hok1 Hok2].
      cbn [elems_text fst snd] in *. unfold wsf at 1 2. cbn [app]. apply Hc; [exact Hok1|].
      destruct es as [|e1 es1].
      + rewrite no_ctl_cons, Hacc. reflexivity.
      + rewrite no_ctl_cons. rewrite (IH Hok2 acc Hacc). reflexivity.
  Qed.

  Lemma mems_text_no_ctl ms : Forall (fun m => good (snd (fst (snd m)))) ms -> mems_ok ms = true ->
    forall acc, no_ctl acc = true -> no_ctl (mems_text strf wsf ct ms acc) = true.
  Proof.
    induction 1 as [|[[[wk k] wc] [[wv c] wa]] ms Hc _ IH]; intros Hok acc Hacc.
    - cbn [mems_text]. rewrite no_ctl_cons, Hacc. reflexivity.
    - cbn [mems_ok forallb fst snd] in Hok. apply andb_true_iff in Hok as [Hok1 Hok2].
      apply andb_true_iff in Hok1 as [Hk Hok1].
      cbn [mems_text fst snd] in *. unfold wsf at 1 2 3 4. cbn [app].
      rewrite no_ctl_cons, no_ctl_app, (strf_ok _ Hk), !no_ctl_cons. cbn [negb N.ltb N.compare Pos.compare Pos.compare_cont andb].
      apply Hc; [exact Hok1|].
      destruct ms as [|m1 ms1].
      + rewrite no_ctl_cons, Hacc. reflexivity.
      + rewrite no_ctl_cons. rewrite (IH Hok2 acc Hacc). reflexivity.
  Qed.
End CompactNoCtl.

Lemma cprint_no_ctl strf (strf_ok : forall b, no_ctl b = true -> no_ctl (strf b) = true) c :
  cst_ok c = true -> forall acc, no_ctl acc = true -> no_ctl (cprint strf (fun _ => []) c acc) = true.
Proof.
  induction c using cst_ind'; intros Hok acc Hacc; cbn [cprint cst_ok] in *.
  - exact Hacc.
  - exact Hacc.
  - exact Hacc.
  - apply andb_true_iff in Hok as [Hok _]. rewrite no_ctl_app, Hok, Hacc. reflexivity.
  - rewrite no_ctl_cons, no_ctl_app, (strf_ok _ Hok), no_ctl_cons, Hacc. reflexivity.
  - rewrite no_ctl_cons. cbn [negb N.ltb N.compare Pos.compare Pos.compare_cont andb].
    destruct es as [|e0 es0]; [cbn [app]; rewrite no_ctl_cons, Hacc; reflexivity|].
    apply elems_text_no_ctl; assumption.
  - rewrite no_ctl_cons. cbn [negb N.ltb N.compare Pos.compare Pos.compare_cont andb].
    destruct ms as [|m0 ms0]; [cbn [app]; rewrite no_ctl_cons, Hacc; reflexivity|].
    apply mems_text_no_ctl; assumption.
Qed.

(* json.Marshal(RawMessage) / json.Compact never emit a control byte *)
Lemma compact_no_ctl p q : compact p = Some q -> no_ctl q = true.
Proof.
  unfold compact. destruct (parse_doc p) as [[[w c] w1]|] eqn:E; [|discriminate].
  intros H; injection H as <-. unfold ccompact_html.
  apply cprint_no_ctl; [exact html_esc_no_ctl | exact (parse_doc_ok _ _ _ _ E) | reflexivity].
Qed.

Lemma compact_plain_no_ctl p q : compact_plain p = Some q -> no_ctl q = true.
Proof.
  unfold compact_plain. destruct (parse_doc p) as [[[w c] w1]|] eqn:E; [|discriminate].
  intros H; injection H as <-. unfold ccompact_plain.
  apply cprint_no_ctl; [auto | exact (parse_doc_ok _ _ _ _ E) | reflexivity].
Qed.

(* the exact text of a parsed value is never empty *)
Lemma ctext_nonempty c acc : cst_ok c = true -> ctext c acc <> [].
Proof.
  unfold ctext. destruct c; cbn [cprint cst_ok]; try discriminate.
  intros H. apply andb_true_iff in H as [_ H]. destruct raw; [discriminate H | discriminate].
Qed.

Lemma raw_members_nonempty s l : raw_members s = Some l -> Forall (fun kv => snd kv <> []) l.
Proof.
  unfold raw_members. destruct (parse_doc s) as [[[w c] w1]|] eqn:E; [|discriminate].
  pose proof (parse_doc_ok _ _ _ _ E) as Hok.
  destruct c; try discriminate; intros H; injection H as <-; [constructor|].
  cbn [cst_ok] in Hok. apply Forall_forall. intros kv Hin. apply in_map_iff in Hin as (m & <- & Hm).
  cbn [snd]. apply ctext_nonempty. rewrite forallb_forall in Hok. specialize (Hok m Hm).
  apply andb_true_iff in Hok as [_ Hok]. exact Hok.
Qed.
