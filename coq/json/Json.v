(* Json: executable model of the parts of Go's encoding/json (go 1.23) that jrpc2 relies on.
   Definitions only (proofs: JsonProofs.v).

   Structure.  The parser is a fuelled recursive descent over bytes that follows the grammar
   of encoding/json's scanner (scanner.go) exactly and produces a CONCRETE syntax tree [cst]
   that keeps every whitespace run and every raw literal, so that
     - the exact byte span of any sub-value is [ctext c []]      (RawMessage semantics),
     - the abstract value is [cst_json c]                         (strings decoded by [unq]),
     - json.Compact / json.Marshal(RawMessage) is a printer       ([ccompact]),
   all by structural recursion over the tree and in linear time.  The three parser functions
   [pval]/[pelems]/[pmems] are mutual fixpoints on one fuel; bytes are classified into tokens
   first so that proofs destruct tokens, never numerals. *)
From Coq Require Import List NArith Bool Arith.
From JV Require Import Bytes.
Import ListNotations.
Local Open Scope N_scope.

(* ------------------------------------------------------------------------- *)
(* Abstract and concrete syntax                                               *)

Inductive json :=
| JNull | JBool (b : bool) | JNum (raw : bytes) | JStr (s : bytes)
| JArr (xs : list json) | JObj (kvs : list (bytes * json)).

(* Concrete syntax.  Array text:  '[' w ']'  (es = [])  or  '[' w1 e1 a1 ',' w2 e2 a2 ... ']'
   with es = [(w1,e1,a1); (w2,e2,a2) ...]; the field [w] is used only when es = [].
   Object member: wk '"' key '"' wc ':' wv value wa. *)
Inductive cst :=
| CNull | CTrue | CFalse
| CNum (raw : bytes)
| CStr (body : bytes)                                   (* raw text between the quotes *)
| CArr (w : bytes) (es : list (bytes * cst * bytes))
| CObj (w : bytes) (ms : list ((bytes * bytes * bytes) * (bytes * cst * bytes))).

(* ------------------------------------------------------------------------- *)
(* Lexical layer                                                              *)

(* scanner.go isSpace *)
Definition is_ws (c : N) : bool := (c =? 32) || (c =? 9) || (c =? 13) || (c =? 10).

Fixpoint split_ws (s : bytes) : bytes * bytes :=
  match s with
  | c :: r => if is_ws c then let (w, r') := split_ws r in (c :: w, r') else ([], s)
  | [] => ([], [])
  end.

Inductive tok := TQuote | TLBrack | TRBrack | TLBrace | TRBrace | TComma | TColon | TOther | TEnd.

Definition tok_of (c : N) : tok :=
  if c =? 34 then TQuote else if c =? 91 then TLBrack else if c =? 93 then TRBrack else
  if c =? 123 then TLBrace else if c =? 125 then TRBrace else if c =? 44 then TComma else
  if c =? 58 then TColon else TOther.

Definition tk (s : bytes) : tok * bytes :=
  match s with [] => (TEnd, []) | c :: r => (tok_of c, r) end.

Definition is_digit (c : N) : bool := (48 <=? c) && (c <=? 57).
Definition is_hex (c : N) : bool :=
  is_digit c || ((97 <=? c) && (c <=? 102)) || ((65 <=? c) && (c <=? 70)).
Definition hexval (c : N) : N :=
  if is_digit c then c - 48 else if (97 <=? c) && (c <=? 102) then c - 87
  else if (65 <=? c) && (c <=? 70) then c - 55 else 0.
Definition hex4 (a b c d : N) : N := ((hexval a * 16 + hexval b) * 16 + hexval c) * 16 + hexval d.

(* string body: stateInString / stateInStringEsc / stateInStringEscU* ; the argument is the text
   after the opening quote; result = (raw body, text after the closing quote) *)
Inductive sclass := SQuote | SBack | SCtl | SPlain.
Definition sclass_of (c : N) : sclass :=
  if c =? 34 then SQuote else if c =? 92 then SBack else if c <? 32 then SCtl else SPlain.
Inductive eclass := ESimple | EU | EBad.
Definition eclass_of (c : N) : eclass :=
  if (c =? 98) || (c =? 102) || (c =? 110) || (c =? 114) || (c =? 116) || (c =? 92) || (c =? 47) || (c =? 34)
  then ESimple else if c =? 117 then EU else EBad.

Fixpoint pstr (s : bytes) : option (bytes * bytes) :=
  match s with
  | [] => None
  | c :: r =>
    match sclass_of c with
    | SQuote => Some ([], r)
    | SCtl => None
    | SPlain => match pstr r with Some (b, r') => Some (c :: b, r') | None => None end
    | SBack =>
      match r with
      | [] => None
      | e :: r1 =>
        match eclass_of e with
        | EBad => None
        | ESimple => match pstr r1 with Some (b, r') => Some (c :: e :: b, r') | None => None end
        | EU =>
          match r1 with
          | h1 :: h2 :: h3 :: h4 :: r2 =>
            if is_hex h1 && is_hex h2 && is_hex h3 && is_hex h4 then
              match pstr r2 with Some (b, r') => Some (c :: e :: h1 :: h2 :: h3 :: h4 :: b, r') | None => None end
            else None
          | _ => None
          end
        end
      end
    end
  end.

(* numbers: stateNeg, state0, state1, stateDot, stateDot0, stateE, stateESign, stateE0 *)
Fixpoint digits (s : bytes) : bytes * bytes :=
  match s with
  | c :: r => if is_digit c then let (d, r') := digits r in (c :: d, r') else ([], s)
  | [] => ([], [])
  end.

Definition p_sign (s : bytes) : bytes * bytes :=
  match s with c :: r => if c =? 45 then ([c], r) else ([], s) | [] => ([], []) end.
Definition p_int (s : bytes) : option (bytes * bytes) :=
  match s with
  | [] => None
  | c :: r => if c =? 48 then Some ([c], r)
              else if is_digit c then let (d, r') := digits r in Some (c :: d, r') else None
  end.
Definition p_frac (s : bytes) : option (bytes * bytes) :=
  match s with
  | [] => Some ([], [])
  | c :: r => if c =? 46 then
                let (d, r') := digits r in
                match d with [] => None | _ => Some (c :: d, r') end
              else Some ([], s)
  end.
Definition p_esign (s : bytes) : bytes * bytes :=
  match s with c :: r => if (c =? 43) || (c =? 45) then ([c], r) else ([], s) | [] => ([], []) end.
Definition p_exp (s : bytes) : option (bytes * bytes) :=
  match s with
  | [] => Some ([], [])
  | c :: r => if (c =? 101) || (c =? 69) then
                let (sg, r1) := p_esign r in
                let (d, r') := digits r1 in
                match d with [] => None | _ => Some (c :: sg ++ d, r') end
              else Some ([], s)
  end.
Definition pnum (s : bytes) : option (bytes * bytes) :=
  let (sg, s1) := p_sign s in
  match p_int s1 with
  | None => None
  | Some (ip, s2) =>
    match p_frac s2 with
    | None => None
    | Some (fp, s3) =>
      match p_exp s3 with
      | None => None
      | Some (ep, s4) => Some (sg ++ ip ++ fp ++ ep, s4)
      end
    end
  end.

Fixpoint strip_prefix (p s : bytes) : option bytes :=
  match p with
  | [] => Some s
  | x :: p' => match s with y :: s' => if x =? y then strip_prefix p' s' else None | [] => None end
  end.

Definition lit_true : bytes := [116; 114; 117; 101].
Definition lit_false : bytes := [102; 97; 108; 115; 101].
Definition lit_null : bytes := [110; 117; 108; 108].

Definition pscalar (s : bytes) : option (cst * bytes) :=
  match strip_prefix lit_true s with
  | Some r => Some (CTrue, r)
  | None =>
    match strip_prefix lit_false s with
    | Some r => Some (CFalse, r)
    | None =>
      match strip_prefix lit_null s with
      | Some r => Some (CNull, r)
      | None => match pnum s with Some (n, r) => Some (CNum n, r) | None => None end
      end
    end
  end.

(* ------------------------------------------------------------------------- *)
(* The parser.  [d] = number of enclosing containers; scanner.go pushParseState fails when the
   stack would exceed maxNestingDepth = 10000.  [pval] expects its input to start at the first
   byte of the value (the caller has split off white space). *)

Definition max_depth : N := 10000.

Fixpoint pval (f : nat) (d : N) (s : bytes) {struct f} : option (cst * bytes) :=
  match f with
  | O => None
  | S f' =>
    match tk s with
    | (TQuote, r) => match pstr r with Some (b, r') => Some (CStr b, r') | None => None end
    | (TLBrack, r) =>
      if max_depth <=? d then None else
      let (w, r1) := split_ws r in
      match tk r1 with
      | (TRBrack, r2) => Some (CArr w [], r2)
      | _ => match pelems f' (N.succ d) w r1 with Some (es, r2) => Some (CArr [] es, r2) | None => None end
      end
    | (TLBrace, r) =>
      if max_depth <=? d then None else
      let (w, r1) := split_ws r in
      match tk r1 with
      | (TRBrace, r2) => Some (CObj w [], r2)
      | _ => match pmems f' (N.succ d) w r1 with Some (ms, r2) => Some (CObj [] ms, r2) | None => None end
      end
    | (TOther, _) => pscalar s
    | _ => None
    end
  end
with pelems (f : nat) (d : N) (w : bytes) (s : bytes) {struct f} : option (list (bytes * cst * bytes) * bytes) :=
  match f with
  | O => None
  | S f' =>
    match pval f' d s with
    | None => None
    | Some (c, r1) =>
      let (wa, r2) := split_ws r1 in
      match tk r2 with
      | (TComma, r3) =>
        let (wb, r4) := split_ws r3 in
        match pelems f' d wb r4 with Some (es, r5) => Some ((w, c, wa) :: es, r5) | None => None end
      | (TRBrack, r3) => Some ([(w, c, wa)], r3)
      | _ => None
      end
    end
  end
with pmems (f : nat) (d : N) (w : bytes) (s : bytes) {struct f}
  : option (list ((bytes * bytes * bytes) * (bytes * cst * bytes)) * bytes) :=
  match f with
  | O => None
  | S f' =>
    match tk s with
    | (TQuote, r0) =>
      match pstr r0 with
      | None => None
      | Some (k, r1) =>
        let (wc, r2) := split_ws r1 in
        match tk r2 with
        | (TColon, r3) =>
          let (wv, r4) := split_ws r3 in
          match pval f' d r4 with
          | None => None
          | Some (c, r5) =>
            let (wa, r6) := split_ws r5 in
            match tk r6 with
            | (TComma, r7) =>
              let (wb, r8) := split_ws r7 in
              match pmems f' d wb r8 with
              | Some (ms, r9) => Some (((w, k, wc), (wv, c, wa)) :: ms, r9)
              | None => None
              end
            | (TRBrace, r7) => Some ([((w, k, wc), (wv, c, wa))], r7)
            | _ => None
            end
          end
        | _ => None
        end
      end
    | _ => None
    end
  end.

(* enough fuel for any text s (JsonProofs.pval_fuel_enough) *)
Definition fuel_of (s : bytes) : nat := 2 * length s + 2.

(* value at depth d starting at the first byte of s (no leading white space), canonical fuel *)
Definition value_at (d : N) (s : bytes) : option (cst * bytes) := pval (fuel_of s) d s.

(* prefix form: optional white space, one value; returns tree and the text after the value
   (what a json.Decoder consumes for one Decode, up to the end of the value) *)
Definition parse_prefix (s : bytes) : option (bytes * cst * bytes) :=
  let (w, s1) := split_ws s in
  match value_at 0 s1 with Some (c, r) => Some (w, c, r) | None => None end.

(* whole text: white space, value, white space, end = json.Valid / checkValid *)
Definition parse_doc (s : bytes) : option (bytes * cst * bytes) :=
  match parse_prefix s with
  | Some (w, c, r) => let (w1, r1) := split_ws r in
                      match r1 with [] => Some (w, c, w1) | _ => None end
  | None => None
  end.

(* ------------------------------------------------------------------------- *)
(* UTF-8 (unicode/utf8 DecodeRune / EncodeRune / Valid)                        *)

Definition in_rng (c lo hi : N) : bool := (lo <=? c) && (c <=? hi).
Definition is_cont (c : N) : bool := in_rng c 128 191.

(* length (2..4) of the well-formed multi-byte sequence that starts with c followed by r;
   O when there is none, i.e. DecodeRune returns (RuneError, 1) *)
Definition utf8_seq_len (c : N) (r : bytes) : nat :=
  if in_rng c 194 223 then
    match r with c2 :: _ => if is_cont c2 then 2%nat else O | _ => O end
  else if in_rng c 224 239 then
    match r with
    | c2 :: c3 :: _ =>
      if in_rng c2 (if c =? 224 then 160 else 128) (if c =? 237 then 159 else 191) && is_cont c3 then 3%nat else O
    | _ => O
    end
  else if in_rng c 240 244 then
    match r with
    | c2 :: c3 :: c4 :: _ =>
      if in_rng c2 (if c =? 240 then 144 else 128) (if c =? 244 then 143 else 191) && is_cont c3 && is_cont c4
      then 4%nat else O
    | _ => O
    end
  else O.

(* utf8.Valid; k = continuation bytes of an already checked sequence still to be passed *)
Fixpoint valid_utf8_k (k : nat) (s : bytes) : bool :=
  match s with
  | [] => match k with O => true | _ => false end
  | c :: r =>
    match k with
    | S k' => valid_utf8_k k' r
    | O => if c <? 128 then valid_utf8_k O r
           else match utf8_seq_len c r with O => false | S n => valid_utf8_k n r end
    end
  end.
Definition valid_utf8 (s : bytes) : bool := valid_utf8_k O s.

(* utf8.EncodeRune for a scalar value u (callers never pass surrogates or u > 0x10FFFF) *)
Definition utf8_enc (u : N) : bytes :=
  if u <? 128 then [u]
  else if u <? 2048 then [192 + u / 64; 128 + u mod 64]
  else if u <? 65536 then [224 + u / 4096; 128 + (u / 64) mod 64; 128 + u mod 64]
  else [240 + u / 262144; 128 + (u / 4096) mod 64; 128 + (u / 64) mod 64; 128 + u mod 64].

Definition repl_char : bytes := [239; 191; 189].     (* U+FFFD *)

(* ------------------------------------------------------------------------- *)
(* decode.go unquoteBytes on the raw body of a (valid) string literal          *)

Definition esc_char (e : N) : N :=
  if e =? 98 then 8 else if e =? 102 then 12 else if e =? 110 then 10 else
  if e =? 114 then 13 else if e =? 116 then 9 else e.

Definition is_surr (u : N) : bool := in_rng u 55296 57343.
Definition is_hi_surr (u : N) : bool := in_rng u 55296 56319.
Definition is_lo_surr (u : N) : bool := in_rng u 56320 57343.

(* k = bytes of an already validated multi-byte sequence still to be copied *)
Fixpoint unq (k : nat) (s : bytes) : bytes :=
  match s with
  | [] => []
  | c :: r =>
    match k with
    | S k' => c :: unq k' r
    | O =>
      if c =? 92 then
        match r with
        | [] => []
        | e :: r1 =>
          if e =? 117 then
            match r1 with
            | h1 :: h2 :: h3 :: h4 :: r2 =>
              let u := hex4 h1 h2 h3 h4 in
              if is_surr u then
                match r2 with
                | b :: u' :: l1 :: l2 :: l3 :: l4 :: r3 =>
                  if (b =? 92) && (u' =? 117) && is_hex l1 && is_hex l2 && is_hex l3 && is_hex l4
                     && is_hi_surr u && is_lo_surr (hex4 l1 l2 l3 l4)
                  then utf8_enc (65536 + (u - 55296) * 1024 + (hex4 l1 l2 l3 l4 - 56320)) ++ unq O r3
                  else repl_char ++ unq O r2
                | _ => repl_char ++ unq O r2
                end
              else utf8_enc u ++ unq O r2
            | _ => []
            end
          else esc_char e :: unq O r1
        end
      else if c <? 128 then c :: unq O r
      else match utf8_seq_len c r with
           | O => repl_char ++ unq O r
           | S n => c :: unq n r
           end
    end
  end.
Definition unquote (body : bytes) : bytes := unq O body.

(* ------------------------------------------------------------------------- *)
(* encode.go appendString with escapeHTML = true  (json.Marshal of a Go string) *)

Definition hexdig (n : N) : N := if n <? 10 then 48 + n else 87 + n.
Definition u00 (c : N) : bytes := [92; 117; 48; 48; hexdig (c / 16); hexdig (c mod 16)].

Definition esc_ascii (c : N) : bytes :=
  if (c =? 34) || (c =? 92) then [92; c]
  else if c =? 8 then [92; 98] else if c =? 12 then [92; 102] else if c =? 10 then [92; 110]
  else if c =? 13 then [92; 114] else if c =? 9 then [92; 116]
  else if (c <? 32) || (c =? 60) || (c =? 62) || (c =? 38) then u00 c
  else [c].

Definition esc_fffd : bytes := [92; 117; 102; 102; 102; 100].
Definition esc_202x (c3 : N) : bytes := [92; 117; 50; 48; 50; hexdig (c3 mod 16)].

Fixpoint esc (k : nat) (s : bytes) : bytes :=
  match s with
  | [] => []
  | c :: r =>
    match k with
    | S k' => c :: esc k' r
    | O =>
      if c <? 128 then esc_ascii c ++ esc O r
      else match utf8_seq_len c r with
           | O => esc_fffd ++ esc O r
           | S n =>
             match r with
             | c2 :: c3 :: r3 =>
               if (c =? 226) && (c2 =? 128) && ((c3 =? 168) || (c3 =? 169)) then esc_202x c3 ++ esc O r3
               else c :: esc n r
             | _ => c :: esc n r
             end
           end
    end
  end.
Definition escape_body (s : bytes) : bytes := esc O s.
Definition escape_string (s : bytes) : bytes := 34 :: escape_body s ++ [34].

(* ------------------------------------------------------------------------- *)
(* Printers over the concrete tree                                            *)

Section Printers.
Variable strf : bytes -> bytes.       (* what is done to a raw string body *)
Variable wsf : bytes -> bytes.        (* what is done to a white space run *)

Definition elems_text (ct : cst -> bytes -> bytes) :=
  fix go (es : list (bytes * cst * bytes)) (acc : bytes) : bytes :=
    match es with
    | [] => 93 :: acc
    | (w, c, wa) :: es' =>
      wsf w ++ ct c (wsf wa ++ match es' with [] => 93 :: acc | _ => 44 :: go es' acc end)
    end.

Definition mems_text (ct : cst -> bytes -> bytes) :=
  fix go (ms : list ((bytes * bytes * bytes) * (bytes * cst * bytes))) (acc : bytes) : bytes :=
    match ms with
    | [] => 125 :: acc
    | ((wk, k, wc), (wv, c, wa)) :: ms' =>
      wsf wk ++ 34 :: strf k ++ 34 :: wsf wc ++ 58 :: wsf wv ++
      ct c (wsf wa ++ match ms' with [] => 125 :: acc | _ => 44 :: go ms' acc end)
    end.

Fixpoint cprint (c : cst) (acc : bytes) {struct c} : bytes :=
  match c with
  | CNull => lit_null ++ acc
  | CTrue => lit_true ++ acc
  | CFalse => lit_false ++ acc
  | CNum n => n ++ acc
  | CStr b => 34 :: strf b ++ 34 :: acc
  | CArr w es => 91 :: match es with [] => wsf w ++ 93 :: acc | _ => elems_text cprint es acc end
  | CObj w ms => 123 :: match ms with [] => wsf w ++ 125 :: acc | _ => mems_text cprint ms acc end
  end.
End Printers.

(* exact text of a tree followed by acc *)
Definition ctext (c : cst) (acc : bytes) : bytes := cprint (fun b => b) (fun w => w) c acc.

(* indent.go appendCompact with escape = true, inside string literals: <, >, & and the byte
   sequences E2 80 A8 / E2 80 A9 are replaced, everything else is kept *)
Fixpoint html_esc (s : bytes) : bytes :=
  match s with
  | [] => []
  | c :: r =>
    if (c =? 60) || (c =? 62) || (c =? 38) then u00 c ++ html_esc r
    else if c =? 226 then
      match r with
      | c2 :: c3 :: r3 =>
        if (c2 =? 128) && ((c3 =? 168) || (c3 =? 169)) then esc_202x c3 ++ html_esc r3
        else c :: html_esc r
      | _ => c :: html_esc r
      end
    else c :: html_esc r
  end.

Definition ccompact_html (c : cst) (acc : bytes) : bytes := cprint html_esc (fun _ => []) c acc.
Definition ccompact_plain (c : cst) (acc : bytes) : bytes := cprint (fun b => b) (fun _ => []) c acc.

(* ------------------------------------------------------------------------- *)
(* Abstract value                                                             *)

Fixpoint cst_json (c : cst) : json :=
  match c with
  | CNull => JNull
  | CTrue => JBool true
  | CFalse => JBool false
  | CNum n => JNum n
  | CStr b => JStr (unquote b)
  | CArr _ es => JArr (map (fun e => cst_json (snd (fst e))) es)
  | CObj _ ms => JObj (map (fun m => (unquote (snd (fst (fst m))), cst_json (snd (fst (snd m))))) ms)
  end.

(* ------------------------------------------------------------------------- *)
(* The encoding/json entry points used by jrpc2                               *)

(* json.Valid + decoding into interface-like tree *)
Definition parse (s : bytes) : option json :=
  match parse_doc s with Some (_, c, _) => Some (cst_json c) | None => None end.
Definition valid (s : bytes) : bool := match parse_doc s with Some _ => true | None => false end.

(* json.Unmarshal(s, *json.RawMessage): exact span of the value *)
Definition raw_value (s : bytes) : option bytes :=
  match parse_doc s with Some (_, c, _) => Some (ctext c []) | None => None end.

(* json.Unmarshal(s, *[]json.RawMessage): null leaves the slice nil, non-arrays are an error *)
Definition raw_elements (s : bytes) : option (list bytes) :=
  match parse_doc s with
  | Some (_, CArr _ es, _) => Some (map (fun e => ctext (snd (fst e)) []) es)
  | Some (_, CNull, _) => Some []
  | _ => None
  end.

(* json.Unmarshal(s, *map[string]json.RawMessage): (decoded key, raw value) in document order,
   duplicates kept (the consumer applies "last wins"); null leaves the map nil *)
Definition raw_members (s : bytes) : option (list (bytes * bytes)) :=
  match parse_doc s with
  | Some (_, CObj _ ms, _) =>
    Some (map (fun m => (unquote (snd (fst (fst m))), ctext (snd (fst (snd m))) [])) ms)
  | Some (_, CNull, _) => Some []
  | _ => None
  end.

(* the map a Go decoder builds from the members: a later duplicate key replaces the earlier entry *)
Fixpoint last_wins (l : list (bytes * bytes)) : list (bytes * bytes) :=
  match l with
  | [] => []
  | (k, v) :: r => if existsb (fun p => beq (fst p) k) r then last_wins r else (k, v) :: last_wins r
  end.

(* json.Unmarshal(s, *string): Some (Some x) = string x stored; Some None = null, target untouched;
   None = error (invalid JSON or a value of another type) *)
Definition unmarshal_string (s : bytes) : option (option bytes) :=
  match parse_doc s with
  | Some (_, CStr b, _) => Some (Some (unquote b))
  | Some (_, CNull, _) => Some None
  | _ => None
  end.

(* json.Compact (escape = false) and json.Marshal(json.RawMessage(s)) (escape = true) *)
Definition compact_plain (s : bytes) : option bytes :=
  match parse_doc s with Some (_, c, _) => Some (ccompact_plain c []) | None => None end.
Definition compact (s : bytes) : option bytes :=
  match parse_doc s with Some (_, c, _) => Some (ccompact_html c []) | None => None end.

(* A text that is exactly one value, no surrounding white space, valid when embedded d levels deep
   and followed by anything: the form of ids, params, results and error data inside messages. *)
Definition tight_at (d : N) (s : bytes) : bool :=
  match value_at d s with Some (_, []) => true | _ => false end.
