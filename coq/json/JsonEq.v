(* JsonEq: compaction keeps the VALUE.  html_esc (json.Compact / Marshal with escapeHTML) rewrites
   < > & U+2028 U+2029 inside string literals as \uXXXX escapes; [unquote] reads the rewritten body
   as the same string.  Hence
     compact p = Some q -> parse q = parse p
   (params / result / error data are JSON-equal after json.Marshal(RawMessage), as abstract values,
   not only as token streams). *)
From Coq Require Import List NArith Bool Arith Lia.
From JV Require Import Bytes Json JsonProofs JsonPrint JsonTree.
Import ListNotations.
Local Open Scope N_scope.

(* ---- the shapes of a string body ---- *)
Lemma body_cases b : body_okb b = true ->
  b = [] \/
  (exists c r, b = c :: r /\ sclass_of c = SPlain /\ body_okb r = true) \/
  (exists e r, b = 92 :: e :: r /\ eclass_of e = ESimple /\ body_okb r = true) \/
  (exists h1 h2 h3 h4 r, b = 92 :: 117 :: h1 :: h2 :: h3 :: h4 :: r /\
                         is_hex h1 && is_hex h2 && is_hex h3 && is_hex h4 = true /\ body_okb r = true).
Proof.
  intros H. apply body_okb_spec in H. destruct b as [|c r]; [left; reflexivity|]. right.
  cbn [app pstr] in H. destruct (sclass_of c) eqn:Ec.
  - discriminate H.
  - apply sback_92 in Ec. subst c. right. destruct r as [|e r1].
    + cbn [app] in H. change (eclass_of 34) with ESimple in H. cbn [pstr] in H. discriminate H.
    + cbn [app] in H. destruct (eclass_of e) eqn:Ee.
      * left. destruct (pstr (r1 ++ [34])) as [[b' r']|] eqn:Ep; [|discriminate]. injection H as -> ->.
        exists e, r1. split; [reflexivity|]. split; [exact Ee|]. apply body_okb_spec. exact Ep.
      * right.
        assert (e = 117) as -> by (unfold eclass_of in Ee; destruct (_ || _); [discriminate|]; destruct (e =? 117) eqn:E; [apply N.eqb_eq; exact E | discriminate]).
        destruct r1 as [|h1 [|h2 [|h3 [|h4 r2]]]]; cbn [app] in H; try discriminate H;
          try (match type of H with (if ?x then _ else _) = _ => destruct x end; [cbn [pstr] in H|]; discriminate H).
        destruct (is_hex h1 && is_hex h2 && is_hex h3 && is_hex h4) eqn:Eh; [|discriminate].
        destruct (pstr (r2 ++ [34])) as [[b' r']|] eqn:Ep; [|discriminate]. injection H as -> ->.
        exists h1, h2, h3, h4, r2. split; [reflexivity|]. split; [exact Eh|]. apply body_okb_spec. exact Ep.
      * discriminate.
  - discriminate.
  - left. destruct (pstr (r ++ [34])) as [[b' r']|] eqn:Ep; [|discriminate]. injection H as -> ->.
    exists c, r. split; [reflexivity|]. split; [exact Ec|]. apply body_okb_spec. exact Ep.
Qed.

Lemma body_okb_plain_tail c r : sclass_of c = SPlain -> body_okb (c :: r) = true -> body_okb r = true.
Proof.
  intros Hc H. apply body_okb_spec in H. cbn [app pstr] in H. rewrite Hc in H.
  destruct (pstr (r ++ [34])) as [[b' r']|] eqn:Ep; [|discriminate]. injection H as -> ->. apply body_okb_spec. exact Ep.
Qed.

Lemma body_okb_skip_high a : forall x, all_high a = true -> body_okb (a ++ x) = true -> body_okb x = true.
Proof.
  induction a as [|c a IH]; intros x Ha H; [exact H|]. cbn [all_high forallb] in Ha. apply andb_true_iff in Ha as [Hc Ha].
  apply N.leb_le in Hc. apply (IH x Ha). exact (body_okb_plain_tail c _ (high_plain c Hc) H).
Qed.

(* ---- utf8_seq_len does not see what html_esc changes ---- *)
Fixpoint agree (k : nat) (r r' : bytes) : Prop :=
  match k with
  | O => True
  | S k' =>
    match r, r' with
    | x :: t, y :: t' => (is_cont x = true /\ x = y /\ agree k' t t') \/ (is_cont x = false /\ is_cont y = false)
    | [], [] => True
    | [], y :: _ => is_cont y = false
    | x :: _, [] => is_cont x = false
    end
  end.

Lemma cont_plain x : is_cont x = true -> special x = false /\ (x =? 226) = false.
Proof.
  unfold is_cont, in_rng. intros H. apply andb_true_iff in H as [A B]. apply N.leb_le in A, B.
  unfold special. repeat match goal with |- context [?a =? ?b] => replace (a =? b) with false by (symmetry; apply N.eqb_neq; lia) end.
  split; reflexivity.
Qed.

Lemma html_esc_noncont x t : is_cont x = false -> exists y t', html_esc (x :: t) = y :: t' /\ is_cont y = false.
Proof.
  intros Hx. rewrite html_esc_cons. destruct (special x).
  - exists 92. eexists. split; [reflexivity | reflexivity].
  - destruct (x =? 226).
    + destruct t as [|c2 [|c3 r3]]; try (exists x; eexists; split; [reflexivity | exact Hx]).
      destruct ((c2 =? 128) && ((c3 =? 168) || (c3 =? 169))); [exists 92; eexists; split; reflexivity|].
      exists x; eexists; split; [reflexivity | exact Hx].
    + exists x; eexists; split; [reflexivity | exact Hx].
Qed.

Lemma html_esc_agree k : forall r, agree k r (html_esc r).
Proof.
  induction k as [|k IH]; intros r; [exact I|]. destruct r as [|x t]; [exact I|].
  destruct (is_cont x) eqn:Ex.
  - destruct (cont_plain x Ex) as [A B]. rewrite (html_esc_plain x t A B). cbn [agree]. left. repeat split; [exact Ex | apply IH].
  - destruct (html_esc_noncont x t Ex) as (y & t' & -> & Hy). cbn [agree]. right. split; assumption.
Qed.

Lemma in_rng_cont x lo hi : 128 <= lo -> hi <= 191 -> in_rng x lo hi = true -> is_cont x = true.
Proof.
  unfold is_cont, in_rng. intros Hlo Hhi H. apply andb_true_iff in H as [A B]. apply N.leb_le in A, B.
  apply andb_true_iff. split; apply N.leb_le; lia.
Qed.

Lemma in_rng_noncont x lo hi : 128 <= lo -> hi <= 191 -> is_cont x = false -> in_rng x lo hi = false.
Proof. intros Hlo Hhi Hx. destruct (in_rng x lo hi) eqn:E; [|reflexivity]. rewrite (in_rng_cont x lo hi Hlo Hhi E) in Hx. discriminate. Qed.

Lemma seq_len_agree c r r' : agree 3 r r' -> utf8_seq_len c r = utf8_seq_len c r'.
Proof.
  intros H. unfold utf8_seq_len.
  destruct (in_rng c 194 223).
  { destruct r as [|x t], r' as [|y t']; cbn [agree] in H.
    - reflexivity.
    - rewrite H. reflexivity.
    - rewrite H. reflexivity.
    - destruct H as [(A & <- & _)|(A & B)]; [reflexivity | rewrite A, B; reflexivity]. }
  destruct (in_rng c 224 239).
  { set (lo := if c =? 224 then 160 else 128). set (hi := if c =? 237 then 159 else 191).
    assert (Hlo : 128 <= lo) by (unfold lo; destruct (c =? 224); lia).
    assert (Hhi : hi <= 191) by (unfold hi; destruct (c =? 237); lia).
    destruct r as [|x t], r' as [|y t']; cbn [agree] in H.
    - reflexivity.
    - destruct t' as [|y2 t'']; [reflexivity|]. rewrite (in_rng_noncont y lo hi Hlo Hhi H). reflexivity.
    - destruct t as [|x2 t2]; [reflexivity|]. rewrite (in_rng_noncont x lo hi Hlo Hhi H). reflexivity.
    - destruct H as [(A & <- & H)|(A & B)].
      + destruct t as [|x2 t2], t' as [|y2 t2']; cbn [agree] in H.
        * reflexivity.
        * rewrite H, andb_false_r. reflexivity.
        * rewrite H, andb_false_r. reflexivity.
        * destruct H as [(A2 & <- & _)|(A2 & B2)]; [reflexivity | rewrite A2, B2, !andb_false_r; reflexivity].
      + rewrite (in_rng_noncont x lo hi Hlo Hhi A), (in_rng_noncont y lo hi Hlo Hhi B).
        destruct t as [|x2 t2], t' as [|y2 t2']; reflexivity. }
  destruct (in_rng c 240 244); [|reflexivity].
  set (lo := if c =? 240 then 144 else 128). set (hi := if c =? 244 then 143 else 191).
  assert (Hlo : 128 <= lo) by (unfold lo; destruct (c =? 240); lia).
  assert (Hhi : hi <= 191) by (unfold hi; destruct (c =? 244); lia).
  destruct r as [|x t], r' as [|y t']; cbn [agree] in H.
  - reflexivity.
  - destruct t' as [|y2 [|y3 t'']]; try reflexivity. rewrite (in_rng_noncont y lo hi Hlo Hhi H). reflexivity.
  - destruct t as [|x2 [|x3 t2]]; try reflexivity. rewrite (in_rng_noncont x lo hi Hlo Hhi H). reflexivity.
  - destruct H as [(A & <- & H)|(A & B)].
    + destruct t as [|x2 t2], t' as [|y2 t2']; cbn [agree] in H.
      * reflexivity.
      * destruct t2' as [|y3 t3']; [reflexivity|]. rewrite H, andb_false_r. reflexivity.
      * destruct t2 as [|x3 t3]; [reflexivity|]. rewrite H, andb_false_r. reflexivity.
      * destruct H as [(A2 & <- & H)|(A2 & B2)].
        -- destruct t2 as [|x3 t3], t2' as [|y3 t3']; cbn [agree] in H.
           ++ reflexivity.
           ++ rewrite H, andb_false_r. reflexivity.
           ++ rewrite H, andb_false_r. reflexivity.
           ++ destruct H as [(A3 & <- & _)|(A3 & B3)]; [reflexivity | rewrite A3, B3, !andb_false_r; reflexivity].
        -- rewrite A2, B2. rewrite !andb_false_r. cbn [andb].
           destruct t2 as [|x3 t3], t2' as [|y3 t3']; reflexivity.
    + rewrite (in_rng_noncont x lo hi Hlo Hhi A), (in_rng_noncont y lo hi Hlo Hhi B).
      destruct t as [|x2 [|x3 t2]], t' as [|y2 [|y3 t2']]; reflexivity.
Qed.

Lemma seq_len_html c r : utf8_seq_len c (html_esc r) = utf8_seq_len c r.
Proof. symmetry. apply seq_len_agree. apply html_esc_agree. Qed.

(* ---- continuation bytes ---- *)
Lemma seq_len_conts c r n : utf8_seq_len c r = S n -> forallb is_cont (firstn n r) = true /\ length (firstn n r) = n.
Proof.
  unfold utf8_seq_len.
  destruct (in_rng c 194 223).
  { destruct r as [|c2 r]; [discriminate|]. destruct (is_cont c2) eqn:E; [|discriminate].
    intros H; injection H as <-. cbn [firstn forallb length]. rewrite E. split; reflexivity. }
  destruct (in_rng c 224 239).
  { set (lo := if c =? 224 then 160 else 128). set (hi := if c =? 237 then 159 else 191).
    assert (Hlo : 128 <= lo) by (unfold lo; destruct (c =? 224); lia).
    assert (Hhi : hi <= 191) by (unfold hi; destruct (c =? 237); lia).
    destruct r as [|c2 [|c3 r]]; try discriminate.
    destruct (in_rng c2 lo hi && is_cont c3) eqn:E; [|discriminate]. apply andb_true_iff in E as [E2 E3].
    intros H; injection H as <-. cbn [firstn forallb length]. rewrite (in_rng_cont c2 lo hi Hlo Hhi E2), E3. split; reflexivity. }
  destruct (in_rng c 240 244); [|discriminate].
  set (lo := if c =? 240 then 144 else 128). set (hi := if c =? 244 then 143 else 191).
  assert (Hlo : 128 <= lo) by (unfold lo; destruct (c =? 240); lia).
  assert (Hhi : hi <= 191) by (unfold hi; destruct (c =? 244); lia).
  destruct r as [|c2 [|c3 [|c4 r]]]; try discriminate.
  destruct (in_rng c2 lo hi && is_cont c3 && is_cont c4) eqn:E; [|discriminate].
  apply andb_true_iff in E as [E E4]. apply andb_true_iff in E as [E2 E3].
  intros H; injection H as <-. cbn [firstn forallb length]. rewrite (in_rng_cont c2 lo hi Hlo Hhi E2), E3, E4. split; reflexivity.
Qed.

Lemma html_esc_conts a : forall x, forallb is_cont a = true -> html_esc (a ++ x) = a ++ html_esc x.
Proof.
  induction a as [|c a IH]; intros x Ha; [reflexivity|]. cbn [forallb] in Ha. apply andb_true_iff in Ha as [Hc Ha].
  destruct (cont_plain c Hc) as [A B]. cbn [app]. rewrite (html_esc_plain c _ A B), (IH x Ha). reflexivity.
Qed.

Lemma conts_high a : forallb is_cont a = true -> all_high a = true.
Proof.
  unfold all_high. rewrite !forallb_forall. intros H x Hx. specialize (H x Hx). unfold is_cont, in_rng in H.
  apply andb_true_iff in H as [H _]. exact H.
Qed.

(* ---- unq on \uXXXX ---- *)
Definition surr_tail (u : N) (r2 : bytes) (k : bytes -> bytes) : bytes :=
  match r2 with
  | b :: u' :: l1 :: l2 :: l3 :: l4 :: r3 =>
    if (b =? 92) && (u' =? 117) && is_hex l1 && is_hex l2 && is_hex l3 && is_hex l4
       && is_hi_surr u && is_lo_surr (hex4 l1 l2 l3 l4)
    then utf8_enc (65536 + (u - 55296) * 1024 + (hex4 l1 l2 l3 l4 - 56320)) ++ k r3
    else repl_char ++ k r2
  | _ => repl_char ++ k r2
  end.

Lemma unq_u_eq h1 h2 h3 h4 r2 :
  unq O (92 :: 117 :: h1 :: h2 :: h3 :: h4 :: r2) =
  if is_surr (hex4 h1 h2 h3 h4) then surr_tail (hex4 h1 h2 h3 h4) r2 (unq O)
  else utf8_enc (hex4 h1 h2 h3 h4) ++ unq O r2.
Proof.
  cbn [unq]. change (92 =? 92) with true. change (117 =? 117) with true. cbv iota zeta.
  destruct (is_surr (hex4 h1 h2 h3 h4)); [|reflexivity].
  unfold surr_tail. destruct r2 as [|b [|u' [|l1 [|l2 [|l3 [|l4 r3]]]]]]; reflexivity.
Qed.

Lemma surr_tail_not92 u c t k : (c =? 92) = false -> surr_tail u (c :: t) k = repl_char ++ k (c :: t).
Proof. intros H. unfold surr_tail. destruct t as [|a [|b [|c' [|d [|e t]]]]]; try reflexivity. rewrite H. reflexivity. Qed.

Lemma surr_tail_not117 u e t k : (e =? 117) = false -> surr_tail u (92 :: e :: t) k = repl_char ++ k (92 :: e :: t).
Proof. intros H. unfold surr_tail. destruct t as [|b [|c' [|d [|e' t]]]]; try reflexivity. rewrite H, andb_false_r. reflexivity. Qed.

Lemma surr_tail_notlo u l1 l2 l3 l4 t k : is_lo_surr (hex4 l1 l2 l3 l4) = false ->
  surr_tail u (92 :: 117 :: l1 :: l2 :: l3 :: l4 :: t) k = repl_char ++ k (92 :: 117 :: l1 :: l2 :: l3 :: l4 :: t).
Proof. intros H. unfold surr_tail. rewrite H, andb_false_r. reflexivity. Qed.

Lemma splain_not92 c : sclass_of c = SPlain -> (c =? 92) = false /\ (c =? 34) = false /\ (c <? 32) = false.
Proof.
  unfold sclass_of. destruct (c =? 34); [discriminate|]. destruct (c =? 92); [discriminate|]. destruct (c <? 32); [discriminate|].
  repeat split.
Qed.

Lemma simple_not117 e : eclass_of e = ESimple -> (e =? 117) = false.
Proof.
  unfold eclass_of. destruct ((e =? 98) || (e =? 102) || (e =? 110) || (e =? 114) || (e =? 116) || (e =? 92) || (e =? 47) || (e =? 34)) eqn:E;
    [|destruct (e =? 117); discriminate].
  intros _. repeat (apply orb_true_iff in E as [E|E]); apply N.eqb_eq in E; subst e; reflexivity.
Qed.

Lemma html_esc_u h1 h2 h3 h4 r : is_hex h1 && is_hex h2 && is_hex h3 && is_hex h4 = true ->
  html_esc (92 :: 117 :: h1 :: h2 :: h3 :: h4 :: r) = 92 :: 117 :: h1 :: h2 :: h3 :: h4 :: html_esc r.
Proof.
  intros Eh. apply andb_true_iff in Eh as [Eh H4]. apply andb_true_iff in Eh as [Eh H3]. apply andb_true_iff in Eh as [H1 H2].
  destruct (is_hex_plain _ H1) as [A1 B1]. destruct (is_hex_plain _ H2) as [A2 B2].
  destruct (is_hex_plain _ H3) as [A3 B3]. destruct (is_hex_plain _ H4) as [A4 B4].
  rewrite (html_esc_plain 92) by reflexivity. rewrite (html_esc_plain 117) by reflexivity.
  rewrite (html_esc_plain h1 _ A1 B1), (html_esc_plain h2 _ A2 B2), (html_esc_plain h3 _ A3 B3), (html_esc_plain h4 _ A4 B4).
  reflexivity.
Qed.

Lemma html_esc_simple e r : eclass_of e = ESimple -> html_esc (92 :: e :: r) = 92 :: e :: html_esc r.
Proof.
  intros Ee. destruct (simple_plain e Ee) as [A B]. rewrite (html_esc_plain 92) by reflexivity. rewrite (html_esc_plain e _ A B). reflexivity.
Qed.

Lemma unq_plain_ascii c t : (c =? 92) = false -> c < 128 -> unq O (c :: t) = c :: unq O t.
Proof. intros H1 H2. cbn [unq]. rewrite H1. replace (c <? 128) with true by (symmetry; apply N.ltb_lt; exact H2). reflexivity. Qed.

Lemma unq_high c t : 128 <= c -> unq O (c :: t) = match utf8_seq_len c t with O => repl_char ++ unq O t | S n => c :: unq n t end.
Proof.
  intros H. cbn [unq]. replace (c =? 92) with false by (symmetry; apply N.eqb_neq; lia).
  replace (c <? 128) with false by (symmetry; apply N.ltb_ge; lia). reflexivity.
Qed.

Lemma unq_simple e t : (e =? 117) = false -> unq O (92 :: e :: t) = esc_char e :: unq O t.
Proof. intros H. cbn [unq]. change (92 =? 92) with true. cbv iota. rewrite H. reflexivity. Qed.

(* ---- the main induction ---- *)
Definition unq_html (x : bytes) : Prop := unq O (html_esc x) = unq O x.

Lemma surr_tail_html u r2 : body_okb r2 = true ->
  (forall x, (length x <= length r2)%nat -> body_okb x = true -> unq_html x) ->
  surr_tail u (html_esc r2) (unq O) = surr_tail u r2 (unq O).
Proof.
  intros Hb IH. pose proof (IH r2 (le_n _) Hb) as IH2. unfold unq_html in IH2.
  destruct (body_cases r2 Hb) as [->|[(c & r & -> & Hc & Hr)|[(e & r & -> & He & Hr)|(l1 & l2 & l3 & l4 & r3 & -> & Hh & Hr)]]].
  - reflexivity.
  - destruct (splain_not92 c Hc) as (N92 & _ & _). rewrite (surr_tail_not92 u c r _ N92).
    rewrite html_esc_cons in *. destruct (special c) eqn:Es.
    + assert (Hlo : is_lo_surr (hex4 48 48 (hexdig (c / 16)) (hexdig (c mod 16))) = false).
      { unfold special in Es. repeat (apply orb_true_iff in Es as [Es|Es]); apply N.eqb_eq in Es; subst c; reflexivity. }
      unfold u00 in *. cbn [app] in *. rewrite (surr_tail_notlo u _ _ _ _ _ _ Hlo). rewrite IH2. reflexivity.
    + destruct (c =? 226) eqn:E226.
      * destruct r as [|c2 [|c3 r3]]; try (rewrite (surr_tail_not92 u c _ _ N92), IH2; reflexivity).
        destruct ((c2 =? 128) && ((c3 =? 168) || (c3 =? 169))) eqn:Epat; [|rewrite (surr_tail_not92 u c _ _ N92), IH2; reflexivity].
        assert (Hlo : is_lo_surr (hex4 50 48 50 (hexdig (c3 mod 16))) = false).
        { apply andb_true_iff in Epat as [_ E3]. apply orb_true_iff in E3 as [E3|E3]; apply N.eqb_eq in E3; subst c3; reflexivity. }
        unfold esc_202x in *. cbn [app] in *. rewrite (surr_tail_notlo u _ _ _ _ _ _ Hlo). rewrite IH2. reflexivity.
      * rewrite (surr_tail_not92 u c _ _ N92), IH2. reflexivity.
  - pose proof (simple_not117 e He) as N117. rewrite (surr_tail_not117 u e r _ N117).
    rewrite (html_esc_simple e r He) in *. rewrite (surr_tail_not117 u e _ _ N117), IH2. reflexivity.
  - rewrite (html_esc_u _ _ _ _ r3 Hh) in *. unfold surr_tail.
    destruct ((92 =? 92) && (117 =? 117) && is_hex l1 && is_hex l2 && is_hex l3 && is_hex l4 && is_hi_surr u && is_lo_surr (hex4 l1 l2 l3 l4)).
    + assert (H3 : unq_html r3) by (apply IH; [cbn [length]; lia | exact Hr]). unfold unq_html in H3. rewrite H3. reflexivity.
    + rewrite IH2. reflexivity.
Qed.

Lemma unq_html_len m : forall b, (length b <= m)%nat -> body_okb b = true -> unq_html b.
Proof.
  induction m as [|m IH]; intros b Hl Hb.
  - destruct b; [reflexivity | cbn in Hl; lia].
  - destruct (body_cases b Hb) as [->|[(c & r & -> & Hc & Hr)|[(e & r & -> & He & Hr)|(h1 & h2 & h3 & h4 & r2 & -> & Hh & Hr)]]].
    + reflexivity.
    + cbn [length] in Hl. pose proof (IH r ltac:(lia) Hr) as IHr. unfold unq_html in *.
      destruct (splain_not92 c Hc) as (N92 & N34 & N32).
      rewrite html_esc_cons. destruct (special c) eqn:Es.
      * pose proof (special_lt c Es) as Hlt. rewrite (unq_u00 c _ Hlt), IHr, (unq_plain_ascii c r N92 Hlt). reflexivity.
      * assert (Hgen : unq O (c :: html_esc r) = unq O (c :: r)).
        { destruct (c <? 128) eqn:E128.
          - apply N.ltb_lt in E128. rewrite !(unq_plain_ascii c _ N92 E128), IHr. reflexivity.
          - apply N.ltb_ge in E128. rewrite !(unq_high c _ E128), seq_len_html.
            destruct (utf8_seq_len c r) as [|n] eqn:El; [rewrite IHr; reflexivity|].
            destruct (seq_len_conts c r n El) as [Hcs Hln].
            rewrite <- (firstn_skipn n r) at 1. rewrite (html_esc_conts _ _ Hcs). rewrite (unq_firstn n (firstn n r ++ html_esc (skipn n r))), (unq_firstn n r).
            destruct (firstn_app_exact n (firstn n r) (html_esc (skipn n r)) Hln) as [-> ->].
            assert (Hs : unq O (html_esc (skipn n r)) = unq O (skipn n r)).
            { apply IH; [rewrite skipn_length; lia|]. apply (body_okb_skip_high (firstn n r)); [exact (conts_high _ Hcs)|].
              rewrite firstn_skipn. exact Hr. }
            rewrite Hs. reflexivity. }
        destruct (c =? 226) eqn:E226; [|exact Hgen].
        destruct r as [|c2 [|c3 r3]]; try exact Hgen.
        destruct ((c2 =? 128) && ((c3 =? 168) || (c3 =? 169))) eqn:Epat; [|exact Hgen].
        apply N.eqb_eq in E226. subst c. apply andb_true_iff in Epat as [E2 E3]. apply N.eqb_eq in E2. subst c2.
        assert (H3 : c3 = 168 \/ c3 = 169) by (apply orb_true_iff in E3 as [E3|E3]; apply N.eqb_eq in E3; auto).
        assert (Hr3 : body_okb r3 = true).
        { apply (body_okb_plain_tail c3); [destruct H3 as [-> | ->]; reflexivity|]. apply (body_okb_plain_tail 128); [reflexivity | exact Hr]. }
        assert (IH3 : unq O (html_esc r3) = unq O r3) by (apply IH; [cbn [length] in Hl; lia | exact Hr3]).
        rewrite (unq_202x c3 _ H3), IH3. destruct H3 as [-> | ->]; reflexivity.
    + cbn [length] in Hl. pose proof (IH r ltac:(lia) Hr) as IHr. unfold unq_html in *.
      pose proof (simple_not117 e He) as N117.
      rewrite (html_esc_simple e r He), !(unq_simple e _ N117), IHr. reflexivity.
    + cbn [length] in Hl. pose proof (IH r2 ltac:(lia) Hr) as IHr. unfold unq_html in *.
      rewrite (html_esc_u _ _ _ _ r2 Hh), !unq_u_eq.
      destruct (is_surr (hex4 h1 h2 h3 h4)); [|rewrite IHr; reflexivity].
      apply surr_tail_html; [exact Hr|]. intros x Hx Hbx. apply IH; [lia | exact Hbx].
Qed.

(* html escaping does not change what a string literal denotes *)
Theorem unquote_html_esc b : body_okb b = true -> unquote (html_esc b) = unquote b.
Proof. intros H. exact (unq_html_len (length b) b (le_n _) H). Qed.

(* ---- compaction keeps the value ---- *)
Lemma cst_json_cpt c d : cwf d c = true -> cst_json (cpt c) = cst_json c.
Proof. apply cst_json_cmap. exact unquote_html_esc. Qed.

Theorem compact_parse p q : compact p = Some q -> parse q = parse p.
Proof.
  intros H. destruct (compact_inv _ _ H) as (w & c & w1 & Hp & Hwf & _ & Hq).
  unfold parse. rewrite Hp, Hq. rewrite (cst_json_cpt c 0 Hwf). reflexivity.
Qed.

Example compact_parse_nonvacuous :
  compact [32; 91; 34; 60; 226; 128; 168; 34; 44; 32; 49; 93] = Some [91; 34; 92; 117; 48; 48; 51; 99; 92; 117; 50; 48; 50; 56; 34; 44; 49; 93] /\
  parse [91; 34; 92; 117; 48; 48; 51; 99; 92; 117; 50; 48; 50; 56; 34; 44; 49; 93] = Some (JArr [JStr [60; 226; 128; 168]; JNum [49]]).
Proof. split; vm_compute; reflexivity. Qed.
