(* JsonPrint: parse-of-print facts about the fuelled parser [pval] of Json.v.
   Part 1: lexical helpers (tokens, white space).
   Part 2: the text of a parsed value: [pval f d s = Some (c, r) -> s = ctext c r].
   Part 3: fuel sufficiency and depth monotonicity: a parse that succeeds with some fuel at depth d
           succeeds with every fuel >= 2 * length s at every depth d' <= d.
   Part 4: prefix extension: a parse is not disturbed by appending a text that starts with a delimiter.
   Part 5: the string escaper: [pstr] reads [escape_body s] back, [unquote] undoes it on valid UTF-8.
   Part 6: hand-printed objects and arrays ([obj_text], [arr_text]) are read back member by member. *)
From Coq Require Import List NArith Bool Arith Lia.
From JV Require Import Bytes Json JsonProofs.
Import ListNotations.
Local Open Scope N_scope.

Local Notation cp := (cprint (fun b : bytes => b) (fun w : bytes => w)).

(* ------------------------------------------------------------------------- *)
(* Part 1: lexical helpers *)

Lemma tk_inv s t r : tk s = (t, r) ->
  match t with
  | TEnd => s = [] /\ r = []
  | TQuote => s = 34 :: r | TLBrack => s = 91 :: r | TRBrack => s = 93 :: r
  | TLBrace => s = 123 :: r | TRBrace => s = 125 :: r | TComma => s = 44 :: r | TColon => s = 58 :: r
  | TOther => exists c, s = c :: r /\ tok_of c = TOther
  end.
Proof.
  destruct s as [|c s']; cbn [tk]; intros H; injection H as <- <-; [split; reflexivity|].
  unfold tok_of.
  destruct (c =? 34) eqn:E1; [apply N.eqb_eq in E1; subst c; reflexivity|].
  destruct (c =? 91) eqn:E2; [apply N.eqb_eq in E2; subst c; reflexivity|].
  destruct (c =? 93) eqn:E3; [apply N.eqb_eq in E3; subst c; reflexivity|].
  destruct (c =? 123) eqn:E4; [apply N.eqb_eq in E4; subst c; reflexivity|].
  destruct (c =? 125) eqn:E5; [apply N.eqb_eq in E5; subst c; reflexivity|].
  destruct (c =? 44) eqn:E6; [apply N.eqb_eq in E6; subst c; reflexivity|].
  destruct (c =? 58) eqn:E7; [apply N.eqb_eq in E7; subst c; reflexivity|].
  exists c. split; [reflexivity|]. unfold tok_of. rewrite E1, E2, E3, E4, E5, E6, E7. reflexivity.
Qed.

Lemma split_ws_text s : forall w r, split_ws s = (w, r) -> s = w ++ r.
Proof.
  induction s as [|c s IH]; intros w r H; cbn [split_ws] in H.
  - injection H as <- <-. reflexivity.
  - destruct (is_ws c).
    + destruct (split_ws s) as [w' r'] eqn:E. injection H as <- <-. rewrite (IH _ _ eq_refl). reflexivity.
    + injection H as <- <-. reflexivity.
Qed.

(* the text left by split_ws does not start with white space *)
Lemma split_ws_rest s : forall w r, split_ws s = (w, r) -> match r with [] => True | x :: _ => is_ws x = false end.
Proof.
  induction s as [|c s IH]; intros w r H; cbn [split_ws] in H.
  - injection H as <- <-. exact I.
  - destruct (is_ws c) eqn:Ec.
    + destruct (split_ws s) as [w' r'] eqn:E. injection H as <- <-. exact (IH _ _ eq_refl).
    + injection H as <- <-. exact Ec.
Qed.

Lemma split_ws_nows x s : is_ws x = false -> split_ws (x :: s) = ([], x :: s).
Proof. intros H. cbn [split_ws]. rewrite H. reflexivity. Qed.

(* ------------------------------------------------------------------------- *)
(* Part 2: the text of a parsed value *)

Lemma pscalar_text s c r : pscalar s = Some (c, r) -> s = cp c r.
Proof.
  unfold pscalar. intros H.
  destruct (strip_prefix lit_true s) as [r1|] eqn:E1.
  { injection H as <- <-. exact (strip_prefix_sound _ _ _ E1). }
  destruct (strip_prefix lit_false s) as [r2|] eqn:E2.
  { injection H as <- <-. exact (strip_prefix_sound _ _ _ E2). }
  destruct (strip_prefix lit_null s) as [r3|] eqn:E3.
  { injection H as <- <-. exact (strip_prefix_sound _ _ _ E3). }
  destruct (pnum s) as [[n r4]|] eqn:E4; [|discriminate].
  injection H as <- <-. exact (proj1 (pnum_props _ _ _ E4)).
Qed.

Lemma parser_text f :
  (forall d s c r, pval f d s = Some (c, r) -> s = cp c r) /\
  (forall d w s es r, pelems f d w s = Some (es, r) -> es <> [] /\ w ++ s = elems_text (fun x => x) cp es r) /\
  (forall d w s ms r, pmems f d w s = Some (ms, r) -> ms <> [] /\ w ++ s = mems_text (fun x => x) (fun x => x) cp ms r).
Proof.
  induction f as [|f (IHv & IHe & IHm)]; [repeat split; intros; discriminate|].
  split; [|split].
  - intros d s c r H. cbn [pval] in H.
    destruct (tk s) as [t r0] eqn:Et. apply tk_inv in Et. destruct t; try discriminate.
    + (* string *) subst s. destruct (pstr r0) as [[b r']|] eqn:Ep; [|discriminate]. injection H as <- <-.
      cbn [cprint]. rewrite (proj1 (pstr_props _ _ _ Ep)). reflexivity.
    + (* array *) subst s. destruct (max_depth <=? d); [discriminate|].
      destruct (split_ws r0) as [w r1] eqn:Ew. apply split_ws_text in Ew. subst r0.
      destruct (tk r1) as [t1 r2] eqn:Et1. pose proof (tk_inv _ _ _ Et1) as Ht1.
      assert (Hgen : match pelems f (N.succ d) w r1 with Some (es, r3) => Some (CArr [] es, r3) | None => None end = Some (c, r) ->
                     91 :: w ++ r1 = cp c r).
      { destruct (pelems f (N.succ d) w r1) as [[es r3]|] eqn:Ee; [|discriminate]. intros H'. injection H' as <- <-.
        destruct (IHe _ _ _ _ _ Ee) as [Hne Htx]. cbn [cprint]. destruct es; [contradiction|]. rewrite Htx. reflexivity. }
      destruct t1; try exact (Hgen H).
      injection H as <- <-. subst r1. reflexivity.
    + (* object *) subst s. destruct (max_depth <=? d); [discriminate|].
      destruct (split_ws r0) as [w r1] eqn:Ew. apply split_ws_text in Ew. subst r0.
      destruct (tk r1) as [t1 r2] eqn:Et1. pose proof (tk_inv _ _ _ Et1) as Ht1.
      assert (Hgen : match pmems f (N.succ d) w r1 with Some (ms, r3) => Some (CObj [] ms, r3) | None => None end = Some (c, r) ->
                     123 :: w ++ r1 = cp c r).
      { destruct (pmems f (N.succ d) w r1) as [[ms r3]|] eqn:Ee; [|discriminate]. intros H'. injection H' as <- <-.
        destruct (IHm _ _ _ _ _ Ee) as [Hne Htx]. cbn [cprint]. destruct ms; [contradiction|]. rewrite Htx. reflexivity. }
      destruct t1; try exact (Hgen H).
      injection H as <- <-. subst r1. reflexivity.
    + exact (pscalar_text _ _ _ H).
  - intros d w s es r H. cbn [pelems] in H.
    destruct (pval f d s) as [[c r1]|] eqn:Ev; [|discriminate]. apply IHv in Ev. subst s.
    destruct (split_ws r1) as [wa r2] eqn:Ew. apply split_ws_text in Ew. subst r1.
    destruct (tk r2) as [t r3] eqn:Et. apply tk_inv in Et. destruct t; try discriminate.
    + injection H as <- <-. subst r2. split; [discriminate|]. reflexivity.
    + destruct (split_ws r3) as [wb r4] eqn:Ew2. apply split_ws_text in Ew2. subst r3.
      destruct (pelems f d wb r4) as [[es' r5]|] eqn:Ee; [|discriminate]. injection H as <- <-.
      destruct (IHe _ _ _ _ _ Ee) as [Hne Htx]. split; [discriminate|]. subst r2.
      cbn [elems_text]. destruct es' as [|e' es'']; [contradiction|]. rewrite <- Htx. reflexivity.
  - intros d w s ms r H. cbn [pmems] in H.
    destruct (tk s) as [t r0] eqn:Et. apply tk_inv in Et. destruct t; try discriminate. subst s.
    destruct (pstr r0) as [[k r1]|] eqn:Ep; [|discriminate]. apply pstr_props in Ep as [-> _].
    destruct (split_ws r1) as [wc r2] eqn:Ew. apply split_ws_text in Ew. subst r1.
    destruct (tk r2) as [t r3] eqn:Et. apply tk_inv in Et. destruct t; try discriminate. subst r2.
    destruct (split_ws r3) as [wv r4] eqn:Ew. apply split_ws_text in Ew. subst r3.
    destruct (pval f d r4) as [[c r5]|] eqn:Ev; [|discriminate]. apply IHv in Ev. subst r4.
    destruct (split_ws r5) as [wa r6] eqn:Ew. apply split_ws_text in Ew. subst r5.
    destruct (tk r6) as [t r7] eqn:Et. apply tk_inv in Et. destruct t; try discriminate.
    + injection H as <- <-. subst r6. split; [discriminate|]. cbn [mems_text]. rewrite <- ?app_assoc. reflexivity.
    + destruct (split_ws r7) as [wb r8] eqn:Ew. apply split_ws_text in Ew. subst r7.
      destruct (pmems f d wb r8) as [[ms' r9]|] eqn:Em; [|discriminate]. injection H as <- <-.
      destruct (IHm _ _ _ _ _ Em) as [Hne Htx]. split; [discriminate|]. subst r6.
      cbn [mems_text]. destruct ms' as [|m' ms'']; [contradiction|]. rewrite <- Htx. rewrite <- ?app_assoc. reflexivity.
Qed.

Lemma pval_text f d s c r : pval f d s = Some (c, r) -> s = ctext c r.
Proof. exact (proj1 (parser_text f) d s c r). Qed.

(* ------------------------------------------------------------------------- *)
(* Part 3: fuel sufficiency and depth monotonicity *)

Lemma strip_prefix_len p s r : strip_prefix p s = Some r -> length s = (length p + length r)%nat.
Proof. intros H. rewrite (strip_prefix_sound _ _ _ H), app_length. reflexivity. Qed.

Lemma pscalar_len s c r : pscalar s = Some (c, r) -> (length r < length s)%nat.
Proof.
  unfold pscalar. intros H.
  destruct (strip_prefix lit_true s) as [r1|] eqn:E1.
  { injection H as <- <-. apply strip_prefix_len in E1. cbn [lit_true length] in E1. lia. }
  destruct (strip_prefix lit_false s) as [r2|] eqn:E2.
  { injection H as <- <-. apply strip_prefix_len in E2. cbn [lit_false length] in E2. lia. }
  destruct (strip_prefix lit_null s) as [r3|] eqn:E3.
  { injection H as <- <-. apply strip_prefix_len in E3. cbn [lit_null length] in E3. lia. }
  destruct (pnum s) as [[n r4]|] eqn:E4; [|discriminate].
  injection H as <- <-. pose proof (pnum_nonempty _ _ _ E4) as Hne. apply pnum_props in E4 as [-> _].
  rewrite app_length. destruct n; [contradiction|]. cbn [length]. lia.
Qed.

Lemma parser_fuel f :
  (forall d s c r, pval f d s = Some (c, r) ->
     (length r < length s)%nat /\
     forall g d', (2 * (length s - length r) <= g)%nat -> d' <= d -> pval g d' s = Some (c, r)) /\
  (forall d w s es r, pelems f d w s = Some (es, r) ->
     (length r < length s)%nat /\
     forall g d', (2 * (length s - length r) <= g)%nat -> d' <= d -> pelems g d' w s = Some (es, r)) /\
  (forall d w s ms r, pmems f d w s = Some (ms, r) ->
     (length r < length s)%nat /\
     forall g d', (2 * (length s - length r) <= g)%nat -> d' <= d -> pmems g d' w s = Some (ms, r)).
Proof.
  induction f as [|f (IHv & IHe & IHm)]; [repeat split; intros; discriminate|].
  split; [|split].
  - intros d s c r H. cbn [pval] in H.
    destruct (tk s) as [t r0] eqn:Et. pose proof (tk_inv _ _ _ Et) as Hs. destruct t; try discriminate.
    + (* string *)
      destruct (pstr r0) as [[b r']|] eqn:Ep; [|discriminate]. injection H as <- <-.
      pose proof (pstr_props _ _ _ Ep) as [Hr0 _].
      assert (L : length s = S (length b + S (length r'))) by (rewrite Hs, Hr0; cbn [length]; rewrite app_length; reflexivity).
      split; [lia|]. intros g d' Hg Hd. destruct g as [|g]; [lia|]. cbn [pval]. rewrite Et, Ep. reflexivity.
    + (* array *)
      destruct (max_depth <=? d) eqn:Ed; [discriminate|]. apply N.leb_gt in Ed.
      destruct (split_ws r0) as [w r1] eqn:Ew. pose proof (split_ws_text _ _ _ Ew) as Hr0.
      destruct (tk r1) as [t1 r2] eqn:Et1.
      assert (L0 : length s = S (length w + length r1)) by (rewrite Hs, Hr0; cbn [length]; rewrite app_length; reflexivity).
      assert (Hgen : match pelems f (N.succ d) w r1 with Some (es, r3) => Some (CArr [] es, r3) | None => None end = Some (c, r) ->
                     t1 <> TRBrack ->
                     (length r < length s)%nat /\
                     forall g d', (2 * (length s - length r) <= g)%nat -> d' <= d -> pval g d' s = Some (c, r)).
      { destruct (pelems f (N.succ d) w r1) as [[es r3]|] eqn:Ee; [|discriminate]. intros H' Hnt. injection H' as <- <-.
        destruct (IHe _ _ _ _ _ Ee) as [L Hf]. split; [lia|]. intros g d' Hg Hd. destruct g as [|g]; [lia|]. cbn [pval]. rewrite Et.
        replace (max_depth <=? d') with false by (symmetry; apply N.leb_gt; lia). rewrite Ew, Et1.
        rewrite (Hf g (N.succ d')) by lia. destruct t1; try reflexivity. exfalso; apply Hnt; reflexivity. }
      destruct t1; try (apply Hgen; [exact H | discriminate]).
      injection H as <- <-. pose proof (tk_inv _ _ _ Et1) as Hr1. cbv iota in Hr1.
      assert (L1 : length r1 = S (length r2)) by (rewrite Hr1; reflexivity).
      split; [lia|]. intros g d' Hg Hd. destruct g as [|g]; [lia|]. cbn [pval]. rewrite Et.
      replace (max_depth <=? d') with false by (symmetry; apply N.leb_gt; lia). rewrite Ew, Et1. reflexivity.
    + (* object *)
      destruct (max_depth <=? d) eqn:Ed; [discriminate|]. apply N.leb_gt in Ed.
      destruct (split_ws r0) as [w r1] eqn:Ew. pose proof (split_ws_text _ _ _ Ew) as Hr0.
      destruct (tk r1) as [t1 r2] eqn:Et1.
      assert (L0 : length s = S (length w + length r1)) by (rewrite Hs, Hr0; cbn [length]; rewrite app_length; reflexivity).
      assert (Hgen : match pmems f (N.succ d) w r1 with Some (ms, r3) => Some (CObj [] ms, r3) | None => None end = Some (c, r) ->
                     t1 <> TRBrace ->
                     (length r < length s)%nat /\
                     forall g d', (2 * (length s - length r) <= g)%nat -> d' <= d -> pval g d' s = Some (c, r)).
      { destruct (pmems f (N.succ d) w r1) as [[ms r3]|] eqn:Ee; [|discriminate]. intros H' Hnt. injection H' as <- <-.
        destruct (IHm _ _ _ _ _ Ee) as [L Hf]. split; [lia|]. intros g d' Hg Hd. destruct g as [|g]; [lia|]. cbn [pval]. rewrite Et.
        replace (max_depth <=? d') with false by (symmetry; apply N.leb_gt; lia). rewrite Ew, Et1.
        rewrite (Hf g (N.succ d')) by lia. destruct t1; try reflexivity. exfalso; apply Hnt; reflexivity. }
      destruct t1; try (apply Hgen; [exact H | discriminate]).
      injection H as <- <-. pose proof (tk_inv _ _ _ Et1) as Hr1. cbv iota in Hr1.
      assert (L1 : length r1 = S (length r2)) by (rewrite Hr1; reflexivity).
      split; [lia|]. intros g d' Hg Hd. destruct g as [|g]; [lia|]. cbn [pval]. rewrite Et.
      replace (max_depth <=? d') with false by (symmetry; apply N.leb_gt; lia). rewrite Ew, Et1. reflexivity.
    + (* scalar *)
      pose proof (pscalar_len _ _ _ H) as L. split; [exact L|].
      intros g d' Hg Hd. destruct g as [|g]; [lia|]. cbn [pval]. rewrite Et. exact H.
  - intros d w s es r H. cbn [pelems] in H.
    destruct (pval f d s) as [[c r1]|] eqn:Ev; [|discriminate]. destruct (IHv _ _ _ _ Ev) as [L1 F1].
    destruct (split_ws r1) as [wa r2] eqn:Ew. pose proof (split_ws_text _ _ _ Ew) as Hr1.
    destruct (tk r2) as [t r3] eqn:Et. pose proof (tk_inv _ _ _ Et) as Hr2. destruct t; try discriminate.
    + injection H as <- <-.
      assert (L2 : length r1 = (length wa + S (length r3))%nat) by (rewrite Hr1, Hr2, app_length; reflexivity).
      split; [lia|]. intros g d' Hg Hd. destruct g as [|g]; [lia|]. cbn [pelems].
      rewrite (F1 g d') by lia. rewrite Ew, Et. reflexivity.
    + destruct (split_ws r3) as [wb r4] eqn:Ew2. pose proof (split_ws_text _ _ _ Ew2) as Hr3.
      destruct (pelems f d wb r4) as [[es' r5]|] eqn:Ee; [|discriminate]. injection H as <- <-.
      destruct (IHe _ _ _ _ _ Ee) as [L3 F3].
      assert (L2 : length r1 = (length wa + S (length wb + length r4))%nat)
        by (rewrite Hr1, Hr2, app_length; cbn [length]; rewrite Hr3, app_length; reflexivity).
      split; [lia|]. intros g d' Hg Hd. destruct g as [|g]; [lia|]. cbn [pelems].
      rewrite (F1 g d') by lia. rewrite Ew, Et, Ew2. rewrite (F3 g d') by lia. reflexivity.
  - intros d w s ms r H. cbn [pmems] in H.
    destruct (tk s) as [t r0] eqn:Et0. pose proof (tk_inv _ _ _ Et0) as Hs. destruct t; try discriminate.
    destruct (pstr r0) as [[k r1]|] eqn:Ep; [|discriminate]. pose proof (pstr_props _ _ _ Ep) as [Hr0 _].
    destruct (split_ws r1) as [wc r2] eqn:Ew1. pose proof (split_ws_text _ _ _ Ew1) as Hr1.
    destruct (tk r2) as [t r3] eqn:Et2. pose proof (tk_inv _ _ _ Et2) as Hr2. destruct t; try discriminate.
    destruct (split_ws r3) as [wv r4] eqn:Ew3. pose proof (split_ws_text _ _ _ Ew3) as Hr3.
    destruct (pval f d r4) as [[c r5]|] eqn:Ev; [|discriminate]. destruct (IHv _ _ _ _ Ev) as [L4 F4].
    destruct (split_ws r5) as [wa r6] eqn:Ew5. pose proof (split_ws_text _ _ _ Ew5) as Hr5.
    destruct (tk r6) as [t r7] eqn:Et6. pose proof (tk_inv _ _ _ Et6) as Hr6.
    assert (L0 : length s = S (length k + S (length wc + S (length wv + length r4)))).
    { rewrite Hs, Hr0. cbn [length]. rewrite app_length. cbn [length]. rewrite Hr1, app_length, Hr2. cbn [length].
      rewrite Hr3, app_length. reflexivity. }
    destruct t; try discriminate.
    + injection H as <- <-.
      assert (L5 : length r5 = (length wa + S (length r7))%nat) by (rewrite Hr5, Hr6, app_length; reflexivity).
      split; [lia|]. intros g d' Hg Hd. destruct g as [|g]; [lia|]. cbn [pmems].
      rewrite Et0, Ep, Ew1, Et2, Ew3. rewrite (F4 g d') by lia. rewrite Ew5, Et6. reflexivity.
    + destruct (split_ws r7) as [wb r8] eqn:Ew7. pose proof (split_ws_text _ _ _ Ew7) as Hr7.
      destruct (pmems f d wb r8) as [[ms' r9]|] eqn:Em; [|discriminate]. injection H as <- <-.
      destruct (IHm _ _ _ _ _ Em) as [L8 F8].
      assert (L5 : length r5 = (length wa + S (length wb + length r8))%nat)
        by (rewrite Hr5, Hr6, app_length; cbn [length]; rewrite Hr7, app_length; reflexivity).
      split; [lia|]. intros g d' Hg Hd. destruct g as [|g]; [lia|]. cbn [pmems].
      rewrite Et0, Ep, Ew1, Et2, Ew3. rewrite (F4 g d') by lia. rewrite Ew5, Et6, Ew7. rewrite (F8 g d') by lia. reflexivity.
Qed.

(* [PV d s c r]: the value parser reads the tree c off the front of s and leaves r, with every
   fuel >= 2 * length s, at depth d and at every smaller depth *)
Definition PV (d : N) (s : bytes) (c : cst) (r : bytes) : Prop :=
  forall g d', (2 * length s <= g)%nat -> d' <= d -> pval g d' s = Some (c, r).

Lemma pval_PV f d s c r : pval f d s = Some (c, r) -> PV d s c r.
Proof.
  intros H g d' Hg Hd. destruct (proj1 (parser_fuel f) _ _ _ _ H) as [L F]. apply F; [lia | exact Hd].
Qed.

Lemma PV_value_at d s c r : PV d s c r -> value_at d s = Some (c, r).
Proof. intros H. unfold value_at. apply H; [unfold fuel_of; lia | lia]. Qed.

Lemma tight_PV d s : tight_at d s = true -> exists c, PV d s c [].
Proof.
  unfold tight_at, value_at. destruct (pval (fuel_of s) d s) as [[c [|x r]]|] eqn:E; try discriminate.
  intros _. exists c. exact (pval_PV _ _ _ _ _ E).
Qed.

Lemma PV_tight d s c : PV d s c [] -> tight_at d s = true.
Proof. intros H. unfold tight_at. rewrite (PV_value_at _ _ _ _ H). reflexivity. Qed.

Lemma PV_depth d d' s c r : PV d s c r -> d' <= d -> PV d' s c r.
Proof. intros H Hd g d'' Hg Hd'. apply H; [exact Hg | lia]. Qed.

Lemma PV_text d s c r : PV d s c r -> s = ctext c r.
Proof. intros H. exact (pval_text _ _ _ _ _ (PV_value_at _ _ _ _ H)). Qed.

(* spec_depth_mono *)
Lemma tight_depth_mono d d' s : tight_at d s = true -> d' <= d -> tight_at d' s = true.
Proof. intros H Hd. destruct (tight_PV _ _ H) as [c Hc]. exact (PV_tight _ _ _ (PV_depth _ _ _ _ _ Hc Hd)). Qed.

(* ------------------------------------------------------------------------- *)
(* Part 4: prefix extension *)

Definition delim (x : N) : Prop := x = 44 \/ x = 93 \/ x = 125.
(* a continuation that cannot be mistaken for more of the value: empty, or starting with , ] } *)
Definition nice (r : bytes) : Prop := match r with [] => True | x :: _ => delim x end.

Lemma delim_facts x : delim x ->
  is_ws x = false /\ is_digit x = false /\ (x =? 45) = false /\ (x =? 46) = false /\
  ((x =? 43) || (x =? 45)) = false /\ ((x =? 101) || (x =? 69)) = false.
Proof. intros [-> | [-> | ->]]; repeat split; reflexivity. Qed.

Lemma pstr_ext_len m : forall s b r0 r, (length s <= m)%nat -> pstr s = Some (b, r0) -> pstr (s ++ r) = Some (b, r0 ++ r).
Proof.
  induction m as [|m IH]; intros s b r0 r Hl H.
  - destruct s; [discriminate | cbn in Hl; lia].
  - destruct s as [|c s']; [discriminate|]. cbn [length] in Hl. cbn [app]. cbn [pstr] in H |- *.
    destruct (sclass_of c).
    + injection H as <- <-. reflexivity.
    + destruct s' as [|e r1]; [discriminate|]. cbn [length] in Hl. cbn [app].
      destruct (eclass_of e).
      * destruct (pstr r1) as [[b' r']|] eqn:Ep; [|discriminate]. injection H as <- <-.
        rewrite (IH r1 b' r' r ltac:(lia) Ep). reflexivity.
      * destruct r1 as [|h1 [|h2 [|h3 [|h4 r2]]]]; try discriminate. cbn [length] in Hl. cbn [app].
        destruct (is_hex h1 && is_hex h2 && is_hex h3 && is_hex h4); [|discriminate].
        destruct (pstr r2) as [[b' r']|] eqn:Ep; [|discriminate]. injection H as <- <-.
        rewrite (IH r2 b' r' r ltac:(lia) Ep). reflexivity.
      * discriminate.
    + discriminate.
    + destruct (pstr s') as [[b' r']|] eqn:Ep; [|discriminate]. injection H as <- <-.
      rewrite (IH s' b' r' r ltac:(lia) Ep). reflexivity.
Qed.

Lemma pstr_ext s b r0 r : pstr s = Some (b, r0) -> pstr (s ++ r) = Some (b, r0 ++ r).
Proof. apply (pstr_ext_len (length s)). apply le_n. Qed.

Lemma strip_prefix_ext p : forall s r0 r, strip_prefix p s = Some r0 -> strip_prefix p (s ++ r) = Some (r0 ++ r).
Proof.
  induction p as [|x p IH]; intros s r0 r H; cbn [strip_prefix] in H |- *.
  - injection H as <-. reflexivity.
  - destruct s as [|y s']; [discriminate|]. cbn [app]. destruct (x =? y); [|discriminate]. exact (IH _ _ _ H).
Qed.

Section Ext.
  Variable r : bytes.
  Hypothesis Hr : nice r.

  Lemma split_ws_ext s : forall w r0, split_ws s = (w, r0) -> split_ws (s ++ r) = (w, r0 ++ r).
  Proof.
    induction s as [|c s IH]; intros w r0 H; cbn [split_ws] in H.
    - injection H as <- <-. cbn [app]. destruct r as [|x r']; [reflexivity|].
      apply split_ws_nows. apply (delim_facts x Hr).
    - cbn [app split_ws]. destruct (is_ws c).
      + destruct (split_ws s) as [w' r'] eqn:E. injection H as <- <-. rewrite (IH _ _ eq_refl). reflexivity.
      + injection H as <- <-. reflexivity.
  Qed.

  Lemma tk_ext s t r0 : tk s = (t, r0) -> t <> TEnd -> tk (s ++ r) = (t, r0 ++ r).
  Proof.
    destruct s as [|c s']; cbn [tk app]; intros H Hn; injection H as <- <-; [contradiction|reflexivity].
  Qed.

  Lemma digits_ext s : forall d r0, digits s = (d, r0) -> digits (s ++ r) = (d, r0 ++ r).
  Proof.
    induction s as [|c s IH]; intros d r0 H; cbn [digits] in H.
    - injection H as <- <-. cbn [app]. destruct r as [|x r']; [reflexivity|].
      cbn [digits]. destruct (delim_facts x Hr) as (F1 & F2 & F3 & F4 & F5 & F6). rewrite F2. reflexivity.
    - cbn [app digits]. destruct (is_digit c).
      + destruct (digits s) as [d' r'] eqn:E. injection H as <- <-. rewrite (IH _ _ eq_refl). reflexivity.
      + injection H as <- <-. reflexivity.
  Qed.

  Lemma p_sign_ext s sg s1 : p_sign s = (sg, s1) -> p_sign (s ++ r) = (sg, s1 ++ r).
  Proof.
    unfold p_sign. destruct s as [|c s']; cbn [app].
    - intros H; injection H as <- <-. destruct r as [|x r']; [reflexivity|].
      destruct (delim_facts x Hr) as (F1 & F2 & F3 & F4 & F5 & F6). rewrite F3. reflexivity.
    - destruct (c =? 45); intros H; injection H as <- <-; reflexivity.
  Qed.

  Lemma p_int_ext s ip s2 : p_int s = Some (ip, s2) -> p_int (s ++ r) = Some (ip, s2 ++ r).
  Proof.
    unfold p_int. destruct s as [|c s']; [discriminate|]. cbn [app].
    destruct (c =? 48); [intros H; injection H as <- <-; reflexivity|].
    destruct (is_digit c); [|discriminate].
    destruct (digits s') as [d r'] eqn:E. rewrite (digits_ext _ _ _ E). intros H; injection H as <- <-. reflexivity.
  Qed.

  Lemma p_frac_ext s fp s3 : p_frac s = Some (fp, s3) -> p_frac (s ++ r) = Some (fp, s3 ++ r).
  Proof.
    unfold p_frac. destruct s as [|c s']; cbn [app].
    - intros H; injection H as <- <-. destruct r as [|x r']; [reflexivity|].
      destruct (delim_facts x Hr) as (F1 & F2 & F3 & F4 & F5 & F6). rewrite F4. reflexivity.
    - destruct (c =? 46).
      + destruct (digits s') as [d r'] eqn:E. rewrite (digits_ext _ _ _ E).
        destruct d; [discriminate|]. intros H; injection H as <- <-. reflexivity.
      + intros H; injection H as <- <-. reflexivity.
  Qed.

  Lemma p_esign_ext s sg s1 : p_esign s = (sg, s1) -> p_esign (s ++ r) = (sg, s1 ++ r).
  Proof.
    unfold p_esign. destruct s as [|c s']; cbn [app].
    - intros H; injection H as <- <-. destruct r as [|x r']; [reflexivity|].
      destruct (delim_facts x Hr) as (F1 & F2 & F3 & F4 & F5 & F6). rewrite F5. reflexivity.
    - destruct ((c =? 43) || (c =? 45)); intros H; injection H as <- <-; reflexivity.
  Qed.

  Lemma p_exp_ext s ep s4 : p_exp s = Some (ep, s4) -> p_exp (s ++ r) = Some (ep, s4 ++ r).
  Proof.
    unfold p_exp. destruct s as [|c s']; cbn [app].
    - intros H; injection H as <- <-. destruct r as [|x r']; [reflexivity|].
      destruct (delim_facts x Hr) as (F1 & F2 & F3 & F4 & F5 & F6). rewrite F6. reflexivity.
    - destruct ((c =? 101) || (c =? 69)).
      + destruct (p_esign s') as [sg r1] eqn:Es. rewrite (p_esign_ext _ _ _ Es).
        destruct (digits r1) as [d r'] eqn:E. rewrite (digits_ext _ _ _ E).
        destruct d; [discriminate|]. intros H; injection H as <- <-. reflexivity.
      + intros H; injection H as <- <-. reflexivity.
  Qed.

  Lemma pnum_ext s n r0 : pnum s = Some (n, r0) -> pnum (s ++ r) = Some (n, r0 ++ r).
  Proof.
    unfold pnum. destruct (p_sign s) as [sg s1] eqn:E1. rewrite (p_sign_ext _ _ _ E1).
    destruct (p_int s1) as [[ip s2]|] eqn:E2; [|discriminate]. rewrite (p_int_ext _ _ _ E2).
    destruct (p_frac s2) as [[fp s3]|] eqn:E3; [|discriminate]. rewrite (p_frac_ext _ _ _ E3).
    destruct (p_exp s3) as [[ep s4]|] eqn:E4; [|discriminate]. rewrite (p_exp_ext _ _ _ E4).
    intros H; injection H as <- <-. reflexivity.
  Qed.

  Lemma pnum_head x s n r0 : pnum (x :: s) = Some (n, r0) -> x = 45 \/ 48 <= x <= 57.
  Proof.
    unfold pnum. cbn [p_sign]. destruct (x =? 45) eqn:D; [apply N.eqb_eq in D; auto|].
    unfold p_int. destruct (x =? 48) eqn:F; [apply N.eqb_eq in F; intros _; right; lia|].
    destruct (is_digit x) eqn:G; [apply is_digit_rng in G; auto | discriminate].
  Qed.

  Lemma pscalar_ext s c r0 : pscalar s = Some (c, r0) -> pscalar (s ++ r) = Some (c, r0 ++ r).
  Proof.
    unfold pscalar. intros H.
    destruct (strip_prefix lit_true s) as [r1|] eqn:E1.
    { injection H as <- <-. rewrite (strip_prefix_ext _ _ _ r E1). reflexivity. }
    destruct (strip_prefix lit_false s) as [r2|] eqn:E2.
    { injection H as <- <-. rewrite (strip_prefix_ext _ _ _ r E2).
      apply strip_prefix_sound in E2. subst s. reflexivity. }
    destruct (strip_prefix lit_null s) as [r3|] eqn:E3.
    { injection H as <- <-. rewrite (strip_prefix_ext _ _ _ r E3).
      apply strip_prefix_sound in E3. subst s. reflexivity. }
    destruct (pnum s) as [[n r4]|] eqn:E4; [|discriminate]. injection H as <- <-.
    rewrite (pnum_ext _ _ _ E4).
    destruct s as [|x s']; [discriminate E4|]. pose proof (pnum_head _ _ _ _ E4) as Hx.
    cbn [app strip_prefix lit_true lit_false lit_null].
    replace (116 =? x) with false by (symmetry; apply N.eqb_neq; lia).
    replace (102 =? x) with false by (symmetry; apply N.eqb_neq; lia).
    replace (110 =? x) with false by (symmetry; apply N.eqb_neq; lia).
    reflexivity.
  Qed.

  Lemma pelems_nil f d w : pelems f d w [] = None.
  Proof. destruct f as [|[|f]]; reflexivity. Qed.
  Lemma pmems_nil f d w : pmems f d w [] = None.
  Proof. destruct f; reflexivity. Qed.

  Lemma parser_ext f :
    (forall d s c r0, pval f d s = Some (c, r0) -> pval f d (s ++ r) = Some (c, r0 ++ r)) /\
    (forall d w s es r0, pelems f d w s = Some (es, r0) -> pelems f d w (s ++ r) = Some (es, r0 ++ r)) /\
    (forall d w s ms r0, pmems f d w s = Some (ms, r0) -> pmems f d w (s ++ r) = Some (ms, r0 ++ r)).
  Proof.
    induction f as [|f (IHv & IHe & IHm)]; [repeat split; intros; discriminate|].
    split; [|split].
    - intros d s c r0 H. cbn [pval] in H |- *.
      destruct (tk s) as [t s0] eqn:Et. destruct t; try discriminate; rewrite (tk_ext _ _ _ Et) by discriminate.
      + destruct (pstr s0) as [[b r']|] eqn:Ep; [|discriminate]. injection H as <- <-.
        rewrite (pstr_ext _ _ _ r Ep). reflexivity.
      + destruct (max_depth <=? d); [discriminate|].
        destruct (split_ws s0) as [w s1] eqn:Ew. rewrite (split_ws_ext _ _ _ Ew).
        destruct (tk s1) as [t1 s2] eqn:Et1.
        assert (Hend : t1 = TEnd -> False).
        { intros ->. apply tk_inv in Et1 as [-> ->]. rewrite pelems_nil in H. discriminate. }
        destruct t1; try (exfalso; apply Hend; reflexivity); rewrite (tk_ext _ _ _ Et1) by discriminate;
          try (destruct (pelems f (N.succ d) w s1) as [[es r3]|] eqn:Ee; [|discriminate]; injection H as <- <-;
               rewrite (IHe _ _ _ _ _ Ee); reflexivity).
        injection H as <- <-. reflexivity.
      + destruct (max_depth <=? d); [discriminate|].
        destruct (split_ws s0) as [w s1] eqn:Ew. rewrite (split_ws_ext _ _ _ Ew).
        destruct (tk s1) as [t1 s2] eqn:Et1.
        assert (Hend : t1 = TEnd -> False).
        { intros ->. apply tk_inv in Et1 as [-> ->]. rewrite pmems_nil in H. discriminate. }
        destruct t1; try (exfalso; apply Hend; reflexivity); rewrite (tk_ext _ _ _ Et1) by discriminate;
          try (destruct (pmems f (N.succ d) w s1) as [[ms r3]|] eqn:Ee; [|discriminate]; injection H as <- <-;
               rewrite (IHm _ _ _ _ _ Ee); reflexivity).
        injection H as <- <-. reflexivity.
      + exact (pscalar_ext _ _ _ H).
    - intros d w s es r0 H. cbn [pelems] in H |- *.
      destruct (pval f d s) as [[c r1]|] eqn:Ev; [|discriminate]. rewrite (IHv _ _ _ _ Ev).
      destruct (split_ws r1) as [wa r2] eqn:Ew. rewrite (split_ws_ext _ _ _ Ew).
      destruct (tk r2) as [t r3] eqn:Et. destruct t; try discriminate; rewrite (tk_ext _ _ _ Et) by discriminate.
      + injection H as <- <-. reflexivity.
      + destruct (split_ws r3) as [wb r4] eqn:Ew2. rewrite (split_ws_ext _ _ _ Ew2).
        destruct (pelems f d wb r4) as [[es' r5]|] eqn:Ee; [|discriminate]. injection H as <- <-.
        rewrite (IHe _ _ _ _ _ Ee). reflexivity.
    - intros d w s ms r0 H. cbn [pmems] in H |- *.
      destruct (tk s) as [t s0] eqn:Et0. destruct t; try discriminate. rewrite (tk_ext _ _ _ Et0) by discriminate.
      destruct (pstr s0) as [[k r1]|] eqn:Ep; [|discriminate]. rewrite (pstr_ext _ _ _ r Ep).
      destruct (split_ws r1) as [wc r2] eqn:Ew1. rewrite (split_ws_ext _ _ _ Ew1).
      destruct (tk r2) as [t r3] eqn:Et2. destruct t; try discriminate. rewrite (tk_ext _ _ _ Et2) by discriminate.
      destruct (split_ws r3) as [wv r4] eqn:Ew3. rewrite (split_ws_ext _ _ _ Ew3).
      destruct (pval f d r4) as [[c r5]|] eqn:Ev; [|discriminate]. rewrite (IHv _ _ _ _ Ev).
      destruct (split_ws r5) as [wa r6] eqn:Ew5. rewrite (split_ws_ext _ _ _ Ew5).
      destruct (tk r6) as [t r7] eqn:Et6. destruct t; try discriminate; rewrite (tk_ext _ _ _ Et6) by discriminate.
      + injection H as <- <-. reflexivity.
      + destruct (split_ws r7) as [wb r8] eqn:Ew7. rewrite (split_ws_ext _ _ _ Ew7).
        destruct (pmems f d wb r8) as [[ms' r9]|] eqn:Em; [|discriminate]. injection H as <- <-.
        rewrite (IHm _ _ _ _ _ Em). reflexivity.
  Qed.

  (* prefix extension *)
  Lemma PV_ext d s c r0 : PV d s c r0 -> PV d (s ++ r) c (r0 ++ r).
  Proof.
    intros H. apply (pval_PV (2 * length s)). apply (proj1 (parser_ext _)). apply H; [lia | lia].
  Qed.
End Ext.

(* ------------------------------------------------------------------------- *)
(* Part 5: the string escaper is read back *)

Lemma pstr_plain c t : sclass_of c = SPlain ->
  pstr (c :: t) = match pstr t with Some (b, r') => Some (c :: b, r') | None => None end.
Proof. intros H. cbn [pstr]. rewrite H. reflexivity. Qed.

Lemma pstr_simple e t : eclass_of e = ESimple ->
  pstr (92 :: e :: t) = match pstr t with Some (b, r') => Some (92 :: e :: b, r') | None => None end.
Proof. intros H. cbn [pstr]. change (sclass_of 92) with SBack. cbv iota. rewrite H. reflexivity. Qed.

Lemma pstr_u h1 h2 h3 h4 t : is_hex h1 && is_hex h2 && is_hex h3 && is_hex h4 = true ->
  pstr (92 :: 117 :: h1 :: h2 :: h3 :: h4 :: t) =
  match pstr t with Some (b, r') => Some (92 :: 117 :: h1 :: h2 :: h3 :: h4 :: b, r') | None => None end.
Proof.
  intros H. cbn [pstr]. change (sclass_of 92) with SBack. change (eclass_of 117) with EU. cbv iota. rewrite H. reflexivity.
Qed.

Lemma high_plain x : 128 <= x -> sclass_of x = SPlain.
Proof.
  intros H. unfold sclass_of.
  replace (x =? 34) with false by (symmetry; apply N.eqb_neq; lia).
  replace (x =? 92) with false by (symmetry; apply N.eqb_neq; lia).
  replace (x <? 32) with false by (symmetry; apply N.ltb_ge; lia). reflexivity.
Qed.

Lemma pstr_plain_app a : forall t, (forall x, In x a -> sclass_of x = SPlain) ->
  pstr (a ++ t) = match pstr t with Some (b, r') => Some (a ++ b, r') | None => None end.
Proof.
  induction a as [|x a IH]; intros t H; cbn [app].
  - destruct (pstr t) as [[b r']|]; reflexivity.
  - rewrite pstr_plain by (apply H; left; reflexivity). rewrite IH by (intros y Hy; apply H; right; exact Hy).
    destruct (pstr t) as [[b r']|]; reflexivity.
Qed.

Lemma is_hex_hexdig n : n < 16 -> is_hex (hexdig n) = true.
Proof.
  intros H. unfold hexdig, is_hex, is_digit. destruct (n <? 10) eqn:E.
  - apply N.ltb_lt in E. replace (48 <=? 48 + n) with true by (symmetry; apply N.leb_le; lia).
    replace (48 + n <=? 57) with true by (symmetry; apply N.leb_le; lia). reflexivity.
  - apply N.ltb_ge in E. replace (97 <=? 87 + n) with true by (symmetry; apply N.leb_le; lia).
    replace (87 + n <=? 102) with true by (symmetry; apply N.leb_le; lia). cbn [andb]. rewrite orb_true_r. reflexivity.
Qed.

Lemma hexval_hexdig n : n < 16 -> hexval (hexdig n) = n.
Proof.
  intros H. unfold hexdig, hexval, is_digit. destruct (n <? 10) eqn:E.
  - apply N.ltb_lt in E. replace (48 <=? 48 + n) with true by (symmetry; apply N.leb_le; lia).
    replace (48 + n <=? 57) with true by (symmetry; apply N.leb_le; lia). cbn [andb]. lia.
  - apply N.ltb_ge in E. replace (87 + n <=? 57) with false by (symmetry; apply N.leb_gt; lia). rewrite andb_false_r.
    replace (97 <=? 87 + n) with true by (symmetry; apply N.leb_le; lia).
    replace (87 + n <=? 102) with true by (symmetry; apply N.leb_le; lia). cbn [andb]. lia.
Qed.

Lemma pstr_u00 c t : c < 256 ->
  pstr (u00 c ++ t) = match pstr t with Some (b, r') => Some (u00 c ++ b, r') | None => None end.
Proof.
  intros Hc. unfold u00. cbn [app]. apply pstr_u.
  assert (H1 : c / 16 < 16) by (apply N.div_lt_upper_bound; lia).
  assert (H2 : c mod 16 < 16) by (apply N.mod_lt; lia).
  rewrite (is_hex_hexdig _ H1), (is_hex_hexdig _ H2). reflexivity.
Qed.

Lemma pstr_esc_ascii c t : c < 128 ->
  pstr (esc_ascii c ++ t) = match pstr t with Some (b, r') => Some (esc_ascii c ++ b, r') | None => None end.
Proof.
  intros Hc. unfold esc_ascii.
  destruct ((c =? 34) || (c =? 92)) eqn:E1.
  { apply orb_true_iff in E1 as [E|E]; apply N.eqb_eq in E; subst c; cbn [app]; apply pstr_simple; reflexivity. }
  destruct (c =? 8) eqn:E2; [cbn [app]; apply pstr_simple; reflexivity|].
  destruct (c =? 12) eqn:E3; [cbn [app]; apply pstr_simple; reflexivity|].
  destruct (c =? 10) eqn:E4; [cbn [app]; apply pstr_simple; reflexivity|].
  destruct (c =? 13) eqn:E5; [cbn [app]; apply pstr_simple; reflexivity|].
  destruct (c =? 9) eqn:E6; [cbn [app]; apply pstr_simple; reflexivity|].
  destruct ((c <? 32) || (c =? 60) || (c =? 62) || (c =? 38)) eqn:E7; [apply pstr_u00; lia|].
  cbn [app]. apply pstr_plain.
  apply orb_false_iff in E1 as [A B]. apply orb_false_iff in E7 as [E7 _]. apply orb_false_iff in E7 as [E7 _].
  apply orb_false_iff in E7 as [E7 _]. unfold sclass_of. rewrite A, B, E7. reflexivity.
Qed.

Lemma pstr_esc_len m : forall s r, (length s <= m)%nat -> pstr (esc O s ++ 34 :: r) = Some (esc O s, r).
Proof.
  induction m as [|m IH]; intros s r Hl.
  - destruct s; [reflexivity | cbn in Hl; lia].
  - destruct s as [|c s']; [reflexivity|]. cbn [length] in Hl. cbn [esc].
    destruct (c <? 128) eqn:Ec.
    + apply N.ltb_lt in Ec. rewrite <- app_assoc, (pstr_esc_ascii c _ Ec), IH by lia. reflexivity.
    + apply N.ltb_ge in Ec. destruct (utf8_seq_len c s') as [|n] eqn:El.
      * rewrite <- app_assoc. unfold esc_fffd. cbn [app]. rewrite pstr_u by reflexivity. rewrite IH by lia. reflexivity.
      * pose proof (seq_len_cont _ _ _ El) as (Hc & Hn & Hh & Hr).
        assert (Hgen : pstr ((c :: esc n s') ++ 34 :: r) = Some (c :: esc n s', r)).
        { rewrite esc_firstn. cbn [app]. rewrite pstr_plain by (apply high_plain; exact Hc).
          rewrite <- app_assoc, pstr_plain_app.
          - rewrite IH by (rewrite skipn_length; lia). reflexivity.
          - intros x Hx. apply high_plain. unfold all_high in Hh. rewrite forallb_forall in Hh. apply N.leb_le. exact (Hh x Hx). }
        destruct s' as [|c2 [|c3 r3]]; try exact Hgen.
        destruct ((c =? 226) && (c2 =? 128) && ((c3 =? 168) || (c3 =? 169))); [|exact Hgen].
        rewrite <- app_assoc. unfold esc_202x. cbn [app]. rewrite pstr_u.
        -- rewrite IH by (cbn [length] in Hl; lia). reflexivity.
        -- assert (H2 : c3 mod 16 < 16) by (apply N.mod_lt; lia). rewrite (is_hex_hexdig _ H2). reflexivity.
Qed.

(* the escaped body is a well-formed string body, for EVERY byte string *)
Lemma pstr_escape_body s r : pstr (escape_body s ++ 34 :: r) = Some (escape_body s, r).
Proof. apply (pstr_esc_len (length s)). apply le_n. Qed.

Lemma unq_firstn n : forall r, unq n r = firstn n r ++ unq O (skipn n r).
Proof.
  induction n as [|n IH]; intros r; [reflexivity|].
  destruct r as [|c r]; [reflexivity|]. cbn [unq firstn skipn app]. rewrite IH. reflexivity.
Qed.

Lemma unq_u00 c t : c < 128 -> unq O (u00 c ++ t) = c :: unq O t.
Proof.
  intros Hc. unfold u00. cbn [app unq].
  change (92 =? 92) with true. change (117 =? 117) with true. cbv iota zeta.
  assert (H1 : c / 16 < 16) by (apply N.div_lt_upper_bound; lia).
  assert (H2 : c mod 16 < 16) by (apply N.mod_lt; lia).
  assert (Hu : hex4 48 48 (hexdig (c / 16)) (hexdig (c mod 16)) = c).
  { unfold hex4. change (hexval 48) with 0. rewrite (hexval_hexdig _ H1), (hexval_hexdig _ H2).
    pose proof (N.div_mod' c 16). lia. }
  rewrite Hu.
  replace (is_surr c) with false by (symmetry; unfold is_surr, in_rng; apply andb_false_iff; left; apply N.leb_gt; lia).
  unfold utf8_enc. replace (c <? 128) with true by (symmetry; apply N.ltb_lt; exact Hc). reflexivity.
Qed.

Lemma unq_esc_ascii c t : c < 128 -> unq O (esc_ascii c ++ t) = c :: unq O t.
Proof.
  intros Hc. unfold esc_ascii.
  destruct ((c =? 34) || (c =? 92)) eqn:E1.
  { apply orb_true_iff in E1 as [E|E]; apply N.eqb_eq in E; subst c; reflexivity. }
  destruct (c =? 8) eqn:E2; [apply N.eqb_eq in E2; subst c; reflexivity|].
  destruct (c =? 12) eqn:E3; [apply N.eqb_eq in E3; subst c; reflexivity|].
  destruct (c =? 10) eqn:E4; [apply N.eqb_eq in E4; subst c; reflexivity|].
  destruct (c =? 13) eqn:E5; [apply N.eqb_eq in E5; subst c; reflexivity|].
  destruct (c =? 9) eqn:E6; [apply N.eqb_eq in E6; subst c; reflexivity|].
  destruct ((c <? 32) || (c =? 60) || (c =? 62) || (c =? 38)) eqn:E7; [apply unq_u00; exact Hc|].
  cbn [app unq]. apply orb_false_iff in E1 as [_ B]. rewrite B.
  replace (c <? 128) with true by (symmetry; apply N.ltb_lt; exact Hc). reflexivity.
Qed.

Lemma unq_202x c3 t : c3 = 168 \/ c3 = 169 -> unq O (esc_202x c3 ++ t) = 226 :: 128 :: c3 :: unq O t.
Proof. intros [-> | ->]; reflexivity. Qed.

Lemma unq_esc_len m : forall s, (length s <= m)%nat -> valid_utf8_k O s = true -> unq O (esc O s) = s.
Proof.
  induction m as [|m IH]; intros s Hl Hv.
  - destruct s; [reflexivity | cbn in Hl; lia].
  - destruct s as [|c s']; [reflexivity|]. cbn [length] in Hl. cbn [valid_utf8_k] in Hv. cbn [esc].
    destruct (c <? 128) eqn:Ec.
    + apply N.ltb_lt in Ec. rewrite (unq_esc_ascii c _ Ec), IH; [reflexivity | lia | exact Hv].
    + apply N.ltb_ge in Ec. destruct (utf8_seq_len c s') as [|n] eqn:El; [discriminate Hv|].
      pose proof (seq_len_cont _ _ _ El) as (Hc & Hn & Hh & Hr).
      rewrite valid_k_firstn in Hv. apply andb_true_iff in Hv as [_ Hv].
      assert (Hgen : unq O (c :: esc n s') = c :: s').
      { rewrite esc_firstn. cbn [unq].
        replace (c =? 92) with false by (symmetry; apply N.eqb_neq; lia).
        replace (c <? 128) with false by (symmetry; apply N.ltb_ge; lia).
        rewrite (seq_len_prefix _ _ _ _ El). rewrite unq_firstn.
        destruct (firstn_app_exact n (firstn n s') (esc O (skipn n s')) Hn) as [-> ->].
        rewrite IH; [|rewrite skipn_length; lia | exact Hv]. rewrite firstn_skipn. reflexivity. }
      destruct s' as [|c2 [|c3 r3]]; try exact Hgen.
      destruct ((c =? 226) && (c2 =? 128) && ((c3 =? 168) || (c3 =? 169))) eqn:E; [|exact Hgen].
      apply andb_true_iff in E as [E E3]. apply andb_true_iff in E as [E1 E2].
      apply N.eqb_eq in E1, E2. subst c c2.
      assert (H3 : c3 = 168 \/ c3 = 169) by (apply orb_true_iff in E3 as [E3|E3]; apply N.eqb_eq in E3; auto).
      rewrite (unq_202x _ _ H3).
      assert (n = 2%nat) by (destruct H3 as [-> | ->]; vm_compute in El; injection El as <-; reflexivity). subst n.
      cbn [skipn] in Hv. rewrite IH; [reflexivity | cbn [length] in Hl; lia | exact Hv].
Qed.

(* unquote undoes the escaper on valid UTF-8 *)
Lemma unquote_escape_body s : valid_utf8 s = true -> unquote (escape_body s) = s.
Proof. intros H. apply (unq_esc_len (length s)); [apply le_n | exact H]. Qed.

(* no value starts with white space *)
Lemma pval_not_ws f d s c r : pval f d s = Some (c, r) -> exists x s', s = x :: s' /\ is_ws x = false.
Proof.
  destruct f as [|f]; [discriminate|]. destruct s as [|x s']; [discriminate|]. intros H.
  exists x, s'. split; [reflexivity|]. destruct (is_ws x) eqn:E; [exfalso|reflexivity].
  unfold is_ws in E. repeat (apply orb_true_iff in E as [E|E]); apply N.eqb_eq in E; subst x; vm_compute in H; discriminate H.
Qed.

Lemma PV_not_ws d s c r : PV d s c r -> split_ws s = ([], s).
Proof.
  intros H. pose proof (PV_value_at _ _ _ _ H) as Hv. unfold value_at in Hv.
  destruct (pval_not_ws _ _ _ _ _ Hv) as (x & s' & -> & Hx). apply split_ws_nows. exact Hx.
Qed.

Lemma PV_not_ws_app d s c r t : PV d s c r -> split_ws (s ++ t) = ([], s ++ t).
Proof.
  intros H. pose proof (PV_value_at _ _ _ _ H) as Hv. unfold value_at in Hv.
  destruct (pval_not_ws _ _ _ _ _ Hv) as (x & s' & -> & Hx). cbn [app]. apply split_ws_nows. exact Hx.
Qed.

(* a tight text is a document: no white space around it *)
Lemma parse_doc_PV s c : PV 0 s c [] -> parse_doc s = Some ([], c, []).
Proof.
  intros H. unfold parse_doc, parse_prefix. rewrite (PV_not_ws _ _ _ _ H), (PV_value_at _ _ _ _ H). reflexivity.
Qed.

(* spec_raw_value *)
Lemma raw_value_tight v : tight_at 0 v = true -> raw_value v = Some v.
Proof.
  intros H. destruct (tight_PV _ _ H) as [c Hc]. unfold raw_value. rewrite (parse_doc_PV _ _ Hc).
  rewrite <- (PV_text _ _ _ _ Hc). reflexivity.
Qed.

(* json.Marshal of a string is one string literal whose body is the escaped text *)
Lemma escape_string_PV s d r : PV d (escape_string s ++ r) (CStr (escape_body s)) r.
Proof.
  intros g d' Hg _. destruct g as [|g]; [unfold escape_string in Hg; cbn [app length] in Hg; lia|].
  unfold escape_string. cbn [app pval tk]. change (tok_of 34) with TQuote. cbv iota.
  rewrite <- app_assoc. cbn [app]. rewrite pstr_escape_body. reflexivity.
Qed.

(* spec_string *)
Lemma unmarshal_string_escape s :
  unmarshal_string (escape_string s) = Some (Some (unquote (escape_body s))) /\
  forall d, tight_at d (escape_string s) = true.
Proof.
  pose proof (escape_string_PV s) as H. split.
  - unfold unmarshal_string. specialize (H 0 []). rewrite app_nil_r in H. rewrite (parse_doc_PV _ _ H). reflexivity.
  - intros d. specialize (H d []). rewrite app_nil_r in H. exact (PV_tight _ _ _ H).
Qed.

Lemma string_round_trip s : valid_utf8 s = true ->
  unmarshal_string (escape_string s) = Some (Some s) /\ forall d, tight_at d (escape_string s) = true.
Proof.
  intros Hv. destruct (unmarshal_string_escape s) as [A B]. rewrite (unquote_escape_body _ Hv) in A. split; assumption.
Qed.
