(* JsonPrint: parse-of-print facts about the fuelled parser [pval] of Json.v.
   Part 1: lexical helpers (tokens, white space).
   Part 2: the text of a parsed value: [pval f d s = Some (c, r) -> s = ctext c r].
   Part 3: fuel sufficiency and depth monotonicity: a parse that succeeds with some fuel at depth d
           succeeds with every fuel >= 2 * length s at every depth d' <= d.
   Part 4: prefix extension: a parse is not disturbed by appending a text that starts with a delimiter.
   Part 5: the string escaper: [pstr] reads [escape_body s] back, [unquote] undoes it on valid UTF-8.
   Part 6: hand-printed objects and arrays ([obj_text], [arr_text]) are read back member by member. *)
From Coq Require Import List NArith Bool Arith Lia.
From JV Require Import Bytes Json JsonProofs.
Import ListNotations.
Local Open Scope N_scope.

Local Notation cp := (cprint (fun b : bytes => b) (fun w : bytes => w)).

(* ------------------------------------------------------------------------- *)
(* Part 1: lexical helpers *)

Lemma tk_inv s t r : tk s = (t, r) ->
  match t with
  | TEnd => s = [] /\ r = []
  | TQuote => s = 34 :: r | TLBrack => s = 91 :: r | TRBrack => s = 93 :: r
  | TLBrace => s = 123 :: r | TRBrace => s = 125 :: r | TComma => s = 44 :: r | TColon => s = 58 :: r
  | TOther => exists c, s = c :: r /\ tok_of c = TOther
  end.
Proof.
  destruct s as [|c s']; cbn [tk]; intros H; injection H as <- <-; [split; reflexivity|].
  unfold tok_of.
  destruct (c =? 34) eqn:E1; [apply N.eqb_eq in E1; subst c; reflexivity|].
  destruct (c =? 91) eqn:E2; [apply N.eqb_eq in E2; subst c; reflexivity|].
  destruct (c =? 93) eqn:E3; [apply N.eqb_eq in E3; subst c; reflexivity|].
  destruct (c =? 123) eqn:E4; [apply N.eqb_eq in E4; subst c; reflexivity|].
  destruct (c =? 125) eqn:E5; [apply N.eqb_eq in E5; subst c; reflexivity|].
  destruct (c =? 44) eqn:E6; [apply N.eqb_eq in E6; subst c; reflexivity|].
  destruct (c =? 58) eqn:E7; [apply N.eqb_eq in E7; subst c; reflexivity|].
  exists c. split; [reflexivity|]. unfold tok_of. rewrite E1, E2, E3, E4, E5, E6, E7. reflexivity.
Qed.

Lemma split_ws_text s : forall w r, split_ws s = (w, r) -> s = w ++ r.
Proof.
  induction s as [|c s IH]; intros w r H; cbn [split_ws] in H.
  - injection H as <- <-. reflexivity.
  - destruct (is_ws c).
    + destruct (split_ws s) as [w' r'] eqn:E. injection H as <- <-. rewrite (IH _ _ eq_refl). reflexivity.
    + injection H as <- <-. reflexivity.
Qed.

(* the text left by split_ws does not start with white space *)
Lemma split_ws_rest s : forall w r, split_ws s = (w, r) -> match r with [] => True | x :: _ => is_ws x = false end.
Proof.
  induction s as [|c s IH]; intros w r H; cbn [split_ws] in H.
  - injection H as <- <-. exact I.
  - destruct (is_ws c) eqn:Ec.
    + destruct (split_ws s) as [w' r'] eqn:E. injection H as <- <-. exact (IH _ _ eq_refl).
    + injection H as <- <-. exact Ec.
Qed.

Lemma split_ws_nows x s : is_ws x = false -> split_ws (x :: s) = ([], x :: s).
Proof. intros H. cbn [split_ws]. rewrite H. reflexivity. Qed.

(* ------------------------------------------------------------------------- *)
(* Part 2: the text of a parsed value *)

Lemma pscalar_text s c r : pscalar s = Some (c, r) -> s = cp c r.
Proof.
  unfold pscalar. intros H.
  destruct (strip_prefix lit_true s) as [r1|] eqn:E1.
  { injection H as <- <-. exact (strip_prefix_sound _ _ _ E1). }
  destruct (strip_prefix lit_false s) as [r2|] eqn:E2.
  { injection H as <- <-. exact (strip_prefix_sound _ _ _ E2). }
  destruct (strip_prefix lit_null s) as [r3|] eqn:E3.
  { injection H as <- <-. exact (strip_prefix_sound _ _ _ E3). }
  destruct (pnum s) as [[n r4]|] eqn:E4; [|discriminate].
  injection H as <- <-. exact (proj1 (pnum_props _ _ _ E4)).
Qed.

Lemma parser_text f :
  (forall d s c r, pval f d s = Some (c, r) -> s = cp c r) /\
  (forall d w s es r, pelems f d w s = Some (es, r) -> es <> [] /\ w ++ s = elems_text (fun x => x) cp es r) /\
  (forall d w s ms r, pmems f d w s = Some (ms, r) -> ms <> [] /\ w ++ s = mems_text (fun x => x) (fun x => x) cp ms r).
Proof.
  induction f as [|f (IHv & IHe & IHm)]; [repeat split; intros; discriminate|].
  split; [|split].
  - intros d s c r H. cbn [pval] in H.
    destruct (tk s) as [t r0] eqn:Et. apply tk_inv in Et. destruct t; try discriminate.
    + (* string *) subst s. destruct (pstr r0) as [[b r']|] eqn:Ep; [|discriminate]. injection H as <- <-.
      cbn [cprint]. rewrite (proj1 (pstr_props _ _ _ Ep)). reflexivity.
    + (* array *) subst s. destruct (max_depth <=? d); [discriminate|].
      destruct (split_ws r0) as [w r1] eqn:Ew. apply split_ws_text in Ew. subst r0.
      destruct (tk r1) as [t1 r2] eqn:Et1. pose proof (tk_inv _ _ _ Et1) as Ht1.
      assert (Hgen : match pelems f (N.succ d) w r1 with Some (es, r3) => Some (CArr [] es, r3) | None => None end = Some (c, r) ->
                     91 :: w ++ r1 = cp c r).
      { destruct (pelems f (N.succ d) w r1) as [[es r3]|] eqn:Ee; [|discriminate]. intros H'. injection H' as <- <-.
        destruct (IHe _ _ _ _ _ Ee) as [Hne Htx]. cbn [cprint]. destruct es; [contradiction|]. rewrite Htx. reflexivity. }
      destruct t1; try exact (Hgen H).
      injection H as <- <-. subst r1. reflexivity.
    + (* object *) subst s. destruct (max_depth <=? d); [discriminate|].
      destruct (split_ws r0) as [w r1] eqn:Ew. apply split_ws_text in Ew. subst r0.
      destruct (tk r1) as [t1 r2] eqn:Et1. pose proof (tk_inv _ _ _ Et1) as Ht1.
      assert (Hgen : match pmems f (N.succ d) w r1 with Some (ms, r3) => Some (CObj [] ms, r3) | None => None end = Some (c, r) ->
                     123 :: w ++ r1 = cp c r).
      { destruct (pmems f (N.succ d) w r1) as [[ms r3]|] eqn:Ee; [|discriminate]. intros H'. injection H' as <- <-.
        destruct (IHm _ _ _ _ _ Ee) as [Hne Htx]. cbn [cprint]. destruct ms; [contradiction|]. rewrite Htx. reflexivity. }
      destruct t1; try exact (Hgen H).
      injection H as <- <-. subst r1. reflexivity.
    + exact (pscalar_text _ _ _ H).
  - intros d w s es r H. cbn [pelems] in H.
    destruct (pval f d s) as [[c r1]|] eqn:Ev; [|discriminate]. apply IHv in Ev. subst s.
    destruct (split_ws r1) as [wa r2] eqn:Ew. apply split_ws_text in Ew. subst r1.
    destruct (tk r2) as [t r3] eqn:Et. apply tk_inv in Et. destruct t; try discriminate.
    + injection H as <- <-. subst r2. split; [discriminate|]. reflexivity.
    + destruct (split_ws r3) as [wb r4] eqn:Ew2. apply split_ws_text in Ew2. subst r3.
      destruct (pelems f d wb r4) as [[es' r5]|] eqn:Ee; [|discriminate]. injection H as <- <-.
      destruct (IHe _ _ _ _ _ Ee) as [Hne Htx]. split; [discriminate|]. subst r2.
      cbn [elems_text]. destruct es' as [|e' es'']; [contradiction|]. rewrite <- Htx. reflexivity.
  - intros d w s ms r H. cbn [pmems] in H.
    destruct (tk s) as [t r0] eqn:Et. apply tk_inv in Et. destruct t; try discriminate. subst s.
    destruct (pstr r0) as [[k r1]|] eqn:Ep; [|discriminate]. apply pstr_props in Ep as [-> _].
    destruct (split_ws r1) as [wc r2] eqn:Ew. apply split_ws_text in Ew. subst r1.
    destruct (tk r2) as [t r3] eqn:Et. apply tk_inv in Et. destruct t; try discriminate. subst r2.
    destruct (split_ws r3) as [wv r4] eqn:Ew. apply split_ws_text in Ew. subst r3.
    destruct (pval f d r4) as [[c r5]|] eqn:Ev; [|discriminate]. apply IHv in Ev. subst r4.
    destruct (split_ws r5) as [wa r6] eqn:Ew. apply split_ws_text in Ew. subst r5.
    destruct (tk r6) as [t r7] eqn:Et. apply tk_inv in Et. destruct t; try discriminate.
    + injection H as <- <-. subst r6. split; [discriminate|]. cbn [mems_text]. rewrite <- ?app_assoc. reflexivity.
    + destruct (split_ws r7) as [wb r8] eqn:Ew. apply split_ws_text in Ew. subst r7.
      destruct (pmems f d wb r8) as [[ms' r9]|] eqn:Em; [|discriminate]. injection H as <- <-.
      destruct (IHm _ _ _ _ _ Em) as [Hne Htx]. split; [discriminate|]. subst r6.
      cbn [mems_text]. destruct ms' as [|m' ms'']; [contradiction|]. rewrite <- Htx. rewrite <- ?app_assoc. reflexivity.
Qed.

Lemma pval_text f d s c r : pval f d s = Some (c, r) -> s = ctext c r.
Proof. exact (proj1 (parser_text f) d s c r). Qed.

(* ------------------------------------------------------------------------- *)
(* Part 3: fuel sufficiency and depth monotonicity *)

Lemma strip_prefix_len p s r : strip_prefix p s = Some r -> length s = (length p + length r)%nat.
Proof. intros H. rewrite (strip_prefix_sound _ _ _ H), app_length. reflexivity. Qed.

Lemma pscalar_len s c r : pscalar s = Some (c, r) -> (length r < length s)%nat.
Proof.
  unfold pscalar. intros H.
  destruct (strip_prefix lit_true s) as [r1|] eqn:E1.
  { injection H as <- <-. apply strip_prefix_len in E1. cbn [lit_true length] in E1. lia. }
  destruct (strip_prefix lit_false s) as [r2|] eqn:E2.
  { injection H as <- <-. apply strip_prefix_len in E2. cbn [lit_false length] in E2. lia. }
  destruct (strip_prefix lit_null s) as [r3|] eqn:E3.
  { injection H as <- <-. apply strip_prefix_len in E3. cbn [lit_null length] in E3. lia. }
  destruct (pnum s) as [[n r4]|] eqn:E4; [|discriminate].
  injection H as <- <-. pose proof (pnum_nonempty _ _ _ E4) as Hne. apply pnum_props in E4 as [-> _].
  rewrite app_length. destruct n; [contradiction|]. cbn [length]. lia.
Qed.

Lemma parser_fuel f :
  (forall d s c r, pval f d s = Some (c, r) ->
     (length r < length s)%nat /\
     forall g d', (2 * (length s - length r) <= g)%nat -> d' <= d -> pval g d' s = Some (c, r)) /\
  (forall d w s es r, pelems f d w s = Some (es, r) ->
     (length r < length s)%nat /\
     forall g d', (2 * (length s - length r) <= g)%nat -> d' <= d -> pelems g d' w s = Some (es, r)) /\
  (forall d w s ms r, pmems f d w s = Some (ms, r) ->
     (length r < length s)%nat /\
     forall g d', (2 * (length s - length r) <= g)%nat -> d' <= d -> pmems g d' w s = Some (ms, r)).
Proof.
  induction f as [|f (IHv & IHe & IHm)]; [repeat split; intros; discriminate|].
  split; [|split].
  - intros d s c r H. cbn [pval] in H.
    destruct (tk s) as [t r0] eqn:Et. pose proof (tk_inv _ _ _ Et) as Hs. destruct t; try discriminate.
    + (* string *)
      destruct (pstr r0) as [[b r']|] eqn:Ep; [|discriminate]. injection H as <- <-.
      pose proof (pstr_props _ _ _ Ep) as [Hr0 _].
      assert (L : length s = S (length b + S (length r'))) by (rewrite Hs, Hr0; cbn [length]; rewrite app_length; reflexivity).
      split; [lia|]. intros g d' Hg Hd. destruct g as [|g]; [lia|]. cbn [pval]. rewrite Et, Ep. reflexivity.
    + (* array *)
      destruct (max_depth <=? d) eqn:Ed; [discriminate|]. apply N.leb_gt in Ed.
      destruct (split_ws r0) as [w r1] eqn:Ew. pose proof (split_ws_text _ _ _ Ew) as Hr0.
      destruct (tk r1) as [t1 r2] eqn:Et1.
      assert (L0 : length s = S (length w + length r1)) by (rewrite Hs, Hr0; cbn [length]; rewrite app_length; reflexivity).
      assert (Hgen : match pelems f (N.succ d) w r1 with Some (es, r3) => Some (CArr [] es, r3) | None => None end = Some (c, r) ->
                     t1 <> TRBrack ->
                     (length r < length s)%nat /\
                     forall g d', (2 * (length s - length r) <= g)%nat -> d' <= d -> pval g d' s = Some (c, r)).
      { destruct (pelems f (N.succ d) w r1) as [[es r3]|] eqn:Ee; [|discriminate]. intros H' Hnt. injection H' as <- <-.
        destruct (IHe _ _ _ _ _ Ee) as [L Hf]. split; [lia|]. intros g d' Hg Hd. destruct g as [|g]; [lia|]. cbn [pval]. rewrite Et.
        replace (max_depth <=? d') with false by (symmetry; apply N.leb_gt; lia). rewrite Ew, Et1.
        rewrite (Hf g (N.succ d')) by lia. destruct t1; try reflexivity. exfalso; apply Hnt; reflexivity. }
      destruct t1; try (apply Hgen; [exact H | discriminate]).
      injection H as <- <-. pose proof (tk_inv _ _ _ Et1) as Hr1. cbv iota in Hr1.
      assert (L1 : length r1 = S (length r2)) by (rewrite Hr1; reflexivity).
      split; [lia|]. intros g d' Hg Hd. destruct g as [|g]; [lia|]. cbn [pval]. rewrite Et.
      replace (max_depth <=? d') with false by (symmetry; apply N.leb_gt; lia). rewrite Ew, Et1. reflexivity.
    + (* object *)
      destruct (max_depth <=? d) eqn:Ed; [discriminate|]. apply N.leb_gt in Ed.
      destruct (split_ws r0) as [w r1] eqn:Ew. pose proof (split_ws_text _ _ _ Ew) as Hr0.
      destruct (tk r1) as [t1 r2] eqn:Et1.
      assert (L0 : length s = S (length w + length r1)) by (rewrite Hs, Hr0; cbn [length]; rewrite app_length; reflexivity).
      assert (Hgen : match pmems f (N.succ d) w r1 with Some (ms, r3) => Some (CObj [] ms, r3) | None => None end = Some (c, r) ->
                     t1 <> TRBrace ->
                     (length r < length s)%nat /\
                     forall g d', (2 * (length s - length r) <= g)%nat -> d' <= d -> pval g d' s = Some (c, r)).
      { destruct (pmems f (N.succ d) w r1) as [[ms r3]|] eqn:Ee; [|discriminate]. intros H' Hnt. injection H' as <- <-.
        destruct (IHm _ _ _ _ _ Ee) as [L Hf]. split; [lia|]. intros g d' Hg Hd. destruct g as [|g]; [lia|]. cbn [pval]. rewrite Et.
        replace (max_depth <=? d') with false by (symmetry; apply N.leb_gt; lia). rewrite Ew, Et1.
        rewrite (Hf g (N.succ d')) by lia. destruct t1; try reflexivity. exfalso; apply Hnt; reflexivity. }
      destruct t1; try (apply Hgen; [exact H | discriminate]).
      injection H as <- <-. pose proof (tk_inv _ _ _ Et1) as Hr1. cbv iota in Hr1.
      assert (L1 : length r1 = S (length r2)) by (rewrite Hr1; reflexivity).
      split; [lia|]. intros g d' Hg Hd. destruct g as [|g]; [lia|]. cbn [pval]. rewrite Et.
      replace (max_depth <=? d') with false by (symmetry; apply N.leb_gt; lia). rewrite Ew, Et1. reflexivity.
    + (* scalar *)
      pose proof (pscalar_len _ _ _ H) as L. split; [exact L|].
      intros g d' Hg Hd. destruct g as [|g]; [lia|]. cbn [pval]. rewrite Et. exact H.
  - intros d w s es r H. cbn [pelems] in H.
    destruct (pval f d s) as [[c r1]|] eqn:Ev; [|discriminate]. destruct (IHv _ _ _ _ Ev) as [L1 F1].
    destruct (split_ws r1) as [wa r2] eqn:Ew. pose proof (split_ws_text _ _ _ Ew) as Hr1.
    destruct (tk r2) as [t r3] eqn:Et. pose proof (tk_inv _ _ _ Et) as Hr2. destruct t; try discriminate.
    + injection H as <- <-.
      assert (L2 : length r1 = (length wa + S (length r3))%nat) by (rewrite Hr1, Hr2, app_length; reflexivity).
      split; [lia|]. intros g d' Hg Hd. destruct g as [|g]; [lia|]. cbn [pelems].
      rewrite (F1 g d') by lia. rewrite Ew, Et. reflexivity.
    + destruct (split_ws r3) as [wb r4] eqn:Ew2. pose proof (split_ws_text _ _ _ Ew2) as Hr3.
      destruct (pelems f d wb r4) as [[es' r5]|] eqn:Ee; [|discriminate]. injection H as <- <-.
      destruct (IHe _ _ _ _ _ Ee) as [L3 F3].
      assert (L2 : length r1 = (length wa + S (length wb + length r4))%nat)
        by (rewrite Hr1, Hr2, app_length; cbn [length]; rewrite Hr3, app_length; reflexivity).
      split; [lia|]. intros g d' Hg Hd. destruct g as [|g]; [lia|]. cbn [pelems].
      rewrite (F1 g d') by lia. rewrite Ew, Et, Ew2. rewrite (F3 g d') by lia. reflexivity.
  - intros d w s ms r H. cbn [pmems] in H.
    destruct (tk s) as [t r0] eqn:Et0. pose proof (tk_inv _ _ _ Et0) as Hs. destruct t; try discriminate.
    destruct (pstr r0) as [[k r1]|] eqn:Ep; [|discriminate]. pose proof (pstr_props _ _ _ Ep) as [Hr0 _].
    destruct (split_ws r1) as [wc r2] eqn:Ew1. pose proof (split_ws_text _ _ _ Ew1) as Hr1.
    destruct (tk r2) as [t r3] eqn:Et2. pose proof (tk_inv _ _ _ Et2) as Hr2. destruct t; try discriminate.
    destruct (split_ws r3) as [wv r4] eqn:Ew3. pose proof (split_ws_text _ _ _ Ew3) as Hr3.
    destruct (pval f d r4) as [[c r5]|] eqn:Ev; [|discriminate]. destruct (IHv _ _ _ _ Ev) as [L4 F4].
    destruct (split_ws r5) as [wa r6] eqn:Ew5. pose proof (split_ws_text _ _ _ Ew5) as Hr5.
    destruct (tk r6) as [t r7] eqn:Et6. pose proof (tk_inv _ _ _ Et6) as Hr6.
    assert (L0 : length s = S (length k + S (length wc + S (length wv + length r4)))).
    { rewrite Hs, Hr0. cbn [length]. rewrite app_length. cbn [length]. rewrite Hr1, app_length, Hr2. cbn [length].
      rewrite Hr3, app_length. reflexivity. }
    destruct t; try discriminate.
    + injection H as <- <-.
      assert (L5 : length r5 = (length wa + S (length r7))%nat) by (rewrite Hr5, Hr6, app_length; reflexivity).
      split; [lia|]. intros g d' Hg Hd. destruct g as [|g]; [lia|]. cbn [pmems].
      rewrite Et0, Ep, Ew1, Et2, Ew3. rewrite (F4 g d') by lia. rewrite Ew5, Et6. reflexivity.
    + destruct (split_ws r7) as [wb r8] eqn:Ew7. pose proof (split_ws_text _ _ _ Ew7) as Hr7.
      destruct (pmems f d wb r8) as [[ms' r9]|] eqn:Em; [|discriminate]. injection H as <- <-.
      destruct (IHm _ _ _ _ _ Em) as [L8 F8].
      assert (L5 : length r5 = (length wa + S (length wb + length r8))%nat)
        by (rewrite Hr5, Hr6, app_length; cbn [length]; rewrite Hr7, app_length; reflexivity).
      split; [lia|]. intros g d' Hg Hd. destruct g as [|g]; [lia|]. cbn [pmems].
      rewrite Et0, Ep, Ew1, Et2, Ew3. rewrite (F4 g d') by lia. rewrite Ew5, Et6, Ew7. rewrite (F8 g d') by lia. reflexivity.
Qed.

(* [PV d s c r]: the value parser reads the tree c off the front of s and leaves r, with every
   fuel >= 2 * length s, at depth d and at every smaller depth *)
Definition PV (d : N) (s : bytes) (c : cst) (r : bytes) : Prop :=
  forall g d', (2 * length s <= g)%nat -> d' <= d -> pval g d' s = Some (c, r).

Lemma pval_PV f d s c r : pval f d s = Some (c, r) -> PV d s c r.
Proof.
  intros H g d' Hg Hd. destruct (proj1 (parser_fuel f) _ _ _ _ H) as [L F]. apply F; [lia | exact Hd].
Qed.

Lemma PV_value_at d s c r : PV d s c r -> value_at d s = Some (c, r).
Proof. intros H. unfold value_at. apply H; [unfold fuel_of; lia | lia]. Qed.

Lemma tight_PV d s : tight_at d s = true -> exists c, PV d s c [].
Proof.
  unfold tight_at, value_at. destruct (pval (fuel_of s) d s) as [[c [|x r]]|] eqn:E; try discriminate.
  intros _. exists c. exact (pval_PV _ _ _ _ _ E).
Qed.

Lemma PV_tight d s c : PV d s c [] -> tight_at d s = true.
Proof. intros H. unfold tight_at. rewrite (PV_value_at _ _ _ _ H). reflexivity. Qed.

Lemma PV_depth d d' s c r : PV d s c r -> d' <= d -> PV d' s c r.
Proof. intros H Hd g d'' Hg Hd'. apply H; [exact Hg | lia]. Qed.

Lemma PV_text d s c r : PV d s c r -> s = ctext c r.
Proof. intros H. exact (pval_text _ _ _ _ _ (PV_value_at _ _ _ _ H)). Qed.

(* spec_depth_mono *)
Lemma tight_depth_mono d d' s : tight_at d s = true -> d' <= d -> tight_at d' s = true.
Proof. intros H Hd. destruct (tight_PV _ _ H) as [c Hc]. exact (PV_tight _ _ _ (PV_depth _ _ _ _ _ Hc Hd)). Qed.
