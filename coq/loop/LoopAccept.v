(* LoopAccept: replays the log of a run of the real server.Loop (harness/conc/loop.go) through the Loop
   model.  The log is a sequence of windows: an environment action or the release of a goroutine parked
   at a scheduling point, followed by everything that happened until the system was quiescent again.  A
   window is explained by the model when its label, followed by some maximal sequence of free internal
   steps, produces exactly the observed observations (as a multiset).  The set of model states consistent
   with the log so far is carried along (exit-status races, unknown goroutine at loop.finish). *)
From Coq Require Import List Arith Bool.
From JV Require Import Loop.
Import ListNotations.

Definition status_code (st : status) : nat := match st with StStopped => 1 | StClosed => 2 | StFailed => 3 end.
Definition retv_code (v : retv) : nat := match v with RNil => 1 | RErr => 2 end.
Definition b2n (b : bool) : nat := if b then 1 else 0.
Definition o2n (o : option nat) : nat := match o with None => 0 | Some i => S i end.

Definition obs_code (o : obs) : list nat :=
  match o with
  | ONewSvc i => [1; i]
  | OAssigner i ok => [2; i; b2n ok]
  | OCall k a => [3; k; a]
  | OFinish i a st => [4; i; a; status_code st]
  | OReturn v => [5; retv_code v]
  end.

Fixpoint list_eqb (a b : list nat) : bool :=
  match a, b with
  | [], [] => true
  | x :: a', y :: b' => (x =? y) && list_eqb a' b'
  | _, _ => false
  end.
Definition obs_eqb (a b : obs) : bool := list_eqb (obs_code a) (obs_code b).

(* multiset difference: remove one occurrence of o *)
Fixpoint remove_one (o : obs) (os : list obs) : option (list obs) :=
  match os with
  | [] => None
  | x :: r => if obs_eqb o x then Some r
              else match remove_one o r with Some r' => Some (x :: r') | None => None end
  end.
Fixpoint remove_all (ms os : list obs) : option (list obs) :=
  match ms with
  | [] => Some os
  | m :: r => match remove_one m os with Some os' => remove_all r os' | None => None end
  end.

Definition phase_code (p : phase) : nat :=
  match p with
  | PAccepted => 0 | PHasSvc => 1 | PAssigned => 2 | PFailed => 3 | PRunning => 4
  | PExited st => 4 + status_code st | PFinished st => 7 + status_code st | PDoneOk st => 10 + status_code st
  | PDoneFail => 14 | PStopping st => 14 + status_code st
  end.
Definition conn_fp (c : conn) : list nat :=
  [phase_code (c_phase c); o2n (c_svc c); o2n (c_asg c); o2n (c_used c); b2n (c_pclosed c);
   b2n (c_pfailed c); c_busy c].
Definition acc_code (a : astat) : nat :=
  match a with Accepting => 0 | Waiting EClosing => 1 | Waiting EOther => 2 | Returned RNil => 3 | Returned RErr => 4 end.
Definition fp_state (s : state) : list nat :=
  flat_map conn_fp (conns s) ++ [99; next_svc s; wg s; acc_code (acc s); b2n (ctx_done s); 99]
  ++ flat_map (fun e => match e with (k, i, a, st) => [k; i; a; status_code st] end) (finish_log s) ++ [99]
  ++ closed_conns s.

Record node := mkNode { n_state : state; n_rem : list obs; n_prod : list obs }.
Definition fp_node (n : node) : list nat :=
  fp_state (n_state n) ++ [98] ++ flat_map obs_code (n_rem n) ++ [98] ++ flat_map obs_code (n_prod n).

Fixpoint fp_mem (f : list nat) (l : list (list nat)) : bool :=
  match l with [] => false | x :: r => list_eqb f x || fp_mem f r end.

(* one step of a node: in strict mode the produced observations must be among the observed ones *)
Definition node_step (strict : bool) (n : node) (l : label) : list node :=
  match step (n_state n) l with
  | None => []
  | Some (s', os) =>
      if strict then match remove_all os (n_rem n) with
                     | Some rem => [mkNode s' rem []]
                     | None => []
                     end
      else [mkNode s' [] (n_prod n ++ os)]
  end.

(* Partial-order reduction: free internal steps of different connections (and of the accept loop) are
   independent - they read and write only their own connection, append to logs, and decrement wg, and
   LoopReturn is enabled only when no connection step is - so it suffices to expand, at each node, all
   enabled steps of ONE goroutine group (the first that has any): every terminal state is still reached. *)
Fixpoint first_conn_group (hooks ctx : bool) (k : nat) (cs : list conn) : list label :=
  match cs with
  | [] => []
  | c :: r => match conn_enabled hooks ctx k c with
              | [] => first_conn_group hooks ctx (S k) r
              | ls => ls
              end
  end.
Definition first_group (hooks : bool) (s : state) : list label :=
  match enabled hooks (set_conns (fun _ => []) s) with
  | [] => first_conn_group hooks (ctx_done s) 0 (conns s)
  | ls => ls
  end.

(* all nodes reachable by free internal steps in which no free internal step is enabled any more *)
Fixpoint explore (hooks strict : bool) (fuel : nat) (todo : list node) (seen : list (list nat)) (out : list node)
  : option (list node) :=
  match fuel with
  | 0 => match todo with [] => Some out | _ => None end
  | S f =>
      match todo with
      | [] => Some out
      | n :: rest =>
          let key := fp_node n in
          if fp_mem key seen then explore hooks strict f rest seen out
          else match first_group hooks (n_state n) with
               | [] => explore hooks strict f rest (key :: seen) (n :: out)
               | ls => explore hooks strict f (flat_map (node_step strict n) ls ++ rest) (key :: seen) out
               end
      end
  end.

Definition fuel0 : nat := 200 * 100.

Inductive item :=
| IEnv (l : label) (os : list obs)
| IRel (x : site) (k : option nat) (os : list obs)
| IParked (nc nf : nat)
| IFinal (ret : bool) (closes : list nat).

Definition labels_of (s : state) (it : item) : list label :=
  match it with
  | IEnv l _ => [l]
  | IRel SConn (Some k) _ => [NewSvc k]
  | IRel x _ _ => candidates s x
  | _ => []
  end.
Definition obs_of (it : item) : list obs :=
  match it with IEnv _ os | IRel _ _ os => os | _ => [] end.

Definition closes_list (s : state) : list nat :=
  map (fun k => count_occ Nat.eq_dec (closed_conns s) k) (seq 0 (length (conns s))).

(* the successors of one state for one item; None = out of fuel *)
Definition step_item (hooks strict : bool) (s : state) (it : item) : option (list node) :=
  match it with
  | IEnv _ _ | IRel _ _ _ =>
      explore hooks strict fuel0
              (flat_map (node_step strict (mkNode s (obs_of it) [])) (labels_of s it)) [] []
  | IParked nc nf =>
      Some (if (parked_count s SConn =? nc) && (parked_count s SFinish =? nf) then [mkNode s [] []] else [])
  | IFinal ret closes =>
      Some (if Bool.eqb (returned s) ret && list_eqb (closes_list s) closes && is_nil (enabled false s)
            then [mkNode s [] []] else [])
  end.

Definition explained (n : node) : bool := is_nil (n_rem n).

Fixpoint dedup (ss : list state) (seen : list (list nat)) : list state :=
  match ss with
  | [] => []
  | s :: r => let f := fp_state s in if fp_mem f seen then dedup r seen else s :: dedup r (f :: seen)
  end.

Fixpoint all_some {A} (l : list (option (list A))) : option (list A) :=
  match l with
  | [] => Some []
  | None :: _ => None
  | Some x :: r => match all_some r with Some y => Some (x ++ y) | None => None end
  end.

Inductive verdict :=
| Accepted (nstates : nat) (final : list state)
| Rejected (index : nat) (expected : list (list obs)) (at_states : list state)
| OutOfFuel (index : nat).

Definition expected_of (hooks : bool) (ss : list state) (it : item) : list (list obs) :=
  match all_some (map (fun s => step_item hooks false s it) ss) with
  | Some ns => map n_prod ns
  | None => []
  end.

Fixpoint accept (hooks : bool) (ss : list state) (log : list item) (i : nat) : verdict :=
  match log with
  | [] => Accepted (length ss) ss
  | it :: rest =>
      match all_some (map (fun s => step_item hooks true s it) ss) with
      | None => OutOfFuel i
      | Some ns =>
          match dedup (map n_state (filter explained ns)) [] with
          | [] => Rejected i (expected_of hooks ss it) ss
          | ss' => accept hooks ss' rest (S i)
          end
      end
  end.
