(* LoopMonServed: one more monitor over the two sequences of a run of the Loop model (see loop/LoopMonitors.v).

   (e) [mon_return_served] : when OReturn is observed, newService has been called once for every Accept label of the
                             environment sequence (no accepted connection is left unserved: Loop waits for the
                             goroutine of every connection it accepted, also for one that has not started yet), and
                             the Assigner of each of these instances has been called.
   The environment sequence is used as a whole (its number of Accepts) although the check is made at the OReturn:
   after the accept loop has failed no Accept label occurs any more ([no_accept_after]). *)
From Coq Require Import List Arith Bool Lia.
From JV Require Import Loop LoopProofs LoopMore LoopMonitors.
Import ListNotations.

Definition served_check (nacc : nat) (seen : list obs) (o : obs) : bool :=
  match o with
  | OReturn _ => (length (newsvc_of seen) =? nacc) &&
                 forallb (fun i => asg_seen i true seen || asg_seen i false seen) (newsvc_of seen)
  | _ => true
  end.
Definition mon_return_served (env : list label) (os : list obs) : bool := scan (served_check (n_accepts env)) [] os.

(** * Proofs *)
Lemma n_accepts_env_cons l r : n_accepts (env_of (l :: r)) = b2n (is_accept l) + n_accepts (env_of r).
Proof. unfold n_accepts, env_of. destruct l; reflexivity. Qed.

Lemma no_accept_after : forall r s s' os, run s r = Some (s', os) -> acc s <> Accepting -> n_accepts (env_of r) = 0.
Proof.
  induction r as [|l r IH]; intros s s' os H N; [reflexivity|]. cbn [run] in H.
  destruct (step s l) as [[s1 o1]|] eqn:E; [|discriminate].
  destruct (run s1 r) as [[s2 o2]|] eqn:E2; [|discriminate].
  rewrite n_accepts_env_cons.
  assert (A : is_accept l = false).
  { destruct l; try reflexivity. exfalso. inv_step E. congruence. }
  rewrite A. cbn. eapply IH; eauto.
  destruct (step_acc_view _ _ _ _ E) as [(e & _ & B & _)|[(v & _ & B)|(B & _)]]; congruence.
Qed.

Lemma newsvc_len_rev_app a b : length (newsvc_of (rev a ++ b)) = length (newsvc_of a) + length (newsvc_of b).
Proof.
  unfold newsvc_of. rewrite flat_map_app, app_length. f_equal.
  induction a as [|o a IH]; [reflexivity|]. cbn [rev flat_map]. rewrite flat_map_app, !app_length, IH.
  cbn [flat_map]. rewrite app_nil_r. lia.
Qed.

Lemma newsvc_new_seen i seen : In i (newsvc_of seen) -> new_seen i seen = true.
Proof.
  unfold newsvc_of, new_seen. intros H. apply in_flat_map in H as (o & Ho & Hi). apply existsb_exists. exists o.
  split; auto. destruct o; try contradiction. destruct Hi as [->|[]]. cbn. apply Nat.eqb_refl.
Qed.

Lemma done_has_svc tr s : Inv tr s -> forall k c, get s k = Some c -> is_done (c_phase c) = true -> has_svc c = true.
Proof.
  intros I k c G D. pose proof (inv_data _ _ I _ _ G) as HD. unfold data_ok in HD. unfold has_svc.
  destruct (c_phase c); try discriminate.
  - destruct HD as (i & -> & _). reflexivity.
  - destruct HD as ((i & -> & _) & _). reflexivity.
Qed.

Lemma filter_all {A} (p : A -> bool) l : (forall x, In x l -> p x = true) -> filter p l = l.
Proof.
  induction l as [|x l IH]; intros H; [reflexivity|]. cbn. rewrite (H x (or_introl eq_refl)). f_equal.
  apply IH. intros y Hy. apply H. right. exact Hy.
Qed.

Lemma served_step nacc tr s seen l s' os r : reach tr s -> Rel s seen -> length (newsvc_of seen) = next_svc s ->
  step s l = Some (s', os) -> (exists s2 o2, run s' r = Some (s2, o2)) ->
  length (conns s) + n_accepts (env_of (l :: r)) = nacc ->
  scan (served_check nacc) seen os = true.
Proof.
  intros Rch R K H (s2 & o2 & Hr) C. pose proof (reach_inv _ _ Rch) as I.
  destruct (inv_facts _ _ I) as (_ & _ & _ & _ & WgDone & _).
  destruct (step_view _ _ _ _ H) as
    [-> Cn Nx Rt | -> Cn Nx Rt | k c c' -> G U Sv Pf Nx Rt | k a c c' -> G U Sv Ph Pr Us Nx Rt
     | k c c' -> G U Ph Sv Ph' Nx Rt | k c c' i ok -> G U Ph Sv Sv' Ph' Nx Rt
     | k c c' i a st -> G U Ph Sv As Sv' Ph' Nx Rt | v e -> Cn Ac Wg Ev Ac' Nx]; try reflexivity.
  cbn [scan served_check]. rewrite andb_true_r. apply andb_true_iff. split.
  - apply Nat.eqb_eq. rewrite K.
    assert (Z : n_accepts (env_of (l :: r)) = 0).
    { eapply (no_accept_after (l :: r) s). - cbn [run]. rewrite H, Hr. reflexivity. - congruence. }
    destruct (reach_counts _ _ Rch) as [_ N]. rewrite N, filter_all; [lia|].
    intros c Hc. apply In_nth_error in Hc as (k & G). eapply done_has_svc; eauto.
  - apply forallb_forall. intros i Hi. apply newsvc_new_seen in Hi.
    destruct (rel_wit _ _ R i (or_intror (or_intror (or_intror Hi)))) as (k & c & G & E).
    pose proof (rel_conn _ _ R k c i G E) as F. pose proof (WgDone _ _ G Wg) as D.
    unfold flags4 in F. injection F as F1 F2 _ _. rewrite F1, F2.
    destruct (c_phase c); cbn in D |- *; congruence.
Qed.

Lemma served_run nacc : forall t tr s seen s' os, reach tr s -> Rel s seen -> length (newsvc_of seen) = next_svc s ->
  length (conns s) + n_accepts (env_of t) = nacc -> run s t = Some (s', os) ->
  scan (served_check nacc) seen os = true.
Proof.
  induction t as [|l r IH]; intros tr s seen s' os Rch R K C H; cbn [run] in H.
  - injection H as <- <-. reflexivity.
  - destruct (step s l) as [[s1 o1]|] eqn:E; [|discriminate].
    destruct (run s1 r) as [[s2 o2]|] eqn:E2; [|discriminate]. injection H as <- <-.
    rewrite scan_app. apply andb_true_iff. split.
    + eapply (served_step nacc tr s seen l s1 o1 r); eauto.
    + apply (IH (tr ++ [l]) s1 (rev o1 ++ seen) s2 o2); auto.
      * eapply reach_snoc; eauto.
      * apply (step_rel tr s seen l s1 o1 (reach_inv _ _ Rch) R E).
      * rewrite newsvc_len_rev_app, K. destruct (step_accounts _ _ _ _ E) as (N1 & N2 & _). rewrite N1, N2.
        destruct (is_newsvc l); cbn; lia.
      * rewrite (step_conns_len _ _ _ _ E). rewrite n_accepts_env_cons in C. lia.
Qed.

Theorem mon_return_served_sound tr s os : run (init true) tr = Some (s, os) -> mon_return_served (env_of tr) os = true.
Proof.
  intros H. eapply (served_run _ tr []); [exact reach_nil|exact rel_init|reflexivity|reflexivity|exact H].
Qed.

(** * Examples *)
Example mon_return_served_nonvacuous :
  run (init true) ex_trace <> None /\ n_accepts (env_of ex_trace) = 2 /\
  mon_return_served (env_of ex_trace) (obs_of_run ex_trace) = true /\
  mon_return_served (filter not_closing (env_of ex_trace)) (obs_of_run ex_trace) = true /\
  mon_return_served (env_of exm_trace) (obs_of_run exm_trace) = true.
Proof. vm_compute. repeat split; try reflexivity; discriminate. Qed.

(* sensitivity: Loop returns although an accepted connection has not been served (newService not called, or its
   Assigner not called) *)
Example mon_return_served_sensitive :
  mon_return_served [Accept 0; Accept 1; AcceptErr EClosing]
    [ONewSvc 0; OAssigner 0 true; OFinish 0 0 StClosed; OReturn RNil] = false /\
  mon_return_served [Accept 0; Accept 1; AcceptErr EClosing]
    [ONewSvc 0; OAssigner 0 true; OFinish 0 0 StClosed; ONewSvc 1; OReturn RNil] = false /\
  mon_return_served [Accept 0; AcceptErr EClosing] [OReturn RNil] = false /\
  mon_return_served [Accept 0; AcceptErr EClosing] [ONewSvc 0; OAssigner 0 false; OReturn RNil] = true.
Proof. vm_compute. repeat split; reflexivity. Qed.
