(* Loop: executable transition model of server.Loop (/repo/server/loop.go).

   One label per step of a goroutine of Loop between two blocking points:
     accept loop      Accept k | AcceptErr e ... LoopReturn v      (wg.Wait + return)
     connection k     NewSvc k ; AssignerOk k | AssignerFail k ; StartSrv k ; (WaitStatus) SrvExit k st ;
                      Finish k ; ConnDone k                          (deferred wg.Done)
     inner server k   SrvStop k st                                   (the server's stop: the FIRST cause to reach it)
   The inner jrpc2 server is abstract and obeys C08/C10: it stops once, for the first cause that reaches it
   while it runs (SrvStop k StStopped: the watcher's srv.Stop() after <-sctx.Done(); StClosed: the reader
   sees the peer's close; StFailed: the reader's Recv fails) - later causes change nothing -, it exits
   (WaitStatus returns) only after its handlers returned, with the status of that first cause, and by then
   it has closed its channel exactly once.
   Environment labels: Accept/AcceptErr (the accepter), CtxEnd, PeerClose k, PeerFail k, CallStart k /
   CallEnd k (a handler of connection k is entered / returns).

   Definitions only; proofs are in LoopProofs.v. *)
From Coq Require Import List Arith Bool.
Import ListNotations.

Inductive aerr := EClosing | EOther.
Inductive status := StStopped | StClosed | StFailed.
Inductive retv := RNil | RErr.

Inductive label :=
| Accept (k : nat) | AcceptErr (e : aerr) | CtxEnd
| PeerClose (k : nat) | PeerFail (k : nat) | CallStart (k : nat) | CallEnd (k : nat)
| NewSvc (k : nat) | AssignerOk (k : nat) | AssignerFail (k : nat) | StartSrv (k : nat)
| SrvStop (k : nat) (st : status) | SrvExit (k : nat) (st : status)
| Finish (k : nat) | ConnDone (k : nat) | LoopReturn (v : retv).

Inductive phase :=
| PAccepted                (* goroutine spawned, newService not yet called *)
| PHasSvc                  (* newService returned *)
| PAssigned                (* Assigner returned an assigner *)
| PFailed                  (* Assigner failed (channel closed by Loop) *)
| PRunning                 (* server started; goroutine in WaitStatus *)
| PStopping (st : status)  (* the server has stopped for cause st (the first one); handlers may still run *)
| PExited (st : status)    (* WaitStatus returned st *)
| PFinished (st : status)  (* Finish returned *)
| PDoneOk (st : status)    (* wg.Done after Finish *)
| PDoneFail.               (* wg.Done after the Assigner failure *)

Record conn := mkConn {
  c_phase : phase;
  c_svc : option nat;      (* the instance this connection's newService call returned *)
  c_asg : option nat;      (* the assigner that instance's Assigner returned (assigner of instance i = i) *)
  c_used : option nat;     (* the assigner the server of this connection was constructed with *)
  c_pclosed : bool;        (* the peer closed the connection *)
  c_pfailed : bool;        (* the transport failed *)
  c_busy : nat             (* handlers of this connection's server that have not returned *)
}.

Inductive astat := Accepting | Waiting (e : aerr) | Returned (v : retv).

Record state := mkState {
  conns : list conn;
  next_svc : nat;                                (* number of newService calls so far *)
  finish_log : list (nat * nat * nat * status);  (* connection, instance, assigner, status of each Finish call *)
  closed_conns : list nat;                       (* one entry per Close of an accepted channel *)
  wg : nat;
  acc : astat;
  ctx_done : bool;
  fix_F10 : bool                                 (* defect switch: Loop closes the channel when Assigner fails *)
}.

Inductive obs :=
| ONewSvc (i : nat)
| OAssigner (i : nat) (ok : bool)
| OCall (k a : nat)                  (* a handler on connection k was obtained from assigner a *)
| OFinish (i a : nat) (st : status)
| OReturn (v : retv).

Definition init (f10 : bool) : state := mkState [] 0 [] [] 0 Accepting false f10.
Definition new_conn : conn := mkConn PAccepted None None None false false 0.

Fixpoint upd_nth {A} (k : nat) (f : A -> A) (l : list A) : list A :=
  match l, k with
  | [], _ => []
  | x :: r, 0 => f x :: r
  | x :: r, S k' => x :: upd_nth k' f r
  end.

Definition get (s : state) (k : nat) : option conn := nth_error (conns s) k.

Definition set_conns (f : list conn -> list conn) (s : state) : state :=
  mkState (f (conns s)) (next_svc s) (finish_log s) (closed_conns s) (wg s) (acc s) (ctx_done s) (fix_F10 s).
Definition set_conn (k : nat) (f : conn -> conn) (s : state) : state := set_conns (upd_nth k f) s.
Definition set_next (n : nat) (s : state) : state :=
  mkState (conns s) n (finish_log s) (closed_conns s) (wg s) (acc s) (ctx_done s) (fix_F10 s).
Definition set_flog (x : list (nat * nat * nat * status)) (s : state) : state :=
  mkState (conns s) (next_svc s) x (closed_conns s) (wg s) (acc s) (ctx_done s) (fix_F10 s).
Definition set_closed (x : list nat) (s : state) : state :=
  mkState (conns s) (next_svc s) (finish_log s) x (wg s) (acc s) (ctx_done s) (fix_F10 s).
Definition set_wg (n : nat) (s : state) : state :=
  mkState (conns s) (next_svc s) (finish_log s) (closed_conns s) n (acc s) (ctx_done s) (fix_F10 s).
Definition set_acc (a : astat) (s : state) : state :=
  mkState (conns s) (next_svc s) (finish_log s) (closed_conns s) (wg s) a (ctx_done s) (fix_F10 s).
Definition set_ctx (b : bool) (s : state) : state :=
  mkState (conns s) (next_svc s) (finish_log s) (closed_conns s) (wg s) (acc s) b (fix_F10 s).

Definition with_phase (p : phase) (c : conn) : conn :=
  mkConn p (c_svc c) (c_asg c) (c_used c) (c_pclosed c) (c_pfailed c) (c_busy c).
Definition with_svc (i : nat) (c : conn) : conn :=
  mkConn PHasSvc (Some i) (c_asg c) (c_used c) (c_pclosed c) (c_pfailed c) (c_busy c).
Definition with_asg (c : conn) : conn :=
  mkConn PAssigned (c_svc c) (c_svc c) (c_used c) (c_pclosed c) (c_pfailed c) (c_busy c).
Definition with_started (c : conn) : conn :=
  mkConn PRunning (c_svc c) (c_asg c) (c_asg c) (c_pclosed c) (c_pfailed c) (c_busy c).
Definition with_pclosed (c : conn) : conn :=
  mkConn (c_phase c) (c_svc c) (c_asg c) (c_used c) true (c_pfailed c) (c_busy c).
Definition with_pfailed (c : conn) : conn :=
  mkConn (c_phase c) (c_svc c) (c_asg c) (c_used c) (c_pclosed c) true (c_busy c).
Definition with_busy (n : nat) (c : conn) : conn :=
  mkConn (c_phase c) (c_svc c) (c_asg c) (c_used c) (c_pclosed c) (c_pfailed c) n.

Definition retv_of (e : aerr) : retv := match e with EClosing => RNil | EOther => RErr end.
Definition retv_eqb (a b : retv) : bool := match a, b with RNil, RNil | RErr, RErr => true | _, _ => false end.

Definition status_eq_dec : forall a b : status, {a = b} + {a <> b}.
Proof. decide equality. Defined.

(* the cause st is present and can reach a running server: the context has ended (the watcher calls Stop),
   the peer has closed, the transport has failed *)
Definition trigger (ctx : bool) (c : conn) (st : status) : bool :=
  match st with StStopped => ctx | StClosed => c_pclosed c | StFailed => c_pfailed c end.

(* a server that accepts new requests: running, with its peer still there *)
Definition alive (c : conn) : bool :=
  match c_phase c with PRunning => negb (c_pclosed c || c_pfailed c) | _ => false end.

Definition step (s : state) (l : label) : option (state * list obs) :=
  match l with
  | Accept k =>
      match acc s with
      | Accepting => if k =? length (conns s)
                     then Some (set_wg (S (wg s)) (set_conns (fun cs => cs ++ [new_conn]) s), [])
                     else None
      | _ => None
      end
  | AcceptErr e => match acc s with Accepting => Some (set_acc (Waiting e) s, []) | _ => None end
  | CtxEnd => if ctx_done s then None else Some (set_ctx true s, [])
  | PeerClose k =>
      match get s k with
      | Some c => if c_pclosed c || c_pfailed c then None else Some (set_conn k with_pclosed s, [])
      | None => None
      end
  | PeerFail k =>
      match get s k with
      | Some c => if c_pclosed c || c_pfailed c then None else Some (set_conn k with_pfailed s, [])
      | None => None
      end
  | CallStart k =>
      match get s k with
      | Some c => if alive c
                  then match c_used c with
                       | Some a => Some (set_conn k (with_busy (S (c_busy c))) s, [OCall k a])
                       | None => None
                       end
                  else None
      | None => None
      end
  | CallEnd k =>
      match get s k with
      | Some c => match c_busy c with
                  | S n => Some (set_conn k (with_busy n) s, [])
                  | 0 => None
                  end
      | None => None
      end
  | NewSvc k =>
      match get s k with
      | Some c => match c_phase c with
                  | PAccepted => Some (set_next (S (next_svc s)) (set_conn k (with_svc (next_svc s)) s), [ONewSvc (next_svc s)])
                  | _ => None
                  end
      | None => None
      end
  | AssignerOk k =>
      match get s k with
      | Some c => match c_phase c, c_svc c with
                  | PHasSvc, Some i => Some (set_conn k with_asg s, [OAssigner i true])
                  | _, _ => None
                  end
      | None => None
      end
  | AssignerFail k =>
      match get s k with
      | Some c => match c_phase c, c_svc c with
                  | PHasSvc, Some i =>
                      let s1 := set_conn k (with_phase PFailed) s in
                      Some (if fix_F10 s then set_closed (closed_conns s ++ [k]) s1 else s1, [OAssigner i false])
                  | _, _ => None
                  end
      | None => None
      end
  | StartSrv k =>
      match get s k with
      | Some c => match c_phase c with
                  | PAssigned => Some (set_conn k with_started s, [])
                  | _ => None
                  end
      | None => None
      end
  | SrvStop k st =>
      match get s k with
      | Some c => match c_phase c with
                  | PRunning => if trigger (ctx_done s) c st then Some (set_conn k (with_phase (PStopping st)) s, []) else None
                  | _ => None
                  end
      | None => None
      end
  | SrvExit k st =>
      match get s k with
      | Some c => match c_phase c, c_busy c with
                  | PStopping st0, 0 =>
                      if status_eq_dec st st0
                      then Some (set_closed (closed_conns s ++ [k]) (set_conn k (with_phase (PExited st)) s), [])
                      else None
                  | _, _ => None
                  end
      | None => None
      end
  | Finish k =>
      match get s k with
      | Some c => match c_phase c, c_svc c, c_asg c with
                  | PExited st, Some i, Some a =>
                      Some (set_flog (finish_log s ++ [(k, i, a, st)]) (set_conn k (with_phase (PFinished st)) s),
                            [OFinish i a st])
                  | _, _, _ => None
                  end
      | None => None
      end
  | ConnDone k =>
      match get s k, wg s with
      | Some c, S n => match c_phase c with
                       | PFinished st => Some (set_wg n (set_conn k (with_phase (PDoneOk st)) s), [])
                       | PFailed => Some (set_wg n (set_conn k (with_phase PDoneFail) s), [])
                       | _ => None
                       end
      | _, _ => None
      end
  | LoopReturn v =>
      match acc s, wg s with
      | Waiting e, 0 => if retv_eqb v (retv_of e) then Some (set_acc (Returned v) s, [OReturn v]) else None
      | _, _ => None
      end
  end.

Fixpoint run (s : state) (tr : list label) : option (state * list obs) :=
  match tr with
  | [] => Some (s, [])
  | l :: r => match step s l with
              | None => None
              | Some (s1, o1) => match run s1 r with
                                 | None => None
                                 | Some (s2, o2) => Some (s2, o1 ++ o2)
                                 end
              end
  end.

(* ------------------------------------------------------------------ *)
(* internal steps (what goroutines of Loop, the accepter honouring ctx, and the abstract servers do on
   their own) and quiescence.  With `hooks` the goroutines parked at the scheduling points loop.conn
   (before NewSvc) and loop.finish (before Finish) do not move on their own. *)

Definition conn_enabled (hooks : bool) (ctx : bool) (k : nat) (c : conn) : list label :=
  match c_phase c with
  | PAccepted => if hooks then [] else [NewSvc k]
  | PHasSvc => [AssignerOk k; AssignerFail k]
  | PAssigned => [StartSrv k]
  | PRunning =>
      filter (fun l => match l with SrvStop _ st => trigger ctx c st | _ => false end)
             [SrvStop k StStopped; SrvStop k StClosed; SrvStop k StFailed]
  | PStopping st => match c_busy c with 0 => [SrvExit k st] | S _ => [] end
  | PExited _ => if hooks then [] else [Finish k]
  | PFinished _ | PFailed => [ConnDone k]
  | PDoneOk _ | PDoneFail => []
  end.

Fixpoint conns_enabled (hooks ctx : bool) (k : nat) (cs : list conn) : list label :=
  match cs with
  | [] => []
  | c :: r => conn_enabled hooks ctx k c ++ conns_enabled hooks ctx (S k) r
  end.

Definition enabled (hooks : bool) (s : state) : list label :=
  (match acc s with
   | Accepting => if ctx_done s then [AcceptErr EClosing] else []
   | Waiting e => match wg s with 0 => [LoopReturn (retv_of e)] | S _ => [] end
   | Returned _ => []
   end) ++ conns_enabled hooks (ctx_done s) 0 (conns s).

Definition enabled_internal (s : state) : list label := enabled false s.
Definition is_nil {A} (l : list A) : bool := match l with [] => true | _ => false end.
Definition quiescent (s : state) : bool := is_nil (enabled_internal s).

(* which labels a released scheduling point may stand for *)
Inductive site := SConn | SFinish.
Fixpoint idxs_where (p : conn -> bool) (k : nat) (cs : list conn) : list nat :=
  match cs with [] => [] | c :: r => (if p c then [k] else []) ++ idxs_where p (S k) r end.
Definition at_conn (c : conn) : bool := match c_phase c with PAccepted => true | _ => false end.
Definition at_finish (c : conn) : bool := match c_phase c with PExited _ => true | _ => false end.
Definition candidates (s : state) (x : site) : list label :=
  match x with
  | SConn => map NewSvc (idxs_where at_conn 0 (conns s))
  | SFinish => map Finish (idxs_where at_finish 0 (conns s))
  end.
Definition parked_count (s : state) (x : site) : nat := length (candidates s x).

Definition is_done (p : phase) : bool := match p with PDoneOk _ | PDoneFail => true | _ => false end.
Definition returned (s : state) : bool := match acc s with Returned _ => true | _ => false end.
