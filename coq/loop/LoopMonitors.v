(* LoopMonitors: executable monitors over the observation sequence of a run of the Loop model (loop/Loop.v),
   proved sound for EVERY run, and extracted (extract/loopmon.list) so that the runner (ocaml/run_loop.ml) can
   evaluate them on every harness log, including the logs of racing scenarios, which LoopAccept.accept cannot
   replay (no quiescence between the environment actions, no release labels).

   A monitor takes the projection of the trace to its ENVIRONMENT labels in order ([env_of tr]: what the accepter,
   the context, the peers and the handlers did) and the observations of the run in order ([os] for
   [run (init true) tr = Some (s, os)]).  Only the two sequences are used, never their interleaving: in a racing log
   an observation line may be written later than its event relative to the environment lines.  Of the environment
   sequence the monitors use only the NUMBER of [Accept] labels and WHETHER an [AcceptErr EOther] occurs
   ([mon_env_irrelevant]): the closing error an accepter honouring the context yields by itself after [CtxEnd] is a
   label of the model ([AcceptErr EClosing]) but no line of a log, and it does not matter.

   (a) [mon_finish_once]   : every service instance i has at most one OFinish; it comes after [OAssigner i true], never
                             after [OAssigner i false], and carries the assigner that instance returned (a = i).
   (b) [mon_return_last]   : nothing is observed after an OReturn (so there is at most one, and no OFinish, ONewSvc,
                             OAssigner or OCall follows it); every instance with [OAssigner i true] before the OReturn has
                             its OFinish before it; the value is RErr iff [AcceptErr EOther] occurs among the environment
                             labels.
   (c) [mon_fresh_service] : the ONewSvc indices are 0, 1, 2, ... in order without repetition, and their number never
                             exceeds the number of [Accept] labels.  [mon_fresh_service_unordered] is its order-free
                             consequence (distinct indices, each below their number, not more than the Accepts): the
                             harness draws the index under one lock and writes the log line under another, so that two
                             racing connection goroutines may write their lines in the other order.
   (d) [mon_assigner_call] : every OAssigner i _ comes after ONewSvc i and is the only one of i; every OCall _ a is served by
                             an assigner that was returned ([OAssigner a true] before it) and whose instance has not been
                             finished (no OFinish a before it).

   Definitions first (executable, extracted), proofs after. *)
From Coq Require Import List Arith Bool Lia.
From JV Require Import Loop LoopProofs LoopMore.
Import ListNotations.

(** * The two sequences *)
Definition is_env (l : label) : bool :=
  match l with
  | Accept _ | AcceptErr _ | CtxEnd | PeerClose _ | PeerFail _ | CallStart _ | CallEnd _ => true
  | _ => false
  end.
Definition env_of (tr : list label) : list label := filter is_env tr.

Definition is_accept (l : label) : bool := match l with Accept _ => true | _ => false end.
Definition is_other (l : label) : bool := match l with AcceptErr EOther => true | _ => false end.
Definition n_accepts (env : list label) : nat := length (filter is_accept env).
Definition has_other (env : list label) : bool := existsb is_other env.

(** * What has been observed so far ([seen]: most recent first) *)
Definition is_new (i : nat) (o : obs) : bool := match o with ONewSvc j => j =? i | _ => false end.
Definition is_asg (i : nat) (ok : bool) (o : obs) : bool :=
  match o with OAssigner j b => (j =? i) && Bool.eqb b ok | _ => false end.
Definition is_fin (i : nat) (o : obs) : bool := match o with OFinish j _ _ => j =? i | _ => false end.
Definition is_retobs (o : obs) : bool := match o with OReturn _ => true | _ => false end.
Definition new_seen (i : nat) (seen : list obs) : bool := existsb (is_new i) seen.
Definition asg_seen (i : nat) (ok : bool) (seen : list obs) : bool := existsb (is_asg i ok) seen.
Definition fin_seen (i : nat) (seen : list obs) : bool := existsb (is_fin i) seen.
Definition ret_seen (seen : list obs) : bool := existsb is_retobs seen.
Definition asg_ok_ids (seen : list obs) : list nat :=
  flat_map (fun o => match o with OAssigner i true => [i] | _ => [] end) seen.

(* left-to-right scan: every observation is checked against the ones before it *)
Fixpoint scan (chk : list obs -> obs -> bool) (seen os : list obs) : bool :=
  match os with
  | [] => true
  | o :: r => chk seen o && scan chk (o :: seen) r
  end.

(** * (a) *)
Definition finish_check (seen : list obs) (o : obs) : bool :=
  match o with
  | OFinish i a _ => (a =? i) && asg_seen i true seen && negb (asg_seen i false seen) && negb (fin_seen i seen)
  | _ => true
  end.
Definition mon_finish_once (env : list label) (os : list obs) : bool := scan finish_check [] os.

(** * (b) *)
Definition retv_for (other : bool) : retv := if other then RErr else RNil.
Definition return_check (other : bool) (seen : list obs) (o : obs) : bool :=
  negb (ret_seen seen) &&
  match o with
  | OReturn v => forallb (fun i => fin_seen i seen) (asg_ok_ids seen) && retv_eqb v (retv_for other)
  | _ => true
  end.
Definition mon_return_last (env : list label) (os : list obs) : bool := scan (return_check (has_other env)) [] os.

(** * (c) *)
Fixpoint count_up (n : nat) (l : list nat) : bool :=
  match l with [] => true | x :: r => (x =? n) && count_up (S n) r end.
Definition mon_fresh_service (env : list label) (os : list obs) : bool :=
  count_up 0 (newsvc_of os) && (length (newsvc_of os) <=? n_accepts env).

Fixpoint mem_nat (x : nat) (l : list nat) : bool := match l with [] => false | y :: r => (x =? y) || mem_nat x r end.
Fixpoint nodup_nat (l : list nat) : bool := match l with [] => true | x :: r => negb (mem_nat x r) && nodup_nat r end.
Definition mon_fresh_service_unordered (env : list label) (os : list obs) : bool :=
  nodup_nat (newsvc_of os) && forallb (fun i => i <? length (newsvc_of os)) (newsvc_of os) &&
  (length (newsvc_of os) <=? n_accepts env).

(** * (d) *)
Definition assigner_call_check (seen : list obs) (o : obs) : bool :=
  match o with
  | OAssigner i _ => new_seen i seen && negb (asg_seen i true seen) && negb (asg_seen i false seen)
  | OCall _ a => asg_seen a true seen && negb (fin_seen a seen)
  | _ => true
  end.
Definition mon_assigner_call (env : list label) (os : list obs) : bool := scan assigner_call_check [] os.

(** * Proofs *)

Lemma scan_app chk : forall a seen b, scan chk seen (a ++ b) = scan chk seen a && scan chk (rev a ++ seen) b.
Proof.
  induction a as [|o a IH]; intros seen b; cbn [app scan rev]; auto.
  rewrite IH, <- app_assoc. cbn [app]. rewrite andb_assoc. reflexivity.
Qed.

(** ** the effect of one step, as far as the monitors are concerned *)
Definition asgd (p : phase) : bool :=
  match p with PAssigned | PRunning | PStopping _ | PExited _ | PFinished _ | PDoneOk _ => true | _ => false end.
Definition failedp (p : phase) : bool := match p with PFailed | PDoneFail => true | _ => false end.
Definition finp (p : phase) : bool := match p with PFinished _ | PDoneOk _ => true | _ => false end.
Definition pflags (p : phase) : bool * bool * bool := (asgd p, failedp p, finp p).
Definition upd1 (s s' : state) (k : nat) (c' : conn) : Prop := conns s' = upd_nth k (fun _ => c') (conns s).

Inductive view (s : state) (l : label) (s' : state) (os : list obs) : Prop :=
| VSame : os = [] -> conns s' = conns s -> next_svc s' = next_svc s -> returned s' = returned s -> view s l s' os
| VNew : os = [] -> conns s' = conns s ++ [new_conn] -> next_svc s' = next_svc s -> returned s' = returned s ->
         view s l s' os
| VConn k c c' : os = [] -> get s k = Some c -> upd1 s s' k c' -> c_svc c' = c_svc c ->
         pflags (c_phase c') = pflags (c_phase c) -> next_svc s' = next_svc s -> returned s' = returned s -> view s l s' os
| VCall k a c c' : os = [OCall k a] -> get s k = Some c -> upd1 s s' k c' -> c_svc c' = c_svc c ->
         c_phase c' = c_phase c -> c_phase c = PRunning -> c_used c = Some a ->
         next_svc s' = next_svc s -> returned s' = returned s -> view s l s' os
| VNewSvc k c c' : os = [ONewSvc (next_svc s)] -> get s k = Some c -> upd1 s s' k c' -> c_phase c = PAccepted ->
         c_svc c' = Some (next_svc s) -> c_phase c' = PHasSvc ->
         next_svc s' = S (next_svc s) -> returned s' = returned s -> view s l s' os
| VAsg k c c' i ok : os = [OAssigner i ok] -> get s k = Some c -> upd1 s s' k c' -> c_phase c = PHasSvc ->
         c_svc c = Some i -> c_svc c' = Some i -> c_phase c' = (if ok then PAssigned else PFailed) ->
         next_svc s' = next_svc s -> returned s' = returned s -> view s l s' os
| VFin k c c' i a st : os = [OFinish i a st] -> get s k = Some c -> upd1 s s' k c' -> c_phase c = PExited st ->
         c_svc c = Some i -> c_asg c = Some a -> c_svc c' = Some i -> c_phase c' = PFinished st ->
         next_svc s' = next_svc s -> returned s' = returned s -> view s l s' os
| VRet v e : os = [OReturn v] -> conns s' = conns s -> acc s = Waiting e -> wg s = 0 -> v = retv_of e ->
         acc s' = Returned v -> next_svc s' = next_svc s -> view s l s' os.

Lemma retv_eqb_eq a b : retv_eqb a b = true -> a = b.
Proof. destruct a, b; cbn; congruence. Qed.
Lemma retv_eqb_refl a : retv_eqb a a = true.
Proof. destruct a; reflexivity. Qed.

Ltac upd1_tac E := unfold upd1; cbn [conns set_conn set_conns set_next set_flog set_closed set_wg set_acc set_ctx];
  try (destruct (fix_F10 _)); cbn [conns set_closed]; eapply upd_const; exact E.

Lemma step_view s l s' os : step s l = Some (s', os) -> view s l s' os.
Proof.
  intros H. destruct l.
  - (* Accept *) inv_step H. apply VNew; auto.
  - (* AcceptErr *) inv_step H. apply VSame; auto. unfold returned. cbn. rewrite Heqa. reflexivity.
  - (* CtxEnd *) inv_step H. apply VSame; auto.
  - (* PeerClose *) inv_step H; (eapply (VConn _ _ _ _ k c); [ | | upd1_tac Heqo | .. ]; cbn; auto).
  - (* PeerFail *) inv_step H; (eapply (VConn _ _ _ _ k c); [ | | upd1_tac Heqo | .. ]; cbn; auto).
  - (* CallStart *) inv_step H. unfold alive in Heqb. destruct (c_phase c) eqn:P; try discriminate.
    eapply (VCall _ _ _ _ k n c); [ | | upd1_tac Heqo | .. ]; cbn; auto.
  - (* CallEnd *) inv_step H; (eapply (VConn _ _ _ _ k c); [ | | upd1_tac Heqo | .. ]; cbn; auto).
  - (* NewSvc *) inv_step H; (eapply (VNewSvc _ _ _ _ k c); [ | | upd1_tac Heqo | .. ]; cbn; auto).
  - (* AssignerOk *) inv_step H; (eapply (VAsg _ _ _ _ k c _ n true); [ | | upd1_tac Heqo | .. ]; cbn; auto).
  - (* AssignerFail *) inv_step H; (eapply (VAsg _ _ _ _ k c _ n false); [ | | upd1_tac Heqo | .. ]; cbn; auto).
  - (* StartSrv *) inv_step H; (eapply (VConn _ _ _ _ k c); [ | | upd1_tac Heqo | .. ]; cbn; rewrite ?Heqp; auto).
  - (* SrvStop *) inv_step H; (eapply (VConn _ _ _ _ k c); [ | | upd1_tac Heqo | .. ]; cbn; rewrite ?Heqp; auto).
  - (* SrvExit *) inv_step H; (eapply (VConn _ _ _ _ k c); [ | | upd1_tac Heqo | .. ]; cbn; rewrite ?Heqp; auto).
  - (* Finish *) inv_step H; (eapply (VFin _ _ _ _ k c _ n n0 st); [ | | upd1_tac Heqo | .. ]; cbn; auto).
  - (* ConnDone *) inv_step H.
    + eapply (VConn _ _ _ _ k c); [ | | upd1_tac Heqo | .. ]; cbn; rewrite ?Heqp; auto.
    + eapply (VConn _ _ _ _ k c); [ | | upd1_tac Heqo | .. ]; cbn; rewrite ?Heqp; auto.
  - (* LoopReturn *) inv_step H. apply retv_eqb_eq in Heqb. subst v. eapply VRet; eauto.
Qed.

(** ** what the invariant of LoopProofs gives *)
Lemma inv_facts tr s : Inv tr s ->
  (forall k c i, get s k = Some c -> c_svc c = Some i -> i < next_svc s) /\
  (forall k c, get s k = Some c -> c_phase c = PAccepted -> c_svc c = None) /\
  (forall k c st i a, get s k = Some c -> c_phase c = PExited st -> c_svc c = Some i -> c_asg c = Some a -> a = i) /\
  (forall k c a, get s k = Some c -> c_phase c = PRunning -> c_used c = Some a -> c_svc c = Some a) /\
  (forall k c, get s k = Some c -> wg s = 0 -> is_done (c_phase c) = true) /\
  (forall k c, get s k = Some c -> returned s = true -> is_done (c_phase c) = true).
Proof.
  intros I. pose proof (inv_data _ _ I) as HD.
  assert (W : forall k c, get s k = Some c -> wg s = 0 -> is_done (c_phase c) = true).
  { intros k c G W. rewrite (inv_wg _ _ I) in W. eapply live_zero_done; eauto. }
  repeat split.
  - intros k c i G E. specialize (HD _ _ G). unfold data_ok in HD.
    destruct (c_phase c); repeat match goal with
      | H : _ /\ _ |- _ => destruct H | H : exists _, _ |- _ => destruct H end; congruence.
  - intros k c G P. specialize (HD _ _ G). unfold data_ok in HD. rewrite P in HD. tauto.
  - intros k c st i a G P E1 E2. specialize (HD _ _ G). unfold data_ok in HD. rewrite P in HD.
    destruct HD as (i0 & A & _ & B & _). congruence.
  - intros k c a G P E. specialize (HD _ _ G). unfold data_ok in HD. rewrite P in HD.
    destruct HD as (i0 & A & _ & _ & B). congruence.
  - exact W.
  - intros k c G R. apply (W k c G). apply (inv_ret _ _ I R).
Qed.

Lemma get_upd1 s s' k c c' j : get s k = Some c -> upd1 s s' k c' ->
  get s' j = if j =? k then Some c' else get s j.
Proof.
  intros G U. unfold upd1 in U. unfold get in *. rewrite U.
  destruct (Nat.eqb_spec j k) as [->|N]; [rewrite nth_upd_same, G; reflexivity|apply nth_upd_other; auto].
Qed.

(** ** the relation between a state and the observations so far *)
Definition flags4 (i : nat) (seen : list obs) : bool * bool * bool * bool :=
  (asg_seen i true seen, asg_seen i false seen, fin_seen i seen, new_seen i seen).
Definition anyflag (i : nat) (seen : list obs) : Prop :=
  asg_seen i true seen = true \/ asg_seen i false seen = true \/ fin_seen i seen = true \/ new_seen i seen = true.

Record Rel (s : state) (seen : list obs) : Prop := {
  rel_conn : forall k c i, get s k = Some c -> c_svc c = Some i -> flags4 i seen = (pflags (c_phase c), true);
  rel_wit : forall i, anyflag i seen -> exists k c, get s k = Some c /\ c_svc c = Some i;
  rel_ret : ret_seen seen = returned s
}.

Lemma rel_init : Rel (init true) [].
Proof.
  constructor.
  - intros k c i G. unfold get in G. cbn in G. destruct k; discriminate.
  - intros i [H|[H|[H|H]]]; discriminate.
  - reflexivity.
Qed.

Lemma rel_ext s s' seen : (forall k, get s' k = get s k) -> returned s' = returned s -> Rel s seen -> Rel s' seen.
Proof.
  intros G R [A B C]. constructor.
  - intros k c i. rewrite G. apply A.
  - intros i F. destruct (B i F) as (k & c & Gk & E). exists k, c. rewrite G. auto.
  - congruence.
Qed.

Lemma rel_new s s' seen : conns s' = conns s ++ [new_conn] -> returned s' = returned s -> Rel s seen -> Rel s' seen.
Proof.
  intros Cn R [A B C].
  assert (G : forall j, get s' j = if j <? length (conns s) then get s j
                                  else if j =? length (conns s) then Some new_conn else None).
  { intros j. rewrite <- get_app_new. unfold get, set_conns. cbn. rewrite Cn. reflexivity. }
  constructor.
  - intros k c i. rewrite G. destruct (k <? length (conns s)); [apply A|].
    destruct (k =? length (conns s)); [|discriminate]. intros [= <-]. discriminate.
  - intros i F. destruct (B i F) as (k & c & Gk & E). exists k, c. rewrite G.
    apply get_some_lt in Gk as L. apply Nat.ltb_lt in L. rewrite L. auto.
  - congruence.
Qed.

(* a step of connection k that writes c' over c *)
Lemma rel_conn_step s s' seen seen' k c c' :
  Rel s seen -> get s k = Some c -> upd1 s s' k c' -> returned s' = returned s -> ret_seen seen' = ret_seen seen ->
  (forall j cj i, j <> k -> get s j = Some cj -> c_svc cj = Some i -> c_svc c' <> Some i) ->
  (forall i, c_svc c' <> Some i -> flags4 i seen' = flags4 i seen) ->
  (forall i, c_svc c' = Some i -> flags4 i seen' = (pflags (c_phase c'), true)) ->
  (c_svc c = None \/ c_svc c' = c_svc c) ->
  (forall i, anyflag i seen' -> anyflag i seen \/ c_svc c' = Some i) ->
  Rel s' seen'.
Proof.
  intros [A B C] G U R Rs Fresh Other Own Keep Any. constructor.
  - intros j cj i Gj E. rewrite (get_upd1 _ _ _ _ _ j G U) in Gj.
    destruct (Nat.eqb_spec j k) as [->|N].
    + injection Gj as <-. apply Own; auto.
    + rewrite Other; [apply (A j); auto|]. eapply Fresh; eauto.
  - intros i F. destruct (Any i F) as [F0|E].
    + destruct (B i F0) as (k0 & c0 & G0 & E0). destruct (Nat.eq_dec k0 k) as [->|N].
      * exists k, c'. rewrite (get_upd1 _ _ _ _ _ k G U), Nat.eqb_refl. split; auto.
        rewrite G in G0. injection G0 as <-. destruct Keep as [K|K]; congruence.
      * exists k0, c0. rewrite (get_upd1 _ _ _ _ _ k0 G U). apply Nat.eqb_neq in N. rewrite N. auto.
    + exists k, c'. rewrite (get_upd1 _ _ _ _ _ k G U), Nat.eqb_refl. auto.
  - congruence.
Qed.

Lemma anyflag_flags4 i seen seen' : flags4 i seen' = flags4 i seen -> anyflag i seen' -> anyflag i seen.
Proof. unfold flags4, anyflag. intros [= -> -> -> ->]. auto. Qed.

(* no observation of an instance that has not been created *)
Lemma fresh_flags tr s seen : Inv tr s -> Rel s seen -> flags4 (next_svc s) seen = (false, false, false, false).
Proof.
  intros I R. destruct (inv_facts _ _ I) as (Lt & _).
  assert (N : ~ anyflag (next_svc s) seen).
  { intros F. destruct (rel_wit _ _ R _ F) as (k & c & G & E). specialize (Lt _ _ _ G E). lia. }
  unfold flags4. unfold anyflag in N.
  destruct (asg_seen _ true seen), (asg_seen _ false seen), (fin_seen _ seen), (new_seen _ seen); try reflexivity;
    exfalso; apply N; auto.
Qed.

Lemma step_rel tr s seen l s' os : Inv tr s -> Rel s seen -> step s l = Some (s', os) -> Rel s' (rev os ++ seen).
Proof.
  intros I R H. destruct (inv_facts _ _ I) as (Lt & AccNone & _).
  pose proof (inv_inj _ _ I) as Inj.
  assert (FreshSame : forall k c c', get s k = Some c -> c_svc c' = c_svc c ->
            forall j cj i, j <> k -> get s j = Some cj -> c_svc cj = Some i -> c_svc c' <> Some i).
  { intros k c c' G E j cj i N Gj Ej E'. apply N. eapply Inj; eauto. congruence. }
  destruct (step_view _ _ _ _ H) as
    [-> Cn Nx Rt | -> Cn Nx Rt | k c c' -> G U Sv Pf Nx Rt | k a c c' -> G U Sv Ph Pr Us Nx Rt
     | k c c' -> G U Ph Sv Ph' Nx Rt | k c c' i ok -> G U Ph Sv Sv' Ph' Nx Rt
     | k c c' i a st -> G U Ph Sv As Sv' Ph' Nx Rt | v e -> Cn Ac Wg Ev Ac' Nx]; cbn [rev app].
  - apply (rel_ext s); auto. intros k. unfold get. rewrite Cn. reflexivity.
  - eapply rel_new; eauto.
  - apply (rel_conn_step s s' seen seen k c c' R G U Rt).
    + reflexivity.
    + eapply FreshSame; eauto.
    + reflexivity.
    + intros i E. rewrite Pf. apply (rel_conn _ _ R k c); congruence.
    + right. exact Sv.
    + intros i F. left. exact F.
  - apply (rel_conn_step s s' seen (OCall k a :: seen) k c c' R G U Rt).
    + reflexivity.
    + eapply FreshSame; eauto.
    + reflexivity.
    + intros i E. rewrite Ph. apply (rel_conn _ _ R k c); congruence.
    + right. exact Sv.
    + intros i F. left. exact F.
  - pose proof (fresh_flags _ _ _ I R) as Fr.
    apply (rel_conn_step s s' seen (ONewSvc (next_svc s) :: seen) k c c' R G U Rt).
    + reflexivity.
    + intros j cj i N Gj Ej. rewrite Sv. intros [= <-]. specialize (Lt _ _ _ Gj Ej). lia.
    + intros i N. unfold flags4, new_seen. cbn [existsb is_new].
      destruct (Nat.eqb_spec (next_svc s) i) as [E|_]; [exfalso; apply N; congruence|reflexivity].
    + intros i E. rewrite Sv in E. injection E as <-. rewrite Ph'. unfold flags4 in Fr. injection Fr as F1 F2 F3 _.
      unfold flags4, asg_seen, fin_seen, new_seen in *. cbn [existsb is_asg is_fin is_new].
      rewrite Nat.eqb_refl, F1, F2, F3. reflexivity.
    + left. eapply AccNone; eauto.
    + intros i F. destruct (Nat.eq_dec (next_svc s) i) as [<-|N]; [right; exact Sv|left].
      eapply anyflag_flags4; [|exact F]. unfold flags4, new_seen. cbn [existsb is_new].
      apply Nat.eqb_neq in N. rewrite N. reflexivity.
  - pose proof (rel_conn _ _ R k c i G Sv) as F0. rewrite Ph in F0. unfold flags4 in F0. cbn in F0.
    injection F0 as F1 F2 F3 F4.
    assert (Oth : forall j, Some i <> Some j -> flags4 j (OAssigner i ok :: seen) = flags4 j seen).
    { intros j N. unfold flags4, asg_seen. cbn [existsb is_asg].
      destruct (Nat.eqb_spec i j) as [E|_]; [exfalso; apply N; congruence|reflexivity]. }
    apply (rel_conn_step s s' seen (OAssigner i ok :: seen) k c c' R G U Rt).
    + reflexivity.
    + eapply FreshSame; eauto. congruence.
    + intros j N. apply Oth. congruence.
    + intros j E. rewrite Sv' in E. injection E as <-. rewrite Ph'. unfold flags4, asg_seen, fin_seen, new_seen in *.
      cbn [existsb is_asg is_fin is_new]. rewrite Nat.eqb_refl, F1, F2, F3, F4. destruct ok; reflexivity.
    + right. congruence.
    + intros j F. destruct (Nat.eq_dec i j) as [<-|N]; [right; exact Sv'|left].
      eapply anyflag_flags4; [|exact F]. apply Oth. congruence.
  - pose proof (rel_conn _ _ R k c i G Sv) as F0. rewrite Ph in F0. unfold flags4 in F0. cbn in F0.
    injection F0 as F1 F2 F3 F4.
    assert (Oth : forall j, Some i <> Some j -> flags4 j (OFinish i a st :: seen) = flags4 j seen).
    { intros j N. unfold flags4, fin_seen. cbn [existsb is_fin].
      destruct (Nat.eqb_spec i j) as [E|_]; [exfalso; apply N; congruence|reflexivity]. }
    apply (rel_conn_step s s' seen (OFinish i a st :: seen) k c c' R G U Rt).
    + reflexivity.
    + eapply FreshSame; eauto. congruence.
    + intros j N. apply Oth. congruence.
    + intros j E. rewrite Sv' in E. injection E as <-. rewrite Ph'. unfold flags4, asg_seen, fin_seen, new_seen in *.
      cbn [existsb is_asg is_fin is_new]. rewrite Nat.eqb_refl, F1, F2, F4. reflexivity.
    + right. congruence.
    + intros j F. destruct (Nat.eq_dec i j) as [<-|N]; [right; exact Sv'|left].
      eapply anyflag_flags4; [|exact F]. apply Oth. congruence.
  - destruct R as [A B C]. constructor.
    + intros k c i. unfold get. rewrite Cn. apply A.
    + intros i F. destruct (B i F) as (k & c & G & E). exists k, c. unfold get. rewrite Cn. auto.
    + unfold returned. rewrite Ac'. reflexivity.
Qed.

(** ** the checks of one step *)
Lemma asg_ok_ids_seen i seen : In i (asg_ok_ids seen) -> asg_seen i true seen = true.
Proof.
  unfold asg_ok_ids, asg_seen. intros H. apply in_flat_map in H as (o & Ho & Hi). apply existsb_exists. exists o.
  split; auto. destruct o; try contradiction. destruct ok; [|contradiction]. destruct Hi as [->|[]].
  cbn. rewrite Nat.eqb_refl. reflexivity.
Qed.

Lemma step_checks tr s seen l s' os other : Inv tr s -> Rel s seen -> step s l = Some (s', os) ->
  (forall e, acc s = Waiting e -> retv_of e = retv_for other) ->
  scan finish_check seen os = true /\ scan (return_check other) seen os = true /\
  scan assigner_call_check seen os = true.
Proof.
  intros I R H Oth. destruct (inv_facts _ _ I) as (Lt & AccNone & ExAsg & RunUsed & WgDone & RetDone).
  assert (NotRet : forall k c, get s k = Some c -> is_done (c_phase c) = false -> ret_seen seen = false).
  { intros k c G D. rewrite (rel_ret _ _ R). destruct (returned s) eqn:Rt; auto.
    rewrite (RetDone _ _ G eq_refl) in D. discriminate. }
  destruct (step_view _ _ _ _ H) as
    [-> Cn Nx Rt | -> Cn Nx Rt | k c c' -> G U Sv Pf Nx Rt | k a c c' -> G U Sv Ph Pr Us Nx Rt
     | k c c' -> G U Ph Sv Ph' Nx Rt | k c c' i ok -> G U Ph Sv Sv' Ph' Nx Rt
     | k c c' i a st -> G U Ph Sv As Sv' Ph' Nx Rt | v e -> Cn Ac Wg Ev Ac' Nx];
    try (repeat split; reflexivity); cbn [scan]; rewrite ?andb_true_r.
  - (* OCall *)
    assert (Nr : ret_seen seen = false) by (apply (NotRet k c G); rewrite Pr; reflexivity).
    pose proof (rel_conn _ _ R k c a G (RunUsed _ _ _ G Pr Us)) as F. rewrite Pr in F. unfold flags4 in F. cbn in F.
    injection F as F1 F2 F3 F4.
    split; [reflexivity|]. split; unfold return_check, assigner_call_check; rewrite ?Nr, ?F1, ?F3; reflexivity.
  - (* ONewSvc *)
    assert (Nr : ret_seen seen = false) by (apply (NotRet k c G); rewrite Ph; reflexivity).
    split; [reflexivity|]. split; unfold return_check, assigner_call_check; rewrite ?Nr; reflexivity.
  - (* OAssigner *)
    assert (Nr : ret_seen seen = false) by (apply (NotRet k c G); rewrite Ph; reflexivity).
    pose proof (rel_conn _ _ R k c i G Sv) as F. rewrite Ph in F. unfold flags4 in F. cbn in F.
    injection F as F1 F2 F3 F4.
    split; [reflexivity|]. split; unfold return_check, assigner_call_check; rewrite ?Nr, ?F1, ?F2, ?F4; reflexivity.
  - (* OFinish *)
    assert (Nr : ret_seen seen = false) by (apply (NotRet k c G); rewrite Ph; reflexivity).
    pose proof (rel_conn _ _ R k c i G Sv) as F. rewrite Ph in F. unfold flags4 in F. cbn in F.
    injection F as F1 F2 F3 F4. rewrite (ExAsg _ _ _ _ _ G Ph Sv As).
    split; [|split]; unfold finish_check, return_check, assigner_call_check;
      rewrite ?Nr, ?F1, ?F2, ?F3, ?Nat.eqb_refl; reflexivity.
  - (* OReturn *)
    assert (Nr : ret_seen seen = false).
    { rewrite (rel_ret _ _ R). unfold returned. rewrite Ac. reflexivity. }
    split; [reflexivity|]. split; [|reflexivity]. unfold return_check. rewrite Nr. cbn [negb andb].
    apply andb_true_iff. split.
    + apply forallb_forall. intros i Hi. apply asg_ok_ids_seen in Hi.
      destruct (rel_wit _ _ R i (or_introl Hi)) as (k & c & G & E).
      pose proof (rel_conn _ _ R k c i G E) as F. pose proof (WgDone _ _ G Wg) as D.
      unfold flags4 in F. injection F as F1 F2 F3 F4. rewrite F3. rewrite Hi in F1.
      destruct (c_phase c); cbn in D, F1 |- *; congruence.
    + rewrite Ev, (Oth _ Ac). apply retv_eqb_refl.
Qed.

(** ** the accept loop fails once: which value it returns is decided by the one AcceptErr of the trace *)
Lemma has_other_env_cons l r : has_other (env_of (l :: r)) = is_other l || has_other (env_of r).
Proof.
  unfold has_other, env_of. cbn [filter]. destruct (is_env l) eqn:E; [reflexivity|].
  destruct l; try discriminate; reflexivity.
Qed.

Lemma step_acc_view s l s' os : step s l = Some (s', os) ->
  (exists e, l = AcceptErr e /\ acc s = Accepting /\ acc s' = Waiting e) \/
  (exists v, l = LoopReturn v /\ acc s' = Returned v) \/
  (acc s' = acc s /\ is_other l = false).
Proof.
  intros H. destruct l; try (right; right; split; [eapply step_acc_same; eauto; discriminate|reflexivity]).
  - left. exists e. inv_step H. auto.
  - right. left. exists v. inv_step H. auto.
Qed.

Lemma no_other_after : forall r s s' os, run s r = Some (s', os) -> acc s <> Accepting -> has_other (env_of r) = false.
Proof.
  induction r as [|l r IH]; intros s s' os H N; [reflexivity|]. cbn [run] in H.
  destruct (step s l) as [[s1 o1]|] eqn:E; [|discriminate].
  destruct (run s1 r) as [[s2 o2]|] eqn:E2; [|discriminate].
  rewrite has_other_env_cons.
  destruct (step_acc_view _ _ _ _ E) as [(e & _ & A & _)|[(v & -> & A)|(A & ->)]].
  - contradiction.
  - cbn. eapply IH; eauto. congruence.
  - cbn. eapply IH; eauto. congruence.
Qed.

Definition other_ok (other : bool) (s : state) (t : list label) : Prop :=
  match acc s with
  | Accepting => has_other (env_of t) = other
  | Waiting e => retv_of e = retv_for other
  | Returned _ => True
  end.

Lemma other_ok_step other s l s' o1 r s2 o2 : step s l = Some (s', o1) -> run s' r = Some (s2, o2) ->
  other_ok other s (l :: r) -> other_ok other s' r.
Proof.
  intros H Hr O. unfold other_ok in *.
  destruct (step_acc_view _ _ _ _ H) as [(e & -> & A & A')|[(v & -> & A')|(A' & Io)]].
  - rewrite A in O. rewrite A'. rewrite has_other_env_cons in O.
    destruct e; cbn in O.
    + rewrite (no_other_after _ _ _ _ Hr) in O by congruence. subst other. reflexivity.
    + subst other. reflexivity.
  - rewrite A'. exact I.
  - rewrite A'. destruct (acc s); auto. rewrite has_other_env_cons, Io in O. exact O.
Qed.

(** ** whole runs *)
Lemma scan_run other : forall t tr s seen s' os, Inv tr s -> Rel s seen -> other_ok other s t ->
  run s t = Some (s', os) ->
  scan finish_check seen os = true /\ scan (return_check other) seen os = true /\
  scan assigner_call_check seen os = true.
Proof.
  induction t as [|l r IH]; intros tr s seen s' os I R O H; cbn [run] in H.
  - injection H as <- <-. repeat split.
  - destruct (step s l) as [[s1 o1]|] eqn:E; [|discriminate].
    destruct (run s1 r) as [[s2 o2]|] eqn:E2; [|discriminate]. injection H as <- <-.
    assert (Ow : forall e, acc s = Waiting e -> retv_of e = retv_for other).
    { intros e A. unfold other_ok in O. rewrite A in O. exact O. }
    destruct (step_checks _ _ _ _ _ _ other I R E Ow) as (C1 & C2 & C3).
    destruct (IH _ _ _ _ _ (inv_step_pres _ _ _ _ _ I E) (step_rel _ _ _ _ _ _ I R E)
                 (other_ok_step _ _ _ _ _ _ _ _ E E2 O) E2) as (D1 & D2 & D3).
    rewrite !scan_app, C1, C2, C3, D1, D2, D3. repeat split.
Qed.

Lemma run_monitors tr s os : run (init true) tr = Some (s, os) ->
  scan finish_check [] os = true /\ scan (return_check (has_other (env_of tr))) [] os = true /\
  scan assigner_call_check [] os = true.
Proof.
  intros H. eapply (scan_run _ tr []); [exact inv_init|exact rel_init| |exact H]. reflexivity.
Qed.

(** * Soundness *)
Theorem mon_finish_once_sound tr s os : run (init true) tr = Some (s, os) -> mon_finish_once (env_of tr) os = true.
Proof. intros H. apply (run_monitors _ _ _ H). Qed.

Theorem mon_return_last_sound tr s os : run (init true) tr = Some (s, os) -> mon_return_last (env_of tr) os = true.
Proof. intros H. apply (run_monitors _ _ _ H). Qed.

Theorem mon_assigner_call_sound tr s os : run (init true) tr = Some (s, os) -> mon_assigner_call (env_of tr) os = true.
Proof. intros H. apply (run_monitors _ _ _ H). Qed.

(** ** (c) *)
Definition has_svc (c : conn) : bool := match c_svc c with Some _ => true | None => false end.
Definition b2n (b : bool) : nat := if b then 1 else 0.

Lemma filter_len_upd {A} (p : A -> bool) : forall cs k c c', nth_error cs k = Some c ->
  length (filter p (upd_nth k (fun _ => c') cs)) + b2n (p c) = length (filter p cs) + b2n (p c').
Proof.
  induction cs as [|x cs IH]; intros [|k] c c' H; cbn in H; try discriminate.
  - injection H as ->. cbn. destruct (p c), (p c'); cbn; lia.
  - specialize (IH k c c' H). cbn. destruct (p x); cbn; lia.
Qed.

Lemma filter_len_le {A} (p : A -> bool) l : length (filter p l) <= length l.
Proof. induction l as [|x l IH]; cbn; [lia|]. destruct (p x); cbn; lia. Qed.

Lemma step_conns_len s l s' os : step s l = Some (s', os) ->
  length (conns s') = length (conns s) + b2n (is_accept l).
Proof.
  intros H. destruct l; inv_step H; cbn [conns set_conn set_conns set_next set_flog set_closed set_wg set_acc set_ctx is_accept b2n];
    try (destruct (fix_F10 _)); cbn [conns set_closed]; rewrite ?length_upd, ?app_length; cbn; lia.
Qed.

Lemma n_accepts_env_snoc tr l : n_accepts (env_of (tr ++ [l])) = n_accepts (env_of tr) + b2n (is_accept l).
Proof.
  unfold n_accepts, env_of. rewrite !filter_app, app_length. f_equal. cbn.
  destruct l; reflexivity.
Qed.

Lemma reach_counts : forall tr s, reach tr s ->
  length (conns s) = n_accepts (env_of tr) /\ next_svc s = length (filter has_svc (conns s)).
Proof.
  apply reach_ind; [split; reflexivity|]. intros tr s l s' os Rch [L N] H.
  split; [rewrite (step_conns_len _ _ _ _ H), n_accepts_env_snoc; lia|].
  pose proof (reach_inv _ _ Rch) as I. destruct (inv_facts _ _ I) as (_ & AccNone & _).
  assert (Upd : forall k c c', get s k = Some c -> upd1 s s' k c' -> has_svc c' = has_svc c ->
            length (filter has_svc (conns s')) = length (filter has_svc (conns s))).
  { intros k c c' G U E. unfold upd1 in U. rewrite U. pose proof (filter_len_upd has_svc _ _ _ c' G) as F.
    rewrite E in F. lia. }
  destruct (step_view _ _ _ _ H) as
    [-> Cn Nx Rt | -> Cn Nx Rt | k c c' -> G U Sv Pf Nx Rt | k a c c' -> G U Sv Ph Pr Us Nx Rt
     | k c c' -> G U Ph Sv Ph' Nx Rt | k c c' i ok -> G U Ph Sv Sv' Ph' Nx Rt
     | k c c' i a st -> G U Ph Sv As Sv' Ph' Nx Rt | v e -> Cn Ac Wg Ev Ac' Nx]; rewrite Nx.
  - rewrite Cn. exact N.
  - rewrite Cn, filter_app, app_length. cbn. lia.
  - rewrite (Upd k c c'); auto. unfold has_svc. rewrite Sv. reflexivity.
  - rewrite (Upd k c c'); auto. unfold has_svc. rewrite Sv. reflexivity.
  - unfold upd1 in U. rewrite U. pose proof (filter_len_upd has_svc _ _ _ c' G) as F.
    unfold has_svc at 2 4 in F. rewrite Sv, (AccNone _ _ G Ph) in F. cbn in F. lia.
  - rewrite (Upd k c c'); auto. unfold has_svc. rewrite Sv, Sv'. reflexivity.
  - rewrite (Upd k c c'); auto. unfold has_svc. rewrite Sv, Sv'. reflexivity.
  - rewrite Cn. exact N.
Qed.

Lemma count_up_seq : forall n a, count_up a (seq a n) = true.
Proof. induction n as [|n IH]; intros a; cbn; auto. rewrite Nat.eqb_refl. apply IH. Qed.

Lemma count_up_is_seq : forall l a, count_up a l = true -> l = seq a (length l).
Proof.
  induction l as [|x l IH]; intros a H; cbn in *; auto. apply andb_true_iff in H as [E H].
  apply Nat.eqb_eq in E. subst x. f_equal. apply IH; auto.
Qed.

Theorem newsvc_count_le_accepts tr s os : run (init true) tr = Some (s, os) ->
  newsvc_of os = seq 0 (length (newsvc_of os)) /\ length (newsvc_of os) <= n_accepts (env_of tr).
Proof.
  intros H. destruct (run_accounts _ _ _ H) as (N & _). rewrite N, seq_length. split; auto.
  destruct (reach_counts tr s (ex_intro _ os H)) as [L M]. rewrite <- L, M. apply filter_len_le.
Qed.

Theorem mon_fresh_service_sound tr s os : run (init true) tr = Some (s, os) -> mon_fresh_service (env_of tr) os = true.
Proof.
  intros H. destruct (newsvc_count_le_accepts _ _ _ H) as [E L]. unfold mon_fresh_service.
  apply andb_true_iff. split; [rewrite E; apply count_up_seq|apply Nat.leb_le; exact L].
Qed.

(* the order-free consequence, on any pair of sequences *)
Lemma mem_nat_in x l : mem_nat x l = true <-> In x l.
Proof.
  induction l as [|y l IH]; cbn; [split; [discriminate|tauto]|].
  rewrite orb_true_iff, Nat.eqb_eq, IH. split; intros [H|H]; auto.
Qed.

Lemma nodup_nat_seq : forall n a, nodup_nat (seq a n) = true.
Proof.
  induction n as [|n IH]; intros a; cbn; auto. rewrite IH, andb_true_r.
  destruct (mem_nat a (seq (S a) n)) eqn:M; auto. apply mem_nat_in, in_seq in M. lia.
Qed.

Lemma mon_fresh_service_unordered_of env os : mon_fresh_service env os = true -> mon_fresh_service_unordered env os = true.
Proof.
  unfold mon_fresh_service, mon_fresh_service_unordered. intros H. apply andb_true_iff in H as [C L].
  rewrite L, andb_true_r. apply count_up_is_seq in C. set (l := newsvc_of os) in *. clearbody l.
  remember (length l) as n eqn:En. clear En. subst l. rewrite nodup_nat_seq. cbn [andb].
  apply forallb_forall. intros i Hi. apply in_seq in Hi. apply Nat.ltb_lt. lia.
Qed.

Theorem mon_fresh_service_unordered_sound tr s os : run (init true) tr = Some (s, os) ->
  mon_fresh_service_unordered (env_of tr) os = true.
Proof. intros H. apply mon_fresh_service_unordered_of. eapply mon_fresh_service_sound; eauto. Qed.

(** ** of the environment sequence only the number of Accepts and the presence of AcceptErr EOther matter: in
    particular the closing error that an accepter honouring the context yields by itself (a label of the model, no
    line of a log) can be left out *)
Definition mon_all (env : list label) (os : list obs) : bool :=
  mon_finish_once env os && mon_return_last env os && mon_fresh_service env os && mon_assigner_call env os.

Lemma mon_env_irrelevant env env' os : n_accepts env = n_accepts env' -> has_other env = has_other env' ->
  mon_finish_once env os = mon_finish_once env' os /\ mon_return_last env os = mon_return_last env' os /\
  mon_fresh_service env os = mon_fresh_service env' os /\
  mon_fresh_service_unordered env os = mon_fresh_service_unordered env' os /\
  mon_assigner_call env os = mon_assigner_call env' os.
Proof.
  intros A O. unfold mon_return_last, mon_fresh_service, mon_fresh_service_unordered. rewrite A, O. repeat split.
Qed.

Definition not_closing (l : label) : bool := match l with AcceptErr EClosing => false | _ => true end.
Lemma drop_closing_same env : n_accepts (filter not_closing env) = n_accepts env /\
  has_other (filter not_closing env) = has_other env.
Proof.
  unfold n_accepts, has_other. induction env as [|l env [IH1 IH2]]; [split; reflexivity|].
  destruct l; try destruct e; cbn in *; rewrite ?IH1, ?IH2; split; reflexivity.
Qed.

Theorem mon_all_sound tr s os : run (init true) tr = Some (s, os) ->
  mon_all (env_of tr) os = true /\ mon_all (filter not_closing (env_of tr)) os = true.
Proof.
  intros H.
  assert (A : mon_all (env_of tr) os = true).
  { unfold mon_all. rewrite (mon_finish_once_sound _ _ _ H), (mon_return_last_sound _ _ _ H),
      (mon_fresh_service_sound _ _ _ H), (mon_assigner_call_sound _ _ _ H). reflexivity. }
  split; auto. destruct (drop_closing_same (env_of tr)) as [N O].
  destruct (mon_env_irrelevant _ _ os N O) as (E1 & E2 & E3 & _ & E5). unfold mon_all in *. congruence.
Qed.

(** * Examples *)
Definition obs_of_run (tr : list label) : list obs := match run (init true) tr with Some (_, os) => os | None => [] end.

(* non-vacuity: two connections (one served with a call in flight when the context ends, one whose Assigner fails),
   Loop returns nil; and a run in which the accepter fails with another error and Loop returns it *)
Example monitors_nonvacuous :
  run (init true) ex_trace <> None /\
  obs_of_run ex_trace = [ONewSvc 0; OAssigner 0 true; OCall 0 0; ONewSvc 1; OAssigner 1 false;
                         OFinish 0 0 StStopped; OReturn RNil] /\
  n_accepts (env_of ex_trace) = 2 /\ has_other (env_of ex_trace) = false /\
  mon_finish_once (env_of ex_trace) (obs_of_run ex_trace) = true /\
  mon_return_last (env_of ex_trace) (obs_of_run ex_trace) = true /\
  mon_fresh_service (env_of ex_trace) (obs_of_run ex_trace) = true /\
  mon_fresh_service_unordered (env_of ex_trace) (obs_of_run ex_trace) = true /\
  mon_assigner_call (env_of ex_trace) (obs_of_run ex_trace) = true /\
  run (init true) exm_trace <> None /\
  obs_of_run exm_trace = [ONewSvc 0; OAssigner 0 true; OFinish 0 0 StClosed; OReturn RErr] /\
  has_other (env_of exm_trace) = true /\
  mon_all (env_of exm_trace) (obs_of_run exm_trace) = true /\
  mon_all (filter not_closing (env_of ex_trace)) (obs_of_run ex_trace) = true.
Proof. vm_compute. repeat split; try reflexivity; discriminate. Qed.

(* sensitivity: hand-made observation lists on which the monitors are false *)
Example mon_finish_once_sensitive :
  (* twice *)
  mon_finish_once [] [ONewSvc 0; OAssigner 0 true; OFinish 0 0 StClosed; OFinish 0 0 StClosed] = false /\
  (* without / before its Assigner *)
  mon_finish_once [] [ONewSvc 0; OFinish 0 0 StClosed] = false /\
  mon_finish_once [] [ONewSvc 0; OFinish 0 0 StClosed; OAssigner 0 true] = false /\
  (* after the Assigner failed *)
  mon_finish_once [] [ONewSvc 0; OAssigner 0 false; OFinish 0 0 StClosed] = false /\
  (* with the assigner of another instance *)
  mon_finish_once [] [ONewSvc 0; OAssigner 0 true; ONewSvc 1; OAssigner 1 true; OFinish 0 1 StClosed] = false.
Proof. vm_compute. repeat split; reflexivity. Qed.

Example mon_return_last_sensitive :
  mon_return_last [AcceptErr EClosing] [OReturn RNil; OReturn RNil] = false /\
  mon_return_last [Accept 0; AcceptErr EClosing] [ONewSvc 0; OAssigner 0 true; OReturn RNil; OFinish 0 0 StStopped] = false /\
  mon_return_last [Accept 0; AcceptErr EClosing] [ONewSvc 0; OAssigner 0 true; OReturn RNil] = false /\
  mon_return_last [Accept 0; AcceptErr EClosing] [OReturn RNil; ONewSvc 0] = false /\
  mon_return_last [Accept 0; AcceptErr EClosing] [ONewSvc 0; OReturn RNil; OAssigner 0 false] = false /\
  mon_return_last [AcceptErr EOther] [OReturn RNil] = false /\
  mon_return_last [AcceptErr EClosing] [OReturn RErr] = false /\
  mon_return_last [CtxEnd] [OReturn RErr] = false /\
  (* the instance whose Assigner failed needs no Finish *)
  mon_return_last [Accept 0; AcceptErr EOther] [ONewSvc 0; OAssigner 0 false; OReturn RErr] = true.
Proof. vm_compute. repeat split; reflexivity. Qed.

Example mon_fresh_service_sensitive :
  mon_fresh_service [Accept 0; Accept 1] [ONewSvc 0; ONewSvc 0] = false /\
  mon_fresh_service [Accept 0; Accept 1] [ONewSvc 1] = false /\
  mon_fresh_service [Accept 0] [ONewSvc 0; OAssigner 0 true; ONewSvc 1] = false /\
  mon_fresh_service [Accept 0; Accept 1] [ONewSvc 1; ONewSvc 0] = false /\
  mon_fresh_service_unordered [Accept 0; Accept 1] [ONewSvc 1; ONewSvc 0] = true /\
  mon_fresh_service_unordered [Accept 0; Accept 1] [ONewSvc 0; ONewSvc 0] = false /\
  mon_fresh_service_unordered [Accept 0; Accept 1] [ONewSvc 2; ONewSvc 0] = false /\
  mon_fresh_service_unordered [Accept 0] [ONewSvc 1; ONewSvc 0] = false.
Proof. vm_compute. repeat split; reflexivity. Qed.

Example mon_assigner_call_sensitive :
  mon_assigner_call [] [OAssigner 0 true] = false /\
  mon_assigner_call [] [ONewSvc 0; OAssigner 0 true; OAssigner 0 true] = false /\
  mon_assigner_call [] [ONewSvc 0; OAssigner 0 false; OAssigner 0 true] = false /\
  mon_assigner_call [] [ONewSvc 0; OAssigner 0 false; OCall 0 0] = false /\
  mon_assigner_call [] [ONewSvc 0; OAssigner 0 true; ONewSvc 1; OCall 1 1] = false /\
  mon_assigner_call [] [ONewSvc 0; OAssigner 0 true; OFinish 0 0 StClosed; OCall 0 0] = false.
Proof. vm_compute. repeat split; reflexivity. Qed.
