(* NetAccepter: a minimal executable model of server.NetAccepter (/repo/server/loop.go) and its composition
   with the Loop model.

     func (n netAccepter) Accept(ctx) (channel.Channel, error) {
         ok := make(chan struct{}); defer close(ok)
         go func() { select { case <-ctx.Done(): n.Listener.Close(); case <-ok: return } }()
         conn, err := n.Listener.Accept()
         if err != nil { return nil, err }
         return n.newChannel(conn, conn), nil
     }

   One label per step between blocking points:
     NACall          Loop calls Accept: the watcher goroutine of this call is spawned, the call blocks in
                     Listener.Accept
     NACtxEnd        the context ends
     NAWatchClose j  the watcher of call j takes the ctx.Done() branch: it closes the listener and returns
     NAWatchExit j   the watcher of call j takes the ok branch (ok is closed) and returns
     NAConn          Listener.Accept returns a connection (listener not closed)
     NAErr e         Listener.Accept returns an error: the closing error (net.ErrClosed, for which
                     channel.IsErrClosing holds) only if the listener has been closed; any other error is a
                     failure of the listener itself (environment)
     NARet           the call returns to Loop (close(ok) runs)
   Only the watchers close the listener (nobody else holds it).  Definitions only; proofs in LoopMore.v. *)
From Coq Require Import List Arith Bool.
From JV Require Import Loop.
Import ListNotations.

Inductive wst := WOpen | WOkClosed | WGone.       (* a watcher: its ok channel open / closed, or returned *)
Inductive ncall := CIdle | CBlocked | CGotConn | CGotErr (e : aerr).

Record na_state := mkNA {
  na_ctx : bool;
  na_lclosed : bool;          (* the listener has been closed *)
  na_call : ncall;            (* the current Accept call *)
  na_ws : list wst            (* the watcher of each call so far, in call order *)
}.

Inductive na_label :=
| NACall | NACtxEnd | NAWatchClose (j : nat) | NAWatchExit (j : nat) | NAConn | NAErr (e : aerr) | NARet.

(* what a returning call hands to Loop *)
Inductive na_result := RConn | RErrv (e : aerr).

Definition na_init : na_state := mkNA false false CIdle [].

Definition set_w (j : nat) (w : wst) (a : na_state) : na_state :=
  mkNA (na_ctx a) (na_lclosed a) (na_call a) (upd_nth j (fun _ => w) (na_ws a)).

Definition na_step (a : na_state) (l : na_label) : option (na_state * option na_result) :=
  match l with
  | NACall =>
      match na_call a with
      | CIdle => Some (mkNA (na_ctx a) (na_lclosed a) CBlocked (na_ws a ++ [WOpen]), None)
      | _ => None
      end
  | NACtxEnd => if na_ctx a then None else Some (mkNA true (na_lclosed a) (na_call a) (na_ws a), None)
  | NAWatchClose j =>
      match nth_error (na_ws a) j with
      | Some WOpen | Some WOkClosed =>
          if na_ctx a then Some (set_w j WGone (mkNA (na_ctx a) true (na_call a) (na_ws a)), None) else None
      | _ => None
      end
  | NAWatchExit j =>
      match nth_error (na_ws a) j with
      | Some WOkClosed => Some (set_w j WGone a, None)
      | _ => None
      end
  | NAConn =>
      match na_call a with
      | CBlocked => if na_lclosed a then None else Some (mkNA (na_ctx a) (na_lclosed a) CGotConn (na_ws a), None)
      | _ => None
      end
  | NAErr e =>
      match na_call a with
      | CBlocked =>
          match e with
          | EClosing => if na_lclosed a then Some (mkNA (na_ctx a) (na_lclosed a) (CGotErr e) (na_ws a), None) else None
          | EOther => Some (mkNA (na_ctx a) (na_lclosed a) (CGotErr e) (na_ws a), None)
          end
      | _ => None
      end
  | NARet =>
      (* the watcher of the current call is the last one; close(ok) *)
      let close_ok := upd_nth (pred (length (na_ws a))) (fun w => match w with WOpen => WOkClosed | _ => w end) in
      match na_call a with
      | CGotConn => Some (mkNA (na_ctx a) (na_lclosed a) CIdle (close_ok (na_ws a)), Some RConn)
      | CGotErr e => Some (mkNA (na_ctx a) (na_lclosed a) CIdle (close_ok (na_ws a)), Some (RErrv e))
      | _ => None
      end
  end.

(* the steps NetAccepter's goroutines take on their own (NAConn and a listener failure NAErr EOther are the
   environment's; NACall is Loop's) *)
Fixpoint ws_enabled (ctx : bool) (j : nat) (ws : list wst) : list na_label :=
  match ws with
  | [] => []
  | w :: r =>
      (match w with
       | WOpen => if ctx then [NAWatchClose j] else []
       | WOkClosed => NAWatchExit j :: (if ctx then [NAWatchClose j] else [])
       | WGone => []
       end) ++ ws_enabled ctx (S j) r
  end.

Definition na_enabled (a : na_state) : list na_label :=
  (match na_call a with
   | CBlocked => if na_lclosed a then [NAErr EClosing] else []
   | CGotConn | CGotErr _ => [NARet]
   | CIdle => []
   end) ++ ws_enabled (na_ctx a) 0 (na_ws a).

(* ------------------------------------------------------------------ *)
(* Loop over NetAccepter: the accept loop calls Accept while it is Accepting; a returning call is Loop's
   Accept k / AcceptErr e; the context is shared. *)

Inductive jlabel :=
| JLoop (l : label)          (* a step of Loop other than Accept / AcceptErr / CtxEnd *)
| JNA (l : na_label)         (* a step of NetAccepter other than NACtxEnd *)
| JCtxEnd.

Definition loop_only (l : label) : bool :=
  match l with Accept _ | AcceptErr _ | CtxEnd => false | _ => true end.

Definition jstep (x : state * na_state) (l : jlabel) : option (state * na_state * list obs) :=
  let (s, a) := x in
  match l with
  | JLoop l0 =>
      if loop_only l0
      then match step s l0 with Some (s', os) => Some (s', a, os) | None => None end
      else None
  | JCtxEnd =>
      match step s CtxEnd, na_step a NACtxEnd with
      | Some (s', os), Some (a', _) => Some (s', a', os)
      | _, _ => None
      end
  | JNA NACtxEnd => None
  | JNA NACall =>
      match acc s, na_step a NACall with
      | Accepting, Some (a', _) => Some (s, a', [])
      | _, _ => None
      end
  | JNA l0 =>
      match na_step a l0 with
      | Some (a', None) => Some (s, a', [])
      | Some (a', Some RConn) =>
          match step s (Accept (length (conns s))) with Some (s', os) => Some (s', a', os) | None => None end
      | Some (a', Some (RErrv e)) =>
          match step s (AcceptErr e) with Some (s', os) => Some (s', a', os) | None => None end
      | None => None
      end
  end.

Fixpoint jrun (x : state * na_state) (tr : list jlabel) : option (state * na_state * list obs) :=
  match tr with
  | [] => Some (x, [])
  | l :: r => match jstep x l with
              | None => None
              | Some (s1, a1, o1) => match jrun (s1, a1) r with
                                     | None => None
                                     | Some (x2, o2) => Some (x2, o1 ++ o2)
                                     end
              end
  end.

Definition jinit : state * na_state := (init true, na_init).

(* the internal steps of the composed system: Loop's own (its connection goroutines, the abstract servers,
   LoopReturn) - WITHOUT the assumption "an accepter honouring ctx yields a closing error" of Loop.enabled -
   plus NetAccepter's own, plus the accept loop calling Accept again *)
Definition jenabled (x : state * na_state) : list jlabel :=
  let (s, a) := x in
  map JLoop ((match acc s with
              | Waiting e => match wg s with 0 => [LoopReturn (retv_of e)] | S _ => [] end
              | _ => []
              end) ++ conns_enabled false (ctx_done s) 0 (conns s))
  ++ map JNA (na_enabled a)
  ++ (match acc s, na_call a with Accepting, CIdle => [JNA NACall] | _, _ => [] end).

Definition jquiescent (x : state * na_state) : bool := is_nil (jenabled x).
