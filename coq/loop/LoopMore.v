(* LoopMore: more theorems about the Loop model (coq/loop/Loop.v): the history of the accept loop, the
   general quiescent form (an accepter failure without context end), trace-level accounts of newService and
   Finish, a minimal model of NetAccepter composed with Loop, and termination of the internal steps.
   Restated in coq/props/C20.v. *)
From Coq Require Import List Arith Bool Lia.
From JV Require Import Loop LoopProofs.
Import ListNotations.

(* ------------------------------------------------------------------ *)
(* 1. the accept loop fails once; Loop returns the value of that failure *)

Definition acc_hist (tr : list label) (s : state) : Prop :=
  match acc s with
  | Accepting => (forall e, ~ In (AcceptErr e) tr) /\ (forall v, ~ In (LoopReturn v) tr)
  | Waiting e => In (AcceptErr e) tr /\ (forall e', In (AcceptErr e') tr -> e' = e) /\ (forall v, ~ In (LoopReturn v) tr)
  | Returned v => exists e, v = retv_of e /\ In (AcceptErr e) tr /\ (forall e', In (AcceptErr e') tr -> e' = e) /\
                            In (LoopReturn v) tr
  end.

Lemma step_acc_same : forall s l s' os, step s l = Some (s', os) ->
  (forall e, l <> AcceptErr e) -> (forall v, l <> LoopReturn v) -> acc s' = acc s.
Proof.
  intros s l s' os H N1 N2. destruct l; inv_step H; simpl; try reflexivity; try congruence.
  - exfalso. eapply N1; reflexivity.
  - exfalso. eapply N2; reflexivity.
Qed.

Lemma in_snoc_other : forall (tr : list label) l x, x <> l -> (In x (tr ++ [l]) <-> In x tr).
Proof.
  intros tr l x N. rewrite in_app_iff. simpl. split; [intros [H|[H|[]]]; [exact H|congruence]|auto].
Qed.

Lemma acc_hist_reach : forall tr s, reach tr s -> acc_hist tr s.
Proof.
  apply reach_ind.
  - unfold acc_hist. simpl. split; intros ? [].
  - intros tr s l s' os R IH H.
    destruct (label_eq_dec l (AcceptErr EClosing)) as [->|N1];
      [|destruct (label_eq_dec l (AcceptErr EOther)) as [->|N2];
        [|destruct (label_eq_dec l (LoopReturn RNil)) as [->|N3];
          [|destruct (label_eq_dec l (LoopReturn RErr)) as [->|N4]]]].
    1,2: inv_step H; unfold acc_hist in *; simpl; rewrite Heqa in IH; destruct IH as [IH1 IH2];
         (split; [apply in_or_app; right; now left|]); split;
         [intros e' Hin; apply in_app_or in Hin; destruct Hin as [Hin|[Hin|[]]]; [destruct (IH1 _ Hin)|now inversion Hin]
         |intros v Hin; apply in_app_or in Hin; destruct Hin as [Hin|[Hin|[]]]; [destruct (IH2 _ Hin)|discriminate]].
    1,2: inv_step H; unfold acc_hist in *; simpl; rewrite Heqa in IH; destruct IH as [IH1 [IH2 IH3]];
         exists e; (split; [destruct e; simpl in *; try discriminate; reflexivity|]);
         (split; [apply in_or_app; now left|]); split;
         [intros e' Hin; apply in_app_or in Hin; destruct Hin as [Hin|[Hin|[]]]; [now apply IH2|discriminate]
         |apply in_or_app; right; now left].
    assert (NA : forall e, l <> AcceptErr e) by (intros [|]; assumption).
    assert (NR : forall v, l <> LoopReturn v) by (intros [|]; assumption).
    pose proof (step_acc_same _ _ _ _ H NA NR) as E. unfold acc_hist in *. rewrite E.
    destruct (acc s) as [|e|v].
    + destruct IH as [A B]. split.
      * intros e Hin. apply in_snoc_other in Hin; [exact (A _ Hin)|]. intros X. symmetry in X. exact (NA _ X).
      * intros v Hin. apply in_snoc_other in Hin; [exact (B _ Hin)|]. intros X. symmetry in X. exact (NR _ X).
    + destruct IH as [A [B C]]. split; [apply in_or_app; now left|]. split.
      * intros e' Hin. apply in_snoc_other in Hin; [now apply B|]. intros X. symmetry in X. exact (NA _ X).
      * intros v Hin. apply in_snoc_other in Hin; [exact (C _ Hin)|]. intros X. symmetry in X. exact (NR _ X).
    + destruct IH as [e [A [B [C D]]]]. exists e. split; [exact A|]. split; [apply in_or_app; now left|]. split.
      * intros e' Hin. apply in_snoc_other in Hin; [now apply C|]. intros X. symmetry in X. exact (NA _ X).
      * apply in_or_app; now left.
Qed.

(* ------------------------------------------------------------------ *)
(* 2. the general quiescent form *)

Lemma live_pos_exists : forall cs, live cs <> 0 ->
  exists k c, nth_error cs k = Some c /\ is_done (c_phase c) = false.
Proof.
  induction cs as [|x cs IH]; intros H; [exfalso; apply H; reflexivity|].
  destruct (is_done (c_phase x)) eqn:E.
  - destruct IH as [k [c [A B]]].
    + intros Z. apply H. unfold live in *. simpl. rewrite E. simpl. exact Z.
    + exists (S k), c. split; assumption.
  - exists 0, x. split; [reflexivity|exact E].
Qed.

Lemma quiescent_acc : forall s, quiescent s = true ->
  match acc s with
  | Accepting => ctx_done s = false
  | Waiting _ => wg s <> 0
  | Returned _ => True
  end.
Proof.
  intros s Q. unfold quiescent, enabled_internal, enabled in Q.
  destruct (acc s); [destruct (ctx_done s); [discriminate|reflexivity]| |exact I].
  destruct (wg s); [discriminate|]. discriminate.
Qed.

Lemma quiescent_general : forall tr s, reach tr s -> quiescent s = true ->
  (forall k c, get s k = Some c ->
     is_done (c_phase c) = true \/
     (c_phase c = PRunning /\ forall st, trigger (ctx_done s) c st = false) \/
     (exists st, c_phase c = PStopping st /\ c_busy c > 0)) /\
  (acc s = Accepting -> ctx_done s = false) /\
  (forall e, acc s = Waiting e -> exists k c, get s k = Some c /\ is_done (c_phase c) = false) /\
  ((forall k c, get s k = Some c -> c_phase c <> PRunning /\ forall st, c_phase c <> PStopping st) ->
   forall e, In (AcceptErr e) tr ->
     acc s = Returned (retv_of e) /\ In (LoopReturn (retv_of e)) tr /\ (retv_of e = RNil <-> e = EClosing)).
Proof.
  intros tr s R Q. pose proof (reach_inv _ _ R) as I. pose proof (quiescent_acc _ Q) as QA.
  assert (QC : forall k c, get s k = Some c ->
     is_done (c_phase c) = true \/
     (c_phase c = PRunning /\ forall st, trigger (ctx_done s) c st = false) \/
     (exists st, c_phase c = PStopping st /\ c_busy c > 0)).
  { intros k c G. pose proof (quiescent_conn _ _ _ Q G) as E. unfold conn_enabled in E.
    destruct (c_phase c) eqn:P; try discriminate; auto.
    - right; left. split; [reflexivity|]. intros st. cbn [filter] in E.
      destruct (trigger (ctx_done s) c StStopped) eqn:T1; [discriminate|].
      destruct (trigger (ctx_done s) c StClosed) eqn:T2; [discriminate|].
      destruct (trigger (ctx_done s) c StFailed) eqn:T3; [discriminate|].
      destruct st; assumption.
    - right; right. exists st. split; [reflexivity|]. destruct (c_busy c); [discriminate|lia]. }
  split; [exact QC|]. split; [intros A; now rewrite A in QA|]. split.
  - intros e A. rewrite A in QA. rewrite (inv_wg _ _ I) in QA. exact (live_pos_exists _ QA).
  - intros NS e Hin. pose proof (acc_hist_reach _ _ R) as AH. unfold acc_hist in AH.
    assert (AD : forall k c, get s k = Some c -> is_done (c_phase c) = true).
    { intros k c G. destruct (QC k c G) as [D|[[P _]|[st [P _]]]]; [exact D| |]; destruct (NS k c G) as [N1 N2]; [congruence|].
      exfalso. exact (N2 st P). }
    destruct (acc s) as [|e0|v] eqn:A.
    + destruct AH as [AH _]. destruct (AH _ Hin).
    + exfalso. rewrite (inv_wg _ _ I) in QA. destruct (live_pos_exists _ QA) as [k [c [G D]]].
      fold (get s k) in G. rewrite (AD k c G) in D. discriminate.
    + destruct AH as [e1 [V [_ [U L]]]]. rewrite (U _ Hin). subst v. split; [reflexivity|]. split; [exact L|].
      destruct e1; simpl; split; intros; try discriminate; reflexivity.
Qed.

(* ------------------------------------------------------------------ *)
(* 3. "fully exited": handlers run only on a started, not yet exited server *)

Definition idle_ok (c : conn) : Prop :=
  match c_phase c with PRunning | PStopping _ => True | _ => c_busy c = 0 end.

Lemma busy_inv : forall tr s, reach tr s -> forall k c, get s k = Some c -> idle_ok c.
Proof.
  apply (reach_ind (fun _ s => forall k c, get s k = Some c -> idle_ok c)).
  - intros k c H. unfold get in H. simpl in H. destruct k; discriminate.
  - intros tr s l s' os R IH H j cj Hj.
    destruct l; inv_step H; gs;
      try (now apply IH with (k := j));
      try (match goal with E : get s ?k = Some ?c |- _ =>
             split_get j k Hj;
             [ rewrite E in Hj; simpl in Hj; inversion Hj; subst; clear Hj;
               specialize (IH _ _ E); unfold idle_ok in *; simpl; rw_phase; simpl in *; auto
             | now apply IH with (k := j) ]
           end).
    + split_new s j Hj; [now apply IH with (k := j)|reflexivity].
    + unfold alive in Heqb. destruct (c_phase c); try discriminate. exact I.
    + destruct (c_phase c); auto; congruence.
Qed.

Lemma exit_means_idle : forall tr s k st t1 t2, reach tr s -> tr = t1 ++ SrvExit k st :: t2 ->
  (exists s1 c, reach t1 s1 /\ get s1 k = Some c /\ c_phase c = PStopping st /\ c_busy c = 0 /\
                In (SrvStop k st) t1 /\ In (StartSrv k) t1) /\
  (forall l, In l t2 -> l <> CallStart k /\ l <> CallEnd k).
Proof.
  intros tr s k st t1 t2 R E. subst tr. split.
  - apply reach_app_inv in R. destruct R as [s1 [R1 [os R2]]]. cbn [run] in R2.
    destruct (step s1 (SrvExit k st)) as [[s2 o2]|] eqn:ES; [|discriminate].
    inv_step ES. exists s1, c. repeat split; auto.
    + apply (path_in_tr _ _ k _ R1). unfold path_of. rewrite Heqo, Heqp. simpl. tauto.
    + apply (path_in_tr _ _ k _ R1). unfold path_of. rewrite Heqo, Heqp. simpl. tauto.
  - intros l Hin. apply in_split in Hin. destruct Hin as [a [b ->]].
    assert (R' : reach ((t1 ++ SrvExit k st :: a) ++ l :: b) s) by (now rewrite <- app_assoc).
    apply reach_app_inv in R'. destruct R' as [s1 [R1 [os R2]]]. cbn [run] in R2.
    destruct (step s1 l) as [[s2 o2]|] eqn:ES; [|discriminate].
    assert (X : In (SrvExit k st) (t1 ++ SrvExit k st :: a)) by (apply in_or_app; right; now left).
    pose proof (in_path _ _ k _ R1 X eq_refl) as P. unfold path_of in P.
    split; intros ->; inv_step ES; try rewrite Heqo in P.
    + unfold alive in Heqb0. destruct (c_phase c); try discriminate. simpl in P. intuition discriminate.
    + pose proof (busy_inv _ _ R1 _ _ Heqo) as B. unfold idle_ok in B.
      destruct (c_phase c); simpl in P; try (rewrite B in Heqn; discriminate); intuition discriminate.
Qed.

(* ------------------------------------------------------------------ *)
(* 4. trace-level accounts *)

(* the labels of one connection occur in the trace exactly as one of the ten life paths (in that order, each
   once): Accept, NewSvc, AssignerOk, StartSrv, SrvStop st, SrvExit st, Finish, ConnDone - or the failing
   branch Accept, NewSvc, AssignerFail, ConnDone *)
Lemma life_order : forall tr s, reach tr s ->
  (forall k, proj k tr = path_of s k) /\
  (forall l k, life l = Some k -> count_occ label_eq_dec tr l <= 1) /\
  (forall k, In (StartSrv k) tr -> In (Accept k) tr /\ In (NewSvc k) tr /\ In (AssignerOk k) tr /\ ~ In (AssignerFail k) tr) /\
  (forall k, In (NewSvc k) tr -> In (Accept k) tr).
Proof.
  intros tr s R. pose proof (reach_inv _ _ R) as I. split; [apply (inv_path _ _ I)|]. split.
  - intros l k L. exact (life_count_le1 _ _ _ _ R L).
  - split.
    + intros k H. pose proof (in_path _ _ k _ R H eq_refl) as P.
      assert (Q : forall l, life l = Some k -> In l (path_of s k) -> In l tr) by (intros l _ X; exact (path_in_tr _ _ k _ R X)).
      assert (Q2 : In (AssignerFail k) tr -> In (AssignerFail k) (path_of s k)) by (intros X; exact (in_path _ _ k _ R X eq_refl)).
      unfold path_of in *. destruct (get s k) as [c|]; [|destruct P].
      destruct (c_phase c); simpl in P; try (intuition discriminate);
        (split; [apply Q; simpl; auto|]); (split; [apply Q; simpl; auto|]); (split; [apply Q; simpl; auto|]);
        intros X; apply Q2 in X; simpl in X; intuition discriminate.
    + intros k H. pose proof (in_path _ _ k _ R H eq_refl) as P. apply (path_in_tr _ _ k _ R).
      unfold path_of in *. destruct (get s k) as [c|]; [|destruct P]. destruct (c_phase c); simpl in *; tauto.
Qed.

Lemma run_snoc_inv : forall tr l s0 s' os', run s0 (tr ++ [l]) = Some (s', os') ->
  exists s os o1, run s0 tr = Some (s, os) /\ step s l = Some (s', o1) /\ os' = os ++ o1.
Proof.
  intros tr l s0 s' os' H. rewrite run_app in H.
  destruct (run s0 tr) as [[s os]|]; [|discriminate]. simpl in H.
  destruct (step s l) as [[s1 o1]|] eqn:E; [|discriminate]. inversion H; subst.
  exists s, os, o1. rewrite app_nil_r. repeat split; auto.
Qed.

Definition newsvc_of (os : list obs) : list nat :=
  flat_map (fun o => match o with ONewSvc i => [i] | _ => [] end) os.
Definition is_newsvc (l : label) : bool := match l with NewSvc _ => true | _ => false end.
Definition finish_of (os : list obs) : list (nat * nat * status) :=
  flat_map (fun o => match o with OFinish i a st => [(i, a, st)] | _ => [] end) os.
Definition is_finish (l : label) : bool := match l with Finish _ => true | _ => false end.
Definition fl_conn (x : nat * nat * nat * status) : nat := fst (fst (fst x)).
Definition fl_args (x : nat * nat * nat * status) : nat * nat * status := (snd (fst (fst x)), snd (fst x), snd x).

Lemma step_accounts : forall s l s' o1, step s l = Some (s', o1) ->
  newsvc_of o1 = (if is_newsvc l then [next_svc s] else []) /\
  next_svc s' = (if is_newsvc l then S (next_svc s) else next_svc s) /\
  exists added, finish_log s' = finish_log s ++ added /\ finish_of o1 = map fl_args added /\
                map (fun x => Finish (fl_conn x)) added = (if is_finish l then [l] else []).
Proof.
  intros s l s' o1 H. split; [|split].
  - destruct l; inv_step H; reflexivity.
  - destruct l; inv_step H; simpl; try reflexivity; destruct (fix_F10 s); reflexivity.
  - destruct l; try (exists []; rewrite app_nil_r; inv_step H; simpl; try (destruct (fix_F10 s)); repeat split; reflexivity).
    inv_step H. eexists. split; [reflexivity|]. split; reflexivity.
Qed.

(* newService is called once per NewSvc step and returns instance 0, 1, 2, ... : the ONewSvc observations
   of a run are exactly these, in order, one per NewSvc label; the OFinish observations are exactly the
   entries of the finish log, one per Finish label, in order *)
Lemma run_accounts : forall tr s os, run (init true) tr = Some (s, os) ->
  newsvc_of os = seq 0 (next_svc s) /\ next_svc s = length (filter is_newsvc tr) /\
  finish_of os = map fl_args (finish_log s) /\
  map (fun x => Finish (fl_conn x)) (finish_log s) = filter is_finish tr.
Proof.
  induction tr as [|l tr IH] using rev_ind; intros s os H.
  - simpl in H. inversion H; subst. repeat split.
  - apply run_snoc_inv in H. destruct H as [s0 [os0 [o1 [H0 [H1 ->]]]]].
    destruct (IH _ _ H0) as [A [B [C D]]]. destruct (step_accounts _ _ _ _ H1) as [E [F [added [G [G2 G3]]]]].
    assert (X1 : newsvc_of (os0 ++ o1) = newsvc_of os0 ++ newsvc_of o1) by (unfold newsvc_of; apply flat_map_app).
    assert (X2 : finish_of (os0 ++ o1) = finish_of os0 ++ finish_of o1) by (unfold finish_of; apply flat_map_app).
    rewrite X1, X2, !filter_app, A, C, E, F, G, G2, !map_app, D, G3, app_length, <- B. cbn [filter].
    destruct (is_newsvc l); cbn [length app].
    + rewrite seq_S. cbn [Nat.add]. repeat split; try reflexivity. lia.
    + rewrite app_nil_r. repeat split; try reflexivity. lia.
Qed.

Lemma NoDup_map_inv' {A B} (f : A -> B) l : NoDup (map f l) -> NoDup l.
Proof.
  induction l as [|x l IH]; simpl; intros H; [constructor|]. inversion H as [|? ? N H']; subst.
  constructor; [|now apply IH]. intros X. apply N. now apply in_map.
Qed.

(* the finish log: at most one entry per connection; each entry of connection k carries k's own instance i,
   the assigner that instance returned (= i), and the status with which k's server exited; k's server was
   started and has exited before; its Assigner did not fail *)
Lemma finish_log_spec : forall tr s, reach tr s ->
  NoDup (map fl_conn (finish_log s)) /\
  (forall k, In k (map fl_conn (finish_log s)) <-> In (Finish k) tr) /\
  forall k i a st, In (k, i, a, st) (finish_log s) ->
    a = i /\ (exists c, get s k = Some c /\ c_svc c = Some i /\ c_asg c = Some i /\ c_used c = Some i) /\
    In (Finish k) tr /\ In (SrvExit k st) tr /\ In (SrvStop k st) tr /\ In (StartSrv k) tr /\ In (NewSvc k) tr /\
    ~ In (AssignerFail k) tr.
Proof.
  intros tr s R. pose proof (reach_inv _ _ R) as I. destruct R as [os Hr].
  destruct (run_accounts _ _ _ Hr) as [_ [_ [_ D]]].
  assert (R : reach tr s) by (exists os; exact Hr).
  assert (ND : NoDup (map (fun x => Finish (fl_conn x)) (finish_log s))).
  { rewrite D. apply (proj2 (NoDup_count_occ label_eq_dec _)). intros l.
    destruct (is_finish l) eqn:E.
    - rewrite count_filter by exact E. destruct l as [| | | | | | | | | | | | |kf| |]; try discriminate. exact (life_count_le1 tr s (Finish kf) kf R eq_refl).
    - assert (Z : ~ In l (filter is_finish tr)) by (intros X; apply filter_In in X; destruct X; congruence).
      apply (count_occ_not_In label_eq_dec) in Z. lia. }
  assert (MEM : forall k, In k (map fl_conn (finish_log s)) <-> In (Finish k) tr).
  { intros k. split.
    - intros X. apply in_map_iff in X. destruct X as [x [<- X]].
      assert (Y : In (Finish (fl_conn x)) (filter is_finish tr)) by (rewrite <- D; apply in_map_iff; eauto).
      apply filter_In in Y. tauto.
    - intros X. assert (Y : In (Finish k) (filter is_finish tr)) by (apply filter_In; split; [exact X|reflexivity]).
      rewrite <- D in Y. apply in_map_iff in Y. destruct Y as [x [Ex Y]]. inversion Ex; subst.
      apply in_map_iff. eauto. }
  split; [|split; [exact MEM|]].
  - rewrite <- (map_map fl_conn Finish) in ND. exact (NoDup_map_inv' _ _ ND).
  - intros k i a st Hin. destruct (inv_flog _ _ I _ _ _ _ Hin) as [c [G [S [A P]]]].
    pose proof (inv_data _ _ I _ _ G) as Dk. unfold data_ok in Dk.
    assert (PT : forall l, In l (path k (c_phase c)) -> In l tr).
    { intros l X. apply (path_in_tr _ _ k _ R). unfold path_of. now rewrite G. }
    assert (NF : ~ In (AssignerFail k) tr).
    { intros X. pose proof (in_path _ _ k _ R X eq_refl) as Y. unfold path_of in Y. rewrite G in Y.
      destruct P as [P|P]; rewrite P in Y; simpl in Y; intuition discriminate. }
    destruct P as [P|P]; rewrite P in Dk, PT; destruct Dk as [i0 [S0 [_ [A0 U0]]]];
      rewrite S in S0; inversion S0; subst i0; rewrite A in A0; inversion A0; subst a;
      (split; [reflexivity|]); (split; [exists c; auto|]); repeat split; try (apply PT; simpl; tauto); exact NF.
Qed.
