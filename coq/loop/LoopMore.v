(* LoopMore: more theorems about the Loop model (coq/loop/Loop.v): the history of the accept loop, the
   general quiescent form (an accepter failure without context end), trace-level accounts of newService and
   Finish, a minimal model of NetAccepter composed with Loop, and termination of the internal steps.
   Restated in coq/props/C20.v. *)
From Coq Require Import List Arith Bool Lia.
From JV Require Import Loop LoopProofs NetAccepter.
Import ListNotations.

(* ------------------------------------------------------------------ *)
(* 1. the accept loop fails once; Loop returns the value of that failure *)

Definition acc_hist (tr : list label) (s : state) : Prop :=
  match acc s with
  | Accepting => (forall e, ~ In (AcceptErr e) tr) /\ (forall v, ~ In (LoopReturn v) tr)
  | Waiting e => In (AcceptErr e) tr /\ (forall e', In (AcceptErr e') tr -> e' = e) /\ (forall v, ~ In (LoopReturn v) tr)
  | Returned v => exists e, v = retv_of e /\ In (AcceptErr e) tr /\ (forall e', In (AcceptErr e') tr -> e' = e) /\
                            In (LoopReturn v) tr
  end.

Lemma step_acc_same : forall s l s' os, step s l = Some (s', os) ->
  (forall e, l <> AcceptErr e) -> (forall v, l <> LoopReturn v) -> acc s' = acc s.
Proof.
  intros s l s' os H N1 N2. destruct l; inv_step H; simpl; try reflexivity; try congruence.
  - exfalso. eapply N1; reflexivity.
  - exfalso. eapply N2; reflexivity.
Qed.

Lemma in_snoc_other : forall (tr : list label) l x, x <> l -> (In x (tr ++ [l]) <-> In x tr).
Proof.
  intros tr l x N. rewrite in_app_iff. simpl. split; [intros [H|[H|[]]]; [exact H|congruence]|auto].
Qed.

Lemma acc_hist_reach : forall tr s, reach tr s -> acc_hist tr s.
Proof.
  apply reach_ind.
  - unfold acc_hist. simpl. split; intros ? [].
  - intros tr s l s' os R IH H.
    destruct (label_eq_dec l (AcceptErr EClosing)) as [->|N1];
      [|destruct (label_eq_dec l (AcceptErr EOther)) as [->|N2];
        [|destruct (label_eq_dec l (LoopReturn RNil)) as [->|N3];
          [|destruct (label_eq_dec l (LoopReturn RErr)) as [->|N4]]]].
    1,2: inv_step H; unfold acc_hist in *; simpl; rewrite Heqa in IH; destruct IH as [IH1 IH2];
         (split; [apply in_or_app; right; now left|]); split;
         [intros e' Hin; apply in_app_or in Hin; destruct Hin as [Hin|[Hin|[]]]; [destruct (IH1 _ Hin)|now inversion Hin]
         |intros v Hin; apply in_app_or in Hin; destruct Hin as [Hin|[Hin|[]]]; [destruct (IH2 _ Hin)|discriminate]].
    1,2: inv_step H; unfold acc_hist in *; simpl; rewrite Heqa in IH; destruct IH as [IH1 [IH2 IH3]];
         exists e; (split; [destruct e; simpl in *; try discriminate; reflexivity|]);
         (split; [apply in_or_app; now left|]); split;
         [intros e' Hin; apply in_app_or in Hin; destruct Hin as [Hin|[Hin|[]]]; [now apply IH2|discriminate]
         |apply in_or_app; right; now left].
    assert (NA : forall e, l <> AcceptErr e) by (intros [|]; assumption).
    assert (NR : forall v, l <> LoopReturn v) by (intros [|]; assumption).
    pose proof (step_acc_same _ _ _ _ H NA NR) as E. unfold acc_hist in *. rewrite E.
    destruct (acc s) as [|e|v].
    + destruct IH as [A B]. split.
      * intros e Hin. apply in_snoc_other in Hin; [exact (A _ Hin)|]. intros X. symmetry in X. exact (NA _ X).
      * intros v Hin. apply in_snoc_other in Hin; [exact (B _ Hin)|]. intros X. symmetry in X. exact (NR _ X).
    + destruct IH as [A [B C]]. split; [apply in_or_app; now left|]. split.
      * intros e' Hin. apply in_snoc_other in Hin; [now apply B|]. intros X. symmetry in X. exact (NA _ X).
      * intros v Hin. apply in_snoc_other in Hin; [exact (C _ Hin)|]. intros X. symmetry in X. exact (NR _ X).
    + destruct IH as [e [A [B [C D]]]]. exists e. split; [exact A|]. split; [apply in_or_app; now left|]. split.
      * intros e' Hin. apply in_snoc_other in Hin; [now apply C|]. intros X. symmetry in X. exact (NA _ X).
      * apply in_or_app; now left.
Qed.

(* ------------------------------------------------------------------ *)
(* 2. the general quiescent form *)

Lemma live_pos_exists : forall cs, live cs <> 0 ->
  exists k c, nth_error cs k = Some c /\ is_done (c_phase c) = false.
Proof.
  induction cs as [|x cs IH]; intros H; [exfalso; apply H; reflexivity|].
  destruct (is_done (c_phase x)) eqn:E.
  - destruct IH as [k [c [A B]]].
    + intros Z. apply H. unfold live in *. simpl. rewrite E. simpl. exact Z.
    + exists (S k), c. split; assumption.
  - exists 0, x. split; [reflexivity|exact E].
Qed.

Lemma quiescent_acc : forall s, quiescent s = true ->
  match acc s with
  | Accepting => ctx_done s = false
  | Waiting _ => wg s <> 0
  | Returned _ => True
  end.
Proof.
  intros s Q. unfold quiescent, enabled_internal, enabled in Q.
  destruct (acc s); [destruct (ctx_done s); [discriminate|reflexivity]| |exact I].
  destruct (wg s); [discriminate|]. discriminate.
Qed.

Lemma quiescent_general : forall tr s, reach tr s -> quiescent s = true ->
  (forall k c, get s k = Some c ->
     is_done (c_phase c) = true \/
     (c_phase c = PRunning /\ forall st, trigger (ctx_done s) c st = false) \/
     (exists st, c_phase c = PStopping st /\ c_busy c > 0)) /\
  (acc s = Accepting -> ctx_done s = false) /\
  (forall e, acc s = Waiting e -> exists k c, get s k = Some c /\ is_done (c_phase c) = false) /\
  ((forall k c, get s k = Some c -> c_phase c <> PRunning /\ forall st, c_phase c <> PStopping st) ->
   forall e, In (AcceptErr e) tr ->
     acc s = Returned (retv_of e) /\ In (LoopReturn (retv_of e)) tr /\ (retv_of e = RNil <-> e = EClosing)).
Proof.
  intros tr s R Q. pose proof (reach_inv _ _ R) as I. pose proof (quiescent_acc _ Q) as QA.
  assert (QC : forall k c, get s k = Some c ->
     is_done (c_phase c) = true \/
     (c_phase c = PRunning /\ forall st, trigger (ctx_done s) c st = false) \/
     (exists st, c_phase c = PStopping st /\ c_busy c > 0)).
  { intros k c G. pose proof (quiescent_conn _ _ _ Q G) as E. unfold conn_enabled in E.
    destruct (c_phase c) eqn:P; try discriminate; auto.
    - right; left. split; [reflexivity|]. intros st. cbn [filter] in E.
      destruct (trigger (ctx_done s) c StStopped) eqn:T1; [discriminate|].
      destruct (trigger (ctx_done s) c StClosed) eqn:T2; [discriminate|].
      destruct (trigger (ctx_done s) c StFailed) eqn:T3; [discriminate|].
      destruct st; assumption.
    - right; right. exists st. split; [reflexivity|]. destruct (c_busy c); [discriminate|lia]. }
  split; [exact QC|]. split; [intros A; now rewrite A in QA|]. split.
  - intros e A. rewrite A in QA. rewrite (inv_wg _ _ I) in QA. exact (live_pos_exists _ QA).
  - intros NS e Hin. pose proof (acc_hist_reach _ _ R) as AH. unfold acc_hist in AH.
    assert (AD : forall k c, get s k = Some c -> is_done (c_phase c) = true).
    { intros k c G. destruct (QC k c G) as [D|[[P _]|[st [P _]]]]; [exact D| |]; destruct (NS k c G) as [N1 N2]; [congruence|].
      exfalso. exact (N2 st P). }
    destruct (acc s) as [|e0|v] eqn:A.
    + destruct AH as [AH _]. destruct (AH _ Hin).
    + exfalso. rewrite (inv_wg _ _ I) in QA. destruct (live_pos_exists _ QA) as [k [c [G D]]].
      fold (get s k) in G. rewrite (AD k c G) in D. discriminate.
    + destruct AH as [e1 [V [_ [U L]]]]. rewrite (U _ Hin). subst v. split; [reflexivity|]. split; [exact L|].
      destruct e1; simpl; split; intros; try discriminate; reflexivity.
Qed.

(* ------------------------------------------------------------------ *)
(* 3. "fully exited": handlers run only on a started, not yet exited server *)

Definition idle_ok (c : conn) : Prop :=
  match c_phase c with PRunning | PStopping _ => True | _ => c_busy c = 0 end.

Lemma busy_inv : forall tr s, reach tr s -> forall k c, get s k = Some c -> idle_ok c.
Proof.
  apply (reach_ind (fun _ s => forall k c, get s k = Some c -> idle_ok c)).
  - intros k c H. unfold get in H. simpl in H. destruct k; discriminate.
  - intros tr s l s' os R IH H j cj Hj.
    destruct l; inv_step H; gs;
      try (now apply IH with (k := j));
      try (match goal with E : get s ?k = Some ?c |- _ =>
             split_get j k Hj;
             [ rewrite E in Hj; simpl in Hj; inversion Hj; subst; clear Hj;
               specialize (IH _ _ E); unfold idle_ok in *; simpl; rw_phase; simpl in *; auto
             | now apply IH with (k := j) ]
           end).
    + split_new s j Hj; [now apply IH with (k := j)|reflexivity].
    + unfold alive in Heqb. destruct (c_phase c); try discriminate. exact I.
    + destruct (c_phase c); auto; congruence.
Qed.

Lemma exit_means_idle : forall tr s k st t1 t2, reach tr s -> tr = t1 ++ SrvExit k st :: t2 ->
  (exists s1 c, reach t1 s1 /\ get s1 k = Some c /\ c_phase c = PStopping st /\ c_busy c = 0 /\
                In (SrvStop k st) t1 /\ In (StartSrv k) t1) /\
  (forall l, In l t2 -> l <> CallStart k /\ l <> CallEnd k).
Proof.
  intros tr s k st t1 t2 R E. subst tr. split.
  - apply reach_app_inv in R. destruct R as [s1 [R1 [os R2]]]. cbn [run] in R2.
    destruct (step s1 (SrvExit k st)) as [[s2 o2]|] eqn:ES; [|discriminate].
    inv_step ES. exists s1, c. repeat split; auto.
    + apply (path_in_tr _ _ k _ R1). unfold path_of. rewrite Heqo, Heqp. simpl. tauto.
    + apply (path_in_tr _ _ k _ R1). unfold path_of. rewrite Heqo, Heqp. simpl. tauto.
  - intros l Hin. apply in_split in Hin. destruct Hin as [a [b ->]].
    assert (R' : reach ((t1 ++ SrvExit k st :: a) ++ l :: b) s) by (now rewrite <- app_assoc).
    apply reach_app_inv in R'. destruct R' as [s1 [R1 [os R2]]]. cbn [run] in R2.
    destruct (step s1 l) as [[s2 o2]|] eqn:ES; [|discriminate].
    assert (X : In (SrvExit k st) (t1 ++ SrvExit k st :: a)) by (apply in_or_app; right; now left).
    pose proof (in_path _ _ k _ R1 X eq_refl) as P. unfold path_of in P.
    split; intros ->; inv_step ES; try rewrite Heqo in P.
    + unfold alive in Heqb0. destruct (c_phase c); try discriminate. simpl in P. intuition discriminate.
    + pose proof (busy_inv _ _ R1 _ _ Heqo) as B. unfold idle_ok in B.
      destruct (c_phase c); simpl in P; try (rewrite B in Heqn; discriminate); intuition discriminate.
Qed.

(* ------------------------------------------------------------------ *)
(* 4. trace-level accounts *)

(* the labels of one connection occur in the trace exactly as one of the ten life paths (in that order, each
   once): Accept, NewSvc, AssignerOk, StartSrv, SrvStop st, SrvExit st, Finish, ConnDone - or the failing
   branch Accept, NewSvc, AssignerFail, ConnDone *)
Lemma life_order : forall tr s, reach tr s ->
  (forall k, proj k tr = path_of s k) /\
  (forall l k, life l = Some k -> count_occ label_eq_dec tr l <= 1) /\
  (forall k, In (StartSrv k) tr -> In (Accept k) tr /\ In (NewSvc k) tr /\ In (AssignerOk k) tr /\ ~ In (AssignerFail k) tr) /\
  (forall k, In (NewSvc k) tr -> In (Accept k) tr).
Proof.
  intros tr s R. pose proof (reach_inv _ _ R) as I. split; [apply (inv_path _ _ I)|]. split.
  - intros l k L. exact (life_count_le1 _ _ _ _ R L).
  - split.
    + intros k H. pose proof (in_path _ _ k _ R H eq_refl) as P.
      assert (Q : forall l, life l = Some k -> In l (path_of s k) -> In l tr) by (intros l _ X; exact (path_in_tr _ _ k _ R X)).
      assert (Q2 : In (AssignerFail k) tr -> In (AssignerFail k) (path_of s k)) by (intros X; exact (in_path _ _ k _ R X eq_refl)).
      unfold path_of in *. destruct (get s k) as [c|]; [|destruct P].
      destruct (c_phase c); simpl in P; try (intuition discriminate);
        (split; [apply Q; simpl; auto|]); (split; [apply Q; simpl; auto|]); (split; [apply Q; simpl; auto|]);
        intros X; apply Q2 in X; simpl in X; intuition discriminate.
    + intros k H. pose proof (in_path _ _ k _ R H eq_refl) as P. apply (path_in_tr _ _ k _ R).
      unfold path_of in *. destruct (get s k) as [c|]; [|destruct P]. destruct (c_phase c); simpl in *; tauto.
Qed.

Lemma run_snoc_inv : forall tr l s0 s' os', run s0 (tr ++ [l]) = Some (s', os') ->
  exists s os o1, run s0 tr = Some (s, os) /\ step s l = Some (s', o1) /\ os' = os ++ o1.
Proof.
  intros tr l s0 s' os' H. rewrite run_app in H.
  destruct (run s0 tr) as [[s os]|]; [|discriminate]. simpl in H.
  destruct (step s l) as [[s1 o1]|] eqn:E; [|discriminate]. inversion H; subst.
  exists s, os, o1. rewrite app_nil_r. repeat split; auto.
Qed.

Definition newsvc_of (os : list obs) : list nat :=
  flat_map (fun o => match o with ONewSvc i => [i] | _ => [] end) os.
Definition is_newsvc (l : label) : bool := match l with NewSvc _ => true | _ => false end.
Definition finish_of (os : list obs) : list (nat * nat * status) :=
  flat_map (fun o => match o with OFinish i a st => [(i, a, st)] | _ => [] end) os.
Definition is_finish (l : label) : bool := match l with Finish _ => true | _ => false end.
Definition fl_conn (x : nat * nat * nat * status) : nat := fst (fst (fst x)).
Definition fl_args (x : nat * nat * nat * status) : nat * nat * status := (snd (fst (fst x)), snd (fst x), snd x).

Lemma step_accounts : forall s l s' o1, step s l = Some (s', o1) ->
  newsvc_of o1 = (if is_newsvc l then [next_svc s] else []) /\
  next_svc s' = (if is_newsvc l then S (next_svc s) else next_svc s) /\
  exists added, finish_log s' = finish_log s ++ added /\ finish_of o1 = map fl_args added /\
                map (fun x => Finish (fl_conn x)) added = (if is_finish l then [l] else []).
Proof.
  intros s l s' o1 H. split; [|split].
  - destruct l; inv_step H; reflexivity.
  - destruct l; inv_step H; simpl; try reflexivity; destruct (fix_F10 s); reflexivity.
  - destruct l; try (exists []; rewrite app_nil_r; inv_step H; simpl; try (destruct (fix_F10 s)); repeat split; reflexivity).
    inv_step H. eexists. split; [reflexivity|]. split; reflexivity.
Qed.

(* newService is called once per NewSvc step and returns instance 0, 1, 2, ... : the ONewSvc observations
   of a run are exactly these, in order, one per NewSvc label; the OFinish observations are exactly the
   entries of the finish log, one per Finish label, in order *)
Lemma run_accounts : forall tr s os, run (init true) tr = Some (s, os) ->
  newsvc_of os = seq 0 (next_svc s) /\ next_svc s = length (filter is_newsvc tr) /\
  finish_of os = map fl_args (finish_log s) /\
  map (fun x => Finish (fl_conn x)) (finish_log s) = filter is_finish tr.
Proof.
  induction tr as [|l tr IH] using rev_ind; intros s os H.
  - simpl in H. inversion H; subst. repeat split.
  - apply run_snoc_inv in H. destruct H as [s0 [os0 [o1 [H0 [H1 ->]]]]].
    destruct (IH _ _ H0) as [A [B [C D]]]. destruct (step_accounts _ _ _ _ H1) as [E [F [added [G [G2 G3]]]]].
    assert (X1 : newsvc_of (os0 ++ o1) = newsvc_of os0 ++ newsvc_of o1) by (unfold newsvc_of; apply flat_map_app).
    assert (X2 : finish_of (os0 ++ o1) = finish_of os0 ++ finish_of o1) by (unfold finish_of; apply flat_map_app).
    rewrite X1, X2, !filter_app, A, C, E, F, G, G2, !map_app, D, G3, app_length, <- B. cbn [filter].
    destruct (is_newsvc l); cbn [length app].
    + rewrite seq_S. cbn [Nat.add]. repeat split; try reflexivity. lia.
    + rewrite app_nil_r. repeat split; try reflexivity. lia.
Qed.

Lemma NoDup_map_inv' {A B} (f : A -> B) l : NoDup (map f l) -> NoDup l.
Proof.
  induction l as [|x l IH]; simpl; intros H; [constructor|]. inversion H as [|? ? N H']; subst.
  constructor; [|now apply IH]. intros X. apply N. now apply in_map.
Qed.

(* the finish log: at most one entry per connection; each entry of connection k carries k's own instance i,
   the assigner that instance returned (= i), and the status with which k's server exited; k's server was
   started and has exited before; its Assigner did not fail *)
Lemma finish_log_spec : forall tr s, reach tr s ->
  NoDup (map fl_conn (finish_log s)) /\
  (forall k, In k (map fl_conn (finish_log s)) <-> In (Finish k) tr) /\
  forall k i a st, In (k, i, a, st) (finish_log s) ->
    a = i /\ (exists c, get s k = Some c /\ c_svc c = Some i /\ c_asg c = Some i /\ c_used c = Some i) /\
    In (Finish k) tr /\ In (SrvExit k st) tr /\ In (SrvStop k st) tr /\ In (StartSrv k) tr /\ In (NewSvc k) tr /\
    ~ In (AssignerFail k) tr.
Proof.
  intros tr s R. pose proof (reach_inv _ _ R) as I. destruct R as [os Hr].
  destruct (run_accounts _ _ _ Hr) as [_ [_ [_ D]]].
  assert (R : reach tr s) by (exists os; exact Hr).
  assert (ND : NoDup (map (fun x => Finish (fl_conn x)) (finish_log s))).
  { rewrite D. apply (proj2 (NoDup_count_occ label_eq_dec _)). intros l.
    destruct (is_finish l) eqn:E.
    - rewrite count_filter by exact E. destruct l as [| | | | | | | | | | | | |kf| |]; try discriminate. exact (life_count_le1 tr s (Finish kf) kf R eq_refl).
    - assert (Z : ~ In l (filter is_finish tr)) by (intros X; apply filter_In in X; destruct X; congruence).
      apply (count_occ_not_In label_eq_dec) in Z. lia. }
  assert (MEM : forall k, In k (map fl_conn (finish_log s)) <-> In (Finish k) tr).
  { intros k. split.
    - intros X. apply in_map_iff in X. destruct X as [x [<- X]].
      assert (Y : In (Finish (fl_conn x)) (filter is_finish tr)) by (rewrite <- D; apply in_map_iff; eauto).
      apply filter_In in Y. tauto.
    - intros X. assert (Y : In (Finish k) (filter is_finish tr)) by (apply filter_In; split; [exact X|reflexivity]).
      rewrite <- D in Y. apply in_map_iff in Y. destruct Y as [x [Ex Y]]. inversion Ex; subst.
      apply in_map_iff. eauto. }
  split; [|split; [exact MEM|]].
  - rewrite <- (map_map fl_conn Finish) in ND. exact (NoDup_map_inv' _ _ ND).
  - intros k i a st Hin. destruct (inv_flog _ _ I _ _ _ _ Hin) as [c [G [S [A P]]]].
    pose proof (inv_data _ _ I _ _ G) as Dk. unfold data_ok in Dk.
    assert (PT : forall l, In l (path k (c_phase c)) -> In l tr).
    { intros l X. apply (path_in_tr _ _ k _ R). unfold path_of. now rewrite G. }
    assert (NF : ~ In (AssignerFail k) tr).
    { intros X. pose proof (in_path _ _ k _ R X eq_refl) as Y. unfold path_of in Y. rewrite G in Y.
      destruct P as [P|P]; rewrite P in Y; simpl in Y; intuition discriminate. }
    destruct P as [P|P]; rewrite P in Dk, PT; destruct Dk as [i0 [S0 [_ [A0 U0]]]];
      rewrite S in S0; inversion S0; subst i0; rewrite A in A0; inversion A0; subst a;
      (split; [reflexivity|]); (split; [exists c; auto|]); repeat split; try (apply PT; simpl; tauto); exact NF.
Qed.

(* ------------------------------------------------------------------ *)
(* 5. Loop over NetAccepter *)

(* the Loop label a step of the composed system stands for *)
Definition loop_label (x : state * na_state) (l : jlabel) : list label :=
  match l with
  | JLoop l0 => [l0]
  | JCtxEnd => [CtxEnd]
  | JNA NARet => match na_call (snd x) with
                 | CGotConn => [Accept (length (conns (fst x)))]
                 | CGotErr e => [AcceptErr e]
                 | _ => []
                 end
  | JNA _ => []
  end.

(* the Loop trace of a run of the composed system *)
Fixpoint jproj (x : state * na_state) (tr : list jlabel) : list label :=
  match tr with
  | [] => []
  | l :: r => match jstep x l with
              | None => []
              | Some (s1, a1, _) => loop_label x l ++ jproj (s1, a1) r
              end
  end.

Definition jreach (tr : list jlabel) (s : state) (a : na_state) : Prop :=
  exists os, jrun jinit tr = Some ((s, a), os).

Lemma step_ctxend : forall s s' os, step s CtxEnd = Some (s', os) -> ctx_done s = false /\ s' = set_ctx true s /\ os = [].
Proof. intros s s' os H. inv_step H. auto. Qed.

Lemma step_ctx_same : forall s l s' os, step s l = Some (s', os) -> l <> CtxEnd -> ctx_done s' = ctx_done s.
Proof. intros s l s' os H N. destruct l; inv_step H; simpl; try reflexivity; try congruence; destruct (fix_F10 s); reflexivity. Qed.

Lemma step_return_waiting : forall s v s' os, step s (LoopReturn v) = Some (s', os) -> acc s <> Accepting.
Proof. intros s v s' os H. inv_step H; try congruence. Qed.

Local Opaque step.

Lemma jstep_loop : forall s a l s' a' os, jstep (s, a) l = Some (s', a', os) ->
  run s (loop_label (s, a) l) = Some (s', os).
Proof.
  intros s a l s' a' os H. unfold jstep in H. destruct l as [l0|l0|].
  - destruct (loop_only l0); [|discriminate]. destruct (step s l0) as [[s1 o1]|] eqn:E; [|discriminate].
    inversion H; subst. simpl. rewrite E. now rewrite app_nil_r.
  - destruct l0; simpl in *; try discriminate.
    + destruct (acc s); try discriminate. destruct (na_call a); try discriminate. now inversion H.
    + destruct (nth_error (na_ws a) j) as [[| |]|]; try discriminate; destruct (na_ctx a); try discriminate; now inversion H.
    + destruct (nth_error (na_ws a) j) as [[| |]|]; try discriminate; now inversion H.
    + destruct (na_call a); try discriminate. destruct (na_lclosed a); try discriminate. now inversion H.
    + destruct (na_call a); try discriminate. destruct e; [destruct (na_lclosed a); try discriminate|]; now inversion H.
    + destruct (na_call a); try discriminate.
      * destruct (step s (Accept (length (conns s)))) as [[s1 o1]|] eqn:E; [|discriminate]. inversion H; subst.
        cbn [run]. rewrite E. now rewrite app_nil_r.
      * destruct (step s (AcceptErr e)) as [[s1 o1]|] eqn:E; [|discriminate]. inversion H; subst.
        cbn [run]. rewrite E. now rewrite app_nil_r.
  - destruct (step s CtxEnd) as [[s1 o1]|] eqn:E; [|discriminate].
    destruct (na_step a NACtxEnd) as [[a1 r1]|]; [|discriminate]. inversion H; subst. simpl loop_label.
    cbn [run]. rewrite E. now rewrite app_nil_r.
Qed.

Lemma jrun_proj : forall tr s a s' a' os, jrun (s, a) tr = Some ((s', a'), os) ->
  run s (jproj (s, a) tr) = Some (s', os).
Proof.
  induction tr as [|l tr IH]; intros s a s' a' os H.
  - simpl in H. inversion H; subst. reflexivity.
  - cbn [jrun] in H. cbn [jproj]. destruct (jstep (s, a) l) as [[[s1 a1] o1]|] eqn:E; [|discriminate].
    destruct (jrun (s1, a1) tr) as [[x2 o2]|] eqn:E2; [|discriminate]. inversion H; subst.
    rewrite run_app, (jstep_loop _ _ _ _ _ _ E), (IH _ _ _ _ _ E2). reflexivity.
Qed.

Lemma jreach_reach : forall tr s a, jreach tr s a -> reach (jproj jinit tr) s.
Proof. intros tr s a [os H]. exists os. exact (jrun_proj _ _ _ _ _ _ H). Qed.

Lemma jrun_app : forall t1 t2 x,
  jrun x (t1 ++ t2) = match jrun x t1 with
                      | None => None
                      | Some (x1, o1) => match jrun x1 t2 with
                                         | None => None
                                         | Some (x2, o2) => Some (x2, o1 ++ o2)
                                         end
                      end.
Proof.
  induction t1 as [|l t1 IH]; intros t2 x; simpl.
  - destruct (jrun x t2) as [[x2 o2]|]; reflexivity.
  - destruct (jstep x l) as [[[s1 a1] o1]|]; [|reflexivity].
    rewrite IH. destruct (jrun (s1, a1) t1) as [[x2 o2]|]; [|reflexivity].
    destruct (jrun x2 t2) as [[x3 o3]|]; [|reflexivity]. now rewrite app_assoc.
Qed.

Lemma jproj_app : forall t1 t2 x x1 o1, jrun x t1 = Some (x1, o1) ->
  jproj x (t1 ++ t2) = jproj x t1 ++ jproj x1 t2.
Proof.
  induction t1 as [|l t1 IH]; intros t2 x x1 o1 H.
  - simpl in H. inversion H; subst. reflexivity.
  - cbn [jrun] in H. cbn [app jproj]. destruct (jstep x l) as [[[s1 a1] o]|]; [|discriminate].
    destruct (jrun (s1, a1) t1) as [[x2 o2]|] eqn:E2; [|discriminate]. inversion H; subst.
    rewrite (IH t2 _ _ _ E2). now rewrite app_assoc.
Qed.

Lemma jreach_ind : forall P : list jlabel -> state -> na_state -> Prop,
  P [] (init true) na_init ->
  (forall tr s a l s' a' os, jreach tr s a -> P tr s a -> jstep (s, a) l = Some (s', a', os) ->
     jproj jinit (tr ++ [l]) = jproj jinit tr ++ loop_label (s, a) l -> P (tr ++ [l]) s' a') ->
  forall tr s a, jreach tr s a -> P tr s a.
Proof.
  intros P H0 HS tr. induction tr as [|l tr IH] using rev_ind; intros s a [os H].
  - simpl in H. inversion H; subst. exact H0.
  - rewrite jrun_app in H. destruct (jrun jinit tr) as [[[s1 a1] o1]|] eqn:E1; [|discriminate].
    cbn [jrun] in H. destruct (jstep (s1, a1) l) as [[[s2 a2] o2]|] eqn:E2; [|discriminate]. inversion H; subst.
    apply (HS tr s1 a1 l s a o2); [exists o1; exact E1|apply IH; exists o1; exact E1|exact E2|].
    rewrite (jproj_app _ _ _ _ _ E1). cbn [jproj]. rewrite E2. now rewrite app_nil_r.
Qed.

Record JInv (tr : list jlabel) (s : state) (a : na_state) : Prop := {
  j_ctx : ctx_done s = na_ctx a;
  j_lclosed : na_lclosed a = true -> na_ctx a = true;
  j_blocked : na_call a = CBlocked -> na_lclosed a = true \/ exists j, nth_error (na_ws a) j = Some WOpen;
  j_ctx_tr : na_ctx a = true -> In JCtxEnd tr;
  j_goterr : forall e, na_call a = CGotErr e -> In (JNA (NAErr e)) tr;
  j_closing : In (JNA (NAErr EClosing)) tr -> In JCtxEnd tr;
  j_accerr : forall e, In (AcceptErr e) (jproj jinit tr) -> In (JNA (NAErr e)) tr;
  j_busy : na_call a <> CIdle -> acc s = Accepting
}.

Lemma nth_upd_const_open : forall (ws : list wst) j j' w, w <> WOpen ->
  nth_error ws j = Some WOpen -> nth_error ws j' <> Some WOpen \/ j' <> j ->
  j' <> j -> nth_error (upd_nth j' (fun _ => w) ws) j = Some WOpen.
Proof. intros ws j j' w _ H _ N. rewrite nth_upd_other by congruence. exact H. Qed.

Lemma in_snoc_l : forall {A} (x : A) tr l, In x tr -> In x (tr ++ [l]).
Proof. intros. apply in_or_app. now left. Qed.

Ltac jclose I6 :=
  let X := fresh "X" in
  intros X; apply in_snoc_l; apply I6; apply in_app_or in X; destruct X as [X|[X|[]]]; [exact X|discriminate].
Ltac jacc ACC I7 :=
  let e := fresh "e" in let X := fresh "X" in let Y := fresh "Y" in
  intros e X; apply in_snoc_l; destruct (ACC e X) as [Y|Y]; [now apply I7|destruct Y].
Ltac jauto ACC I6 I7 :=
  constructor; simpl; auto using in_snoc_l; try discriminate; try congruence;
  try solve [jclose I6]; try solve [jacc ACC I7].

Lemma jinv_reach : forall tr s a, jreach tr s a -> JInv tr s a.
Proof.
  apply jreach_ind.
  - constructor; simpl; try discriminate; try tauto; try (intros; discriminate).
  - intros tr s a l s' a' os R I H HP.
    destruct I as [I1 I2 I3 I4 I5 I6 I7 I8].
    assert (ACC : forall e, In (AcceptErr e) (jproj jinit (tr ++ [l])) ->
                  In (AcceptErr e) (jproj jinit tr) \/ In (AcceptErr e) (loop_label (s, a) l)).
    { intros e X. rewrite HP in X. now apply in_app_or in X. }
    unfold jstep in H. destruct l as [l0|l0|].
    + (* a step of Loop alone *)
      destruct (loop_only l0) eqn:LO; [|discriminate]. destruct (step s l0) as [[s1 o1]|] eqn:E; [|discriminate].
      inversion H; subst. clear H.
      assert (NC : l0 <> CtxEnd) by (intros ->; discriminate).
      assert (NA1 : forall e, l0 <> AcceptErr e) by (intros e ->; discriminate).
      jauto ACC I6 I7.
      * rewrite (step_ctx_same _ _ _ _ E NC). exact I1.
      * intros e X. apply in_snoc_l. destruct (ACC e X) as [Y|Y]; [now apply I7|]. simpl in Y. destruct Y as [Y|[]]. exfalso. exact (NA1 e Y).
      * intros X. specialize (I8 X).
        assert (NR : forall v, l0 <> LoopReturn v).
        { intros v ->. exact (step_return_waiting _ _ _ _ E I8). }
        rewrite (step_acc_same _ _ _ _ E NA1 NR). exact I8.
    + (* a step of NetAccepter *)
      destruct l0; simpl in H; try discriminate.
      * (* NACall *)
        destruct (acc s) eqn:A; try discriminate. destruct (na_call a) eqn:C; try discriminate. inversion H; subst. clear H.
        jauto ACC I6 I7.
        intros _. right. exists (length (na_ws a)). rewrite nth_error_app2 by lia. now rewrite Nat.sub_diag.
      * (* NAWatchClose *)
        destruct (nth_error (na_ws a) j) as [[| |]|] eqn:W; try discriminate;
          destruct (na_ctx a) eqn:CX; try discriminate; inversion H; subst; clear H; jauto ACC I6 I7.
      * (* NAWatchExit *)
        destruct (nth_error (na_ws a) j) as [[| |]|] eqn:W; try discriminate. inversion H; subst. clear H.
        jauto ACC I6 I7.
        intros X. destruct (I3 X) as [Y|[j' Y]]; [now left|]. right. exists j'.
        destruct (Nat.eq_dec j' j) as [->|N]; [congruence|]. now rewrite nth_upd_other.
      * (* NAConn *)
        destruct (na_call a) eqn:C; try discriminate. destruct (na_lclosed a) eqn:LC; try discriminate. inversion H; subst. clear H.
        jauto ACC I6 I7.
        intros _. apply I8. congruence.
      * (* NAErr *)
        destruct (na_call a) eqn:C; try discriminate.
        assert (G : (e = EClosing -> na_lclosed a = true) /\ s' = s /\
                    a' = mkNA (na_ctx a) (na_lclosed a) (CGotErr e) (na_ws a) /\ os = []).
        { destruct e; [destruct (na_lclosed a); try discriminate|]; inversion H; subst; repeat split; auto; discriminate. }
        destruct G as [G1 [-> [-> ->]]]. clear H.
        jauto ACC I6 I7.
        -- intros e' X. inversion X; subst. apply in_or_app. right. now left.
        -- intros X. apply in_snoc_l. apply in_app_or in X. destruct X as [X|[X|[]]]; [now apply I6|].
           inversion X; subst. apply I4, I2, G1. reflexivity.
        -- intros _. apply I8. congruence.
      * (* NARet *)
        destruct (na_call a) eqn:C; try discriminate.
        -- destruct (step s (Accept (length (conns s)))) as [[s1 o1]|] eqn:E; [|discriminate]. inversion H; subst. clear H.
           jauto ACC I6 I7.
           ++ rewrite (step_ctx_same _ _ _ _ E); [exact I1|discriminate].
           ++ intros e X. apply in_snoc_l. destruct (ACC e X) as [Y|Y]; [now apply I7|].
              simpl in Y. rewrite C in Y. destruct Y as [Y|[]]. discriminate.
        -- destruct (step s (AcceptErr e)) as [[s1 o1]|] eqn:E; [|discriminate]. inversion H; subst. clear H.
           jauto ACC I6 I7.
           ++ rewrite (step_ctx_same _ _ _ _ E); [exact I1|discriminate].
           ++ intros e' X. apply in_snoc_l. destruct (ACC e' X) as [Y|Y]; [now apply I7|].
              simpl in Y. rewrite C in Y. destruct Y as [Y|[]]. inversion Y; subst. now apply I5.
    + (* the context ends *)
      destruct (step s CtxEnd) as [[s1 o1]|] eqn:E; [|discriminate].
      simpl in H. destruct (na_ctx a) eqn:CX; [discriminate|]. inversion H; subst. clear H.
      destruct (step_ctxend _ _ _ E) as [E1 [-> ->]].
      constructor; simpl; auto using in_snoc_l; try (intros; apply in_or_app; right; now left);
        try solve [intros X; specialize (I2 X); discriminate].
      intros e X. apply in_snoc_l. destruct (ACC e X) as [Y|Y]; [now apply I7|]. simpl in Y. destruct Y as [Y|[]]. discriminate.
Qed.

Lemma ws_enabled_open : forall ws off j, nth_error ws j = Some WOpen ->
  In (NAWatchClose (off + j)) (ws_enabled true off ws).
Proof.
  induction ws as [|w ws IH]; intros off [|j] H; simpl in H; try discriminate.
  - inversion H; subst. simpl. rewrite Nat.add_0_r. now left.
  - simpl. apply in_or_app. right. rewrite <- Nat.add_succ_comm. now apply IH.
Qed.

Lemma ws_enabled_nil : forall ws off, ws_enabled true off ws = [] ->
  forall j w, nth_error ws j = Some w -> w = WGone.
Proof.
  induction ws as [|w0 ws IH]; intros off H [|j] w E; simpl in E; try discriminate.
  - inversion E; subst. simpl in H. destruct w; [discriminate|discriminate|reflexivity].
  - simpl in H. apply app_eq_nil in H. destruct H as [_ H]. exact (IH _ H j w E).
Qed.

Lemma jreach_prefix : forall t1 t2 s a, jreach (t1 ++ t2) s a -> exists s1 a1, jreach t1 s1 a1.
Proof.
  intros t1 t2 s a [os H]. rewrite jrun_app in H. destruct (jrun jinit t1) as [[[s1 a1] o1]|] eqn:E; [|discriminate].
  exists s1, a1, o1. exact E.
Qed.

(* NetAccepter yields the closing error only after the context has ended: the listener is closed only by a
   watcher that saw ctx.Done(); every error Loop receives from Accept is one Listener.Accept returned *)
Lemma na_closing_error : forall tr s a, jreach tr s a ->
  ctx_done s = na_ctx a /\
  (na_lclosed a = true -> ctx_done s = true /\ In JCtxEnd tr) /\
  (forall e, In (AcceptErr e) (jproj jinit tr) -> In (JNA (NAErr e)) tr) /\
  (forall t1 t2, tr = t1 ++ JNA (NAErr EClosing) :: t2 -> In JCtxEnd t1) /\
  (In (AcceptErr EClosing) (jproj jinit tr) -> In JCtxEnd tr).
Proof.
  intros tr s a R. pose proof (jinv_reach _ _ _ R) as I. split; [apply (j_ctx _ _ _ I)|]. split; [|split; [|split]].
  - intros L. pose proof (j_lclosed _ _ _ I L) as C. split; [now rewrite (j_ctx _ _ _ I)|now apply (j_ctx_tr _ _ _ I)].
  - apply (j_accerr _ _ _ I).
  - intros t1 t2 E. subst tr.
    assert (R' : jreach ((t1 ++ [JNA (NAErr EClosing)]) ++ t2) s a) by (rewrite <- app_assoc; exact R).
    destruct (jreach_prefix _ _ _ _ R') as [s1 [a1 R1]]. pose proof (jinv_reach _ _ _ R1) as I1.
    assert (X : In JCtxEnd (t1 ++ [JNA (NAErr EClosing)])) by (apply (j_closing _ _ _ I1); apply in_or_app; right; now left).
    apply in_app_or in X. destruct X as [X|[X|[]]]; [exact X|discriminate].
  - intros X. apply (j_closing _ _ _ I). now apply (j_accerr _ _ _ I).
Qed.

(* CONTEXT END -> LOOP RETURNS NIL.  Loop over NetAccepter, any interleaving; the context has ended; no step of
   Loop, of its servers, or of NetAccepter is enabled any more (jquiescent; the arrival of a new connection and a
   failure of the listener itself are the environment's).  Then the accept loop is over and no Accept call or
   watcher goroutine of NetAccepter is left; the connections are done or are stopped servers waiting for a
   handler; and if no handler is running Loop has returned - nil, provided the listener never failed by itself. *)
Lemma ctx_end_returns_nil : forall tr s a, jreach tr s a -> ctx_done s = true -> jquiescent (s, a) = true ->
  acc s <> Accepting /\ na_call a = CIdle /\ (forall j w, nth_error (na_ws a) j = Some w -> w = WGone) /\
  quiescent s = true /\
  (forall k c, get s k = Some c -> is_done (c_phase c) = true \/ (exists st, c_phase c = PStopping st /\ c_busy c > 0)) /\
  ((forall k c, get s k = Some c -> c_busy c = 0) ->
     exists e, acc s = Returned (retv_of e) /\ In (JNA (NAErr e)) tr /\ In (LoopReturn (retv_of e)) (jproj jinit tr) /\
               (~ In (JNA (NAErr EOther)) tr -> e = EClosing /\ acc s = Returned RNil)).
Proof.
  intros tr s a R C Q. pose proof (jinv_reach _ _ _ R) as I. pose proof (jreach_reach _ _ _ R) as RL.
  assert (CA : na_ctx a = true) by (rewrite <- (j_ctx _ _ _ I); exact C).
  unfold jquiescent, jenabled in Q.
  destruct (map JLoop _ ++ map JNA (na_enabled a) ++ _) eqn:E in Q; [|discriminate]. clear Q.
  apply app_eq_nil in E. destruct E as [E1 E2]. apply app_eq_nil in E2. destruct E2 as [E2 E3].
  apply map_eq_nil in E1. apply map_eq_nil in E2.
  unfold na_enabled in E2. apply app_eq_nil in E2. destruct E2 as [E2a E2b]. rewrite CA in E2b.
  assert (CI : na_call a = CIdle).
  { destruct (na_call a) eqn:CC; [reflexivity| | |]; try discriminate.
    destruct (na_lclosed a) eqn:L; [discriminate|].
    destruct (j_blocked _ _ _ I CC) as [X|[j X]]; [congruence|].
    pose proof (ws_enabled_open _ 0 _ X) as Y. rewrite E2b in Y. destruct Y. }
  assert (NA : acc s <> Accepting).
  { intros A. rewrite A, CI in E3. discriminate. }
  split; [exact NA|]. split; [exact CI|]. split; [exact (ws_enabled_nil _ _ E2b)|].
  assert (QL : quiescent s = true).
  { unfold quiescent, enabled_internal, enabled. destruct (acc s) eqn:A; [congruence| |]; rewrite E1; reflexivity. }
  split; [exact QL|].
  destruct (ctx_stops_all _ _ RL C) as [_ [_ [_ H4]]]. destruct (H4 QL) as [H5 [_ H6]].
  split; [exact H5|].
  intros NB. specialize (H6 NB). pose proof (acc_hist_reach _ _ RL) as AH. unfold acc_hist, returned in *.
  destruct (acc s) as [|e0|v]; try discriminate.
  destruct AH as [e [-> [X1 [_ X2]]]]. exists e. split; [reflexivity|]. split; [now apply (j_accerr _ _ _ I)|]. split; [exact X2|].
  intros NO. destruct e; [split; reflexivity|]. exfalso. apply NO. now apply (j_accerr _ _ _ I).
Qed.

Local Transparent step.

(* ------------------------------------------------------------------ *)
(* non-vacuity *)

(* the accepter fails (not a closing error), the context never ends; the one server stops when its peer
   closes; when it has exited and been finished Loop returns the error *)
Definition exm_trace : list label :=
  [Accept 0; NewSvc 0; AssignerOk 0; StartSrv 0; AcceptErr EOther; PeerClose 0; SrvStop 0 StClosed;
   SrvExit 0 StClosed; Finish 0; ConnDone 0; LoopReturn RErr].

Example quiescent_general_nonvacuous :
  (exists s, reach exm_trace s /\ quiescent s = true /\ ctx_done s = false /\ In (AcceptErr EOther) exm_trace /\
             acc s = Returned RErr /\ forall k c, get s k = Some c -> c_phase c <> PRunning /\ forall st, c_phase c <> PStopping st) /\
  (* while the server runs (peer still there) the state is quiescent and Loop has not returned *)
  (exists s c, reach (firstn 5 exm_trace) s /\ quiescent s = true /\ acc s = Waiting EOther /\
               get s 0 = Some c /\ c_phase c = PRunning).
Proof.
  split.
  - eexists. split; [eexists; vm_compute; reflexivity|].
    split; [vm_compute; reflexivity|]. split; [vm_compute; reflexivity|]. split; [vm_compute; tauto|].
    split; [vm_compute; reflexivity|]. intros k c H. vm_compute in H.
    destruct k as [|[|k]]; simpl in H; inversion H; subst; split; [discriminate|intros st; discriminate].
  - eexists; eexists. split; [eexists; vm_compute; reflexivity|]. vm_compute. repeat split.
Qed.

Example exit_means_idle_nonvacuous :
  exists t1 t2, ex_trace = t1 ++ SrvExit 0 StStopped :: t2 /\ In (CallEnd 0) t1 /\ reach ex_trace ex_state.
Proof.
  exists (firstn 13 ex_trace), (skipn 14 ex_trace). split; [reflexivity|]. split; [vm_compute; tauto|exact reach_nonvacuous].
Qed.

Example run_accounts_nonvacuous :
  exists s os, run (init true) ex_trace = Some (s, os) /\ newsvc_of os = [0; 1] /\ finish_of os = [(0, 0, StStopped)] /\
               finish_log s = [(0, 0, 0, StStopped)] /\ In (AssignerFail 1) ex_trace.
Proof. eexists; eexists. vm_compute. repeat split; tauto. Qed.

(* Loop over NetAccepter: one connection is served; the context ends while the second Accept call blocks; the
   watcher closes the listener, Accept returns the closing error, the server is stopped, Loop returns nil *)
Definition exj_trace : list jlabel :=
  [JNA NACall; JNA NAConn; JNA NARet; JLoop (NewSvc 0); JLoop (AssignerOk 0); JLoop (StartSrv 0); JNA NACall;
   JCtxEnd; JNA (NAWatchClose 1); JNA (NAErr EClosing); JNA NARet; JLoop (SrvStop 0 StStopped);
   JLoop (SrvExit 0 StStopped); JLoop (Finish 0); JLoop (ConnDone 0); JLoop (LoopReturn RNil); JNA (NAWatchExit 0)].

Example ctx_end_returns_nil_nonvacuous :
  exists s a, jreach exj_trace s a /\ ctx_done s = true /\ jquiescent (s, a) = true /\
              (forall k c, get s k = Some c -> c_busy c = 0) /\ ~ In (JNA (NAErr EOther)) exj_trace /\
              acc s = Returned RNil /\
              jproj jinit exj_trace = [Accept 0; NewSvc 0; AssignerOk 0; StartSrv 0; CtxEnd; AcceptErr EClosing;
                                       SrvStop 0 StStopped; SrvExit 0 StStopped; Finish 0; ConnDone 0; LoopReturn RNil].
Proof.
  eexists; eexists. split; [eexists; vm_compute; reflexivity|].
  split; [vm_compute; reflexivity|]. split; [vm_compute; reflexivity|]. split.
  { intros k c H. vm_compute in H. destruct k as [|[|k]]; simpl in H; inversion H; subst; reflexivity. }
  split.
  { intros H. repeat (destruct H as [H|H]; [discriminate|]). exact H. }
  split; vm_compute; reflexivity.
Qed.

(* before the context ends the blocked Accept is not an internal step: the composed system is quiescent with
   Loop still accepting; and a failure of the listener itself makes Loop return the error *)
Example na_blocks_until_ctx_nonvacuous :
  (exists s a, jreach [JNA NACall; JNA NAConn; JNA NARet; JNA (NAWatchExit 0); JLoop (NewSvc 0); JLoop (AssignerOk 0);
                       JLoop (StartSrv 0); JNA NACall] s a /\ jquiescent (s, a) = true /\ acc s = Accepting /\ na_call a = CBlocked) /\
  (exists s a, jreach [JNA NACall; JNA (NAErr EOther); JNA NARet; JLoop (LoopReturn RErr)] s a /\
               acc s = Returned RErr /\ ctx_done s = false).
Proof.
  split; eexists; eexists; (split; [eexists; vm_compute; reflexivity|]); vm_compute; repeat split; reflexivity.
Qed.

(* ------------------------------------------------------------------ *)
(* 6. termination of the internal steps: a measure that every step of a goroutine of Loop, of an abstract
   server, and of the accepter honouring ctx decreases *)

Definition is_internal (l : label) : bool :=
  match l with
  | AcceptErr _ | LoopReturn _ | NewSvc _ | AssignerOk _ | AssignerFail _ | StartSrv _
  | SrvStop _ _ | SrvExit _ _ | Finish _ | ConnDone _ => true
  | _ => false
  end.

(* steps a connection in phase p can still take *)
Definition rem_steps (p : phase) : nat :=
  match p with
  | PAccepted => 7 | PHasSvc => 6 | PAssigned => 5 | PRunning => 4 | PStopping _ => 3
  | PExited _ => 2 | PFinished _ => 1 | PFailed => 1 | PDoneOk _ | PDoneFail => 0
  end.
Definition acc_steps (a : astat) : nat := match a with Accepting => 2 | Waiting _ => 1 | Returned _ => 0 end.
Fixpoint sum_rem (cs : list conn) : nat :=
  match cs with [] => 0 | c :: r => rem_steps (c_phase c) + sum_rem r end.
Definition mu (s : state) : nat := acc_steps (acc s) + sum_rem (conns s).

Lemma sum_rem_upd : forall cs k f c, nth_error cs k = Some c ->
  sum_rem (upd_nth k f cs) + rem_steps (c_phase c) = sum_rem cs + rem_steps (c_phase (f c)).
Proof.
  induction cs as [|x cs IH]; intros [|k] f c H; simpl in H; try discriminate.
  - inversion H; subst. simpl. lia.
  - specialize (IH k f c H). simpl. lia.
Qed.

Lemma mu_decreases : forall s l s' os, step s l = Some (s', os) -> is_internal l = true -> mu s' < mu s.
Proof.
  intros s l s' os H IL. unfold mu.
  destruct l; try discriminate IL; inv_step H; simpl; try lia;
    try (destruct (fix_F10 s); simpl);
    match goal with
    | E : get s ?k = Some ?c |- context [upd_nth ?k ?f _] =>
        pose proof (sum_rem_upd (conns s) k f c E) as L; simpl in L; rw_phase; simpl in L; lia
    end.
Qed.

(* an environment step leaves the measure alone, except a new connection (+7) and ... nothing else *)
Lemma mu_env : forall s l s' os, step s l = Some (s', os) -> is_internal l = false ->
  mu s' = mu s + (match l with Accept _ => 7 | _ => 0 end).
Proof.
  intros s l s' os H IL. unfold mu.
  destruct l; try discriminate IL; inv_step H; simpl; try lia;
    try (match goal with
         | E : get s ?k = Some ?c |- context [upd_nth ?k ?f _] =>
             pose proof (sum_rem_upd (conns s) k f c E) as L; simpl in L; lia
         end).
  assert (X : forall cs, sum_rem (cs ++ [new_conn]) = sum_rem cs + 7).
  { induction cs as [|x cs IH]; simpl; [reflexivity|]. rewrite IH. lia. }
  rewrite X, ?Heqa. simpl. lia.
Qed.

(* every run of internal steps is bounded by the measure: no infinite sequence of internal steps *)
Lemma internal_run_bounded : forall tr s s' os, run s tr = Some (s', os) -> forallb is_internal tr = true ->
  length tr + mu s' <= mu s.
Proof.
  induction tr as [|l tr IH]; intros s s' os H F.
  - simpl in H. inversion H; subst. simpl. lia.
  - cbn [run] in H. destruct (step s l) as [[s1 o1]|] eqn:E; [|discriminate].
    destruct (run s1 tr) as [[s2 o2]|] eqn:E2; [|discriminate]. inversion H; subst.
    simpl in F. apply andb_true_iff in F. destruct F as [F1 F2].
    pose proof (mu_decreases _ _ _ _ E F1). specialize (IH _ _ _ E2 F2). simpl. lia.
Qed.

Lemma conns_enabled_inv : forall hooks ctx cs off l, In l (conns_enabled hooks ctx off cs) ->
  exists k c, nth_error cs k = Some c /\ In l (conn_enabled hooks ctx (off + k) c).
Proof.
  induction cs as [|x cs IH]; intros off l H; simpl in H; [destruct H|].
  apply in_app_or in H. destruct H as [H|H].
  - exists 0, x. rewrite Nat.add_0_r. split; [reflexivity|exact H].
  - destruct (IH _ _ H) as [k [c [A B]]]. exists (S k), c. split; [exact A|]. now rewrite <- Nat.add_succ_comm.
Qed.

(* what [enabled_internal] lists is internal and can be taken (on reachable states) *)
Lemma enabled_internal_sound : forall tr s l, reach tr s -> In l (enabled_internal s) ->
  is_internal l = true /\ exists s' os, step s l = Some (s', os).
Proof.
  intros tr s l R H. pose proof (reach_inv _ _ R) as I. unfold enabled_internal, enabled in H.
  apply in_app_or in H. destruct H as [H|H].
  - destruct (acc s) eqn:A.
    + destruct (ctx_done s); [|destruct H]. destruct H as [<-|[]]. split; [reflexivity|].
      unfold step. rewrite A. eexists; eexists; reflexivity.
    + destruct (wg s) eqn:W; [|destruct H]. destruct H as [<-|[]]. split; [reflexivity|].
      unfold step. rewrite A, W. destruct e; simpl; eexists; eexists; reflexivity.
    + destruct H.
  - apply conns_enabled_inv in H. destruct H as [k [c [G H]]]. simpl in H. fold (get s k) in G.
    pose proof (inv_data _ _ I _ _ G) as D. unfold data_ok in D. unfold conn_enabled in H.
    destruct (c_phase c) eqn:P; cbv beta iota in H.
    + destruct H as [<-|[]]. split; [reflexivity|]. unfold step. rewrite G, P. eexists; eexists; reflexivity.
    + destruct D as [[i [S _]] _]. destruct H as [<-|[<-|[]]]; (split; [reflexivity|]); unfold step; rewrite G, P, S;
        eexists; eexists; reflexivity.
    + destruct H as [<-|[]]. split; [reflexivity|]. unfold step. rewrite G, P. eexists; eexists; reflexivity.
    + destruct H as [<-|[]]. split; [reflexivity|]. unfold step. rewrite G, P.
      assert (W : wg s <> 0).
      { rewrite (inv_wg _ _ I). intros Z. pose proof (live_zero_done _ Z k c G) as X. rewrite P in X. discriminate. }
      destruct (wg s); [congruence|]. eexists; eexists; reflexivity.
    + apply filter_In in H. destruct H as [H T].
      destruct H as [<-|[<-|[<-|[]]]]; (split; [reflexivity|]); unfold step; rewrite G, P, T; eexists; eexists; reflexivity.
    + destruct (c_busy c) eqn:B; [|destruct H]. destruct H as [<-|[]]. split; [reflexivity|].
      unfold step. rewrite G, P, B. destruct (status_eq_dec st st); [|congruence]. eexists; eexists; reflexivity.
    + destruct D as [i [S [_ [A _]]]]. destruct H as [<-|[]]. split; [reflexivity|].
      unfold step. rewrite G, P, S, A. eexists; eexists; reflexivity.
    + destruct H as [<-|[]]. split; [reflexivity|]. unfold step. rewrite G, P.
      assert (W : wg s <> 0).
      { rewrite (inv_wg _ _ I). intros Z. pose proof (live_zero_done _ Z k c G) as X. rewrite P in X. discriminate. }
      destruct (wg s); [congruence|]. eexists; eexists; reflexivity.
    + destruct H.
    + destruct H.
Qed.

(* EVENTUALLY QUIESCENT: from every reachable state the internal steps alone lead, in at most [mu s] steps, to
   a quiescent state (whatever internal step is chosen each time: see internal_run_bounded) *)
Lemma eventually_quiescent : forall n tr s, reach tr s -> mu s <= n ->
  exists tr' s', forallb is_internal tr' = true /\ reach (tr ++ tr') s' /\ quiescent s' = true /\
                 length tr' <= mu s /\ (exists os, run s tr' = Some (s', os)).
Proof.
  induction n as [|n IH]; intros tr s R M.
  - exists [], s. rewrite app_nil_r. repeat split; auto.
    + unfold quiescent. destruct (enabled_internal s) as [|l r] eqn:E; [reflexivity|].
      destruct (enabled_internal_sound _ _ l R) as [IL [s' [os H]]]; [rewrite E; now left|].
      pose proof (mu_decreases _ _ _ _ H IL). lia.
    + simpl. lia.
    + exists []. reflexivity.
  - destruct (enabled_internal s) as [|l r] eqn:E.
    + exists [], s. rewrite app_nil_r. repeat split; auto.
      * unfold quiescent. now rewrite E.
      * simpl. lia.
      * exists []. reflexivity.
    + destruct (enabled_internal_sound _ _ l R) as [IL [s1 [o1 H]]]; [rewrite E; now left|].
      pose proof (mu_decreases _ _ _ _ H IL) as D.
      destruct (IH (tr ++ [l]) s1) as [tr' [s' [F [R' [Q [L [o2 H2]]]]]]]; [eapply reach_snoc; eauto|lia|].
      exists (l :: tr'), s'. split; [simpl; now rewrite IL, F|]. split; [now rewrite <- app_assoc in R'|].
      split; [exact Q|]. split; [simpl; lia|].
      exists (o1 ++ o2). cbn [run]. now rewrite H, H2.
Qed.

(* internal steps do not touch the context, the peers or the handlers *)
Lemma internal_frame : forall s l s' os, step s l = Some (s', os) -> is_internal l = true ->
  ctx_done s' = ctx_done s /\
  forall k c', get s' k = Some c' -> exists c, get s k = Some c /\ c_busy c' = c_busy c /\
                                               c_pclosed c' = c_pclosed c /\ c_pfailed c' = c_pfailed c.
Proof.
  intros s l s' os H IL. split; [apply (step_ctx_same _ _ _ _ H); intros ->; discriminate|].
  intros j cj Hj.
  destruct l; try discriminate IL; inv_step H; gs; try (destruct (fix_F10 s)); gs;
    try (exists cj; auto; fail);
    match goal with E : get s ?k = Some ?c |- _ =>
      split_get j k Hj; [rewrite E in Hj; simpl in Hj; inversion Hj; subst; exists c; simpl; auto | exists cj; auto]
    end.
Qed.

Lemma internal_run_frame : forall tr s s' os, run s tr = Some (s', os) -> forallb is_internal tr = true ->
  ctx_done s' = ctx_done s /\
  forall k c', get s' k = Some c' -> exists c, get s k = Some c /\ c_busy c' = c_busy c /\
                                               c_pclosed c' = c_pclosed c /\ c_pfailed c' = c_pfailed c.
Proof.
  induction tr as [|l tr IH]; intros s s' os H F.
  - simpl in H. inversion H; subst. split; [reflexivity|]. intros k c' G. exists c'. auto.
  - cbn [run] in H. destruct (step s l) as [[s1 o1]|] eqn:E; [|discriminate].
    destruct (run s1 tr) as [[s2 o2]|] eqn:E2; [|discriminate]. inversion H; subst.
    simpl in F. apply andb_true_iff in F. destruct F as [F1 F2].
    destruct (internal_frame _ _ _ _ E F1) as [A B]. destruct (IH _ _ _ E2 F2) as [A' B'].
    split; [congruence|]. intros k c' G. destruct (B' k c' G) as [c1 [G1 [X1 [X2 X3]]]].
    destruct (B k c1 G1) as [c [G0 [Y1 [Y2 Y3]]]]. exists c. repeat split; congruence.
Qed.

(* EVENTUALLY (trace form of c20_ctx_stops_all): once the context has ended and no handler is running, the
   internal steps alone - at most [mu s] of them, in whatever order - bring Loop to return *)
Lemma ctx_end_eventually_returns : forall tr s, reach tr s -> ctx_done s = true ->
  (forall k c, get s k = Some c -> c_busy c = 0) ->
  exists tr' s', forallb is_internal tr' = true /\ length tr' <= mu s /\ reach (tr ++ tr') s' /\
                 quiescent s' = true /\ returned s' = true /\
                 (forall k c, get s' k = Some c -> is_done (c_phase c) = true).
Proof.
  intros tr s R C NB.
  destruct (eventually_quiescent (mu s) tr s R (le_n _)) as [tr' [s' [F [R' [Q [L [os H]]]]]]].
  destruct (internal_run_frame _ _ _ _ H F) as [C' B'].
  assert (NB' : forall k c, get s' k = Some c -> c_busy c = 0).
  { intros k c G. destruct (B' k c G) as [c0 [G0 [X _]]]. rewrite X. exact (NB k c0 G0). }
  assert (CD : ctx_done s' = true) by congruence.
  destruct (ctx_stops_all _ _ R' CD) as [_ [_ [_ H4]]]. destruct (H4 Q) as [H5 [_ H6]].
  exists tr', s'. repeat split; auto.
  intros k c G. destruct (H5 k c G) as [D|[st [_ B]]]; [exact D|]. rewrite (NB' k c G) in B. lia.
Qed.

(* ... and the same for an accepter failure without context end, as far as it goes without the environment:
   eventually a quiescent state, where (c20_quiescent_general) Loop has returned unless a server still runs *)
Lemma accept_failure_eventually : forall tr s e, reach tr s -> In (AcceptErr e) tr ->
  exists tr' s', forallb is_internal tr' = true /\ length tr' <= mu s /\ reach (tr ++ tr') s' /\ quiescent s' = true /\
    ((forall k c, get s' k = Some c -> c_phase c <> PRunning /\ forall st, c_phase c <> PStopping st) ->
       acc s' = Returned (retv_of e) /\ In (LoopReturn (retv_of e)) (tr ++ tr')).
Proof.
  intros tr s e R Hin.
  destruct (eventually_quiescent (mu s) tr s R (le_n _)) as [tr' [s' [F [R' [Q [L _]]]]]].
  exists tr', s'. repeat split; auto.
  - destruct (quiescent_general _ _ R' Q) as [_ [_ [_ G]]]. destruct (G H e) as [A _]; [apply in_or_app; now left|exact A].
  - destruct (quiescent_general _ _ R' Q) as [_ [_ [_ G]]]. destruct (G H e) as [_ [A _]]; [apply in_or_app; now left|exact A].
Qed.

Example eventually_nonvacuous :
  exists s, reach [Accept 0; NewSvc 0; AssignerOk 0; StartSrv 0; Accept 1; CtxEnd] s /\ ctx_done s = true /\
            (forall k c, get s k = Some c -> c_busy c = 0) /\ mu s = 13 /\ quiescent s = false.
Proof.
  eexists. split; [eexists; vm_compute; reflexivity|]. split; [vm_compute; reflexivity|]. split.
  { intros k c H. vm_compute in H. destruct k as [|[|[|k]]]; simpl in H; inversion H; subst; reflexivity. }
  split; vm_compute; reflexivity.
Qed.
