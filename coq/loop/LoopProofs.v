(* LoopProofs: invariants of the Loop model over all label sequences, and the C20 lemmas. *)
From Coq Require Import List Arith Bool Lia.
From JV Require Import Loop.
Import ListNotations.

(* ------------------------------------------------------------------ *)
(* runs *)

Lemma run_app : forall t1 t2 s,
  run s (t1 ++ t2) = match run s t1 with
                     | None => None
                     | Some (s1, o1) => match run s1 t2 with
                                        | None => None
                                        | Some (s2, o2) => Some (s2, o1 ++ o2)
                                        end
                     end.
Proof.
  induction t1 as [|l t1 IH]; intros t2 s; simpl.
  - destruct (run s t2) as [[s2 o2]|]; reflexivity.
  - destruct (step s l) as [[s1 o1]|]; [|reflexivity].
    rewrite IH. destruct (run s1 t1) as [[s2 o2]|]; [|reflexivity].
    destruct (run s2 t2) as [[s3 o3]|]; [|reflexivity]. now rewrite app_assoc.
Qed.

Definition reach (tr : list label) (s : state) : Prop := exists os, run (init true) tr = Some (s, os).

Lemma reach_nil : reach [] (init true).
Proof. exists []. reflexivity. Qed.

Lemma reach_app_inv : forall t1 t2 s, reach (t1 ++ t2) s ->
  exists s1, reach t1 s1 /\ exists os, run s1 t2 = Some (s, os).
Proof.
  intros t1 t2 s [os H]. rewrite run_app in H.
  destruct (run (init true) t1) as [[s1 o1]|] eqn:E1; [|discriminate].
  destruct (run s1 t2) as [[s2 o2]|] eqn:E2; [|discriminate].
  inversion H; subst. exists s1. split; [exists o1; exact E1 | exists o2; exact E2].
Qed.

Lemma run_single : forall s l s' os, run s [l] = Some (s', os) -> step s l = Some (s', os).
Proof.
  intros s l s' os H. simpl in H. destruct (step s l) as [[s1 o1]|]; [|discriminate].
  inversion H; subst. now rewrite app_nil_r.
Qed.

Lemma reach_snoc_inv : forall tr l s', reach (tr ++ [l]) s' ->
  exists s os, reach tr s /\ step s l = Some (s', os).
Proof.
  intros tr l s' H. apply reach_app_inv in H. destruct H as [s1 [H1 [os H2]]].
  exists s1, os. split; [exact H1 | now apply run_single].
Qed.

Lemma reach_snoc : forall tr s l s' os, reach tr s -> step s l = Some (s', os) -> reach (tr ++ [l]) s'.
Proof.
  intros tr s l s' os [o1 H1] H2. exists (o1 ++ os). rewrite run_app, H1. simpl. rewrite H2.
  now rewrite app_nil_r.
Qed.

Lemma reach_ind : forall P : list label -> state -> Prop,
  P [] (init true) ->
  (forall tr s l s' os, reach tr s -> P tr s -> step s l = Some (s', os) -> P (tr ++ [l]) s') ->
  forall tr s, reach tr s -> P tr s.
Proof.
  intros P H0 HS tr. induction tr as [|l tr IH] using rev_ind; intros s H.
  - destruct H as [os H]. simpl in H. inversion H; subst. exact H0.
  - apply reach_snoc_inv in H. destruct H as [s1 [os [H1 H2]]]. eapply HS; eauto.
Qed.

(* ------------------------------------------------------------------ *)
(* lists *)

Lemma nth_upd_same : forall A (f : A -> A) l k, nth_error (upd_nth k f l) k = option_map f (nth_error l k).
Proof. induction l as [|x l IH]; intros [|k]; simpl; auto. Qed.

Lemma nth_upd_other : forall A (f : A -> A) l k j, j <> k -> nth_error (upd_nth k f l) j = nth_error l j.
Proof.
  induction l as [|x l IH]; intros [|k] [|j] H; simpl; auto; try congruence.
Qed.

Lemma length_upd : forall A (f : A -> A) l k, length (upd_nth k f l) = length l.
Proof. induction l as [|x l IH]; intros [|k]; simpl; auto. Qed.

Lemma get_set_conn : forall s k f j,
  get (set_conn k f s) j = if j =? k then option_map f (get s j) else get s j.
Proof.
  intros s k f j. unfold get, set_conn, set_conns. simpl.
  destruct (Nat.eqb_spec j k) as [->|N]; [apply nth_upd_same | now apply nth_upd_other].
Qed.

Lemma get_app_new : forall s j,
  get (set_conns (fun cs => cs ++ [new_conn]) s) j =
  if j <? length (conns s) then get s j else if j =? length (conns s) then Some new_conn else None.
Proof.
  intros s j. unfold get, set_conns. simpl.
  destruct (Nat.ltb_spec j (length (conns s))) as [L|L].
  - now apply nth_error_app1.
  - rewrite nth_error_app2 by exact L.
    destruct (Nat.eqb_spec j (length (conns s))) as [->|N].
    + now rewrite Nat.sub_diag.
    + destruct (j - length (conns s)) as [|d] eqn:E; [lia|]. simpl. now destruct d.
Qed.

Lemma get_none_ge : forall s j, get s j = None <-> length (conns s) <= j.
Proof. intros. apply nth_error_None. Qed.

Lemma get_some_lt : forall s j c, get s j = Some c -> j < length (conns s).
Proof. intros s j c H. apply nth_error_Some. unfold get in H. congruence. Qed.

(* ------------------------------------------------------------------ *)
(* the life cycle of a connection as seen in the trace *)

Definition life (l : label) : option nat :=
  match l with
  | Accept k | NewSvc k | AssignerOk k | AssignerFail k | StartSrv k | SrvStop k _ | SrvExit k _ | Finish k | ConnDone k => Some k
  | _ => None
  end.
Definition is_life (k : nat) (l : label) : bool := match life l with Some j => j =? k | None => false end.
Definition proj (k : nat) (tr : list label) : list label := filter (is_life k) tr.

Definition path (k : nat) (p : phase) : list label :=
  match p with
  | PAccepted => [Accept k]
  | PHasSvc => [Accept k; NewSvc k]
  | PAssigned => [Accept k; NewSvc k; AssignerOk k]
  | PFailed => [Accept k; NewSvc k; AssignerFail k]
  | PRunning => [Accept k; NewSvc k; AssignerOk k; StartSrv k]
  | PStopping st => [Accept k; NewSvc k; AssignerOk k; StartSrv k; SrvStop k st]
  | PExited st => [Accept k; NewSvc k; AssignerOk k; StartSrv k; SrvStop k st; SrvExit k st]
  | PFinished st => [Accept k; NewSvc k; AssignerOk k; StartSrv k; SrvStop k st; SrvExit k st; Finish k]
  | PDoneOk st => [Accept k; NewSvc k; AssignerOk k; StartSrv k; SrvStop k st; SrvExit k st; Finish k; ConnDone k]
  | PDoneFail => [Accept k; NewSvc k; AssignerFail k; ConnDone k]
  end.
Definition path_of (s : state) (k : nat) : list label :=
  match get s k with Some c => path k (c_phase c) | None => [] end.

Definition started (p : phase) : bool :=
  match p with PRunning | PStopping _ | PExited _ | PFinished _ | PDoneOk _ => true | _ => false end.

Definition data_ok (n : nat) (c : conn) : Prop :=
  match c_phase c with
  | PAccepted => c_svc c = None /\ c_asg c = None /\ c_used c = None
  | PHasSvc | PFailed | PDoneFail => (exists i, c_svc c = Some i /\ i < n) /\ c_asg c = None /\ c_used c = None
  | PAssigned => (exists i, c_svc c = Some i /\ i < n /\ c_asg c = Some i) /\ c_used c = None
  | _ => exists i, c_svc c = Some i /\ i < n /\ c_asg c = Some i /\ c_used c = Some i
  end.

Definition live (cs : list conn) : nat := length (filter (fun c => negb (is_done (c_phase c))) cs).
Definition closes (p : phase) : nat :=
  match p with PAccepted | PHasSvc | PAssigned | PRunning | PStopping _ => 0 | _ => 1 end.
Definition closes_of (s : state) (k : nat) : nat :=
  match get s k with Some c => closes (c_phase c) | None => 0 end.

Record Inv (tr : list label) (s : state) : Prop := {
  inv_fix : fix_F10 s = true;
  inv_path : forall k, proj k tr = path_of s k;
  inv_data : forall k c, get s k = Some c -> data_ok (next_svc s) c;
  inv_inj : forall j k cj ck i, get s j = Some cj -> get s k = Some ck ->
                                c_svc cj = Some i -> c_svc ck = Some i -> j = k;
  inv_wg : wg s = live (conns s);
  inv_closed : forall k, count_occ Nat.eq_dec (closed_conns s) k = closes_of s k;
  inv_ret : returned s = true -> wg s = 0;
  inv_flog : forall k i a st, In (k, i, a, st) (finish_log s) ->
             exists c, get s k = Some c /\ c_svc c = Some i /\ c_asg c = Some a /\
                       (c_phase c = PFinished st \/ c_phase c = PDoneOk st)
}.

Lemma proj_snoc : forall k tr l, proj k (tr ++ [l]) = proj k tr ++ (if is_life k l then [l] else []).
Proof. intros. unfold proj. rewrite filter_app. simpl. now destruct (is_life k l). Qed.

Lemma live_app : forall a b, live (a ++ b) = live a + live b.
Proof. intros. unfold live. now rewrite filter_app, app_length. Qed.

Lemma live_upd : forall cs k f c, nth_error cs k = Some c ->
  live (upd_nth k f cs) + (if is_done (c_phase c) then 0 else 1) =
  live cs + (if is_done (c_phase (f c)) then 0 else 1).
Proof.
  induction cs as [|x cs IH]; intros [|k] f c H; simpl in H; try discriminate.
  - inversion H; subst. unfold live. simpl.
    destruct (is_done (c_phase c)), (is_done (c_phase (f c))); simpl; lia.
  - specialize (IH k f c H). unfold live in *. simpl.
    destruct (is_done (c_phase x)); simpl; lia.
Qed.

Lemma live_zero_done : forall cs, live cs = 0 -> forall k c, nth_error cs k = Some c -> is_done (c_phase c) = true.
Proof.
  induction cs as [|x cs IH]; intros H [|k] c E; simpl in E; try discriminate.
  - inversion E; subst. unfold live in H. simpl in H. destruct (is_done (c_phase c)); [reflexivity|discriminate].
  - apply (IH) with (k := k); [|exact E]. unfold live in *. simpl in H.
    destruct (is_done (c_phase x)); simpl in H; [exact H|discriminate].
Qed.

Lemma count_occ_snoc : forall (l : list nat) a k,
  count_occ Nat.eq_dec (l ++ [a]) k = count_occ Nat.eq_dec l k + (if a =? k then 1 else 0).
Proof.
  intros. rewrite count_occ_app. simpl.
  destruct (Nat.eq_dec a k) as [->|N]; [now rewrite Nat.eqb_refl|].
  destruct (Nat.eqb_spec a k); [contradiction|reflexivity].
Qed.

Lemma data_ok_mono : forall n c, data_ok n c -> data_ok (S n) c.
Proof.
  intros n c H. unfold data_ok in *. destruct (c_phase c); intuition;
    repeat match goal with H : exists _, _ |- _ => destruct H end; intuition eauto 8.
Qed.

(* the effect of a step on the connection list *)
Inductive eff (s : state) (l : label) (s' : state) : Prop :=
| EffSame : conns s' = conns s -> life l = None -> eff s l s'
| EffNew : forall k, l = Accept k -> k = length (conns s) -> conns s' = conns s ++ [new_conn] -> eff s l s'
| EffConn : forall k c c', get s k = Some c -> conns s' = upd_nth k (fun _ => c') (conns s) ->
            (life l = Some k /\ path k (c_phase c') = path k (c_phase c) ++ [l] \/
             life l = None /\ c_phase c' = c_phase c /\ c_svc c' = c_svc c /\ c_asg c' = c_asg c /\ c_used c' = c_used c) ->
            (c_svc c' = c_svc c \/ c_svc c' = Some (next_svc s)) ->
            eff s l s'.

Lemma upd_const : forall A (f : A -> A) l k c, nth_error l k = Some c -> upd_nth k f l = upd_nth k (fun _ => f c) l.
Proof.
  induction l as [|x l IH]; intros [|k] c H; simpl in *; try discriminate; auto.
  - now inversion H.
  - f_equal. now apply IH.
Qed.

Ltac inv_step H :=
  unfold step in H;
  repeat match type of H with
         | context [match ?x with _ => _ end] => destruct x eqn:?; try discriminate
         end;
  inversion H; subst; clear H.

Lemma step_eff : forall s l s' os, step s l = Some (s', os) -> eff s l s'.
Proof.
  intros s l s' os H. destruct l; inv_step H;
    try (apply EffSame; reflexivity);
    try (match goal with E : (_ =? _) = true |- _ => apply Nat.eqb_eq in E end;
         eapply EffNew; eauto; fail);
    match goal with
    | E : get s ?k = Some ?c |- _ =>
        eapply (EffConn _ _ _ k c);
          [ exact E | simpl; apply upd_const with (c := c); exact E
          | first [ left; split; [reflexivity|]; simpl;
                    repeat match goal with E : c_phase _ = _ |- _ => rewrite E end; reflexivity
                  | right; simpl; auto ]
          | simpl; first [left; reflexivity | right; reflexivity] ]
    end.
Qed.

(* ------------------------------------------------------------------ *)
(* preservation of the invariant *)

Lemma get_set_next : forall n s j, get (set_next n s) j = get s j. Proof. reflexivity. Qed.
Lemma get_set_flog : forall n s j, get (set_flog n s) j = get s j. Proof. reflexivity. Qed.
Lemma get_set_closed : forall n s j, get (set_closed n s) j = get s j. Proof. reflexivity. Qed.
Lemma get_set_wg : forall n s j, get (set_wg n s) j = get s j. Proof. reflexivity. Qed.
Lemma get_set_acc : forall n s j, get (set_acc n s) j = get s j. Proof. reflexivity. Qed.
Lemma get_set_ctx : forall n s j, get (set_ctx n s) j = get s j. Proof. reflexivity. Qed.

Ltac gs := rewrite ?get_set_next, ?get_set_flog, ?get_set_closed, ?get_set_wg, ?get_set_acc, ?get_set_ctx in *.

Lemma path_of_conns : forall s s' k, conns s' = conns s -> path_of s' k = path_of s k.
Proof. intros s s' k H. unfold path_of, get. now rewrite H. Qed.

Lemma inv_path_pres : forall tr s l s' os,
  (forall k, proj k tr = path_of s k) -> step s l = Some (s', os) ->
  forall k, proj k (tr ++ [l]) = path_of s' k.
Proof.
  intros tr s l s' os HP H j. rewrite proj_snoc. apply step_eff in H.
  destruct H as [Hc Hl | k -> -> Hc | k c c' Hg Hc Hd _].
  - unfold is_life. rewrite Hl, app_nil_r, HP. symmetry. now apply path_of_conns.
  - unfold is_life. simpl. unfold path_of at 1. unfold get. rewrite Hc. rewrite HP.
    unfold path_of, get.
    destruct (Nat.eqb_spec (length (conns s)) j) as [<-|N].
    + rewrite nth_error_app2 by lia. rewrite Nat.sub_diag. simpl.
      assert (E : nth_error (conns s) (length (conns s)) = None) by (apply nth_error_None; lia).
      now rewrite E.
    + rewrite app_nil_r. destruct (Nat.ltb_spec j (length (conns s))) as [L|L].
      * now rewrite nth_error_app1.
      * rewrite nth_error_app2 by lia. assert (E : nth_error (conns s) j = None) by (apply nth_error_None; lia).
        rewrite E. destruct (j - length (conns s)) as [|d] eqn:E2; [lia|]. simpl. now destruct d.
  - unfold path_of at 1. unfold get. rewrite Hc.
    destruct (Nat.eq_dec j k) as [->|N].
    + rewrite nth_upd_same. fold (get s k). rewrite Hg. simpl. rewrite HP. unfold path_of. rewrite Hg.
      destruct Hd as [[Hl Hp] | [Hl [Hp _]]].
      * unfold is_life. rewrite Hl, Nat.eqb_refl. now rewrite Hp.
      * unfold is_life. rewrite Hl, app_nil_r. now rewrite Hp.
    + rewrite nth_upd_other by exact N. rewrite HP. unfold path_of, get.
      assert (E : is_life j l = false).
      { unfold is_life. destruct Hd as [[Hl _] | [Hl _]]; rewrite Hl; [|reflexivity].
        destruct (Nat.eqb_spec k j); [congruence|reflexivity]. }
      now rewrite E, app_nil_r.
Qed.

Ltac split_get j k Hj :=
  rewrite get_set_conn in Hj; destruct (Nat.eqb_spec j k) as [->|?].

Ltac split_new s j Hj :=
  rewrite get_app_new in Hj; destruct (Nat.ltb_spec j (length (conns s)));
  [ | destruct (Nat.eqb_spec j (length (conns s))); [inversion Hj; subst; clear Hj | discriminate] ].

Lemma inv_data_pres : forall tr s l s' os, Inv tr s -> step s l = Some (s', os) ->
  forall k c, get s' k = Some c -> data_ok (next_svc s') c.
Proof.
  intros tr s l s' os I H j cj Hj. pose proof (inv_data _ _ I) as HD.
  destruct l; inv_step H; gs; simpl next_svc;
    try (now apply HD with (k := j));
    try (match goal with E : get s ?k = Some ?c |- _ =>
           split_get j k Hj;
           [ rewrite E in Hj; simpl in Hj; inversion Hj; subst; clear Hj;
             specialize (HD _ _ E); unfold data_ok in *; simpl;
             repeat match goal with E : c_phase _ = _ |- _ => rewrite E in * end
           | try apply data_ok_mono; now apply HD with (k := j) ]
         end).
  all: try exact HD.
  all: try (repeat match goal with
            | H : _ /\ _ |- _ => destruct H
            | H : exists _, _ |- _ => destruct H
            end; repeat split; eauto 10; fail).
  split_new s j Hj; [now apply HD with (k := j) | unfold data_ok; simpl; auto].
Qed.

Definition svc_of (s : state) (j : nat) : option nat := match get s j with Some c => c_svc c | None => None end.

Lemma inv_inj_pres : forall tr s l s' os, Inv tr s -> step s l = Some (s', os) ->
  forall j k cj ck i, get s' j = Some cj -> get s' k = Some ck -> c_svc cj = Some i -> c_svc ck = Some i -> j = k.
Proof.
  intros tr s l s' os I H.
  pose proof (inv_data _ _ I) as HD. pose proof (inv_inj _ _ I) as HI.
  assert (HI' : forall j k i, svc_of s j = Some i -> svc_of s k = Some i -> j = k).
  { intros j k i. unfold svc_of. destruct (get s j) eqn:Ej; [|discriminate]. destruct (get s k) eqn:Ek; [|discriminate].
    intros; eapply HI; eauto. }
  assert (HB : forall j i, svc_of s j = Some i -> i < next_svc s).
  { intros j i. unfold svc_of. destruct (get s j) eqn:Ej; [|discriminate]. intros E.
    specialize (HD _ _ Ej). unfold data_ok in HD. destruct (c_phase c);
      repeat match goal with
             | H : _ /\ _ |- _ => destruct H
             | H : exists _, _ |- _ => destruct H
             end; congruence. }
  assert (G : forall j k i, svc_of s' j = Some i -> svc_of s' k = Some i -> j = k).
  { apply step_eff in H. destruct H as [Hc Hl | k0 -> -> Hc | k0 c c' Hg Hc Hd Hs].
    - intros j k i. unfold svc_of, get. rewrite Hc. apply HI'.
    - assert (E : forall j, svc_of s' j = svc_of s j).
      { intros j. unfold svc_of, get. rewrite Hc.
        destruct (Nat.ltb_spec j (length (conns s))) as [L|L].
        - now rewrite nth_error_app1.
        - rewrite nth_error_app2 by lia. assert (E : nth_error (conns s) j = None) by (apply nth_error_None; lia).
          rewrite E. destruct (j - length (conns s)) as [|d]; simpl; [reflexivity | now destruct d]. }
      intros j k i. rewrite !E. apply HI'.
    - assert (E : forall j, svc_of s' j = if j =? k0 then c_svc c' else svc_of s j).
      { intros j. unfold svc_of, get. rewrite Hc. destruct (Nat.eqb_spec j k0) as [->|N].
        - rewrite nth_upd_same. fold (get s k0). now rewrite Hg.
        - now rewrite nth_upd_other. }
      assert (Ek : svc_of s k0 = c_svc c) by (unfold svc_of; now rewrite Hg).
      intros j k i. rewrite !E.
      destruct (Nat.eqb_spec j k0) as [->|Nj]; destruct (Nat.eqb_spec k k0) as [->|Nk]; try reflexivity.
      + destruct Hs as [Hs|Hs]; rewrite Hs; intros A B.
        * apply HI' with (i := i); congruence.
        * apply HB in B. inversion A. lia.
      + destruct Hs as [Hs|Hs]; rewrite Hs; intros A B.
        * apply HI' with (i := i); congruence.
        * apply HB in A. inversion B. lia.
      + apply HI'. }
  intros j k cj ck i Hj Hk Sj Sk. apply (G j k i); unfold svc_of; [now rewrite Hj | now rewrite Hk].
Qed.

Ltac rw_phase := repeat match goal with E : c_phase _ = _ |- _ => rewrite E in * end.

Lemma inv_wg_pres : forall tr s l s' os, Inv tr s -> step s l = Some (s', os) -> wg s' = live (conns s').
Proof.
  intros tr s l s' os I H. pose proof (inv_wg _ _ I) as HW.
  destruct l; inv_step H; simpl; try exact HW;
    try (rewrite live_app; unfold live at 2; simpl; lia);
    try match goal with
    | E : get s ?k = Some ?c |- context [upd_nth ?k ?f _] =>
        pose proof (live_upd (conns s) k f c E) as L; simpl in L; rw_phase; simpl in L;
        try destruct (is_done (c_phase c)); lia
    end.
  congruence.
Qed.

Lemma inv_closed_pres : forall tr s l s' os, Inv tr s -> step s l = Some (s', os) ->
  forall k, count_occ Nat.eq_dec (closed_conns s') k = closes_of s' k.
Proof.
  intros tr s l s' os I H j. pose proof (inv_closed _ _ I) as HC. pose proof (inv_fix _ _ I) as HF.
  destruct l; inv_step H; try congruence; simpl closed_conns; unfold closes_of; gs;
    try (specialize (HC j); unfold closes_of in HC; exact HC);
    try (rewrite count_occ_snoc);
    try (match goal with E : get s ?k = Some ?c |- _ =>
           rewrite get_set_conn; specialize (HC j); unfold closes_of in HC;
           destruct (Nat.eqb_spec j k) as [->|N];
           [ rewrite ?Nat.eqb_refl; rewrite E in *; simpl; rw_phase; simpl in *; lia
           | try (destruct (Nat.eqb_spec k j); [congruence|]); lia ]
         end).
  rewrite get_app_new. specialize (HC j). unfold closes_of in HC.
  destruct (Nat.ltb_spec j (length (conns s))) as [L|L]; [exact HC|].
  assert (E : get s j = None) by (apply get_none_ge; lia). rewrite E in HC.
  destruct (Nat.eqb_spec j (length (conns s))); simpl; exact HC.
Qed.

Lemma inv_ret_pres : forall tr s l s' os, Inv tr s -> step s l = Some (s', os) ->
  returned s' = true -> wg s' = 0.
Proof.
  intros tr s l s' os I H. pose proof (inv_ret _ _ I) as HR. unfold returned in *.
  destruct l; inv_step H; simpl; try exact HR; try discriminate;
    try (rewrite ?Heqa in *; discriminate); try (intros _; assumption).
  all: intros R; specialize (HR R); discriminate.
Qed.

Lemma inv_flog_pres : forall tr s l s' os, Inv tr s -> step s l = Some (s', os) ->
  forall k i a st, In (k, i, a, st) (finish_log s') ->
    exists c, get s' k = Some c /\ c_svc c = Some i /\ c_asg c = Some a /\
              (c_phase c = PFinished st \/ c_phase c = PDoneOk st).
Proof.
  intros tr s l s' os I H j i a st Hin. pose proof (inv_flog _ _ I) as HL.
  apply step_eff in H as HE.
  assert (OLD : In (j, i, a, st) (finish_log s) ->
                exists c, get s' j = Some c /\ c_svc c = Some i /\ c_asg c = Some a /\
                          (c_phase c = PFinished st \/ c_phase c = PDoneOk st)).
  { intros Hold. destruct (HL _ _ _ _ Hold) as [c0 [G0 [S0 [A0 P0]]]].
    destruct l; inv_step H; gs; try (exists c0; now repeat split);
      try (match goal with E : get s ?k = Some ?c |- _ =>
             rewrite get_set_conn; destruct (Nat.eqb_spec j k) as [->|N];
             [ rewrite E in *; inversion G0; subst c0; simpl; eexists; split; [reflexivity|]; simpl;
               rw_phase; repeat split; auto; destruct P0; try discriminate; try congruence; auto
             | exists c0; now repeat split ]
           end).
    all: try (match goal with P : PFinished _ = PFinished _ |- _ => inversion P; subst; auto end).
    rewrite get_app_new. apply get_some_lt in G0 as L. apply Nat.ltb_lt in L. rewrite L.
    exists c0; now repeat split. }
  destruct l; try (apply OLD; inv_step H; exact Hin).
  inv_step H. simpl in Hin. apply in_app_or in Hin. destruct Hin as [Hin|[Hin|[]]]; [apply OLD; exact Hin|].
  inversion Hin; subst. gs. rewrite get_set_conn, Nat.eqb_refl, Heqo. simpl.
  eexists; split; [reflexivity|]. simpl. auto.
Qed.

Lemma inv_fix_pres : forall s l s' os, step s l = Some (s', os) -> fix_F10 s' = fix_F10 s.
Proof. intros s l s' os H. destruct l; inv_step H; simpl; congruence. Qed.

Lemma inv_init : Inv [] (init true).
Proof.
  constructor; simpl; auto; try discriminate.
  - intros k. unfold path_of, get. simpl. now destruct k.
  - intros k c H. unfold get in H. simpl in H. destruct k; discriminate.
  - intros j k cj ck i H. unfold get in H. simpl in H. destruct j; discriminate.
  - intros k. unfold closes_of, get. simpl. now destruct k.
  - intros k i a st [].
Qed.

Lemma inv_step_pres : forall tr s l s' os, Inv tr s -> step s l = Some (s', os) -> Inv (tr ++ [l]) s'.
Proof.
  intros tr s l s' os I H. constructor.
  - rewrite (inv_fix_pres _ _ _ _ H). apply (inv_fix _ _ I).
  - eapply inv_path_pres; eauto. apply (inv_path _ _ I).
  - eapply inv_data_pres; eauto.
  - eapply inv_inj_pres; eauto.
  - eapply inv_wg_pres; eauto.
  - eapply inv_closed_pres; eauto.
  - eapply inv_ret_pres; eauto.
  - eapply inv_flog_pres; eauto.
Qed.

Theorem reach_inv : forall tr s, reach tr s -> Inv tr s.
Proof.
  apply reach_ind; [exact inv_init|]. intros tr s l s' os _ I H. eapply inv_step_pres; eauto.
Qed.


(* ------------------------------------------------------------------ *)
(* consequences *)

Definition label_eq_dec : forall a b : label, {a = b} + {a <> b}.
Proof. repeat decide equality. Defined.

Lemma in_proj : forall k l tr, In l tr -> life l = Some k -> In l (proj k tr).
Proof.
  intros k l tr H L. unfold proj. apply filter_In. split; [exact H|]. unfold is_life. rewrite L. apply Nat.eqb_refl.
Qed.

Lemma in_path : forall tr s k l, reach tr s -> In l tr -> life l = Some k -> In l (path_of s k).
Proof. intros tr s k l R H L. rewrite <- (inv_path _ _ (reach_inv _ _ R)). now apply in_proj. Qed.

Lemma path_in_tr : forall tr s k l, reach tr s -> In l (path_of s k) -> In l tr.
Proof.
  intros tr s k l R H. rewrite <- (inv_path _ _ (reach_inv _ _ R)) in H. unfold proj in H.
  apply filter_In in H. tauto.
Qed.

Lemma count_filter : forall (f : label -> bool) tr l, f l = true ->
  count_occ label_eq_dec (filter f tr) l = count_occ label_eq_dec tr l.
Proof.
  intros f tr l Hf. induction tr as [|x tr IH]; simpl; [reflexivity|].
  destruct (f x) eqn:E; simpl; destruct (label_eq_dec x l) as [->|N]; try congruence.
Qed.

Lemma path_nodup : forall k p, NoDup (path k p).
Proof.
  intros k p. destruct p; simpl; repeat constructor; simpl; intuition discriminate.
Qed.

Lemma life_count_le1 : forall tr s l k, reach tr s -> life l = Some k -> count_occ label_eq_dec tr l <= 1.
Proof.
  intros tr s l k R L. rewrite <- (count_filter (is_life k)).
  - fold (proj k tr). rewrite (inv_path _ _ (reach_inv _ _ R)).
    apply (proj1 (NoDup_count_occ label_eq_dec _)). unfold path_of. destruct (get s k); [apply path_nodup|constructor].
  - unfold is_life. rewrite L. apply Nat.eqb_refl.
Qed.

Lemma count_in_1 : forall tr s l k, reach tr s -> life l = Some k -> In l tr -> count_occ label_eq_dec tr l = 1.
Proof.
  intros tr s l k R L H. pose proof (life_count_le1 _ _ _ _ R L).
  apply (count_occ_In label_eq_dec) in H. lia.
Qed.

(* --- C20: fresh service ------------------------------------------------ *)

Lemma fresh_service : forall tr s, reach tr s ->
  (forall k c, get s k = Some c -> started (c_phase c) = true ->
     In (NewSvc k) tr /\ exists i, c_svc c = Some i /\ c_asg c = Some i /\ c_used c = Some i /\ i < next_svc s) /\
  (forall j k cj ck i, get s j = Some cj -> get s k = Some ck -> c_svc cj = Some i -> c_svc ck = Some i -> j = k) /\
  (forall k s' os, step s (NewSvc k) = Some (s', os) ->
     os = [ONewSvc (next_svc s)] /\ next_svc s' = S (next_svc s) /\
     (exists c', get s' k = Some c' /\ c_svc c' = Some (next_svc s)) /\
     (forall j cj, get s j = Some cj -> c_svc cj <> Some (next_svc s))) /\
  (forall k s' os, step s (StartSrv k) = Some (s', os) ->
     exists c c' i, get s k = Some c /\ c_svc c = Some i /\ c_asg c = Some i /\
                    get s' k = Some c' /\ c_svc c' = Some i /\ c_used c' = Some i).
Proof.
  intros tr s R. pose proof (reach_inv _ _ R) as I. repeat split.
  - apply (path_in_tr _ _ k _ R). unfold path_of. rewrite H. destruct (c_phase c); simpl in *; try discriminate; auto.
  - pose proof (inv_data _ _ I _ _ H) as D. unfold data_ok in D.
    destruct (c_phase c); simpl in *; try discriminate;
      destruct D as [i [A [B [C E]]]]; exists i; auto.
  - apply (inv_inj _ _ I).
  - inv_step H. reflexivity.
  - inv_step H. reflexivity.
  - inv_step H. gs. rewrite get_set_conn, Nat.eqb_refl, Heqo. simpl. eexists; split; reflexivity.
  - intros j cj Hj E. pose proof (inv_data _ _ I _ _ Hj) as D. unfold data_ok in D.
    destruct (c_phase cj); repeat match goal with
                                  | H : _ /\ _ |- _ => destruct H
                                  | H : exists _, _ |- _ => destruct H
                                  end; try congruence;
      match goal with A : c_svc cj = Some ?x, B : ?x < _ |- _ => rewrite A in E; inversion E; lia end.
  - intros k s' os H. inv_step H. pose proof (inv_data _ _ I _ _ Heqo) as D. unfold data_ok in D.
    rewrite Heqp in D. destruct D as [[i [A [B C]]] _].
    exists c, (with_started c), i. rewrite get_set_conn, Nat.eqb_refl, Heqo. simpl. repeat split; auto.
Qed.

(* --- C20: Finish exactly once, after the exit ------------------------- *)

Lemma finish_enabled_state : forall tr s k s' os, reach tr s -> step s (Finish k) = Some (s', os) ->
  exists c st i, get s k = Some c /\ c_phase c = PExited st /\ c_svc c = Some i /\ c_asg c = Some i /\
                 c_used c = Some i /\ os = [OFinish i i st] /\ In (k, i, i, st) (finish_log s') /\
                 In (SrvStop k st) tr /\ In (SrvExit k st) tr /\ In (StartSrv k) tr /\ In (AssignerOk k) tr /\ In (NewSvc k) tr.
Proof.
  intros tr s k s' os R H. pose proof (reach_inv _ _ R) as I. inv_step H.
  pose proof (inv_data _ _ I _ _ Heqo) as D. unfold data_ok in D. rewrite Heqp in D.
  destruct D as [i [A [B [C E]]]]. rewrite A in Heqo0. inversion Heqo0; subst. rewrite C in Heqo1. inversion Heqo1; subst.
  exists c, st, n0. repeat split; auto.
  - simpl. apply in_or_app. right. now left.
  - apply (path_in_tr _ _ k _ R). unfold path_of. rewrite Heqo, Heqp. simpl. tauto.
  - apply (path_in_tr _ _ k _ R). unfold path_of. rewrite Heqo, Heqp. simpl. tauto.
  - apply (path_in_tr _ _ k _ R). unfold path_of. rewrite Heqo, Heqp. simpl. tauto.
  - apply (path_in_tr _ _ k _ R). unfold path_of. rewrite Heqo, Heqp. simpl. tauto.
  - apply (path_in_tr _ _ k _ R). unfold path_of. rewrite Heqo, Heqp. simpl. tauto.
Qed.

Lemma assigner_ok_returns : forall s k s' os, step s (AssignerOk k) = Some (s', os) ->
  exists c i c', get s k = Some c /\ c_svc c = Some i /\ os = [OAssigner i true] /\
                 get s' k = Some c' /\ c_svc c' = Some i /\ c_asg c' = Some i.
Proof.
  intros s k s' os H. inv_step H. exists c, n, (with_asg c).
  rewrite get_set_conn, Nat.eqb_refl, Heqo. simpl. repeat split; auto.
Qed.

(* --- C20: the first stop cause wins ----------------------------------- *)

Lemma stop_first_cause : forall tr s, reach tr s ->
  (forall k st st', In (SrvStop k st) tr -> In (SrvStop k st') tr -> st = st') /\
  (forall k st t1 t2, tr = t1 ++ SrvStop k st :: t2 ->
     exists s1 c, reach t1 s1 /\ get s1 k = Some c /\ c_phase c = PRunning /\ trigger (ctx_done s1) c st = true /\
                  (forall st', ~ In (SrvStop k st') t1)) /\
  (forall k st, In (SrvExit k st) tr -> In (SrvStop k st) tr).
Proof.
  intros tr s R. split; [|split].
  - intros k st st' A B.
    pose proof (in_path _ _ k _ R A eq_refl) as PA. pose proof (in_path _ _ k _ R B eq_refl) as PB.
    unfold path_of in *. destruct (get s k) as [c|]; [|destruct PA].
    destruct (c_phase c); simpl in PA, PB;
      repeat match goal with H : _ \/ _ |- _ => destruct H end; try discriminate; try contradiction; congruence.
  - intros k st t1 t2 E. subst tr. apply reach_app_inv in R. destruct R as [s1 [R1 [os R2]]].
    cbn [run] in R2. destruct (step s1 (SrvStop k st)) as [[s2 o2]|] eqn:ES; [|discriminate].
    inv_step ES. exists s1, c. repeat split; auto.
    intros st' X. pose proof (in_path _ _ k _ R1 X eq_refl) as PX. unfold path_of in PX. rewrite Heqo, Heqp in PX.
    simpl in PX. intuition discriminate.
  - intros k st A. pose proof (in_path _ _ k _ R A eq_refl) as PA. apply (path_in_tr _ _ k _ R).
    unfold path_of in *. destruct (get s k) as [c|]; [|destruct PA].
    destruct (c_phase c); simpl in PA |- *;
      repeat match goal with H : _ \/ _ |- _ => destruct H end; try discriminate; try contradiction;
      match goal with H : SrvExit _ _ = SrvExit _ _ |- _ => inversion H; subst end; tauto.
Qed.

Lemma finish_once_after_exit : forall tr s, reach tr s ->
  (forall k, count_occ label_eq_dec tr (Finish k) <= 1) /\
  (forall k t1 t2, tr = t1 ++ Finish k :: t2 ->
     exists s1 s2 c st i,
       reach t1 s1 /\ step s1 (Finish k) = Some (s2, [OFinish i i st]) /\
       get s1 k = Some c /\ c_phase c = PExited st /\ c_svc c = Some i /\ c_asg c = Some i /\ c_used c = Some i /\
       In (SrvStop k st) t1 /\ (forall st', In (SrvStop k st') (t1 ++ Finish k :: t2) -> st' = st) /\
       In (SrvExit k st) t1 /\ In (StartSrv k) t1 /\ In (AssignerOk k) t1 /\ In (NewSvc k) t1 /\
       ~ In (Finish k) t1 /\ ~ In (Finish k) t2 /\ In (k, i, i, st) (finish_log s2)) /\
  (returned s = true -> forall k, In (StartSrv k) tr -> count_occ label_eq_dec tr (Finish k) = 1).
Proof.
  intros tr s R. repeat split.
  - intros k. now apply (life_count_le1 _ s _ k R).
  - intros k t1 t2 E. subst tr.
    pose proof (life_count_le1 _ _ (Finish k) k R eq_refl) as C1.
    rewrite count_occ_app in C1. rewrite (count_occ_cons_eq label_eq_dec t2 (eq_refl (Finish k))) in C1.
    pose proof R as R0.
    apply reach_app_inv in R. destruct R as [s1 [R1 [os R2]]]. cbn [run] in R2.
    destruct (step s1 (Finish k)) as [[s2 o2]|] eqn:ES; [|discriminate].
    destruct (finish_enabled_state _ _ _ _ _ R1 ES) as [c [st [i H]]].
    destruct H as [G [P [A [B [U [O [L [X0 [X1 [X2 [X3 X4]]]]]]]]]]]. subst o2.
    exists s1, s2, c, st, i. repeat split; auto.
    + intros st' Y. destruct (stop_first_cause _ _ R0) as [Q _]. apply (Q k); [exact Y|].
      apply in_or_app. now left.
    + intros H. apply (count_occ_In label_eq_dec) in H. lia.
    + intros H. apply (count_occ_In label_eq_dec) in H. lia.
  - intros Ret k H. apply (count_in_1 _ s (Finish k) k R eq_refl).
    pose proof (reach_inv _ _ R) as I.
    pose proof (in_path _ _ k _ R H eq_refl) as P. unfold path_of in P.
    destruct (get s k) as [c|] eqn:G; [|destruct P].
    pose proof (inv_ret _ _ I Ret) as W. rewrite (inv_wg _ _ I) in W.
    pose proof (live_zero_done _ W k c G) as D.
    apply (path_in_tr _ _ k _ R). unfold path_of. rewrite G.
    destruct (c_phase c); simpl in *; try discriminate; intuition discriminate.
Qed.

(* --- C20: Loop returns last ------------------------------------------- *)

Lemma all_done_when_wg0 : forall tr s, reach tr s -> wg s = 0 ->
  forall k c, get s k = Some c -> is_done (c_phase c) = true.
Proof.
  intros tr s R W k c G. pose proof (reach_inv _ _ R) as I. rewrite (inv_wg _ _ I) in W.
  exact (live_zero_done _ W k c G).
Qed.

Lemma done_path : forall tr s k, reach tr s -> wg s = 0 -> In (Accept k) tr ->
  In (ConnDone k) tr /\ (In (StartSrv k) tr -> In (Finish k) tr).
Proof.
  intros tr s k R W H. pose proof (in_path _ _ k _ R H eq_refl) as P. unfold path_of in P.
  destruct (get s k) as [c|] eqn:G; [|destruct P].
  pose proof (all_done_when_wg0 _ _ R W k c G) as D. split.
  - apply (path_in_tr _ _ k _ R). unfold path_of. rewrite G. destruct (c_phase c); simpl in *; try discriminate; tauto.
  - intros S. pose proof (in_path _ _ k _ R S eq_refl) as P2. unfold path_of in P2. rewrite G in P2.
    apply (path_in_tr _ _ k _ R). unfold path_of. rewrite G.
    destruct (c_phase c); simpl in *; try discriminate; intuition discriminate.
Qed.

Lemma returned_frozen : forall tr s l s' os, reach tr s -> returned s = true -> step s l = Some (s', os) ->
  life l = None /\ returned s' = true.
Proof.
  intros tr s l s' os R Ret H. pose proof (reach_inv _ _ R) as I.
  pose proof (inv_ret _ _ I Ret) as W. unfold returned in *.
  destruct l; inv_step H; simpl; try (split; [reflexivity|assumption]); try discriminate;
    try (rewrite Heqa in Ret; discriminate);
    try (pose proof (all_done_when_wg0 _ _ R W _ _ Heqo) as D; rewrite Heqp in D; discriminate);
    try congruence.
Qed.

Lemma returned_run_frozen : forall t tr s s' os, reach tr s -> returned s = true -> run s t = Some (s', os) ->
  forall l, In l t -> life l = None.
Proof.
  induction t as [|x t IH]; intros tr s s' os R Ret H l Hin; [destruct Hin|].
  cbn [run] in H. destruct (step s x) as [[s1 o1]|] eqn:E; [|discriminate].
  destruct (run s1 t) as [[s2 o2]|] eqn:E2; [|discriminate].
  destruct (returned_frozen _ _ _ _ _ R Ret E) as [L Ret1].
  destruct Hin as [<-|Hin]; [exact L|].
  eapply (IH (tr ++ [x]) s1); eauto. eapply reach_snoc; eauto.
Qed.

Lemma waiting_in_tr : forall tr s e, reach tr s -> acc s = Waiting e -> In (AcceptErr e) tr.
Proof.
  intros tr. induction tr as [|x tr IH] using rev_ind; intros s e R A.
  - destruct R as [os R]. simpl in R. inversion R; subst. discriminate.
  - apply reach_snoc_inv in R. destruct R as [s0 [os [R0 H]]]. apply in_or_app.
    destruct (label_eq_dec x (AcceptErr e)) as [->|N]; [right; now left|]. left.
    destruct x; inv_step H; simpl in A; try (eapply IH; eauto; fail); try congruence.
Qed.

Lemma returns_last : forall tr s, reach tr s ->
  (forall v s' os, step s (LoopReturn v) = Some (s', os) ->
     (forall k c, get s k = Some c -> is_done (c_phase c) = true) /\
     (forall k, In (Accept k) tr -> In (ConnDone k) tr /\ (In (StartSrv k) tr -> In (Finish k) tr)) /\
     (exists e, acc s = Waiting e /\ In (AcceptErr e) tr /\ (v = RNil <-> e = EClosing)) /\
     os = [OReturn v] /\ returned s' = true) /\
  (forall v t1 t2, tr = t1 ++ LoopReturn v :: t2 -> forall l, In l t2 -> life l = None) /\
  (forall v, acc s = Returned v -> In (LoopReturn v) tr).
Proof.
  intros tr s R. split; [|split].
  - intros v s' os H. inv_step H. repeat split.
    + intros k c G. eapply all_done_when_wg0; eauto.
    + eapply done_path; eauto.
    + eapply done_path; eauto.
    + exists e. split; [reflexivity|]. split.
      * eapply waiting_in_tr; eauto.
      * destruct v, e; simpl in *; split; intros; try discriminate; reflexivity.
  - intros v t1 t2 E. subst tr. apply reach_app_inv in R. destruct R as [s1 [R1 [os R2]]].
    cbn [run] in R2. destruct (step s1 (LoopReturn v)) as [[s2 o2]|] eqn:ES; [|discriminate].
    destruct (run s2 t2) as [[s3 o3]|] eqn:E3; [|discriminate].
    assert (Ret : returned s2 = true) by (inv_step ES; reflexivity).
    eapply (returned_run_frozen t2 (t1 ++ [LoopReturn v]) s2); eauto. eapply reach_snoc; eauto.
  - intros v. revert s R. induction tr as [|x tr IH] using rev_ind; intros s R A.
    + destruct R as [os R]. simpl in R. inversion R; subst. discriminate.
    + apply reach_snoc_inv in R. destruct R as [s0 [os [R0 H]]]. apply in_or_app.
      destruct (label_eq_dec x (LoopReturn v)) as [->|N]; [right; now left|]. left.
      destruct x; inv_step H; simpl in A; try (eapply IH; eauto; fail); try congruence.
Qed.

(* --- C20: the context end stops every running server ---------------- *)

Lemma conns_enabled_nil : forall hooks ctx cs off, conns_enabled hooks ctx off cs = [] ->
  forall k c, nth_error cs k = Some c -> conn_enabled hooks ctx (off + k) c = [].
Proof.
  induction cs as [|x cs IH]; intros off H [|k] c E; simpl in E; try discriminate.
  - inversion E; subst. simpl in H. apply app_eq_nil in H. rewrite Nat.add_0_r. tauto.
  - simpl in H. apply app_eq_nil in H. destruct H as [_ H]. rewrite <- Nat.add_succ_comm. exact (IH (S off) H k c E).
Qed.

Lemma conns_enabled_in : forall hooks ctx cs off k c l, nth_error cs k = Some c ->
  In l (conn_enabled hooks ctx (off + k) c) -> In l (conns_enabled hooks ctx off cs).
Proof.
  induction cs as [|x cs IH]; intros off [|k] c l E H; simpl in E; try discriminate.
  - inversion E; subst. simpl. apply in_or_app. left. now rewrite Nat.add_0_r in H.
  - simpl. apply in_or_app. right. rewrite <- Nat.add_succ_comm in H. exact (IH (S off) k c l E H).
Qed.

Lemma quiescent_conn : forall s k c, quiescent s = true -> get s k = Some c ->
  conn_enabled false (ctx_done s) k c = [].
Proof.
  intros s k c Q G. unfold quiescent, enabled_internal, enabled in Q.
  destruct (_ ++ _) eqn:E in Q; [|discriminate]. apply app_eq_nil in E. destruct E as [_ E].
  exact (conns_enabled_nil _ _ _ 0 E k c G).
Qed.

Lemma ctx_stops_all : forall tr s, reach tr s -> ctx_done s = true ->
  (* every server still running is about to be stopped: the watcher's Stop is enabled *)
  (forall k c, get s k = Some c -> c_phase c = PRunning ->
     exists s', step s (SrvStop k StStopped) = Some (s', []) /\ In (SrvStop k StStopped) (enabled_internal s)) /\
  (* a server that has stopped exits as soon as its handlers have returned *)
  (forall k c st, get s k = Some c -> c_phase c = PStopping st -> c_busy c = 0 ->
     exists s', step s (SrvExit k st) = Some (s', [])) /\
  (* an accepter that honours ctx fails with a closing error, for which Loop returns nil *)
  (acc s = Accepting -> In (AcceptErr EClosing) (enabled_internal s) /\ retv_of EClosing = RNil) /\
  (* at quiescence: only stopped servers with a handler still running are left *)
  (quiescent s = true ->
     (forall k c, get s k = Some c -> is_done (c_phase c) = true \/ (exists st, c_phase c = PStopping st /\ c_busy c > 0)) /\
     acc s <> Accepting /\
     ((forall k c, get s k = Some c -> c_busy c = 0) -> returned s = true)).
Proof.
  intros tr s R C. pose proof (reach_inv _ _ R) as I. repeat split.
  - intros k c G P. exists (set_conn k (with_phase (PStopping StStopped)) s). split.
    + unfold step. rewrite G, P, C. reflexivity.
    + unfold enabled_internal, enabled. apply in_or_app. right.
      apply (conns_enabled_in false (ctx_done s) (conns s) 0 k c _ G). simpl.
      unfold conn_enabled. rewrite P, C. simpl. now left.
  - intros k c st G P B. unfold step. rewrite G, P, B. destruct (status_eq_dec st st); [|congruence]. eexists; reflexivity.
  - unfold enabled_internal, enabled. rewrite H, C. simpl. now left.
  - intros k c G. pose proof (quiescent_conn _ _ _ H G) as E. unfold conn_enabled in E. rewrite C in E.
    destruct (c_phase c) eqn:P; try discriminate; auto. right. exists st. split; [reflexivity|].
    destruct (c_busy c); [discriminate|lia].
  - intros A. unfold quiescent, enabled_internal, enabled in H. rewrite A, C in H. discriminate.
  - intros NB. unfold returned. destruct (acc s) eqn:A; [| |reflexivity].
    + unfold quiescent, enabled_internal, enabled in H. rewrite A, C in H. discriminate.
    + assert (W : wg s = 0).
      { rewrite (inv_wg _ _ I). unfold live.
        assert (F : forall cs, (forall k c, nth_error cs k = Some c -> is_done (c_phase c) = true) ->
                               filter (fun c => negb (is_done (c_phase c))) cs = []).
        { induction cs as [|x cs IH]; intros HA; [reflexivity|]. simpl.
          rewrite (HA 0 x eq_refl). simpl. apply IH. intros k c E. exact (HA (S k) c E). }
        rewrite F; [reflexivity|]. intros k c G.
        pose proof (quiescent_conn _ _ _ H G) as E. unfold conn_enabled in E. rewrite C in E.
        specialize (NB _ _ G).
        destruct (c_phase c) eqn:P; try discriminate; auto.
        rewrite NB in E. discriminate. }
      unfold quiescent, enabled_internal, enabled in H. rewrite A, W in H. discriminate.
Qed.

(* --- C20: a failing Assigner ------------------------------------------ *)

Lemma assigner_failure : forall tr s k, reach tr s -> In (AssignerFail k) tr ->
  ~ In (AssignerOk k) tr /\ ~ In (StartSrv k) tr /\ (forall st, ~ In (SrvExit k st) tr) /\ ~ In (Finish k) tr /\
  (forall i a st, ~ In (k, i, a, st) (finish_log s)) /\
  count_occ Nat.eq_dec (closed_conns s) k = 1 /\
  (exists c i, get s k = Some c /\ c_svc c = Some i /\ c_asg c = None /\ c_used c = None).
Proof.
  intros tr s k R H. pose proof (reach_inv _ _ R) as I.
  pose proof (in_path _ _ k _ R H eq_refl) as P. unfold path_of in P.
  destruct (get s k) as [c|] eqn:G; [|destruct P].
  assert (PH : c_phase c = PFailed \/ c_phase c = PDoneFail).
  { destruct (c_phase c); simpl in P; intuition discriminate. }
  assert (NP : forall l, life l = Some k -> In l tr -> In l (path k (c_phase c))).
  { intros l L Hin. pose proof (in_path _ _ k _ R Hin L) as Q. unfold path_of in Q. now rewrite G in Q. }
  repeat split.
  - intros X. apply NP in X; [|reflexivity]. destruct PH as [E|E]; rewrite E in X; simpl in X; intuition discriminate.
  - intros X. apply NP in X; [|reflexivity]. destruct PH as [E|E]; rewrite E in X; simpl in X; intuition discriminate.
  - intros st X. apply NP in X; [|reflexivity]. destruct PH as [E|E]; rewrite E in X; simpl in X; intuition discriminate.
  - intros X. apply NP in X; [|reflexivity]. destruct PH as [E|E]; rewrite E in X; simpl in X; intuition discriminate.
  - intros i a st X. destruct (inv_flog _ _ I _ _ _ _ X) as [c0 [G0 [_ [_ P0]]]]. rewrite G in G0. inversion G0; subst.
    destruct PH as [E|E]; rewrite E in P0; destruct P0; discriminate.
  - rewrite (inv_closed _ _ I). unfold closes_of. rewrite G. destruct PH as [E|E]; rewrite E; reflexivity.
  - pose proof (inv_data _ _ I _ _ G) as D. unfold data_ok in D.
    destruct PH as [E|E]; rewrite E in D; destruct D as [[i [A B]] [C U]]; exists c, i; auto.
Qed.

Lemma no_dangling : forall tr s, reach tr s -> returned s = true ->
  forall k, In (Accept k) tr -> count_occ Nat.eq_dec (closed_conns s) k = 1.
Proof.
  intros tr s R Ret k H. pose proof (reach_inv _ _ R) as I.
  pose proof (in_path _ _ k _ R H eq_refl) as P. unfold path_of in P.
  destruct (get s k) as [c|] eqn:G; [|destruct P].
  pose proof (all_done_when_wg0 _ _ R (inv_ret _ _ I Ret) k c G) as D.
  rewrite (inv_closed _ _ I). unfold closes_of. rewrite G. destruct (c_phase c); simpl in D; try discriminate; reflexivity.
Qed.

(* without the F10 fix the connection of a failing service is never closed *)
Definition f10_witness : list label :=
  [Accept 0; NewSvc 0; AssignerFail 0; ConnDone 0; AcceptErr EClosing; LoopReturn RNil].
Lemma refuted_without_F10 :
  exists s os, run (init false) f10_witness = Some (s, os) /\ returned s = true /\ In (AssignerFail 0) f10_witness /\
               count_occ Nat.eq_dec (closed_conns s) 0 = 0.
Proof. eexists; eexists. vm_compute. repeat split; auto. Qed.

(* ------------------------------------------------------------------ *)
(* non-vacuity: a concrete history with two connections (one served, with a call in flight when the
   context ends; one whose Assigner fails), ending with Loop returned *)
Definition ex_trace : list label :=
  [Accept 0; NewSvc 0; AssignerOk 0; StartSrv 0; Accept 1; CallStart 0; CtxEnd; AcceptErr EClosing; SrvStop 0 StStopped;
   NewSvc 1; AssignerFail 1; ConnDone 1; CallEnd 0; SrvExit 0 StStopped; Finish 0; ConnDone 0; LoopReturn RNil].
Definition ex_state : state :=
  match run (init true) ex_trace with Some (s, _) => s | None => init true end.

Example reach_nonvacuous : reach ex_trace ex_state.
Proof. eexists. vm_compute. reflexivity. Qed.
Example fresh_service_nonvacuous :
  (exists c, get ex_state 0 = Some c /\ started (c_phase c) = true) /\
  (exists tr s s' os, reach tr s /\ step s (NewSvc 1) = Some (s', os) /\ next_svc s = 1).
Proof.
  split; [eexists; vm_compute; split; reflexivity|].
  exists [Accept 0; NewSvc 0; Accept 1]. eexists; eexists; eexists. split; [eexists; vm_compute; reflexivity|].
  vm_compute. split; reflexivity.
Qed.
Example finish_nonvacuous :
  returned ex_state = true /\ In (StartSrv 0) ex_trace /\
  exists t1 t2, ex_trace = t1 ++ Finish 0 :: t2.
Proof.
  repeat split; [vm_compute; tauto|].
  exists [Accept 0; NewSvc 0; AssignerOk 0; StartSrv 0; Accept 1; CallStart 0; CtxEnd; AcceptErr EClosing; SrvStop 0 StStopped;
          NewSvc 1; AssignerFail 1; ConnDone 1; CallEnd 0; SrvExit 0 StStopped], [ConnDone 0; LoopReturn RNil]. reflexivity.
Qed.
Example returns_last_nonvacuous :
  exists tr s s' os, reach tr s /\ step s (LoopReturn RNil) = Some (s', os) /\ In (Accept 1) tr /\ In (StartSrv 0) tr.
Proof.
  exists (removelast ex_trace). eexists; eexists; eexists. split; [eexists; vm_compute; reflexivity|].
  vm_compute. repeat split; tauto.
Qed.
Example returns_err_nonvacuous :
  exists tr s s' os, reach tr s /\ step s (LoopReturn RErr) = Some (s', os).
Proof.
  exists [Accept 0; AcceptErr EOther; NewSvc 0; AssignerFail 0; ConnDone 0]. eexists; eexists; eexists.
  split; [eexists; vm_compute; reflexivity|]. vm_compute. reflexivity.
Qed.
Example ctx_stops_all_nonvacuous :
  exists tr s c, reach tr s /\ ctx_done s = true /\ quiescent s = true /\
                 get s 0 = Some c /\ c_phase c = PStopping StStopped /\ acc s = Waiting EClosing.
Proof.
  exists [Accept 0; NewSvc 0; AssignerOk 0; StartSrv 0; CallStart 0; CtxEnd; AcceptErr EClosing; SrvStop 0 StStopped].
  eexists; eexists. split; [eexists; vm_compute; reflexivity|]. vm_compute. repeat split.
Qed.
Example assigner_failure_nonvacuous : reach ex_trace ex_state /\ In (AssignerFail 1) ex_trace.
Proof. split; [exact reach_nonvacuous | vm_compute; tauto]. Qed.

(* the first cause wins: the peer closes while a handler runs, then the context ends; the server exits
   Closed, and an exit with status Stopped is not possible *)
Definition ex_first_cause : list label :=
  [Accept 0; NewSvc 0; AssignerOk 0; StartSrv 0; CallStart 0; PeerClose 0; SrvStop 0 StClosed; CtxEnd; CallEnd 0].
Example first_cause_nonvacuous :
  exists s, reach ex_first_cause s /\ ctx_done s = true /\
            step s (SrvExit 0 StStopped) = None /\ step s (SrvStop 0 StStopped) = None /\
            exists s' os, run s [SrvExit 0 StClosed; Finish 0] = Some (s', os) /\ os = [OFinish 0 0 StClosed].
Proof.
  eexists. split; [eexists; vm_compute; reflexivity|]. vm_compute. repeat split. eexists; eexists. split; reflexivity.
Qed.
