(* ErrsScan: the byte scanner of ErrsJson.v accepts only what the tree parser of Json.v accepts.
     ErrsJson.compact d = Some d' -> Json.valid d = true
   Every accepting run of the scanner is read back as a well-formed tree (JsonTree.cwf) whose exact
   text is the input; JsonTree.ctext_PV then gives the parse.  With ErrsMore.compact_models_agree:
     ErrsJson.compact d = Some d' -> Json.compact d = Some d'                     for EVERY d. *)
From Coq Require Import List NArith Bool Arith Lia.
From JV Require Import Bytes Json JsonProofs JsonPrint JsonTree JsonEq.
From JV Require Import ErrsJson ErrsJsonProofs.
From JV Require Errs ErrsProofs ErrsMore.
Import ListNotations.
Local Open Scope N_scope.

Definition mk (m : jmode) (st : list pstate) (d : N) : scanner := {| sc_mode := m; sc_stack := st; sc_depth := d |}.

(* the run accepts: no step fails and the input is complete at the end *)
Fixpoint accept (s : scanner) (bs : bytes) : bool :=
  match bs with
  | [] => eof_ok s
  | c :: r => match jstep s c with SOk s' _ => accept s' r | SErr => false end
  end.

Lemma compact_from_accept n : forall bs s out, (length bs <= n)%nat -> compact_from s bs = Some out -> accept s bs = true.
Proof.
  induction n as [|n IH]; intros bs s out Hl H.
  - destruct bs; [|cbn in Hl; lia]. cbn in H |- *. destruct (eof_ok s); [reflexivity | discriminate].
  - destruct bs as [|c r]; [cbn in H |- *; destruct (eof_ok s); [reflexivity | discriminate]|].
    cbn [length] in Hl. cbn [compact_from] in H. destruct (ls_ahead c r) as [b2|] eqn:El.
    + destruct (ls_ahead_some c r b2 El) as (-> & r2 & -> & Hb2).
      destruct (jstep3 s 226 128 b2) as [s3|] eqn:E3; [|discriminate].
      destruct (compact_from s3 r2) as [o|] eqn:Er; [|discriminate].
      unfold jstep3 in E3. cbn [accept].
      destruct (jstep s 226) as [|s1 k1]; [discriminate|]. destruct (jstep s1 128) as [|s2 k2]; [discriminate|].
      destruct (jstep s2 b2) as [|s3' k3]; [discriminate|]. injection E3 as <-.
      apply (IH r2 s3' o); [cbn [length] in Hl; lia | exact Er].
    + destruct (jstep s c) as [|s1 skip] eqn:Ej; [discriminate|].
      destruct (compact_from s1 r) as [o|] eqn:Er; [|discriminate].
      cbn [accept]. rewrite Ej. apply (IH r s1 o); [lia | exact Er].
Qed.

Lemma is_digit_eq c : ErrsJson.is_digit c = Json.is_digit c.
Proof. reflexivity. Qed.
Lemma is_hex_eq c : ErrsJson.is_hex c = Json.is_hex c.
Proof. reflexivity. Qed.
Lemma is_space_eq c : is_space c = is_ws c.
Proof. reflexivity. Qed.

(* ---- strings ---- *)
Lemma jstep_instring st d c : jstep (mk MInString st d) c =
  if c =? 34 then SOk (mk MEndValue st d) false
  else if c =? 92 then SOk (mk MInStringEsc st d) false
  else if c <? 32 then SErr else SOk (mk MInString st d) false.
Proof. reflexivity. Qed.

Lemma jstep_esc_mode st d c : jstep (mk MInStringEsc st d) c =
  if (c =? 98) || (c =? 102) || (c =? 110) || (c =? 114) || (c =? 116) || (c =? 92) || (c =? 47) || (c =? 34)
  then SOk (mk MInString st d) false
  else if c =? 117 then SOk (mk MEscU st d) false else SErr.
Proof. reflexivity. Qed.

Lemma jstep_escu st d c : jstep (mk MEscU st d) c = if Json.is_hex c then SOk (mk MEscU1 st d) false else SErr.
Proof. reflexivity. Qed.
Lemma jstep_escu1 st d c : jstep (mk MEscU1 st d) c = if Json.is_hex c then SOk (mk MEscU12 st d) false else SErr.
Proof. reflexivity. Qed.
Lemma jstep_escu12 st d c : jstep (mk MEscU12 st d) c = if Json.is_hex c then SOk (mk MEscU123 st d) false else SErr.
Proof. reflexivity. Qed.
Lemma jstep_escu123 st d c : jstep (mk MEscU123 st d) c = if Json.is_hex c then SOk (mk MInString st d) false else SErr.
Proof. reflexivity. Qed.

Lemma accept_nil_false m st d : (forall s' k, jstep (mk m st d) 32 = SOk s' k -> is_end_top s' = false) ->
  is_end_top (mk m st d) = false -> accept (mk m st d) [] = false.
Proof.
  intros H1 H2. cbn [accept]. unfold eof_ok. rewrite H2. cbn [orb].
  destruct (jstep (mk m st d) 32) as [|s' k] eqn:E; [reflexivity | exact (H1 s' k eq_refl)].
Qed.

Lemma eclass_simple e : (e =? 98) || (e =? 102) || (e =? 110) || (e =? 114) || (e =? 116) || (e =? 92) || (e =? 47) || (e =? 34) = true ->
  eclass_of e = ESimple.
Proof. intros H. unfold eclass_of. rewrite H. reflexivity. Qed.

Lemma body_okb_cons_plain x b : sclass_of x = SPlain -> body_okb b = true -> body_okb (x :: b) = true.
Proof.
  intros Hx Hb. apply body_okb_spec in Hb. apply body_okb_spec. cbn [app]. rewrite (pstr_plain x _ Hx), Hb. reflexivity.
Qed.

Lemma body_okb_cons_simple e b : eclass_of e = ESimple -> body_okb b = true -> body_okb (92 :: e :: b) = true.
Proof.
  intros He Hb. apply body_okb_spec in Hb. apply body_okb_spec. cbn [app]. rewrite (pstr_simple e _ He), Hb. reflexivity.
Qed.

Lemma body_okb_cons_u h1 h2 h3 h4 b : Json.is_hex h1 && Json.is_hex h2 && Json.is_hex h3 && Json.is_hex h4 = true ->
  body_okb b = true -> body_okb (92 :: 117 :: h1 :: h2 :: h3 :: h4 :: b) = true.
Proof.
  intros Hh Hb. apply body_okb_spec in Hb. apply body_okb_spec. cbn [app]. rewrite (pstr_u _ _ _ _ _ Hh), Hb. reflexivity.
Qed.

Lemma str_accept n : forall bs st d, (length bs <= n)%nat -> accept (mk MInString st d) bs = true ->
  exists b rest, bs = b ++ 34 :: rest /\ body_okb b = true /\ accept (mk MEndValue st d) rest = true.
Proof.
  induction n as [|n IH]; intros bs st d Hl H.
  - destruct bs; [|cbn in Hl; lia]. vm_compute in H. discriminate H.
  - destruct bs as [|x r]; [vm_compute in H; discriminate H|]. cbn [length] in Hl.
    cbn [accept] in H. rewrite jstep_instring in H.
    destruct (x =? 34) eqn:E34.
    { apply N.eqb_eq in E34. subst x. exists [], r. split; [reflexivity|]. split; [reflexivity | exact H]. }
    destruct (x =? 92) eqn:E92.
    { apply N.eqb_eq in E92. subst x. destruct r as [|e r1]; [vm_compute in H; discriminate H|]. cbn [length] in Hl.
      cbn [accept] in H. rewrite jstep_esc_mode in H.
      destruct ((e =? 98) || (e =? 102) || (e =? 110) || (e =? 114) || (e =? 116) || (e =? 92) || (e =? 47) || (e =? 34)) eqn:Es.
      - destruct (IH r1 st d ltac:(lia) H) as (b & rest & -> & Hb & Hr).
        exists (92 :: e :: b), rest. split; [reflexivity|]. split; [exact (body_okb_cons_simple e b (eclass_simple e Es) Hb) | exact Hr].
      - destruct (e =? 117) eqn:Eu; [|discriminate H]. apply N.eqb_eq in Eu. subst e.
        destruct r1 as [|h1 r2]; [vm_compute in H; discriminate H|]. cbn [accept] in H. rewrite jstep_escu in H.
        destruct (Json.is_hex h1) eqn:H1; [|discriminate H].
        destruct r2 as [|h2 r3]; [vm_compute in H; discriminate H|]. cbn [accept] in H. rewrite jstep_escu1 in H.
        destruct (Json.is_hex h2) eqn:H2; [|discriminate H].
        destruct r3 as [|h3 r4]; [vm_compute in H; discriminate H|]. cbn [accept] in H. rewrite jstep_escu12 in H.
        destruct (Json.is_hex h3) eqn:H3; [|discriminate H].
        destruct r4 as [|h4 r5]; [vm_compute in H; discriminate H|]. cbn [accept] in H. rewrite jstep_escu123 in H.
        destruct (Json.is_hex h4) eqn:H4; [|discriminate H].
        cbn [length] in Hl. destruct (IH r5 st d ltac:(lia) H) as (b & rest & -> & Hb & Hr).
        exists (92 :: 117 :: h1 :: h2 :: h3 :: h4 :: b), rest. split; [reflexivity|]. split; [|exact Hr].
        apply body_okb_cons_u; [rewrite H1, H2, H3, H4; reflexivity | exact Hb]. }
    destruct (x <? 32) eqn:E32; [discriminate H|].
    destruct (IH r st d ltac:(lia) H) as (b & rest & -> & Hb & Hr).
    exists (x :: b), rest. split; [reflexivity|]. split; [|exact Hr].
    apply body_okb_cons_plain; [|exact Hb]. unfold sclass_of. rewrite E34, E92, E32. reflexivity.
Qed.

(* ---- the end of a value ---- *)
Lemma end_value_mode m m' st d c : end_value (mk m st d) c = end_value (mk m' st d) c.
Proof. unfold end_value, mk, with_mode, go, pop. cbn. destruct st as [|[] rest]; reflexivity. Qed.

Lemma jstep_endvalue st d c : jstep (mk MEndValue st d) c = end_value (mk MEndValue st d) c.
Proof. reflexivity. Qed.

(* a mode whose step on c is end_value behaves like MEndValue from c on *)
Lemma accept_as_end m st d bs :
  (match bs with [] => jstep (mk m st d) 32 = end_value (mk m st d) 32 /\ is_end_top (mk m st d) = false
               | c :: _ => jstep (mk m st d) c = end_value (mk m st d) c end) ->
  accept (mk m st d) bs = accept (mk MEndValue st d) bs.
Proof.
  destruct bs as [|c r]; cbn [accept].
  - intros [H1 H2]. unfold eof_ok. rewrite H2, H1, jstep_endvalue, (end_value_mode m MEndValue). reflexivity.
  - intros H. rewrite H, jstep_endvalue, (end_value_mode m MEndValue). reflexivity.
Qed.

Lemma accept_endtop d bs : accept (mk MEndTop [] d) bs = accept (mk MEndValue [] d) bs.
Proof. destruct bs as [|c r]; [reflexivity|]. cbn [accept]. change (jstep (mk MEndTop [] d) c) with (jstep (mk MEndValue [] d) c). reflexivity. Qed.

(* ---- numbers ---- *)
Definition alldig (ds : bytes) : bool := forallb Json.is_digit ds.

(* the text after the 'e' of an exponent *)
Definition TE (t : bytes) : Prop := forall e, is_e e = true -> p_exp (e :: t) = Some (e :: t, []).
(* an exponent part, possibly empty *)
Definition EP (ep : bytes) : Prop := ep = [] \/ exists e t, ep = e :: t /\ is_e e = true /\ TE t.

Lemma EP_facts ep : EP ep -> p_exp ep = Some (ep, []) /\ ehead ep.
Proof. intros [->|(e & t & -> & He & Ht)]; [split; [reflexivity | exact I] | split; [exact (Ht e He) | exact He]]. Qed.

Lemma jstep_me0 st d c : jstep (mk ME0 st d) c = if Json.is_digit c then SOk (mk ME0 st d) false else end_value (mk ME0 st d) c.
Proof. reflexivity. Qed.
Lemma jstep_mesign st d c : jstep (mk MESign st d) c = if Json.is_digit c then SOk (mk ME0 st d) false else SErr.
Proof. reflexivity. Qed.
Lemma jstep_me st d c : jstep (mk ME st d) c =
  if (c =? 43) || (c =? 45) then SOk (mk MESign st d) false else if Json.is_digit c then SOk (mk ME0 st d) false else SErr.
Proof. reflexivity. Qed.
Lemma jstep_mdot0 st d c : jstep (mk MDot0 st d) c =
  if Json.is_digit c then SOk (mk MDot0 st d) false else if is_e c then SOk (mk ME st d) false else end_value (mk MDot0 st d) c.
Proof. reflexivity. Qed.
Lemma jstep_mdot st d c : jstep (mk MDot st d) c = if Json.is_digit c then SOk (mk MDot0 st d) false else SErr.
Proof. reflexivity. Qed.
Lemma jstep_m0 st d c : jstep (mk M0 st d) c =
  if c =? 46 then SOk (mk MDot st d) false else if is_e c then SOk (mk ME st d) false else end_value (mk M0 st d) c.
Proof. reflexivity. Qed.
Lemma jstep_m1 st d c : jstep (mk M1 st d) c =
  if Json.is_digit c then SOk (mk M1 st d) false
  else if c =? 46 then SOk (mk MDot st d) false else if is_e c then SOk (mk ME st d) false else end_value (mk M1 st d) c.
Proof. reflexivity. Qed.
Lemma jstep_mneg st d c : jstep (mk MNeg st d) c =
  if c =? 48 then SOk (mk M0 st d) false else if is_digit19 c then SOk (mk M1 st d) false else SErr.
Proof. reflexivity. Qed.

Lemma me0_accept : forall bs st d, accept (mk ME0 st d) bs = true ->
  exists ds rest, bs = ds ++ rest /\ alldig ds = true /\ accept (mk MEndValue st d) rest = true.
Proof.
  induction bs as [|x r IH]; intros st d H.
  - exists [], []. split; [reflexivity|]. split; [reflexivity|]. rewrite <- H. symmetry. apply accept_as_end. split; reflexivity.
  - destruct (Json.is_digit x) eqn:Ed.
    + cbn [accept] in H. rewrite jstep_me0, Ed in H. destruct (IH st d H) as (ds & rest & -> & Hd & Hr).
      exists (x :: ds), rest. split; [reflexivity|]. split; [cbn [alldig forallb]; rewrite Ed; exact Hd | exact Hr].
    + exists [], (x :: r). split; [reflexivity|]. split; [reflexivity|]. rewrite <- H. symmetry. apply accept_as_end.
      rewrite jstep_me0, Ed. reflexivity.
Qed.

Lemma digits_alldig ds : alldig ds = true -> digits ds = (ds, []).
Proof. intros H. pose proof (digits_app ds [] H I) as E. rewrite app_nil_r in E. exact E. Qed.

Lemma te_digits x ds : Json.is_digit x = true -> alldig ds = true -> TE (x :: ds).
Proof.
  intros Hx Hd e He. unfold p_exp. fold (is_e e). rewrite He.
  assert (Hs : p_esign (x :: ds) = ([], x :: ds)).
  { unfold p_esign. replace ((x =? 43) || (x =? 45)) with false; [reflexivity|]. apply is_digit_rng in Hx. symmetry.
    apply orb_false_iff. split; apply N.eqb_neq; lia. }
  rewrite Hs. rewrite (digits_alldig (x :: ds)) by (cbn [alldig forallb]; rewrite Hx; exact Hd). reflexivity.
Qed.

Lemma te_signed sg x ds : (sg = 43 \/ sg = 45) -> Json.is_digit x = true -> alldig ds = true -> TE (sg :: x :: ds).
Proof.
  intros Hs Hx Hd e He. unfold p_exp. fold (is_e e). rewrite He.
  assert (Hsg : p_esign (sg :: x :: ds) = ([sg], x :: ds)).
  { unfold p_esign. replace ((sg =? 43) || (sg =? 45)) with true; [reflexivity|]. destruct Hs as [-> | ->]; reflexivity. }
  rewrite Hsg. rewrite (digits_alldig (x :: ds)) by (cbn [alldig forallb]; rewrite Hx; exact Hd). reflexivity.
Qed.

Lemma me_accept : forall bs st d, accept (mk ME st d) bs = true ->
  exists t rest, bs = t ++ rest /\ TE t /\ accept (mk MEndValue st d) rest = true.
Proof.
  intros bs st d H. destruct bs as [|x r]; [vm_compute in H; discriminate H|].
  cbn [accept] in H. rewrite jstep_me in H. destruct ((x =? 43) || (x =? 45)) eqn:Es.
  - destruct r as [|y r']; [vm_compute in H; discriminate H|]. cbn [accept] in H. rewrite jstep_mesign in H.
    destruct (Json.is_digit y) eqn:Ey; [|discriminate H].
    destruct (me0_accept r' st d H) as (ds & rest & -> & Hd & Hr).
    exists (x :: y :: ds), rest. split; [reflexivity|]. split; [|exact Hr].
    apply te_signed; [apply orb_true_iff in Es as [E|E]; apply N.eqb_eq in E; auto | exact Ey | exact Hd].
  - destruct (Json.is_digit x) eqn:Ex; [|discriminate H].
    destruct (me0_accept r st d H) as (ds & rest & -> & Hd & Hr).
    exists (x :: ds), rest. split; [reflexivity|]. split; [exact (te_digits x ds Ex Hd) | exact Hr].
Qed.

(* after ".d": more digits, then an exponent part *)
Lemma mdot0_accept : forall bs st d, accept (mk MDot0 st d) bs = true ->
  exists ds ep rest, bs = ds ++ ep ++ rest /\ alldig ds = true /\ EP ep /\ accept (mk MEndValue st d) rest = true.
Proof.
  induction bs as [|x r IH]; intros st d H.
  - exists [], [], []. split; [reflexivity|]. split; [reflexivity|]. split; [left; reflexivity|].
    rewrite <- H. symmetry. apply accept_as_end. split; reflexivity.
  - destruct (Json.is_digit x) eqn:Ed.
    + cbn [accept] in H. rewrite jstep_mdot0, Ed in H. destruct (IH st d H) as (ds & ep & rest & -> & Hd & He & Hr).
      exists (x :: ds), ep, rest. split; [reflexivity|]. split; [cbn [alldig forallb]; rewrite Ed; exact Hd|]. split; assumption.
    + destruct (is_e x) eqn:Ee.
      * cbn [accept] in H. rewrite jstep_mdot0, Ed, Ee in H. destruct (me_accept r st d H) as (t & rest & -> & Ht & Hr).
        exists [], (x :: t), rest. split; [reflexivity|]. split; [reflexivity|]. split; [right; exists x, t; auto | exact Hr].
      * exists [], [], (x :: r). split; [reflexivity|]. split; [reflexivity|]. split; [left; reflexivity|].
        rewrite <- H. symmetry. apply accept_as_end. rewrite jstep_mdot0, Ed, Ee. reflexivity.
Qed.

(* after the integer part: a fraction part and an exponent part, both possibly empty *)
Definition T0 (t : bytes) : Prop :=
  exists fp ep, t = fp ++ ep /\ EP ep /\ (fp = [] \/ exists d0 ds, fp = 46 :: d0 :: ds /\ alldig (d0 :: ds) = true).

Lemma m0_accept : forall bs st d, accept (mk M0 st d) bs = true ->
  exists t rest, bs = t ++ rest /\ T0 t /\ accept (mk MEndValue st d) rest = true.
Proof.
  intros bs st d H. destruct bs as [|x r].
  - exists [], []. split; [reflexivity|]. split; [exists [], []; split; [reflexivity|]; split; [left; reflexivity | left; reflexivity]|].
    rewrite <- H. symmetry. apply accept_as_end. split; reflexivity.
  - destruct (x =? 46) eqn:E46.
    + apply N.eqb_eq in E46. subst x. cbn [accept] in H. rewrite jstep_m0 in H. change (46 =? 46) with true in H. cbv iota in H.
      destruct r as [|y r']; [vm_compute in H; discriminate H|]. cbn [accept] in H. rewrite jstep_mdot in H.
      destruct (Json.is_digit y) eqn:Ey; [|discriminate H].
      destruct (mdot0_accept r' st d H) as (ds & ep & rest & -> & Hd & He & Hr).
      exists (46 :: y :: ds ++ ep), rest. split; [cbn [app]; rewrite <- app_assoc; reflexivity|]. split; [|exact Hr].
      exists (46 :: y :: ds), ep. split; [reflexivity|]. split; [exact He|]. right. exists y, ds. split; [reflexivity|].
      cbn [alldig forallb]. rewrite Ey. exact Hd.
    + destruct (is_e x) eqn:Ee.
      * cbn [accept] in H. rewrite jstep_m0, E46, Ee in H. destruct (me_accept r st d H) as (t & rest & -> & Ht & Hr).
        exists (x :: t), rest. split; [reflexivity|]. split; [|exact Hr].
        exists [], (x :: t). split; [reflexivity|]. split; [right; exists x, t; auto | left; reflexivity].
      * exists [], (x :: r). split; [reflexivity|]. split; [exists [], []; split; [reflexivity|]; split; [left; reflexivity | left; reflexivity]|].
        rewrite <- H. symmetry. apply accept_as_end. rewrite jstep_m0, E46, Ee. reflexivity.
Qed.

Lemma m1_accept : forall bs st d, accept (mk M1 st d) bs = true ->
  exists ds t rest, bs = ds ++ t ++ rest /\ alldig ds = true /\ T0 t /\ accept (mk MEndValue st d) rest = true.
Proof.
  induction bs as [|x r IH]; intros st d H.
  - exists [], [], []. split; [reflexivity|]. split; [reflexivity|].
    split; [exists [], []; split; [reflexivity|]; split; [left; reflexivity | left; reflexivity]|].
    rewrite <- H. symmetry. apply accept_as_end. split; reflexivity.
  - destruct (Json.is_digit x) eqn:Ed.
    + cbn [accept] in H. rewrite jstep_m1, Ed in H. destruct (IH st d H) as (ds & t & rest & -> & Hd & Ht & Hr).
      exists (x :: ds), t, rest. split; [reflexivity|]. split; [cbn [alldig forallb]; rewrite Ed; exact Hd|]. split; assumption.
    + assert (H0 : accept (mk M0 st d) (x :: r) = true).
      { rewrite <- H. cbn [accept]. rewrite jstep_m0, jstep_m1, Ed. rewrite (end_value_mode M0 M1). reflexivity. }
      destruct (m0_accept (x :: r) st d H0) as (t & rest & E & Ht & Hr).
      exists [], t, rest. split; [exact E|]. split; [reflexivity|]. split; assumption.
Qed.

(* assembling the literal *)
Lemma T0_pnum_tail t : T0 t -> exists fp ep, t = fp ++ ep /\ p_frac (fp ++ ep) = Some (fp, ep) /\ p_exp ep = Some (ep, []) /\ fhead t.
Proof.
  intros (fp & ep & -> & He & Hf). destruct (EP_facts ep He) as [Hpe Heh]. exists fp, ep. split; [reflexivity|].
  destruct Hf as [->|(d0 & ds & -> & Hd)].
  - cbn [app]. split; [|split; [exact Hpe | exact (ehead_fhead _ Heh)]].
    unfold p_frac. destruct ep as [|c ep']; [reflexivity|]. cbn in Heh. rewrite (proj1 (proj2 (is_e_facts c Heh))). reflexivity.
  - split; [|split; [exact Hpe | left; reflexivity]].
    cbn [app p_frac]. change (46 =? 46) with true. cbv iota.
    change (d0 :: ds ++ ep) with ((d0 :: ds) ++ ep). rewrite (digits_app _ ep Hd (ehead_nondig _ Heh)). reflexivity.
Qed.

Lemma lit_zero t : T0 t -> is_num_lit (48 :: t) = true /\ is_num_lit (45 :: 48 :: t) = true.
Proof.
  intros Ht. destruct (T0_pnum_tail t Ht) as (fp & ep & -> & Hf & He & _).
  split; unfold is_num_lit, pnum; cbn [p_sign]; [change (48 =? 45) with false | change (45 =? 45) with true]; cbv iota;
    cbn [p_int]; change (48 =? 48) with true; cbv iota; rewrite Hf, He; reflexivity.
Qed.

Lemma lit_nonzero x ds t : is_digit19 x = true -> alldig ds = true -> T0 t ->
  is_num_lit (x :: ds ++ t) = true /\ is_num_lit (45 :: x :: ds ++ t) = true.
Proof.
  intros Hx Hd Ht. destruct (T0_pnum_tail t Ht) as (fp & ep & -> & Hf & He & Hh).
  assert (Hr : 49 <= x <= 57) by (unfold is_digit19 in Hx; apply andb_true_iff in Hx as [A B]; apply N.leb_le in A, B; lia).
  assert (Hxd : Json.is_digit x = true) by (apply andb_true_iff; split; apply N.leb_le; lia).
  assert (Hint : p_int (x :: ds ++ fp ++ ep) = Some (x :: ds, fp ++ ep)).
  { unfold p_int. replace (x =? 48) with false by (symmetry; apply N.eqb_neq; lia). rewrite Hxd.
    rewrite (digits_app ds _ Hd (fhead_nondig _ Hh)). reflexivity. }
  split; unfold is_num_lit, pnum; cbn [p_sign].
  - replace (x =? 45) with false by (symmetry; apply N.eqb_neq; lia). rewrite Hint, Hf, He. reflexivity.
  - change (45 =? 45) with true. cbv iota. rewrite Hint, Hf, He. reflexivity.
Qed.

(* ---- literals ---- *)
Lemma mt_accept bs st d : accept (mk MT st d) bs = true -> exists rest, bs = [114; 117; 101] ++ rest /\ accept (mk MEndValue st d) rest = true.
Proof.
  intros H. destruct bs as [|a [|b [|c r]]]; try (vm_compute in H; discriminate H).
  - cbn [accept] in H. change (jstep (mk MT st d) a) with (if a =? 114 then SOk (mk MTr st d) false else SErr) in H.
    destruct (a =? 114); [vm_compute in H|]; discriminate H.
  - cbn [accept] in H. change (jstep (mk MT st d) a) with (if a =? 114 then SOk (mk MTr st d) false else SErr) in H.
    destruct (a =? 114); [|discriminate H].
    change (jstep (mk MTr st d) b) with (if b =? 117 then SOk (mk MTru st d) false else SErr) in H.
    destruct (b =? 117); [vm_compute in H|]; discriminate H.
  - cbn [accept] in H. change (jstep (mk MT st d) a) with (if a =? 114 then SOk (mk MTr st d) false else SErr) in H.
    destruct (a =? 114) eqn:Ea; [|discriminate H].
    change (jstep (mk MTr st d) b) with (if b =? 117 then SOk (mk MTru st d) false else SErr) in H.
    destruct (b =? 117) eqn:Eb; [|discriminate H].
    change (jstep (mk MTru st d) c) with (if c =? 101 then SOk (mk MEndValue st d) false else SErr) in H.
    destruct (c =? 101) eqn:Ec; [|discriminate H].
    apply N.eqb_eq in Ea, Eb, Ec. subst. exists r. split; [reflexivity | exact H].
Qed.

Lemma mn_accept bs st d : accept (mk MN st d) bs = true -> exists rest, bs = [117; 108; 108] ++ rest /\ accept (mk MEndValue st d) rest = true.
Proof.
  intros H. destruct bs as [|a [|b [|c r]]]; try (vm_compute in H; discriminate H).
  - cbn [accept] in H. change (jstep (mk MN st d) a) with (if a =? 117 then SOk (mk MNu st d) false else SErr) in H.
    destruct (a =? 117); [vm_compute in H|]; discriminate H.
  - cbn [accept] in H. change (jstep (mk MN st d) a) with (if a =? 117 then SOk (mk MNu st d) false else SErr) in H.
    destruct (a =? 117); [|discriminate H].
    change (jstep (mk MNu st d) b) with (if b =? 108 then SOk (mk MNul st d) false else SErr) in H.
    destruct (b =? 108); [vm_compute in H|]; discriminate H.
  - cbn [accept] in H. change (jstep (mk MN st d) a) with (if a =? 117 then SOk (mk MNu st d) false else SErr) in H.
    destruct (a =? 117) eqn:Ea; [|discriminate H].
    change (jstep (mk MNu st d) b) with (if b =? 108 then SOk (mk MNul st d) false else SErr) in H.
    destruct (b =? 108) eqn:Eb; [|discriminate H].
    change (jstep (mk MNul st d) c) with (if c =? 108 then SOk (mk MEndValue st d) false else SErr) in H.
    destruct (c =? 108) eqn:Ec; [|discriminate H].
    apply N.eqb_eq in Ea, Eb, Ec. subst. exists r. split; [reflexivity | exact H].
Qed.

Lemma mf_accept bs st d : accept (mk MF st d) bs = true -> exists rest, bs = [97; 108; 115; 101] ++ rest /\ accept (mk MEndValue st d) rest = true.
Proof.
  intros H. destruct bs as [|a r1]; [vm_compute in H; discriminate H|].
  cbn [accept] in H. change (jstep (mk MF st d) a) with (if a =? 97 then SOk (mk MFa st d) false else SErr) in H.
  destruct (a =? 97) eqn:Ea; [|discriminate H].
  destruct r1 as [|b r2]; [vm_compute in H; discriminate H|].
  cbn [accept] in H. change (jstep (mk MFa st d) b) with (if b =? 108 then SOk (mk MFal st d) false else SErr) in H.
  destruct (b =? 108) eqn:Eb; [|discriminate H].
  destruct r2 as [|c r3]; [vm_compute in H; discriminate H|].
  cbn [accept] in H. change (jstep (mk MFal st d) c) with (if c =? 115 then SOk (mk MFals st d) false else SErr) in H.
  destruct (c =? 115) eqn:Ec; [|discriminate H].
  destruct r3 as [|e r]; [vm_compute in H; discriminate H|].
  cbn [accept] in H. change (jstep (mk MFals st d) e) with (if e =? 101 then SOk (mk MEndValue st d) false else SErr) in H.
  destruct (e =? 101) eqn:Ee; [|discriminate H].
  apply N.eqb_eq in Ea, Eb, Ec, Ee. subst. exists r. split; [reflexivity | exact H].
Qed.

(* ---- white space loops ---- *)
Lemma ws_loop (s : scanner) : (forall c, is_ws c = true -> jstep s c = SOk s true) ->
  forall bs, accept s bs = true -> exists w r, bs = w ++ r /\ all_ws w = true /\ nows r /\ accept s r = true.
Proof.
  intros Hs. induction bs as [|x r IH]; intros H.
  - exists [], []. repeat split. exact H.
  - destruct (is_ws x) eqn:Ex.
    + cbn [accept] in H. rewrite (Hs x Ex) in H. destruct (IH H) as (w & r' & -> & Hw & Hn & Hr).
      exists (x :: w), r'. split; [reflexivity|]. split; [cbn [all_ws forallb]; rewrite Ex; exact Hw|]. split; assumption.
    + exists [], (x :: r). split; [reflexivity|]. split; [reflexivity|]. split; [exact Ex | exact H].
Qed.

Lemma ws_beginvalue st d c : is_ws c = true -> jstep (mk MBeginValue st d) c = SOk (mk MBeginValue st d) true.
Proof. intros H. cbn [jstep mk sc_mode]. unfold begin_value. rewrite is_space_eq, H. reflexivity. Qed.
Lemma ws_beginvalue_or_empty st d c : is_ws c = true -> jstep (mk MBeginValueOrEmpty st d) c = SOk (mk MBeginValueOrEmpty st d) true.
Proof. intros H. cbn [jstep mk sc_mode]. rewrite is_space_eq, H. reflexivity. Qed.
Lemma ws_beginstring_or_empty st d c : is_ws c = true -> jstep (mk MBeginStringOrEmpty st d) c = SOk (mk MBeginStringOrEmpty st d) true.
Proof. intros H. cbn [jstep mk sc_mode]. rewrite is_space_eq, H. reflexivity. Qed.
Lemma ws_beginstring st d c : is_ws c = true -> jstep (mk MBeginString st d) c = SOk (mk MBeginString st d) true.
Proof. intros H. cbn [jstep mk sc_mode]. unfold begin_string. rewrite is_space_eq, H. reflexivity. Qed.
Lemma ws_endvalue p st d c : is_ws c = true -> jstep (mk MEndValue (p :: st) d) c = SOk (mk MEndValue (p :: st) d) true.
Proof. intros H. rewrite jstep_endvalue. unfold end_value. cbn [mk sc_stack]. rewrite is_space_eq, H. reflexivity. Qed.

Lemma ws_not x : is_ws x = false -> (x =? 32) = false /\ (x =? 9) = false /\ (x =? 13) = false /\ (x =? 10) = false.
Proof. unfold is_ws. intros H. repeat (apply orb_false_iff in H as [H ?]). auto. Qed.

(* what follows a complete value whose container is an array / an object value / nothing *)
Definition top_ok (st : list pstate) : Prop := match st with PKey :: _ => False | _ => True end.

Lemma accept_term st d rest : top_ok st -> accept (mk MEndValue st d) rest = true -> term rest.
Proof.
  intros Ht H. destruct rest as [|x r]; [exact I|]. cbn [term]. cbn [accept] in H. rewrite jstep_endvalue in H.
  unfold end_value in H. cbn [mk sc_stack sc_depth] in H. rewrite is_space_eq in H.
  destruct (is_ws x) eqn:Ex; [right; reflexivity|]. left. unfold delim.
  destruct st as [|[] st']; [discriminate H | contradiction | |].
  - destruct (x =? 44) eqn:E1; [apply N.eqb_eq in E1; auto|]. destruct (x =? 125) eqn:E2; [apply N.eqb_eq in E2; auto | discriminate H].
  - destruct (x =? 44) eqn:E1; [apply N.eqb_eq in E1; auto|]. destruct (x =? 93) eqn:E2; [apply N.eqb_eq in E2; auto | discriminate H].
Qed.

Lemma pop_accept st d bs : accept (mk (match st with [] => MEndTop | _ => MEndValue end) st d) bs = accept (mk MEndValue st d) bs.
Proof. destruct st; [apply accept_endtop | reflexivity]. Qed.

(* ---- containers ---- *)
Local Notation cp := (cprint (fun b : bytes => b) (fun w : bytes => w)).
Local Notation et := (elems_text (fun w : bytes => w) cp).
Local Notation mt := (mems_text (fun b : bytes => b) (fun w : bytes => w) cp).

Definition val_spec (n : nat) : Prop := forall bs st d, (length bs <= n)%nat -> top_ok st ->
  accept (mk MBeginValue st d) bs = true ->
  exists w c rest, bs = w ++ ctext c rest /\ all_ws w = true /\ cwf d c = true /\ accept (mk MEndValue st d) rest = true.

Lemma ctext_len d c rest : cwf d c = true -> term rest -> (length rest < length (ctext c rest))%nat.
Proof. intros Hwf Ht. exact (PV_len _ _ _ _ (ctext_PV d c rest Hwf Ht)). Qed.

Lemma after_elem st d1 bs : accept (mk MEndValue (PArr :: st) d1) bs = true ->
  exists wa y r, bs = wa ++ y :: r /\ all_ws wa = true /\
    ((y = 44 /\ accept (mk MBeginValue (PArr :: st) d1) r = true) \/ (y = 93 /\ accept (mk MEndValue st (N.pred d1)) r = true)).
Proof.
  intros H. destruct (ws_loop _ (ws_endvalue PArr st d1) bs H) as (wa & r0 & -> & Hw & Hn & Hr).
  destruct r0 as [|y r]; [vm_compute in Hr; discriminate Hr|]. exists wa, y, r. split; [reflexivity|]. split; [exact Hw|].
  cbn [nows] in Hn. cbn [accept] in Hr. rewrite jstep_endvalue in Hr. unfold end_value in Hr. cbn [mk sc_stack sc_depth] in Hr.
  rewrite is_space_eq, Hn in Hr.
  destruct (y =? 44) eqn:E1; [apply N.eqb_eq in E1; left; split; [exact E1 | exact Hr]|].
  destruct (y =? 93) eqn:E2; [|discriminate Hr]. apply N.eqb_eq in E2. right. split; [exact E2|].
  unfold pop in Hr. rewrite <- (pop_accept st (N.pred d1) r). exact Hr.
Qed.

Lemma after_member st d1 bs : accept (mk MEndValue (PVal :: st) d1) bs = true ->
  exists wa y r, bs = wa ++ y :: r /\ all_ws wa = true /\
    ((y = 44 /\ accept (mk MBeginString (PKey :: st) d1) r = true) \/ (y = 125 /\ accept (mk MEndValue st (N.pred d1)) r = true)).
Proof.
  intros H. destruct (ws_loop _ (ws_endvalue PVal st d1) bs H) as (wa & r0 & -> & Hw & Hn & Hr).
  destruct r0 as [|y r]; [vm_compute in Hr; discriminate Hr|]. exists wa, y, r. split; [reflexivity|]. split; [exact Hw|].
  cbn [nows] in Hn. cbn [accept] in Hr. rewrite jstep_endvalue in Hr. unfold end_value in Hr. cbn [mk sc_stack sc_depth] in Hr.
  rewrite is_space_eq, Hn in Hr.
  destruct (y =? 44) eqn:E1; [apply N.eqb_eq in E1; left; split; [exact E1 | exact Hr]|].
  destruct (y =? 125) eqn:E2; [|discriminate Hr]. apply N.eqb_eq in E2. right. split; [exact E2|].
  unfold pop in Hr. rewrite <- (pop_accept st (N.pred d1) r). exact Hr.
Qed.

Lemma after_key st d1 bs : accept (mk MEndValue (PKey :: st) d1) bs = true ->
  exists wc r, bs = wc ++ 58 :: r /\ all_ws wc = true /\ accept (mk MBeginValue (PVal :: st) d1) r = true.
Proof.
  intros H. destruct (ws_loop _ (ws_endvalue PKey st d1) bs H) as (wc & r0 & -> & Hw & Hn & Hr).
  destruct r0 as [|y r]; [vm_compute in Hr; discriminate Hr|].
  cbn [nows] in Hn. cbn [accept] in Hr. rewrite jstep_endvalue in Hr. unfold end_value in Hr. cbn [mk sc_stack sc_depth] in Hr.
  rewrite is_space_eq, Hn in Hr. destruct (y =? 58) eqn:E; [|discriminate Hr]. apply N.eqb_eq in E. subst y.
  exists wc, r. split; [reflexivity|]. split; [exact Hw | exact Hr].
Qed.

Ltac lens H := repeat (progress (cbn [length] in H; rewrite ?app_length in H)).

Section Containers.
  Variable n : nat.
  Hypothesis IHval : val_spec n.

  Lemma elems_accept : forall m bs st d1, (m <= n)%nat -> (length bs <= m)%nat ->
    accept (mk MBeginValue (PArr :: st) d1) bs = true ->
    exists es rest, es <> [] /\ bs = et es rest /\ forallb (elem_wf d1) es = true /\ accept (mk MEndValue st (N.pred d1)) rest = true.
  Proof.
    induction m as [|m IH]; intros bs st d1 Hm Hl H.
    - destruct bs; [vm_compute in H; discriminate H | cbn in Hl; lia].
    - destruct (IHval bs (PArr :: st) d1 ltac:(lia) I H) as (w1 & c1 & rest1 & Hbs & Hw1 & Hc1 & Hr1).
      pose proof (accept_term (PArr :: st) d1 rest1 I Hr1) as Ht1.
      destruct (after_elem st d1 rest1 Hr1) as (wa & y & r2 & -> & Hwa & [[-> Hy]|[-> Hy]]).
      + assert (Hlen : (length r2 <= m)%nat).
        { pose proof (ctext_len d1 c1 _ Hc1 Ht1) as L. rewrite Hbs in Hl. lens Hl. lens L. lia. }
        destruct (IH r2 st d1 ltac:(lia) Hlen Hy) as (es & rest & Hne & -> & Hes & Hr).
        exists ((w1, c1, wa) :: es), rest. split; [discriminate|]. split.
        * rewrite Hbs, et_cons. unfold ek. destruct es; [contradiction | reflexivity].
        * split; [|exact Hr]. cbn [forallb]. unfold elem_wf at 1. cbn [fst snd]. rewrite Hw1, Hc1, Hwa, Hes. reflexivity.
      + exists [(w1, c1, wa)], r2. split; [discriminate|]. split; [rewrite Hbs; reflexivity|]. split; [|exact Hy].
        cbn [forallb]. unfold elem_wf. cbn [fst snd]. rewrite Hw1, Hc1, Hwa. reflexivity.
  Qed.

  (* one member, then the rest: the input starts (after white space) with the key's opening quote *)
  Lemma mems_accept : forall m bs st d1, (m <= n)%nat -> (length bs <= m)%nat ->
    accept (mk MBeginString (PKey :: st) d1) bs = true ->
    exists ms rest, ms <> [] /\ bs = mt ms rest /\ forallb (mem_wf d1) ms = true /\ accept (mk MEndValue st (N.pred d1)) rest = true.
  Proof.
    induction m as [|m IH]; intros bs st d1 Hm Hl H.
    - destruct bs; [vm_compute in H; discriminate H | cbn in Hl; lia].
    - destruct (ws_loop _ (ws_beginstring (PKey :: st) d1) bs H) as (wk & r0 & -> & Hwk & Hn0 & Hr0).
      destruct r0 as [|q r1]; [vm_compute in Hr0; discriminate Hr0|]. cbn [nows] in Hn0.
      cbn [accept] in Hr0. cbn [jstep mk sc_mode] in Hr0. unfold begin_string in Hr0. rewrite is_space_eq, Hn0 in Hr0.
      destruct (q =? 34) eqn:Eq; [|discriminate Hr0]. apply N.eqb_eq in Eq. subst q.
      change (go (mk MBeginString (PKey :: st) d1) MInString) with (SOk (mk MInString (PKey :: st) d1) false) in Hr0.
      destruct (str_accept (length r1) r1 (PKey :: st) d1 (le_n _) Hr0) as (k & r2 & -> & Hk & Hr2).
      destruct (after_key st d1 r2 Hr2) as (wc & r3 & -> & Hwc & Hr3).
      assert (L3 : (length r3 <= n)%nat) by (lens Hl; lia).
      destruct (IHval r3 (PVal :: st) d1 L3 I Hr3) as (wv & c & rest1 & -> & Hwv & Hc & Hr4).
      pose proof (accept_term (PVal :: st) d1 rest1 I Hr4) as Ht1.
      destruct (after_member st d1 rest1 Hr4) as (wa & y & r5 & -> & Hwa & [[-> Hy]|[-> Hy]]).
      + assert (Hlen : (length r5 <= m)%nat).
        { pose proof (ctext_len d1 c _ Hc Ht1) as L. lens Hl. lens L. lia. }
        destruct (IH r5 st d1 ltac:(lia) Hlen Hy) as (ms & rest & Hne & -> & Hms & Hr).
        exists (((wk, k, wc), (wv, c, wa)) :: ms), rest. split; [discriminate|]. split.
        * rewrite mt_cons. unfold JsonTree.mk. destruct ms; [contradiction|]. reflexivity.
        * split; [|exact Hr]. cbn [forallb]. unfold mem_wf at 1. cbn [fst snd]. rewrite Hwk, Hk, Hwc, Hwv, Hc, Hwa, Hms. reflexivity.
      + exists [((wk, k, wc), (wv, c, wa))], r5. split; [discriminate|]. split.
        * reflexivity.
        * split; [|exact Hy]. cbn [forallb]. unfold mem_wf. cbn [fst snd]. rewrite Hwk, Hk, Hwc, Hwv, Hc, Hwa. reflexivity.
  Qed.
End Containers.

Lemma accept_ws_prefix (s : scanner) : (forall c, is_ws c = true -> jstep s c = SOk s true) ->
  forall w r, all_ws w = true -> accept s (w ++ r) = accept s r.
Proof.
  intros Hs. induction w as [|x w IH]; intros r Hw; [reflexivity|]. cbn [all_ws forallb] in Hw. apply andb_true_iff in Hw as [Hx Hw].
  cbn [app accept]. rewrite (Hs x Hx). exact (IH r Hw).
Qed.

Lemma begin_value_mode m m' st d c : begin_value (mk m st d) c = begin_value (mk m' st d) c \/ is_ws c = true.
Proof.
  destruct (is_ws c) eqn:E; [right; reflexivity|]. left. unfold begin_value. rewrite !is_space_eq, E.
  unfold push, go, with_mode, mk. cbn. reflexivity.
Qed.

Lemma jstep_beginvalue st d c : jstep (mk MBeginValue st d) c = begin_value (mk MBeginValue st d) c.
Proof. reflexivity. Qed.

Lemma begin_value_cases st d x : is_ws x = false ->
  begin_value (mk MBeginValue st d) x =
  if x =? 123 then (if d + 1 <=? max_nesting_depth then SOk (mk MBeginStringOrEmpty (PKey :: st) (d + 1)) false else SErr)
  else if x =? 91 then (if d + 1 <=? max_nesting_depth then SOk (mk MBeginValueOrEmpty (PArr :: st) (d + 1)) false else SErr)
  else if x =? 34 then SOk (mk MInString st d) false
  else if x =? 45 then SOk (mk MNeg st d) false
  else if x =? 48 then SOk (mk M0 st d) false
  else if x =? 116 then SOk (mk MT st d) false
  else if x =? 102 then SOk (mk MF st d) false
  else if x =? 110 then SOk (mk MN st d) false
  else if is_digit19 x then SOk (mk M1 st d) false else SErr.
Proof. intros H. unfold begin_value. rewrite is_space_eq, H. reflexivity. Qed.

Lemma depth_lt d : (d + 1 <=? max_nesting_depth) = true -> (d <? max_depth) = true.
Proof. intros H. apply N.leb_le in H. apply N.ltb_lt. unfold max_nesting_depth in H. unfold max_depth. lia. Qed.

Lemma val_all : forall n, val_spec n.
Proof.
  induction n as [|n IHn]; intros bs st d Hl Hst H.
  - destruct bs; [vm_compute in H; discriminate H | cbn in Hl; lia].
  - destruct (ws_loop _ (ws_beginvalue st d) bs H) as (w & r0 & -> & Hw & Hn0 & Hr0).
    destruct r0 as [|x r]; [vm_compute in Hr0; discriminate Hr0|]. cbn [nows] in Hn0.
    assert (Hlr : (length r <= n)%nat) by (lens Hl; lia).
    cbn [accept] in Hr0. rewrite jstep_beginvalue, (begin_value_cases st d x Hn0) in Hr0.
    destruct (x =? 123) eqn:E123.
    { (* object *)
      apply N.eqb_eq in E123. subst x. destruct (d + 1 <=? max_nesting_depth) eqn:Ed; [|discriminate Hr0].
      pose proof (depth_lt d Ed) as Hd.
      destruct (ws_loop _ (ws_beginstring_or_empty (PKey :: st) (d + 1)) r Hr0) as (w0 & r1 & Er & Hw0 & Hn1 & Hr1).
      destruct r1 as [|y r2]; [vm_compute in Hr1; discriminate Hr1|]. cbn [nows] in Hn1.
      destruct (y =? 125) eqn:E125.
      - apply N.eqb_eq in E125. subst y. cbn [accept] in Hr1. cbn [jstep mk sc_mode sc_stack] in Hr1.
        rewrite is_space_eq in Hr1. change (is_ws 125) with false in Hr1. change (125 =? 125) with true in Hr1. cbv iota in Hr1.
        unfold end_value in Hr1. cbn [mk sc_stack sc_depth] in Hr1. rewrite is_space_eq in Hr1.
        change (is_ws 125) with false in Hr1. change (125 =? 44) with false in Hr1. change (125 =? 125) with true in Hr1. cbv iota in Hr1.
        unfold pop in Hr1. cbn [mk sc_stack sc_depth sc_mode] in Hr1.
        assert (Ed1 : N.pred (d + 1) = d) by lia. rewrite Ed1 in Hr1.
        assert (Hr1' : accept (mk MEndValue st d) r2 = true) by (rewrite <- (pop_accept st d r2); exact Hr1).
        exists w, (CObj w0 []), r2. split; [rewrite Er; reflexivity|]. split; [exact Hw|]. split; [|exact Hr1'].
        rewrite cwf_obj, Hd, Hw0. reflexivity.
      - assert (Hbs : accept (mk MBeginString (PKey :: st) (d + 1)) r = true).
        { rewrite Er, (accept_ws_prefix _ (ws_beginstring (PKey :: st) (d + 1)) w0 _ Hw0). rewrite <- Hr1.
          cbn [accept]. cbn [jstep mk sc_mode]. rewrite is_space_eq, Hn1, E125. unfold begin_string. rewrite !is_space_eq, Hn1. reflexivity. }
        destruct (mems_accept n IHn n r st (d + 1) (le_n _) Hlr Hbs) as (ms & rest & Hne & Hms & Hwf & Hrest).
        replace (N.pred (d + 1)) with d in Hrest by lia.
        exists w, (CObj [] ms), rest. split; [rewrite Hms; unfold ctext; cbn [cprint]; destruct ms; [contradiction | reflexivity]|].
        split; [exact Hw|]. split; [|exact Hrest].
        rewrite cwf_obj, Hd. replace (N.succ d) with (d + 1) by lia. rewrite Hwf. destruct ms; [contradiction | reflexivity]. }
    destruct (x =? 91) eqn:E91.
    { (* array *)
      apply N.eqb_eq in E91. subst x. destruct (d + 1 <=? max_nesting_depth) eqn:Ed; [|discriminate Hr0].
      pose proof (depth_lt d Ed) as Hd.
      destruct (ws_loop _ (ws_beginvalue_or_empty (PArr :: st) (d + 1)) r Hr0) as (w0 & r1 & Er & Hw0 & Hn1 & Hr1).
      destruct r1 as [|y r2]; [vm_compute in Hr1; discriminate Hr1|]. cbn [nows] in Hn1.
      destruct (y =? 93) eqn:E93.
      - apply N.eqb_eq in E93. subst y. cbn [accept] in Hr1. cbn [jstep mk sc_mode] in Hr1.
        rewrite is_space_eq in Hr1. change (is_ws 93) with false in Hr1. change (93 =? 93) with true in Hr1. cbv iota in Hr1.
        unfold end_value in Hr1. cbn [mk sc_stack sc_depth] in Hr1. rewrite is_space_eq in Hr1.
        change (is_ws 93) with false in Hr1. change (93 =? 44) with false in Hr1. change (93 =? 93) with true in Hr1. cbv iota in Hr1.
        unfold pop in Hr1. cbn [mk sc_stack sc_depth sc_mode] in Hr1.
        assert (Ed1 : N.pred (d + 1) = d) by lia. rewrite Ed1 in Hr1.
        assert (Hr1' : accept (mk MEndValue st d) r2 = true) by (rewrite <- (pop_accept st d r2); exact Hr1).
        exists w, (CArr w0 []), r2. split; [rewrite Er; reflexivity|]. split; [exact Hw|]. split; [|exact Hr1'].
        rewrite cwf_arr, Hd, Hw0. reflexivity.
      - assert (Hbs : accept (mk MBeginValue (PArr :: st) (d + 1)) r = true).
        { rewrite Er, (accept_ws_prefix _ (ws_beginvalue (PArr :: st) (d + 1)) w0 _ Hw0). rewrite <- Hr1.
          cbn [accept]. rewrite jstep_beginvalue. cbn [jstep mk sc_mode]. rewrite is_space_eq, Hn1, E93.
          destruct (begin_value_mode MBeginValue MBeginValueOrEmpty (PArr :: st) (d + 1) y) as [->|Hc]; [reflexivity|].
          rewrite Hc in Hn1. discriminate Hn1. }
        destruct (elems_accept n IHn n r st (d + 1) (le_n _) Hlr Hbs) as (es & rest & Hne & Hes & Hwf & Hrest).
        replace (N.pred (d + 1)) with d in Hrest by lia.
        exists w, (CArr [] es), rest. split; [rewrite Hes; unfold ctext; cbn [cprint]; destruct es; [contradiction | reflexivity]|].
        split; [exact Hw|]. split; [|exact Hrest].
        rewrite cwf_arr, Hd. replace (N.succ d) with (d + 1) by lia. rewrite Hwf. destruct es; [contradiction | reflexivity]. }
    destruct (x =? 34) eqn:E34.
    { apply N.eqb_eq in E34. subst x. destruct (str_accept (length r) r st d (le_n _) Hr0) as (b & rest & -> & Hb & Hr).
      exists w, (CStr b), rest. split; [reflexivity|]. split; [exact Hw|]. split; [exact Hb | exact Hr]. }
    destruct (x =? 45) eqn:E45.
    { apply N.eqb_eq in E45. subst x. destruct r as [|y r']; [vm_compute in Hr0; discriminate Hr0|].
      cbn [accept] in Hr0. rewrite jstep_mneg in Hr0. destruct (y =? 48) eqn:E48.
      - apply N.eqb_eq in E48. subst y. destruct (m0_accept r' st d Hr0) as (t & rest & -> & Ht & Hr).
        exists w, (CNum (45 :: 48 :: t)), rest. split; [unfold ctext; cbn [cprint app]; reflexivity|]. split; [exact Hw|].
        split; [exact (proj2 (lit_zero t Ht)) | exact Hr].
      - destruct (is_digit19 y) eqn:E19; [|discriminate Hr0].
        destruct (m1_accept r' st d Hr0) as (ds & t & rest & -> & Hd & Ht & Hr).
        exists w, (CNum (45 :: y :: ds ++ t)), rest. split; [unfold ctext; cbn [cprint app]; rewrite <- !app_assoc; reflexivity|].
        split; [exact Hw|]. split; [exact (proj2 (lit_nonzero y ds t E19 Hd Ht)) | exact Hr]. }
    destruct (x =? 48) eqn:E48.
    { apply N.eqb_eq in E48. subst x. destruct (m0_accept r st d Hr0) as (t & rest & -> & Ht & Hr).
      exists w, (CNum (48 :: t)), rest. split; [reflexivity|]. split; [exact Hw|]. split; [exact (proj1 (lit_zero t Ht)) | exact Hr]. }
    destruct (x =? 116) eqn:E116.
    { apply N.eqb_eq in E116. subst x. destruct (mt_accept r st d Hr0) as (rest & -> & Hr).
      exists w, CTrue, rest. split; [reflexivity|]. split; [exact Hw|]. split; [reflexivity | exact Hr]. }
    destruct (x =? 102) eqn:E102.
    { apply N.eqb_eq in E102. subst x. destruct (mf_accept r st d Hr0) as (rest & -> & Hr).
      exists w, CFalse, rest. split; [reflexivity|]. split; [exact Hw|]. split; [reflexivity | exact Hr]. }
    destruct (x =? 110) eqn:E110.
    { apply N.eqb_eq in E110. subst x. destruct (mn_accept r st d Hr0) as (rest & -> & Hr).
      exists w, CNull, rest. split; [reflexivity|]. split; [exact Hw|]. split; [reflexivity | exact Hr]. }
    destruct (is_digit19 x) eqn:E19; [|discriminate Hr0].
    destruct (m1_accept r st d Hr0) as (ds & t & rest & -> & Hd & Ht & Hr).
    exists w, (CNum (x :: ds ++ t)), rest. split; [unfold ctext; cbn [cprint app]; rewrite <- !app_assoc; reflexivity|].
    split; [exact Hw|]. split; [exact (proj1 (lit_nonzero x ds t E19 Hd Ht)) | exact Hr].
Qed.

(* ---- the top level ---- *)
Lemma end_top_ws d0 : forall rest, accept (mk MEndValue [] d0) rest = true -> all_ws rest = true.
Proof.
  induction rest as [|x r IH]; intros H; [reflexivity|]. cbn [accept] in H. rewrite jstep_endvalue in H.
  unfold end_value in H. cbn [mk sc_stack] in H. rewrite is_space_eq in H. destruct (is_ws x) eqn:Ex; [|discriminate H].
  cbn [all_ws forallb]. rewrite Ex. apply IH. rewrite <- (accept_endtop d0 r). exact H.
Qed.

Lemma all_ws_term rest : all_ws rest = true -> term rest.
Proof. destruct rest as [|x r]; [intros _; exact I|]. cbn [all_ws forallb term]. intros H. apply andb_true_iff in H as [H _]. right. exact H. Qed.

(* the byte scanner accepts only what the tree parser accepts *)
Theorem scanner_accepts_valid : forall d d', ErrsJson.compact d = Some d' -> Json.valid d = true.
Proof.
  intros d d' H. unfold ErrsJson.compact in H.
  pose proof (compact_from_accept (length d) d scanner0 d' (le_n _) H) as Ha.
  change scanner0 with (mk MBeginValue [] 0) in Ha.
  destruct (val_all (length d) d [] 0 (le_n _) I Ha) as (w & c & rest & -> & Hw & Hc & Hr).
  pose proof (end_top_ws 0 rest Hr) as Hrw. pose proof (ctext_PV 0 c rest Hc (all_ws_term rest Hrw)) as Hpv.
  unfold Json.valid, parse_doc, parse_prefix.
  rewrite (split_ws_app w _ Hw (PV_nows _ _ _ _ Hpv)), (PV_value_at _ _ _ _ Hpv).
  pose proof (split_ws_app rest [] Hrw I) as Hs. rewrite app_nil_r in Hs. rewrite Hs. reflexivity.
Qed.

Example scanner_accepts_valid_nonvacuous :
  ErrsJson.compact [32; 123; 34; 97; 34; 58; 91; 49; 44; 32; 45; 48; 46; 53; 101; 43; 51; 93; 125; 10] =
    Some [123; 34; 97; 34; 58; 91; 49; 44; 45; 48; 46; 53; 101; 43; 51; 93; 125] /\
  Json.valid [32; 123; 34; 97; 34; 58; 91; 49; 44; 32; 45; 48; 46; 53; 101; 43; 51; 93; 125; 10] = true.
Proof. split; vm_compute; reflexivity. Qed.

(* ---- consequences: the two models of json.Marshal(RawMessage), and C14's data ---- *)

(* whenever the scanner model yields a result, the tree model yields the same bytes *)
Theorem compact_models_agree_all : forall d d', ErrsJson.compact d = Some d' -> Json.compact d = Some d'.
Proof. intros d d' H. exact (ErrsMore.compact_models_agree d d' (scanner_accepts_valid d d' H) H). Qed.

(* error data arrive JSON-equal as VALUES *)
Theorem data_json_equal_value : forall d d', Errs.wire_data d = Some d' -> d <> [] ->
  Json.parse d' = Json.parse d /\ Json.compact d = Some d' /\ Json.parse d <> None.
Proof.
  intros d d' Hw Hne. apply (ErrsMore.data_json_equal_value_partial d d' Hw Hne).
  destruct d as [|x d0]; [contradiction|]. exact (scanner_accepts_valid _ _ Hw).
Qed.

Theorem error_verbatim_value : forall r c m d d',
  c <> Msg.Cancelled -> c <> Msg.DeadlineExceeded -> ErrsJson.valid_utf8 m = true -> Errs.wire_data d = Some d' ->
  Errs.call r (Errs.EJrpc c m d) = Errs.OErr (Errs.EJrpc c m d') /\ (d <> [] -> Json.parse d' = Json.parse d) /\ (d = [] -> d' = []).
Proof.
  intros r c m d d' H1 H2 H3 H4. split; [exact (proj1 (ErrsProofs.error_verbatim r c m d d' H1 H2 H3 H4))|]. split.
  - intros Hne. exact (proj1 (data_json_equal_value d d' H4 Hne)).
  - intros ->. cbn in H4. injection H4 as <-. reflexivity.
Qed.
