(* ErrsWire: the C14 model of an error's transit (Errs.sent: code kept, message sanitized, data
   compacted) tied to the C13 encoder / parser, and the NESTING side condition.
   An error object sits one container below the response object, its data one below that.
   encoding/json's nesting limit (10000) counts the envelope: data nested 9999 deep are valid JSON on
   their own, json.Marshal compacts them, jmessage.toJSON writes the response - and the CLIENT's
   parser rejects the whole record (c13_nesting_limit_counts_envelope_error_data).  Client.accept then
   stops the client with -32700 "invalid request value" and every pending call is cancelled
   (client.go accept / stopLocked): the caller does not get the handler's error.  [data_fits] is the
   side condition under which Errs.call is what happens. *)
From Coq Require Import List NArith ZArith Bool Arith Lia.
From JV Require Import Bytes Json JsonProofs JsonPrint JsonTree JsonEq Msg Wire WireProofs WireSpecs WireMore.
From JV Require ErrsJson ErrsJsonProofs Errs ErrsProofs ErrsMore.
Import ListNotations.
Local Open Scope N_scope.

Definition err_rsp (id : bytes) (w : werr) : jmsg :=
  {| j_id := id; j_method := []; j_params := []; j_error := Some w; j_result := []; j_err := None |}.

(* the (compacted) error data are valid two containers down *)
Definition data_fits (d' : bytes) : bool := match d' with [] => true | _ => tight_at 2 d' end.

Lemma canon_msg_is_sanitize m :
  (if valid_utf8 m then m else snd (true, match unmarshal_string (escape_string m) with Some (Some x) => x | _ => [] end))
  = ErrsJson.sanitize_utf8 m.
Proof.
  rewrite ErrsMore.sanitize_is_unquote_escape. destruct (valid_utf8 m) eqn:V.
  - symmetry. exact (unquote_escape_body m V).
  - rewrite (proj1 (unmarshal_string_escape m)). reflexivity.
Qed.

(* what the server's encoder writes for the error w and the client's parser reads back IS Errs.sent w *)
Theorem transit_is_wire_round_trip : forall id w d' b,
  id_rt' id -> int32_ok (we_code w) -> Errs.wire_data (we_data w) = Some d' ->
  (we_data w = [] \/ Json.valid (we_data w) = true) -> data_fits d' = true ->
  enc_msg (err_rsp id w) = Some b ->
  parse_msgs b = InMsgs false [canon (err_rsp id w)] /\ j_id (parse_member b) = id /\
  j_error (parse_member b) = Some (Errs.sent w).
Proof.
  intros id w d' b Hid Hc Hw Hv Hf Henc.
  assert (Hdat : we_data w = [] \/ (Json.compact (we_data w) = Some d' /\ tight_at 2 d' = true)).
  { destruct (we_data w) as [|x dd] eqn:Ed; [left; reflexivity|]. right.
    destruct Hv as [Hv|Hv]; [discriminate Hv|]. cbn [Errs.wire_data] in Hw.
    pose proof (ErrsMore.compact_models_agree _ _ Hv Hw) as Hq. split; [exact Hq|].
    pose proof (compact_tight _ _ Hq) as Ht. destruct d' as [|y d'']; [vm_compute in Ht; discriminate Ht | exact Hf]. }
  assert (Hrt : msg_rt' (err_rsp id w)).
  { constructor; try (left; reflexivity); try reflexivity.
    - right. exact Hid.
    - intros e He _ _. injection He as <-. split; [exact Hc|].
      destruct Hdat as [Hd|[Hq Ht]]; [left; exact Hd | right; exists d'; split; assumption]. }
  destruct (parse_back' _ _ Hrt Henc) as (A & B & _ & D & _).
  assert (Hn : norm (err_rsp id w) = err_rsp id w) by reflexivity. rewrite Hn in A, B.
  split; [exact B|]. split; [exact D|]. rewrite A. unfold canon, err_rsp. cbn [j_method j_result j_error beq negb].
  f_equal. unfold Errs.sent. rewrite canon_msg_is_sanitize. f_equal.
  destruct Hdat as [Hd|[Hq _]].
  - rewrite Hd in *. cbn [Errs.wire_data] in Hw. injection Hw as <-. cbn [beq]. destruct (compact []); reflexivity.
  - rewrite Hq, Hw. destruct (beq_spec (we_data w) []) as [E|_]; [|reflexivity].
    rewrite E in Hq. vm_compute in Hq. discriminate Hq.
Qed.

(* the outcome of a call, the decodability of the reply taken into account *)
Inductive arrival :=
| Arrives (o : Errs.outcome)
| ClientStops.   (* the record cannot be decoded: the client stops with -32700 "invalid request value";
                    the pending call is cancelled and Call returns context.Canceled *)

Definition call_nested (r : Errs.hres) (e : Errs.gerr) : arrival :=
  match Errs.deliver (Errs.invoke false r e) with
  | Errs.WError w' => if data_fits (we_data w') then Arrives (Errs.OErr (Errs.from_wire w')) else ClientStops
  | Errs.WResult raw => Arrives (Errs.OResult raw)
  | Errs.WLost => Arrives Errs.OLost
  end.

(* the side condition, on the handler's error: only a *Error that is the returned value carries data *)
Definition err_data_fits (e : Errs.gerr) : bool :=
  match e with
  | Errs.EJrpc _ _ d => match Errs.wire_data d with Some d' => data_fits d' | None => true end
  | _ => true
  end.

Theorem call_nested_fits : forall r e, Errs.is_nil e = false -> err_data_fits e = true ->
  call_nested r e = Arrives (Errs.call r e).
Proof.
  intros r e Hn Hf. unfold call_nested. rewrite ErrsProofs.call_deliver.
  unfold Errs.deliver, Errs.deliver_gen, Errs.invoke, Errs.invoke_gen. rewrite Hn. cbn [Errs.respond andb]. rewrite Hn.
  change (Errs.transit_gen true) with Errs.transit. rewrite ErrsProofs.transit_total.
  assert (Hd : data_fits (we_data (Errs.sent (Errs.to_wire e))) = true).
  { destruct e; try reflexivity. cbn [Errs.to_wire Errs.sent we_data err_data_fits] in *. destruct (Errs.wire_data data); [exact Hf | reflexivity]. }
  rewrite Hd. reflexivity.
Qed.

Theorem code_preserved_nested : forall r e, Errs.is_nil e = false -> Errs.code_dom e = true -> err_data_fits e = true ->
  exists o, call_nested r e = Arrives o /\ Errs.outcome_code o = Some (Errs.error_code e).
Proof.
  intros r e Hn Hd Hf. exists (Errs.call r e). split; [exact (call_nested_fits r e Hn Hf) | exact (ErrsProofs.code_preserved r e Hn Hd)].
Qed.

(* an error that is not a top-level *Error carries no data: the side condition holds *)
Lemma err_data_fits_other e : Errs.is_top_jrpc e = false -> err_data_fits e = true.
Proof. destruct e; try reflexivity. discriminate. Qed.

(* the witness: data nested 9999 deep *)
Theorem nesting_side_condition_needed :
  let e := Errs.EJrpc 1 [] (deep 9999) in
  Errs.wire_data (deep 9999) = Some (deep 9999) /\ Json.valid (deep 9999) = true /\
  err_data_fits e = false /\
  (exists b, enc_msg (err_rsp [49] (deep_err 9999)) = Some b /\ parse_msgs b = InBad) /\
  (forall r, Errs.call r e = Errs.OErr (Errs.EJrpc 1 [] (deep 9999))) /\
  (forall r, call_nested r e = ClientStops) /\
  err_data_fits (Errs.EJrpc 1 [] (deep 9998)) = true /\
  (forall r, call_nested r (Errs.EJrpc 1 [] (deep 9998)) = Arrives (Errs.OErr (Errs.EJrpc 1 [] (deep 9998)))).
Proof.
  assert (H1 : Errs.wire_data (deep 9999) = Some (deep 9999)) by (vm_compute; reflexivity).
  assert (H2 : Errs.wire_data (deep 9998) = Some (deep 9998)) by (vm_compute; reflexivity).
  assert (F1 : data_fits (deep 9999) = false) by (vm_compute; reflexivity).
  assert (F2 : data_fits (deep 9998) = true) by (vm_compute; reflexivity).
  cbv zeta. split; [exact H1|]. split; [vm_compute; reflexivity|].
  split; [cbn [err_data_fits]; rewrite H1; exact F1|].
  split; [eexists; split; [vm_compute; reflexivity | vm_compute; reflexivity]|].
  split; [intros r; rewrite ErrsProofs.call_jrpc, H1; reflexivity|].
  split.
  { intros r. unfold call_nested. unfold Errs.deliver, Errs.deliver_gen, Errs.invoke, Errs.invoke_gen. cbn [Errs.is_nil Errs.respond andb].
    change (Errs.transit_gen true) with Errs.transit. rewrite ErrsProofs.transit_total.
    cbn [Errs.to_wire Errs.sent we_data]. rewrite H1, F1. reflexivity. }
  split; [cbn [err_data_fits]; rewrite H2; exact F2|].
  intros r. rewrite call_nested_fits; [|reflexivity | cbn [err_data_fits]; rewrite H2; exact F2].
  rewrite ErrsProofs.call_jrpc, H2. reflexivity.
Qed.

Example transit_is_wire_round_trip_nonvacuous :
  let w := {| we_code := 7%Z; we_msg := [97; 255]; we_data := [32; 91; 34; 60; 34; 93] |} in
  id_rt' [49] /\ int32_ok (we_code w) /\
  Errs.wire_data (we_data w) = Some [91; 34; 92; 117; 48; 48; 51; 99; 34; 93] /\
  Json.valid (we_data w) = true /\ data_fits [91; 34; 92; 117; 48; 48; 51; 99; 34; 93] = true /\
  exists b, enc_msg (err_rsp [49] w) = Some b /\
            j_error (parse_member b) = Some {| we_code := 7%Z; we_msg := [97; 239; 191; 189]; we_data := [91; 34; 92; 117; 48; 48; 51; 99; 34; 93] |}.
Proof.
  cbv zeta. split; [right; reflexivity|]. split; [unfold int32_ok; cbn; split; discriminate|].
  split; [vm_compute; reflexivity|]. split; [vm_compute; reflexivity|]. split; [vm_compute; reflexivity|].
  eexists. split; [vm_compute; reflexivity|]. vm_compute. reflexivity.
Qed.
