(* ErrsScanC: the converse of ErrsScan: the byte scanner of ErrsJson.v accepts every text the tree
   parser of Json.v accepts.  Together:
     forall d, ErrsJson.compact d = Json.compact d
   (the two models of json.Marshal(json.RawMessage) / json.Compact are the same function). *)
From Coq Require Import List NArith Bool Arith Lia.
From JV Require Import Bytes Json JsonProofs JsonPrint JsonTree JsonEq.
From JV Require Import ErrsJson ErrsJsonProofs ErrsScan.
From JV Require ErrsMore.
Import ListNotations.
Local Open Scope N_scope.

(* ---- an accepting run is a successful compaction ---- *)
Lemma accept_compact n : forall bs s, (length bs <= n)%nat -> accept s bs = true -> exists out, compact_from s bs = Some out.
Proof.
  induction n as [|n IH]; intros bs s Hl H.
  - destruct bs; [|cbn in Hl; lia]. cbn in H |- *. rewrite H. eexists; reflexivity.
  - destruct bs as [|c r]; [cbn in H |- *; rewrite H; eexists; reflexivity|].
    cbn [length] in Hl. cbn [compact_from]. destruct (ls_ahead c r) as [b2|] eqn:El.
    + destruct (ls_ahead_some c r b2 El) as (-> & r2 & -> & Hb2). cbn [accept] in H. unfold jstep3.
      destruct (jstep s 226) as [|s1 k1]; [discriminate H|]. destruct (jstep s1 128) as [|s2 k2]; [discriminate H|].
      destruct (jstep s2 b2) as [|s3 k3]; [discriminate H|].
      destruct (IH r2 s3 ltac:(cbn [length] in Hl; lia) H) as [o Ho]. rewrite Ho. eexists; reflexivity.
    + cbn [accept] in H. destruct (jstep s c) as [|s1 skip]; [discriminate H|].
      destruct (IH r s1 ltac:(lia) H) as [o Ho]. rewrite Ho. eexists; reflexivity.
Qed.

(* ---- strings ---- *)
Lemma str_run n : forall b st d rest, (length b <= n)%nat -> body_okb b = true ->
  accept (mk MInString st d) (b ++ 34 :: rest) = accept (mk MEndValue st d) rest.
Proof.
  induction n as [|n IH]; intros b st d rest Hl Hb.
  - destruct b; [reflexivity | cbn in Hl; lia].
  - destruct (body_cases b Hb) as [->|[(c & r & -> & Hc & Hr)|[(e & r & -> & He & Hr)|(h1 & h2 & h3 & h4 & r & -> & Hh & Hr)]]].
    + reflexivity.
    + cbn [length] in Hl. destruct (splain_not92 c Hc) as (N92 & N34 & N32).
      cbn [app accept]. rewrite jstep_instring, N34, N92, N32. apply IH; [lia | exact Hr].
    + cbn [length] in Hl. cbn [app accept]. rewrite jstep_instring. change (92 =? 34) with false. change (92 =? 92) with true. cbv iota.
      rewrite jstep_esc_mode.
      assert (Hs : (e =? 98) || (e =? 102) || (e =? 110) || (e =? 114) || (e =? 116) || (e =? 92) || (e =? 47) || (e =? 34) = true).
      { unfold eclass_of in He. destruct ((e =? 98) || (e =? 102) || (e =? 110) || (e =? 114) || (e =? 116) || (e =? 92) || (e =? 47) || (e =? 34)); [reflexivity|].
        destruct (e =? 117); discriminate He. }
      rewrite Hs. apply IH; [lia | exact Hr].
    + cbn [length] in Hl. apply andb_true_iff in Hh as [Hh H4]. apply andb_true_iff in Hh as [Hh H3]. apply andb_true_iff in Hh as [H1 H2].
      cbn [app accept]. rewrite jstep_instring. change (92 =? 34) with false. change (92 =? 92) with true. cbv iota.
      rewrite jstep_esc_mode. change ((117 =? 98) || (117 =? 102) || (117 =? 110) || (117 =? 114) || (117 =? 116) || (117 =? 92) || (117 =? 47) || (117 =? 34)) with false.
      change (117 =? 117) with true. cbv iota.
      rewrite jstep_escu, H1, jstep_escu1, H2, jstep_escu12, H3, jstep_escu123, H4. apply IH; [lia | exact Hr].
Qed.

(* ---- numbers: the shapes of the parts of a number literal ---- *)
Lemma digits_alldig_inv s d r : digits s = (d, r) -> alldig d = true.
Proof. intros H. exact (proj1 (proj2 (digits_inv _ _ _ H))). Qed.

Lemma p_exp_shape s ep r : p_exp s = Some (ep, r) ->
  ep = [] \/ exists e sg x ds, ep = e :: sg ++ x :: ds /\ is_e e = true /\ (sg = [] \/ sg = [43] \/ sg = [45]) /\
                               Json.is_digit x = true /\ alldig ds = true.
Proof.
  unfold p_exp. destruct s as [|c s']; [intros H; injection H as <- <-; left; reflexivity|].
  fold (is_e c). destruct (is_e c) eqn:Ec; [|intros H; injection H as <- <-; left; reflexivity].
  destruct (p_esign s') as [sg r1] eqn:Es. destruct (digits r1) as [dd r'] eqn:Ed.
  destruct dd as [|x ds]; [discriminate|]. intros H; injection H as <- <-. right.
  pose proof (digits_alldig_inv _ _ _ Ed) as Hd. cbn [alldig forallb] in Hd. apply andb_true_iff in Hd as [Hx Hds].
  exists c, sg, x, ds. split; [reflexivity|]. split; [exact Ec|]. split; [|split; assumption].
  unfold p_esign in Es. destruct s' as [|y s'']; [injection Es as <- _; left; reflexivity|].
  destruct ((y =? 43) || (y =? 45)) eqn:Ey; injection Es as <- _; [|left; reflexivity].
  apply orb_true_iff in Ey as [E|E]; apply N.eqb_eq in E; subst y; auto.
Qed.

Lemma p_frac_shape s fp r : p_frac s = Some (fp, r) ->
  fp = [] \/ exists x ds, fp = 46 :: x :: ds /\ Json.is_digit x = true /\ alldig ds = true.
Proof.
  unfold p_frac. destruct s as [|c s']; [intros H; injection H as <- <-; left; reflexivity|].
  destruct (c =? 46) eqn:Ec; [|intros H; injection H as <- <-; left; reflexivity].
  destruct (digits s') as [dd r'] eqn:Ed. destruct dd as [|x ds]; [discriminate|]. intros H; injection H as <- <-. right.
  pose proof (digits_alldig_inv _ _ _ Ed) as Hd. cbn [alldig forallb] in Hd. apply andb_true_iff in Hd as [Hx Hds].
  apply N.eqb_eq in Ec. subst c. exists x, ds. auto.
Qed.

Lemma p_int_shape s ip r : p_int s = Some (ip, r) ->
  ip = [48] \/ exists x ds, ip = x :: ds /\ is_digit19 x = true /\ alldig ds = true.
Proof.
  unfold p_int. destruct s as [|c s']; [discriminate|]. destruct (c =? 48) eqn:E0.
  - intros H; injection H as <- <-. apply N.eqb_eq in E0. subst c. left; reflexivity.
  - destruct (Json.is_digit c) eqn:Ed; [|discriminate]. destruct (digits s') as [ds r'] eqn:Eg. intros H; injection H as <- <-. right.
    exists c, ds. split; [reflexivity|]. split; [|exact (digits_alldig_inv _ _ _ Eg)].
    apply is_digit_rng in Ed. apply N.eqb_neq in E0. unfold is_digit19. apply andb_true_iff. split; apply N.leb_le; lia.
Qed.

(* what may follow a number *)
Definition tail_ok (rest : bytes) : Prop :=
  match rest with [] => True | x :: _ => Json.is_digit x = false /\ (x =? 46) = false /\ is_e x = false end.

Lemma term_tail_ok rest : term rest -> tail_ok rest.
Proof.
  destruct rest as [|x r]; [auto|]. cbn. intros H. destruct (term_facts x H) as (A & _ & C & _ & E). split; [exact A|]. split; [exact C | exact E].
Qed.

Lemma loop_m1 ds : forall st d X, alldig ds = true -> accept (mk M1 st d) (ds ++ X) = accept (mk M1 st d) X.
Proof.
  induction ds as [|c ds IH]; intros st d X H; [reflexivity|]. cbn [alldig forallb] in H. apply andb_true_iff in H as [Hc H].
  cbn [app accept]. rewrite jstep_m1, Hc. exact (IH st d X H).
Qed.
Lemma loop_mdot0 ds : forall st d X, alldig ds = true -> accept (mk MDot0 st d) (ds ++ X) = accept (mk MDot0 st d) X.
Proof.
  induction ds as [|c ds IH]; intros st d X H; [reflexivity|]. cbn [alldig forallb] in H. apply andb_true_iff in H as [Hc H].
  cbn [app accept]. rewrite jstep_mdot0, Hc. exact (IH st d X H).
Qed.
Lemma loop_me0 ds : forall st d X, alldig ds = true -> accept (mk ME0 st d) (ds ++ X) = accept (mk ME0 st d) X.
Proof.
  induction ds as [|c ds IH]; intros st d X H; [reflexivity|]. cbn [alldig forallb] in H. apply andb_true_iff in H as [Hc H].
  cbn [app accept]. rewrite jstep_me0, Hc. exact (IH st d X H).
Qed.

Lemma end_me0 st d rest : tail_ok rest -> accept (mk ME0 st d) rest = accept (mk MEndValue st d) rest.
Proof.
  intros H. apply accept_as_end. destruct rest as [|x r]; [split; reflexivity|]. destruct H as (A & _ & _). rewrite jstep_me0, A. reflexivity.
Qed.
Lemma end_mdot0 st d rest : tail_ok rest -> accept (mk MDot0 st d) rest = accept (mk MEndValue st d) rest.
Proof.
  intros H. apply accept_as_end. destruct rest as [|x r]; [split; reflexivity|]. destruct H as (A & _ & C). rewrite jstep_mdot0, A, C. reflexivity.
Qed.
Lemma end_m0 st d rest : tail_ok rest -> accept (mk M0 st d) rest = accept (mk MEndValue st d) rest.
Proof.
  intros H. apply accept_as_end. destruct rest as [|x r]; [split; reflexivity|]. destruct H as (_ & B & C). rewrite jstep_m0, B, C. reflexivity.
Qed.
Lemma end_m1 st d rest : tail_ok rest -> accept (mk M1 st d) rest = accept (mk MEndValue st d) rest.
Proof.
  intros H. apply accept_as_end. destruct rest as [|x r]; [split; reflexivity|]. destruct H as (A & B & C). rewrite jstep_m1, A, B, C. reflexivity.
Qed.

(* from the 'e' on, once the scanner is in mode ME *)
Lemma run_exp_tail st d sg x ds rest : (sg = [] \/ sg = [43] \/ sg = [45]) -> Json.is_digit x = true -> alldig ds = true -> tail_ok rest ->
  accept (mk ME st d) (sg ++ x :: ds ++ rest) = accept (mk MEndValue st d) rest.
Proof.
  intros Hs Hx Hd Ht.
  assert (Hx' : (x =? 43) || (x =? 45) = false).
  { apply is_digit_rng in Hx. apply orb_false_iff. split; apply N.eqb_neq; lia. }
  assert (Hgo : accept (mk ME0 st d) (ds ++ rest) = accept (mk MEndValue st d) rest) by (rewrite (loop_me0 ds st d rest Hd); exact (end_me0 st d rest Ht)).
  destruct Hs as [->|[-> | ->]]; cbn [app accept]; rewrite jstep_me.
  - rewrite Hx', Hx. exact Hgo.
  - change ((43 =? 43) || (43 =? 45)) with true. cbv iota. rewrite jstep_mesign, Hx. exact Hgo.
  - change ((45 =? 43) || (45 =? 45)) with true. cbv iota. rewrite jstep_mesign, Hx. exact Hgo.
Qed.

Definition exp_shape (ep : bytes) : Prop :=
  ep = [] \/ exists e sg x ds, ep = e :: sg ++ x :: ds /\ is_e e = true /\ (sg = [] \/ sg = [43] \/ sg = [45]) /\
                               Json.is_digit x = true /\ alldig ds = true.

Lemma is_e_not_digit e : is_e e = true -> Json.is_digit e = false /\ (e =? 46) = false.
Proof. intros H. destruct (is_e_facts e H) as (A & B & _). split; assumption. Qed.

Lemma run_exp_m0 st d ep rest : exp_shape ep -> tail_ok rest -> accept (mk M0 st d) (ep ++ rest) = accept (mk MEndValue st d) rest.
Proof.
  intros [->|(e & sg & x & ds & -> & He & Hs & Hx & Hd)] Ht; [exact (end_m0 st d rest Ht)|].
  destruct (is_e_not_digit e He) as [A B]. cbn [app accept]. rewrite jstep_m0, B, He. rewrite <- ?app_assoc. cbn [app].
  exact (run_exp_tail st d sg x ds rest Hs Hx Hd Ht).
Qed.
Lemma run_exp_m1 st d ep rest : exp_shape ep -> tail_ok rest -> accept (mk M1 st d) (ep ++ rest) = accept (mk MEndValue st d) rest.
Proof.
  intros [->|(e & sg & x & ds & -> & He & Hs & Hx & Hd)] Ht; [exact (end_m1 st d rest Ht)|].
  destruct (is_e_not_digit e He) as [A B]. cbn [app accept]. rewrite jstep_m1, A, B, He. rewrite <- ?app_assoc. cbn [app].
  exact (run_exp_tail st d sg x ds rest Hs Hx Hd Ht).
Qed.
Lemma run_exp_mdot0 st d ep rest : exp_shape ep -> tail_ok rest -> accept (mk MDot0 st d) (ep ++ rest) = accept (mk MEndValue st d) rest.
Proof.
  intros [->|(e & sg & x & ds & -> & He & Hs & Hx & Hd)] Ht; [exact (end_mdot0 st d rest Ht)|].
  destruct (is_e_not_digit e He) as [A B]. cbn [app accept]. rewrite jstep_mdot0, A, He. rewrite <- ?app_assoc. cbn [app].
  exact (run_exp_tail st d sg x ds rest Hs Hx Hd Ht).
Qed.

Definition frac_shape (fp : bytes) : Prop := fp = [] \/ exists x ds, fp = 46 :: x :: ds /\ Json.is_digit x = true /\ alldig ds = true.

Lemma run_frac_dot st d x ds ep rest : Json.is_digit x = true -> alldig ds = true -> exp_shape ep -> tail_ok rest ->
  accept (mk MDot st d) (x :: ds ++ ep ++ rest) = accept (mk MEndValue st d) rest.
Proof.
  intros Hx Hd He Ht. cbn [accept]. rewrite jstep_mdot, Hx. rewrite (loop_mdot0 ds st d _ Hd). exact (run_exp_mdot0 st d ep rest He Ht).
Qed.

Lemma run_tail_m0 st d fp ep rest : frac_shape fp -> exp_shape ep -> tail_ok rest ->
  accept (mk M0 st d) (fp ++ ep ++ rest) = accept (mk MEndValue st d) rest.
Proof.
  intros [->|(x & ds & -> & Hx & Hd)] He Ht; [exact (run_exp_m0 st d ep rest He Ht)|].
  cbn [app accept]. rewrite jstep_m0. change (46 =? 46) with true. cbv iota.
  exact (run_frac_dot st d x ds ep rest Hx Hd He Ht).
Qed.
Lemma run_tail_m1 st d fp ep rest : frac_shape fp -> exp_shape ep -> tail_ok rest ->
  accept (mk M1 st d) (fp ++ ep ++ rest) = accept (mk MEndValue st d) rest.
Proof.
  intros [->|(x & ds & -> & Hx & Hd)] He Ht; [exact (run_exp_m1 st d ep rest He Ht)|].
  cbn [app accept]. rewrite jstep_m1. change (Json.is_digit 46) with false. change (46 =? 46) with true. cbv iota.
  exact (run_frac_dot st d x ds ep rest Hx Hd He Ht).
Qed.

(* a number literal, from MBeginValue *)
Lemma num_run st d n rest : is_num_lit n = true -> tail_ok rest ->
  accept (mk MBeginValue st d) (n ++ rest) = accept (mk MEndValue st d) rest.
Proof.
  unfold is_num_lit, pnum. destruct (p_sign n) as [sg s1] eqn:E1.
  destruct (p_int s1) as [[ip s2]|] eqn:E2; [|discriminate].
  destruct (p_frac s2) as [[fp s3]|] eqn:E3; [|discriminate].
  destruct (p_exp s3) as [[ep s4]|] eqn:E4; [|discriminate].
  destruct s4; [|discriminate]. intros _ Ht.
  pose proof (p_exp_shape _ _ _ E4) as He. pose proof (p_frac_shape _ _ _ E3) as Hf. pose proof (p_int_shape _ _ _ E2) as Hi.
  assert (Hn : n = sg ++ ip ++ fp ++ ep).
  { pose proof (pnum_props n (sg ++ ip ++ fp ++ ep) []) as Hp. unfold pnum in Hp. rewrite E1, E2, E3, E4 in Hp.
    destruct (Hp eq_refl) as [Hp' _]. rewrite app_nil_r in Hp'. exact Hp'. }
  assert (Hs : sg = [] \/ sg = [45]).
  { unfold p_sign in E1. destruct n as [|c n']; [injection E1 as <- _; left; reflexivity|].
    destruct (c =? 45) eqn:Ec; injection E1 as <- _; [|left; reflexivity]. apply N.eqb_eq in Ec. subst c. right; reflexivity. }
  rewrite Hn. clear Hn E1 E2 E3 E4.
  assert (Hint : forall m0 m1, m0 = mk M0 st d -> m1 = mk M1 st d ->
            (ip = [48] -> accept m0 (fp ++ ep ++ rest) = accept (mk MEndValue st d) rest) /\
            (forall ds, alldig ds = true -> accept m1 (ds ++ fp ++ ep ++ rest) = accept (mk MEndValue st d) rest)).
  { intros m0 m1 -> ->. split; [intros _; exact (run_tail_m0 st d fp ep rest Hf He Ht)|].
    intros ds Hd. rewrite (loop_m1 ds st d _ Hd). exact (run_tail_m1 st d fp ep rest Hf He Ht). }
  destruct (Hint _ _ eq_refl eq_refl) as [H0 H1].
  destruct Hs as [-> | ->]; destruct Hi as [->|(x & ds & -> & Hx & Hd)]; rewrite <- ?app_assoc; cbn [app accept].
  - rewrite jstep_beginvalue, begin_value_cases by reflexivity. cbn [N.eqb Pos.eqb]. cbv iota. exact (H0 eq_refl).
  - assert (Hr : 49 <= x <= 57) by (unfold is_digit19 in Hx; apply andb_true_iff in Hx as [A B]; apply N.leb_le in A, B; lia).
    rewrite jstep_beginvalue, begin_value_cases by (unfold is_ws; repeat match goal with |- context [?a =? ?b] => replace (a =? b) with false by (symmetry; apply N.eqb_neq; lia) end; reflexivity).
    repeat match goal with |- context [x =? ?b] => replace (x =? b) with false by (symmetry; apply N.eqb_neq; lia) end.
    rewrite Hx. exact (H1 ds Hd).
  - rewrite jstep_beginvalue, begin_value_cases by reflexivity. cbn [N.eqb Pos.eqb]. cbv iota. rewrite jstep_mneg. change (48 =? 48) with true. cbv iota. exact (H0 eq_refl).
  - assert (Hr : 49 <= x <= 57) by (unfold is_digit19 in Hx; apply andb_true_iff in Hx as [A B]; apply N.leb_le in A, B; lia).
    rewrite jstep_beginvalue, begin_value_cases by reflexivity. cbn [N.eqb Pos.eqb]. cbv iota. rewrite jstep_mneg.
    replace (x =? 48) with false by (symmetry; apply N.eqb_neq; lia). rewrite Hx. exact (H1 ds Hd).
Qed.

(* ---- trees ---- *)
Local Notation cp := (cprint (fun b : bytes => b) (fun w : bytes => w)).
Local Notation et := (elems_text (fun w : bytes => w) cp).
Local Notation mt := (mems_text (fun b : bytes => b) (fun w : bytes => w) cp).

Definition runs (c : Json.cst) : Prop := forall d st rest, cwf d c = true -> term rest ->
  accept (mk MBeginValue st d) (cp c rest) = accept (mk MEndValue st d) rest.

Lemma depth_le d : (d <? max_depth) = true -> (d + 1 <=? max_nesting_depth) = true.
Proof. intros H. apply N.ltb_lt in H. apply N.leb_le. unfold max_depth in H. unfold max_nesting_depth. lia. Qed.

Lemma pop_arr st d rest : accept (mk MEndValue (PArr :: st) (d + 1)) (93 :: rest) = accept (mk MEndValue st d) rest.
Proof.
  cbn [accept]. rewrite jstep_endvalue. unfold end_value, pop. cbn [mk sc_stack sc_depth]. rewrite is_space_eq.
  change (is_ws 93) with false. change (93 =? 44) with false. change (93 =? 93) with true. cbv iota.
  replace (N.pred (d + 1)) with d by lia. exact (pop_accept st d rest).
Qed.

Lemma pop_obj st d rest : accept (mk MEndValue (PVal :: st) (d + 1)) (125 :: rest) = accept (mk MEndValue st d) rest.
Proof.
  cbn [accept]. rewrite jstep_endvalue. unfold end_value, pop. cbn [mk sc_stack sc_depth]. rewrite is_space_eq.
  change (is_ws 125) with false. change (125 =? 44) with false. change (125 =? 125) with true. cbv iota.
  replace (N.pred (d + 1)) with d by lia. exact (pop_accept st d rest).
Qed.

Lemma comma_arr st d1 rest : accept (mk MEndValue (PArr :: st) d1) (44 :: rest) = accept (mk MBeginValue (PArr :: st) d1) rest.
Proof. reflexivity. Qed.
Lemma comma_obj st d1 rest : accept (mk MEndValue (PVal :: st) d1) (44 :: rest) = accept (mk MBeginString (PKey :: st) d1) rest.
Proof. reflexivity. Qed.
Lemma colon_obj st d1 rest : accept (mk MEndValue (PKey :: st) d1) (58 :: rest) = accept (mk MBeginValue (PVal :: st) d1) rest.
Proof. reflexivity. Qed.
Lemma quote_key st d1 rest : accept (mk MBeginString (PKey :: st) d1) (34 :: rest) = accept (mk MInString (PKey :: st) d1) rest.
Proof. reflexivity. Qed.

Lemma elems_run d st : forall es rest, es <> [] -> Forall (fun e => runs (snd (fst e))) es -> forallb (elem_wf (d + 1)) es = true ->
  accept (mk MBeginValue (PArr :: st) (d + 1)) (et es rest) = accept (mk MEndValue st d) rest.
Proof.
  induction es as [|[[w1 c1] wa] es IH]; intros rest Hne HF Hwf; [contradiction|].
  inversion HF as [|? ? Hc1 HF']; subst. cbn [fst snd] in Hc1.
  cbn [forallb] in Hwf. apply andb_true_iff in Hwf as [He Hes]. unfold elem_wf in He. cbn [fst snd] in He.
  apply andb_true_iff in He as [He Hwa]. apply andb_true_iff in He as [Hw1 Hcw].
  rewrite et_cons. rewrite (accept_ws_prefix _ (ws_beginvalue (PArr :: st) (d + 1)) w1 _ Hw1).
  rewrite (Hc1 (d + 1) (PArr :: st) _ Hcw (term_ws_app _ _ Hwa (term_ek es rest))).
  rewrite (accept_ws_prefix _ (ws_endvalue PArr st (d + 1)) wa _ Hwa).
  unfold ek. destruct es as [|e2 es2]; [apply pop_arr|].
  rewrite comma_arr. apply IH; [discriminate | exact HF' | exact Hes].
Qed.

Lemma mems_run d st : forall ms rest, ms <> [] -> Forall (fun m => runs (snd (fst (snd m)))) ms -> forallb (mem_wf (d + 1)) ms = true ->
  accept (mk MBeginString (PKey :: st) (d + 1)) (mt ms rest) = accept (mk MEndValue st d) rest.
Proof.
  induction ms as [|[[[wk k] wc] [[wv c] wa]] ms IH]; intros rest Hne HF Hwf; [contradiction|].
  inversion HF as [|? ? Hc HF']; subst. cbn [fst snd] in Hc.
  cbn [forallb] in Hwf. apply andb_true_iff in Hwf as [Hm Hms]. unfold mem_wf in Hm. cbn [fst snd] in Hm.
  apply andb_true_iff in Hm as [Hm Hwa]. apply andb_true_iff in Hm as [Hm Hcw]. apply andb_true_iff in Hm as [Hm Hwv].
  apply andb_true_iff in Hm as [Hm Hwc]. apply andb_true_iff in Hm as [Hwk Hk].
  rewrite mt_cons. rewrite (accept_ws_prefix _ (ws_beginstring (PKey :: st) (d + 1)) wk _ Hwk).
  rewrite quote_key. rewrite (str_run (length k) k (PKey :: st) (d + 1) _ (le_n _) Hk).
  rewrite (accept_ws_prefix _ (ws_endvalue PKey st (d + 1)) wc _ Hwc). rewrite colon_obj.
  rewrite (accept_ws_prefix _ (ws_beginvalue (PVal :: st) (d + 1)) wv _ Hwv).
  rewrite (Hc (d + 1) (PVal :: st) _ Hcw (term_ws_app _ _ Hwa (term_mk ms rest))).
  rewrite (accept_ws_prefix _ (ws_endvalue PVal st (d + 1)) wa _ Hwa).
  unfold JsonTree.mk. destruct ms as [|m2 ms2]; [apply pop_obj|].
  rewrite comma_obj. apply IH; [discriminate | exact HF' | exact Hms].
Qed.

Lemma beginvalue_or_empty_as_beginvalue st d1 y t : is_ws y = false -> y <> 93 ->
  accept (mk MBeginValueOrEmpty st d1) (y :: t) = accept (mk MBeginValue st d1) (y :: t).
Proof.
  intros Hy H93. cbn [accept]. rewrite jstep_beginvalue. cbn [jstep mk sc_mode]. rewrite is_space_eq, Hy.
  replace (y =? 93) with false by (symmetry; apply N.eqb_neq; exact H93).
  destruct (begin_value_mode MBeginValueOrEmpty MBeginValue st d1 y) as [->|Hc]; [reflexivity | rewrite Hc in Hy; discriminate Hy].
Qed.

Lemma push_arr st d rest : (d <? max_depth) = true ->
  accept (mk MBeginValue st d) (91 :: rest) = accept (mk MBeginValueOrEmpty (PArr :: st) (d + 1)) rest.
Proof. intros H. cbn [accept]. rewrite jstep_beginvalue, begin_value_cases by reflexivity. cbn [N.eqb Pos.eqb]. cbv iota. rewrite (depth_le d H). reflexivity. Qed.
Lemma push_obj st d rest : (d <? max_depth) = true ->
  accept (mk MBeginValue st d) (123 :: rest) = accept (mk MBeginStringOrEmpty (PKey :: st) (d + 1)) rest.
Proof. intros H. cbn [accept]. rewrite jstep_beginvalue, begin_value_cases by reflexivity. cbn [N.eqb Pos.eqb]. cbv iota. rewrite (depth_le d H). reflexivity. Qed.

Theorem tree_runs : forall c, runs c.
Proof.
  induction c using cst_ind'; intros d st rest Hwf Ht; cbn [cprint].
  - reflexivity.
  - reflexivity.
  - reflexivity.
  - cbn [cwf] in Hwf. exact (num_run st d n rest Hwf (term_tail_ok rest Ht)).
  - cbn [cwf] in Hwf. cbn [accept]. rewrite jstep_beginvalue, begin_value_cases by reflexivity. cbn [N.eqb Pos.eqb]. cbv iota.
    exact (str_run (length b) b st d rest (le_n _) Hwf).
  - rewrite cwf_arr in Hwf. apply andb_true_iff in Hwf as [Hwf Hes]. apply andb_true_iff in Hwf as [Hwf Hw0]. apply andb_true_iff in Hwf as [Hd Hw].
    rewrite (push_arr st d _ Hd). replace (N.succ d) with (d + 1) in Hes by lia.
    destruct es as [|[[w1 c1] wa] es'].
    + rewrite (accept_ws_prefix _ (ws_beginvalue_or_empty (PArr :: st) (d + 1)) w _ Hw).
      cbn [accept]. cbn [jstep mk sc_mode]. rewrite is_space_eq. change (is_ws 93) with false. change (93 =? 93) with true. cbv iota.
      exact (pop_arr st d rest).
    + rewrite <- (elems_run d st ((w1, c1, wa) :: es') rest ltac:(discriminate) H Hes).
      rewrite !et_cons.
      pose proof Hes as Hes'. cbn [forallb] in Hes'. apply andb_true_iff in Hes' as [He _]. unfold elem_wf in He. cbn [fst snd] in He.
      apply andb_true_iff in He as [He Hwa]. apply andb_true_iff in He as [Hw1 Hcw].
      rewrite (accept_ws_prefix _ (ws_beginvalue_or_empty (PArr :: st) (d + 1)) w1 _ Hw1).
      rewrite (accept_ws_prefix _ (ws_beginvalue (PArr :: st) (d + 1)) w1 _ Hw1).
      pose proof (ctext_PV (d + 1) c1 (wa ++ ek es' rest) Hcw (term_ws_app _ _ Hwa (term_ek es' rest))) as Hpv.
      destruct (PV_head _ _ _ _ Hpv) as (y & t & Hy & Hyw & Hy93). unfold ctext in Hy. rewrite Hy.
      exact (beginvalue_or_empty_as_beginvalue (PArr :: st) (d + 1) y t Hyw Hy93).
  - rewrite cwf_obj in Hwf. apply andb_true_iff in Hwf as [Hwf Hms]. apply andb_true_iff in Hwf as [Hwf Hw0]. apply andb_true_iff in Hwf as [Hd Hw].
    rewrite (push_obj st d _ Hd). replace (N.succ d) with (d + 1) in Hms by lia.
    destruct ms as [|[[[wk k] wc] [[wv c1] wa]] ms'].
    + rewrite (accept_ws_prefix _ (ws_beginstring_or_empty (PKey :: st) (d + 1)) w _ Hw).
      cbn [accept]. cbn [jstep mk sc_mode sc_stack]. rewrite is_space_eq. change (is_ws 125) with false. change (125 =? 125) with true. cbv iota.
      exact (pop_obj st d rest).
    + rewrite <- (mems_run d st (((wk, k, wc), (wv, c1, wa)) :: ms') rest ltac:(discriminate) H Hms).
      rewrite !mt_cons.
      pose proof Hms as Hms'. cbn [forallb] in Hms'. apply andb_true_iff in Hms' as [Hm _]. unfold mem_wf in Hm. cbn [fst snd] in Hm.
      apply andb_true_iff in Hm as [Hm _]. apply andb_true_iff in Hm as [Hm _]. apply andb_true_iff in Hm as [Hm _].
      apply andb_true_iff in Hm as [Hm _]. apply andb_true_iff in Hm as [Hwk _].
      rewrite (accept_ws_prefix _ (ws_beginstring_or_empty (PKey :: st) (d + 1)) wk _ Hwk).
      rewrite (accept_ws_prefix _ (ws_beginstring (PKey :: st) (d + 1)) wk _ Hwk).
      reflexivity.
Qed.

(* ---- the top level ---- *)
Lemma ws_accept_end d0 : forall w, all_ws w = true -> accept (mk MEndValue [] d0) w = true.
Proof.
  induction w as [|x w IH]; intros H; [reflexivity|]. cbn [all_ws forallb] in H. apply andb_true_iff in H as [Hx Hw].
  cbn [accept]. rewrite jstep_endvalue. unfold end_value. cbn [mk sc_stack]. rewrite is_space_eq, Hx.
  change (with_mode (mk MEndValue [] d0) MEndTop) with (mk MEndTop [] d0). rewrite accept_endtop. exact (IH Hw).
Qed.

(* the byte scanner accepts every text the tree parser accepts *)
Theorem valid_scanner_accepts : forall d, Json.valid d = true -> exists d', ErrsJson.compact d = Some d'.
Proof.
  intros d Hv. unfold Json.valid in Hv. destruct (Json.parse_doc d) as [[[w c] w1]|] eqn:E; [|discriminate].
  destruct (ErrsMore.parse_doc_text _ _ _ _ E) as (-> & Hw & Hw1 & Hwf).
  unfold ErrsJson.compact. apply (accept_compact (length (w ++ ctext c w1))); [apply le_n|].
  change scanner0 with (mk MBeginValue [] 0). rewrite (accept_ws_prefix _ (ws_beginvalue [] 0) w _ Hw).
  unfold ctext. rewrite (tree_runs c 0 [] w1 Hwf (all_ws_term w1 Hw1)). exact (ws_accept_end 0 w1 Hw1).
Qed.

(* the two models of json.Marshal(json.RawMessage) / json.Compact are the same function *)
Theorem compact_models_equal : forall d, ErrsJson.compact d = Json.compact d.
Proof.
  intros d. destruct (ErrsJson.compact d) as [d'|] eqn:E.
  - symmetry. exact (compact_models_agree_all d d' E).
  - destruct (Json.compact d) as [q|] eqn:Eq; [|reflexivity]. exfalso.
    assert (Hv : Json.valid d = true) by (unfold Json.compact in Eq; unfold Json.valid; destruct (Json.parse_doc d); [reflexivity | discriminate Eq]).
    destruct (valid_scanner_accepts d Hv) as [d' Hd']. rewrite Hd' in E. discriminate E.
Qed.

Theorem json_valid_models_equal : forall d, ErrsJson.json_valid d = Json.valid d.
Proof.
  intros d. unfold ErrsJson.json_valid. rewrite compact_models_equal. unfold Json.compact, Json.valid.
  destruct (Json.parse_doc d) as [[[w c] w1]|]; reflexivity.
Qed.
