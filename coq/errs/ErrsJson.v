(* ErrsJson: the two encoding/json behaviours an error object meets on its way from
   the server to the client (definitions only, executable):

   - compact: what json.Marshal does to a json.RawMessage (Error.Data): Go's
     byte-at-a-time scanner (encoding/json/scanner.go) decides validity and which
     bytes are insignificant white space; appendCompact(escapeHTML = true) drops
     those and rewrites '<' '>' '&' and U+2028/U+2029.  None = Marshal fails.
   - sanitize_utf8: what a Go string (Error.Message) becomes after
     json.Marshal followed by json.Unmarshal: every byte that utf8.DecodeRune
     rejects is replaced by U+FFFD, everything else comes back unchanged.

   Both are contracts of the standard library, not of jrpc2; the C14 harness checks
   them against the real functions in its glue families (lines "G" and "S"). *)
From Coq Require Import List NArith Bool.
From JV Require Import Bytes.
Import ListNotations.
Local Open Scope N_scope.

(* ---- scanner.go ---------------------------------------------------------- *)

Inductive jmode :=
| MBeginValue | MBeginValueOrEmpty | MBeginStringOrEmpty | MBeginString
| MEndValue | MEndTop
| MInString | MInStringEsc | MEscU | MEscU1 | MEscU12 | MEscU123
| MNeg | M0 | M1 | MDot | MDot0 | ME | MESign | ME0
| MT | MTr | MTru | MF | MFa | MFal | MFals | MN | MNu | MNul.

Inductive pstate := PKey | PVal | PArr.   (* parseObjectKey / parseObjectValue / parseArrayValue *)

(* the stack's top is the head of the list; sc_depth = length sc_stack, kept as a
   number so that the nesting limit is a comparison, not a length computation *)
Record scanner := { sc_mode : jmode; sc_stack : list pstate; sc_depth : N }.

Definition scanner0 : scanner := {| sc_mode := MBeginValue; sc_stack := []; sc_depth := 0 |}.

(* a step either fails (scanError) or gives the next scanner and whether the byte
   is to be dropped by Compact (result >= scanSkipSpace) *)
Inductive sres := SErr | SOk (s : scanner) (skip : bool).

Definition max_nesting_depth : N := 10000.

Definition is_space (c : N) : bool := (c =? 32) || (c =? 9) || (c =? 13) || (c =? 10).
Definition is_digit (c : N) : bool := (48 <=? c) && (c <=? 57).
Definition is_digit19 (c : N) : bool := (49 <=? c) && (c <=? 57).
Definition is_hex (c : N) : bool :=
  is_digit c || ((97 <=? c) && (c <=? 102)) || ((65 <=? c) && (c <=? 70)).

Definition with_mode (s : scanner) (m : jmode) : scanner :=
  {| sc_mode := m; sc_stack := sc_stack s; sc_depth := sc_depth s |}.

Definition go (s : scanner) (m : jmode) : sres := SOk (with_mode s m) false.

Definition push (s : scanner) (p : pstate) (m : jmode) : sres :=
  if sc_depth s + 1 <=? max_nesting_depth
  then SOk {| sc_mode := m; sc_stack := p :: sc_stack s; sc_depth := sc_depth s + 1 |} false
  else SErr.

(* popParseState *)
Definition pop (rest : list pstate) (d : N) : sres :=
  SOk {| sc_mode := match rest with [] => MEndTop | _ => MEndValue end;
         sc_stack := rest; sc_depth := N.pred d |} false.

(* stateEndValue (and stateEndTop when the stack is empty) *)
Definition end_value (s : scanner) (c : N) : sres :=
  match sc_stack s with
  | [] => if is_space c then SOk (with_mode s MEndTop) true else SErr
  | ps :: rest =>
      if is_space c then SOk (with_mode s MEndValue) true
      else match ps with
           | PKey => if c =? 58 (* : *)
                     then SOk {| sc_mode := MBeginValue; sc_stack := PVal :: rest; sc_depth := sc_depth s |} false
                     else SErr
           | PVal => if c =? 44 (* , *)
                     then SOk {| sc_mode := MBeginString; sc_stack := PKey :: rest; sc_depth := sc_depth s |} false
                     else if c =? 125 (* } *) then pop rest (sc_depth s)
                     else SErr
           | PArr => if c =? 44 then go s MBeginValue
                     else if c =? 93 (* ] *) then pop rest (sc_depth s)
                     else SErr
           end
  end.

(* stateBeginValue; a space leaves the current step function in place *)
Definition begin_value (s : scanner) (c : N) : sres :=
  if is_space c then SOk s true
  else if c =? 123 (* { *) then push s PKey MBeginStringOrEmpty
  else if c =? 91 (* [ *) then push s PArr MBeginValueOrEmpty
  else if c =? 34 (* dquote *) then go s MInString
  else if c =? 45 (* - *) then go s MNeg
  else if c =? 48 (* 0 *) then go s M0
  else if c =? 116 (* t *) then go s MT
  else if c =? 102 (* f *) then go s MF
  else if c =? 110 (* n *) then go s MN
  else if is_digit19 c then go s M1
  else SErr.

Definition begin_string (s : scanner) (c : N) : sres :=
  if is_space c then SOk s true
  else if c =? 34 then go s MInString
  else SErr.

Definition expect (s : scanner) (c want : N) (m : jmode) : sres :=
  if c =? want then go s m else SErr.

Definition state0 (s : scanner) (c : N) : sres :=
  if c =? 46 (* . *) then go s MDot
  else if (c =? 101) || (c =? 69) (* e E *) then go s ME
  else end_value s c.

Definition state_esign (s : scanner) (c : N) : sres :=
  if is_digit c then go s ME0 else SErr.

Definition jstep (s : scanner) (c : N) : sres :=
  match sc_mode s with
  | MBeginValue => begin_value s c
  | MBeginValueOrEmpty =>
      if is_space c then SOk s true
      else if c =? 93 then end_value s c
      else begin_value s c
  | MBeginStringOrEmpty =>
      if is_space c then SOk s true
      else if c =? 125 then
        match sc_stack s with
        | _ :: rest => end_value {| sc_mode := sc_mode s; sc_stack := PVal :: rest; sc_depth := sc_depth s |} c
        | [] => SErr   (* unreachable: this mode is entered by a push *)
        end
      else begin_string s c
  | MBeginString => begin_string s c
  | MEndValue => end_value s c
  | MEndTop => if is_space c then SOk s true else SErr
  | MInString =>
      if c =? 34 then go s MEndValue
      else if c =? 92 (* \ *) then go s MInStringEsc
      else if c <? 32 then SErr
      else go s MInString
  | MInStringEsc =>
      if (c =? 98) || (c =? 102) || (c =? 110) || (c =? 114) || (c =? 116) ||
         (c =? 92) || (c =? 47) || (c =? 34) then go s MInString
      else if c =? 117 (* u *) then go s MEscU
      else SErr
  | MEscU => if is_hex c then go s MEscU1 else SErr
  | MEscU1 => if is_hex c then go s MEscU12 else SErr
  | MEscU12 => if is_hex c then go s MEscU123 else SErr
  | MEscU123 => if is_hex c then go s MInString else SErr
  | MNeg => if c =? 48 then go s M0 else if is_digit19 c then go s M1 else SErr
  | M1 => if is_digit c then go s M1 else state0 s c
  | M0 => state0 s c
  | MDot => if is_digit c then go s MDot0 else SErr
  | MDot0 =>
      if is_digit c then go s MDot0
      else if (c =? 101) || (c =? 69) then go s ME
      else end_value s c
  | ME => if (c =? 43) || (c =? 45) then go s MESign else state_esign s c
  | MESign => state_esign s c
  | ME0 => if is_digit c then go s ME0 else end_value s c
  | MT => expect s c 114 MTr
  | MTr => expect s c 117 MTru
  | MTru => expect s c 101 MEndValue
  | MF => expect s c 97 MFa
  | MFa => expect s c 108 MFal
  | MFal => expect s c 115 MFals
  | MFals => expect s c 101 MEndValue
  | MN => expect s c 117 MNu
  | MNu => expect s c 108 MNul
  | MNul => expect s c 108 MEndValue
  end.

Definition is_end_top (s : scanner) : bool :=
  match sc_mode s with MEndTop => true | _ => false end.

(* scanner.eof: the input is complete iff the top-level value has ended, possibly
   only once a delimiter (a space) is seen *)
Definition eof_ok (s : scanner) : bool :=
  is_end_top s ||
  match jstep s 32 with
  | SOk s' _ => is_end_top s'
  | SErr => false
  end.

(* ---- indent.go appendCompact with escapeHTML = true ----------------------------- *)

Definition hex_digit (n : N) : N := if n <? 10 then 48 + n else 87 + n.   (* "0123456789abcdef" *)

(* \u00XY for '<' '>' '&', the byte itself otherwise *)
Definition html_emit (c : N) : bytes :=
  if (c =? 60) || (c =? 62) || (c =? 38)
  then [92; 117; 48; 48; hex_digit (c / 16); hex_digit (c mod 16)]
  else [c].

(* \u2028 / \u2029 from the third byte (A8 / A9) of the UTF-8 sequence *)
Definition ls_escape (b2 : N) : bytes := [92; 117; 50; 48; 50; hex_digit (b2 mod 16)].

(* c r begins E2 80 A8 or E2 80 A9: the third byte *)
Definition ls_ahead (c : N) (r : bytes) : option N :=
  if c =? 226 then
    match r with
    | b1 :: b2 :: _ => if (b1 =? 128) && ((b2 =? 168) || (b2 =? 169)) then Some b2 else None
    | _ => None
    end
  else None.

(* feeding three bytes none of which can be dropped *)
Definition jstep3 (s : scanner) (a b c : N) : option scanner :=
  match jstep s a with
  | SErr => None
  | SOk s1 _ =>
      match jstep s1 b with
      | SErr => None
      | SOk s2 _ =>
          match jstep s2 c with
          | SErr => None
          | SOk s3 _ => Some s3
          end
      end
  end.

Definition prepend (a : bytes) (o : option bytes) : option bytes :=
  match o with Some b => Some (a ++ b) | None => None end.

Fixpoint compact_from (s : scanner) (bs : bytes) : option bytes :=
  match bs with
  | [] => if eof_ok s then Some [] else None
  | c :: r =>
      match ls_ahead c r with
      | Some b2 =>
          match r with
          | _ :: _ :: r2 =>
              match jstep3 s c 128 b2 with
              | None => None
              | Some s' => prepend (ls_escape b2) (compact_from s' r2)
              end
          | _ => None   (* unreachable: ls_ahead saw two more bytes *)
          end
      | None =>
          match jstep s c with
          | SErr => None
          | SOk s' skip => prepend (if skip then [] else html_emit c) (compact_from s' r)
          end
      end
  end.

(* json.Marshal(json.RawMessage(d)) for non-empty d *)
Definition compact (d : bytes) : option bytes := compact_from scanner0 d.

Definition json_valid (d : bytes) : bool :=
  match compact d with Some _ => true | None => false end.

(* ---- what compaction does, stated without the scanner --------------------------------- *)

(* A three-state reading of the text: outside a string literal, inside one, just after a
   backslash inside one.  squeeze drops white space outside string literals and, inside
   string literals, writes '<' '>' '&' U+2028 U+2029 as \uXXXX escapes; every other byte is
   kept.  ErrsJsonProofs shows compact d = Some d' -> d' = squeeze SqOut d. *)
Inductive sqst := SqOut | SqIn | SqEsc.

Fixpoint squeeze (st : sqst) (bs : bytes) : bytes :=
  match bs with
  | [] => []
  | c :: r =>
      match st with
      | SqOut => if is_space c then squeeze SqOut r
                 else c :: squeeze (if c =? 34 then SqIn else SqOut) r
      | SqEsc => c :: squeeze SqIn r
      | SqIn =>
          match ls_ahead c r with
          | Some b2 =>
              match r with
              | _ :: _ :: r2 => ls_escape b2 ++ squeeze SqIn r2
              | _ => []
              end
          | None =>
              html_emit c ++ squeeze (if c =? 34 then SqOut else if c =? 92 then SqEsc else SqIn) r
          end
      end
  end.

(* ---- the content of a JSON text ("JSON-equal") ------------------------------------------- *)

(* json_content reads a text into the sequence of things that carry its meaning: the bytes
   outside string literals except white space (punctuation, numbers, true/false/null, the
   quotes), and inside string literals the characters, where an ASCII byte and the \uXXXX
   escape of the same code unit are the same token, and so are the UTF-8 bytes of U+2028 /
   U+2029 and their escapes.  Two texts with the same content denote the same JSON value (the
   converse does not hold: "\n" and "\u000a", 1.0 and 1.00, or reordered members are equal
   values with different contents).  ErrsJsonProofs shows that compaction keeps the content:
   that is the sense in which Error.Data arrives JSON-equal.  The reader is total: on a text
   that is not JSON it resynchronises (TBad), which makes json_content (squeeze SqOut d) =
   json_content d hold for every d. *)
Inductive cst := COut | CIn | CEsc | CU (k : nat) (acc : N) | CE2 | CE280.

Inductive tok :=
| TOut (b : N)      (* a significant byte outside string literals, or a quote *)
| TCh (n : N)       (* a character of a string: an ASCII byte, a \uXXXX code unit, U+2028, U+2029 *)
| TEsc (b : N)      (* a two-character escape \b *)
| TByte (b : N)     (* any other byte of a string (of a multi-byte UTF-8 sequence) *)
| TBad.             (* an unfinished escape: the text is not JSON *)

Definition hexval (c : N) : N :=
  if is_digit c then c - 48 else if 97 <=? c then c - 87 else c - 55.

(* a byte read inside a string literal with nothing pending *)
Definition in_byte (c : N) : cst * list tok :=
  if c =? 34 then (COut, [TOut 34])
  else if c =? 92 then (CEsc, [])
  else if c =? 226 then (CE2, [])
  else if c <? 128 then (CIn, [TCh c])
  else (CIn, [TByte c]).

(* what was pending did not continue: flush it and read c afresh *)
Definition after (pending : list tok) (c : N) : cst * list tok :=
  let (st, t) := in_byte c in (st, pending ++ t).

Definition cstep (st : cst) (c : N) : cst * list tok :=
  match st with
  | COut => if is_space c then (COut, []) else (if c =? 34 then CIn else COut, [TOut c])
  | CIn => in_byte c
  | CEsc => if c =? 117 then (CU 0 0, []) else (CIn, [TEsc c])
  | CU k acc =>
      if is_hex c then
        match k with
        | 3%nat => (CIn, [TCh (acc * 16 + hexval c)])
        | _ => (CU (S k) (acc * 16 + hexval c), [])
        end
      else after [TBad] c
  | CE2 => if c =? 128 then (CE280, []) else after [TByte 226] c
  | CE280 => if c =? 168 then (CIn, [TCh 8232])
             else if c =? 169 then (CIn, [TCh 8233])
             else after [TByte 226; TByte 128] c
  end.

Fixpoint crun (st : cst) (bs : bytes) : cst * list tok :=
  match bs with
  | [] => (st, [])
  | c :: r => let (s1, t1) := cstep st c in
              let (s2, t2) := crun s1 r in (s2, t1 ++ t2)
  end.

Definition cflush (st : cst) : list tok :=
  match st with
  | COut | CIn => []
  | CEsc | CU _ _ => [TBad]
  | CE2 => [TByte 226]
  | CE280 => [TByte 226; TByte 128]
  end.

Definition json_content (d : bytes) : list tok :=
  let (st, t) := crun COut d in t ++ cflush st.

(* ---- strings through json.Marshal / json.Unmarshal ------------------------------ *)

Definition in_range (lo hi b : N) : bool := (lo <=? b) && (b <=? hi).
Definition is_cont (b : N) : bool := in_range 128 191 b.

(* unicode/utf8 tables first[] / acceptRanges[]: sequence length and the range of the
   second byte for a leading byte >= 0x80; None = not a leading byte *)
Definition utf8_lead (b0 : N) : option (nat * N * N) :=
  if in_range 194 223 b0 then Some (2%nat, 128, 191)
  else if b0 =? 224 then Some (3%nat, 160, 191)
  else if in_range 225 236 b0 then Some (3%nat, 128, 191)
  else if b0 =? 237 then Some (3%nat, 128, 159)
  else if in_range 238 239 b0 then Some (3%nat, 128, 191)
  else if b0 =? 240 then Some (4%nat, 144, 191)
  else if in_range 241 243 b0 then Some (4%nat, 128, 191)
  else if b0 =? 244 then Some (4%nat, 128, 143)
  else None.

(* utf8.DecodeRune on b0 :: r: the size of the valid sequence at the front, 0 when
   the front byte is rejected (RuneError, size 1) *)
Definition utf8_len (b0 : N) (r : bytes) : nat :=
  if b0 <? 128 then 1%nat
  else match utf8_lead b0 with
       | None => 0%nat
       | Some (sz, lo, hi) =>
           match r with
           | [] => 0%nat
           | b1 :: r1 =>
               if negb (in_range lo hi b1) then 0%nat
               else match sz with
                    | 2%nat => 2%nat
                    | _ =>
                        match r1 with
                        | [] => 0%nat
                        | b2 :: r2 =>
                            if negb (is_cont b2) then 0%nat
                            else match sz with
                                 | 3%nat => 3%nat
                                 | _ =>
                                     match r2 with
                                     | [] => 0%nat
                                     | b3 :: _ => if is_cont b3 then 4%nat else 0%nat
                                     end
                                 end
                        end
                    end
           end
       end.

Definition utf8_replacement : bytes := [239; 191; 189].   (* U+FFFD *)

Fixpoint sanitize_utf8 (bs : bytes) : bytes :=
  match bs with
  | [] => []
  | b0 :: r =>
      match utf8_len b0 r with
      | 1%nat => b0 :: sanitize_utf8 r
      | 2%nat => match r with
                 | b1 :: r1 => b0 :: b1 :: sanitize_utf8 r1
                 | _ => utf8_replacement ++ sanitize_utf8 r
                 end
      | 3%nat => match r with
                 | b1 :: b2 :: r2 => b0 :: b1 :: b2 :: sanitize_utf8 r2
                 | _ => utf8_replacement ++ sanitize_utf8 r
                 end
      | 4%nat => match r with
                 | b1 :: b2 :: b3 :: r3 => b0 :: b1 :: b2 :: b3 :: sanitize_utf8 r3
                 | _ => utf8_replacement ++ sanitize_utf8 r
                 end
      | _ => utf8_replacement ++ sanitize_utf8 r
      end
  end.

Definition valid_utf8 (bs : bytes) : bool := beq (sanitize_utf8 bs) bs.
