(* ErrsJsonProofs: what json.Marshal's compaction of a RawMessage (ErrsJson.compact) does to
   the text, without the scanner: compact d = Some d' -> d' = squeeze SqOut d (white space
   outside strings dropped, five characters inside strings escaped), and the content of the
   text (ErrsJson.json_content) is kept: the sense in which Error.Data arrives JSON-equal (C14). *)
From Coq Require Import List NArith Bool Lia.
From JV Require Import Bytes ErrsJson.
Import ListNotations.
Local Open Scope N_scope.

(* ---- compaction is squeeze ------------------------------------------------------------------ *)

(* the scanner's modes, read as the three states of squeeze *)
Definition sq_of_mode (m : jmode) : sqst :=
  match m with
  | MInString | MEscU | MEscU1 | MEscU12 | MEscU123 => SqIn
  | MInStringEsc => SqEsc
  | _ => SqOut
  end.

Definition cls (s : scanner) : sqst := sq_of_mode (sc_mode s).

(* ---- case analysis on one scanner step ------------------------------------------- *)

Ltac unfold_step H :=
  cbv beta iota delta [jstep begin_value begin_string end_value state0 state_esign expect go push pop
                       with_mode sc_mode sc_stack sc_depth] in H.

Ltac break_ifs H :=
  repeat match type of H with
         | context [if ?b then _ else _] => let E := fresh "E" in destruct b eqn:E
         end.

(* c is one of the constants ks, or different from all of them *)
Ltac known c k :=
  let Hk := fresh "Hk" in
  destruct (N.eqb_spec c k) as [Hk|Hk]; [subst c|apply N.eqb_neq in Hk].

Ltac concrete := vm_compute in *; repeat split; intros; try reflexivity; try discriminate; try congruence.

Ltac to_eq :=
  repeat match goal with
         | E : (?c =? ?k) = true |- _ => apply N.eqb_eq in E; try subst c
         end.

Lemma jstep_out s c s' skip :
  cls s = SqOut -> jstep s c = SOk s' skip ->
  skip = is_space c /\
  cls s' = (if is_space c then SqOut else if c =? 34 then SqIn else SqOut) /\
  (is_space c = false -> html_emit c = [c]).
Proof.
  destruct s as [m st d]. unfold cls. cbn [sc_mode].
  intros Hc H.
  destruct m; cbn [sq_of_mode] in Hc; try discriminate Hc; clear Hc;
  destruct st as [|[] rest];
  unfold_step H; break_ifs H; try discriminate H;
  injection H as <- <-; cbn [sc_mode sq_of_mode];
  to_eq;
  try solve [concrete];
  (known c 32; [concrete|]); (known c 9; [concrete|]); (known c 13; [concrete|]); (known c 10; [concrete|]);
  (known c 34; [concrete|]); (known c 60; [concrete|]); (known c 62; [concrete|]); (known c 38; [concrete|]);
  unfold is_space, html_emit in *;
  repeat match goal with Hk : (c =? _) = false |- _ => rewrite Hk in * end;
  cbn [orb] in *; try discriminate; repeat split; intros; reflexivity.
Qed.

Lemma jstep_in s c s' skip :
  cls s = SqIn -> jstep s c = SOk s' skip ->
  skip = false /\
  cls s' = (if c =? 34 then SqOut else if c =? 92 then SqEsc else SqIn).
Proof.
  destruct s as [m st d]. unfold cls. cbn [sc_mode].
  intros Hc H.
  destruct m; cbn [sq_of_mode] in Hc; try discriminate Hc; clear Hc;
  unfold_step H; break_ifs H; try discriminate H;
  injection H as <- <-; cbn [sc_mode sq_of_mode];
  to_eq;
  try solve [concrete];
  (known c 34; [concrete|]); (known c 92; [concrete|]);
  repeat match goal with Hk : (c =? _) = false |- _ => rewrite Hk in * end;
  split; reflexivity.
Qed.

Lemma jstep_esc s c s' skip :
  cls s = SqEsc -> jstep s c = SOk s' skip ->
  skip = false /\ cls s' = SqIn /\ html_emit c = [c].
Proof.
  destruct s as [m st d]. unfold cls. cbn [sc_mode].
  intros Hc H.
  destruct m; cbn [sq_of_mode] in Hc; try discriminate Hc; clear Hc;
  unfold_step H; break_ifs H; try discriminate H;
  injection H as <- <-; cbn [sc_mode sq_of_mode];
  to_eq;
  try solve [concrete];
  (known c 60; [concrete|]); (known c 62; [concrete|]); (known c 38; [concrete|]);
  unfold html_emit;
  repeat match goal with Hk : (c =? _) = false |- _ => rewrite Hk in * end;
  repeat split; reflexivity.
Qed.

(* a byte >= 0x80 is only accepted inside a string literal *)
Lemma jstep_226_not_in s : cls s <> SqIn -> jstep s 226 = SErr.
Proof.
  destruct s as [m st d]. unfold cls. cbn [sc_mode]. intros Hc.
  destruct m; cbn [sq_of_mode] in Hc; try congruence; destruct st as [|[] rest]; reflexivity.
Qed.

Lemma ls_ahead_some c r b2 :
  ls_ahead c r = Some b2 -> c = 226 /\ exists r2, r = 128 :: b2 :: r2 /\ (b2 = 168 \/ b2 = 169).
Proof.
  unfold ls_ahead. destruct (N.eqb_spec c 226) as [->|]; [|discriminate].
  destruct r as [|b1 [|b2' r2]]; try discriminate.
  destruct (N.eqb_spec b1 128) as [->|]; [|discriminate]. cbn [andb].
  destruct (N.eqb_spec b2' 168) as [->|].
  - intros H. injection H as <-. split; [reflexivity|]. eexists. split; [reflexivity|]. auto.
  - destruct (N.eqb_spec b2' 169) as [->|]; [|discriminate].
    intros H. injection H as <-. split; [reflexivity|]. eexists. split; [reflexivity|]. auto.
Qed.

Lemma jstep3_in s b2 s' :
  cls s = SqIn -> (b2 = 168 \/ b2 = 169) -> jstep3 s 226 128 b2 = Some s' -> cls s' = SqIn.
Proof.
  destruct s as [m st d]. unfold cls. cbn [sc_mode]. intros Hc Hb H.
  destruct m; cbn [sq_of_mode] in Hc; try discriminate Hc; clear Hc;
  destruct Hb as [-> | ->]; vm_compute in H; try discriminate H; injection H as <-; reflexivity.
Qed.

Lemma squeeze_nil st : squeeze st [] = [].
Proof. destruct st; reflexivity. Qed.

Lemma compact_from_squeeze n : forall bs, (length bs <= n)%nat ->
  forall s out, compact_from s bs = Some out -> out = squeeze (cls s) bs.
Proof.
  induction n as [|n IH]; intros bs Hlen s out H.
  - destruct bs; [|cbn in Hlen; lia]. cbn in H. destruct (eof_ok s); [|discriminate].
    injection H as <-. rewrite squeeze_nil. reflexivity.
  - destruct bs as [|c r].
    + cbn in H. destruct (eof_ok s); [|discriminate].
      injection H as <-. rewrite squeeze_nil. reflexivity.
    + cbn [compact_from] in H. cbn [length] in Hlen.
      destruct (ls_ahead c r) as [b2|] eqn:El.
      * pose proof (ls_ahead_some c r b2 El) as (-> & r2 & -> & Hb2).
        destruct (jstep3 s 226 128 b2) as [s1|] eqn:E3; [|discriminate].
        destruct (cls s) eqn:Ec.
        -- unfold jstep3 in E3. rewrite jstep_226_not_in in E3 by congruence. discriminate.
        -- pose proof (jstep3_in s b2 s1 Ec Hb2 E3) as Hc1.
           destruct (compact_from s1 r2) as [o|] eqn:Er; [|discriminate].
           cbn [prepend] in H. injection H as <-.
           assert (Ho : o = squeeze (cls s1) r2) by (apply IH; [cbn [length] in Hlen; lia|exact Er]).
           cbn [squeeze]. rewrite El, Ho, Hc1. reflexivity.
        -- unfold jstep3 in E3. rewrite jstep_226_not_in in E3 by congruence. discriminate.
      * destruct (jstep s c) as [|s1 skip] eqn:Ej; [discriminate|].
        destruct (compact_from s1 r) as [o|] eqn:Er; [|discriminate].
        cbn [prepend] in H. injection H as <-.
        assert (Ho : o = squeeze (cls s1) r) by (apply IH; [lia|exact Er]).
        destruct (cls s) eqn:Ec.
        -- destruct (jstep_out s c s1 skip Ec Ej) as (-> & Hc1 & Hh).
           cbn [squeeze]. destruct (is_space c) eqn:Esp.
           ++ rewrite Ho, Hc1. reflexivity.
           ++ rewrite (Hh eq_refl), Ho, Hc1. reflexivity.
        -- destruct (jstep_in s c s1 skip Ec Ej) as (-> & Hc1).
           cbn [squeeze]. rewrite El, Ho, Hc1. reflexivity.
        -- destruct (jstep_esc s c s1 skip Ec Ej) as (-> & Hc1 & Hh).
           cbn [squeeze]. rewrite Hh, Ho, Hc1. reflexivity.
Qed.

Theorem compact_squeeze d d' : compact d = Some d' -> d' = squeeze SqOut d.
Proof. intros H. exact (compact_from_squeeze (length d) d (le_n _) scanner0 d' H). Qed.

(* ---- squeeze keeps the content ------------------------------------------------------------- *)

Definition sq_of (st : cst) : sqst :=
  match st with COut => SqOut | CEsc => SqEsc | _ => SqIn end.

Lemma crun_app st a b :
  crun st (a ++ b) = let (s1, t1) := crun st a in let (s2, t2) := crun s1 b in (s2, t1 ++ t2).
Proof.
  revert st. induction a as [|c a IH]; intros st.
  - cbn [app crun]. destruct (crun st b). reflexivity.
  - cbn [app crun]. destruct (cstep st c) as [s1 t1]. rewrite IH.
    destruct (crun s1 a) as [s2 t2]. destruct (crun s2 b) as [s3 t3]. rewrite app_assoc. reflexivity.
Qed.

Lemma ls_escape_content st b2 :
  sq_of st = SqIn -> (b2 = 168 \/ b2 = 169) ->
  crun st (ls_escape b2) = crun st [226; 128; b2] /\ fst (crun st [226; 128; b2]) = CIn.
Proof.
  intros Hs [-> | ->]; destruct st; try discriminate Hs; split; reflexivity.
Qed.

Lemma html_emit_content st c :
  sq_of st = SqIn -> (c = 60 \/ c = 62 \/ c = 38) ->
  crun st (html_emit c) = crun st [c] /\ fst (crun st [c]) = CIn.
Proof.
  intros Hs [-> | [-> | ->]]; destruct st; try discriminate Hs; split; reflexivity.
Qed.

Definition next_in (c : N) : sqst := if c =? 34 then SqOut else if c =? 92 then SqEsc else SqIn.

Lemma in_byte_next c : sq_of (fst (in_byte c)) = next_in c.
Proof.
  unfold in_byte, next_in.
  destruct (c =? 34); [reflexivity|]. destruct (c =? 92); [reflexivity|].
  destruct (c =? 226); [reflexivity|]. destruct (c <? 128); reflexivity.
Qed.

Lemma after_next p c : sq_of (fst (after p c)) = next_in c.
Proof. unfold after. rewrite <- in_byte_next. destruct (in_byte c). reflexivity. Qed.

Lemma cstep_in_next st c : sq_of st = SqIn -> sq_of (fst (cstep st c)) = next_in c.
Proof.
  intros Hs. destruct st; try discriminate Hs; cbn [cstep].
  - apply in_byte_next.
  - destruct (is_hex c) eqn:Eh; [|apply after_next].
    assert (Hn : next_in c = SqIn).
    { unfold next_in. destruct (N.eqb_spec c 34) as [->|]; [discriminate Eh|].
      destruct (N.eqb_spec c 92) as [->|]; [discriminate Eh|]. reflexivity. }
    rewrite Hn. destruct k as [|[|[|[|k]]]]; reflexivity.
  - destruct (N.eqb_spec c 128) as [->|]; [reflexivity|apply after_next].
  - destruct (N.eqb_spec c 168) as [->|]; [reflexivity|].
    destruct (N.eqb_spec c 169) as [->|]; [reflexivity|apply after_next].
Qed.

Lemma html_emit_plain c : c <> 60 -> c <> 62 -> c <> 38 -> html_emit c = [c].
Proof.
  intros H1 H2 H3. unfold html_emit.
  apply N.eqb_neq in H1, H2, H3. rewrite H1, H2, H3. reflexivity.
Qed.

Lemma crun_squeeze n : forall bs, (length bs <= n)%nat ->
  forall st, crun st (squeeze (sq_of st) bs) = crun st bs.
Proof.
  induction n as [|n IH]; intros bs Hlen st.
  - destruct bs; [|cbn in Hlen; lia]. rewrite squeeze_nil. reflexivity.
  - destruct bs as [|c r]; [rewrite squeeze_nil; reflexivity|].
    cbn [length] in Hlen.
    destruct (sq_of st) eqn:Es.
    + (* outside string literals *)
      destruct st; try discriminate Es. cbn [squeeze].
      destruct (is_space c) eqn:Esp.
      * cbn [crun cstep]. rewrite Esp. change SqOut with (sq_of COut). rewrite IH by lia.
        destruct (crun COut r). reflexivity.
      * cbn [crun cstep]. rewrite Esp.
        replace (if c =? 34 then SqIn else SqOut) with (sq_of (if c =? 34 then CIn else COut))
          by (destruct (c =? 34); reflexivity).
        rewrite IH by lia. reflexivity.
    + (* inside a string literal *)
      cbn [squeeze]. destruct (ls_ahead c r) as [b2|] eqn:El.
      * pose proof (ls_ahead_some c r b2 El) as (-> & r2 & -> & Hb2).
        destruct (ls_escape_content st b2 Es Hb2) as [Ha Hb].
        change (226 :: 128 :: b2 :: r2) with ([226; 128; b2] ++ r2).
        rewrite !crun_app, Ha.
        destruct (crun st [226; 128; b2]) as [s1 t1]. cbn [fst] in Hb. subst s1.
        change SqIn with (sq_of CIn). rewrite IH by (cbn [length] in Hlen; lia). reflexivity.
      * assert (Hcase : (c = 60 \/ c = 62 \/ c = 38) \/ (c <> 60 /\ c <> 62 /\ c <> 38)).
        { destruct (N.eq_dec c 60); [auto|]. destruct (N.eq_dec c 62); [auto|].
          destruct (N.eq_dec c 38); [auto|]. right. auto. }
        destruct Hcase as [Hc|(H1 & H2 & H3)].
        -- destruct (html_emit_content st c Es Hc) as [Ha Hb].
           change (c :: r) with ([c] ++ r).
           rewrite !crun_app, Ha.
           destruct (crun st [c]) as [s1 t1]. cbn [fst] in Hb. subst s1.
           replace (if c =? 34 then SqOut else if c =? 92 then SqEsc else SqIn) with (sq_of CIn)
             by (destruct Hc as [-> | [-> | ->]]; reflexivity).
           rewrite IH by lia. reflexivity.
        -- rewrite (html_emit_plain c H1 H2 H3). cbn [app crun].
           pose proof (cstep_in_next st c Es) as Hn. unfold next_in in Hn.
           destruct (cstep st c) as [s1 t1]. cbn [fst] in Hn. rewrite <- Hn.
           rewrite IH by lia. reflexivity.
    + (* after a backslash *)
      destruct st; try discriminate Es. cbn [squeeze crun cstep].
      destruct (c =? 117).
      * change SqIn with (sq_of (CU 0 0)). rewrite IH by lia. reflexivity.
      * change SqIn with (sq_of CIn). rewrite IH by lia. reflexivity.
Qed.

Theorem squeeze_content d : json_content (squeeze SqOut d) = json_content d.
Proof.
  unfold json_content. change SqOut with (sq_of COut).
  rewrite (crun_squeeze (length d) d (le_n _) COut). reflexivity.
Qed.

Theorem compact_content d d' : compact d = Some d' -> json_content d' = json_content d.
Proof. intros H. rewrite (compact_squeeze d d' H). apply squeeze_content. Qed.

Lemma data_json_equal d d' :
  compact d = Some d' -> json_content d' = json_content d /\ d' = squeeze SqOut d.
Proof. intros H. split; [exact (compact_content d d' H)|exact (compact_squeeze d d' H)]. Qed.

Example compact_content_nonvacuous :
  let d := [32; 123; 34; 97; 60; 34; 58; 32; 91; 49; 44; 32; 34; 226; 128; 168; 92; 110; 34; 93; 125; 10] in
  compact d = Some [123; 34; 97; 92; 117; 48; 48; 51; 99; 34; 58; 91; 49; 44; 34; 92; 117; 50; 48; 50; 56; 92; 110; 34; 93; 125] /\
  json_content d = [TOut 123; TOut 34; TCh 97; TCh 60; TOut 34; TOut 58; TOut 91; TOut 49; TOut 44; TOut 34;
                    TCh 8232; TEsc 110; TOut 34; TOut 93; TOut 125].
Proof. vm_compute. split; reflexivity. Qed.
