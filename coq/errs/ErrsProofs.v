(* ErrsProofs: lemmas about the error model Errs.v (C14) with non-vacuity examples and
   the witnesses of the excluded cases (_refuted). *)
From Coq Require Import List NArith ZArith Bool Lia.
From JV Require Import Bytes Msg ErrsJson ErrsJsonProofs Errs.
Import ListNotations.
Local Open Scope Z_scope.

(* ---- induction over the nested error grammar ----------------------------------------- *)

Section GerrInd.
  Variable P : gerr -> Prop.
  Hypothesis HJrpc : forall c m d, P (EJrpc c m d).
  Hypothesis HJrpcV : forall c m d, P (EJrpcV c m d).
  Hypothesis HCode : forall c, P (ECode c).
  Hypothesis HCoder : forall k c m, P (ECoder k c m).
  Hypothesis HCanceled : P ECanceled.
  Hypothesis HDeadline : P EDeadline.
  Hypothesis HPlain : forall m, P (EPlain m).
  Hypothesis HWrap : forall m e, P e -> P (EWrap m e).
  Hypothesis HJoin : forall es, Forall P es -> P (EJoin es).

  Fixpoint gerr_ind' (e : gerr) : P e :=
    match e with
    | EJrpc c m d => HJrpc c m d
    | EJrpcV c m d => HJrpcV c m d
    | ECode c => HCode c
    | ECoder k c m => HCoder k c m
    | ECanceled => HCanceled
    | EDeadline => HDeadline
    | EPlain m => HPlain m
    | EWrap m e' => HWrap m e' (gerr_ind' e')
    | EJoin es =>
        HJoin es ((fix all (l : list gerr) : Forall P l :=
                     match l with
                     | [] => Forall_nil P
                     | x :: l' => Forall_cons x (gerr_ind' x) (all l')
                     end) es)
    end.
End GerrInd.

(* the local fixpoints of the model, as list functions *)
Fixpoint first_list (l : list gerr) : option Z :=
  match l with
  | [] => None
  | x :: l' => match first_coder x with Some c => Some c | None => first_list l' end
  end.

Lemma first_coder_join es : first_coder (EJoin es) = first_list es.
Proof.
  induction es as [|x l IH]; [reflexivity|].
  cbn [first_coder first_list]. destruct (first_coder x); [reflexivity|exact IH].
Qed.

(* ---- nil ------------------------------------------------------------------------------ *)

Lemma is_nil_first_coder e : is_nil e = true -> first_coder e = None.
Proof.
  induction e as [c m d|c m d|c|k c m| | |m|m e IH|es IH] using gerr_ind'; cbn [is_nil]; try discriminate.
  - intros H. cbn [first_coder]. rewrite H. reflexivity.
  - intros H. rewrite first_coder_join.
    induction IH as [|x l Hx _ IHl]; [reflexivity|].
    cbn [forallb] in H. apply andb_true_iff in H as [H1 H2].
    cbn [first_list]. rewrite (Hx H1). exact (IHl H2).
Qed.

Lemma is_nil_reaches dl e : is_nil e = true -> reaches dl e = false.
Proof.
  induction e as [c m d|c m d|c|k c m| | |m|m e IH|es IH] using gerr_ind'; cbn [is_nil]; try discriminate.
  - reflexivity.
  - intros H. cbn [reaches].
    induction IH as [|x l Hx _ IHl]; [reflexivity|].
    cbn [forallb] in H. apply andb_true_iff in H as [H1 H2].
    cbn [existsb]. rewrite (Hx H1), (IHl H2). reflexivity.
Qed.

Lemma reaches_not_nil dl e : reaches dl e = true -> is_nil e = false.
Proof.
  intros H. destruct (is_nil e) eqn:Hn; [|reflexivity].
  rewrite (is_nil_reaches dl e Hn) in H. discriminate.
Qed.

Lemma first_coder_not_nil e c : first_coder e = Some c -> is_nil e = false.
Proof.
  intros H. destruct (is_nil e) eqn:Hn; [|reflexivity].
  rewrite (is_nil_first_coder e Hn) in H. discriminate.
Qed.

Lemma error_code_nil e : is_nil e = true -> error_code e = NoError.
Proof. intros H. unfold error_code. rewrite H. reflexivity. Qed.

(* ---- ErrorCode ------------------------------------------------------------------------ *)

Lemma error_code_jrpc c m d : error_code (EJrpc c m d) = c.
Proof. reflexivity. Qed.

Lemma error_code_coder e c : first_coder e = Some c -> error_code e = c.
Proof.
  intros H. unfold error_code. rewrite (first_coder_not_nil e c H), H. reflexivity.
Qed.

Lemma error_code_canceled e :
  first_coder e = None -> reaches false e = true -> error_code e = Cancelled.
Proof.
  intros Hf Hr. unfold error_code. rewrite (reaches_not_nil false e Hr), Hf, Hr. reflexivity.
Qed.

Lemma error_code_deadline e :
  first_coder e = None -> reaches false e = false -> reaches true e = true ->
  error_code e = DeadlineExceeded.
Proof.
  intros Hf Hc Hr. unfold error_code. rewrite (reaches_not_nil true e Hr), Hf, Hc, Hr. reflexivity.
Qed.

(* ErrorCode(c.Err()) == c, for every c (Err() is nil exactly for NoError) *)
Lemma code_err_roundtrip c : error_code (code_err c) = c.
Proof.
  unfold code_err, error_code. cbn [is_nil first_coder].
  destruct (c =? NoError) eqn:E; [apply Z.eqb_eq in E; congruence|reflexivity].
Qed.

Lemma code_err_nil c : is_nil (code_err c) = true <-> c = NoError.
Proof. unfold code_err. cbn [is_nil]. apply Z.eqb_eq. Qed.

(* wrapping with %w does not change the classification of a non-nil error *)
Lemma error_code_wrap m e : is_nil e = false -> error_code (EWrap m e) = error_code e.
Proof. intros H. unfold error_code. cbn [is_nil first_coder reaches]. rewrite H. reflexivity. Qed.

Lemma error_code_wrap_nil m e : is_nil e = true -> error_code (EWrap m e) = SystemError.
Proof.
  intros H. unfold error_code. cbn [is_nil first_coder reaches].
  rewrite (is_nil_first_coder e H), !(is_nil_reaches _ e H). reflexivity.
Qed.

(* ---- the client side ------------------------------------------------------------------------ *)

Lemma error_code_from_wire w : error_code (from_wire w) = we_code w.
Proof.
  unfold from_wire.
  destruct (we_code w =? Cancelled) eqn:E1; [apply Z.eqb_eq in E1; rewrite E1; reflexivity|].
  destruct (we_code w =? DeadlineExceeded) eqn:E2; [apply Z.eqb_eq in E2; rewrite E2; reflexivity|].
  reflexivity.
Qed.

Lemma from_wire_canceled w : from_wire w = ECanceled <-> we_code w = Cancelled.
Proof.
  unfold from_wire.
  destruct (we_code w =? Cancelled) eqn:E1.
  - apply Z.eqb_eq in E1. tauto.
  - apply Z.eqb_neq in E1. destruct (we_code w =? DeadlineExceeded); split; intros H; congruence.
Qed.

Lemma from_wire_deadline w : from_wire w = EDeadline <-> we_code w = DeadlineExceeded.
Proof.
  unfold from_wire.
  destruct (we_code w =? Cancelled) eqn:E1.
  - apply Z.eqb_eq in E1. split; intros H; [discriminate|]. rewrite E1 in H. discriminate.
  - destruct (we_code w =? DeadlineExceeded) eqn:E2.
    + apply Z.eqb_eq in E2. tauto.
    + apply Z.eqb_neq in E2. split; intros H; congruence.
Qed.

Lemma from_wire_other w :
  we_code w <> Cancelled -> we_code w <> DeadlineExceeded ->
  from_wire w = EJrpc (we_code w) (we_msg w) (we_data w).
Proof.
  intros H1 H2. unfold from_wire.
  apply Z.eqb_neq in H1. apply Z.eqb_neq in H2. rewrite H1, H2. reflexivity.
Qed.

(* ---- one call ----------------------------------------------------------------------------------- *)

(* fix F16: the encoder never fails on an error object *)
Lemma transit_total w : transit w = Some (sent w).
Proof. unfold transit, transit_gen, sent. destruct (wire_data (we_data w)); reflexivity. Qed.

Lemma call_gen_nonnil f r e :
  is_nil e = false ->
  call_gen f r e = match transit_gen f (to_wire e) with
                   | Some w' => OErr (from_wire w')
                   | None => OLost
                   end.
Proof.
  intros H. unfold call_gen, settle_gen, deliver_gen, invoke, invoke_gen. rewrite H. cbn [respond andb]. rewrite H.
  destruct (transit_gen f (to_wire e)); reflexivity.
Qed.

Lemma call_nonnil r e : is_nil e = false -> call r e = OErr (from_wire (sent (to_wire e))).
Proof.
  intros H. unfold call. rewrite (call_gen_nonnil true r e H).
  change (transit_gen true) with transit. rewrite transit_total. reflexivity.
Qed.

Lemma call_gen_nil_ok f raw e : is_nil e = true -> call_gen f (ResJson raw) e = OResult raw.
Proof. intros H. unfold call_gen, settle_gen, deliver_gen, invoke, invoke_gen. rewrite H. reflexivity. Qed.

Lemma call_nil_ok raw e : is_nil e = true -> call (ResJson raw) e = OResult raw.
Proof. apply call_gen_nil_ok. Qed.

Lemma call_gen_nil_bad f why e : is_nil e = true -> call_gen f (ResBad why) e = call_gen f (ResJson []) why.
Proof.
  intros H. unfold call_gen, settle_gen, deliver_gen, invoke, invoke_gen. rewrite H.
  destruct (is_nil why) eqn:Hw; cbn [respond andb]; rewrite Hw; reflexivity.
Qed.

Lemma call_nil_bad why e : is_nil e = true -> call (ResBad why) e = call (ResJson []) why.
Proof. apply call_gen_nil_bad. Qed.

Lemma to_wire_other e :
  is_top_jrpc e = false ->
  to_wire e = {| we_code := wire_code e; we_msg := error_text e; we_data := [] |}.
Proof. destruct e; cbn [is_top_jrpc]; intros H; try discriminate; reflexivity. Qed.

Lemma wire_code_not_noerror e : wire_code e <> NoError.
Proof.
  unfold wire_code. destruct (error_code e =? NoError) eqn:E.
  - discriminate.
  - apply Z.eqb_neq in E. exact E.
Qed.

(* what the caller gets for an error that is not itself a *Error (with or without fix F16) *)
Lemma call_gen_other f r e :
  is_nil e = false -> is_top_jrpc e = false ->
  call_gen f r e = OErr (from_wire {| we_code := wire_code e; we_msg := sanitize_utf8 (error_text e); we_data := [] |}).
Proof.
  intros Hn Ht. rewrite (call_gen_nonnil f r e Hn), (to_wire_other e Ht). reflexivity.
Qed.

Lemma call_other r e :
  is_nil e = false -> is_top_jrpc e = false ->
  call r e = OErr (from_wire {| we_code := wire_code e; we_msg := sanitize_utf8 (error_text e); we_data := [] |}).
Proof. apply call_gen_other. Qed.

(* what the caller gets for a *Error: always a reply; data that do not encode are dropped *)
Lemma call_jrpc r c m d :
  call r (EJrpc c m d) =
  OErr (from_wire {| we_code := c; we_msg := sanitize_utf8 m;
                     we_data := match wire_data d with Some d' => d' | None => [] end |}).
Proof. rewrite call_nonnil by reflexivity. reflexivity. Qed.

(* before fix F16 *)
Lemma call_pre16_jrpc r c m d :
  call_gen false r (EJrpc c m d) =
  match wire_data d with
  | Some d' => OErr (from_wire {| we_code := c; we_msg := sanitize_utf8 m; we_data := d' |})
  | None => OLost
  end.
Proof.
  rewrite call_gen_nonnil by reflexivity. cbn [to_wire]. unfold transit_gen. cbn [we_data we_code we_msg].
  destruct (wire_data d); reflexivity.
Qed.

(* ---- C14: a reply is never lost (fix F16) ---------------------------------------------------------- *)

Lemma call_never_lost r e : call r e <> OLost.
Proof.
  destruct (is_nil e) eqn:Hn.
  - destruct r as [raw|why].
    + rewrite (call_nil_ok raw e Hn). discriminate.
    + rewrite (call_nil_bad why e Hn). destruct (is_nil why) eqn:Hw.
      * rewrite (call_nil_ok [] why Hw). discriminate.
      * rewrite (call_nonnil _ why Hw). discriminate.
  - rewrite (call_nonnil r e Hn). discriminate.
Qed.

Lemma call_has_code r e : exists c, outcome_code (call r e) = Some c.
Proof.
  pose proof (call_never_lost r e) as H. destruct (call r e) as [raw|e'|]; cbn [outcome_code]; eauto. contradiction.
Qed.

(* before the fix exactly the top-level *Errors whose Data is not JSON lost their reply, and the
   fix changes nothing for any other error *)
Lemma lost_pre16_iff r e :
  is_nil e = false -> (call_gen false r e = OLost <-> deliverable e = false).
Proof.
  intros Hn. destruct (is_top_jrpc e) eqn:Ht.
  - destruct e; try discriminate. rewrite call_pre16_jrpc. cbn [deliverable].
    destruct (wire_data data); split; intros H; try reflexivity; discriminate.
  - rewrite (call_gen_other false r e Hn Ht).
    assert (Hdel : deliverable e = true) by (destruct e; try reflexivity; discriminate).
    rewrite Hdel. split; intros H; discriminate.
Qed.

Lemma fix16_conservative r e :
  is_nil e = false -> deliverable e = true -> call_gen false r e = call r e.
Proof.
  intros Hn Hd. destruct (is_top_jrpc e) eqn:Ht.
  - destruct e; try discriminate. rewrite call_pre16_jrpc, call_jrpc. cbn [deliverable] in Hd.
    destruct (wire_data data); [reflexivity|discriminate].
  - rewrite (call_gen_other false r e Hn Ht), (call_other r e Hn Ht). reflexivity.
Qed.

Example lost_pre16_nonvacuous :
  let e := EJrpc 7 [109]%N [123; 98; 97; 100]%N in
  is_nil e = false /\ deliverable e = false /\ call_gen false (ResJson [49]%N) e = OLost /\
  deliverable (EJrpc 7 [109]%N [32; 49]%N) = true /\
  call_gen false (ResJson [49]%N) (EJrpc 7 [109]%N [32; 49]%N) = OErr (EJrpc 7 [109]%N [49]%N).
Proof. vm_compute. repeat split. Qed.

(* ---- C14: the code is preserved ----------------------------------------------------------------- *)

Lemma code_preserved r e :
  is_nil e = false -> code_dom e = true -> outcome_code (call r e) = Some (error_code e).
Proof.
  intros Hn Hd. unfold code_dom in Hd.
  destruct (is_top_jrpc e) eqn:Ht.
  - destruct e; try discriminate. rewrite call_jrpc.
    cbn [outcome_code]. rewrite error_code_from_wire. reflexivity.
  - rewrite (call_other r e Hn Ht). cbn [outcome_code]. rewrite error_code_from_wire.
    cbn [we_code orb] in *. unfold wire_code.
    destruct (error_code e =? NoError); [discriminate|reflexivity].
Qed.

(* ... and only there: outside code_dom the caller's code differs *)
Lemma code_preserved_iff r e :
  is_nil e = false ->
  (outcome_code (call r e) = Some (error_code e) <-> code_dom e = true).
Proof.
  intros Hn. split; [|apply code_preserved; exact Hn].
  intros H. unfold code_dom.
  destruct (is_top_jrpc e) eqn:Ht; [reflexivity|].
  cbn [orb].
  rewrite (call_other r e Hn Ht) in H. cbn [outcome_code] in H. rewrite error_code_from_wire in H.
  cbn [we_code] in H. unfold wire_code in H.
  destruct (error_code e =? NoError) eqn:E; [|reflexivity].
  apply Z.eqb_eq in E. rewrite E in H. discriminate.
Qed.

Lemma code_dom_spec e :
  code_dom e = true <-> (is_top_jrpc e = true \/ error_code e <> NoError).
Proof.
  unfold code_dom. rewrite orb_true_iff, negb_true_iff, Z.eqb_neq. tauto.
Qed.

Lemma code_preserved_explicit r e :
  is_nil e = false -> (is_top_jrpc e = true \/ error_code e <> NoError) ->
  outcome_code (call r e) = Some (error_code e).
Proof. intros Hn Hc. apply code_preserved; [exact Hn|]. apply code_dom_spec. exact Hc. Qed.

(* a *Error that is the returned value always keeps its code, whatever its message and data *)
Lemma code_preserved_jrpc r c m d : outcome_code (call r (EJrpc c m d)) = Some c.
Proof. rewrite call_jrpc. cbn [outcome_code]. rewrite error_code_from_wire. reflexivity. Qed.

(* before fix F16 the domain was smaller: a reply had to be produced as well *)
Lemma code_preserved_pre16_iff r e :
  is_nil e = false ->
  (outcome_code (call_gen false r e) = Some (error_code e) <-> code_dom_pre16 e = true).
Proof.
  intros Hn. unfold code_dom_pre16. destruct (deliverable e) eqn:Hd.
  - rewrite (fix16_conservative r e Hn Hd). cbn [andb]. apply code_preserved_iff. exact Hn.
  - rewrite (proj2 (lost_pre16_iff r e Hn) Hd). cbn [andb outcome_code]. split; intros H; discriminate.
Qed.

Lemma code_preserved_nil raw e :
  is_nil e = true -> outcome_code (call (ResJson raw) e) = Some (error_code e).
Proof. intros H. rewrite (call_nil_ok raw e H), (error_code_nil e H). reflexivity. Qed.

Example code_preserved_nonvacuous :
  let e := EJoin [EWrap [119]%N (EJoin [EPlain [112]%N; ECoder KValVal 9 [107]%N]); ECoder KPtrPtr 8 [107]%N] in
  is_nil e = false /\ code_dom e = true /\ error_code e = 9 /\
  call (ResJson [49]%N) e = OErr (EJrpc 9 [119; 58; 32; 112; 10; 107; 10; 107]%N []).
Proof. vm_compute. repeat split. Qed.

Example code_preserved_nil_nonvacuous :
  is_nil (EJoin [ECode NoError; EJoin []]) = true /\
  call (ResJson [49]%N) (EJoin [ECode NoError; EJoin []]) = OResult [49]%N.
Proof. vm_compute. split; reflexivity. Qed.

(* the excluded case: a non-nil error that ErrorCode classifies as NoError (a custom ErrCoder
   reporting NoError, or a wrapped *Error with that code) is sent as InternalError *)
Lemma code_preserved_refuted_noerror_coder :
  let e := ECoder KValVal NoError [107]%N in
  is_nil e = false /\ code_dom e = false /\ error_code e = NoError /\
  forall r, outcome_code (call r e) = Some InternalError.
Proof. repeat split; intros; rewrite ?call_other by reflexivity; reflexivity. Qed.

Lemma code_preserved_refuted_wrapped_noerror :
  let e := EWrap [119]%N (EJrpc NoError [120]%N []) in
  is_nil e = false /\ code_dom e = false /\ error_code e = NoError /\
  forall r, outcome_code (call r e) = Some InternalError.
Proof. repeat split; intros; rewrite ?call_other by reflexivity; reflexivity. Qed.

(* what used to be the second excluded case: before fix F16 a *Error whose Data is not JSON got
   no reply at all; now it arrives with its code *)
Lemma code_preserved_refuted_without_F16 :
  let e := EJrpc 7 [109]%N [123; 98; 97; 100]%N (* {bad *) in
  is_nil e = false /\ code_dom e = true /\ code_dom_pre16 e = false /\
  (forall r, call_gen false r e = OLost) /\
  (forall r, outcome_code (call_gen false r e) <> Some (error_code e)) /\
  (forall r, outcome_code (call r e) = Some (error_code e)).
Proof.
  cbn zeta. repeat split; intros; rewrite ?call_pre16_jrpc, ?call_jrpc; try reflexivity.
  cbn. discriminate.
Qed.

(* ---- C14: a *Error arrives as it is ------------------------------------------------------------- *)

Lemma valid_utf8_sanitize m : valid_utf8 m = true -> sanitize_utf8 m = m.
Proof. unfold valid_utf8. apply beq_eq. Qed.

(* Error.Data on the wire is the compaction of what was sent: the same content (JSON-equal),
   white space dropped and '<' '>' '&' U+2028 U+2029 escaped inside strings *)
Lemma wire_data_content d d' :
  wire_data d = Some d' -> json_content d' = json_content d /\ d' = squeeze SqOut d.
Proof.
  unfold wire_data. destruct d as [|b d0].
  - intros H. injection H as <-. split; reflexivity.
  - intros H. split; [exact (compact_content _ _ H)|exact (compact_squeeze _ _ H)].
Qed.

(* the data that reach the caller: none, or valid JSON *)
Lemma wire_data_some_iff d :
  (exists d', wire_data d = Some d') <-> (d = [] \/ json_valid d = true).
Proof.
  unfold wire_data, json_valid. destruct d as [|b d0].
  - split; [auto|]. intros _. exists []. reflexivity.
  - split.
    + intros [d' H]. right. rewrite H. reflexivity.
    + intros [H|H]; [discriminate|]. destruct (compact (b :: d0)) as [d'|]; [|discriminate].
      exists d'. reflexivity.
Qed.

Lemma error_verbatim r c m d d' :
  c <> Cancelled -> c <> DeadlineExceeded -> valid_utf8 m = true -> wire_data d = Some d' ->
  call r (EJrpc c m d) = OErr (EJrpc c m d') /\
  json_content d' = json_content d /\ d' = squeeze SqOut d.
Proof.
  intros H1 H2 Hm Hd. split; [|exact (wire_data_content d d' Hd)].
  rewrite call_jrpc, Hd, (valid_utf8_sanitize m Hm).
  rewrite from_wire_other by assumption. reflexivity.
Qed.

Example error_verbatim_nonvacuous :
  (7 <> Cancelled) /\ (7 <> DeadlineExceeded) /\ valid_utf8 [109; 195; 169]%N = true /\
  wire_data [32; 91; 49; 44; 32; 34; 60; 34; 93]%N (*  [1, "<"] *) =
    Some [91; 49; 44; 34; 92; 117; 48; 48; 51; 99; 34; 93]%N (* [1,"<"] *).
Proof. vm_compute. repeat split; discriminate. Qed.

Example error_verbatim_content_nonvacuous :
  let d := [32; 91; 49; 44; 32; 34; 60; 34; 93]%N in
  json_content d = [TOut 91; TOut 49; TOut 44; TOut 34; TCh 60; TOut 34; TOut 93]%N /\
  call (ResJson []) (EJrpc 7 [109]%N d) =
    OErr (EJrpc 7 [109]%N [91; 49; 44; 34; 92; 117; 48; 48; 51; 99; 34; 93]%N).
Proof. vm_compute. split; reflexivity. Qed.

Example wire_data_some_iff_nonvacuous :
  json_valid [123; 125]%N = true /\ json_valid [123]%N = false /\ wire_data [123; 32; 125]%N = Some [123; 125]%N.
Proof. vm_compute. repeat split. Qed.

(* data that is absent stays absent; the message is never touched when it is valid UTF-8 *)
Lemma error_verbatim_no_data r c m :
  c <> Cancelled -> c <> DeadlineExceeded -> valid_utf8 m = true ->
  call r (EJrpc c m []) = OErr (EJrpc c m []).
Proof. intros H1 H2 Hm. apply (error_verbatim r c m [] []); auto. Qed.

(* the excluded cases, each with the exact outcome *)
Lemma error_verbatim_refuted_sentinel_codes r m d :
  call r (EJrpc Cancelled m d) = OErr ECanceled /\
  call r (EJrpc DeadlineExceeded m d) = OErr EDeadline.
Proof. rewrite !call_jrpc. split; reflexivity. Qed.

Lemma error_verbatim_refuted_invalid_utf8 :
  valid_utf8 [97; 255]%N = false /\
  forall r, call r (EJrpc 7 [97; 255]%N []) = OErr (EJrpc 7 [97; 239; 191; 189]%N []).
Proof. split; [reflexivity|]. intros r. rewrite call_jrpc. reflexivity. Qed.

(* fix F16: data that are not JSON are dropped; the code is kept, the message is kept up to the
   UTF-8 sanitising every message undergoes; the reply is never lost *)
Lemma undeliverable_data_dropped r c m d :
  wire_data d = None ->
  call r (EJrpc c m d) = OErr (from_wire {| we_code := c; we_msg := sanitize_utf8 m; we_data := [] |}).
Proof. intros Hd. rewrite call_jrpc, Hd. reflexivity. Qed.

Lemma undeliverable_data_dropped_explicit r c m d :
  c <> Cancelled -> c <> DeadlineExceeded -> valid_utf8 m = true -> wire_data d = None ->
  call r (EJrpc c m d) = OErr (EJrpc c m []) /\ call r (EJrpc c m d) = call r (EJrpc c m []).
Proof.
  intros H1 H2 Hm Hd. rewrite (undeliverable_data_dropped r c m d Hd), (valid_utf8_sanitize m Hm).
  rewrite from_wire_other by assumption. split; [reflexivity|].
  rewrite call_jrpc. cbn [wire_data]. rewrite (valid_utf8_sanitize m Hm).
  rewrite from_wire_other by assumption. reflexivity.
Qed.

(* the data for which this happens: non-empty and not valid JSON *)
Lemma wire_data_none_iff d : wire_data d = None <-> (d <> [] /\ json_valid d = false).
Proof.
  unfold wire_data, json_valid. destruct d as [|b d0].
  - split; [discriminate|]. intros [H _]. contradiction.
  - destruct (compact (b :: d0)); split; try discriminate; try (intros [_ H]; discriminate).
    + intros _. split; [discriminate|reflexivity].
    + intros _. reflexivity.
Qed.

(* before the fix the reply was lost *)
Lemma error_verbatim_refuted_without_F16 r c m d :
  wire_data d = None -> call_gen false r (EJrpc c m d) = OLost.
Proof. intros Hd. rewrite call_pre16_jrpc, Hd. reflexivity. Qed.

(* only the *Error itself: a jrpc2.Error value, or a *Error inside a wrapper, is reported
   by code and Error() text, without its data *)
Lemma error_verbatim_refuted_value_and_wrapped :
  (forall r, call r (EJrpcV 7 [109]%N [49]%N) = OErr (EJrpc 7 [91; 55; 93; 32; 109]%N [])) /\
  (forall r, call r (EWrap [119]%N (EJrpc 7 [109]%N [49]%N)) =
             OErr (EJrpc 7 [119; 58; 32; 91; 55; 93; 32; 109]%N [])).
Proof. split; intros r; rewrite call_other by reflexivity; reflexivity. Qed.

(* ---- C14: the context sentinels ------------------------------------------------------------------- *)

Lemma no_coder_not_top e : first_coder e = None -> is_top_jrpc e = false.
Proof. destruct e; cbn; try reflexivity; discriminate. Qed.

Lemma sentinel_canceled r e :
  first_coder e = None -> reaches false e = true -> call r e = OErr ECanceled.
Proof.
  intros Hf Hr.
  rewrite (call_other r e (reaches_not_nil false e Hr) (no_coder_not_top e Hf)).
  f_equal. apply from_wire_canceled. cbn [we_code]. unfold wire_code.
  rewrite (error_code_canceled e Hf Hr). reflexivity.
Qed.

Lemma sentinel_deadline r e :
  first_coder e = None -> reaches false e = false -> reaches true e = true ->
  call r e = OErr EDeadline.
Proof.
  intros Hf Hc Hr.
  rewrite (call_other r e (reaches_not_nil true e Hr) (no_coder_not_top e Hf)).
  f_equal. apply from_wire_deadline. cbn [we_code]. unfold wire_code.
  rewrite (error_code_deadline e Hf Hc Hr). reflexivity.
Qed.

Lemma sentinels r e :
  first_coder e = None ->
  (reaches false e = true -> call r e = OErr ECanceled) /\
  (reaches false e = false -> reaches true e = true -> call r e = OErr EDeadline).
Proof. intros Hf. split; [apply sentinel_canceled|apply sentinel_deadline]; exact Hf. Qed.

Lemma wire_code_eq e z : z <> NoError -> z <> InternalError -> (wire_code e = z <-> error_code e = z).
Proof.
  intros H1 H2. unfold wire_code. destruct (error_code e =? NoError) eqn:E.
  - apply Z.eqb_eq in E. split; intros H; congruence.
  - tauto.
Qed.

(* exactly the errors classified Cancelled / DeadlineExceeded surface as the sentinel *)
Lemma sentinel_iff r e :
  is_nil e = false ->
  (call r e = OErr ECanceled <-> error_code e = Cancelled) /\
  (call r e = OErr EDeadline <-> error_code e = DeadlineExceeded).
Proof.
  intros Hn.
  assert (Hinj : forall a b, OErr a = OErr b <-> a = b) by (intros a b; split; congruence).
  destruct (is_top_jrpc e) eqn:Ht.
  - destruct e; try discriminate. rewrite call_jrpc.
    rewrite !Hinj, from_wire_canceled, from_wire_deadline, error_code_jrpc. cbn [we_code]. tauto.
  - rewrite (call_other r e Hn Ht), !Hinj, from_wire_canceled, from_wire_deadline. cbn [we_code].
    split; apply wire_code_eq; discriminate.
Qed.

Example sentinel_nonvacuous :
  let e := EWrap [119]%N (EJoin [EPlain [112]%N; EWrap [120]%N EDeadline; ECoder KMixVal 5 [107]%N]) in
  first_coder e = None /\ reaches false e = false /\ reaches true e = true.
Proof. vm_compute. repeat split. Qed.

Example sentinel_canceled_nonvacuous :
  let e := EJoin [EDeadline; EWrap [119]%N ECanceled] in
  first_coder e = None /\ reaches false e = true /\ reaches true e = true.
Proof. vm_compute. repeat split. Qed.

(* the side condition is needed: an ErrCoder anywhere in the tree (even after the
   sentinel) decides the code, because errors.As runs before errors.Is *)
Lemma sentinel_refuted_coder_wins :
  let e := EJoin [ECanceled; ECode 5] in
  reaches false e = true /\ first_coder e = Some 5 /\
  forall r, call r e = OErr (EJrpc 5 (t_canceled ++ 10%N :: t_error_code ++ [53%N]) []).
Proof. repeat split; intros; rewrite ?call_other by reflexivity; reflexivity. Qed.

(* ---- C14: a result that cannot be marshalled ------------------------------------------------------- *)

Lemma unmarshalable_result why e :
  is_nil e = true -> is_nil why = false -> is_top_jrpc why = false ->
  call (ResBad why) e =
    OErr (from_wire {| we_code := wire_code why; we_msg := sanitize_utf8 (error_text why); we_data := [] |})
  /\ wire_code why <> NoError.
Proof.
  intros He Hw Ht. split; [|apply wire_code_not_noerror].
  rewrite (call_nil_bad why e He). apply call_other; assumption.
Qed.

(* never a result, never silence *)
Lemma unmarshalable_result_is_error why e :
  is_nil e = true -> is_nil why = false -> is_top_jrpc why = false ->
  exists ce, call (ResBad why) e = OErr ce /\ error_code ce = wire_code why.
Proof.
  intros He Hw Ht. destruct (unmarshalable_result why e He Hw Ht) as [H _].
  eexists. split; [exact H|]. rewrite error_code_from_wire. reflexivity.
Qed.

(* the two shapes encoding/json produces *)
Lemma unmarshalable_unsupported text e :
  is_nil e = true ->
  call (ResBad (EPlain text)) e = OErr (EJrpc SystemError (sanitize_utf8 text) []).
Proof.
  intros He. destruct (unmarshalable_result (EPlain text) e He eq_refl eq_refl) as [H _].
  rewrite H. reflexivity.
Qed.

Lemma unmarshalable_marshaler_error prefix cause e :
  is_nil e = true -> is_nil cause = false ->
  exists ce, call (ResBad (EWrap prefix cause)) e = OErr ce /\
             error_code ce = (if error_code cause =? NoError then InternalError else error_code cause).
Proof.
  intros He Hc.
  destruct (unmarshalable_result_is_error (EWrap prefix cause) e He eq_refl eq_refl) as [ce [H1 H2]].
  exists ce. split; [exact H1|]. rewrite H2. unfold wire_code. rewrite (error_code_wrap prefix cause Hc).
  reflexivity.
Qed.

(* a handler error wins over the state of the result *)
Lemma handler_error_wins r r' e : is_nil e = false -> call r e = call r' e.
Proof. intros H. rewrite !call_nonnil by exact H. reflexivity. Qed.

Example unmarshalable_result_nonvacuous :
  let why := EWrap [106]%N (EJoin [EPlain [112]%N; ECanceled]) in
  is_nil enil = true /\ is_nil why = false /\ is_top_jrpc why = false /\
  call (ResBad why) enil = OErr ECanceled.
Proof. vm_compute. repeat split. Qed.

(* ---- C14: Code.Err ------------------------------------------------------------------------------------ *)

Lemma code_err_through_call r c :
  c <> NoError -> outcome_code (call r (code_err c)) = Some c.
Proof.
  intros H.
  assert (Hn : is_nil (code_err c) = false).
  { destruct (is_nil (code_err c)) eqn:E; [|reflexivity]. apply code_err_nil in E. contradiction. }
  rewrite (code_preserved r (code_err c) Hn).
  - rewrite code_err_roundtrip. reflexivity.
  - unfold code_dom. cbn [code_err is_top_jrpc orb].
    fold (code_err c). rewrite code_err_roundtrip.
    apply Z.eqb_neq in H. rewrite H. reflexivity.
Qed.

Example code_err_nonvacuous :
  error_code (code_err (-2147483648)) = -2147483648 /\
  error_text (code_err (-2147483648)) = t_error_code ++ [45; 50; 49; 52; 55; 52; 56; 51; 54; 52; 56]%N /\
  error_text (code_err MethodNotFound) = t_method_not_found /\
  is_nil (code_err NoError) = true.
Proof. vm_compute. repeat split. Qed.

(* ---- notifications ---------------------------------------------------------------------------------------- *)

Lemma notify_error_discarded r e : is_nil e = false -> notify r e = None.
Proof. intros H. unfold notify, notify_gen, invoke_gen. rewrite H. reflexivity. Qed.

Lemma notify_ok_silent raw e : is_nil e = true -> notify (ResJson raw) e = None.
Proof. intros H. unfold notify, notify_gen, invoke_gen. rewrite H. reflexivity. Qed.

(* fix F15: the error of json.Marshal on a notification's result is discarded as well, so a
   notification never gets a reply, whatever its handler returns *)
Lemma notify_bad_result why e : notify (ResBad why) e = None.
Proof. unfold notify, notify_gen, invoke_gen. destruct (is_nil e); reflexivity. Qed.

Lemma notify_never_replies r e : notify r e = None.
Proof.
  destruct (is_nil e) eqn:H.
  - destruct r; [apply notify_ok_silent; auto|apply notify_bad_result].
  - apply notify_error_discarded; auto.
Qed.

(* before the fix the marshalling error was not discarded by invoke, and tasks.responses lets it
   through when its code is ParseError or InvalidRequest: the notification got a reply *)
Lemma notify_reply_leak_without_F15 :
  let why := EWrap [106]%N (EJrpc ParseError [112]%N []) in
  notify_gen false (ResBad why) enil =
    Some {| we_code := ParseError;
            we_msg := [106; 58; 32; 91; 45; 51; 50; 55; 48; 48; 93; 32; 112]%N; we_data := [] |}.
Proof. reflexivity. Qed.

(* ---- WithData ------------------------------------------------------------------------------------------------ *)

Lemma with_data_pure h p v h' p' :
  with_data h p v = WDOk h' p' ->
  (forall q c, nth_error h q = Some c -> nth_error h' q = Some c) /\
  ((h' = h /\ p' = p) \/
   (exists c data, nth_error h p = Some c /\ marshal_arg v = Some data /\
                   h' = h ++ [{| we_code := we_code c; we_msg := we_msg c; we_data := data |}] /\
                   p' = List.length h)).
Proof.
  unfold with_data. intros H.
  assert (Hsame : WDOk h p = WDOk h' p' ->
                  (forall q c, nth_error h q = Some c -> nth_error h' q = Some c) /\
                  ((h' = h /\ p' = p) \/
                   (exists c data, nth_error h p = Some c /\ marshal_arg v = Some data /\
                      h' = h ++ [{| we_code := we_code c; we_msg := we_msg c; we_data := data |}] /\
                      p' = List.length h))).
  { intros E. inversion E; subst. split; [auto|left; auto]. }
  destruct v; try (apply Hsame; exact H).
  - destruct (marshal_arg (WRaw raw)) as [data|] eqn:Em; [|apply Hsame; exact H].
    destruct (nth_error h p) as [c|] eqn:En; [|discriminate].
    inversion H; subst. split.
    + intros q c0 Hq. rewrite nth_error_app1; [exact Hq|]. apply nth_error_Some. congruence.
    + right. exists c, data. auto.
  - destruct (marshal_arg (WVal enc)) as [data|] eqn:Em; [|apply Hsame; exact H].
    destruct (nth_error h p) as [c|] eqn:En; [|discriminate].
    inversion H; subst. split.
    + intros q c0 Hq. rewrite nth_error_app1; [exact Hq|]. apply nth_error_Some. congruence.
    + right. exists c, data. auto.
Qed.

(* in particular the receiver's cell *)
Lemma with_data_receiver_unchanged h p v h' p' c :
  with_data h p v = WDOk h' p' -> nth_error h p = Some c -> nth_error h' p = Some c.
Proof. intros H. destruct (with_data_pure h p v h' p' H) as [Hall _]. apply Hall. Qed.

(* the copy carries the receiver's code and message and the new data *)
Lemma with_data_result h p v h' p' c data :
  with_data h p v = WDOk h' p' -> nth_error h p = Some c -> v <> WNil -> marshal_arg v = Some data ->
  nth_error h' p' = Some {| we_code := we_code c; we_msg := we_msg c; we_data := data |} /\ p' <> p.
Proof.
  unfold with_data. intros H Hc Hv Hm.
  destruct v; try contradiction; rewrite Hm, Hc in H; inversion H; subst;
    (split; [rewrite nth_error_app2, Nat.sub_diag; [reflexivity|lia]|
             intros E; assert (p < List.length h)%nat by (apply nth_error_Some; congruence); lia]).
Qed.

(* only a nil receiver with data to attach can crash *)
Lemma with_data_crash h p v :
  with_data h p v = WDCrash <-> (nth_error h p = None /\ v <> WNil /\ marshal_arg v <> None).
Proof.
  unfold with_data.
  destruct v; cbn [marshal_arg]; try destruct (compact raw); destruct (nth_error h p);
    (split; [intros H; try discriminate H; repeat split; congruence
            |intros [H1 [H2 H3]]; try reflexivity; congruence]).
Qed.

Example with_data_nonvacuous :
  let c := {| we_code := 1; we_msg := [109]%N; we_data := [48]%N |} in
  with_data [c] 0 (WRaw [32; 91; 49; 44; 32; 50; 93]%N) =
    WDOk [c; {| we_code := 1; we_msg := [109]%N; we_data := [91; 49; 44; 50; 93]%N |}] 1 /\
  with_data [c] 0 WNil = WDOk [c] 0 /\
  with_data [c] 0 WBad = WDOk [c] 0 /\
  with_data [c] 0 (WRaw [123]%N) = WDOk [c] 0 /\
  with_data [c] 7 (WVal [49]%N) = WDCrash.
Proof. vm_compute. repeat split. Qed.

(* ---- batches: no call loses its reply because of a sibling (fix F16/F17) ----------------------------------- *)

Lemma deliver_never_lost t : deliver t <> WLost.
Proof.
  destruct t as [val err]. unfold deliver, deliver_gen, respond. cbn [andb].
  destruct (is_nil err); [discriminate|].
  change (transit_gen true) with transit. rewrite transit_total. discriminate.
Qed.

(* what a call gets is what its reply on the wire says, through filterError *)
Lemma call_deliver r e :
  call r e = match deliver (invoke false r e) with
             | WResult raw => OResult raw
             | WError w => OErr (from_wire w)
             | WLost => OLost
             end.
Proof. reflexivity. Qed.

(* every call of a batch gets exactly the reply it would get alone *)
Lemma batch_members_independent cs :
  batch cs = map (fun c => deliver (invoke false (fst c) (snd c))) cs.
Proof.
  unfold batch, batch_gen. fold deliver.
  assert (H : existsb is_wlost (map (fun c => deliver (invoke false (fst c) (snd c))) cs) = false).
  { induction cs as [|c cs IH]; [reflexivity|]. cbn [map existsb]. rewrite IH, orb_false_r.
    pose proof (deliver_never_lost (invoke false (fst c) (snd c))) as Hc.
    destruct (deliver (invoke false (fst c) (snd c))); try reflexivity. contradiction. }
  rewrite H. reflexivity.
Qed.

Lemma batch_never_loses cs w : In w (batch cs) -> w <> WLost.
Proof.
  rewrite batch_members_independent. intros H. apply in_map_iff in H as [c [<- _]]. apply deliver_never_lost.
Qed.

Lemma batch_length cs : List.length (batch cs) = List.length cs.
Proof. rewrite batch_members_independent. apply map_length. Qed.

(* before the fix one *Error with data that are not JSON silenced the whole batch: the
   well-formed call next to it got no reply either (finding F17) *)
Lemma batch_refuted_without_F16 :
  let ok := (ResJson [116; 114; 117; 101]%N, enil) in
  let bad := (ResJson [116; 114; 117; 101]%N, EJrpc 7 [110; 111]%N [123; 98; 97; 100]%N) in
  batch_gen false [ok; bad] = [WLost; WLost] /\
  batch_gen false [ok] = [WResult [116; 114; 117; 101]%N] /\
  call_gen false (fst ok) (snd ok) = OResult [116; 114; 117; 101]%N /\
  batch [ok; bad] = [WResult [116; 114; 117; 101]%N;
                     WError {| we_code := 7; we_msg := [110; 111]%N; we_data := [] |}].
Proof. vm_compute. repeat split. Qed.

(* ---- ASCII texts cross the wire unchanged ------------------------------------------------------------------------ *)

Local Open Scope N_scope.

Definition ascii_bytes (m : bytes) : bool := forallb (fun b => b <? 128) m.

Lemma sanitize_ascii m : ascii_bytes m = true -> sanitize_utf8 m = m.
Proof.
  unfold ascii_bytes. induction m as [|b r IH]; [reflexivity|].
  cbn [forallb]. intros H. apply andb_true_iff in H as [Hb Hr].
  cbn [sanitize_utf8]. unfold utf8_len. rewrite Hb. rewrite (IH Hr). reflexivity.
Qed.

Lemma ascii_app a b : ascii_bytes a = true -> ascii_bytes b = true -> ascii_bytes (a ++ b) = true.
Proof. unfold ascii_bytes. intros Ha Hb. rewrite forallb_app, Ha, Hb. reflexivity. Qed.

Lemma digits_ascii u : ascii_bytes (digits u) = true.
Proof. induction u; cbn; auto. Qed.

Lemma dec_ascii z : ascii_bytes (dec z) = true.
Proof. unfold dec. destruct (Z.to_int z); cbn [ascii_bytes forallb]; [|cbn]; apply digits_ascii. Qed.

Lemma code_string_ascii c : ascii_bytes (code_string c) = true.
Proof.
  unfold code_string.
  repeat match goal with |- context [if ?b then _ else _] => destruct b; [reflexivity|] end.
  apply ascii_app; [reflexivity|apply dec_ascii].
Qed.

(* Code.Err() of a code that is neither NoError nor a context code reaches the caller as
   the *Error with that code and the text of Code.String() *)
Lemma code_err_arrives r c :
  (c <> NoError)%Z -> (c <> Cancelled)%Z -> (c <> DeadlineExceeded)%Z ->
  call r (code_err c) = OErr (EJrpc c (code_string c) []).
Proof.
  intros H0 H1 H2.
  assert (Hn : is_nil (code_err c) = false).
  { destruct (is_nil (code_err c)) eqn:E; [|reflexivity]. apply code_err_nil in E. contradiction. }
  rewrite (call_other r (code_err c) Hn eq_refl).
  assert (Hw : wire_code (code_err c) = c).
  { unfold wire_code. rewrite code_err_roundtrip. apply Z.eqb_neq in H0. rewrite H0. reflexivity. }
  rewrite Hw. rewrite from_wire_other by (cbn [we_code]; assumption).
  cbn [we_code we_msg we_data]. unfold code_err. cbn [error_text].
  rewrite (sanitize_ascii _ (code_string_ascii c)). reflexivity.
Qed.

(* ---- the state of the request's context does not matter ------------------------------------------------------- *)

Local Open Scope Z_scope.

(* the reply depends only on what the handler returned: cancelling the request (or its
   deadline passing) before the handler returns its error does not replace that error *)
Lemma cancellation_does_not_replace_error cs r e : call_ctx true cs r e = call r e.
Proof. reflexivity. Qed.

(* in particular a *Error still arrives as it is, and codes are still preserved *)
Lemma error_verbatim_ctx cs r c m d d' :
  c <> Cancelled -> c <> DeadlineExceeded -> valid_utf8 m = true -> wire_data d = Some d' ->
  call_ctx true cs r (EJrpc c m d) = OErr (EJrpc c m d').
Proof.
  intros H1 H2 Hm Hd. rewrite cancellation_does_not_replace_error.
  exact (proj1 (error_verbatim r c m d d' H1 H2 Hm Hd)).
Qed.

Lemma code_preserved_ctx cs r e :
  is_nil e = false -> code_dom e = true -> outcome_code (call_ctx true cs r e) = Some (error_code e).
Proof. intros Hn Hd. rewrite cancellation_does_not_replace_error. exact (code_preserved r e Hn Hd). Qed.

Example cancellation_nonvacuous :
  call_ctx true CtxCanceled (ResJson [49]%N) (EJrpc 7 [109]%N [49]%N) = OErr (EJrpc 7 [109]%N [49]%N) /\
  call_ctx true CtxDeadline (ResJson [49]%N) (EPlain [112]%N) = OErr (EJrpc SystemError [112]%N []) /\
  call_ctx true CtxCanceled (ResJson [49]%N) enil = OResult [49]%N /\
  7 <> Cancelled /\ 7 <> DeadlineExceeded /\ valid_utf8 [109]%N = true /\ wire_data [49]%N = Some [49]%N /\
  code_dom (EPlain [112]%N) = true.
Proof. vm_compute. repeat split; discriminate. Qed.

(* the variant in which a done context replaces the handler's error breaks every clause:
   the *Error is lost and the code changes; a successful result is not affected *)
Lemma cancellation_refuted_if_replaced :
  let e := EJrpc 7 [109]%N [49]%N in
  (forall r, call_ctx false CtxCanceled r e = OErr ECanceled) /\
  (forall r, call_ctx false CtxDeadline r e = OErr EDeadline) /\
  (forall r, outcome_code (call_ctx false CtxCanceled r e) <> Some (error_code e)) /\
  (forall cs r, call_ctx false cs r enil = call r enil) /\
  (forall r e', call_ctx false CtxLive r e' = call r e').
Proof.
  cbn zeta. repeat split; intros; try reflexivity; try discriminate.
  unfold call_ctx, call, call_gen, settle, invoke_ctx, invoke, invoke_gen. destruct (is_nil e'); reflexivity.
Qed.

(* ---- non-vacuity of the remaining implications ------------------------------------------------------------------ *)

Local Open Scope Z_scope.

Example error_code_wrap_nonvacuous :
  let e := EJoin [EPlain [112]%N; ECoder KPtrPtr 9 [107]%N] in
  is_nil e = false /\ error_code (EWrap [119]%N e) = 9 /\ error_code (EWrap [119]%N enil) = SystemError.
Proof. vm_compute. repeat split. Qed.

Example sentinel_iff_nonvacuous :
  let e := EWrap [119]%N (ECode Cancelled) in
  is_nil e = false /\ error_code e = Cancelled /\
  call (ResJson []) e = OErr ECanceled /\
  call (ResJson []) (EJrpc DeadlineExceeded [109]%N []) = OErr EDeadline.
Proof. vm_compute. repeat split. Qed.

Example error_verbatim_refuted_sentinel_codes_example :
  call (ResJson []) (EJrpc Cancelled [109]%N [32; 49]%N) = OErr ECanceled /\
  call (ResJson []) (EJrpc DeadlineExceeded [109]%N [123]%N) = OErr EDeadline.
Proof. vm_compute. split; reflexivity. Qed.

Example undeliverable_data_dropped_nonvacuous :
  wire_data [123]%N = None /\ 7 <> Cancelled /\ 7 <> DeadlineExceeded /\ valid_utf8 [109]%N = true /\
  call (ResJson []) (EJrpc 7 [109]%N [123]%N) = OErr (EJrpc 7 [109]%N []) /\
  call (ResJson []) (EJrpc 7 [109; 255]%N [123]%N) = OErr (EJrpc 7 [109; 239; 191; 189]%N []) /\
  call (ResJson []) (EJrpc Cancelled [109]%N [123]%N) = OErr ECanceled /\
  call_gen false (ResJson []) (EJrpc 7 [109]%N [123]%N) = OLost.
Proof. vm_compute. repeat split; discriminate. Qed.

Example unmarshalable_unsupported_nonvacuous :
  is_nil (EJoin [enil]) = true /\
  call (ResBad (EPlain [106; 255]%N)) (EJoin [enil]) = OErr (EJrpc SystemError [106; 239; 191; 189]%N []).
Proof. vm_compute. split; reflexivity. Qed.

Example handler_error_wins_nonvacuous :
  is_nil (ECode 5) = false /\
  call (ResBad (EPlain [106]%N)) (ECode 5) = call (ResJson [49]%N) (ECode 5) /\
  call (ResJson [49]%N) (ECode 5) = OErr (EJrpc 5 (t_error_code ++ [53]%N) []).
Proof. vm_compute. repeat split. Qed.

Example code_err_through_call_nonvacuous :
  2147483647 <> NoError /\ Cancelled <> NoError /\
  outcome_code (call (ResJson []) (code_err 2147483647)) = Some 2147483647 /\
  call (ResJson []) (code_err Cancelled) = OErr ECanceled.
Proof. vm_compute. repeat split; discriminate. Qed.

Example code_err_arrives_nonvacuous :
  InvalidParams <> NoError /\ InvalidParams <> Cancelled /\ InvalidParams <> DeadlineExceeded /\
  call (ResJson []) (code_err InvalidParams) = OErr (EJrpc InvalidParams t_invalid_params []).
Proof. vm_compute. repeat split; discriminate. Qed.

Example with_data_crash_nonvacuous :
  nth_error ([] : heap) 0 = None /\ WVal [49]%N <> WNil /\ marshal_arg (WVal [49]%N) <> None /\
  with_data [] 0 (WVal [49]%N) = WDCrash /\ with_data [] 0 WNil = WDOk [] 0.
Proof. vm_compute. repeat split; discriminate. Qed.

Example notify_error_discarded_nonvacuous :
  is_nil (EJrpc ParseError [112]%N []) = false /\
  notify (ResJson [49]%N) (EJrpc ParseError [112]%N []) = None.
Proof. vm_compute. split; reflexivity. Qed.
