(* Errs: executable model of how an error value travels from a handler to the caller
   (C14).  Anchors: code.go (Code.String, Code.Err, codeError, ErrorCode), error.go
   (Error, Error.Error, WithData, Errorf), server.go (invoke, tasks.responses),
   json.go (jmessage.toJSON: json.Marshal of the *Error, without its data when they do not
   encode: fix F16/F17), base.go (filterError,
   Response.wait), client.go (Call).  Definitions only; proofs are in ErrsProofs.v. *)
From Coq Require Import List NArith ZArith Bool Ascii String.
From JV Require Import Bytes Msg ErrsJson.
Import ListNotations.
Local Open Scope Z_scope.

(* ---- byte-string constants ------------------------------------------------------ *)

Definition bs (s : string) : bytes := map N_of_ascii (list_ascii_of_string s).

Definition t_canceled : bytes := Eval vm_compute in bs "context canceled".
Definition t_deadline : bytes := Eval vm_compute in bs "context deadline exceeded".
Definition t_colon : bytes := Eval vm_compute in bs ": ".
Definition t_wnil : bytes := Eval vm_compute in bs "%!w(<nil>)".
Definition t_error_code : bytes := Eval vm_compute in bs "error code ".
Definition t_parse_error : bytes := Eval vm_compute in bs "parse error".
Definition t_invalid_request : bytes := Eval vm_compute in bs "invalid request".
Definition t_method_not_found : bytes := Eval vm_compute in bs "method not found".
Definition t_invalid_params : bytes := Eval vm_compute in bs "invalid parameters".
Definition t_internal_error : bytes := Eval vm_compute in bs "internal error".
Definition t_no_error : bytes := Eval vm_compute in bs "no error (success)".
Definition t_system_error : bytes := Eval vm_compute in bs "system error".
Definition t_cancelled : bytes := Eval vm_compute in bs "request cancelled".
Definition t_deadline_exceeded : bytes := Eval vm_compute in bs "deadline exceeded".

(* fmt's %d of an integer *)
Fixpoint digits (u : Decimal.uint) : bytes :=
  match u with
  | Decimal.Nil => []
  | Decimal.D0 u' => 48%N :: digits u'
  | Decimal.D1 u' => 49%N :: digits u'
  | Decimal.D2 u' => 50%N :: digits u'
  | Decimal.D3 u' => 51%N :: digits u'
  | Decimal.D4 u' => 52%N :: digits u'
  | Decimal.D5 u' => 53%N :: digits u'
  | Decimal.D6 u' => 54%N :: digits u'
  | Decimal.D7 u' => 55%N :: digits u'
  | Decimal.D8 u' => 56%N :: digits u'
  | Decimal.D9 u' => 57%N :: digits u'
  end.

Definition dec (z : Z) : bytes :=
  match Z.to_int z with
  | Decimal.Pos u => digits u
  | Decimal.Neg u => 45%N :: digits u
  end.

(* ---- error values ---------------------------------------------------------------- *)

(* A user-defined error type with an ErrCode method.  Go's method sets decide whether
   the value stored in the error interface satisfies jrpc2.ErrCoder:
     KValVal  both methods on the value receiver, a value is returned
     KValPtr  both methods on the value receiver, a pointer is returned
     KPtrPtr  both methods on the pointer receiver, a pointer is returned
     KMixVal  Error() on the value receiver, ErrCode() on the pointer receiver, a value
              is returned: an error, but NOT an ErrCoder
     KMixPtr  the same type, a pointer is returned: an ErrCoder *)
Inductive coder_kind := KValVal | KValPtr | KPtrPtr | KMixVal | KMixPtr.

Definition implements_coder (k : coder_kind) : bool :=
  match k with KMixVal => false | _ => true end.

Inductive gerr :=
| EJrpc (code : Z) (msg data : bytes)     (* &jrpc2.Error{Code, Message, Data}; also jrpc2.Errorf (data = []) *)
| EJrpcV (code : Z) (msg data : bytes)    (* jrpc2.Error{...} returned by value: Error's methods have value receivers *)
| ECode (c : Z)                           (* Code(c).Err(): codeError(c), and nil when c = NoError *)
| ECoder (k : coder_kind) (c : Z) (msg : bytes)   (* custom ErrCoder type whose Error() is msg *)
| ECanceled                               (* context.Canceled *)
| EDeadline                               (* context.DeadlineExceeded *)
| EPlain (msg : bytes)                    (* errors.New(msg) *)
| EWrap (msg : bytes) (e : gerr)          (* fmt.Errorf("%s: %w", msg, e) *)
| EJoin (es : list gerr).                 (* errors.Join(es...) *)

(* Go's nil error: Code(NoError).Err() is nil, errors.Join drops nil operands and is
   nil when nothing is left.  fmt.Errorf never returns nil. *)
Fixpoint is_nil (e : gerr) : bool :=
  match e with
  | ECode c => c =? NoError
  | EJoin es => forallb is_nil es
  | _ => false
  end.

Definition enil : gerr := ECode NoError.

(* Code.String *)
Definition code_string (c : Z) : bytes :=
  if c =? ParseError then t_parse_error
  else if c =? InvalidRequest then t_invalid_request
  else if c =? MethodNotFound then t_method_not_found
  else if c =? InvalidParams then t_invalid_params
  else if c =? InternalError then t_internal_error
  else if c =? NoError then t_no_error
  else if c =? SystemError then t_system_error
  else if c =? Cancelled then t_cancelled
  else if c =? DeadlineExceeded then t_deadline_exceeded
  else t_error_code ++ dec c.

(* strings.Join-like: errors.Join separates the texts by a newline *)
Fixpoint join_nl (ts : list bytes) : bytes :=
  match ts with
  | [] => []
  | [t] => t
  | t :: ts' => t ++ 10%N :: join_nl ts'
  end.

(* Error(): the text of a non-nil error *)
Fixpoint error_text (e : gerr) : bytes :=
  match e with
  | EJrpc c m _ | EJrpcV c m _ => 91%N :: dec c ++ 93%N :: 32%N :: m      (* "[%d] %s" *)
  | ECode c => code_string c
  | ECoder _ _ m => m
  | ECanceled => t_canceled
  | EDeadline => t_deadline
  | EPlain m => m
  | EWrap m e' => m ++ t_colon ++ (if is_nil e' then t_wnil else error_text e')
  | EJoin es =>
      join_nl ((fix texts (l : list gerr) : list bytes :=
                  match l with
                  | [] => []
                  | x :: l' => if is_nil x then texts l' else error_text x :: texts l'
                  end) es)
  end.

(* errors.As(err, &ErrCoder): the first value in the tree, depth first, in operand
   order, whose dynamic type implements ErrCoder.  *Error and Error both do (value
   receivers); *fmt.wrapError and *errors.joinError do not, they are unwrapped; a nil
   operand is not visited. *)
Fixpoint first_coder (e : gerr) : option Z :=
  match e with
  | EJrpc c _ _ | EJrpcV c _ _ => Some c
  | ECode c => if c =? NoError then None else Some c
  | ECoder k c _ => if implements_coder k then Some c else None
  | ECanceled | EDeadline | EPlain _ => None
  | EWrap _ e' => first_coder e'
  | EJoin es =>
      (fix first (l : list gerr) : option Z :=
         match l with
         | [] => None
         | x :: l' => match first_coder x with
                      | Some c => Some c
                      | None => first l'
                      end
         end) es
  end.

(* errors.Is(err, context.Canceled) (dl = false) / errors.Is(err, context.DeadlineExceeded)
   (dl = true): some value of the tree is the sentinel.  codeError.Is only matches
   ErrCoder targets, which the context sentinels are not. *)
Fixpoint reaches (dl : bool) (e : gerr) : bool :=
  match e with
  | ECanceled => negb dl
  | EDeadline => dl
  | EWrap _ e' => reaches dl e'
  | EJoin es => existsb (reaches dl) es
  | _ => false
  end.

(* jrpc2.ErrorCode *)
Definition error_code (e : gerr) : Z :=
  if is_nil e then NoError
  else match first_coder e with
       | Some c => c
       | None =>
           if reaches false e then Cancelled
           else if reaches true e then DeadlineExceeded
           else SystemError
       end.

(* Code.Err *)
Definition code_err (c : Z) : gerr := ECode c.

(* ---- server side: invoke and tasks.responses ---------------------------------------- *)

(* what json.Marshal makes of the handler's result value *)
Inductive hres :=
| ResJson (raw : bytes)     (* marshals to raw *)
| ResBad (why : gerr).      (* Marshal fails with this error: *json.UnsupportedTypeError / UnsupportedValueError
                               (EPlain text) or *json.MarshalerError (EWrap "json: error calling ..." cause) *)

(* invoke: (t.val, t.err).  The error of a notification handler is discarded, and so is
   (since fix F15; switch [fix15]) the error of json.Marshal on a notification's result. *)
Definition invoke_gen (fix15 : bool) (is_note : bool) (r : hres) (e : gerr) : bytes * gerr :=
  if is_nil e then
    match r with
    | ResJson raw => (raw, enil)
    | ResBad why => if fix15 && is_note then ([], enil) else ([], why)
    end
  else if is_note then ([], enil)
  else ([], e).
Definition invoke : bool -> hres -> gerr -> bytes * gerr := invoke_gen true.

(* the code tasks.responses gives an error that is not itself a *Error: ErrorCode, with
   InternalError standing in for NoError *)
Definition wire_code (e : gerr) : Z :=
  let c := error_code e in
  if c =? NoError then InternalError else c.

(* the error branch of tasks.responses: only a *Error that IS the returned value (type
   assertion, not errors.As) is passed on as it is *)
Definition to_wire (e : gerr) : werr :=
  match e with
  | EJrpc c m d => {| we_code := c; we_msg := m; we_data := d |}
  | _ => {| we_code := wire_code e; we_msg := error_text e; we_data := [] |}
  end.

Inductive reply :=
| RpResult (raw : bytes)
| RpError (w : werr).

(* tasks.responses for one task: None = no response member is produced *)
Definition respond (is_note : bool) (t : bytes * gerr) : option reply :=
  let (val, err) := t in
  if is_note && negb ((error_code err =? ParseError) || (error_code err =? InvalidRequest))
  then None
  else if is_nil err then Some (RpResult val)
  else Some (RpError (to_wire err)).

(* ---- the wire: json.Marshal of the *Error in toJSON, json.Unmarshal in parseJSON ----------- *)

(* Error.Data on the wire: omitted when empty (omitempty), else what Marshal makes of
   a RawMessage; None: Marshal fails because Data is not JSON *)
Definition wire_data (d : bytes) : option bytes :=
  match d with
  | [] => Some []
  | _ => compact d
  end.

(* jmessage.toJSON.  json.Marshal of the *Error fails when its Data is not JSON.  Since fix
   F16/F17 (switch [fix16]) toJSON then encodes the error object WITHOUT its data (same code,
   same message), so a reply is always produced.  Before the fix toJSON returned Marshal's
   error: None = encode fails and nothing is sent (not this reply, nor any other reply of
   the same batch). *)
Definition transit_gen (fix16 : bool) (w : werr) : option werr :=
  match wire_data (we_data w) with
  | Some d' => Some {| we_code := we_code w; we_msg := sanitize_utf8 (we_msg w); we_data := d' |}
  | None =>
      if fix16 then Some {| we_code := we_code w; we_msg := sanitize_utf8 (we_msg w); we_data := [] |}
      else None
  end.
Definition transit : werr -> option werr := transit_gen true.

(* what arrives for the error object w (since fix F16 something always does) *)
Definition sent (w : werr) : werr :=
  {| we_code := we_code w; we_msg := sanitize_utf8 (we_msg w);
     we_data := match wire_data (we_data w) with Some d' => d' | None => [] end |}.

(* ---- client side: Response.wait, Call, filterError ---------------------------------- *)

Definition from_wire (w : werr) : gerr :=
  if we_code w =? Cancelled then ECanceled
  else if we_code w =? DeadlineExceeded then EDeadline
  else EJrpc (we_code w) (we_msg w) (we_data w).

Inductive outcome :=
| OResult (raw : bytes)     (* Call returns a response and a nil error *)
| OErr (e : gerr)           (* Call returns this error *)
| OLost.                    (* no reply reaches the client (possible only before fix F16) *)

(* what the server puts on the wire for one call *)
Inductive wreply :=
| WResult (raw : bytes)
| WError (w : werr)
| WLost.                    (* nothing is sent *)

Definition deliver_gen (fix16 : bool) (t : bytes * gerr) : wreply :=
  match respond false t with
  | None => WLost
  | Some (RpResult raw) => WResult raw
  | Some (RpError w) =>
      match transit_gen fix16 w with
      | Some w' => WError w'
      | None => WLost
      end
  end.
Definition deliver : bytes * gerr -> wreply := deliver_gen true.

(* what the caller gets for a task that ended with (t.val, t.err) *)
Definition settle_gen (fix16 : bool) (t : bytes * gerr) : outcome :=
  match deliver_gen fix16 t with
  | WResult raw => OResult raw
  | WError w' => OErr (from_wire w')
  | WLost => OLost
  end.
Definition settle : bytes * gerr -> outcome := settle_gen true.

(* one call: the handler returns (value, e), the value marshals as r *)
Definition call_gen (fix16 : bool) (r : hres) (e : gerr) : outcome := settle_gen fix16 (invoke false r e).
Definition call : hres -> gerr -> outcome := call_gen true.

(* a batch of calls (Client.Batch): tasks.responses builds one reply per call and
   jmessages.toJSON encodes them into ONE record; if the encoding of one member fails,
   deliver fails and nothing at all is sent (F17: the siblings lose their replies too).
   The replies as they are on the wire (Batch does not apply filterError). *)
Definition is_wlost (w : wreply) : bool := match w with WLost => true | _ => false end.
Definition batch_gen (fix16 : bool) (cs : list (hres * gerr)) : list wreply :=
  let ws := map (fun c => deliver_gen fix16 (invoke false (fst c) (snd c))) cs in
  if existsb is_wlost ws then map (fun _ => WLost) ws else ws.
Definition batch : list (hres * gerr) -> list wreply := batch_gen true.

(* ---- the request's server-side context ------------------------------------------------ *)

(* The state of the context the handler ran with at the moment the handler returns: still
   live, cancelled (Server.CancelRequest(id), rpc.cancel, or the cancellation of the
   context ServerOptions.NewContext supplied), or past the deadline of the NewContext
   context. *)
Inductive ctx_state := CtxLive | CtxCanceled | CtxDeadline.

Definition ctx_err (cs : ctx_state) : gerr :=
  match cs with CtxLive => enil | CtxCanceled => ECanceled | CtxDeadline => EDeadline end.

(* invoke looks at the context only before the handler runs (sem.Acquire); once the
   handler has returned, what it returned is the task's outcome whatever the state of the
   context: keep = true, the code as it is.  keep = false is the variant in which a done
   context replaces the error the handler returned (`if ctx.Err() != nil { return nil,
   ctx.Err() }` in the err != nil branch); ErrsProofs refutes C14 for it. *)
Definition invoke_ctx (keep : bool) (cs : ctx_state) (is_note : bool) (r : hres) (e : gerr) : bytes * gerr :=
  if keep then invoke is_note r e
  else if is_nil e then invoke is_note r e
  else if is_note then ([], enil)
  else match cs with
       | CtxLive => ([], e)
       | _ => ([], ctx_err cs)
       end.

(* one call whose handler returns (value, e) when its context is in state cs *)
Definition call_ctx (keep : bool) (cs : ctx_state) (r : hres) (e : gerr) : outcome :=
  settle (invoke_ctx keep cs false r e).

(* ErrorCode of what Call returned; None when nothing came back *)
Definition outcome_code (o : outcome) : option Z :=
  match o with
  | OResult _ => Some NoError
  | OErr e => Some (error_code e)
  | OLost => None
  end.

(* one notification: what the server sends for it (nothing, normally) *)
Definition notify_gen (fix15 : bool) (r : hres) (e : gerr) : option werr :=
  match respond true (invoke_gen fix15 true r e) with
  | Some (RpError w) => transit w
  | _ => None
  end.
Definition notify : hres -> gerr -> option werr := notify_gen true.

(* the domain on which a reply was produced at all BEFORE fix F16 (call_gen false): every
   error but a top-level *Error whose Data is not JSON.  Since the fix a reply is always
   produced (ErrsProofs.call_never_lost). *)
Definition deliverable (e : gerr) : bool :=
  match e with
  | EJrpc _ _ d => match wire_data d with Some _ => true | None => false end
  | _ => true
  end.

Definition is_top_jrpc (e : gerr) : bool :=
  match e with EJrpc _ _ _ => true | _ => false end.

(* the exact domain on which the caller's ErrorCode equals the handler's (for a non-nil
   error): the error is not one that ErrorCode classifies as NoError unless it is a *Error
   passed on as it is *)
Definition code_dom (e : gerr) : bool :=
  is_top_jrpc e || negb (error_code e =? NoError).

(* the same before fix F16: a reply had to be produced, too *)
Definition code_dom_pre16 (e : gerr) : bool := deliverable e && code_dom e.

(* ---- Error.WithData over an explicit heap --------------------------------------------- *)

(* *Error values live in cells; a pointer is an index; an index past the end is the
   nil pointer *)
Definition heap := list werr.

Inductive wd_arg :=
| WNil                    (* v == nil *)
| WRaw (raw : bytes)      (* v = json.RawMessage(raw), raw non-empty: Marshal compacts or fails *)
| WVal (enc : bytes)      (* any value that json.Marshal encodes as enc *)
| WBad.                   (* a value json.Marshal rejects *)

Definition marshal_arg (v : wd_arg) : option bytes :=
  match v with
  | WNil => None
  | WRaw raw => compact raw
  | WVal enc => Some enc
  | WBad => None
  end.

Inductive wd_result :=
| WDCrash                           (* nil receiver dereferenced *)
| WDOk (h : heap) (p : nat).        (* heap afterwards, returned pointer *)

Definition with_data (h : heap) (p : nat) (v : wd_arg) : wd_result :=
  match v with
  | WNil => WDOk h p
  | _ =>
      match marshal_arg v with
      | None => WDOk h p
      | Some data =>
          match nth_error h p with
          | None => WDCrash
          | Some c => WDOk (h ++ [{| we_code := we_code c; we_msg := we_msg c; we_data := data |}]) (List.length h)
          end
      end
  end.
