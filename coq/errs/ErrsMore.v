(* ErrsMore: C14 beyond Client.Call.
   Part A: the two models of a Go string through json.Marshal / json.Unmarshal agree:
             ErrsJson.sanitize_utf8 m = Json.unquote (Json.escape_body m)          for EVERY m.
   Part B: the two models of json.Marshal(RawMessage) agree on every text the tree parser accepts:
             Json.valid d = true -> ErrsJson.compact d = Some d' -> Json.compact d = Some d'
           (ErrsJson.squeeze is Json's compaction of the parsed tree), hence error data arrive
           JSON-equal as VALUES (Json.parse), not only as token streams.
   Part C: Client.Batch (no filterError), the callback direction, the nesting side condition. *)
From Coq Require Import List NArith ZArith Bool Arith Lia.
From JV Require Import Bytes Json JsonProofs JsonPrint JsonTree JsonEq Msg.
From JV Require ErrsJson ErrsJsonProofs Errs ErrsProofs.
Import ListNotations.
Local Open Scope N_scope.

(* ------------------------------------------------------------------------- *)
(* Part A: strings *)

Ltac decide_cmp :=
  repeat match goal with
         | |- context [?a <=? ?b] =>
           first [replace (a <=? b) with true by (symmetry; apply N.leb_le; lia)
                 |replace (a <=? b) with false by (symmetry; apply N.leb_gt; lia)]
         | |- context [?a =? ?b] =>
           first [replace (a =? b) with true by (symmetry; apply N.eqb_eq; lia)
                 |replace (a =? b) with false by (symmetry; apply N.eqb_neq; lia)]
         | |- context [?a <? ?b] =>
           first [replace (a <? b) with true by (symmetry; apply N.ltb_lt; lia)
                 |replace (a <? b) with false by (symmetry; apply N.ltb_ge; lia)]
         end.

(* unicode/utf8 DecodeRune, the two formulations *)
Lemma utf8_len_seq b0 r : 128 <= b0 ->
  ErrsJson.utf8_len b0 r = utf8_seq_len b0 r.
Proof.
  intros H128. unfold ErrsJson.utf8_len, ErrsJson.utf8_lead, utf8_seq_len, ErrsJson.in_range, ErrsJson.is_cont, ErrsJson.in_range, in_rng, is_cont, in_rng.
  assert (Hcases : b0 < 194 \/ (194 <= b0 <= 223) \/ b0 = 224 \/ (225 <= b0 <= 236) \/ b0 = 237 \/ (238 <= b0 <= 239) \/
                   b0 = 240 \/ (241 <= b0 <= 243) \/ b0 = 244 \/ 244 < b0) by lia.
  destruct Hcases as [Hc|[Hc|[Hc|[Hc|[Hc|[Hc|[Hc|[Hc|[Hc|Hc]]]]]]]]]; try subst b0; decide_cmp; cbn [andb negb];
    try reflexivity;
    destruct r as [|b1 [|b2 [|b3 r3]]]; try reflexivity;
    repeat match goal with |- context [(?lo <=? ?x) && (?x <=? ?hi)] => destruct ((lo <=? x) && (x <=? hi)) end; reflexivity.
Qed.

Lemma sanitize_cons_ascii c r : c < 128 -> ErrsJson.sanitize_utf8 (c :: r) = c :: ErrsJson.sanitize_utf8 r.
Proof.
  intros H. cbn [ErrsJson.sanitize_utf8]. unfold ErrsJson.utf8_len.
  replace (c <? 128) with true by (symmetry; apply N.ltb_lt; exact H). reflexivity.
Qed.

Lemma sanitize_cons_high c r : 128 <= c ->
  ErrsJson.sanitize_utf8 (c :: r) =
  match utf8_seq_len c r with
  | O => repl_char ++ ErrsJson.sanitize_utf8 r
  | S n => c :: firstn n r ++ ErrsJson.sanitize_utf8 (skipn n r)
  end.
Proof.
  intros H. cbn [ErrsJson.sanitize_utf8]. rewrite (utf8_len_seq c r H).
  destruct (utf8_seq_len c r) as [|n] eqn:El; [reflexivity|].
  destruct (seq_len_cont _ _ _ El) as (_ & Hl & _ & Hn).
  destruct n as [|[|[|[|n]]]]; try lia.
  - destruct r as [|b1 r1]; [discriminate Hl | reflexivity].
  - destruct r as [|b1 [|b2 r2]]; try discriminate Hl. reflexivity.
  - destruct r as [|b1 [|b2 [|b3 r3]]]; try discriminate Hl. reflexivity.
Qed.

Lemma unq_esc_sanitize_len m : forall s, (length s <= m)%nat -> unq O (esc O s) = ErrsJson.sanitize_utf8 s.
Proof.
  induction m as [|m IH]; intros s Hl.
  - destruct s; [reflexivity | cbn in Hl; lia].
  - destruct s as [|c s']; [reflexivity|]. cbn [length] in Hl. cbn [esc].
    destruct (c <? 128) eqn:Ec.
    + apply N.ltb_lt in Ec. rewrite (unq_esc_ascii c _ Ec), IH by lia. rewrite (sanitize_cons_ascii c s' Ec). reflexivity.
    + apply N.ltb_ge in Ec. rewrite (sanitize_cons_high c s' Ec).
      destruct (utf8_seq_len c s') as [|n] eqn:El.
      * unfold esc_fffd. cbn [app]. rewrite unq_u_eq. change (is_surr (hex4 102 102 102 100)) with false. cbv iota.
        change (utf8_enc (hex4 102 102 102 100)) with repl_char. rewrite IH by lia. reflexivity.
      * pose proof (seq_len_cont _ _ _ El) as (Hc & Hn & Hh & Hr).
        assert (Hgen : unq O (c :: esc n s') = c :: firstn n s' ++ ErrsJson.sanitize_utf8 (skipn n s')).
        { rewrite esc_firstn. rewrite (unq_high c _ Hc). rewrite (seq_len_prefix _ _ _ _ El). rewrite unq_firstn.
          destruct (firstn_app_exact n (firstn n s') (esc O (skipn n s')) Hn) as [-> ->].
          rewrite IH by (rewrite skipn_length; lia). reflexivity. }
        destruct s' as [|c2 [|c3 r3]]; try exact Hgen.
        destruct ((c =? 226) && (c2 =? 128) && ((c3 =? 168) || (c3 =? 169))) eqn:E; [|exact Hgen].
        apply andb_true_iff in E as [E E3]. apply andb_true_iff in E as [E1 E2].
        apply N.eqb_eq in E1, E2. subst c c2.
        assert (H3 : c3 = 168 \/ c3 = 169) by (apply orb_true_iff in E3 as [E3|E3]; apply N.eqb_eq in E3; auto).
        rewrite (unq_202x _ _ H3).
        assert (n = 2%nat) by (destruct H3 as [-> | ->]; vm_compute in El; injection El as <-; reflexivity). subst n.
        cbn [firstn skipn app]. rewrite IH by (cbn [length] in Hl; lia). reflexivity.
Qed.

(* json.Marshal then json.Unmarshal of a Go string: the C14 model (sanitize_utf8) and the C13 model
   (escape, then unquote) are the same function *)
Theorem sanitize_is_unquote_escape : forall m, ErrsJson.sanitize_utf8 m = unquote (escape_body m).
Proof. intros m. symmetry. exact (unq_esc_sanitize_len (length m) m (le_n _)). Qed.

(* ... and the two notions of valid UTF-8 coincide *)
Lemma valid_utf8_sanitize_fix m : valid_utf8 m = true -> ErrsJson.sanitize_utf8 m = m.
Proof. intros H. rewrite sanitize_is_unquote_escape. exact (unquote_escape_body m H). Qed.

Example sanitize_is_unquote_escape_nonvacuous :
  ErrsJson.sanitize_utf8 [97; 255; 226; 128; 168; 60] = [97; 239; 191; 189; 226; 128; 168; 60] /\
  unquote (escape_body [97; 255; 226; 128; 168; 60]) = [97; 239; 191; 189; 226; 128; 168; 60].
Proof. split; vm_compute; reflexivity. Qed.

(* ------------------------------------------------------------------------- *)
(* Part B: json.Marshal(RawMessage), the byte scanner's view (squeeze) and the tree parser's view
   (ccompact_html) *)

Import ErrsJson.
(* (Json's names shadowed by ErrsJson's from here on are written qualified) *)

Lemma sq_ws w : forall rest, all_ws w = true -> squeeze SqOut (w ++ rest) = squeeze SqOut rest.
Proof.
  induction w as [|x w IH]; intros rest Hw; [reflexivity|]. cbn [all_ws forallb] in Hw. apply andb_true_iff in Hw as [Hx Hw].
  cbn [app squeeze]. change (is_space x) with (is_ws x). rewrite Hx. exact (IH rest Hw).
Qed.

Definition outc (x : N) : Prop := is_ws x = false /\ (x =? 34) = false.

Lemma sq_out1 x rest : outc x -> squeeze SqOut (x :: rest) = x :: squeeze SqOut rest.
Proof. intros [A B]. cbn [squeeze]. change (is_space x) with (is_ws x). rewrite A, B. reflexivity. Qed.

Lemma sq_plain a : forall rest, Forall outc a -> squeeze SqOut (a ++ rest) = a ++ squeeze SqOut rest.
Proof.
  induction a as [|x a IH]; intros rest Ha; [reflexivity|]. inversion Ha as [|? ? Hx Ha']; subst.
  cbn [app]. rewrite (sq_out1 x _ Hx), (IH rest Ha'). reflexivity.
Qed.

Lemma num_chars_outc n : num_chars n = true -> Forall outc n.
Proof.
  unfold num_chars. rewrite forallb_forall. intros H. apply Forall_forall. intros x Hx. specialize (H x Hx).
  apply num_char_rng in H. split.
  - unfold is_ws. repeat match goal with |- context [?a =? ?b] => replace (a =? b) with false by (symmetry; apply N.eqb_neq; lia) end. reflexivity.
  - apply N.eqb_neq. lia.
Qed.

(* inside a string literal *)
Lemma ls_ahead_none c r : (c =? 226) = false -> ls_ahead c r = None.
Proof. intros H. unfold ls_ahead. rewrite H. reflexivity. Qed.

Lemma sq_in_plain c r : (c =? 226) = false -> (c =? 34) = false -> (c =? 92) = false ->
  squeeze SqIn (c :: r) = html_emit c ++ squeeze SqIn r.
Proof. intros H1 H2 H3. cbn [squeeze]. rewrite (ls_ahead_none c r H1), H2, H3. reflexivity. Qed.

Lemma html_emit_special c : html_emit c = if special c then u00 c else [c].
Proof. reflexivity. Qed.

Lemma sq_in_hex h r : Json.is_hex h = true -> squeeze SqIn (h :: r) = h :: squeeze SqIn r.
Proof.
  intros H. destruct (is_hex_plain h H) as [A B].
  assert (Hh : h <> 34 /\ h <> 92).
  { unfold Json.is_hex, Json.is_digit in H. apply orb_true_iff in H as [H|H]; [apply orb_true_iff in H as [H|H]|];
      apply andb_true_iff in H as [X Y]; apply N.leb_le in X, Y; split; lia. }
  destruct Hh as [H34 H92]. apply N.eqb_neq in H34, H92.
  rewrite (sq_in_plain h r B H34 H92), html_emit_special, A. reflexivity.
Qed.

Lemma sq_in_back e r : squeeze SqIn (92 :: e :: r) = 92 :: e :: squeeze SqIn r.
Proof. reflexivity. Qed.

Lemma sq_body_len m : forall b rest, (length b <= m)%nat -> body_okb b = true ->
  squeeze SqIn (b ++ 34 :: rest) = html_esc b ++ 34 :: squeeze SqOut rest.
Proof.
  induction m as [|m IH]; intros b rest Hl Hb.
  - destruct b; [reflexivity | cbn in Hl; lia].
  - destruct (body_cases b Hb) as [->|[(c & r & -> & Hc & Hr)|[(e & r & -> & He & Hr)|(h1 & h2 & h3 & h4 & r2 & -> & Hh & Hr)]]].
    + reflexivity.
    + cbn [length] in Hl. destruct (splain_not92 c Hc) as (N92 & N34 & _).
      pose proof (IH r rest ltac:(lia) Hr) as IHr.
      rewrite html_esc_cons. cbn [app].
      destruct (c =? 226) eqn:E226.
      * apply N.eqb_eq in E226. subst c. change (special 226) with false. cbv iota.
        assert (Hnone : ls_ahead 226 (r ++ 34 :: rest) = None ->
                        squeeze SqIn (226 :: r ++ 34 :: rest) = (226 :: html_esc r) ++ 34 :: squeeze SqOut rest).
        { intros Hn. cbn [squeeze]. rewrite Hn. change (226 =? 34) with false. change (226 =? 92) with false. cbv iota.
          rewrite IHr. reflexivity. }
        destruct r as [|c2 [|c3 r3]].
        -- apply Hnone. unfold ls_ahead. change (226 =? 226) with true. cbv iota. cbn [app]. destruct rest; reflexivity.
        -- apply Hnone. unfold ls_ahead. change (226 =? 226) with true. cbv iota. cbn [app].
           change ((34 =? 168) || (34 =? 169)) with false. rewrite andb_false_r. reflexivity.
        -- destruct ((c2 =? 128) && ((c3 =? 168) || (c3 =? 169))) eqn:Epat.
           ++ cbn [squeeze app]. unfold ls_ahead. change (226 =? 226) with true. cbv iota. rewrite Epat.
              apply andb_true_iff in Epat as [E2 E3]. apply N.eqb_eq in E2. subst c2.
              assert (H3 : c3 = 168 \/ c3 = 169) by (apply orb_true_iff in E3 as [E3|E3]; apply N.eqb_eq in E3; auto).
              assert (Hr3 : body_okb r3 = true).
              { apply (body_okb_plain_tail c3); [destruct H3 as [-> | ->]; reflexivity|]. apply (body_okb_plain_tail 128); [reflexivity | exact Hr]. }
              rewrite (IH r3 rest ltac:(cbn [length] in Hl; lia) Hr3). rewrite <- app_assoc. reflexivity.
           ++ apply Hnone. unfold ls_ahead. change (226 =? 226) with true. cbv iota. cbn [app]. rewrite Epat. reflexivity.
      * rewrite (sq_in_plain c _ E226 N34 N92), IHr, html_emit_special.
        destruct (special c); [rewrite <- app_assoc; reflexivity | reflexivity].
    + cbn [length] in Hl. rewrite (html_esc_simple e r He). cbn [app]. rewrite sq_in_back.
      rewrite (IH r rest ltac:(lia) Hr). reflexivity.
    + cbn [length] in Hl. rewrite (html_esc_u _ _ _ _ r2 Hh). cbn [app]. rewrite sq_in_back.
      apply andb_true_iff in Hh as [Hh H4]. apply andb_true_iff in Hh as [Hh H3]. apply andb_true_iff in Hh as [H1 H2].
      rewrite (sq_in_hex h1 _ H1), (sq_in_hex h2 _ H2), (sq_in_hex h3 _ H3), (sq_in_hex h4 _ H4).
      rewrite (IH r2 rest ltac:(lia) Hr). reflexivity.
Qed.

Lemma sq_string b rest : body_okb b = true ->
  squeeze SqOut (34 :: b ++ 34 :: rest) = 34 :: html_esc b ++ 34 :: squeeze SqOut rest.
Proof.
  intros Hb. cbn [squeeze]. change (is_space 34) with false. change (34 =? 34) with true. cbv iota.
  rewrite (sq_body_len (length b) b rest (le_n _) Hb). reflexivity.
Qed.

(* the whole tree *)
Local Notation cp := (cprint (fun b : bytes => b) (fun w : bytes => w)).
Local Notation ch := (cprint html_esc (fun _ : bytes => [])).

Definition sq_ok (c : Json.cst) : Prop :=
  forall d rest, cwf d c = true -> squeeze SqOut (cp c rest) = ch c (squeeze SqOut rest).

Lemma outc_of x : is_ws x = false -> (x =? 34) = false -> outc x.
Proof. intros A B. split; assumption. Qed.

Lemma sq_elems d : forall es rest, Forall (fun e => sq_ok (snd (fst e))) es -> forallb (elem_wf d) es = true ->
  squeeze SqOut (elems_text (fun w : bytes => w) cp es rest) =
  elems_text (fun _ : bytes => []) ch es (squeeze SqOut rest).
Proof.
  induction es as [|[[w c] wa] es IH]; intros rest HF Hwf.
  - cbn [elems_text]. apply sq_out1. apply outc_of; reflexivity.
  - inversion HF as [|? ? Hc HF']; subst. cbn [fst snd] in Hc.
    cbn [forallb] in Hwf. apply andb_true_iff in Hwf as [He Hes]. unfold elem_wf in He. cbn [fst snd] in He.
    apply andb_true_iff in He as [He Hwa]. apply andb_true_iff in He as [Hw Hcw].
    cbn [elems_text]. rewrite (sq_ws w _ Hw), (Hc d _ Hcw), (sq_ws wa _ Hwa). cbn [app]. f_equal.
    destruct es as [|e1 es1]; [apply sq_out1; apply outc_of; reflexivity|].
    rewrite (sq_out1 44) by (apply outc_of; reflexivity). f_equal. exact (IH rest HF' Hes).
Qed.

Lemma sq_mems d : forall ms rest, Forall (fun m => sq_ok (snd (fst (snd m)))) ms -> forallb (mem_wf d) ms = true ->
  squeeze SqOut (mems_text (fun b : bytes => b) (fun w : bytes => w) cp ms rest) =
  mems_text html_esc (fun _ : bytes => []) ch ms (squeeze SqOut rest).
Proof.
  induction ms as [|[[[wk k] wc] [[wv c] wa]] ms IH]; intros rest HF Hwf.
  - cbn [mems_text]. apply sq_out1. apply outc_of; reflexivity.
  - inversion HF as [|? ? Hc HF']; subst. cbn [fst snd] in Hc.
    cbn [forallb] in Hwf. apply andb_true_iff in Hwf as [Hm Hms]. unfold mem_wf in Hm. cbn [fst snd] in Hm.
    apply andb_true_iff in Hm as [Hm Hwa]. apply andb_true_iff in Hm as [Hm Hcw]. apply andb_true_iff in Hm as [Hm Hwv].
    apply andb_true_iff in Hm as [Hm Hwc]. apply andb_true_iff in Hm as [Hwk Hk].
    cbn [mems_text]. rewrite (sq_ws wk _ Hwk), (sq_string k _ Hk), (sq_ws wc _ Hwc).
    rewrite (sq_out1 58) by (apply outc_of; reflexivity). rewrite (sq_ws wv _ Hwv), (Hc d _ Hcw), (sq_ws wa _ Hwa).
    cbn [app]. do 5 f_equal.
    destruct ms as [|m1 ms1]; [apply sq_out1; apply outc_of; reflexivity|].
    rewrite (sq_out1 44) by (apply outc_of; reflexivity). f_equal. exact (IH rest HF' Hms).
Qed.

Lemma squeeze_tree : forall c, sq_ok c.
Proof.
  induction c using cst_ind'; intros d rest Hwf; cbn [cprint].
  - apply (sq_plain lit_null). repeat constructor.
  - apply (sq_plain lit_true). repeat constructor.
  - apply (sq_plain lit_false). repeat constructor.
  - cbn [cwf] in Hwf. apply sq_plain. apply num_chars_outc. apply num_lit_props. exact Hwf.
  - cbn [cwf] in Hwf. exact (sq_string b rest Hwf).
  - rewrite cwf_arr in Hwf. apply andb_true_iff in Hwf as [Hwf Hes]. apply andb_true_iff in Hwf as [Hwf _]. apply andb_true_iff in Hwf as [_ Hw].
    rewrite (sq_out1 91) by (apply outc_of; reflexivity). f_equal.
    destruct es as [|e0 es0].
    + rewrite (sq_ws w _ Hw). cbn [app]. apply sq_out1. apply outc_of; reflexivity.
    + exact (sq_elems (N.succ d) _ rest H Hes).
  - rewrite cwf_obj in Hwf. apply andb_true_iff in Hwf as [Hwf Hms]. apply andb_true_iff in Hwf as [Hwf _]. apply andb_true_iff in Hwf as [_ Hw].
    rewrite (sq_out1 123) by (apply outc_of; reflexivity). f_equal.
    destruct ms as [|m0 ms0].
    + rewrite (sq_ws w _ Hw). cbn [app]. apply sq_out1. apply outc_of; reflexivity.
    + exact (sq_mems (N.succ d) _ rest H Hms).
Qed.

Lemma parse_doc_text s w c w1 : Json.parse_doc s = Some (w, c, w1) ->
  s = w ++ ctext c w1 /\ all_ws w = true /\ all_ws w1 = true /\ cwf 0 c = true.
Proof.
  intros H. pose proof (parse_doc_wf _ _ _ _ H) as Hwf.
  unfold Json.parse_doc, parse_prefix, value_at in H. destruct (split_ws s) as [w0 s1] eqn:E0.
  destruct (pval (fuel_of s1) 0 s1) as [[c0 r0]|] eqn:Ev; [|discriminate].
  destruct (split_ws r0) as [w2 r1] eqn:E1. destruct r1; [|discriminate]. injection H as <- <- <-.
  destruct (split_ws_inv _ _ _ E0) as (-> & Hw0 & _). destruct (split_ws_inv _ _ _ E1) as (Hr0 & Hw2 & _).
  rewrite app_nil_r in Hr0. subst r0. rewrite (pval_text _ _ _ _ _ Ev). repeat split; assumption.
Qed.

(* what the byte scanner's compaction leaves of a text IS the tree parser's compaction of it *)
Theorem squeeze_is_compact : forall d q, Json.compact d = Some q -> squeeze SqOut d = q.
Proof.
  intros d q H. unfold Json.compact in H. destruct (Json.parse_doc d) as [[[w c] w1]|] eqn:E; [|discriminate].
  injection H as <-. destruct (parse_doc_text _ _ _ _ E) as (-> & Hw & Hw1 & Hwf).
  rewrite (sq_ws w _ Hw). unfold ctext. rewrite (squeeze_tree c 0 w1 Hwf).
  rewrite <- (app_nil_r w1), (sq_ws w1 [] Hw1). reflexivity.
Qed.

(* on every text the tree parser accepts, the two models of json.Marshal(RawMessage) give the same
   bytes whenever the scanner model gives any *)
Theorem compact_models_agree : forall d d', Json.valid d = true -> ErrsJson.compact d = Some d' -> Json.compact d = Some d'.
Proof.
  intros d d' Hv Hc. unfold Json.valid in Hv. unfold Json.compact.
  destruct (Json.parse_doc d) as [[[w c] w1]|] eqn:E; [|discriminate].
  assert (Hq : Json.compact d = Some (ccompact_html c [])) by (unfold Json.compact; rewrite E; reflexivity).
  rewrite <- (squeeze_is_compact _ _ Hq). rewrite (ErrsJsonProofs.compact_squeeze d d' Hc). reflexivity.
Qed.

Example compact_models_agree_nonvacuous :
  Json.valid [32; 91; 34; 60; 226; 128; 168; 34; 44; 32; 49; 93] = true /\
  ErrsJson.compact [32; 91; 34; 60; 226; 128; 168; 34; 44; 32; 49; 93] = Some [91; 34; 92; 117; 48; 48; 51; 99; 92; 117; 50; 48; 50; 56; 34; 44; 49; 93] /\
  Json.compact [32; 91; 34; 60; 226; 128; 168; 34; 44; 32; 49; 93] = Some [91; 34; 92; 117; 48; 48; 51; 99; 92; 117; 50; 48; 50; 56; 34; 44; 49; 93].
Proof. repeat split; vm_compute; reflexivity. Qed.

(* C14: error data arrive JSON-equal as VALUES.  [Errs.wire_data] is the scanner model; on every
   text the tree parser accepts its result is the tree model's compaction, which denotes the same
   value.  _partial: the hypothesis [Json.valid d = true] is what is missing for the statement
   "wire_data d = Some d' -> d <> [] -> Json.parse d' = Json.parse d": it follows from
   "ErrsJson.compact d <> None -> Json.valid d = true" (the byte scanner accepts only what the tree
   parser accepts): that is ErrsScan.scanner_accepts_valid, from which ErrsScan.data_json_equal_value
   drops the hypothesis (and ErrsScanC.compact_models_equal: the two models are the same function). *)
Theorem data_json_equal_value_partial : forall d d',
  Errs.wire_data d = Some d' -> d <> [] -> Json.valid d = true ->
  Json.parse d' = Json.parse d /\ Json.compact d = Some d' /\ Json.parse d <> None.
Proof.
  intros d d' Hw Hne Hv. destruct d as [|x d0]; [contradiction|]. cbn [Errs.wire_data] in Hw.
  pose proof (compact_models_agree _ _ Hv Hw) as Hc. split; [exact (compact_parse _ _ Hc)|]. split; [exact Hc|].
  unfold Json.valid in Hv. unfold Json.parse. destruct (Json.parse_doc (x :: d0)) as [[[w c] w1]|]; [discriminate | discriminate Hv].
Qed.

Example data_json_equal_value_nonvacuous :
  Errs.wire_data [32; 91; 34; 60; 34; 93] = Some [91; 34; 92; 117; 48; 48; 51; 99; 34; 93] /\
  Json.valid [32; 91; 34; 60; 34; 93] = true /\
  Json.parse [91; 34; 92; 117; 48; 48; 51; 99; 34; 93] = Some (JArr [JStr [60]]).
Proof. repeat split; vm_compute; reflexivity. Qed.

(* a *Error arrives with its code, message and data, the data as a VALUE *)
Theorem error_verbatim_value_partial : forall r c m d d',
  c <> Cancelled -> c <> DeadlineExceeded -> ErrsJson.valid_utf8 m = true -> Errs.wire_data d = Some d' ->
  d <> [] -> Json.valid d = true ->
  Errs.call r (Errs.EJrpc c m d) = Errs.OErr (Errs.EJrpc c m d') /\ Json.parse d' = Json.parse d.
Proof.
  intros r c m d d' H1 H2 H3 H4 H5 H6.
  split; [exact (proj1 (ErrsProofs.error_verbatim r c m d d' H1 H2 H3 H4)) | exact (proj1 (data_json_equal_value_partial d d' H4 H5 H6))].
Qed.

(* ------------------------------------------------------------------------- *)
(* Part C.1: Client.Batch.  Batch returns the []*Response as they are: Response.Error() is the
   *Error that came over the wire; filterError (the mapping of the codes -32097 / -32096 to the
   context sentinels) is applied by Call and by Server.Callback only.  So the entry of a cancelled
   call is *Error{Code: -32097}, not context.Canceled. *)
Import Errs ErrsProofs.
Local Open Scope Z_scope.

Definition batch_outcome (w : wreply) : outcome :=
  match w with
  | WResult raw => OResult raw
  | WError w' => OErr (EJrpc (we_code w') (we_msg w') (we_data w'))
  | WLost => OLost
  end.

(* what Batch hands back for the calls cs, one entry per call *)
Definition batch_outcomes (cs : list (hres * gerr)) : list outcome := map batch_outcome (batch cs).

(* Call is Batch of one, followed by filterError *)
Definition filter_outcome (o : outcome) : outcome :=
  match o with
  | OErr (EJrpc c m d) => OErr (from_wire {| we_code := c; we_msg := m; we_data := d |})
  | o => o
  end.

Lemma call_is_filtered_batch r e : call r e = filter_outcome (batch_outcome (deliver (invoke false r e))).
Proof. rewrite call_deliver. destruct (deliver (invoke false r e)) as [raw|w|]; try reflexivity; destruct w; reflexivity. Qed.

Lemma batch_outcome_nonnil r e : is_nil e = false ->
  batch_outcome (deliver (invoke false r e)) =
  OErr (EJrpc (we_code (to_wire e)) (ErrsJson.sanitize_utf8 (we_msg (to_wire e)))
              (match wire_data (we_data (to_wire e)) with Some d' => d' | None => [] end)).
Proof.
  intros H. unfold deliver, deliver_gen, invoke, invoke_gen. rewrite H. cbn [respond andb]. rewrite H.
  change (transit_gen true) with transit. rewrite transit_total. reflexivity.
Qed.

(* the code survives, on exactly the domain of Call *)
Theorem batch_code_preserved : forall r e, is_nil e = false -> code_dom e = true ->
  outcome_code (batch_outcome (deliver (invoke false r e))) = Some (error_code e).
Proof.
  intros r e Hn Hd. rewrite (batch_outcome_nonnil r e Hn). cbn [outcome_code]. rewrite error_code_jrpc.
  unfold code_dom in Hd. destruct (is_top_jrpc e) eqn:Ht.
  - destruct e; try discriminate. reflexivity.
  - rewrite (to_wire_other e Ht). cbn [we_code orb] in *. unfold wire_code.
    destruct (error_code e =? NoError); [discriminate | reflexivity].
Qed.

Theorem batch_code_preserved_iff : forall r e, is_nil e = false ->
  (outcome_code (batch_outcome (deliver (invoke false r e))) = Some (error_code e) <-> code_dom e = true).
Proof.
  intros r e Hn. split; [|apply batch_code_preserved; exact Hn]. intros H. unfold code_dom.
  destruct (is_top_jrpc e) eqn:Ht; [reflexivity|]. cbn [orb].
  rewrite (batch_outcome_nonnil r e Hn), (to_wire_other e Ht) in H. cbn [outcome_code we_code] in H. rewrite error_code_jrpc in H.
  unfold wire_code in H. destruct (error_code e =? NoError) eqn:E; [|reflexivity].
  apply Z.eqb_eq in E. rewrite E in H. discriminate.
Qed.

(* Batch and Call agree on the code of every entry *)
Theorem batch_code_is_call_code : forall r e,
  outcome_code (batch_outcome (deliver (invoke false r e))) = outcome_code (call r e).
Proof.
  intros r e. rewrite call_deliver. destruct (deliver (invoke false r e)) as [raw|w|]; try reflexivity.
  cbn [batch_outcome outcome_code]. rewrite error_code_jrpc, error_code_from_wire. reflexivity.
Qed.

(* an entry of a batch is never a context sentinel: a cancelled call shows as *Error{-32097} *)
Theorem batch_entry_never_sentinel : forall r e,
  batch_outcome (deliver (invoke false r e)) <> OErr ECanceled /\
  batch_outcome (deliver (invoke false r e)) <> OErr EDeadline.
Proof. intros r e. destruct (deliver (invoke false r e)) as [raw|w|]; split; discriminate. Qed.

Theorem batch_cancelled_entry : forall r e, first_coder e = None -> reaches false e = true ->
  batch_outcome (deliver (invoke false r e)) = OErr (EJrpc Cancelled (ErrsJson.sanitize_utf8 (error_text e)) []) /\
  call r e = OErr ECanceled.
Proof.
  intros r e Hc Hr. pose proof (reaches_not_nil _ _ Hr) as Hn. pose proof (no_coder_not_top e Hc) as Ht.
  split; [|exact (proj1 (sentinels r e Hc) Hr)].
  rewrite (batch_outcome_nonnil r e Hn), (to_wire_other e Ht). cbn [we_code we_msg we_data wire_data].
  unfold wire_code. rewrite (error_code_canceled e Hc Hr). reflexivity.
Qed.

Theorem batch_outcomes_spec : forall cs,
  batch_outcomes cs = map (fun c => batch_outcome (deliver (invoke false (fst c) (snd c)))) cs /\
  List.length (batch_outcomes cs) = List.length cs /\ ~ In OLost (batch_outcomes cs).
Proof.
  intros cs. unfold batch_outcomes. rewrite batch_members_independent, map_map. split; [reflexivity|]. split; [apply map_length|].
  intros H. apply in_map_iff in H as (c & Hc & _). pose proof (deliver_never_lost (invoke false (fst c) (snd c))) as Hl.
  destruct (deliver (invoke false (fst c) (snd c))); try discriminate Hc. contradiction.
Qed.

Example batch_code_preserved_nonvacuous :
  batch_outcomes [(ResJson [49]%N, enil); (ResJson [49]%N, ECanceled); (ResJson [49]%N, EJrpc 7 [109]%N [])] =
  [OResult [49]%N; OErr (EJrpc Cancelled t_canceled []); OErr (EJrpc 7 [109]%N [])] /\
  call (ResJson [49]%N) ECanceled = OErr ECanceled.
Proof. split; vm_compute; reflexivity. Qed.

(* ------------------------------------------------------------------------- *)
(* Part C.2: the callback direction.  A client OnCallback handler's error goes to the server through
   ClientOptions.handleCallback (opts.go): a *Error as it is, anything else as
   &Error{Code: ErrorCode(err), Message: err.Error()} - WITHOUT the NoError -> InternalError
   substitution of the server's tasks.responses; Server.Callback applies filterError. *)

Definition cb_to_wire (e : gerr) : werr :=
  match e with
  | EJrpc c m d => {| we_code := c; we_msg := m; we_data := d |}
  | _ => {| we_code := error_code e; we_msg := error_text e; we_data := [] |}
  end.

(* what Server.Callback returns when the handler returned the non-nil error e *)
Definition callback_error (e : gerr) : gerr := from_wire (sent (cb_to_wire e)).

Theorem cb_code_preserved : forall e, is_nil e = false -> error_code (callback_error e) = error_code e.
Proof.
  intros e _. unfold callback_error. rewrite error_code_from_wire. destruct e; reflexivity.
Qed.

(* the wire code is the handler's code, NoError included: the server direction substitutes
   InternalError there (c14_code_preserved_refuted_noerror_coder), this direction does not *)
Theorem cb_wire_code : forall e, we_code (sent (cb_to_wire e)) = error_code e.
Proof. intros e. destruct e; reflexivity. Qed.

Theorem cb_directions_differ :
  let e := ECoder KValVal NoError [107]%N in
  is_nil e = false /\ error_code e = NoError /\
  error_code (callback_error e) = NoError /\ (forall r, outcome_code (call r e) = Some InternalError).
Proof. split; [reflexivity|]. split; [reflexivity|]. split; [reflexivity|]. intros r. reflexivity. Qed.

Theorem cb_error_verbatim : forall c m d d',
  c <> Cancelled -> c <> DeadlineExceeded -> ErrsJson.valid_utf8 m = true -> wire_data d = Some d' ->
  callback_error (EJrpc c m d) = EJrpc c m d'.
Proof.
  intros c m d d' H1 H2 H3 H4. unfold callback_error, sent, cb_to_wire. cbn [we_code we_msg we_data]. rewrite H4.
  rewrite (valid_utf8_sanitize m H3). unfold from_wire. cbn [we_code we_msg we_data].
  destruct (Z.eqb_spec c Cancelled) as [E|_]; [contradiction|]. destruct (Z.eqb_spec c DeadlineExceeded) as [E|_]; [contradiction|]. reflexivity.
Qed.

Theorem cb_sentinels : forall e, is_nil e = false ->
  (callback_error e = ECanceled <-> error_code e = Cancelled) /\
  (callback_error e = EDeadline <-> error_code e = DeadlineExceeded).
Proof.
  intros e _. unfold callback_error. rewrite from_wire_canceled, from_wire_deadline, cb_wire_code. tauto.
Qed.

Example cb_code_preserved_nonvacuous :
  callback_error (EWrap [119]%N ECanceled) = ECanceled /\
  callback_error (EJrpc 7 [109]%N [32; 49]%N) = EJrpc 7 [109]%N [49]%N /\
  callback_error (EPlain [120]%N) = EJrpc SystemError [120]%N [].
Proof. repeat split; vm_compute; reflexivity. Qed.

(* ------------------------------------------------------------------------- *)
(* Part D: compaction keeps valid UTF-8 (squeeze drops / rewrites ASCII bytes and whole
   E2 80 A8 / E2 80 A9 sequences only) *)
Local Open Scope N_scope.

Lemma cont_outc b : Json.is_cont b = true -> outc b.
Proof.
  unfold Json.is_cont, in_rng. intros H. apply andb_true_iff in H as [A B]. apply N.leb_le in A, B. split.
  - unfold is_ws. repeat match goal with |- context [?a =? ?b] => replace (a =? b) with false by (symmetry; apply N.eqb_neq; lia) end. reflexivity.
  - apply N.eqb_neq. lia.
Qed.

Lemma sq_conts_out a rest : forallb Json.is_cont a = true -> squeeze SqOut (a ++ rest) = a ++ squeeze SqOut rest.
Proof.
  intros H. apply sq_plain. apply Forall_forall. intros x Hx. rewrite forallb_forall in H. exact (cont_outc x (H x Hx)).
Qed.

Lemma sq_conts_in a : forall rest, forallb Json.is_cont a = true -> squeeze SqIn (a ++ rest) = a ++ squeeze SqIn rest.
Proof.
  induction a as [|b a IH]; intros rest H; [reflexivity|]. cbn [forallb] in H. apply andb_true_iff in H as [Hb Ha].
  destruct (cont_plain b Hb) as [A B].
  assert (Hb' : 128 <= b <= 191) by (unfold Json.is_cont, in_rng in Hb; apply andb_true_iff in Hb as [X Y]; apply N.leb_le in X, Y; lia).
  cbn [app]. rewrite (sq_in_plain b _ B) by (apply N.eqb_neq; lia). rewrite html_emit_special, A. cbn [app]. rewrite (IH rest Ha). reflexivity.
Qed.

Lemma high_not_special c : 128 <= c -> special c = false /\ is_ws c = false /\ (c =? 34) = false /\ (c =? 92) = false.
Proof.
  intros H. unfold special, is_ws.
  repeat match goal with |- context [?a =? ?b] => replace (a =? b) with false by (symmetry; apply N.eqb_neq; lia) end.
  repeat split; reflexivity.
Qed.

Lemma squeeze_valid_len m : forall d st, (length d <= m)%nat -> valid_utf8_k O d = true -> valid_utf8_k O (squeeze st d) = true.
Proof.
  induction m as [|m IH]; intros d st Hl Hv.
  - destruct d; [destruct st; reflexivity | cbn in Hl; lia].
  - destruct d as [|c r]; [destruct st; reflexivity|]. cbn [length] in Hl. cbn [valid_utf8_k] in Hv.
    destruct (c <? 128) eqn:Ec.
    + apply N.ltb_lt in Ec.
      assert (Hgen : forall a st', all_ascii a = true -> valid_utf8_k O (a ++ squeeze st' r) = true).
      { intros a st' Ha. rewrite (valid_ascii_app a _ Ha). apply IH; [lia | exact Hv]. }
      destruct st; cbn [squeeze].
      * change (is_space c) with (is_ws c). destruct (is_ws c); [apply IH; [lia | exact Hv]|].
        apply (Hgen [c]). cbn [all_ascii forallb]. replace (c <? 128) with true by (symmetry; apply N.ltb_lt; exact Ec). reflexivity.
      * rewrite (ls_ahead_none c r) by (apply N.eqb_neq; lia). rewrite html_emit_special.
        apply Hgen. destruct (special c) eqn:Es.
        -- unfold special in Es. repeat (apply orb_true_iff in Es as [Es|Es]); apply N.eqb_eq in Es; subst c; reflexivity.
        -- cbn [all_ascii forallb]. replace (c <? 128) with true by (symmetry; apply N.ltb_lt; exact Ec). reflexivity.
      * apply (Hgen [c]). cbn [all_ascii forallb]. replace (c <? 128) with true by (symmetry; apply N.ltb_lt; exact Ec). reflexivity.
    + apply N.ltb_ge in Ec. destruct (utf8_seq_len c r) as [|n] eqn:El; [discriminate Hv|].
      destruct (seq_len_conts c r n El) as [Hcs Hln].
      rewrite valid_k_firstn in Hv. apply andb_true_iff in Hv as [_ Hv].
      destruct (high_not_special c Ec) as (Hs & Hw & H34 & H92).
      assert (IHs : forall st', valid_utf8_k O (squeeze st' (skipn n r)) = true) by (intros st'; apply IH; [rewrite skipn_length; lia | exact Hv]).
      assert (Hin : valid_utf8_k O (c :: squeeze SqIn r) = true).
      { rewrite <- (firstn_skipn n r) at 1. rewrite (sq_conts_in _ _ Hcs). rewrite (valid_seq c r n _ El). apply IHs. }
      destruct st; cbn [squeeze].
      * change (is_space c) with (is_ws c). rewrite Hw, H34.
        rewrite <- (firstn_skipn n r) at 1. rewrite (sq_conts_out _ _ Hcs). rewrite (valid_seq c r n _ El). apply IHs.
      * destruct (ls_ahead c r) as [b2|] eqn:Ela.
        -- destruct (ErrsJsonProofs.ls_ahead_some c r b2 Ela) as (-> & r2 & -> & Hb2).
           assert (n = 2%nat) by (destruct Hb2 as [-> | ->]; vm_compute in El; injection El as <-; reflexivity). subst n.
           cbn [skipn] in IHs. rewrite valid_ascii_app; [apply IHs|]. destruct Hb2 as [-> | ->]; reflexivity.
        -- rewrite H34, H92, html_emit_special, Hs. exact Hin.
      * exact Hin.
Qed.

(* json.Compact / json.Marshal(RawMessage) of valid UTF-8 is valid UTF-8 *)
Theorem compact_valid_utf8 : forall p q, Json.compact p = Some q -> Json.valid_utf8 p = true -> Json.valid_utf8 q = true.
Proof.
  intros p q H Hv. rewrite <- (squeeze_is_compact p q H). exact (squeeze_valid_len (length p) p SqOut (le_n _) Hv).
Qed.

Example compact_valid_utf8_nonvacuous :
  Json.compact [32; 34; 195; 169; 60; 34] = Some [34; 195; 169; 92; 117; 48; 48; 51; 99; 34] /\
  Json.valid_utf8 [32; 34; 195; 169; 60; 34] = true /\ Json.valid_utf8 [34; 195; 169; 92; 117; 48; 48; 51; 99; 34] = true.
Proof. repeat split; vm_compute; reflexivity. Qed.
