(* SrvProgress: 'eventually' with the handlers returning.
   The release-only runs of SrvEventually stop where a handler that was entered has not returned: that return (LGate) is
   an action of the environment.  Here the runs are the PROGRESS runs: release labels (goroutines of the server passing
   their scheduling points) and handler returns (LGate), nothing else - no new input, no API call.  A variant [mu_prog]
   of the measure of SrvC08m (a task that has not seen its handler return weighs one more; a record weighs one more
   per member) strictly decreases in every window of a progress label, from every reachable state.  So every progress
   run has at most [mu_prog s] windows, can be extended to one that ends AT REST (quiescent, no handler executing), and
   a progress run is maximal exactly when it is at rest.  The environment's only obligation is that every handler it
   was given eventually returns; then, from ANY reachable state, everything received is eventually answered and every
   pending WaitStatus of a stopped server eventually returns. *)
From Coq Require Import List NArith ZArith Bool Arith Lia.
From RecordUpdate Require Import RecordUpdate.
From JV Require Import Bytes Msg SrvModel SrvLemmas SrvBasics SrvC01 SrvC07 SrvC09 SrvC10 SrvC08 SrvC08b SrvC08c SrvC08q SrvC08x
  SrvC08m SrvHist SrvC01b SrvEventually.
From JV Require SrvC03 SrvC06 SrvC08u.
Import ListNotations.

Definition is_gate (l : label) : bool := match l with LGate _ _ => true | _ => false end.
Definition is_prog (l : label) : bool := is_rel l || is_gate l.

(** * the weights *)
(* a task: the scheduling points its goroutine may still pass (before sem.Acquire, after the handler) AND the return of
   its handler, which it has not seen yet *)
Definition ptw (t : task) : nat :=
  match t_st t with TAtAcquire => 3 | TWaiting | TRunning => 2 | TAtHandled _ => 1 | TDone _ | TSkip => 0 end.
(* units, callbacks, pending operations, the dispatcher: as in SrvC08m (uw, cw, ow, dpw) *)
(* a queued record: dispatcher (next, barrier) + its unit + three points per member; never less than a kept member *)
Definition pew (bm : bool * list jmsg) : nat := 6 * Nat.max 1 (length (snd bm)).
(* a record the reader has or will receive: its critical section, and what it may queue *)
Definition pfw (f : feed) : nat :=
  match f with
  | FMsg (InMsgs _ ms) | FMsgEOF (InMsgs _ ms) => 1 + 6 * Nat.max 1 (length ms)
  | _ => 1
  end.
Definition prdw (r : rdpc) : nat := match r with RHold f => pfw f | _ => 0 end.

#[local] Arguments pew : simpl never.
#[local] Arguments pfw : simpl never.
#[local] Arguments Nat.mul : simpl never.
#[local] Arguments Nat.max : simpl never.

Definition pmu_tasks (s : state) : nat := wsum ptw (tasks s).
Definition pmu_rest (s : state) : nat :=
  prdw (rd s) + wsum pfw (ch_in s) + dpw (dp s) + wsum pew (inq s) + wsum uw (units s) + wsum cw (cbs s) +
  wsum ow (ops s) + (if running s then 2 else 0).
Definition mu_prog (s : state) : nat := pmu_tasks s + pmu_rest s.

Lemma mu_rest_nontask_p s s' : nontask s' = nontask s -> pmu_rest s' = pmu_rest s.
Proof. intros H. change (pmu_rest (nontask s') = pmu_rest (nontask s)). rewrite H. reflexivity. Qed.

(** * monotonicity of the weights along the orders of SrvBasics *)
Lemma task_le_tw_p t t' : task_le t t' -> ptw t' <= ptw t.
Proof.
  intros [_ _ _ _ _ _ _ _ (Rk & Sk & Dn & _)]. unfold ptw.
  destruct (t_st t) eqn:A; destruct (t_st t') eqn:B; cbn in Rk; try lia.
  all: try (destruct Sk as [Sk1 Sk2]; try (specialize (Sk1 eq_refl); discriminate); try (specialize (Sk2 eq_refl); discriminate)).
Qed.



Lemma tasks_ext_tw_p ts ts' : tasks_ext ts ts' -> length ts' = length ts -> wsum ptw ts' <= wsum ptw ts.
Proof.
  intros X L. apply wsum_le_nth; auto. intros j x E. destruct (X _ _ E) as (x' & E' & Le). exists x'. split; auto.
  apply task_le_tw_p; auto.
Qed.



(** * the helpers *)
Lemma cancel_task_mu_p k s : mu_prog (cancel_task k s) <= mu_prog s.
Proof.
  unfold mu_prog. rewrite (mu_rest_nontask_p _ _ (nontask_cancel k s)).
  assert (pmu_tasks (cancel_task k s) <= pmu_tasks s); [|lia].
  apply tasks_ext_tw_p; [apply cancel_task_ext|apply cancel_task_len].
Qed.

Lemma fold_cancel_mu_p (l : list (bytes * nat)) s : mu_prog (fold_left (fun st p => cancel_task (snd p) st) l s) <= mu_prog s.
Proof.
  unfold mu_prog. rewrite (mu_rest_nontask_p _ _ (nontask_fold l s)).
  destruct (fold_cancel_spec l s) as (_ & X & L & _).
  assert (pmu_tasks (fold_left (fun st p => cancel_task (snd p) st) l s) <= pmu_tasks s); [|lia].
  apply tasks_ext_tw_p; auto.
Qed.

Lemma grant_mu_p fuel s acc : wait_ok s -> mu_prog (fst (grant fuel s acc)) <= mu_prog s.
Proof.
  intros W. unfold mu_prog. rewrite (mu_rest_nontask_p _ _ (nontask_grant fuel s acc)).
  destruct (grant_spec fuel s acc W) as [_ X L _ _ _ _ _].
  assert (pmu_tasks (fst (grant fuel s acc)) <= pmu_tasks s); [|lia].
  apply tasks_ext_tw_p; auto.
Qed.

Lemma release_ids_mu_p ts s : mu_prog (release_ids ts s) <= mu_prog s.
Proof.
  unfold mu_prog. rewrite (mu_rest_nontask_p _ _ (nontask_release ts s)).
  destruct (release_ids_spec ts s) as [_ X L _ _ _ _].
  assert (pmu_tasks (release_ids ts s) <= pmu_tasks s); [|lia].
  apply tasks_ext_tw_p; auto.
Qed.

Lemma stop_queue_ew_p q : wsum pew (stop_queue q) <= wsum pew q.
Proof.
  induction q as [|[b ms] q IH]; [cbn; lia|]. rewrite stop_queue_cons, wsum_app. cbn [wsum].
  assert (K : wsum pew (map (fun m => (b, [m])) (filter keep_note ms)) <= pew (b, ms)); [|lia].
  unfold pew at 2. cbn [snd].
  assert (G : forall l : list jmsg, wsum pew (map (fun m => (b, [m])) l) = 6 * length l).
  { induction l as [|m l IHl]; cbn; auto. rewrite IHl. unfold pew. cbn. lia. }
  rewrite G. assert (length (filter keep_note ms) <= length ms) by (clear; induction ms as [|x l IH]; cbn; [lia|destruct (keep_note x); cbn; lia]). lia.
Qed.



(* stopLocked releases the two units the running server holds for it, and may hand the reader the closing error *)
Lemma stop_locked_mu_p k s s' os : stop_locked k s = (s', os) ->
  mu_prog s' <= mu_prog s /\ (running s = true -> mu_prog s' + 1 <= mu_prog s).
Proof.
  intros H. destruct (running s) eqn:Rn.
  2:{ rewrite stop_idempotent in H; auto. injection H as <- _. split; [lia|discriminate]. }
  pose proof H as H2. apply stop_locked_run in H as [_ P]; auto.
  apply SrvC09.stop_locked_spec in H2 as [(Z & _)|(_ & _ & _ & _ & _ & _ & _ & _ & _ & _ & _ & Cb)]; [congruence|].
  assert (T : wsum ptw (tasks s') <= wsum ptw (tasks s)).
  { apply wsum_le_nth; [apply (sr_len _ _ _ P)|]. intros j x E. rewrite (sr_tasks _ _ _ P _ _ E).
    eexists; split; [reflexivity|]. destruct (owner_in (used s) j); auto. apply task_le_tw_p, cancel_fn_le. }
  assert (Q : wsum pew (inq s') <= wsum pew (inq s)) by (rewrite (sr_inq _ _ _ P); apply stop_queue_ew_p).
  assert (Ch : wsum pfw (ch_in s') <= wsum pfw (ch_in s) + 1).
  { rewrite (sr_chin _ _ _ P). destruct (c_unblock s); [rewrite wsum_app; cbn; change (pfw (FErr SCClosing)) with 1; lia|lia]. }
  assert (C : wsum cw (cbs s') = wsum cw (cbs s)) by (rewrite Cb; apply wsum_map_same; intros; apply stop_cb_cw).
  assert (E : mu_prog s' + 1 <= mu_prog s).
  { unfold mu_prog, pmu_tasks, pmu_rest. rewrite (sr_rd _ _ _ P), (sr_dp _ _ _ P), (sr_units _ _ _ P), (sr_ops _ _ _ P),
      (sr_running _ _ _ P), Rn, C. lia. }
  split; [lia|auto].
Qed.

(* completing a callback wakes its watcher: the watcher's weight does not change *)
Lemma complete_cb_mu_p i r s : mu_prog (fst (complete_cb i r s)) = mu_prog s.
Proof.
  unfold complete_cb. destruct (nth_error (cbs s) i) as [c|] eqn:N; cbn [fst]; auto.
  unfold mu_prog, pmu_tasks, pmu_rest. cbn.
  pose proof (wsum_upd_nth cw i (fun c => wake_watch (c <| cb_slot := Some r |>)) (cbs s) c N) as U.
  assert (Z : cw (wake_watch (c <| cb_slot := Some r |>)) = cw c).
  { unfold cw. cbn. destruct (cb_watch c); reflexivity. }
  cbv beta in U. rewrite Z in U. lia.
Qed.

Lemma filter_batch_mu_p : forall ms s keep acc s' keep' acc', filter_batch ms s keep acc = (s', keep', acc') ->
  mu_prog s' = mu_prog s /\ length keep' <= length keep + length ms.
Proof.
  induction ms as [|m r IH]; intros s keep acc s' keep' acc' E; cbn [filter_batch] in E.
  - injection E as <- <- _. rewrite rev_length. cbn. split; lia.
  - destruct (is_req_or_notif m).
    { destruct (IH _ _ _ _ _ _ E) as [A B]. cbn in *. split; auto. lia. }
    destruct (assoc (fix_id (j_id m)) (calls s)) as [i|] eqn:A.
    2:{ destruct (c_push s && is_nil (j_method m) && has_reply_fields m);
          destruct (IH _ _ _ _ _ _ E) as [A1 B1]; cbn in *; split; auto; lia. }
    match type of E with context [complete_cb ?i ?v ?s] =>
      pose proof (complete_cb_mu_p i v s) as P; destruct (complete_cb i v s) as [s1 os1] end.
    cbn [fst] in P. destruct (IH _ _ _ _ _ _ E) as [A1 B1]. cbn in *. split; [congruence|lia].
Qed.

Lemma mk_tasks_tw_p s u ids ms : wsum ptw (map (mk_task s u ids) ms) <= 3 * length ms.
Proof.
  induction ms as [|m r IH]; cbn [map wsum length]; [lia|].
  assert (ptw (mk_task s u ids m) <= 3); [|lia].
  destruct (mk_task_st s u ids m) as [(A & _)|(A & _)]; unfold ptw; rewrite A; lia.
Qed.

(* the dispatcher's nextRequest: one step of the dispatcher; a queued record pays for the unit and tasks it becomes *)
Lemma dequeue_mu_p s : mu_prog (dequeue s) + dpw (dp s) <= mu_prog s.
Proof.
  unfold dequeue. destruct (inq s) as [|[b ms] q] eqn:Q.
  - destruct (running s) eqn:Rn; unfold mu_prog, pmu_tasks, pmu_rest; cbn; rewrite ?Q, ?Rn; cbn; lia.
  - unfold mu_prog, pmu_tasks, pmu_rest. cbn. rewrite Q, !wsum_app. cbn.
    pose proof (mk_tasks_tw_p s (length (units s)) (map (fun m => fix_id (j_id m)) ms) ms) as T.
    unfold pew. cbn [snd]. destruct (dp s); cbn; lia.
Qed.



Lemma fw_pos_p f : 1 <= pfw f.
Proof. unfold pfw. destruct f as [[|b ms]|[|b ms]|c]; lia. Qed.

(* the reader's critical section consumes the record it holds *)
Lemma read_cs_mu_p f s s' os : rd s = RHold f -> read_cs f s = (s', os) -> mu_prog s' < mu_prog s.
Proof.
  intros Rd H. pose proof (fw_pos_p f) as Fp.
  assert (Base : forall s0, mu_prog s0 <= mu_prog s -> rd s0 = rd s -> forall r w, prdw r = 0 ->
            mu_prog (s0 <| rd := r |> <| wg := w |>) < mu_prog s /\ mu_prog (s0 <| rd := r |>) < mu_prog s).
  { intros s0 Le R0 r w Zr. unfold mu_prog, pmu_tasks, pmu_rest in *. cbn. rewrite R0, Rd in Le. cbn in Le. rewrite Zr, Rd. cbn [prdw]. lia. }
  assert (Msg : forall i, f = FMsg i \/ f = FMsgEOF i ->
     (if negb (running s) then (s <| rd := RExited |> <| wg ::= pred |>, [])
           else match i with
           | InBad => let '(s', os) := push_error s ParseError s_invalid_value in (s' <| rd := RIdle |>, os)
           | InMsgs _ [] => let '(s', os) := push_error s InvalidRequest s_empty_batch in (s' <| rd := RIdle |>, os)
           | InMsgs b ms =>
               let '(s1, keep, os) := filter_batch ms s [] [] in
               match keep with
               | [] => (s1 <| rd := RIdle |>, os)
               | _ => let s2 := s1 <| inq ::= fun q => q ++ [(b, keep)] |> <| rd := RIdle |> in
                      if work_closed s2 && (length (inq s2) =? 1)
                      then (s2 <| crash := Some CrSendOnClosedWork |>, os ++ [OCrash CrSendOnClosedWork])
                      else (s2, os)
               end
           end) = (s', os) -> mu_prog s' < mu_prog s).
  { intros i Hf H'. destruct (negb (running s)).
    { injection H' as <- _. exact (proj1 (Base s (le_n _) eq_refl RExited (pred (wg s)) eq_refl)). }
    destruct i as [|b ms]; [cbn in H'; injection H' as <- _; exact (proj2 (Base s (le_n _) eq_refl RIdle 0 eq_refl))|].
    destruct ms as [|m ms]; [cbn in H'; injection H' as <- _; exact (proj2 (Base s (le_n _) eq_refl RIdle 0 eq_refl))|].
    pose proof (filter_batch_sbc (m :: ms) s [] []) as Sb.
    destruct (filter_batch (m :: ms) s [] []) as [[s1 keep] os1] eqn:F. cbn [fst] in Sb.
    destruct (filter_batch_mu_p _ _ _ _ _ _ _ F) as [Mu Lk]. cbn [length] in Lk.
    assert (R1 : rd s1 = rd s) by (apply sbc_fields in Sb; apply Sb).
    destruct keep as [|k0 kr]; [injection H' as <- _; assert (Le1 : mu_prog s1 <= mu_prog s) by lia; exact (proj2 (Base s1 Le1 R1 RIdle 0 eq_refl))|]. cbv zeta in H'.
    assert (G : mu_prog (s1 <| inq ::= fun q => q ++ [(b, k0 :: kr)] |> <| rd := RIdle |>) < mu_prog s).
    { unfold mu_prog, pmu_tasks, pmu_rest in *. cbn. rewrite wsum_app. cbn. rewrite R1, Rd in Mu. cbn in Mu.
      assert (E : pfw f = 1 + 6 * Nat.max 1 (length (m :: ms))) by (destruct Hf as [-> | ->]; reflexivity).
      change (pew (b, k0 :: kr)) with (6 * Nat.max 1 (S (length kr))). rewrite Rd. cbn [prdw]. cbn [length] in *. lia. }
    match type of H' with (if ?c then _ else _) = _ => destruct c end; injection H' as <- _; exact G. }
  destruct f as [i|i|k].
  - apply (Msg i); auto.
  - apply (Msg i); auto.
  - cbn in H. destruct (stop_locked k s) as [s0 os0] eqn:St. injection H as <- _.
    destruct (stop_locked_mu_p _ _ _ _ St) as [Le _].
    assert (R0 : rd s0 = rd s).
    { destruct (running s) eqn:Rn.
      - apply stop_locked_run in St as [_ P]; auto. apply (sr_rd _ _ _ P).
      - rewrite stop_idempotent in St; auto. injection St as <- _. reflexivity. }
    exact (proj1 (Base s0 Le R0 RExited (pred (wg s0)) eq_refl)).
Qed.

Lemma set_task_mu_p k f s s1 t : nth_error (tasks s) k = Some t -> tasks s1 = upd_nth k f (tasks s) ->
  pmu_rest s1 = pmu_rest s -> mu_prog s1 + ptw t = mu_prog s + ptw (f t).
Proof.
  intros E T M. unfold mu_prog, pmu_tasks. rewrite T, M. pose proof (wsum_upd_nth ptw k f (tasks s) t E). lia.
Qed.


(** * every critical section of a parked goroutine, and every handler return, strictly decreases the measure *)
Lemma raw_rel_mu_p c s l s' os : reachf c s -> crash s = None -> is_prog l = true -> step_raw s l = Some (s', os) ->
  mu_prog s' < mu_prog s.
Proof.
  intros R Cr Il H. pose proof (reachf_inv _ _ R) as I. pose proof (raw_no_crash _ _ _ _ _ R Cr H) as Cr'.
  destruct l; try discriminate Il; unfold step_raw in H.
  - (* LGate: the handler returns *)
    destruct (find_idx _ 0 (tasks s)) as [k|] eqn:F; [|discriminate].
    destruct (nth_error (tasks s) k) as [t|] eqn:E; [|discriminate]. injection H as <- _.
    apply find_idx_some in F as (x & Ex & Px & _). rewrite Nat.sub_0_r, E in Ex. injection Ex as <-.
    apply andb_true_iff in Px as [_ Px].
    pose proof (set_task_mu_p k (fun t0 => t0 <| t_st := TAtHandled o |>) s
                  (set_task k (fun t0 => t0 <| t_st := TAtHandled o |>) s) t E eq_refl eq_refl) as W.
    assert (ptw t = 2) by (unfold ptw; destruct (t_st t); try discriminate; reflexivity).
    assert (ptw (t <| t_st := TAtHandled o |>) = 1) by reflexivity. cbv beta in W. lia.
  - (* LRelRead *)
    destruct (rd s) as [| |f|] eqn:Rd; try discriminate. injection H as H. eapply read_cs_mu_p; eauto.
  - (* LRelNext *)
    destruct (dp s) eqn:D; try discriminate. injection H as <- _. pose proof (dequeue_mu_p s) as Q. rewrite D in Q. cbn in Q. lia.
  - (* LRelBarrier *)
    destruct (dp s) eqn:D; try discriminate. injection H as <- _. unfold mu_prog, pmu_tasks, pmu_rest. cbn. rewrite D. cbn. lia.
  - (* LRelAcquire *)
    destruct (nth_error (tasks s) k) as [t|] eqn:E; [|discriminate].
    destruct (t_st t) eqn:St; try discriminate.
    destruct (negb (unit_running s t)); [discriminate|].
    assert (U : forall x, ptw (t <| t_st := x |>) <= 2 ->
              forall s1, tasks s1 = upd_nth k (fun t => t <| t_st := x |>) (tasks s) -> pmu_rest s1 = pmu_rest s ->
              mu_prog s1 < mu_prog s).
    { intros x Hx s1 T1 M1. unfold mu_prog, pmu_tasks. rewrite T1, M1.
      pose proof (wsum_upd_nth ptw k (fun t => t <| t_st := x |>) (tasks s) t E) as W.
      assert (ptw t = 3) by (unfold ptw; rewrite St; reflexivity). cbv beta in W. lia. }
    destruct (t_cancelled t); [injection H as <- _; apply (U (TDone (Some cancel_err))); auto; reflexivity|].
    destruct (sem_free s) as [|fr]; [injection H as <- _; apply (U TWaiting); auto; reflexivity|].
    destruct (sem_wait s); [|injection H as <- _; apply (U TWaiting); auto; reflexivity].
    destruct (t_builtin t); injection H as <- _; [apply (U (TAtHandled (ORes [])))|apply (U TRunning)]; auto; reflexivity.
  - (* LRelHandled *)
    destruct (nth_error (tasks s) k) as [t|] eqn:E; [|discriminate].
    destruct (t_st t) eqn:St; try discriminate.
    set (s1 := set_task k (fun t => t <| t_st := TDone (body_of_outcome t o) |>) s <| sem_free ::= S |>) in *.
    assert (W1 : wait_ok s1).
    { unfold wait_ok, s1; cbn. apply wait_ok_upd; [apply I|]. eapply wait_not_in; eauto; [apply I|congruence]. }
    assert (M1 : mu_prog s1 < mu_prog s).
    { pose proof (set_task_mu_p k (fun t0 => t0 <| t_st := TDone (body_of_outcome t0 o) |>) s s1 t E eq_refl eq_refl) as W.
      assert (ptw t = 1) by (unfold ptw; rewrite St; reflexivity). cbv beta in W.
      assert (ptw (t <| t_st := TDone (body_of_outcome t o) |>) = 0) by reflexivity. lia. }
    pose proof (grant_mu_p (S (length (sem_wait s1))) s1 [] W1) as G.
    destruct (grant (S (length (sem_wait s1))) s1 []) as [s2 os2]. cbn [fst] in G.
    assert (F : mu_prog s' = mu_prog s2).
    { destruct (is_note t); [destruct (nbar s2)|]; injection H as <- _; reflexivity. }
    lia.
  - (* LRelDeliver *)
    destruct (nth_error (units s) u) as [un|] eqn:E; [|discriminate].
    destruct (u_st un) eqn:Su; try discriminate.
    pose proof (release_ids_mu_p (unit_tasks s u) s) as Rm.
    pose proof (nontask_release (unit_tasks s u) s) as Nt. apply nontask_fields in Nt.
    assert (Eu : units (release_ids (unit_tasks s u) s) = units s) by apply Nt.
    destruct (u_chok un); cbn in H; injection H as <- _; [|cbn in Cr'; discriminate].
    set (s1 := release_ids (unit_tasks s u) s) in *.
    assert (mu_prog (set_unit u (fun x => x <| u_st := UFinished |>) s1 <| wg ::= pred |>) + 1 = mu_prog s1); [|lia].
    unfold mu_prog, pmu_tasks, pmu_rest. cbn. rewrite <- Eu in E.
    pose proof (wsum_upd_nth uw u (fun x => x <| u_st := UFinished |>) (units s1) un E) as W.
    assert (uw un = 1) by (unfold uw; rewrite Su; reflexivity).
    assert (uw (un <| u_st := UFinished |>) = 0) by reflexivity. cbv beta in W. lia.
  - (* LRelStop *)
    destruct (find_op n (ops s)) as [[n0|n0 id|n0 w m p]|] eqn:F; try discriminate.
    destruct (stop_locked SCStop (s <| ops ::= del_op n |>)) as [s0 os0] eqn:St. injection H as <- _.
    destruct (stop_locked_mu_p _ _ _ _ St) as [Le _].
    pose proof (del_op_ow _ _ _ F) as D. cbn [ow] in D.
    assert (mu_prog (s <| ops ::= del_op n |>) + 1 <= mu_prog s); [|lia].
    unfold mu_prog, pmu_tasks, pmu_rest. cbn. lia.
  - (* LRelCancel *)
    destruct (find_op n (ops s)) as [[n0|n0 id|n0 w m p]|] eqn:F; try discriminate.
    injection H as <- _. pose proof (del_op_ow _ _ _ F) as D. cbn [ow] in D.
    assert (M0 : mu_prog (s <| ops ::= del_op n |>) + 1 <= mu_prog s).
    { unfold mu_prog, pmu_tasks, pmu_rest. cbn. lia. }
    match goal with |- context [assoc ?a ?b] => destruct (assoc a b) as [owner|] end; [|lia].
    pose proof (cancel_task_mu_p owner (s <| ops ::= del_op n |>)). lia.
  - (* LRelPush *)
    destruct (find_op n (ops s)) as [[n0|n0 id|n0 w m p]|] eqn:F; try discriminate.
    pose proof (del_op_ow _ _ _ F) as D. cbn [ow] in D.
    cbn in H. destruct (running s) eqn:Rn; cbn in H.
    2:{ injection H as <- _. unfold mu_prog, pmu_tasks, pmu_rest. cbn. rewrite Rn. lia. }
    destruct w.
    + destruct (send_fail s).
      * injection H as <- _. unfold mu_prog, pmu_tasks, pmu_rest. cbn. rewrite Rn, wsum_app. cbn. lia.
      * injection H as <- _. unfold mu_prog, pmu_tasks, pmu_rest. cbn. rewrite Rn, wsum_app.
        destruct (find _ (ended s)) as [[? ?]|]; cbn; lia.
    + injection H as <- _. unfold mu_prog, pmu_tasks, pmu_rest. cbn. rewrite Rn. lia.
  - (* LRelCbWatch *)
    rename c0 into i.
    destruct (nth_error (cbs s) i) as [cb0|] eqn:N; [|discriminate].
    destruct (cb_watch cb0) eqn:W; try discriminate.
    set (s1 := s <| cbs ::= upd_nth i (fun c => c <| cb_watch := WDone |>) |>) in *.
    assert (M1 : mu_prog s1 + 1 = mu_prog s).
    { unfold mu_prog, pmu_tasks, pmu_rest, s1. cbn.
      pose proof (wsum_upd_nth cw i (fun c => c <| cb_watch := WDone |>) (cbs s) cb0 N) as U.
      assert (cw cb0 = 1) by (unfold cw; rewrite W; reflexivity).
      assert (cw (cb0 <| cb_watch := WDone |>) = 0) by reflexivity. cbv beta in U. lia. }
    destruct (assoc (cb_id cb0) (calls s1)) as [j|]; [|injection H as <- _; lia].
    destruct (cb_slot cb0); [injection H as <- _; lia|].
    destruct (j =? i); [|injection H as <- _; lia].
    assert (E : exists v, complete_cb i v s1 = (s', os)).
    { destruct (cb_ctx cb0) as [[|]|]; injection H as H; eauto. }
    destruct E as (v & E). pose proof (complete_cb_mu_p i v s1) as Cm. rewrite E in Cm. cbn [fst] in Cm. lia.
Qed.

(* wake-ups never increase it *)
Lemma settle1_mu_rel_p s s' os : inv s -> settle1 s = Some (s', os) -> mu_prog s' <= mu_prog s.
Proof.
  intros I H. apply settle1_inv in H.
  destruct H as [f q Rd Q | D _ | u un D _ Eu | i un F E _ | i un F E _ | W _ Q | W _ Q].
  - unfold mu_prog, pmu_tasks, pmu_rest. cbn. rewrite Rd, Q. cbn. lia.
  - pose proof (dequeue_mu_p s). lia.
  - destruct (i_dp _ I u (or_intror D)) as (un' & E' & S'). rewrite Eu in E'. injection E' as <-.
    unfold mu_prog, pmu_tasks, pmu_rest. cbn. rewrite D. cbn.
    pose proof (wsum_upd_nth uw u (fun x => x <| u_st := URunning |>) (units s) un Eu) as U.
    assert (uw un = 1) by (unfold uw; rewrite S'; reflexivity).
    assert (uw (un <| u_st := URunning |>) = 1) by reflexivity. cbv beta in U. lia.
  - unfold mu_prog, pmu_tasks, pmu_rest. cbn.
    pose proof (wsum_upd_nth uw i (fun x => x <| u_st := UFinished |>) (units s) un E) as U.
    assert (uw (un <| u_st := UFinished |>) = 0) by reflexivity. cbv beta in U. lia.
  - apply find_unit_some in F as (un' & E' & C & _). rewrite Nat.sub_0_r, E in E'. injection E' as <-.
    apply unit_complete_inv in C as [Su _].
    unfold mu_prog, pmu_tasks, pmu_rest. cbn.
    pose proof (wsum_upd_nth uw i (fun x => x <| u_st := UAtDeliver |>) (units s) un E) as U.
    assert (uw un = 1) by (unfold uw; rewrite Su; reflexivity).
    assert (uw (un <| u_st := UAtDeliver |>) = 1) by reflexivity. cbv beta in U. lia.
  - unfold mu_prog, pmu_tasks, pmu_rest. cbn. lia.
  - unfold mu_prog, pmu_tasks, pmu_rest. cbn. lia.
Qed.

Lemma settle_mu_rel_p c : forall fuel s acc s' os, reachf c s -> settle fuel s acc = (s', os) -> mu_prog s' <= mu_prog s.
Proof.
  induction fuel as [|n IH]; cbn; intros s acc s' os R H.
  - injection H as <- _. lia.
  - destruct (settle1 s) as [[s1 os1]|] eqn:E; [|injection H as <- _; lia].
    pose proof (settle1_mu_rel_p _ _ _ (reachf_inv _ _ R) E). pose proof (IH _ _ _ _ (rf_settle _ _ _ _ R E) H). lia.
Qed.

(** * C08.7 no livelock *)
Theorem rel_step_decreases_p c s l s' os : reach c s -> is_prog l = true -> step s l = Some (s', os) ->
  mu_prog s' < mu_prog s.
Proof.
  intros R Il H. pose proof (reach_reachf _ _ R) as Rf.
  apply step_decompose in H as (Cr & s1 & os1 & Hr & Hs).
  pose proof (raw_rel_mu_p _ _ _ _ _ Rf Cr Il Hr) as M1.
  destruct Hs as [(_ & -> & _)|(_ & Hs)]; auto.
  pose proof (settle_mu_rel_p c _ _ _ _ _ (rf_raw _ _ _ _ _ Rf Cr Hr) Hs). lia.
Qed.

Theorem rel_bounded_p c : forall tr s s' oss, reach c s -> Forall (fun l => is_prog l = true) tr ->
  run s tr = Some (s', oss) -> length tr + mu_prog s' <= mu_prog s.
Proof.
  induction tr as [|l r IH]; cbn [run length]; intros s s' oss R F H.
  - injection H as <- _. lia.
  - destruct (step s l) as [[s1 os]|] eqn:E; [|discriminate].
    destruct (run s1 r) as [[s2 oss2]|] eqn:E2; [|discriminate]. injection H as <- _.
    inversion F as [|? ? Fl Fr]; subst.
    pose proof (rel_step_decreases_p _ _ _ _ _ R Fl E).
    pose proof (IH _ _ _ (reach_step _ _ _ _ _ R E) Fr E2). lia.
Qed.

(* hence: as long as the environment only lets handlers return, there are at most [mu_prog s] windows *)
Corollary rel_run_length_p c tr s s' oss : reach c s -> Forall (fun l => is_prog l = true) tr ->
  run s tr = Some (s', oss) -> length tr <= mu_prog s.
Proof. intros R F H. pose proof (rel_bounded_p c _ _ _ _ R F H). lia. Qed.




(** * progress runs and the states at rest *)
Definition prog_only (tr : list label) : Prop := Forall (fun l => is_prog l = true) tr.

Lemma rel_prog l : is_rel l = true -> is_prog l = true.
Proof. unfold is_prog. intros ->. reflexivity. Qed.

Lemma prog_only_no_start tr : prog_only tr -> ~ In LStart tr.
Proof. intros F I. unfold prog_only in F. rewrite Forall_forall in F. specialize (F _ I). discriminate F. Qed.

Lemma prog_only_app a b : prog_only a -> prog_only b -> prog_only (a ++ b).
Proof. intros A B. apply Forall_app. split; auto. Qed.

(* at rest: no goroutine of the server can move and no handler is executing *)
Definition at_rest (s : state) : bool := quiescent s && forallb (fun t => negb (SrvC06.is_running t)) (tasks s).

Lemma at_rest_spec s : at_rest s = true <->
  quiescent s = true /\ forall k t, nth_error (tasks s) k = Some t -> t_st t <> TRunning.
Proof.
  unfold at_rest. rewrite andb_true_iff, forallb_forall. split; intros [Q H]; split; auto.
  - intros k t E Z. specialize (H t (nth_error_In _ _ E)). unfold SrvC06.is_running in H. rewrite Z in H. discriminate.
  - intros t It. apply In_nth_error in It as (k & E). specialize (H k t E). unfold SrvC06.is_running.
    destruct (t_st t); auto; congruence.
Qed.

Lemma find_idx_exists {A} (p : A -> bool) : forall l i x, In x l -> p x = true -> find_idx p i l <> None.
Proof.
  induction l as [|y r IH]; intros i x I P; [destruct I|]. cbn. destruct (p y) eqn:Py; [discriminate|].
  destruct I as [->|I]; [congruence|]. eapply IH; eauto.
Qed.

(* the handler of an executing task can return: LGate with its params is enabled *)
Lemma gate_enabled s k t o : crash s = None -> nth_error (tasks s) k = Some t -> t_st t = TRunning ->
  exists x, step s (LGate (t_params t) o) = Some x.
Proof.
  intros Cr E St.
  assert (R : exists x, step_raw s (LGate (t_params t) o) = Some x).
  { unfold step_raw.
    destruct (find_idx (fun t0 => beq (t_params t0) (t_params t) && match t_st t0 with TRunning => true | _ => false end)
                0 (tasks s)) as [j|] eqn:F.
    - apply find_idx_some in F as (x & Ex & _). rewrite Nat.sub_0_r in Ex. rewrite Ex. eauto.
    - exfalso. eapply (find_idx_exists _ (tasks s) 0 t); eauto; [eapply nth_error_In; eauto|].
      cbv beta. rewrite St. rewrite (proj2 (beq_eq _ _) eq_refl). reflexivity. }
  destruct R as ([s1 os1] & R). unfold step. rewrite Cr, R. destruct (crash s1); eauto.
Qed.

Lemma gate_needs_running s p o x : step s (LGate p o) = Some x ->
  exists k t, nth_error (tasks s) k = Some t /\ t_st t = TRunning.
Proof.
  destruct x as [s' os]. intros H. apply c01_gate_window in H as (k & t & E & St & _). eauto.
Qed.

(* a progress run cannot be extended exactly when it has reached a state at rest *)
Theorem at_rest_iff_maximal c s : reach c s ->
  (at_rest s = true <-> forall l, is_prog l = true -> step s l = None).
Proof.
  intros R. rewrite at_rest_spec. split.
  - intros [Q Nr] l Il. unfold is_prog in Il. apply orb_true_iff in Il as [Il|Il].
    + apply (proj1 (quiescent_iff_maximal s) Q l Il).
    + destruct l; try discriminate Il. destruct (step s (LGate params o)) as [x|] eqn:E; auto. exfalso.
      destruct (gate_needs_running _ _ _ _ E) as (k & t & Ek & St). apply (Nr _ _ Ek St).
  - intros H. split.
    + apply quiescent_iff_maximal. intros l Il. apply H. apply rel_prog; auto.
    + intros k t E St. destruct (gate_enabled s k t (ORes []) (no_crash _ _ R) E St) as (x & Hx).
      rewrite (H (LGate (t_params t) (ORes [])) eq_refl) in Hx. discriminate.
Qed.

(* a scheduler for progress runs: an enabled release label if there is one, else the return of some executing handler *)
Definition pick_prog (x : state) : label :=
  if quiescent x then
    match find SrvC06.is_running (tasks x) with Some t => LGate (t_params t) (ORes []) | None => LStart end
  else pick_first x.

Lemma pick_prog_ok c x : reach c x -> at_rest x = false ->
  is_prog (pick_prog x) = true /\ exists y, step x (pick_prog x) = Some y.
Proof.
  intros R Ar. unfold pick_prog, at_rest in *. destruct (quiescent x) eqn:Q; cbn in Ar.
  - destruct (find SrvC06.is_running (tasks x)) as [t|] eqn:F.
    + apply find_some in F as [It Rt]. apply In_nth_error in It as (k & E). split; [reflexivity|].
      apply (gate_enabled x k t (ORes []) (no_crash _ _ R) E). unfold SrvC06.is_running in Rt.
      destruct (t_st t); try discriminate; reflexivity.
    + exfalso. assert (X : forallb (fun t => negb (SrvC06.is_running t)) (tasks x) = true); [|congruence].
      apply forallb_forall. intros t It. apply negb_true_iff.
      destruct (SrvC06.is_running t) eqn:Rt; auto. pose proof (find_none _ _ F t It). congruence.
  - pose proof (pick_first_ok x Q) as I. split; [apply rel_prog, (enabled_rel_is_rel _ _ I)|].
    unfold enabled_rel in I. apply filter_In in I as [_ I]. destruct (step x (pick_first x)); [eauto|discriminate].
Qed.

(* (i) a state at rest is reached by a progress run of at most mu_prog s windows *)
Theorem prog_at_rest_reachable c s : reach c s ->
  exists tr s' oss, run s tr = Some (s', oss) /\ prog_only tr /\ length tr <= mu_prog s /\ at_rest s' = true.
Proof.
  intros R. remember (mu_prog s) as n eqn:En. assert (Le : mu_prog s <= n) by lia. clear En.
  revert s R Le. induction n as [|n IH]; intros s R Le.
  - destruct (at_rest s) eqn:Ar.
    + exists [], s, []. cbn. repeat split; auto. constructor.
    + exfalso. destruct (pick_prog_ok c s R Ar) as (Il & [s1 os] & E).
      pose proof (rel_step_decreases_p _ _ _ _ _ R Il E). lia.
  - destruct (at_rest s) eqn:Ar.
    + exists [], s, []. cbn. repeat split; auto; [constructor|lia].
    + destruct (pick_prog_ok c s R Ar) as (Il & [s1 os] & E).
      pose proof (rel_step_decreases_p _ _ _ _ _ R Il E) as D.
      destruct (IH s1 (reach_step _ _ _ _ _ R E)) as (tr & s' & oss & Hr & F & L & Ar'); [lia|].
      exists (pick_prog s :: tr), s', (os :: oss). cbn [run]. rewrite E, Hr. repeat split; auto.
      * constructor; auto.
      * cbn. lia.
Qed.

(* (ii) every progress run is short and is a prefix of one that ends at rest *)
Theorem prog_run_extends c s tr s1 oss1 : reach c s -> run s tr = Some (s1, oss1) -> prog_only tr ->
  length tr <= mu_prog s /\
  exists tr2 s' oss2, run s (tr ++ tr2) = Some (s', oss1 ++ oss2) /\ prog_only (tr ++ tr2) /\
    length (tr ++ tr2) <= mu_prog s /\ at_rest s' = true.
Proof.
  intros R H F. pose proof (rel_bounded_p c _ _ _ _ R F H) as B. split; [lia|].
  destruct (prog_at_rest_reachable c s1 (run_reach _ _ _ _ _ R H)) as (tr2 & s' & oss2 & H2 & F2 & L2 & Ar).
  exists tr2, s', oss2. split; [eapply run_app_fwd; eauto|]. split; [apply prog_only_app; auto|].
  split; [rewrite app_length; lia|exact Ar].
Qed.

(* P holds in the last state of every maximal progress run from s; such runs exist; none is longer than mu_prog s *)
Definition eventually_prog (s : state) (P : list label -> state -> list (list obs) -> Prop) : Prop :=
  (exists tr s' oss, run s tr = Some (s', oss) /\ prog_only tr /\ length tr <= mu_prog s /\ at_rest s' = true) /\
  (forall tr s' oss, run s tr = Some (s', oss) -> prog_only tr ->
     length tr <= mu_prog s /\ (at_rest s' = true -> P tr s' oss)).

Lemma eventually_prog_intro c s (P : list label -> state -> list (list obs) -> Prop) : reach c s ->
  (forall tr s' oss, run s tr = Some (s', oss) -> prog_only tr -> reach c s' -> quiescent s' = true ->
     (forall k t, nth_error (tasks s') k = Some t -> t_st t <> TRunning) -> P tr s' oss) ->
  eventually_prog s P.
Proof.
  intros R H. split; [apply (prog_at_rest_reachable c s R)|].
  intros tr s' oss Hr F. split; [apply (rel_run_length_p c _ _ _ _ R F Hr)|].
  intros Ar. apply at_rest_spec in Ar as [Q Nr]. apply H; auto. eapply run_reach; eauto.
Qed.

Lemma eventually_prog_spec s P : eventually_prog s P <->
  (exists tr s' oss, run s tr = Some (s', oss) /\ Forall (fun l => is_prog l = true) tr /\ length tr <= mu_prog s /\
     at_rest s' = true) /\
  (forall tr s' oss, run s tr = Some (s', oss) -> Forall (fun l => is_prog l = true) tr ->
     length tr <= mu_prog s /\ (at_rest s' = true -> P tr s' oss)).
Proof. reflexivity. Qed.

Lemma is_prog_spec l : is_prog l = true <-> is_rel l = true \/ exists p o, l = LGate p o.
Proof.
  unfold is_prog. rewrite orb_true_iff. split; intros [H|H]; auto.
  - destruct l; try discriminate H. right. eauto.
  - destruct H as (p & o & ->). right. reflexivity.
Qed.

Lemma mu_prog_spec s : mu_prog s =
  wsum ptw (tasks s) +
  (prdw (rd s) + wsum pfw (ch_in s) + dpw (dp s) + wsum pew (inq s) + wsum uw (units s) + wsum cw (cbs s) +
   wsum ow (ops s) + (if running s then 2 else 0)).
Proof. reflexivity. Qed.

Lemma prog_weights_spec :
  (forall t, ptw t = match t_st t with TAtAcquire => 3 | TWaiting | TRunning => 2 | TAtHandled _ => 1 | TDone _ | TSkip => 0 end) /\
  (forall bm, pew bm = 6 * Nat.max 1 (length (snd bm))) /\
  (forall f, pfw f = match f with
                     | FMsg (InMsgs _ ms) | FMsgEOF (InMsgs _ ms) => 1 + 6 * Nat.max 1 (length ms)
                     | _ => 1
                     end) /\
  (forall r, prdw r = match r with RHold f => pfw f | _ => 0 end).
Proof. repeat split. Qed.

(** * C01: with the handlers returning, everything received is eventually answered *)
(* tr0 = any history leading to s.  In the last state s' of every maximal progress run from s (at most mu_prog s
   windows): nothing is queued, every task and every unit has finished, every unit with something to say has been
   delivered exactly once on the whole trace and every silent one never, and the messages sent by the deliver windows
   of the whole trace are exactly the replies of the non-silent units, with the responses of their tasks *)
Definition c01_all_answered (tr0 : list label) (oss0 : list (list obs))
    (tr : list label) (s' : state) (oss : list (list obs)) : Prop :=
  inq s' = [] /\ (forall k t, nth_error (tasks s') k = Some t -> finished t = true) /\
  (forall u, u < length (units s') ->
     ufin s' u = true /\
     (responses (unit_tasks s' u) <> [] -> countb (is_deliver u) (tr0 ++ tr) = 1) /\
     (responses (unit_tasks s' u) = [] -> countb (is_deliver u) (tr0 ++ tr) = 0)) /\
  unit_sends (tr0 ++ tr) (oss0 ++ oss) =
    map (fun u => (u, ubatch s' u, responses (unit_tasks s' u))) (delivered (tr0 ++ tr)) /\
  NoDup (delivered (tr0 ++ tr)) /\
  (forall u, In u (delivered (tr0 ++ tr)) <-> u < length (units s') /\ responses (unit_tasks s' u) <> []).

Theorem c01_eventually_all_answered c tr0 s oss0 : run (init_of c) tr0 = Some (s, oss0) -> 0 < cf_K c ->
  eventually_prog s (c01_all_answered tr0 oss0).
Proof.
  intros H0 HK. assert (R : reach c s) by (eapply run_reach; [apply reach_init|eauto]).
  apply (eventually_prog_intro c); auto. intros tr s' oss H F R' Q Nr.
  pose proof (run_app_fwd _ _ _ _ _ _ _ H0 H) as Hall.
  destruct (quiescent_at_rest c s' R' Q HK Nr) as (Iq & Fu & Ft).
  destruct (c01_output_history c _ _ _ Hall) as (Us & Nd & Dl).
  assert (Fin : forall u, u < length (units s') -> ufin s' u = true).
  { intros u Lu. destruct (nth_error (units s') u) as [un|] eqn:Eu; [|apply nth_error_None in Eu; lia].
    unfold ufin. rewrite Eu, (Fu _ _ Eu). reflexivity. }
  split; [exact Iq|]. split; [exact Ft|]. split; [|split; [exact Us|split; [exact Nd|]]].
  - intros u Lu. split; [apply Fin; auto|]. apply (c01_delivered_iff_nonsilent c _ _ _ u Hall (Fin u Lu)).
  - intros u. rewrite Dl. split; intros [A B]; split; auto. apply ufin_lt; auto.
Qed.

(** * C08: with the handlers returning, every pending WaitStatus of a stopped server returns *)
Lemma raw_waits_nocall s l s' os : inv s -> l <> LCallWait -> step_raw s l = Some (s', os) -> waits s' = waits s.
Proof.
  intros I Il H. apply raw_ctl in H; auto.
  destruct H as [L Rn Wg -> | c s0 s1 Sc Rn H0 P H1 | f L Rd Rn -> | f i L Rd Hf Rn S5 C0 Ri Wa Hq
                | L D -> | u L D -> | u un s1 L E Su -> Hs | S5 Cp Wa Cr]; auto.
  - assert (W0 : waits s0 = waits s) by (destruct H0 as [->|(n & ->)]; reflexivity).
    rewrite <- W0, <- (sr_waits _ _ _ P). destruct H1 as [->|(_ & ->)]; reflexivity.
  - apply dequeue_nontask_like.
  - pose proof (nontask_release (unit_tasks s u) s) as G. apply nontask_fields in G.
    assert (W1 : waits (release_ids (unit_tasks s u) s) = waits s) by apply G.
    destruct Hs as [(_ & ->)|(_ & ->)]; cbn; exact W1.
  - destruct Wa as [Wa|(L & _)]; auto. congruence.
Qed.

Lemma step_prog_waits c s l s' os : reach c s -> is_prog l = true -> step s l = Some (s', os) ->
  count_waitret os + waits s' = waits s.
Proof.
  intros R Il H. pose proof (reach_reachf _ _ R) as Rf. pose proof (reachf_inv _ _ Rf) as I.
  apply step_decompose in H as (Cr & s1 & os1 & Hr & Hs).
  assert (Nc : l <> LCallWait) by (intros ->; discriminate Il).
  pose proof (raw_waits_nocall _ _ _ _ I Nc Hr) as W1.
  pose proof (nowait_count _ (raw_nowait _ _ _ _ I Hr)) as N1.
  destruct Hs as [(_ & -> & ->)|(_ & Hs)]; [lia|].
  pose proof (settle_waits c _ _ _ _ _ (rf_raw _ _ _ _ _ Rf Cr Hr) Hs). lia.
Qed.

Lemma run_prog_waits c : forall tr s s' oss, reach c s -> prog_only tr -> run s tr = Some (s', oss) ->
  count_waitret (concat oss) + waits s' = waits s.
Proof.
  induction tr as [|l r IH]; cbn [run]; intros s s' oss R F H.
  - injection H as <- <-. cbn. lia.
  - destruct (step s l) as [[s1 os]|] eqn:E; [|discriminate].
    destruct (run s1 r) as [[s2 oss2]|] eqn:E2; [|discriminate]. injection H as <- <-.
    inversion F as [|? ? Fl Fr]; subst. cbn [concat]. unfold count_waitret. rewrite countb_app.
    pose proof (step_prog_waits _ _ _ _ _ R Fl E) as A.
    pose proof (IH _ _ _ (reach_step _ _ _ _ _ R E) Fr E2) as B. unfold count_waitret in *. lia.
Qed.

(* [s0 -l-> s1] is the window that stopped the server, tr1 any later history without a restart, leading to s.  In the
   last state s' of every maximal progress run from s: the server is stopped with the cause k of the stopping window,
   every WaitStatus return of the run reports k, and once the reader's Recv has returned (no assumption on a channel
   whose Close unblocks Recv) every call that was pending in s has returned and every goroutine has exited *)
Definition c08_all_waits_returned (c : config) (s0 : state) (l : label) (s : state)
    (tr : list label) (s' : state) (oss : list (list obs)) : Prop :=
  exists k, stop_cause s0 l k /\ stop_err s' = Some k /\ running s' = false /\
    (forall os r, In os oss -> In (OWaitRet r) os -> r = Some k) /\
    count_waitret (concat oss) + waits s' = waits s /\
    ((rd s' = RExited \/ rd s' = RNone \/ cf_unblock c = true) ->
     waits s' = 0 /\ count_waitret (concat oss) = waits s /\ wg s' = 0 /\ all_done s').

Theorem c08_waitstatus_eventually_all_return c s0 l s1 os1 tr1 s oss1 : reach c s0 -> step s0 l = Some (s1, os1) ->
  running s0 = true -> running s1 = false -> run s1 tr1 = Some (s, oss1) -> ~ In LStart tr1 -> 0 < cf_K c ->
  eventually_prog s (c08_all_waits_returned c s0 l s).
Proof.
  intros R0 St Rn0 Rn1 H1 Ns HK.
  assert (R1 : reach c s1) by (eapply reach_step; eauto).
  assert (R : reach c s) by (eapply run_reach; eauto).
  apply (eventually_prog_intro c); auto. intros tr s' oss H F R' Q Nr.
  pose proof (run_app_fwd _ _ _ _ _ _ _ H1 H) as Hall.
  assert (Ns' : ~ In LStart (tr1 ++ tr)).
  { intros I. apply in_app_or in I as [I|I]; [auto|apply (prog_only_no_start _ F I)]. }
  destruct (status_cause c s0 l s1 os1 (tr1 ++ tr) s' (oss1 ++ oss) R0 St Rn0 Rn1 Hall Ns') as (k & Sc & Se & _ & Hw).
  destruct (proj2 (stop_err_set c s' R') k Se) as (Rn' & _).
  exists k. split; [exact Sc|]. split; [exact Se|]. split; [exact Rn'|]. split; [|split].
  - intros os r I Ir. apply (Hw os r); auto. apply in_or_app. auto.
  - apply (run_prog_waits c tr s s' oss R F H).
  - intros Hrd. pose proof (run_prog_waits c tr s s' oss R F H) as Wc.
    assert (T : wg s' = 0 /\ waits s' = 0 /\ all_done s').
    { destruct Hrd as [Hrd|[Hrd|Hu]].
      - apply (c08_terminates_q c s' R' Q Rn' (or_introl Hrd) Nr HK).
      - apply (c08_terminates_q c s' R' Q Rn' (or_intror Hrd) Nr HK).
      - apply (SrvC08u.terminates_unblock c s' R' Q Rn' Hu Nr HK). }
    destruct T as (Wg & W0 & Ad). split; [exact W0|]. split; [lia|]. split; [exact Wg|exact Ad].
Qed.

(** * non-vacuity *)
(* a batch of two calls and a notification has just been read (nothing dispatched yet); with the handlers returning
   the server dispatches, runs the three handlers one after the other (K = 1) and delivers the array of two replies *)
Definition tr_batch_read : list label :=
  [LStart; LFeed (FMsg (InMsgs true [ex_call [49%N] [1%N]; ex_note [2%N]; ex_call [50%N] [3%N]])); LRelRead].

Example c01_eventually_all_answered_nonvacuous :
  exists s tr s' oss, reach ex_cfg s /\ run s tr = Some (s', oss) /\ prog_only tr /\ at_rest s' = true /\
    quiescent s = false /\ length tr = 13 /\ mu_prog s = 21 /\ mu_rel s = 18 /\ 0 < cf_K ex_cfg /\
    map u_st (units s') = [UFinished] /\
    unit_sends (tr_batch_read ++ tr) (obs_of ex_cfg tr_batch_read ++ oss) =
      [(0, true, [{| r_id := [49%N]; r_body := BRes [52%N] |}; {| r_id := [50%N]; r_body := BRes [51%N] |}])].
Proof.
  exists (st_of ex_cfg tr_batch_read),
    [LRelNext; LRelBarrier; LRelNext; LRelAcquire 1; LGate [2%N] (ORes []); LRelHandled 1; LRelAcquire 2;
     LGate [3%N] (ORes [51%N]); LRelHandled 2; LRelAcquire 0; LGate [1%N] (ORes [52%N]); LRelHandled 0; LRelDeliver 0].
  eexists _, _. split; [apply reach_st_of; vm_compute; discriminate|]. split; [vm_compute; reflexivity|].
  split; [repeat constructor|]. repeat split; try (vm_compute; reflexivity).
Qed.

(* two WaitStatus calls are pending when Stop is called with a call in its handler: with the handler returning and
   the transport reporting the closing error, both calls return with the cause of the stop *)
Example c08_waitstatus_eventually_all_return_nonvacuous :
  exists s0 s1 os1 s tr s' oss,
    reach ex_cfg s0 /\ step s0 (LRelStop 1) = Some (s1, os1) /\ running s0 = true /\ running s1 = false /\
    run s1 [LFeed (FErr SCClosing)] = Some (s, [[]]) /\
    run s tr = Some (s', oss) /\ prog_only tr /\ at_rest s' = true /\ waits s = 2 /\ waits s' = 0 /\ length tr = 5 /\
    filter is_waitret (concat oss) = [OWaitRet (Some SCStop); OWaitRet (Some SCStop)] /\ rd s' = RExited.
Proof.
  exists (st_of ex_cfg tr_two_waiting). eexists _, _, _.
  exists [LRelRead; LGate [91;93]%N (ORes [50%N]); LRelHandled 0; LRelDeliver 0; LRelNext]. eexists _, _.
  split; [apply reach_st_of; vm_compute; discriminate|]. split; [vm_compute; reflexivity|].
  split; [vm_compute; reflexivity|]. split; [vm_compute; reflexivity|]. split; [vm_compute; reflexivity|].
  split; [vm_compute; reflexivity|]. split; [repeat constructor|].
  repeat split; try (vm_compute; reflexivity).
Qed.
