(* SrvMonWait: soundness of [mon_wait_status] (srv/SrvMonitors3.v) for every run of the server model.

   WaitStatus returns are produced by wake-ups only ([settle1], SrvC08b.raw_nowait) and report [stop_err] of the
   state.  [stop_err] is written by stopLocked on a running server only: from Stop (LRelStop n, which needs a pending
   OpStop n, i.e. a label LCallStop n of the environment) or from the reader holding a Recv error (LRelRead).  The
   errors on the inbound path of a RUNNING server were all fed by the environment: the closing error the model appends
   to the channel when the server stops is dropped by the next Start (which empties the channel) and cannot be read
   before, because stopLocked on a stopped server is the identity.  Each return consumes one pending call. *)
From Coq Require Import List NArith ZArith Bool Arith Lia.
From RecordUpdate Require Import RecordUpdate.
From JV Require Import Bytes Msg SrvModel SrvLemmas SrvBasics SrvC01 SrvHist SrvMonitors SrvMonitors3 SrvMonFrame.
From JV Require SrvC08 SrvC08b SrvC08y.
Import ListNotations.

(** * the invariant, relative to a fixed environment sequence E that contains every environment label taken *)

Record WI (E : list label) (s : state) : Prop := {
  w_err : forall c, stop_err s = Some c -> cause_in E c = true;
  w_pend : running s = true -> forall c, In (FErr c) (ch_in s) \/ rd s = RHold (FErr c) ->
             existsb (feeds_class (class_of c)) E = true;
  w_ops : forall n, In (OpStop n) (ops s) -> existsb is_callstop E = true
}.

Lemma cclass_eqb_refl k : cclass_eqb k k = true.
Proof. destruct k; reflexivity. Qed.

Lemma feeds_cause E c : existsb (feeds_class (class_of c)) E = true -> cause_in E c = true.
Proof. unfold cause_in. intros H. destruct (class_of c); auto. rewrite H. apply orb_true_r. Qed.

Lemma callstop_cause E : existsb is_callstop E = true -> cause_in E SCStop = true.
Proof. unfold cause_in. cbn. intros ->. reflexivity. Qed.

Lemma fed_err_class E c : In (LFeed (FErr c)) E -> existsb (feeds_class (class_of c)) E = true.
Proof. intros H. apply existsb_exists. exists (LFeed (FErr c)). split; auto. cbn. apply cclass_eqb_refl. Qed.


Lemma raw_waits s l s' os : inv s -> step_raw s l = Some (s', os) ->
  waits s' <= waits s + (if is_callwait l then 1 else 0).
Proof.
  intros I H. pose proof (SrvC08.raw_ctl _ _ _ _ I H) as C.
  destruct C as [-> Rn W ->| c s0 s1 Sc Rn S0 P S1|f0 -> Rd Rn ->|f0 i -> Rd Fi Rn S5 C0 Ri Wa Q| -> D ->|u -> D ->
                |u un s1 -> Eu Su -> S1|S5 Cp Wa Q L].
  - cbn. lia.
  - destruct P. assert (E0 : waits s0 = waits s) by (destruct S0 as [->|(n & ->)]; reflexivity).
    destruct S1 as [->|(_ & ->)]; cbn; lia.
  - cbn. lia.
  - lia.
  - destruct (SrvC08.dequeue_nontask_like s) as (_ & _ & A & _). cbn. lia.
  - cbn. lia.
  - pose proof (SrvC08.nontask_release (unit_tasks s u) s) as G0. apply SrvC08.nontask_fields in G0.
    destruct G0 as (N1 & N2 & N3 & N4 & N5 & N6 & N7 & N8 & N9 & N10 & N11 & N12 & N13 & N14 & N15 & N16 & N17 &
                  N18 & N19 & N20 & N21 & N22 & N23 & N24 & N25).
    destruct S1 as [(_ & ->)|(_ & ->)]; cbn; lia.
  - destruct Wa as [->|(-> & ->)]; cbn; lia.
Qed.


Lemma raw_WI E s l s' os : inv s -> WI E s -> step_raw s l = Some (s', os) -> covers E l -> WI E s'.
Proof.
  intros I [We Wp Wo] H Cv.
  destruct (raw_from _ _ _ _ I H) as [Fo Fc].
  assert (Wo' : forall n, In (OpStop n) (ops s') -> existsb is_callstop E = true).
  { intros n Hn. destruct (Fo _ Hn) as [Ho|Ho]; [eapply Wo; eauto|].
    destruct l; cbn in Ho; try discriminate. injection Ho as ->.
    apply existsb_exists. exists (LCallStop n). split; [apply Cv; reflexivity|reflexivity]. }
  destruct (raw_stop_view _ _ _ _ I H) as [(Se & Rn & Ch & Rd)|[(c & Sc & Rn & Rn' & Se)|(Rn & Se)]].
  - constructor; auto.
    + intros c Ec. congruence.
    + intros _ c [Hc|Hc]; [rewrite Ch in Hc; destruct Hc|rewrite Rd in Hc; discriminate].
  - constructor; auto.
    + intros c0 Ec. rewrite Se in Ec. injection Ec as <-.
      destruct Sc as [n|c Rd].
      * destruct (relstop_op _ _ _ _ H) as (n0 & Hn). apply callstop_cause. eapply Wo; eauto.
      * apply feeds_cause. apply Wp; auto.
    + intros Rt. congruence.
  - constructor; auto.
    + intros c Ec. rewrite Se in Ec. auto.
    + intros Rt c Hc. rewrite Rn in Rt.
      assert (K : In (FErr c) (ch_in s') -> existsb (feeds_class (class_of c)) E = true).
      { intros Hi. destruct (Fc _ Hi) as [X|[X|(_ & _ & X)]].
        - apply Wp; auto.
        - apply fed_err_class. rewrite <- X. apply Cv. rewrite X. reflexivity.
        - congruence. }
      destruct Hc as [Hc|Hc]; [auto|]. apply Wp; auto. right. eapply raw_rd_hold; eauto.
Qed.

(** * one wake-up *)
Lemma in_wait_causes c os : In c (wait_causes os) <-> In (OWaitRet (Some c)) os.
Proof.
  unfold wait_causes. rewrite in_flat_map. split.
  - intros (o & Ho & Hc). destruct o as [| | | | | |[c0|]|]; cbn in Hc; try contradiction.
    destruct Hc as [->|[]]. exact Ho.
  - intros H. exists (OWaitRet (Some c)). split; auto. left. reflexivity.
Qed.

Lemma settle1_W E s s' os : WI E s -> settle1 s = Some (s', os) ->
  WI E s' /\ (forall c, In (OWaitRet (Some c)) os -> cause_in E c = true) /\
  countb is_waitret os + waits s' <= waits s.
Proof.
  intros [We Wp Wo] H. destruct (settle1_from _ _ _ H) as (Eo & Er & Ee & Ch & Rd).
  split; [|split].
  - constructor.
    + intros c Ec. rewrite Ee in Ec. auto.
    + intros Rt c Hc. rewrite Er in Rt. apply Wp; auto.
      destruct Hc as [Hc|Hc]; [left; auto|]. destruct (Rd _ Hc); auto.
    + intros n Hn. rewrite Eo in Hn. eauto.
  - apply settle1_inv in H.
    destruct H as [f q Hrd Hch|Hdp Hc|u un H1 H2 H3|i un H1 H2 H3|i un H1 H2 H3|H1 H2 H3|H1 H2 H3];
      intros c Hin; cbn in Hin; try contradiction.
    + destruct Hin as [Hin|[]]. injection Hin as Hin. auto.
    + destruct Hin as [Hin|[]]. discriminate Hin.
  - apply settle1_inv in H.
    destruct H as [f q Hrd Hch|Hdp Hc|u un H1 H2 H3|i un H1 H2 H3|i un H1 H2 H3|H1 H2 H3|H1 H2 H3]; cbn; try lia.
    destruct (SrvC08.dequeue_nontask_like s) as (_ & _ & A & _). lia.
Qed.

Lemma countb_waitret_app a b : countb is_waitret (a ++ b) = countb is_waitret a + countb is_waitret b.
Proof. apply countb_app. Qed.

Lemma settle_W E : forall fuel s acc s' os, WI E s -> settle fuel s acc = (s', os) ->
  exists extra, os = acc ++ extra /\ WI E s' /\ (forall c, In (OWaitRet (Some c)) extra -> cause_in E c = true) /\
    countb is_waitret extra + waits s' <= waits s.
Proof.
  induction fuel as [|f IH]; cbn; intros s acc s' os W H.
  - injection H as <- <-. exists []. rewrite app_nil_r.
    split; [reflexivity|split; [exact W|split; [intros c []|cbn; lia]]].
  - destruct (settle1 s) as [[s1 os1]|] eqn:E1.
    + destruct (settle1_W _ _ _ _ W E1) as (W1 & C1 & N1).
      destruct (IH _ _ _ _ W1 H) as (ex & -> & W2 & C2 & N2).
      exists (os1 ++ ex). rewrite app_assoc. split; auto. split; auto. split.
      * intros c Hc. apply in_app_or in Hc as [Hc|Hc]; auto.
      * rewrite countb_waitret_app. lia.
    + injection H as <- <-. exists []. rewrite app_nil_r.
      split; [reflexivity|split; [exact W|split; [intros c []|cbn; lia]]].
Qed.

(** * one window *)
Lemma nowait_count os : Forall SrvC08b.nowait os ->
  countb is_waitret os = 0 /\ forall c, ~ In (OWaitRet c) os.
Proof.
  induction 1 as [|o os Ho _ [IH1 IH2]]; [split; [reflexivity|intros c []]|]. split.
  - cbn [countb]. rewrite IH1. destruct o; cbn in *; try reflexivity. contradiction.
  - intros c [->|Hc]; [exact Ho|]. eapply IH2; eauto.
Qed.

Lemma step_W E c0 s l s' os : reachf c0 s -> WI E s -> step s l = Some (s', os) -> covers E l ->
  WI E s' /\ (forall c, In (OWaitRet (Some c)) os -> cause_in E c = true) /\
  countb is_waitret os + waits s' <= waits s + (if is_callwait l then 1 else 0).
Proof.
  intros R W H Cv. pose proof (reachf_inv _ _ R) as I.
  apply step_decompose in H as (_ & s1 & os1 & Hr & Hs).
  pose proof (raw_WI _ _ _ _ _ I W Hr Cv) as W1. pose proof (raw_waits _ _ _ _ I Hr) as N1.
  destruct (nowait_count _ (SrvC08b.raw_nowait _ _ _ _ I Hr)) as [Z1 Z2].
  destruct Hs as [(_ & -> & ->)|(_ & Hs)].
  - split; auto. split; [intros c Hc; destruct (Z2 _ Hc)|lia].
  - destruct (settle_W E _ _ _ _ _ W1 Hs) as (ex & -> & W2 & C2 & N2). split; auto. split.
    + intros c Hc. apply in_app_or in Hc as [Hc|Hc]; [destruct (Z2 _ Hc)|auto].
    + rewrite countb_waitret_app. lia.
Qed.

(** * runs *)
Lemma run_W E c0 : forall tr s s' oss, reachf c0 s -> WI E s -> (forall l, In l tr -> covers E l) ->
  run s tr = Some (s', oss) ->
  (forall c, In (OWaitRet (Some c)) (concat oss) -> cause_in E c = true) /\
  countb is_waitret (concat oss) + waits s' <= waits s + countb is_callwait tr.
Proof.
  induction tr as [|l r IH]; cbn [run]; intros s s' oss R W Cv H.
  - injection H as <- <-. cbn. split; [intros c []|lia].
  - destruct (step s l) as [[s1 os]|] eqn:E1; [|discriminate].
    destruct (run s1 r) as [[s2 oss2]|] eqn:E2; [|discriminate]. injection H as <- <-.
    destruct (step_W E c0 _ _ _ _ R W E1 (Cv l (or_introl eq_refl))) as (W1 & C1 & N1).
    destruct (IH _ _ _ (step_reachf _ _ _ _ _ R E1) W1 (fun l0 H0 => Cv l0 (or_intror H0)) E2) as (C2 & N2).
    cbn [concat countb]. split.
    + intros c Hc. apply in_app_or in Hc as [Hc|Hc]; auto.
    + rewrite countb_waitret_app. lia.
Qed.

Lemma WI_init E c0 : WI E (init_of c0).
Proof.
  constructor.
  - intros c H. discriminate H.
  - intros H. discriminate H.
  - intros n [].
Qed.


Lemma callwait_env tr : countb is_callwait (env_of tr) = countb is_callwait tr.
Proof.
  induction tr as [|l tr IH]; auto. unfold env_of in *. cbn [filter countb].
  destruct l; cbn [is_env is_callwait countb]; rewrite IH; reflexivity.
Qed.

(** * Soundness *)
(* every reported cause has its origin in the environment *)
Theorem wait_cause_in_env c tr s oss k : run (init_of c) tr = Some (s, oss) ->
  In (OWaitRet (Some k)) (concat oss) -> cause_in (env_of tr) k = true.
Proof.
  intros H. destruct (run_W (env_of tr) c tr _ _ _ (rf_init c) (WI_init _ c) (covers_env_of tr) H) as [C _]. apply C.
Qed.

(* WaitStatus returns at most as often as it was called *)
Theorem waitret_le_callwait c tr s oss : run (init_of c) tr = Some (s, oss) ->
  countb is_waitret (concat oss) <= countb is_callwait (env_of tr).
Proof.
  intros H. destruct (run_W (env_of tr) c tr _ _ _ (rf_init c) (WI_init _ c) (covers_env_of tr) H) as [_ N].
  rewrite callwait_env. change (waits (init_of c)) with 0 in N. lia.
Qed.

Theorem mon_wait_status_sound c tr s oss : run (init_of c) tr = Some (s, oss) ->
  mon_wait_status (env_of tr) (concat oss) = true.
Proof.
  intros H. unfold mon_wait_status. apply andb_true_iff. split.
  - apply forallb_forall. intros k Hk. apply in_wait_causes in Hk. eapply wait_cause_in_env; eauto.
  - apply Nat.leb_le. eapply waitret_le_callwait; eauto.
Qed.

(* the clauses, spelled out *)
Theorem wait_stopped_needs_stop c tr s oss : run (init_of c) tr = Some (s, oss) ->
  In (OWaitRet (Some SCStop)) (concat oss) ->
  (exists n, In (LCallStop n) (env_of tr)) \/ In (LFeed (FErr SCStop)) (env_of tr).
Proof.
  intros H Hi. pose proof (wait_cause_in_env _ _ _ _ _ H Hi) as C. unfold cause_in in C. cbn [class_of] in C.
  apply orb_true_iff in C as [C|C]; apply existsb_exists in C as (l & Hl & Pl).
  - left. destruct l; try discriminate Pl. eauto.
  - right. destruct l as [|[| |[]]| | | | | | | | | | | | | | | | |]; try discriminate Pl. exact Hl.
Qed.

Theorem wait_closed_needs_eof c tr s oss k : run (init_of c) tr = Some (s, oss) ->
  k = SCEOF \/ k = SCClosing -> In (OWaitRet (Some k)) (concat oss) ->
  In (LFeed (FErr SCEOF)) (env_of tr) \/ In (LFeed (FErr SCClosing)) (env_of tr).
Proof.
  intros H Hk Hi. pose proof (wait_cause_in_env _ _ _ _ _ H Hi) as C. unfold cause_in in C.
  assert (C' : existsb (feeds_class KClosed) (env_of tr) = true) by (destruct Hk as [-> | ->]; exact C).
  apply existsb_exists in C' as (l & Hl & Pl).
  destruct l as [|[| |[]]| | | | | | | | | | | | | | | | |]; try discriminate Pl; auto.
Qed.

Theorem wait_failed_needs_error c tr s oss : run (init_of c) tr = Some (s, oss) ->
  In (OWaitRet (Some SCOther)) (concat oss) -> In (LFeed (FErr SCOther)) (env_of tr).
Proof.
  intros H Hi. pose proof (wait_cause_in_env _ _ _ _ _ H Hi) as C. unfold cause_in in C. cbn [class_of] in C.
  apply existsb_exists in C as (l & Hl & Pl).
  destruct l as [|[| |[]]| | | | | | | | | | | | | | | | |]; try discriminate Pl; auto.
Qed.

(** * REFUTED: "Stopped is reported only after a Stop call" - the model's type of Recv errors contains the stop
    sentinel, and a fed [FErr SCStop] is reported as Stopped (errServerStopped is unexported in Go: no channel can
    return it; the runner never produces this feed).  Hence the second disjunct of the Stopped clause. *)
Lemma wait_stopped_needs_callstop_refuted :
  exists tr s oss, run (init_of ex_cfg) tr = Some (s, oss) /\ In (OWaitRet (Some SCStop)) (concat oss) /\
    existsb is_callstop (env_of tr) = false.
Proof.
  exists SrvC08y.tr_recv_sentinel, (st_of ex_cfg SrvC08y.tr_recv_sentinel), (obs_of ex_cfg SrvC08y.tr_recv_sentinel).
  split; [apply run_st_of; intros E; vm_compute in E; discriminate E|].
  split; [vm_compute; tauto|vm_compute; reflexivity].
Qed.

(** * Examples *)
(* a started server is stopped by a Stop call while a WaitStatus call is pending; both goroutines exit *)
Definition ex_tr_wait_stop : list label :=
  [LStart; LCallWait; LCallStop 0; LRelStop 0; LFeed (FErr SCEOF); LRelRead; LRelNext].
(* the same server ended by the end of the input *)
Definition ex_tr_wait_eof : list label := [LStart; LCallWait; LFeed (FErr SCEOF); LRelRead; LRelNext].

Example mon_wait_status_nonvacuous :
  run (init_of ex_cfg) ex_tr_wait_stop <> None /\
  wait_causes (concat (obs_of ex_cfg ex_tr_wait_stop)) = [SCStop] /\
  mon_wait_status (env_of ex_tr_wait_stop) (concat (obs_of ex_cfg ex_tr_wait_stop)) = true /\
  run (init_of ex_cfg) ex_tr_wait_eof <> None /\
  wait_causes (concat (obs_of ex_cfg ex_tr_wait_eof)) = [SCEOF] /\
  mon_wait_status (env_of ex_tr_wait_eof) (concat (obs_of ex_cfg ex_tr_wait_eof)) = true.
Proof. vm_compute. repeat split; auto; discriminate. Qed.

(* sensitivity: Stopped without a Stop call; Closed without a fed EOF; a failure without a fed error; two returns
   for one call; each is fine with its cause present *)
Example mon_wait_status_sensitive :
  mon_wait_status [LStart; LCallWait; LFeed (FErr SCEOF)] [OWaitRet (Some SCStop)] = false /\
  mon_wait_status [LStart; LCallWait; LCallStop 0] [OWaitRet (Some SCEOF)] = false /\
  mon_wait_status [LStart; LCallWait; LCallStop 0; LFeed (FErr SCEOF)] [OWaitRet (Some SCOther)] = false /\
  mon_wait_status [LStart; LCallWait; LCallStop 0] [OWaitRet (Some SCStop); OWaitRet (Some SCStop)] = false /\
  mon_wait_status [LStart; LCallWait; LCallStop 0] [OClose; OWaitRet (Some SCStop)] = true /\
  mon_wait_status [LStart; LCallWait; LFeed (FErr SCClosing)] [OWaitRet (Some SCEOF)] = true /\
  mon_wait_status [LStart; LCallWait; LFeed (FErr SCOther)] [OWaitRet (Some SCOther)] = true /\
  mon_wait_status [LCallWait] [OWaitRet None] = true.
Proof. vm_compute. repeat split; reflexivity. Qed.
