(* C10 (server half): one Close per Start, every channel operation inside one critical
   section, whole messages only.  Proofs about SrvModel; restated in props/C10.v. *)
From Coq Require Import List NArith ZArith Bool Arith Lia.
From RecordUpdate Require Import RecordUpdate.
From JV Require Import Bytes Msg SrvModel SrvLemmas SrvC09.
Import ListNotations.

Definition is_close (o : obs) : bool := match o with OClose => true | _ => false end.
Definition is_chan_op (o : obs) : bool := match o with OSend _ _ _ | OSendReq _ _ _ _ | OClose => true | _ => false end.

(** * Which label performs which channel operation *)
(* the channel operations among the observations of one critical section *)
Inductive chan_ops_of : label -> state -> list obs -> Prop :=
| co_none l s : chan_ops_of l s []
| co_read_close s : running s = true -> chan_ops_of LRelRead s [OClose]
| co_read_error s code msg :
    chan_ops_of LRelRead s [OSend (running s && negb (send_fail s)) false [{| r_id := null_bytes; r_body := BErr code msg |}]]
| co_deliver s u un :
    nth_error (units s) u = Some un -> u_st un = UAtDeliver ->
    chan_ops_of (LRelDeliver u) s
      [OSend (running s && negb (send_fail s)) (u_batch un) (responses (unit_tasks s u))]
| co_stop s n : running s = true -> chan_ops_of (LRelStop n) s [OClose]
| co_push s n w m p :
    running s = true -> In (OpPush n w m p) (ops s) ->
    chan_ops_of (LRelPush n) s [OSendReq (negb (send_fail s)) (if w then dec_of_nat (call_id s) else []) m p].

Lemma filter_chan_no_ret os : Forall (fun o => match o with ORet _ _ | OCrash _ | OStart _ _ | OGate _ _ | OWaitRet _ => True | _ => False end) os ->
  filter is_chan_op os = [].
Proof. induction 1 as [|o l H _ IH]; cbn; auto. destruct o; cbn in *; auto; tauto. Qed.

Lemma stop_locked_ops sc s s' os :
  stop_locked sc s = (s', os) -> (os = [] /\ s' = s) \/ (os = [OClose] /\ running s = true /\ running s' = false).
Proof.
  intros H. apply stop_locked_spec in H as [(_ & -> & ->)|(R & -> & R' & _)]; auto.
Qed.

Lemma filter_batch_obs_ret : forall ms s keep acc s' keep' acc',
  filter_batch ms s keep acc = (s', keep', acc') -> exists extra, acc' = acc ++ extra /\ Forall is_ret extra.
Proof.
  induction ms as [|m r IH]; intros s keep acc s' keep' acc' E; cbn [filter_batch] in E.
  - injection E as <- <- <-. exists []. rewrite app_nil_r. auto.
  - destruct (is_req_or_notif m); [eauto|].
    destruct (assoc (fix_id (j_id m)) (calls s)) as [i|].
    + destruct (complete_cb i _ s) as [s1 os1] eqn:C.
      destruct (IH _ _ _ _ _ _ E) as (ex & -> & F). exists (os1 ++ ex). rewrite app_assoc. split; auto.
      apply Forall_app; split; auto.
      unfold complete_cb in C. destruct (nth_error (cbs s) i) as [c|]; [|injection C as <- <-; auto].
      destruct (cb_ret c); injection C as <- <-; repeat constructor.
    + destruct (c_push s && is_nil (j_method m) && has_reply_fields m); eauto.
Qed.

Lemma release_ids_fields ts s :
  running (release_ids ts s) = running s /\ send_fail (release_ids ts s) = send_fail s.
Proof.
  pose proof (release_ids_pv ts s) as P. apply pv_fields in P. tauto.
Qed.

Lemma raw_chan_ops s l s' os :
  step_raw s l = Some (s', os) -> chan_ops_of l s (filter is_chan_op os).
Proof.
  intros H. destruct l; cbn [step_raw] in H.
  - destruct (negb (running s) && (wg s =? 0)); [|discriminate]. injection H as <- <-. constructor.
  - injection H as <- <-. constructor.
  - injection H as <- <-. constructor.
  - destruct (find_idx _ 0 (tasks s)) as [k|]; [|discriminate].
    destruct (nth_error (tasks s) k); [|discriminate]. injection H as <- <-. constructor.
  - injection H as <- <-. constructor.
  - injection H as <- <-. constructor.
  - destruct (c_push s); injection H as <- <-; constructor.
  - injection H as <- <-. constructor.
  - destruct (find_idx _ 0 (cbs s)); injection H as <- <-; constructor.
  - (* LRelRead *)
    destruct (rd s) as [| |f|]; try discriminate. injection H as H. unfold read_cs in H.
    destruct f as [i|i|sc].
    1,2: destruct (negb (running s)); [injection H as <- <-; constructor|];
         destruct i as [|b ms]; [cbn in H; injection H as <- <-; apply co_read_error|];
         destruct ms as [|m0 ms0]; [cbn in H; injection H as <- <-; apply co_read_error|];
         destruct (filter_batch (m0 :: ms0) s [] []) as [[s1 keep] os1] eqn:FB;
         destruct (filter_batch_obs_ret _ _ _ _ _ _ _ FB) as (ex & -> & F); cbn [app] in *;
         assert (Z : filter is_chan_op ex = []) by
           (apply filter_chan_no_ret; eapply Forall_impl; [|exact F]; intros []; cbn; tauto);
         destruct keep; [injection H as <- <-; rewrite Z; constructor|];
         match type of H with (if ?b then _ else _) = _ => destruct b end; injection H as <- <-;
         rewrite ?filter_app, Z; constructor.
    destruct (stop_locked sc s) as [s2 os2] eqn:SL. injection H as <- <-.
    apply stop_locked_ops in SL as [(-> & _)|(-> & R & _)]; [constructor|apply co_read_close; auto].
  - destruct (dp s); try discriminate. injection H as <- <-. constructor.
  - destruct (dp s); try discriminate. injection H as <- <-. constructor.
  - (* LRelAcquire *)
    destruct (nth_error (tasks s) k) as [t|]; [|discriminate].
    destruct (t_st t); try discriminate.
    destruct (negb (unit_running s t)); [discriminate|].
    destruct (t_cancelled t); [injection H as <- <-; constructor|].
    destruct (sem_free s) as [|fr]; [injection H as <- <-; constructor|].
    destruct (sem_wait s); [|injection H as <- <-; constructor].
    destruct (t_builtin t); injection H as <- <-; constructor.
  - (* LRelHandled *)
    destruct (nth_error (tasks s) k) as [t|]; [|discriminate].
    destruct (t_st t); try discriminate.
    match type of H with context [grant ?f ?s1 []] => destruct (grant f s1 []) as [s2 os2] eqn:G end.
    destruct (grant_obs _ _ _ _ _ G) as (ex & -> & F). cbn [app] in *.
    assert (Z : filter is_chan_op ex = []).
    { apply filter_chan_no_ret. eapply Forall_impl; [|exact F]. intros []; cbn; tauto. }
    destruct (is_note t).
    + destruct (nbar s2); injection H as <- <-; rewrite ?filter_app, Z; constructor.
    + injection H as <- <-. rewrite Z. constructor.
  - (* LRelDeliver *)
    destruct (nth_error (units s) u) as [un|] eqn:U; [|discriminate].
    destruct (u_st un) eqn:St; try discriminate.
    destruct (release_ids_fields (unit_tasks s u) s) as [E1 E2].
    destruct (negb (u_chok un)); injection H as <- <-; cbn; [constructor|].
    rewrite E1, E2. eapply co_deliver; eauto.
  - (* LRelStop *)
    destruct (find_op n (ops s)) as [[| |]|]; try discriminate.
    destruct (stop_locked SCStop _) as [s2 os2] eqn:SL. injection H as <- <-.
    apply stop_locked_ops in SL as [(-> & _)|(-> & R & _)]; cbn; [constructor|apply co_stop; auto].
  - destruct (find_op n (ops s)) as [[| |]|]; try discriminate. injection H as <- <-. constructor.
  - (* LRelPush *)
    destruct (running s) eqn:Run.
    + destruct (push_one_request_raw _ _ _ _ H Run) as (w & m & p & _ & I & -> & _).
      cbn. destruct (w && negb (send_fail s)); cbn; eapply co_push; eauto.
    + destruct (gate_conn_closed _ _ _ _ Run H) as [_ ->]. constructor.
  - (* LRelCbWatch *)
    destruct (nth_error (cbs s) c) as [cb0|] eqn:N; [|discriminate].
    destruct (cb_watch cb0); try discriminate.
    assert (F : Forall is_ret os).
    { destruct (assoc _ _); [|injection H as <- <-; constructor].
      destruct (cb_slot cb0); [injection H as <- <-; constructor|].
      destruct (_ =? _); [|injection H as <- <-; constructor].
      assert (E : exists v s1, complete_cb c v s1 = (s', os)) by (destruct (cb_ctx cb0) as [[|]|]; injection H as H; eauto).
      destruct E as (v & s1 & E). unfold complete_cb in E.
      destruct (nth_error (cbs s1) c) as [c1|]; [|injection E as <- <-; constructor].
      destruct (cb_ret c1); injection E as <- <-; repeat constructor. }
    rewrite filter_chan_no_ret; [constructor|]. eapply Forall_impl; [|exact F]. intros []; cbn; tauto.
Qed.

Lemma chan_ops_at_most_one l s os : chan_ops_of l s os -> length os <= 1.
Proof. destruct 1; cbn; lia. Qed.

Lemma settle_obs_no_chan extra : Forall settle_obs extra -> filter is_chan_op extra = [].
Proof. induction 1 as [|o l H _ IH]; cbn; auto. destruct o; cbn in *; auto; tauto. Qed.

(* C10.B2: every Send / Close of a window is made by its critical section (never by a wake-up),
   there is at most one per window, and only the four labels below make one *)
Lemma sends_in_critical_sections s l s' os :
  step s l = Some (s', os) ->
  exists s1 os1, step_raw s l = Some (s1, os1) /\
    filter is_chan_op os = filter is_chan_op os1 /\ chan_ops_of l s (filter is_chan_op os) /\
    length (filter is_chan_op os) <= 1.
Proof.
  intros H. apply step_obs_raw in H as (_ & s1 & os1 & ex & Raw & -> & Fx & _).
  exists s1, os1. split; auto.
  rewrite filter_app, (settle_obs_no_chan _ Fx), app_nil_r.
  pose proof (raw_chan_ops _ _ _ _ Raw) as C. repeat split; auto.
  eapply chan_ops_at_most_one; eauto.
Qed.

Lemma chan_op_labels l s os : chan_ops_of l s os -> os <> [] ->
  l = LRelRead \/ (exists u, l = LRelDeliver u) \/ (exists n, l = LRelStop n) \/ (exists n, l = LRelPush n).
Proof. destruct 1; intros N; eauto; congruence. Qed.

(** * C10.B1 exactly one Close per Start *)
Definition rcs (s : state) := (running s, closes s, starts s).

(* how a critical section changes (running, closes, starts), and whether it closes the channel *)
Inductive close_step (s s' : state) (os : list obs) (l : label) : Prop :=
| cs_same : rcs s' = rcs s -> countb is_close os = 0 -> close_step s s' os l
| cs_start : l = LStart -> running s = false -> running s' = true -> closes s' = closes s -> starts s' = S (starts s) ->
    countb is_close os = 0 -> close_step s s' os l
| cs_close : running s = true -> running s' = false -> closes s' = S (closes s) -> starts s' = starts s ->
    countb is_close os = 1 -> close_step s s' os l.

Lemma countb_close_ret os : Forall (fun o => o <> OClose) os -> countb is_close os = 0.
Proof. induction 1 as [|o l H _ IH]; cbn; auto. destruct o; cbn; auto. congruence. Qed.

Lemma stop_locked_close sc s s' os l : stop_locked sc s = (s', os) -> close_step s s' os l.
Proof.
  intros H. apply stop_locked_spec in H as [(_ & -> & ->)|(R & -> & R' & C & S & _)].
  - apply cs_same; auto.
  - apply cs_close; auto.
Qed.

Lemma close_step_frame s s0 s1 s' os os' l :
  rcs s0 = rcs s -> rcs s' = rcs s1 -> countb is_close os' = countb is_close os ->
  close_step s0 s1 os l -> close_step s s' os' l.
Proof.
  unfold rcs. intros E0 E1 Ec H. injection E0 as A1 A2 A3. injection E1 as B1 B2 B3.
  destruct H as [H C|L R R' C S Z|R R' C S Z].
  - apply cs_same; [unfold rcs in *; congruence|congruence].
  - apply cs_start; congruence.
  - apply cs_close; congruence.
Qed.

Lemma sbc_rcs s s' : same_but_cb s s' -> rcs s' = rcs s.
Proof. intros H. apply sbc_fields in H. unfold rcs. destruct H as (_ & -> & -> & -> & _). reflexivity. Qed.

Lemma pv_rcs s s' : pv s' = pv s -> rcs s' = rcs s.
Proof. intros H. apply pv_fields in H. unfold rcs. destruct H as (_ & -> & -> & -> & _). reflexivity. Qed.

Lemma chan_ops_close_count os : countb is_close os = countb is_close (filter is_chan_op os).
Proof. induction os as [|o l IH]; cbn; auto. destruct o; cbn; auto. Qed.

Lemma raw_close_step s l s' os : step_raw s l = Some (s', os) -> close_step s s' os l.
Proof.
  intros H.
  destruct (neutral l) eqn:Neu.
  { pose proof (raw_chan_ops _ _ _ _ H) as C. apply step_raw_neutral in H as [P _]; auto.
    apply cs_same; [apply pv_rcs; auto|]. rewrite chan_ops_close_count.
    destruct C; cbn; auto; discriminate Neu. }
  destruct l; try discriminate Neu; cbn [step_raw] in H.
  - destruct (running s) eqn:R; cbn in H; [discriminate|].
    destruct (wg s =? 0); [|discriminate]. injection H as <- <-. apply cs_start; auto.
  - injection H as <- <-. apply cs_same; auto.
  - injection H as <- <-. apply cs_same; auto.
  - injection H as <- <-. apply cs_same; auto.
  - destruct (c_push s); injection H as <- <-; apply cs_same; auto.
  - destruct (find_idx _ 0 (cbs s)); injection H as <- <-; apply cs_same; auto.
  - (* LRelRead *)
    destruct (rd s) as [| |f|]; try discriminate. injection H as H. unfold read_cs in H.
    destruct f as [i|i|sc].
    1,2: destruct (negb (running s)); [injection H as <- <-; apply cs_same; auto|];
         destruct i as [|b ms]; [cbn in H; injection H as <- <-; apply cs_same; auto|];
         destruct ms as [|m0 ms0]; [cbn in H; injection H as <- <-; apply cs_same; auto|];
         pose proof (filter_batch_sbc (m0 :: ms0) s [] []) as SB;
         destruct (filter_batch (m0 :: ms0) s [] []) as [[s1 keep] os1] eqn:FB; cbn [fst] in SB;
         apply sbc_rcs in SB;
         destruct (filter_batch_obs_ret _ _ _ _ _ _ _ FB) as (ex & -> & F); cbn [app] in *;
         assert (Z : countb is_close ex = 0) by
           (apply countb_close_ret; eapply Forall_impl; [|exact F]; intros [] Hr; cbn in Hr; try tauto; discriminate);
         destruct keep; [injection H as <- <-; apply cs_same; auto|];
         match type of H with (if ?b then _ else _) = _ => destruct b end; injection H as <- <-;
         (apply cs_same; [exact SB|rewrite ?countb_app, Z; reflexivity]).
    destruct (stop_locked sc s) as [s2 os2] eqn:SL. injection H as <- <-.
    eapply close_step_frame; [reflexivity| |reflexivity|eapply stop_locked_close; eauto]. reflexivity.
  - (* LRelStop *)
    destruct (find_op n (ops s)) as [[| |]|]; try discriminate.
    destruct (stop_locked SCStop _) as [s2 os2] eqn:SL. injection H as <- <-.
    eapply close_step_frame; [| | |eapply stop_locked_close; eauto]; try reflexivity.
    rewrite countb_app. cbn. lia.
  - (* LRelCancel *)
    destruct (find_op n (ops s)) as [[| |]|]; try discriminate. cbn in H.
    destruct (assoc id (used s)); injection H as <- <-; apply cs_same; auto.
    transitivity (rcs (s <| ops ::= del_op n |>)); [apply pv_rcs, cancel_task_pv|reflexivity].
  - (* LRelPush *)
    destruct (find_op n (ops s)) as [[| |n' w m p]|]; try discriminate. cbn in H.
    destruct (running s) eqn:Run; cbn in H; [|injection H as <- <-; apply cs_same; auto; unfold rcs; cbn; congruence].
    destruct w; [destruct (send_fail s)|]; injection H as <- <-; apply cs_same; auto; unfold rcs; cbn; congruence.
  - (* LRelCbWatch *)
    destruct (nth_error (cbs s) c) as [cb0|] eqn:N; [|discriminate].
    destruct (cb_watch cb0); try discriminate.
    destruct (assoc _ _); [|injection H as <- <-; apply cs_same; auto].
    destruct (cb_slot cb0); [injection H as <- <-; apply cs_same; auto|].
    destruct (_ =? _); [|injection H as <- <-; apply cs_same; auto].
    assert (E : exists v s1, rcs s1 = rcs s /\ complete_cb c v s1 = (s', os)).
    { destruct (cb_ctx cb0) as [[|]|]; injection H as H; eexists; eexists; (split; [|exact H]); reflexivity. }
    destruct E as (v & s1 & E1 & E).
    pose proof (complete_cb_sbc c v s1) as SB.
    rewrite E in SB. cbn [fst] in SB. apply sbc_rcs in SB.
    apply cs_same; [congruence|].
    unfold complete_cb in E. destruct (nth_error (cbs s1) c) as [c1|]; [|injection E as <- <-; auto].
    destruct (cb_ret c1); injection E as <- <-; auto.
Qed.

Lemma settle_obs_no_close extra : Forall settle_obs extra -> countb is_close extra = 0.
Proof. induction 1 as [|o l H _ IH]; cbn; auto. destruct o; cbn in *; auto; tauto. Qed.

Lemma step_close_step s l s' os : step s l = Some (s', os) -> close_step s s' os l.
Proof.
  intros H. apply step_obs_raw in H as (_ & s1 & os1 & ex & Raw & -> & Fx & P).
  eapply close_step_frame; [reflexivity|apply pv_rcs; exact P| |apply raw_close_step; exact Raw].
  rewrite countb_app, (settle_obs_no_close _ Fx). lia.
Qed.

Definition close_balance (s : state) : Prop := closes s + (if running s then 1 else 0) = starts s.

Lemma close_step_balance s s' os l : close_step s s' os l -> close_balance s -> close_balance s'.
Proof.
  unfold close_balance, rcs. intros [H _|_ R R' C S _|R R' C S _] B.
  - injection H as -> -> ->. auto.
  - rewrite R in B. rewrite R', C, S. lia.
  - rewrite R in B. rewrite R', C, S. lia.
Qed.

Lemma close_once_reach c s : reach c s -> close_balance s.
Proof.
  induction 1 as [|s l s' os R IH H].
  - reflexivity.
  - eapply close_step_balance; [eapply step_close_step; eauto|auto].
Qed.

(* Close is observed exactly in the windows in which [running] goes from true to false, once *)
Lemma close_only_when_stopping s l s' os :
  step s l = Some (s', os) ->
  (countb is_close os = 1 /\ running s = true /\ running s' = false /\ closes s' = S (closes s)) \/
  (countb is_close os = 0 /\ closes s' = closes s /\ (running s = true -> running s' = true)).
Proof.
  intros H. apply step_close_step in H. destruct H as [H Z|_ R R' C S Z|R R' C S Z].
  - right. unfold rcs in H. injection H as -> -> _. auto.
  - right. repeat split; auto.
  - left. auto.
Qed.

(* over a whole run: the number of OClose observations equals the number of completed
   Start/stop cycles, [closes] counts them, and a quiescent stopped server has closed
   exactly as often as it was started *)
Fixpoint count_close (oss : list (list obs)) : nat :=
  match oss with [] => 0 | os :: r => countb is_close os + count_close r end.

Lemma run_close_count : forall tr s s' oss, run s tr = Some (s', oss) -> closes s' = closes s + count_close oss.
Proof.
  induction tr as [|l r IH]; cbn; intros s s' oss H.
  - injection H as <- <-. cbn. lia.
  - destruct (step s l) as [[s1 os]|] eqn:E; [|discriminate].
    destruct (run s1 r) as [[s2 oss2]|] eqn:E2; [|discriminate].
    injection H as <- <-. rewrite (IH _ _ _ E2). cbn.
    destruct (close_only_when_stopping _ _ _ _ E) as [(-> & _ & _ & ->)|(-> & -> & _)]; lia.
Qed.

Lemma close_once_trace c tr s oss :
  run (init_of c) tr = Some (s, oss) -> count_close oss + (if running s then 1 else 0) = starts s.
Proof.
  intros H. pose proof (run_close_count _ _ _ _ H) as E. cbn in E.
  pose proof (close_once_reach c s (run_reach c tr _ _ _ (reach_init c) H)) as B.
  unfold close_balance in B. lia.
Qed.

Example close_once_nonvacuous :
  exists s oss, run (init_of cfg_push) [LStart; LCallStop 1; LRelStop 1; LRelNext; LFeed (FErr SCClosing); LRelRead;
                              LStart; LFeed (FErr SCEOF); LRelRead] = Some (s, oss) /\
    starts s = 2 /\ running s = false /\ count_close oss = 2 /\ closes s = 2.
Proof. eexists. eexists. split; [vm_compute; reflexivity|]. vm_compute. auto. Qed.

(** * C10.B3 whole messages: a response record is never empty *)
Definition has_resp (t : task) : bool := match response_of t with Some _ => true | None => false end.
Definition shape (t : task) : nat * bytes * option (Z * bytes) := (t_unit t, t_id t, t_pre t).
Definition hr (x : nat * bytes * option (Z * bytes)) : bool :=
  let '(_, id, pre) := x in
  if is_nil id then match pre with Some (c, _) => (c =? ParseError)%Z || (c =? InvalidRequest)%Z | None => false end
  else true.
Definition ushape (u : nat) (sh : list (nat * bytes * option (Z * bytes))) : bool :=
  existsb (fun x => (fst (fst x) =? u) && hr x) sh.

Lemma has_resp_shape t : has_resp t = hr (shape t).
Proof.
  unfold has_resp, response_of, is_note, shape, hr.
  destruct (is_nil (t_id t)); auto. destruct (t_pre t) as [[c m]|]; auto.
  destruct ((c =? ParseError)%Z || (c =? InvalidRequest)%Z); auto.
Qed.

Lemma responses_nonempty ts : responses ts <> [] <-> existsb has_resp ts = true.
Proof.
  induction ts as [|t r IH]; cbn; [split; [congruence|discriminate]|].
  unfold has_resp at 1. destruct (response_of t); cbn; [split; [auto|discriminate]|exact IH].
Qed.

Lemma existsb_filter {A} (p q : A -> bool) l : existsb p (filter q l) = existsb (fun x => q x && p x) l.
Proof. induction l as [|x l IH]; cbn; auto. destruct (q x); cbn; rewrite IH; auto. Qed.

Lemma existsb_map {A B} (h : A -> B) (p : B -> bool) l : existsb p (map h l) = existsb (fun x => p (h x)) l.
Proof. induction l as [|x l IH]; cbn; auto. rewrite IH; auto. Qed.

Lemma unit_resp_shape s u : existsb has_resp (unit_tasks s u) = ushape u (map shape (tasks s)).
Proof.
  unfold unit_tasks, ushape. rewrite existsb_filter, existsb_map.
  apply existsb_ext_in || idtac.
  induction (tasks s) as [|t r IH]; cbn; auto. rewrite IH, has_resp_shape. reflexivity.
Qed.

Definition inv_deliver (s : state) : Prop :=
  forall u un, nth_error (units s) u = Some un -> u_st un = UAtDeliver -> ushape u (map shape (tasks s)) = true.

(* tasks keep their unit, id and pre-error and are only ever appended; no unit becomes UAtDeliver *)
Definition tu_ext (s s' : state) : Prop :=
  (exists extra, map shape (tasks s') = map shape (tasks s) ++ extra) /\
  (forall u un', nth_error (units s') u = Some un' -> u_st un' = UAtDeliver ->
     exists un, nth_error (units s) u = Some un /\ u_st un = UAtDeliver).

Lemma tu_ext_inv s s' : tu_ext s s' -> inv_deliver s -> inv_deliver s'.
Proof.
  intros [(ex & E) U] I u un' N St. destruct (U _ _ N St) as (un & N0 & St0).
  unfold ushape. rewrite E, existsb_app. apply orb_true_iff. left. apply (I _ _ N0 St0).
Qed.

Lemma tu_ext_refl s : tu_ext s s.
Proof. split; [exists []; rewrite app_nil_r; auto|eauto]. Qed.

Lemma tu_ext_trans s1 s2 s3 : tu_ext s1 s2 -> tu_ext s2 s3 -> tu_ext s1 s3.
Proof.
  intros [(e1 & E1) U1] [(e2 & E2) U2]. split.
  - exists (e1 ++ e2). rewrite E2, E1, app_assoc. auto.
  - intros u un N St. destruct (U2 _ _ N St) as (un2 & N2 & St2). eauto.
Qed.

Lemma tu_ext_same s s' : tasks s' = tasks s -> units s' = units s -> tu_ext s s'.
Proof. intros E1 E2. split; rewrite ?E1, ?E2; [exists []; rewrite app_nil_r; auto|eauto]. Qed.

Lemma tu_ext_upd s s' k f :
  tasks s' = upd_nth k f (tasks s) -> units s' = units s -> (forall t, shape (f t) = shape t) -> tu_ext s s'.
Proof.
  intros E1 E2 F. split; rewrite ?E1, ?E2; [|eauto].
  exists []. rewrite app_nil_r. apply map_upd_nth_same; auto.
Qed.

Lemma cancel_task_tu k s : tu_ext s (cancel_task k s).
Proof.
  unfold cancel_task. destruct (nth_error (tasks s) k) as [t|]; [|apply tu_ext_refl].
  assert (A : tu_ext s (s <| tasks ::= upd_nth k (fun t => t <| t_cancelled := true |>) |>)).
  { eapply tu_ext_upd; try reflexivity. }
  destruct (t_st t); auto.
  eapply tu_ext_trans; [exact A|]. eapply tu_ext_upd; try reflexivity.
Qed.

Lemma grant_tu : forall fuel s acc s' os, grant fuel s acc = (s', os) -> tu_ext s s'.
Proof.
  induction fuel as [|f IH]; cbn; intros s acc s' os H.
  - injection H as <- <-; apply tu_ext_refl.
  - destruct (sem_wait s) as [|k r]; [injection H as <- <-; apply tu_ext_refl|].
    destruct (sem_free s) as [|fr]; [injection H as <- <-; apply tu_ext_refl|].
    destruct (nth_error (tasks s) k) as [t|]; [|injection H as <- <-; apply tu_ext_refl].
    destruct (t_builtin t); apply IH in H; (eapply tu_ext_trans; [|exact H]); eapply tu_ext_upd; reflexivity.
Qed.

Lemma release_ids_tu : forall ts s, tu_ext s (release_ids ts s).
Proof.
  induction ts as [|t r IH]; cbn; intros s; [apply tu_ext_refl|].
  eapply tu_ext_trans; [|apply IH].
  destruct (t_hasctx t && negb (is_note t)); [|apply tu_ext_refl].
  destruct (assoc (t_id t) (used s)); [|apply tu_ext_refl].
  eapply tu_ext_trans; [apply cancel_task_tu|]. apply tu_ext_same; reflexivity.
Qed.

Lemma fold_cancel_tu : forall (l : list (bytes * nat)) s, tu_ext s (fold_left (fun st p => cancel_task (snd p) st) l s).
Proof.
  induction l as [|p l IH]; cbn; intros s; [apply tu_ext_refl|].
  eapply tu_ext_trans; [apply cancel_task_tu|apply IH].
Qed.

Lemma dequeue_tu s : tu_ext s (dequeue s).
Proof.
  unfold dequeue. destruct (inq s) as [|[b ms] q].
  - destruct (running s); apply tu_ext_same; reflexivity.
  - split; cbn.
    + rewrite map_app. eauto.
    + intros u un' N St. apply nth_error_snoc in N as [N|[_ ->]]; [eauto|discriminate St].
Qed.

Lemma set_unit_tu i st s s' :
  tasks s' = tasks s -> units s' = upd_nth i (fun x => x <| u_st := st |>) (units s) -> st <> UAtDeliver -> tu_ext s s'.
Proof.
  intros E1 E2 Ne. split; rewrite ?E1, ?E2; [exists []; rewrite app_nil_r; auto|].
  intros u un' N St. rewrite nth_error_upd_nth in N. destruct (i =? u); [|eauto].
  destruct (nth_error (units s) u); cbn in N; [|discriminate]. injection N as <-. cbn in St. congruence.
Qed.

Lemma stop_locked_tu sc s : tu_ext s (fst (stop_locked sc s)).
Proof.
  unfold stop_locked. destruct (negb (running s)); cbn [fst]; [apply tu_ext_refl|].
  match goal with |- context [fold_left ?f ?l ?s3] =>
    pose proof (fold_cancel_tu l s3) as P; remember (fold_left f l s3) as s4 eqn:E4; clear E4 end.
  assert (A : tu_ext s s4).
  { eapply tu_ext_trans; [|exact P]. destruct (work_closed _); apply tu_ext_same; reflexivity. }
  destruct (c_unblock _); (eapply tu_ext_trans; [exact A|apply tu_ext_same; reflexivity]).
Qed.

Lemma sbc_tu s s' : same_but_cb s s' -> tu_ext s s'.
Proof. intros H. apply sbc_fields in H. apply tu_ext_same; tauto. Qed.

Lemma read_cs_tu f s : tu_ext s (fst (read_cs f s)).
Proof.
  destruct (read_cs f s) as [s' os] eqn:E. cbn [fst]. unfold read_cs in E.
  destruct f as [i|i|sc].
  1,2: destruct (negb (running s)); [injection E as <- <-; apply tu_ext_same; reflexivity|];
       destruct i as [|b ms]; [cbn in E; injection E as <- <-; apply tu_ext_same; reflexivity|];
       destruct ms as [|m0 ms0]; [cbn in E; injection E as <- <-; apply tu_ext_same; reflexivity|];
       pose proof (filter_batch_sbc (m0 :: ms0) s [] []) as SB;
       destruct (filter_batch (m0 :: ms0) s [] []) as [[s1 keep] os1]; cbn [fst] in SB; apply sbc_tu in SB;
       destruct keep; [injection E as <- <-; (eapply tu_ext_trans; [exact SB|apply tu_ext_same; reflexivity])|];
       match type of E with (if ?b then _ else _) = _ => destruct b end; injection E as <- <-;
       (eapply tu_ext_trans; [exact SB|apply tu_ext_same; reflexivity]).
  pose proof (stop_locked_tu sc s) as P. destruct (stop_locked sc s) as [s2 os2]. cbn [fst] in P.
  injection E as <- <-. eapply tu_ext_trans; [exact P|apply tu_ext_same; reflexivity].
Qed.

Lemma raw_tu s l s' os : step_raw s l = Some (s', os) -> tu_ext s s'.
Proof.
  intros H. destruct l; cbn [step_raw] in H.
  - destruct (negb (running s) && (wg s =? 0)); [|discriminate]. injection H as <- <-. apply tu_ext_same; reflexivity.
  - injection H as <- <-. apply tu_ext_same; reflexivity.
  - injection H as <- <-. apply tu_ext_same; reflexivity.
  - destruct (find_idx _ 0 (tasks s)) as [k|]; [|discriminate].
    destruct (nth_error (tasks s) k); [|discriminate]. injection H as <- <-.
    eapply tu_ext_upd; reflexivity.
  - injection H as <- <-. apply tu_ext_same; reflexivity.
  - injection H as <- <-. apply tu_ext_same; reflexivity.
  - destruct (c_push s); injection H as <- <-; apply tu_ext_same; reflexivity.
  - injection H as <- <-. apply tu_ext_same; reflexivity.
  - destruct (find_idx _ 0 (cbs s)); injection H as <- <-; apply tu_ext_same; reflexivity.
  - destruct (rd s) as [| |f|]; try discriminate. injection H as H.
    pose proof (read_cs_tu f s) as P. rewrite H in P. exact P.
  - destruct (dp s); try discriminate. injection H as <- <-. apply dequeue_tu.
  - destruct (dp s); try discriminate. injection H as <- <-. apply tu_ext_same; reflexivity.
  - destruct (nth_error (tasks s) k) as [t|]; [|discriminate].
    destruct (t_st t); try discriminate.
    destruct (negb (unit_running s t)); [discriminate|].
    destruct (t_cancelled t); [injection H as <- <-; eapply tu_ext_upd; reflexivity|].
    destruct (sem_free s) as [|fr]; [injection H as <- <-; eapply tu_ext_upd; reflexivity|].
    destruct (sem_wait s); [|injection H as <- <-; eapply tu_ext_upd; reflexivity].
    destruct (t_builtin t); injection H as <- <-; eapply tu_ext_upd; reflexivity.
  - destruct (nth_error (tasks s) k) as [t|]; [|discriminate].
    destruct (t_st t); try discriminate.
    match type of H with context [grant ?f ?s1 []] => destruct (grant f s1 []) as [s2 os2] eqn:G end.
    apply grant_tu in G.
    assert (A : tu_ext s s2) by (eapply tu_ext_trans; [|exact G]; eapply tu_ext_upd; reflexivity).
    destruct (is_note t); [destruct (nbar s2)|]; injection H as <- <-; auto;
      (eapply tu_ext_trans; [exact A|apply tu_ext_same; reflexivity]).
  - destruct (nth_error (units s) u) as [un|] eqn:U; [|discriminate].
    destruct (u_st un) eqn:St; try discriminate.
    pose proof (release_ids_tu (unit_tasks s u) s) as P.
    destruct (negb (u_chok un)); injection H as <- <-; (eapply tu_ext_trans; [exact P|]).
    + apply tu_ext_same; reflexivity.
    + eapply set_unit_tu with (i := u) (st := UFinished); try reflexivity. discriminate.
  - destruct (find_op n (ops s)) as [[| |]|]; try discriminate.
    pose proof (stop_locked_tu SCStop (s <| ops ::= del_op n |>)) as P.
    destruct (stop_locked SCStop _) as [s2 os2]. injection H as <- <-.
    eapply tu_ext_trans; [|exact P]. apply tu_ext_same; reflexivity.
  - destruct (find_op n (ops s)) as [[| |]|]; try discriminate. cbn in H.
    destruct (assoc id (used s)); injection H as <- <-; [|apply tu_ext_same; reflexivity].
    eapply tu_ext_trans; [|apply cancel_task_tu]. apply tu_ext_same; reflexivity.
  - destruct (find_op n (ops s)) as [[| |n' w m p]|]; try discriminate. cbn in H.
    destruct (running s); cbn in H; [|injection H as <- <-; apply tu_ext_same; reflexivity].
    destruct w; [destruct (send_fail s)|]; injection H as <- <-; apply tu_ext_same; reflexivity.
  - destruct (nth_error (cbs s) c) as [cb0|] eqn:N; [|discriminate].
    destruct (cb_watch cb0); try discriminate.
    destruct (assoc _ _); [|injection H as <- <-; apply tu_ext_same; reflexivity].
    destruct (cb_slot cb0); [injection H as <- <-; apply tu_ext_same; reflexivity|].
    destruct (_ =? _); [|injection H as <- <-; apply tu_ext_same; reflexivity].
    assert (E : exists v s1, tu_ext s s1 /\ complete_cb c v s1 = (s', os)).
    { destruct (cb_ctx cb0) as [[|]|]; injection H as H; eexists; eexists; (split; [|exact H]); apply tu_ext_same; reflexivity. }
    destruct E as (v & s1 & E1 & E).
    pose proof (complete_cb_sbc c v s1) as SB. rewrite E in SB. cbn [fst] in SB.
    eapply tu_ext_trans; [exact E1|apply sbc_tu; exact SB].
Qed.

Lemma inv_deliver_reachf c s : reachf c s -> inv_deliver s.
Proof.
  induction 1 as [|s l s' os R IH C H|s s' os R IH H].
  - intros [|u] un N; discriminate.
  - eapply tu_ext_inv; [eapply raw_tu; eauto|auto].
  - apply settle1_inv in H. destruct H.
    + eapply tu_ext_inv; [|exact IH]. apply tu_ext_same; reflexivity.
    + eapply tu_ext_inv; [|exact IH]. apply dequeue_tu.
    + eapply tu_ext_inv; [|exact IH]. eapply set_unit_tu with (i := u) (st := URunning); try reflexivity. discriminate.
    + eapply tu_ext_inv; [|exact IH]. eapply set_unit_tu with (i := i) (st := UFinished); try reflexivity. discriminate.
    + (* the one place a unit becomes UAtDeliver: its responses are non-empty *)
      intros u un' N St.
      change (ushape u (map shape (tasks s)) = true).
      change (nth_error (upd_nth i (fun x => x <| u_st := UAtDeliver |>) (units s)) u = Some un') in N.
      rewrite nth_error_upd_nth in N. destruct (Nat.eqb_spec i u) as [->|Ne].
      * rewrite <- unit_resp_shape. apply responses_nonempty. auto.
      * eapply IH; eauto.
    + eapply tu_ext_inv; [|exact IH]. apply tu_ext_same; reflexivity.
    + eapply tu_ext_inv; [|exact IH]. apply tu_ext_same; reflexivity.
Qed.

Lemma deliver_nonempty c s u un :
  reach c s -> nth_error (units s) u = Some un -> u_st un = UAtDeliver -> responses (unit_tasks s u) <> [].
Proof.
  intros R N St. apply responses_nonempty. rewrite unit_resp_shape.
  eapply inv_deliver_reachf; eauto. apply reach_reachf; eauto.
Qed.

Lemma whole_messages c s l s' os ok b rs :
  reach c s -> step s l = Some (s', os) -> In (OSend ok b rs) os -> rs <> [].
Proof.
  intros R H I.
  destruct (sends_in_critical_sections _ _ _ _ H) as (s1 & os1 & _ & _ & C & _).
  assert (I' : In (OSend ok b rs) (filter is_chan_op os)) by (apply filter_In; split; auto).
  destruct C; cbn in I'; try tauto.
  - destruct I' as [I'|[]]; discriminate.
  - destruct I' as [I'|[]]. injection I' as <- <- <-. discriminate.
  - destruct I' as [I'|[]]. injection I' as <- <- <-. eapply deliver_nonempty; eauto.
  - destruct I' as [I'|[]]; discriminate.
  - destruct I' as [I'|[]]; discriminate.
Qed.

(** Examples *)
Definition tr_deliver : list label :=
  [LStart; LFeed (FMsg (InMsgs false [call_msg [55]%N [109]%N [50]%N])); LRelRead; LRelNext; LRelBarrier;
   LRelAcquire 0; LGate [50]%N (ORes [51]%N); LRelHandled 0].

Example whole_messages_nonvacuous :
  exists s s', reach cfg_push s /\
    step s (LRelDeliver 0) = Some (s', [OSend true false [{| r_id := [55]%N; r_body := BRes [51]%N |}]]).
Proof.
  destruct (run_state cfg_push tr_deliver) as [s|] eqn:E; [|discriminate E].
  exists s. eexists. split; [eapply run_state_reach; eauto|].
  vm_compute in E. injection E as <-. vm_compute. reflexivity.
Qed.

Example sends_in_critical_sections_nonvacuous :
  exists s s1 s2 s3, reach cfg_push s /\
    step s (LRelDeliver 0) = Some (s1, [OSend true false [{| r_id := [55]%N; r_body := BRes [51]%N |}]]) /\
    step s1 (LCallPush 5 false [109]%N []) = Some (s2, []) /\
    step s2 (LRelPush 5) = Some (s3, [OSendReq true [] [109]%N []; ORet 5 AOk]).
Proof.
  destruct (run_state cfg_push tr_deliver) as [s|] eqn:E; [|discriminate E].
  exists s. eexists. eexists. eexists. split; [eapply run_state_reach; eauto|].
  vm_compute in E. injection E as <-. split; [vm_compute; reflexivity|]. split; vm_compute; reflexivity.
Qed.

(** * Where push operations come from: [ops] only grows by the environment's calls *)
Definition is_push_op (o : op) : bool := match o with OpPush _ _ _ _ => true | _ => false end.

Lemma read_cs_ops f s : ops (fst (read_cs f s)) = ops s /\ c_push (fst (read_cs f s)) = c_push s.
Proof.
  destruct (read_cs f s) as [s' os] eqn:E. cbn [fst]. unfold read_cs in E.
  destruct f as [i|i|sc].
  1,2: destruct (negb (running s)); [injection E as <- <-; auto|];
       destruct i as [|b ms]; [cbn in E; injection E as <- <-; auto|];
       destruct ms as [|m0 ms0]; [cbn in E; injection E as <- <-; auto|];
       pose proof (filter_batch_sbc (m0 :: ms0) s [] []) as SB;
       destruct (filter_batch (m0 :: ms0) s [] []) as [[s1 keep] os1]; cbn [fst] in SB; apply sbc_fields in SB;
       destruct SB as (SB1 & _ & _ & _ & _ & SB2 & _);
       destruct keep; [injection E as <- <-; cbn; auto|];
       match type of E with (if ?b then _ else _) = _ => destruct b end; injection E as <- <-; cbn; auto.
  destruct (stop_locked sc s) as [s2 os2] eqn:SL. injection E as <- <-. cbn.
  apply stop_locked_spec in SL as [(_ & -> & _)|(_ & _ & _ & _ & _ & P & _ & _ & O & _)]; auto.
Qed.

Lemma in_del_op n o l : In o (del_op n l) -> In o l.
Proof. unfold del_op. intros H. apply filter_In in H. tauto. Qed.

Lemma raw_ops s l s' os :
  step_raw s l = Some (s', os) ->
  c_push s' = c_push s /\
  forall o, In o (ops s') ->
    In o (ops s) \/ (exists n w m p, l = LCallPush n w m p /\ c_push s = true /\ o = OpPush n w m p) \/
    is_push_op o = false.
Proof.
  intros H.
  destruct (neutral l) eqn:Neu.
  { apply step_raw_neutral in H as [P _]; auto. apply pv_fields in P.
    destruct P as (-> & _ & _ & _ & _ & _ & _ & -> & _). auto. }
  destruct l; try discriminate Neu; cbn [step_raw] in H.
  - destruct (negb (running s) && (wg s =? 0)); [|discriminate]. injection H as <- <-. cbn. auto.
  - injection H as <- <-. cbn. auto.
  - injection H as <- <-. cbn. split; auto. intros o I. apply in_app_iff in I as [I|[<-|[]]]; auto.
  - injection H as <- <-. cbn. split; auto. intros o I. apply in_app_iff in I as [I|[<-|[]]]; auto.
  - destruct (c_push s) eqn:P; injection H as <- <-; cbn; auto. split; auto.
    intros o I. apply in_app_iff in I as [I|[<-|[]]]; auto. right. left. exists n, wantid, method, params. auto.
  - destruct (find_idx _ 0 (cbs s)); injection H as <- <-; cbn; auto.
  - destruct (rd s) as [| |f|]; try discriminate. injection H as H.
    destruct (read_cs_ops f s) as [E1 E2]. rewrite H in E1, E2. cbn [fst] in *. rewrite E1, E2. auto.
  - destruct (find_op n (ops s)) as [[| |]|]; try discriminate.
    destruct (stop_locked SCStop _) as [s2 os2] eqn:SL. injection H as <- <-.
    apply stop_locked_spec in SL as [(_ & -> & _)|(_ & _ & _ & _ & _ & P & _ & _ & O & _)].
    + cbn. split; auto. intros o I. left. eapply in_del_op; eauto.
    + rewrite P, O. cbn. split; auto. intros o I. left. eapply in_del_op; eauto.
  - destruct (find_op n (ops s)) as [[| |]|]; try discriminate. cbn in H.
    assert (E : ops s' = del_op n (ops s) /\ c_push s' = c_push s).
    { destruct (assoc id (used s)); injection H as <- <-; [|auto].
      pose proof (cancel_task_pv n1 (s <| ops ::= del_op n |>)) as P. apply pv_fields in P.
      destruct P as (-> & _ & _ & _ & _ & _ & _ & -> & _). auto. }
    destruct E as [-> ->]. split; auto. intros o I. left. eapply in_del_op; eauto.
  - destruct (running s) eqn:Run.
    + destruct (push_one_request_raw _ _ _ _ H Run) as (w & m & p & _ & _ & _ & _ & ->).
      split; [|intros o I; left; eapply in_del_op; eauto].
      cbn [step_raw] in H. destruct (find_op n (ops s)) as [[| |n' w' m' p']|]; try discriminate. cbn in H.
      rewrite Run in H. cbn in H. destruct w'; [destruct (send_fail s)|]; injection H as <- _; reflexivity.
    + destruct (gate_conn_closed _ _ _ _ Run H) as [-> _]. cbn. split; auto.
      intros o I. left. eapply in_del_op; eauto.
  - destruct (nth_error (cbs s) c) as [cb0|] eqn:N; [|discriminate].
    destruct (cb_watch cb0); try discriminate.
    destruct (assoc _ _); [|injection H as <- <-; cbn; auto].
    destruct (cb_slot cb0); [injection H as <- <-; cbn; auto|].
    destruct (_ =? _); [|injection H as <- <-; cbn; auto].
    assert (E : exists v s1, ops s1 = ops s /\ c_push s1 = c_push s /\ complete_cb c v s1 = (s', os)).
    { destruct (cb_ctx cb0) as [[|]|]; injection H as H; eexists; eexists; (split; [|split; [|exact H]]); reflexivity. }
    destruct E as (v & s1 & E1 & E2 & E).
    pose proof (complete_cb_sbc c v s1) as SB. rewrite E in SB. cbn [fst] in SB. apply sbc_fields in SB.
    destruct SB as (-> & _ & _ & _ & _ & -> & _). rewrite E1, E2. auto.
Qed.

Lemma step_ops s l s' os :
  step s l = Some (s', os) ->
  c_push s' = c_push s /\
  forall o, In o (ops s') ->
    In o (ops s) \/ (exists n w m p, l = LCallPush n w m p /\ c_push s = true /\ o = OpPush n w m p) \/
    is_push_op o = false.
Proof.
  intros H. apply step_obs_raw in H as (_ & s1 & os1 & ex & Raw & _ & _ & P).
  apply pv_fields in P. destruct P as (-> & _ & _ & _ & _ & _ & _ & -> & _).
  eapply raw_ops; eauto.
Qed.

(* every request the server pushes carries the method (and params) of a push call the environment made *)
Lemma sendreq_from_ops s l s' os ok id m p :
  step s l = Some (s', os) -> In (OSendReq ok id m p) os -> exists n w, In (OpPush n w m p) (ops s) /\ c_push s' = c_push s.
Proof.
  intros H I. destruct (step_ops _ _ _ _ H) as [CP _].
  destruct (sends_in_critical_sections _ _ _ _ H) as (s1 & os1 & _ & _ & C & _).
  assert (I' : In (OSendReq ok id m p) (filter is_chan_op os)) by (apply filter_In; split; auto).
  destruct C; cbn in I'; try tauto; destruct I' as [I'|[]]; try discriminate I'.
  injection I' as _ _ <- <-. eauto.
Qed.

Definition ops_from (P : nat -> bool -> bytes -> bytes -> Prop) (s : state) : Prop :=
  forall n w m p, In (OpPush n w m p) (ops s) -> P n w m p.

Lemma run_ops_from (P : nat -> bool -> bytes -> bytes -> Prop) : forall tr s s' oss,
  ops_from P s -> (forall n w m p, In (LCallPush n w m p) tr -> c_push s = true -> P n w m p) ->
  run s tr = Some (s', oss) ->
  forall ok id m p, In (OSendReq ok id m p) (concat oss) -> exists n w, P n w m p.
Proof.
  induction tr as [|l r IH]; cbn; intros s s' oss O Env H ok id m p I.
  - injection H as <- <-. destruct I.
  - destruct (step s l) as [[s1 os]|] eqn:E; [|discriminate].
    destruct (run s1 r) as [[s2 oss2]|] eqn:E2; [|discriminate].
    injection H as <- <-. cbn in I. apply in_app_iff in I as [I|I].
    + destruct (sendreq_from_ops _ _ _ _ _ _ _ _ E I) as (n & w & Io & _). eauto.
    + destruct (step_ops _ _ _ _ E) as [CP Ops].
      eapply (IH s1); [| |exact E2|exact I].
      * intros n w m' p' Io. destruct (Ops _ Io) as [Old|[(n0 & w0 & m0 & p0 & -> & CPt & Eq)|NP]].
        -- apply O; auto.
        -- injection Eq as -> -> -> ->. apply Env; auto.
        -- discriminate NP.
      * intros n w m' p' Il CP1. apply Env; auto. congruence.
Qed.

Lemma ops_from_init P c : ops_from P (init_of c).
Proof. intros n w m p []. Qed.

(* C10.B3, requests: a pushed request has a non-empty method whenever the environment's push calls do *)
Lemma sendreq_method_nonempty c tr s oss :
  run (init_of c) tr = Some (s, oss) ->
  (forall n w m p, In (LCallPush n w m p) tr -> m <> []) ->
  forall ok id m p, In (OSendReq ok id m p) (concat oss) -> m <> [].
Proof.
  intros H Env ok id m p I.
  destruct (run_ops_from (fun _ _ m _ => m <> []) tr _ _ _ (ops_from_init _ c)
              (fun n w m p Il _ => Env n w m p Il) H ok id m p I) as (_ & _ & R). exact R.
Qed.

(* C09.1 over whole runs: without AllowPush no request is ever transmitted *)
Lemma no_push_no_request c tr s oss :
  cf_push c = false -> run (init_of c) tr = Some (s, oss) ->
  forall ok id m p, ~ In (OSendReq ok id m p) (concat oss).
Proof.
  intros P H ok id m p I.
  assert (Env : forall n w m p, In (LCallPush n w m p) tr -> c_push (init_of c) = true -> False).
  { intros n w m' p' _ CP. cbn in CP. congruence. }
  destruct (run_ops_from (fun _ _ _ _ => False) tr _ _ _ (ops_from_init _ c) Env H ok id m p I) as (_ & _ & []).
Qed.

Example sendreq_method_nonvacuous :
  exists s oss, run (init_of cfg_push) [LStart; LCallPush 5 false [109]%N []; LRelPush 5] = Some (s, oss) /\
    In (OSendReq true [] [109]%N []) (concat oss).
Proof. eexists. eexists. split; [vm_compute; reflexivity|]. cbn. auto. Qed.

Example no_push_no_request_nonvacuous :
  exists s oss, run (init_of cfg_nopush) [LStart; LCallPush 5 true [109]%N []; LCallPush 6 false [109]%N []] = Some (s, oss) /\
    oss = [[]; [ORet 5 APushUnsupported]; [ORet 6 APushUnsupported]] /\ step s (LRelPush 5) = None.
Proof. eexists. eexists. split; [vm_compute; reflexivity|]. split; vm_compute; reflexivity. Qed.
