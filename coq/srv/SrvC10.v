(* C10 (server half): one Close per Start, every channel operation inside one critical
   section, whole messages only.  Proofs about SrvModel; restated in props/C10.v. *)
From Coq Require Import List NArith ZArith Bool Arith Lia.
From RecordUpdate Require Import RecordUpdate.
From JV Require Import Bytes Msg SrvModel SrvLemmas SrvC09.
Import ListNotations.

Definition is_close (o : obs) : bool := match o with OClose => true | _ => false end.
Definition is_chan_op (o : obs) : bool := match o with OSend _ _ _ | OSendReq _ _ _ _ | OClose => true | _ => false end.

(** * Which label performs which channel operation *)
(* the channel operations among the observations of one critical section *)
Inductive chan_ops_of : label -> state -> list obs -> Prop :=
| co_none l s : chan_ops_of l s []
| co_read_close s : running s = true -> chan_ops_of LRelRead s [OClose]
| co_read_error s code msg :
    chan_ops_of LRelRead s [OSend (running s && negb (send_fail s)) false [{| r_id := null_bytes; r_body := BErr code msg |}]]
| co_deliver s u un :
    nth_error (units s) u = Some un -> u_st un = UAtDeliver ->
    chan_ops_of (LRelDeliver u) s
      [OSend (running s && negb (send_fail s)) (u_batch un) (responses (unit_tasks s u))]
| co_stop s n : running s = true -> chan_ops_of (LRelStop n) s [OClose]
| co_push s n w m p :
    running s = true -> In (OpPush n w m p) (ops s) ->
    chan_ops_of (LRelPush n) s [OSendReq (negb (send_fail s)) (if w then dec_of_nat (call_id s) else []) m p].

Lemma filter_chan_no_ret os : Forall (fun o => match o with ORet _ _ | OCrash _ | OStart _ _ | OGate _ _ | OWaitRet _ => True | _ => False end) os ->
  filter is_chan_op os = [].
Proof. induction 1 as [|o l H _ IH]; cbn; auto. destruct o; cbn in *; auto; tauto. Qed.

Lemma stop_locked_ops sc s s' os :
  stop_locked sc s = (s', os) -> (os = [] /\ s' = s) \/ (os = [OClose] /\ running s = true /\ running s' = false).
Proof.
  intros H. apply stop_locked_spec in H as [(_ & -> & ->)|(R & -> & R' & _)]; auto.
Qed.

Lemma filter_batch_obs_ret : forall ms s keep acc s' keep' acc',
  filter_batch ms s keep acc = (s', keep', acc') -> exists extra, acc' = acc ++ extra /\ Forall is_ret extra.
Proof.
  induction ms as [|m r IH]; intros s keep acc s' keep' acc' E; cbn [filter_batch] in E.
  - injection E as <- <- <-. exists []. rewrite app_nil_r. auto.
  - destruct (is_req_or_notif m); [eauto|].
    destruct (assoc (fix_id (j_id m)) (calls s)) as [i|].
    + destruct (complete_cb i _ s) as [s1 os1] eqn:C.
      destruct (IH _ _ _ _ _ _ E) as (ex & -> & F). exists (os1 ++ ex). rewrite app_assoc. split; auto.
      apply Forall_app; split; auto.
      unfold complete_cb in C. destruct (nth_error (cbs s) i) as [c|]; [|injection C as <- <-; auto].
      destruct (cb_ret c); injection C as <- <-; repeat constructor.
    + destruct (c_push s && is_nil (j_method m) && has_reply_fields m); eauto.
Qed.

Lemma release_ids_fields ts s :
  running (release_ids ts s) = running s /\ send_fail (release_ids ts s) = send_fail s.
Proof.
  pose proof (release_ids_pv ts s) as P. apply pv_fields in P. tauto.
Qed.

Lemma raw_chan_ops s l s' os :
  step_raw s l = Some (s', os) -> chan_ops_of l s (filter is_chan_op os).
Proof.
  intros H. destruct l; cbn [step_raw] in H.
  - destruct (negb (running s) && (wg s =? 0)); [|discriminate]. injection H as <- <-. constructor.
  - injection H as <- <-. constructor.
  - injection H as <- <-. constructor.
  - destruct (find_idx _ 0 (tasks s)) as [k|]; [|discriminate].
    destruct (nth_error (tasks s) k); [|discriminate]. injection H as <- <-. constructor.
  - injection H as <- <-. constructor.
  - injection H as <- <-. constructor.
  - destruct (c_push s); injection H as <- <-; constructor.
  - injection H as <- <-. constructor.
  - destruct (find_idx _ 0 (cbs s)); injection H as <- <-; constructor.
  - (* LRelRead *)
    destruct (rd s) as [| |f|]; try discriminate. injection H as H. unfold read_cs in H.
    destruct f as [i|i|sc].
    1,2: destruct (negb (running s)); [injection H as <- <-; constructor|];
         destruct i as [|b ms]; [cbn in H; injection H as <- <-; apply co_read_error|];
         destruct ms as [|m0 ms0]; [cbn in H; injection H as <- <-; apply co_read_error|];
         destruct (filter_batch (m0 :: ms0) s [] []) as [[s1 keep] os1] eqn:FB;
         destruct (filter_batch_obs_ret _ _ _ _ _ _ _ FB) as (ex & -> & F); cbn [app] in *;
         assert (Z : filter is_chan_op ex = []) by
           (apply filter_chan_no_ret; eapply Forall_impl; [|exact F]; intros []; cbn; tauto);
         destruct keep; [injection H as <- <-; rewrite Z; constructor|];
         match type of H with (if ?b then _ else _) = _ => destruct b end; injection H as <- <-;
         rewrite ?filter_app, Z; constructor.
    destruct (stop_locked sc s) as [s2 os2] eqn:SL. injection H as <- <-.
    apply stop_locked_ops in SL as [(-> & _)|(-> & R & _)]; [constructor|apply co_read_close; auto].
  - destruct (dp s); try discriminate. injection H as <- <-. constructor.
  - destruct (dp s); try discriminate. injection H as <- <-. constructor.
  - (* LRelAcquire *)
    destruct (nth_error (tasks s) k) as [t|]; [|discriminate].
    destruct (t_st t); try discriminate.
    destruct (negb (unit_running s t)); [discriminate|].
    destruct (t_cancelled t); [injection H as <- <-; constructor|].
    destruct (sem_free s) as [|fr]; [injection H as <- <-; constructor|].
    destruct (sem_wait s); [|injection H as <- <-; constructor].
    destruct (t_builtin t); injection H as <- <-; constructor.
  - (* LRelHandled *)
    destruct (nth_error (tasks s) k) as [t|]; [|discriminate].
    destruct (t_st t); try discriminate.
    match type of H with context [grant ?f ?s1 []] => destruct (grant f s1 []) as [s2 os2] eqn:G end.
    destruct (grant_obs _ _ _ _ _ G) as (ex & -> & F). cbn [app] in *.
    assert (Z : filter is_chan_op ex = []).
    { apply filter_chan_no_ret. eapply Forall_impl; [|exact F]. intros []; cbn; tauto. }
    destruct (is_note t).
    + destruct (nbar s2); injection H as <- <-; rewrite ?filter_app, Z; constructor.
    + injection H as <- <-. rewrite Z. constructor.
  - (* LRelDeliver *)
    destruct (nth_error (units s) u) as [un|] eqn:U; [|discriminate].
    destruct (u_st un) eqn:St; try discriminate.
    destruct (release_ids_fields (unit_tasks s u) s) as [E1 E2].
    destruct (negb (u_chok un)); injection H as <- <-; cbn; [constructor|].
    rewrite E1, E2. eapply co_deliver; eauto.
  - (* LRelStop *)
    destruct (find_op n (ops s)) as [[| |]|]; try discriminate.
    destruct (stop_locked SCStop _) as [s2 os2] eqn:SL. injection H as <- <-.
    apply stop_locked_ops in SL as [(-> & _)|(-> & R & _)]; cbn; [constructor|apply co_stop; auto].
  - destruct (find_op n (ops s)) as [[| |]|]; try discriminate. injection H as <- <-. constructor.
  - (* LRelPush *)
    destruct (running s) eqn:Run.
    + destruct (push_one_request_raw _ _ _ _ H Run) as (w & m & p & _ & I & -> & _).
      cbn. destruct (w && negb (send_fail s)); cbn; eapply co_push; eauto.
    + destruct (gate_conn_closed _ _ _ _ Run H) as [_ ->]. constructor.
  - (* LRelCbWatch *)
    destruct (nth_error (cbs s) c) as [cb0|] eqn:N; [|discriminate].
    destruct (cb_watch cb0); try discriminate.
    assert (F : Forall is_ret os).
    { destruct (assoc _ _); [|injection H as <- <-; constructor].
      destruct (cb_slot cb0); [injection H as <- <-; constructor|].
      destruct (_ =? _); [|injection H as <- <-; constructor].
      assert (E : exists v s1, complete_cb c v s1 = (s', os)) by (destruct (cb_ctx cb0) as [[|]|]; injection H as H; eauto).
      destruct E as (v & s1 & E). unfold complete_cb in E.
      destruct (nth_error (cbs s1) c) as [c1|]; [|injection E as <- <-; constructor].
      destruct (cb_ret c1); injection E as <- <-; repeat constructor. }
    rewrite filter_chan_no_ret; [constructor|]. eapply Forall_impl; [|exact F]. intros []; cbn; tauto.
Qed.

Lemma chan_ops_at_most_one l s os : chan_ops_of l s os -> length os <= 1.
Proof. destruct 1; cbn; lia. Qed.

Lemma settle_obs_no_chan extra : Forall settle_obs extra -> filter is_chan_op extra = [].
Proof. induction 1 as [|o l H _ IH]; cbn; auto. destruct o; cbn in *; auto; tauto. Qed.

(* C10.B2: every Send / Close of a window is made by its critical section (never by a wake-up),
   there is at most one per window, and only the four labels below make one *)
Lemma sends_in_critical_sections s l s' os :
  step s l = Some (s', os) ->
  exists s1 os1, step_raw s l = Some (s1, os1) /\
    filter is_chan_op os = filter is_chan_op os1 /\ chan_ops_of l s (filter is_chan_op os) /\
    length (filter is_chan_op os) <= 1.
Proof.
  intros H. apply step_obs_raw in H as (_ & s1 & os1 & ex & Raw & -> & Fx & _).
  exists s1, os1. split; auto.
  rewrite filter_app, (settle_obs_no_chan _ Fx), app_nil_r.
  pose proof (raw_chan_ops _ _ _ _ Raw) as C. repeat split; auto.
  eapply chan_ops_at_most_one; eauto.
Qed.

Lemma chan_op_labels l s os : chan_ops_of l s os -> os <> [] ->
  l = LRelRead \/ (exists u, l = LRelDeliver u) \/ (exists n, l = LRelStop n) \/ (exists n, l = LRelPush n).
Proof. destruct 1; intros N; eauto; congruence. Qed.
